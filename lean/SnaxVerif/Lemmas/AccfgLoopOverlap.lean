import SnaxVerif.Lemmas.AccfgMove
import SnaxVerif.Model.AccfgLoopOverlap
import SnaxVerif.Lemmas.AccfgTaint
/-! Loop-level overlap (rotation of the first setup of a loop body): correctness of the rotation (C06). -/
namespace SnaxVerif.Accfg

variable (cfg : Cfg)

/-! ### lists of pure statements -/

def stepPure (s : Stmt) (e : Env) : Env :=
  match s with
  | .pure d op args => setEnv e d (op.eval cfg (args.map e))
  | _ => e

def runPure : List Stmt → Env → Env
  | [], e => e
  | s :: r, e => runPure r (stepPure cfg s e)

theorem runPure_append (l1 l2 : List Stmt) (e : Env) : runPure cfg (l1 ++ l2) e = runPure cfg l2 (runPure cfg l1 e) := by
  induction l1 generalizing e with
  | nil => rfl
  | cons s r ih => simp [runPure, ih]

theorem exec_pure_list (gh : Bool) : ∀ (l : List Stmt), l.all isPure = true → ∀ st : St,
    execB cfg gh (Block.ofList l) st = { st with env := runPure cfg l st.env }
  | [], _, st => rfl
  | s :: r, h, st => by
      simp only [List.all_cons, Bool.and_eq_true] at h
      cases s with
      | pure d op args =>
        simp only [Block.ofList, execB, execS]
        rw [exec_pure_list gh r h.2]
        simp [runPure, stepPure]
      | _ => simp [isPure] at h

/-- pure and quiet statements: the environment changes like under the pure statements alone, the registers of `a` stay -/
theorem exec_quiet_list (gh : Bool) (a : AccId) : ∀ (l : List Stmt), l.all (fun s => isPure s || isQuiet a s) = true → ∀ st : St,
    (execB cfg gh (Block.ofList l) st).env = runPure cfg l st.env ∧
    ∀ f, (execB cfg gh (Block.ofList l) st).regs a f = st.regs a f
  | [], _, st => ⟨rfl, fun _ => rfl⟩
  | s :: r, h, st => by
      simp only [List.all_cons, Bool.and_eq_true] at h
      have ih := exec_quiet_list gh a r h.2 (execS cfg gh s st)
      simp only [Block.ofList, execB, runPure]
      have hs : (execS cfg gh s st).env = stepPure cfg s st.env ∧ ∀ f, (execS cfg gh s st).regs a f = st.regs a f := by
        cases s with
        | pure d op args => exact ⟨rfl, fun _ => rfl⟩
        | call t eff =>
          have : eff = false := by simpa [isPure, isQuiet] using h.1
          subst this
          exact ⟨rfl, fun _ => by simp [execS]⟩
        | await a' => exact ⟨rfl, fun _ => rfl⟩
        | setup a' fs' =>
          have hne : a' ≠ a := by simpa [isPure, isQuiet] using h.1
          refine ⟨rfl, fun f => ?_⟩
          simp only [execS, setRegs]
          rw [if_neg (fun h' => hne h'.symm)]
        | ghost a' fs' => simp [isPure, isQuiet] at h
        | launch a' lv => simp [isPure, isQuiet] at h
        | ifS c t e => simp [isPure, isQuiet] at h
        | forS lb ub st' iv b => simp [isPure, isQuiet] at h
      rw [ih.1, hs.1]
      exact ⟨rfl, fun f => by rw [ih.2 f, hs.2 f]⟩

/-- a variable no statement of the list defines keeps its value -/
theorem runPure_frame : ∀ (l : List Stmt) (e : Env) (x : Var), x ∉ l.flatMap pureDef → runPure cfg l e x = e x
  | [], _, _, _ => rfl
  | s :: r, e, x, h => by
      simp only [List.flatMap_cons, List.mem_append, not_or] at h
      simp only [runPure]
      rw [runPure_frame r _ x h.2]
      cases s <;> simp [stepPure, pureDef, setEnv] at h ⊢
      · exact fun hx => absurd hx h.1

/-- the result on a variable depends only on the values of the variables the list reads (and on the variable itself) -/
theorem runPure_congr : ∀ (l : List Stmt) (e e' : Env) (x : Var),
    (∀ y ∈ l.flatMap pureArgs, e y = e' y) → e x = e' x → (∀ y ∈ l.flatMap pureDef, e y = e' y) →
    runPure cfg l e x = runPure cfg l e' x := by
  intro l
  induction l with
  | nil => intro e e' x _ hx _; exact hx
  | cons s r ih =>
    intro e e' x ha hx hd
    simp only [runPure]
    simp only [List.flatMap_cons, List.mem_append] at ha hd
    have key : ∀ y, e y = e' y → stepPure cfg s e y = stepPure cfg s e' y := by
      intro y hy
      cases s with
      | pure d op args =>
        simp only [stepPure, setEnv]
        have : args.map e = args.map e' := List.map_congr_left (fun z hz => ha z (Or.inl (by simpa [pureArgs] using hz)))
        rw [this]; split <;> simp [hy]
      | _ => simpa [stepPure] using hy
    apply ih
    · intro y hy; exact key y (ha y (Or.inr hy))
    · exact key x hx
    · intro y hy; exact key y (hd y (Or.inr hy))

/-! ### a setup that writes what the registers already hold -/

theorem setRegs_noop (regs : Regs) (env : Env) (a : AccId) (fs : List (Field × Var))
    (h : ∀ p ∈ fs, regs a p.1 = env p.2) : setRegs regs env a fs = regs := by
  funext a' f
  simp only [setRegs]
  split
  · next hab =>
    subst hab
    cases hl : fs.lookup f with
    | none => rfl
    | some x =>
      obtain ⟨l1, l2, hfs, _⟩ := List.lookup_eq_some_iff.mp hl
      exact (h (f, x) (by simp [hfs])).symm
  · rfl


/-! ### values computed by a list of pure statements in SSA order -/

theorem mem_pureDef {l : List Stmt} {d : Var} {op : PureOp} {args : List Var} (h : Stmt.pure d op args ∈ l) :
    d ∈ l.flatMap pureDef :=
  List.mem_flatMap.mpr ⟨_, h, by simp [pureDef]⟩

/-- after the list has run, every variable it defines holds its operation applied to the final values of the operands -/
theorem runPure_val : ∀ (l : List Stmt) (E : Env) (d : Var) (op : PureOp) (args : List Var), pureSSA l = true →
    Stmt.pure d op args ∈ l → runPure cfg l E d = op.eval cfg (args.map (runPure cfg l E))
  | [], _, _, _, _, _, h => by cases h
  | s :: r, E, d, op, args, hs, h => by
      simp only [pureSSA, Bool.and_eq_true, List.all_eq_true, Bool.not_eq_true', List.contains_eq_mem,
        decide_eq_false_iff_not, List.mem_append] at hs
      obtain ⟨⟨hlater, hself⟩, hr⟩ := hs
      simp only [runPure]
      rcases List.mem_cons.mp h with heq | hmem
      · subst heq
        have hd : d ∉ r.flatMap pureDef := hlater d (Or.inl (by simp [pureDef]))
        have ha : ∀ y ∈ args, y ∉ r.flatMap pureDef := fun y hy => hlater y (Or.inr (by simpa [pureArgs] using hy))
        have hne : ∀ y ∈ args, y ≠ d := fun y hy => by
          have := hself y (by simpa [pureArgs] using hy)
          simpa [pureDef] using this
        rw [runPure_frame cfg r _ d hd]
        have : args.map (runPure cfg r (stepPure cfg (Stmt.pure d op args) E)) = args.map E := by
          apply List.map_congr_left
          intro y hy
          rw [runPure_frame cfg r _ y (ha y hy)]
          simp [stepPure, setEnv, hne y hy]
        rw [this]
        simp [stepPure, setEnv]
      · exact runPure_val r _ d op args hr hmem

/-! ### cloning a chain with renamed operands -/

theorem inputChain_sub : ∀ (R : List Stmt) (need : List Var) (s : Stmt), s ∈ inputChain R need → s ∈ R
  | [], _, _, h => by simp [inputChain] at h
  | t :: r, need, s, h => by
      cases t with
      | pure d op args =>
        simp only [inputChain] at h
        split at h
        · rcases List.mem_append.mp h with h | h
          · exact List.mem_cons_of_mem _ (inputChain_sub r _ s h)
          · simp only [List.mem_singleton] at h; subst h; exact List.mem_cons_self
        · exact List.mem_cons_of_mem _ (inputChain_sub r _ s h)
      | _ => simp only [inputChain] at h; exact List.mem_cons_of_mem _ (inputChain_sub r _ s h)

theorem renameVar_some {m : List (Var × Var)} {x y : Var} (h : m.lookup x = some y) : renameVar m x = y := by
  simp [renameVar, h]

theorem renameVar_none {m : List (Var × Var)} {x : Var} (h : x ∉ m.map (·.1)) : renameVar m x = x := by
  have : m.lookup x = none := by
    rw [List.lookup_eq_none_iff]
    intro p hp
    simp only [bne_iff_ne, ne_eq]
    intro hpx
    exact h (List.mem_map.mpr ⟨p, hp, hpx.symm⟩)
  simp [renameVar, this]

theorem lookup_isSome_of_mem {m : List (Var × Var)} {x : Var} (h : x ∈ m.map (·.1)) : ∃ y, m.lookup x = some y := by
  cases hl : m.lookup x with
  | some y => exact ⟨y, rfl⟩
  | none =>
    rw [List.lookup_eq_none_iff] at hl
    obtain ⟨p, hp, hpx⟩ := List.mem_map.mp h
    have := hl p hp
    simp only [bne_iff_ne, ne_eq] at this
    exact absurd hpx.symm this

/-- what the clones have computed so far: the clone of `y` holds the value `val y`, and its id is below the next fresh id -/
structure CloneInv (val : Env) (e' : Env) (m : List (Var × Var)) (F : Nat) : Prop where
  ok : ∀ y y', m.lookup y = some y' → e' y' = val y
  lt : ∀ y y', m.lookup y = some y' → y' < F

theorem clone_inv (pre : List Stmt) (E e : Env) (iv : Var) (F0 : Nat) (hssa : pureSSA pre = true) (Rd : Var → Prop)
    (hfree : ∀ y, Rd y → y ∉ pre.flatMap pureDef → y ≠ iv → E y = e y) :
    ∀ (chain : List Stmt) (m : List (Var × Var)) (F : Nat) (e' : Env), F0 ≤ F → (∀ s ∈ chain, s ∈ pre) →
      closedChain (pre.flatMap pureDef) iv chain (m.map (·.1)) = true →
      (∀ s ∈ chain, ∀ y ∈ pureArgs s, y < F0 ∧ Rd y) →
      (∀ y, y < F0 → e' y = e y) → CloneInv (runPure cfg pre E) e' m F →
      CloneInv (runPure cfg pre E) (runPure cfg (cloneChain chain m F).1 e') (cloneChain chain m F).2.1 (cloneChain chain m F).2.2
      ∧ (∀ y, y < F0 → runPure cfg (cloneChain chain m F).1 e' y = e y)
      ∧ (∀ x, x ∈ (cloneChain chain m F).2.1.map (·.1) ↔ x ∈ chain.flatMap pureDef ∨ x ∈ m.map (·.1))
  | [], m, F, e', _, _, _, _, hag, hinv => by
      simp only [cloneChain, runPure]
      exact ⟨hinv, hag, fun x => by simp⟩
  | s :: r, m, F, e', hF, hsub, hcl, hlt, hag, hinv => by
      cases s
      case pure d op args =>
        simp only [closedChain, Bool.and_eq_true, List.all_eq_true, Bool.or_eq_true, List.contains_eq_mem,
          decide_eq_true_eq, Bool.not_eq_true', decide_eq_false_iff_not, bne_iff_ne, ne_eq] at hcl
        obtain ⟨hargs, hcl'⟩ := hcl
        have hmem : Stmt.pure d op args ∈ pre := hsub _ List.mem_cons_self
        have hval := runPure_val cfg pre E d op args hssa hmem
        -- operands of the clone evaluate to the final values of the originals
        have hops : (args.map (renameVar m)).map e' = args.map (runPure cfg pre E) := by
          rw [List.map_map]
          apply List.map_congr_left
          intro y hy
          simp only [Function.comp]
          rcases hargs y hy with hk | ⟨hnp, hniv⟩
          · obtain ⟨y', hy'⟩ := lookup_isSome_of_mem hk
            rw [renameVar_some hy']
            exact hinv.ok y y' hy'
          · have hnk : y ∉ m.map (·.1) ∨ y ∈ m.map (·.1) := (Classical.em _).symm
            rcases hnk with hnk | hk
            · rw [renameVar_none hnk, hag y (hlt _ List.mem_cons_self y (by simpa [pureArgs] using hy)).1,
                ← hfree y (hlt _ List.mem_cons_self y (by simpa [pureArgs] using hy)).2 hnp hniv, runPure_frame cfg pre E y hnp]
            · obtain ⟨y', hy'⟩ := lookup_isSome_of_mem hk
              rw [renameVar_some hy']
              exact hinv.ok y y' hy'
        -- the invariant after the clone of this statement
        let e'' : Env := setEnv e' F (op.eval cfg ((args.map (renameVar m)).map e'))
        have hinv' : CloneInv (runPure cfg pre E) e'' ((d, F) :: m) (F + 1) := by
          constructor
          · intro y y' hl
            simp only [List.lookup_cons] at hl
            split at hl
            · next hyd =>
              injection hl with hl; subst hl
              have : y = d := by simpa using hyd
              subst this
              show setEnv e' F _ F = _
              simp only [setEnv, if_true, hops, hval]
            · have hlt' := hinv.lt y y' hl
              show setEnv e' F _ y' = _
              simp only [setEnv]
              rw [if_neg (Nat.ne_of_lt hlt')]
              exact hinv.ok y y' hl
          · intro y y' hl
            simp only [List.lookup_cons] at hl
            split at hl
            · injection hl with hl; subst hl; exact Nat.lt_succ_self _
            · exact Nat.lt_succ_of_lt (hinv.lt y y' hl)
        have hag' : ∀ y, y < F0 → e'' y = e y := by
          intro y hy
          show setEnv e' F _ y = _
          simp only [setEnv]
          rw [if_neg (Nat.ne_of_lt (Nat.lt_of_lt_of_le hy hF))]
          exact hag y hy
        have ih := clone_inv pre E e iv F0 hssa Rd hfree r ((d, F) :: m) (F + 1) e'' (by omega)
          (fun s hs => hsub s (List.mem_cons_of_mem _ hs)) (by simpa using hcl')
          (fun s hs => hlt s (List.mem_cons_of_mem _ hs)) hag' hinv'
        simp only [cloneChain, runPure, stepPure]
        refine ⟨ih.1, ih.2.1, ?_⟩
        intro x
        rw [ih.2.2 x]
        simp only [List.flatMap_cons, pureDef, List.map_cons, List.mem_cons, List.mem_append, List.not_mem_nil, or_false]
        constructor
        · rintro (h | h | h)
          · exact Or.inl (Or.inr h)
          · exact Or.inl (Or.inl h)
          · exact Or.inr h
        · rintro ((h | h) | h)
          · exact Or.inr (Or.inl h)
          · exact Or.inl h
          · exact Or.inr (Or.inr h)
      all_goals
        simp only [closedChain] at hcl
        have ih := clone_inv pre E e iv F0 hssa Rd hfree r m F e' hF
          (fun s hs => hsub s (List.mem_cons_of_mem _ hs)) hcl
          (fun s hs => hlt s (List.mem_cons_of_mem _ hs)) hag hinv
        simpa [cloneChain, pureDef] using ih


/-- **the clones compute what `pre` will compute**: run from an environment `e`, the cloned chain (with the induction
variable renamed to `X`) leaves in the clone of every needed variable the value that `pre` gives it when the
induction variable holds the value of `X` -/
theorem clone_correct (pre : List Stmt) (need : List Var) (iv X : Var) (e : Env) (F0 : Nat)
    (hssa : pureSSA pre = true) (hiv : iv ∉ pre.flatMap pureDef)
    (hcl : closedChain (pre.flatMap pureDef) iv (inputChain pre.reverse need) [iv] = true)
    (hcov : ∀ x ∈ need, x ∈ iv :: (inputChain pre.reverse need).flatMap pureDef ∨ x ∉ pre.flatMap pureDef)
    (hX : X < F0) (hreads : ∀ s ∈ pre, ∀ y ∈ pureArgs s, y < F0) (hneed : ∀ x ∈ need, x < F0) :
    (∀ x ∈ need, runPure cfg (cloneChain (inputChain pre.reverse need) [(iv, X)] F0).1 e
        (renameVar (cloneChain (inputChain pre.reverse need) [(iv, X)] F0).2.1 x)
      = runPure cfg pre (setEnv e iv (e X)) x)
    ∧ (∀ y, y < F0 → runPure cfg (cloneChain (inputChain pre.reverse need) [(iv, X)] F0).1 e y = e y) := by
  have hfree : ∀ y, True → y ∉ pre.flatMap pureDef → y ≠ iv → setEnv e iv (e X) y = e y := by
    intro y _ _ hy; simp [setEnv, hy]
  have hviv : runPure cfg pre (setEnv e iv (e X)) iv = e X := by
    rw [runPure_frame cfg pre _ iv hiv]; simp [setEnv]
  have hinit : CloneInv (runPure cfg pre (setEnv e iv (e X))) e [(iv, X)] F0 := by
    constructor
    · intro y y' hl
      simp only [List.lookup_cons, List.lookup_nil] at hl
      split at hl
      · next hy =>
        injection hl with hl; subst hl
        have : y = iv := by simpa using hy
        subst this; exact hviv.symm
      · cases hl
    · intro y y' hl
      simp only [List.lookup_cons, List.lookup_nil] at hl
      split at hl
      · injection hl with hl; subst hl; exact hX
      · cases hl
  obtain ⟨hinv, hag, hkeys⟩ := clone_inv cfg pre (setEnv e iv (e X)) e iv F0 hssa (fun _ => True) hfree
    (inputChain pre.reverse need) [(iv, X)] F0 e (Nat.le_refl _)
    (fun s hs => List.mem_reverse.mp (inputChain_sub _ _ s hs)) (by simpa using hcl)
    (fun s hs y hy => ⟨hreads s (List.mem_reverse.mp (inputChain_sub _ _ s hs)) y hy, trivial⟩) (fun _ _ => rfl) hinit
  refine ⟨?_, hag⟩
  intro x hx
  have hmapped : x ∈ (cloneChain (inputChain pre.reverse need) [(iv, X)] F0).2.1.map (·.1) →
      runPure cfg (cloneChain (inputChain pre.reverse need) [(iv, X)] F0).1 e
        (renameVar (cloneChain (inputChain pre.reverse need) [(iv, X)] F0).2.1 x)
      = runPure cfg pre (setEnv e iv (e X)) x := by
    intro hk
    obtain ⟨y', hy'⟩ := lookup_isSome_of_mem hk
    rw [renameVar_some hy']
    exact hinv.ok x y' hy'
  by_cases hk : x ∈ (cloneChain (inputChain pre.reverse need) [(iv, X)] F0).2.1.map (·.1)
  · exact hmapped hk
  · have hnk := hk
    rw [hkeys x] at hnk
    simp only [List.map_cons, List.map_nil, List.mem_singleton, not_or] at hnk
    have hnp : x ∉ pre.flatMap pureDef := by
      rcases hcov x hx with h | h
      · rcases List.mem_cons.mp h with h | h
        · exact absurd h hnk.2
        · exact absurd h hnk.1
      · exact h
    rw [renameVar_none hk, hag x (hneed x hx), runPure_frame cfg pre _ x hnp]
    simp [setEnv, hnk.2]

/-! ### what a setup of renamed variables leaves in the registers -/

theorem lookup_renamed (ρ : Var → Var) : ∀ (fs : List (Field × Var)), (fs.map (·.1)).Nodup → ∀ p ∈ fs,
    (fs.map fun q => (q.1, ρ q.2)).lookup p.1 = some (ρ p.2)
  | [], _, _, h => by cases h
  | q :: r, hnd, p, hp => by
      simp only [List.map_cons, List.nodup_cons] at hnd
      simp only [List.map_cons, List.lookup_cons]
      rcases List.mem_cons.mp hp with h | h
      · subst h; simp
      · have hne : p.1 ≠ q.1 := fun he => hnd.1 (he ▸ List.mem_map_of_mem h)
        have : (p.1 == q.1) = false := by simpa using hne
        rw [this]
        exact lookup_renamed ρ r hnd.2 p h

theorem setRegs_renamed (regs : Regs) (env : Env) (a : AccId) (fs : List (Field × Var)) (ρ : Var → Var)
    (hnd : (fs.map (·.1)).Nodup) : ∀ p ∈ fs, setRegs regs env a (fs.map fun q => (q.1, ρ q.2)) a p.1 = env (ρ p.2) := by
  intro p hp
  simp only [setRegs, if_true, lookup_renamed ρ fs hnd p hp]


/-! ### the rotation -/

theorem cloneChain_props : ∀ (chain : List Stmt) (m : List (Var × Var)) (F : Nat),
    F ≤ (cloneChain chain m F).2.2 ∧ (cloneChain chain m F).1.all isPure = true
  | [], m, F => by simp [cloneChain]
  | s :: r, m, F => by
      cases s
      case pure d op args =>
        have ih := cloneChain_props r ((d, F) :: m) (F + 1)
        simp only [cloneChain, List.all_cons, isPure, Bool.true_and]
        exact ⟨Nat.le_trans (Nat.le_succ F) ih.1, ih.2⟩
      all_goals
        simpa [cloneChain] using cloneChain_props r m F

theorem iterFrom_congr_idx {σ} (f g : Nat → σ → σ) (P : Nat → σ → Prop)
    (h : ∀ k x, P k x → g k x = f k x ∧ P (k + 1) (f k x)) : ∀ n k s, P k s → iterFrom g n k s = iterFrom f n k s
  | 0, _, _, _ => rfl
  | n+1, k, s, hp => by
      simp only [iterFrom]
      rw [(h k s hp).1]
      exact iterFrom_congr_idx f g P h n (k + 1) (f k s) (h k s hp).2

theorem execL_append (gh : Bool) (l1 l2 : List Stmt) (st : St) :
    execB cfg gh (Block.ofList (l1 ++ l2)) st = execB cfg gh (Block.ofList l2) (execB cfg gh (Block.ofList l1) st) := by
  rw [ofList_append, execB_append]

/-! ### the cloned chain is always closed (the two conjuncts of `loopSide` about the chain follow from SSA order) -/

theorem closedChain_append (predefs : List Var) (iv : Var) : ∀ (l1 l2 : List Stmt) (K : List Var),
    closedChain predefs iv (l1 ++ l2) K
      = (closedChain predefs iv l1 K && closedChain predefs iv l2 ((l1.flatMap pureDef).reverse ++ K))
  | [], l2, K => by simp [closedChain]
  | s :: r, l2, K => by
      cases s
      case pure d op args =>
        simp only [List.cons_append, closedChain, closedChain_append predefs iv r l2 (d :: K), List.flatMap_cons, pureDef,
          List.reverse_append, List.reverse_cons, List.reverse_nil, List.nil_append, List.append_assoc, List.singleton_append,
          Bool.and_assoc]
      all_goals
        simp only [List.cons_append, closedChain, closedChain_append predefs iv r l2 K, List.flatMap_cons, pureDef,
          List.nil_append]

/-- closedness only depends on the set of mapped variables -/
theorem closedChain_congr (predefs : List Var) (iv : Var) : ∀ (l : List Stmt) (K K' : List Var), (∀ x, x ∈ K ↔ x ∈ K') →
    closedChain predefs iv l K = closedChain predefs iv l K'
  | [], _, _, _ => rfl
  | s :: r, K, K', h => by
      have hc : ∀ y, K.contains y = K'.contains y := fun y => by
        rw [Bool.eq_iff_iff]; simp only [List.contains_eq_mem, decide_eq_true_eq]; exact h y
      cases s
      case pure d op args =>
        simp only [closedChain]
        rw [closedChain_congr predefs iv r (d :: K) (d :: K') (fun x => by simp only [List.mem_cons, h x])]
        have hf : (fun y => K.contains y || (!predefs.contains y && y != iv))
            = (fun y => K'.contains y || (!predefs.contains y && y != iv)) := by
          funext y; rw [hc y]
        rw [hf]
      all_goals
        simp only [closedChain]; exact closedChain_congr predefs iv r K K' h

/-- in an SSA-ordered list, an operand of a statement that the list defines is defined by an earlier statement -/
theorem ssa_arg_defined_before : ∀ (A : List Stmt) (s : Stmt) (B : List Stmt), pureSSA (A ++ s :: B) = true →
    ∀ y ∈ pureArgs s, y ∈ (A ++ s :: B).flatMap pureDef → y ∈ A.flatMap pureDef
  | [], s, B, h, y, hy, hd => by
      simp only [List.nil_append, pureSSA, Bool.and_eq_true, List.all_eq_true, Bool.not_eq_true', List.contains_eq_mem,
        decide_eq_false_iff_not, List.mem_append] at h
      simp only [List.nil_append, List.flatMap_cons, List.mem_append] at hd
      rcases hd with hd | hd
      · exact absurd hd (h.1.2 y hy)
      · exact absurd hd (h.1.1 y (Or.inr hy))
  | a :: A, s, B, h, y, hy, hd => by
      simp only [List.cons_append, pureSSA, Bool.and_eq_true] at h
      simp only [List.cons_append, List.flatMap_cons, List.mem_append] at hd ⊢
      rcases hd with hd | hd
      · exact Or.inl hd
      · exact Or.inr (ssa_arg_defined_before A s B h.2 y hy hd)

/-- the chain computed by `inputChain` on a prefix (given reversed, `R`) of an SSA-ordered list: it is closed, and it defines
every needed variable that the prefix defines -/
theorem inputChain_closed (pre : List Stmt) (iv : Var) (hssa : pureSSA pre = true) :
    ∀ (R B : List Stmt), pre = R.reverse ++ B → ∀ (need : List Var) (K : List Var), iv ∈ K →
      closedChain (pre.flatMap pureDef) iv (inputChain R need) K = true ∧
      (∀ x ∈ need, x ∈ R.reverse.flatMap pureDef → x ∈ (inputChain R need).flatMap pureDef)
  | [], _, _, need, K, _ => by simp [inputChain, closedChain]
  | s :: R, B, hpre, need, K, hK => by
      have hpre' : pre = R.reverse ++ s :: B := by rw [hpre]; simp
      cases s
      case pure d op args =>
        simp only [inputChain]
        split
        · next hneed =>
          obtain ⟨ihc, ihcov⟩ := inputChain_closed pre iv hssa R (Stmt.pure d op args :: B) hpre' (need ++ args) K hK
          refine ⟨?_, ?_⟩
          · rw [closedChain_append, ihc, Bool.true_and]
            simp only [closedChain, Bool.and_true, List.all_eq_true, Bool.or_eq_true, List.contains_eq_mem, decide_eq_true_eq,
              Bool.and_eq_true, Bool.not_eq_true', decide_eq_false_iff_not, bne_iff_ne, ne_eq, List.mem_append, List.mem_reverse]
            intro y hy
            by_cases hyiv : y = iv
            · exact Or.inl (Or.inr (hyiv ▸ hK))
            by_cases hyp : y ∈ pre.flatMap pureDef
            · have hbefore := ssa_arg_defined_before R.reverse (Stmt.pure d op args) B (hpre' ▸ hssa) y
                (by simpa [pureArgs] using hy) (hpre' ▸ hyp)
              exact Or.inl (Or.inl (ihcov y (List.mem_append_right _ hy) hbefore))
            · exact Or.inr ⟨hyp, hyiv⟩
          · intro x hx hxd
            simp only [List.reverse_cons, List.flatMap_append, List.flatMap_cons, List.flatMap_nil, pureDef, List.mem_append,
              List.mem_singleton, List.append_nil] at hxd ⊢
            rcases hxd with hxd | hxd
            · exact Or.inl (ihcov x (List.mem_append_left _ hx) hxd)
            · exact Or.inr hxd
        · next hneed =>
          obtain ⟨ihc, ihcov⟩ := inputChain_closed pre iv hssa R (Stmt.pure d op args :: B) hpre' need K hK
          refine ⟨ihc, ?_⟩
          intro x hx hxd
          simp only [List.reverse_cons, List.flatMap_append, List.flatMap_cons, List.flatMap_nil, pureDef, List.mem_append,
            List.mem_singleton, List.append_nil] at hxd
          rcases hxd with hxd | hxd
          · exact ihcov x hx hxd
          · exact absurd (by simpa [hxd] using hx) hneed
      all_goals
        simp only [inputChain]
        obtain ⟨ihc, ihcov⟩ := inputChain_closed pre iv hssa R (_ :: B) hpre' need K hK
        refine ⟨ihc, ?_⟩
        intro x hx hxd
        simp only [List.reverse_cons, List.flatMap_append, List.flatMap_cons, List.flatMap_nil, pureDef, List.append_nil] at hxd
        exact ihcov x hx hxd

/-- the side conditions of the rotation, unpacked -/
structure RotSide (a : AccId) (fs : List (Field × Var)) (pre after : List Stmt) (lb ub st iv : Var) (fresh : Nat) : Prop where
  hpure : pre.all (fun s => isPure s || isQuiet a s) = true
  hssa : pureSSA pre = true
  hiv : iv ∉ pre.flatMap pureDef
  hnd : (fs.map (·.1)).Nodup
  hcl : closedChain (pre.flatMap pureDef) iv (inputChain pre.reverse (fs.map (·.2))) [iv] = true
  hcov : ∀ x ∈ fs.map (·.2), x ∈ iv :: (inputChain pre.reverse (fs.map (·.2))).flatMap pureDef ∨ x ∉ pre.flatMap pureDef
  hst : st ∉ pre.flatMap pureDef ++ defsB (Block.ofList after)
  hivb : iv ∉ pre.flatMap pureDef ++ defsB (Block.ofList after)
  hne : st ≠ iv
  hlt : ∀ x ∈ [lb, ub, st, iv] ++ (pre.flatMap pureDef ++ defsB (Block.ofList after)) ++ readsB (Block.ofList (pre ++ after))
      ++ fs.map (·.2), x < fresh

theorem loopSide_unpack {a : AccId} {fs : List (Field × Var)} {pre after : List Stmt} {lb ub st iv : Var} {fresh : Nat}
    (h : loopSide a fs pre after lb ub st iv fresh = true) : RotSide a fs pre after lb ub st iv fresh := by
  simp only [loopSide, Bool.and_eq_true, Bool.not_eq_true', List.contains_eq_mem, decide_eq_false_iff_not,
    decide_eq_true_eq, bne_iff_ne, ne_eq] at h
  obtain ⟨⟨⟨⟨⟨⟨⟨h1, h2⟩, h3⟩, h4⟩, h7⟩, h8⟩, h9⟩, h10⟩ := h
  have hc := inputChain_closed pre iv h2 pre.reverse [] (by simp) (fs.map (·.2)) [iv] (by simp)
  refine ⟨h1, h2, h3, h4, hc.1, ?_, h7, h8, h9, ?_⟩
  · intro x hx
    by_cases hp : x ∈ pre.flatMap pureDef
    · exact Or.inl (List.mem_cons_of_mem _ (hc.2 x hx (by simpa using hp)))
    · exact Or.inr hp
  · intro x hx
    have := (List.all_eq_true.mp h10) x hx
    simpa using this

theorem mem_readsB_ofList : ∀ (l : List Stmt) (s : Stmt) (y : Var), s ∈ l → y ∈ readsS s → y ∈ readsB (Block.ofList l)
  | [], _, _, h, _ => by cases h
  | t :: r, s, y, h, hy => by
      simp only [Block.ofList, readsB, List.mem_append]
      rcases List.mem_cons.mp h with h | h
      · subst h; exact Or.inl hy
      · exact Or.inr (mem_readsB_ofList r s y h hy)

theorem pureArgs_sub_reads (s : Stmt) (y : Var) (h : y ∈ pureArgs s) : y ∈ readsS s := by
  cases s <;> simp_all [pureArgs, readsS]

theorem exec_setup_noop (gh : Bool) (a : AccId) (fs : List (Field × Var)) (rest : List Stmt) (w : St)
    (h : ∀ p ∈ fs, w.regs a p.1 = w.env p.2) :
    execB cfg gh (Block.ofList (Stmt.setup a fs :: rest)) w = execB cfg gh (Block.ofList rest) w := by
  simp only [Block.ofList, execB, execS]
  rw [setRegs_noop _ _ _ _ h]

theorem succ_mul_step (L T : Int) (k : Nat) : L + (k : Int) * T + T = L + ((k + 1 : Nat) : Int) * T := by
  rw [Int.natCast_add, Int.add_mul, Int.add_assoc]; simp

set_option maxHeartbeats 400000 in
/-- **rotation of the first setup of a loop body.** After the cloned chain and the setup copy evaluated at the lower bound,
the loop whose body lost its first setup but ends with the copy evaluated at `iv + step` runs exactly like the loop that
still has it: at every iteration head the registers already hold what the setup would write. -/
theorem rot_loop (gh : Bool) (a : AccId) (fs : List (Field × Var)) (pre after : List Stmt) (lb ub st iv : Var) (fresh : Nat)
    (hs : RotSide a fs pre after lb ub st iv fresh)
    (c0l c1l : List Stmt) (m0 m1 : List (Var × Var)) (next f1 : Nat)
    (hc0 : cloneChain (inputChain pre.reverse (fs.map (·.2))) [(iv, lb)] fresh = (c0l, m0, next))
    (hc1 : cloneChain (inputChain pre.reverse (fs.map (·.2))) [(iv, next)] (next + 1) = (c1l, m1, f1))
    (u : St) :
    execS cfg gh (.forS lb ub st iv (Block.ofList (pre ++ (after ++ ((Stmt.pure next .add [iv, st] :: c1l) ++
        [Stmt.setup a (fs.map fun p => (p.1, renameVar m1 p.2))])))))
      (execB cfg gh (Block.ofList (c0l ++ [Stmt.setup a (fs.map fun p => (p.1, renameVar m0 p.2))])) u)
    = execS cfg gh (.forS lb ub st iv (Block.ofList (pre ++ (Stmt.setup a fs :: (after ++ ((Stmt.pure next .add [iv, st] :: c1l) ++
        [Stmt.setup a (fs.map fun p => (p.1, renameVar m1 p.2))]))))))
      (execB cfg gh (Block.ofList (c0l ++ [Stmt.setup a (fs.map fun p => (p.1, renameVar m0 p.2))])) u) := by
  -- facts about the fresh ids and the variables of the loop
  have hfn : fresh ≤ next := by
    have := (cloneChain_props (inputChain pre.reverse (fs.map (·.2))) [(iv, lb)] fresh).1; rw [hc0] at this; exact this
  have hp0 : c0l.all isPure = true := by
    have := (cloneChain_props (inputChain pre.reverse (fs.map (·.2))) [(iv, lb)] fresh).2; rw [hc0] at this; exact this
  have hp1 : c1l.all isPure = true := by
    have := (cloneChain_props (inputChain pre.reverse (fs.map (·.2))) [(iv, next)] (next + 1)).2; rw [hc1] at this; exact this
  have lt_lb : lb < fresh := hs.hlt lb (by simp)
  have lt_st : st < fresh := hs.hlt st (by simp)
  have lt_iv : iv < fresh := hs.hlt iv (by simp)
  have hreads : ∀ s ∈ pre, ∀ y ∈ pureArgs s, y < fresh := fun s hsm y hy =>
    hs.hlt y (by
      have := mem_readsB_ofList (pre ++ after) s y (List.mem_append_left _ hsm) (pureArgs_sub_reads s y hy)
      simp only [List.mem_append]; exact Or.inl (Or.inr this))
  have hneed : ∀ x ∈ fs.map (·.2), x < fresh := fun x hx => hs.hlt x (by simp only [List.mem_append]; exact Or.inr hx)
  have hpd : ∀ x ∈ pre.flatMap pureDef, x < fresh := fun x hx =>
    hs.hlt x (by simp only [List.mem_append]; exact Or.inl (Or.inl (Or.inr (Or.inl hx))))
  have hargs : ∀ x ∈ pre.flatMap pureArgs, x < fresh := fun x hx => by
    obtain ⟨s, hsm, hy⟩ := List.mem_flatMap.mp hx
    exact hreads s hsm x hy
  have hiv_after : iv ∉ defsB (Block.ofList after) := fun h => hs.hivb (List.mem_append_right _ h)
  have hst_after : st ∉ defsB (Block.ofList after) := fun h => hs.hst (List.mem_append_right _ h)
  have hst_pre : st ∉ pre.flatMap pureDef := fun h => hs.hst (List.mem_append_left _ h)
  -- the clones in front of the loop
  have hcc0 := clone_correct cfg pre (fs.map (·.2)) iv lb u.env fresh hs.hssa hs.hiv hs.hcl hs.hcov lt_lb hreads hneed
  rw [hc0] at hcc0
  -- the state at the loop
  have hw0 : execB cfg gh (Block.ofList (c0l ++ [Stmt.setup a (fs.map fun p => (p.1, renameVar m0 p.2))])) u
      = { u with env := runPure cfg c0l u.env,
                 regs := setRegs u.regs (runPure cfg c0l u.env) a (fs.map fun p => (p.1, renameVar m0 p.2)) } := by
    rw [execL_append, exec_pure_list cfg gh c0l hp0]
    simp [Block.ofList, execB, execS]
  rw [hw0]
  simp only [execS]
  apply iterFrom_congr_idx _ _
    (fun k x => x.env st = runPure cfg c0l u.env st ∧
      ∀ p ∈ fs, x.regs a p.1 = runPure cfg pre (setEnv x.env iv (runPure cfg c0l u.env lb + (k : Int) * runPure cfg c0l u.env st)) p.2)
  · -- one iteration
    intro k x ⟨hxst, hinv⟩
    -- after `pre`
    obtain ⟨hW1env, hW1regs⟩ := exec_quiet_list cfg gh a pre hs.hpure
      { x with env := setEnv x.env iv (runPure cfg c0l u.env lb + (k : Int) * runPure cfg c0l u.env st) }
    generalize hW1 : execB cfg gh (Block.ofList pre)
      { x with env := setEnv x.env iv (runPure cfg c0l u.env lb + (k : Int) * runPure cfg c0l u.env st) } = W1 at hW1env hW1regs
    have hb1 : ∀ rest, execB cfg gh (Block.ofList (pre ++ rest))
          { x with env := setEnv x.env iv (runPure cfg c0l u.env lb + (k : Int) * runPure cfg c0l u.env st) }
        = execB cfg gh (Block.ofList rest) W1 :=
      fun rest => by rw [execL_append, hW1]
    have hb2 : ∀ rest, execB cfg gh (Block.ofList (pre ++ (Stmt.setup a fs :: rest)))
          { x with env := setEnv x.env iv (runPure cfg c0l u.env lb + (k : Int) * runPure cfg c0l u.env st) }
        = execB cfg gh (Block.ofList rest) W1 :=
      fun rest => by
        rw [execL_append, hW1]
        exact exec_setup_noop cfg gh a fs rest _ (fun p hp => by rw [hW1regs, hW1env]; exact hinv p hp)
    constructor
    · rw [hb1, hb2]
    · rw [hb2]
      rw [execL_append, execL_append,
        exec_pure_list cfg gh (Stmt.pure next PureOp.add [iv, st] :: c1l) (by simp [isPure, hp1])]
      -- the state after `after`
      generalize hw2 : execB cfg gh (Block.ofList after) W1 = w2
      have h2iv : w2.env iv = runPure cfg c0l u.env lb + (k : Int) * runPure cfg c0l u.env st := by
        rw [← hw2, envB_frame cfg gh _ iv hiv_after, hW1env]
        rw [runPure_frame cfg pre _ iv hs.hiv]; simp [setEnv]
      have h2st : w2.env st = runPure cfg c0l u.env st := by
        rw [← hw2, envB_frame cfg gh _ st hst_after, hW1env]
        rw [runPure_frame cfg pre _ st hst_pre]; simp [setEnv, hs.hne, hxst]
      -- the clones at the end of the body
      have hcc1 := clone_correct cfg pre (fs.map (·.2)) iv next
        (setEnv w2.env next (w2.env iv + w2.env st)) (next + 1) hs.hssa hs.hiv hs.hcl hs.hcov (Nat.lt_succ_self _)
        (fun s hsm y hy => Nat.lt_succ_of_le (Nat.le_trans (Nat.le_of_lt (hreads s hsm y hy)) hfn))
        (fun y hy => Nat.lt_succ_of_le (Nat.le_trans (Nat.le_of_lt (hneed y hy)) hfn))
      rw [hc1] at hcc1
      simp only [Block.ofList, execB, execS, runPure, stepPure, PureOp.eval, List.map]
      have hbelow : ∀ y, y < fresh → runPure cfg c1l (setEnv w2.env next (w2.env iv + w2.env st)) y = w2.env y := by
        intro y hy
        rw [hcc1.2 y (Nat.lt_succ_of_le (Nat.le_trans (Nat.le_of_lt hy) hfn))]
        simp only [setEnv]
        rw [if_neg (Nat.ne_of_lt (Nat.lt_of_lt_of_le hy hfn))]
      refine ⟨?_, ?_⟩
      · show runPure cfg c1l _ st = _
        rw [hbelow st lt_st, h2st]
      · intro p hp
        rw [setRegs_renamed _ _ _ _ _ hs.hnd p hp]
        rw [hcc1.1 p.2 (List.mem_map_of_mem hp)]
        apply runPure_congr
        · intro y hy
          have hyl := hargs y hy
          simp only [setEnv]
          split
          · simp only [if_true, h2iv, h2st]
            exact succ_mul_step _ _ k
          · rw [hbelow y hyl]
            rw [if_neg (Nat.ne_of_lt (Nat.lt_of_lt_of_le hyl hfn))]
        · have hyl := hneed p.2 (List.mem_map_of_mem hp)
          simp only [setEnv]
          split
          · simp only [if_true, h2iv, h2st]
            exact succ_mul_step _ _ k
          · rw [hbelow p.2 hyl]
            rw [if_neg (Nat.ne_of_lt (Nat.lt_of_lt_of_le hyl hfn))]
        · intro y hy
          have hyl := hpd y hy
          simp only [setEnv]
          split
          · simp only [if_true, h2iv, h2st]
            exact succ_mul_step _ _ k
          · rw [hbelow y hyl]
            rw [if_neg (Nat.ne_of_lt (Nat.lt_of_lt_of_le hyl hfn))]
  · -- the invariant holds when the loop is entered
    refine ⟨rfl, ?_⟩
    intro p hp
    show setRegs u.regs (runPure cfg c0l u.env) a (fs.map fun p => (p.1, renameVar m0 p.2)) a p.1 = _
    rw [setRegs_renamed _ _ _ _ _ hs.hnd p hp, hcc0.1 p.2 (List.mem_map_of_mem hp)]
    apply runPure_congr
    · intro y hy
      simp only [setEnv]
      split
      · rw [hcc0.2 lb lt_lb]; simp
      · rw [hcc0.2 y (hargs y hy)]
    · simp only [setEnv]
      split
      · rw [hcc0.2 lb lt_lb]; simp
      · rw [hcc0.2 p.2 (hneed p.2 (List.mem_map_of_mem hp))]
    · intro y hy
      simp only [setEnv]
      split
      · rw [hcc0.2 lb lt_lb]; simp
      · rw [hcc0.2 y (hpd y hy)]


/-! ### the three program variants of the proof and the relations between them -/

theorem loopOverlapGen_zero {keep ghost chk : Bool} {j fresh : Nat} {F : Facts} {s : Stmt} {r b1 : Block}
    (h : loopOverlapGen keep ghost chk j fresh F (.cons s r) 0 = some b1) :
    ∃ lb ub st iv body a fs after, s = .forS lb ub st iv body ∧ body.toList.drop j = .setup a fs :: after ∧
      rotGuard chk a fs (body.toList.take j) after lb ub st iv fresh = true ∧
      b1 = rotWindow keep ghost a fs (body.toList.take j) after lb ub st iv fresh r := by
  simp only [loopOverlapGen] at h
  split at h
  · next lb ub st iv body =>
    split at h
    · next a fs after hdrop =>
      split at h
      · next hg =>
        injection h with h
        exact ⟨lb, ub, st, iv, body, a, fs, after, rfl, hdrop, hg, h.symm⟩
      · cases h
    · cases h
  · cases h

theorem loopOverlapGen_zero_intro (keep ghost chk : Bool) (j fresh : Nat) (F : Facts) (lb ub st iv : Var) (body r : Block)
    (a : AccId) (fs : List (Field × Var)) (after : List Stmt) (hdrop : body.toList.drop j = .setup a fs :: after)
    (hg : rotGuard chk a fs (body.toList.take j) after lb ub st iv fresh = true) :
    loopOverlapGen keep ghost chk j fresh F (.cons (.forS lb ub st iv body) r) 0
      = some (rotWindow keep ghost a fs (body.toList.take j) after lb ub st iv fresh r) := by
  simp only [loopOverlapGen, hdrop, hg, if_true]

/-- transfer between two variants of the rewrite: same guards, related windows -/
theorem gen_transfer (chk k1 g1 k2 g2 : Bool) (j fresh : Nat) (Rel : Block → Block → Prop)
    (hcons : ∀ s x y, Rel x y → Rel (.cons s x) (.cons s y))
    (hwin : ∀ a fs pre after lb ub st iv r, rotGuard chk a fs pre after lb ub st iv fresh = true →
      Rel (rotWindow k1 g1 a fs pre after lb ub st iv fresh r) (rotWindow k2 g2 a fs pre after lb ub st iv fresh r))
    (F : Facts) : ∀ (b : Block) (i : Nat) (b1 : Block), loopOverlapGen k1 g1 chk j fresh F b i = some b1 →
      ∃ b2, loopOverlapGen k2 g2 chk j fresh F b i = some b2 ∧ Rel b1 b2
  | .nil, _, _, h => by simp [loopOverlapGen] at h
  | .cons s r, 0, b1, h => by
      obtain ⟨lb, ub, st, iv, body, a, fs, after, rfl, hdrop, hg, rfl⟩ := loopOverlapGen_zero h
      exact ⟨_, loopOverlapGen_zero_intro k2 g2 chk j fresh F lb ub st iv body r a fs after hdrop hg, hwin _ _ _ _ _ _ _ _ _ hg⟩
  | .cons s r, i+1, b1, h => by
      simp only [loopOverlapGen, Option.map_eq_some_iff] at h
      obtain ⟨r1, hr1, rfl⟩ := h
      obtain ⟨r2, hr2, hrel⟩ := gen_transfer chk k1 g1 k2 g2 j fresh Rel hcons hwin F r i r1 hr1
      exact ⟨.cons s r2, by simp [loopOverlapGen, hr2], hcons s _ _ hrel⟩

theorem rotGuard_side {a : AccId} {fs : List (Field × Var)} {pre after : List Stmt} {lb ub st iv : Var} {fresh : Nat}
    (h : rotGuard true a fs pre after lb ub st iv fresh = true) : RotSide a fs pre after lb ub st iv fresh := by
  simp only [rotGuard, Bool.and_eq_true, Bool.not_true, Bool.false_or] at h
  exact loopSide_unpack h.1.2

theorem exec_window (gh : Bool) (l : List Stmt) (s : Stmt) (r : Block) (u : St) :
    execB cfg gh ((Block.ofList (l ++ [s])).append r) u
      = execB cfg gh r (execS cfg gh s (execB cfg gh (Block.ofList l) u)) := by
  rw [execB_append, execL_append]; rfl

/-- (C) erasing the original setup from the rotated loop changes nothing -/
theorem rot_erase_orig (gh : Bool) (j fresh : Nat) :
    LocalRel cfg gh (loopOverlapGen false false true j fresh) (loopOverlapGen true false true j fresh) := by
  intro F b i b1 h
  refine gen_transfer true false false true false j fresh (fun x y => ∀ st, execB cfg gh x st = execB cfg gh y st)
    (fun s x y hxy st => by simp only [execB]; exact hxy _) ?_ F b i b1 h
  intro a fs pre after lb ub st iv r hg u
  have hs := rotGuard_side hg
  have key := rot_loop cfg gh a fs pre after lb ub st iv fresh hs _ _ _ _ _ _ rfl rfl u
  simp only [rotWindow, Bool.false_eq_true, if_false, if_true]
  rw [exec_window, exec_window]
  exact congrArg (execB cfg gh r) key


theorem forS_congr (gh : Bool) (lb ub st iv : Var) (b1 b2 : Block) (h : ∀ u, execB cfg gh b1 u = execB cfg gh b2 u) (w : St) :
    execS cfg gh (.forS lb ub st iv b1) w = execS cfg gh (.forS lb ub st iv b2) w := by
  simp only [execS]
  have : (fun (i : Nat) (u : St) => execB cfg gh b1 { u with env := setEnv u.env iv (w.env lb + ↑i * w.env st) })
       = (fun (i : Nat) (u : St) => execB cfg gh b2 { u with env := setEnv u.env iv (w.env lb + ↑i * w.env st) }) := by
    funext i u; exact h _
  rw [this]

theorem exec_unghost_last (l : List Stmt) (a : AccId) (x : List (Field × Var)) (u : St) :
    execB cfg true (Block.ofList (l ++ [Stmt.setup a x])) u = execB cfg true (Block.ofList (l ++ [Stmt.ghost a x])) u := by
  rw [execL_append, execL_append]
  simp [Block.ofList, execB, execS]

/-- (B') when ghosts are executed, making the two copies ghosts changes nothing -/
theorem rot_ghost_copies (j fresh : Nat) :
    LocalRel cfg true (loopOverlapGen true false true j fresh) (loopOverlapGen true true true j fresh) := by
  intro F b i b1 h
  refine gen_transfer true true false true true j fresh (fun x y => ∀ st, execB cfg true x st = execB cfg true y st)
    (fun s x y hxy st => by simp only [execB]; exact hxy _) ?_ F b i b1 h
  intro a fs pre after lb ub st iv r _ u
  simp only [rotWindow, Bool.false_eq_true, if_false, if_true]
  rw [exec_window, exec_window, exec_unghost_last]
  congr 1
  apply forS_congr
  intro w
  have e1 : ∀ (s1 : Stmt) (c : List Stmt) (n : Stmt), pre ++ ([Stmt.setup a fs] ++ (after ++ ((n :: c) ++ [s1])))
      = (pre ++ ([Stmt.setup a fs] ++ (after ++ (n :: c)))) ++ [s1] := by
    intro s1 c n; simp only [List.append_assoc]
  rw [e1, e1, exec_unghost_last]


/-! ### (A) the cloned chains and ghost copies are invisible when ghosts are not executed -/

/-- a local rewrite whose result simulates the original block up to the variables in `D` -/
def LocalSim (D : Var → Prop) (rw : Facts → Block → Nat → Option Block) : Prop :=
  ∀ F blk i blk', rw F blk i = some blk' → (∀ x ∈ readsB blk, ¬ D x) →
    ∀ u v, EqOff D u v → EqOff D (execB cfg false blk' u) (execB cfg false blk v)

mutual
theorem posS_sim (D : Var → Prop) {rw : Facts → Block → Nat → Option Block} (hl : LocalSim cfg D rw) :
    (s : Stmt) → ∀ (k : Nat) (p : List Nat) (F : Facts) (s' : Stmt), rewriteS rw k p s F = some s' →
    (∀ x ∈ readsS s, ¬ D x) → ∀ u v, EqOff D u v → EqOff D (execS cfg false s' u) (execS cfg false s v)
  | .ifS c t e, k, p, F, s', h, hr, u, v, huv => by
      simp only [rewriteS] at h
      simp only [readsS, List.mem_cons, List.mem_append] at hr
      have hc : u.env c = v.env c := huv.2.2 c (hr c (Or.inl rfl))
      split at h
      · simp only [Option.map_eq_some_iff] at h
        obtain ⟨t', ht, rfl⟩ := h
        simp only [execS, hc]
        split
        · exact posB_sim D hl t p F t' ht (fun x hx => hr x (Or.inr (Or.inl hx))) u v huv
        · exact sameB_sim cfg D e (fun x hx => hr x (Or.inr (Or.inr hx))) u v huv
      · split at h
        · simp only [Option.map_eq_some_iff] at h
          obtain ⟨e', he, rfl⟩ := h
          simp only [execS, hc]
          split
          · exact sameB_sim cfg D t (fun x hx => hr x (Or.inr (Or.inl hx))) u v huv
          · exact posB_sim D hl e p F e' he (fun x hx => hr x (Or.inr (Or.inr hx))) u v huv
        · cases h
  | .forS lb ub step iv b, k, p, F, s', h, hr, u, v, huv => by
      simp only [rewriteS] at h
      split at h
      · simp only [Option.map_eq_some_iff] at h
        obtain ⟨b', hb, rfl⟩ := h
        simp only [readsS, List.mem_cons] at hr
        have h1 : u.env lb = v.env lb := huv.2.2 lb (hr lb (Or.inl rfl))
        have h2 : u.env ub = v.env ub := huv.2.2 ub (hr ub (Or.inr (Or.inl rfl)))
        have h3 : u.env step = v.env step := huv.2.2 step (hr step (Or.inr (Or.inr (Or.inl rfl))))
        simp only [execS, h1, h2, h3]
        exact iterFrom_rel
          (fun i x => execB cfg false b' { x with env := Accfg.setEnv x.env iv (v.env lb + ↑i * v.env step) })
          (fun i y => execB cfg false b { y with env := Accfg.setEnv y.env iv (v.env lb + ↑i * v.env step) }) (EqOff D)
          (fun i x y hxy => posB_sim D hl b p _ b' hb (fun z hz => hr z (Or.inr (Or.inr (Or.inr hz)))) _ _
            (hxy.setEnv iv (v.env lb + ↑i * v.env step)))
          _ 0 u v huv
      · cases h
  | .setup _ _, _, _, _, _, h, _, _, _, _ => by simp [rewriteS] at h
  | .ghost _ _, _, _, _, _, h, _, _, _, _ => by simp [rewriteS] at h
  | .launch _ _, _, _, _, _, h, _, _, _, _ => by simp [rewriteS] at h
  | .await _, _, _, _, _, h, _, _, _, _ => by simp [rewriteS] at h
  | .pure _ _ _, _, _, _, _, h, _, _, _, _ => by simp [rewriteS] at h
  | .call _ _, _, _, _, _, h, _, _, _, _ => by simp [rewriteS] at h
theorem posB_sim (D : Var → Prop) {rw : Facts → Block → Nat → Option Block} (hl : LocalSim cfg D rw) :
    (b : Block) → ∀ (path : List Nat) (F : Facts) (b' : Block), rewriteB rw path b F = some b' →
    (∀ x ∈ readsB b, ¬ D x) → ∀ u v, EqOff D u v → EqOff D (execB cfg false b' u) (execB cfg false b v)
  | b, [i], F, b', h, hr, u, v, huv => by
      simp only [rewriteB] at h
      exact hl F b i b' h hr u v huv
  | .cons s r, 0 :: k :: p, F, b', h, hr, u, v, huv => by
      simp only [rewriteB, Option.map_eq_some_iff] at h
      obtain ⟨s', hs', rfl⟩ := h
      simp only [readsB, List.mem_append] at hr
      simp only [execB]
      exact sameB_sim cfg D r (fun x hx => hr x (Or.inr hx)) _ _
        (posS_sim D hl s k p F s' hs' (fun x hx => hr x (Or.inl hx)) u v huv)
  | .cons s r, (i+1) :: k :: p, F, b', h, hr, u, v, huv => by
      simp only [rewriteB, Option.map_eq_some_iff] at h
      obtain ⟨r', hr', rfl⟩ := h
      simp only [readsB, List.mem_append] at hr
      simp only [execB]
      exact posB_sim D hl r (i :: k :: p) _ r' hr' (fun x hx => hr x (Or.inr hx)) _ _
        (sameS_sim cfg D s (fun x hx => hr x (Or.inl hx)) u v huv)
  | .nil, [], _, _, h, _, _, _, _ => by simp [rewriteB] at h
  | .nil, _ :: _ :: _, _, _, h, _, _, _, _ => by simp [rewriteB] at h
  | .cons _ _, [], _, _, h, _, _, _, _ => by simp [rewriteB] at h
end

theorem cloneChain_defs_ge : ∀ (chain : List Stmt) (m : List (Var × Var)) (F : Nat),
    ∀ x ∈ (cloneChain chain m F).1.flatMap pureDef, F ≤ x
  | [], m, F => by simp [cloneChain]
  | s :: r, m, F => by
      cases s
      case pure d op args =>
        intro x hx
        simp only [cloneChain, List.flatMap_cons, pureDef, List.mem_append, List.mem_singleton] at hx
        rcases hx with hx | hx
        · exact Nat.le_of_eq hx.symm
        · exact Nat.le_trans (Nat.le_succ F) (cloneChain_defs_ge r ((d, F) :: m) (F + 1) x hx)
      all_goals
        simpa [cloneChain] using cloneChain_defs_ge r m F

/-- extra pure statements on the left, defining only variables in `D`, followed by a ghost that is not executed -/
theorem pure_extra_left (D : Var → Prop) (l : List Stmt) (a : AccId) (g : List (Field × Var)) (hp : l.all isPure = true)
    (hD : ∀ x ∈ l.flatMap pureDef, D x) (u v : St) (h : EqOff D u v) :
    EqOff D (execB cfg false (Block.ofList (l ++ [Stmt.ghost a g])) u) v := by
  rw [execL_append, exec_pure_list cfg false l hp]
  simp only [Block.ofList, execB, execS, Bool.false_eq_true, if_false]
  refine ⟨h.1, h.2.1, fun x hx => ?_⟩
  show runPure cfg l u.env x = v.env x
  rw [runPure_frame cfg l _ x (fun hm => hx (hD x hm))]
  exact h.2.2 x hx

theorem list_reassoc (pre : List Stmt) (S : Stmt) (after : List Stmt) (n : Stmt) (c : List Stmt) (g : Stmt) :
    pre ++ ([S] ++ (after ++ ((n :: c) ++ [g]))) = (pre ++ (S :: after)) ++ ((n :: c) ++ [g]) := by simp

theorem rot_sim_aux (j fresh : Nat) : (blk : Block) → ∀ (F : Facts) (i : Nat) (blk' : Block),
    loopOverlapGen true true true j fresh F blk i = some blk' → (∀ x ∈ readsB blk, ¬ fresh ≤ x) →
    ∀ u v, EqOff (fun x => fresh ≤ x) u v → EqOff (fun x => fresh ≤ x) (execB cfg false blk' u) (execB cfg false blk v)
  | .nil, _, _, _, h, _, _, _, _ => by simp [loopOverlapGen] at h
  | .cons s r, F, i+1, blk', h, hr, u, v, huv => by
      simp only [loopOverlapGen, Option.map_eq_some_iff] at h
      obtain ⟨r1, hr1, rfl⟩ := h
      simp only [readsB, List.mem_append] at hr
      simp only [execB]
      exact rot_sim_aux j fresh r F i r1 hr1 (fun x hx => hr x (Or.inr hx)) _ _
        (sameS_sim cfg _ s (fun x hx => hr x (Or.inl hx)) u v huv)
  | .cons s r, F, 0, blk', h, hr, u, v, huv => by
      obtain ⟨lb, ub, st, iv, body, a, fs, after, rfl, hdrop, hg, rfl⟩ := loopOverlapGen_zero h
      simp only [readsB, readsS, List.mem_append, List.mem_cons] at hr
      have hbody : body = Block.ofList (body.toList.take j ++ (Stmt.setup a fs :: after)) := by
        rw [← hdrop, List.take_append_drop, ofList_toList]
      -- names for the clones
      have hfn := (cloneChain_props (inputChain (body.toList.take j).reverse (fs.map (·.2))) [(iv, lb)] fresh).1
      have hp0 := (cloneChain_props (inputChain (body.toList.take j).reverse (fs.map (·.2))) [(iv, lb)] fresh).2
      have hd0 := cloneChain_defs_ge (inputChain (body.toList.take j).reverse (fs.map (·.2))) [(iv, lb)] fresh
      simp only [rotWindow, if_true]
      rw [exec_window]
      simp only [execB]
      apply sameB_sim cfg _ r (fun x hx => hr x (Or.inr hx))
      -- in front of the loop
      have hu1 := pure_extra_left cfg (fun x => fresh ≤ x) _ a
        (fs.map fun p => (p.1, renameVar (cloneChain (inputChain (body.toList.take j).reverse (fs.map (·.2))) [(iv, lb)] fresh).2.1 p.2))
        hp0 hd0 u v huv
      generalize execB cfg false (Block.ofList ((cloneChain (inputChain (body.toList.take j).reverse (fs.map (·.2))) [(iv, lb)] fresh).1 ++
        [Stmt.ghost a (fs.map fun p => (p.1, renameVar (cloneChain (inputChain (body.toList.take j).reverse (fs.map (·.2))) [(iv, lb)] fresh).2.1 p.2))])) u = u1 at hu1 ⊢
      -- the loop
      have h1 : u1.env lb = v.env lb := hu1.2.2 lb (hr lb (Or.inl (Or.inl rfl)))
      have h2 : u1.env ub = v.env ub := hu1.2.2 ub (hr ub (Or.inl (Or.inr (Or.inl rfl))))
      have h3 : u1.env st = v.env st := hu1.2.2 st (hr st (Or.inl (Or.inr (Or.inr (Or.inl rfl)))))
      simp only [execS, h1, h2, h3]
      apply iterFrom_rel _ _ (EqOff (fun x => fresh ≤ x)) _ _ 0 u1 v hu1
      intro k x y hxy
      have hxy' := hxy.setEnv iv (v.env lb + ↑k * v.env st)
      rw [list_reassoc, execL_append, ← hbody]
      apply pure_extra_left cfg (fun x => fresh ≤ x)
      · simp only [List.all_cons, isPure, Bool.true_and]
        exact (cloneChain_props _ _ _).2
      · intro z hz
        simp only [List.flatMap_cons, pureDef, List.mem_append, List.mem_singleton] at hz
        rcases hz with hz | hz
        · rw [hz]; exact hfn
        · exact Nat.le_trans hfn (Nat.le_trans (Nat.le_succ _) (cloneChain_defs_ge _ _ _ z hz))
      · exact sameB_sim cfg _ body (fun z hz => hr z (Or.inl (Or.inr (Or.inr (Or.inr hz))))) _ _ hxy'

theorem rot_sim (j fresh : Nat) : LocalSim cfg (fun x => fresh ≤ x) (loopOverlapGen true true true j fresh) :=
  fun F blk i blk' h hr u v huv => rot_sim_aux cfg j fresh blk F i blk' h hr u v huv


/-! ### the loop-level overlap step -/

/-- **loop-level overlap.** `b'` is the result of the rotation, `b2` the variant that keeps the original setup, `bg` the
variant whose two copies are ghosts.  If `bg` is well formed and keeps every launch total and the program reads no variable
from `fresh` on, then `b'` and `b` have the same trace from every state. -/
theorem loop_overlap_trace (path : List Nat) (j fresh : Nat) (b b' b2 bg : Block)
    (h' : applyLoopOverlapGen false false path j fresh b = some b')
    (h2 : applyLoopOverlapGen true false path j fresh b = some b2)
    (hg : applyLoopOverlapGen true true path j fresh b = some bg)
    (hng : noGhostB b2 = true) (hwfg : wfB bg = true) (hok : okBb cfg.fields bg noFacts = true)
    (hreads : ∀ x ∈ readsB b, x < fresh) (st : St) :
    (execB cfg false b' st).tr = (execB cfg false b st).tr := by
  unfold applyLoopOverlapGen at h' h2 hg
  -- (C) the original setup can stay
  obtain ⟨b2', hb2', e1⟩ := rewriteB_rel cfg (rot_erase_orig cfg false j fresh) b path noFacts b' h'
  rw [h2] at hb2'; injection hb2' with hb2'; subst hb2'
  -- (B') the copies become ghosts (ghosts executed)
  obtain ⟨bg', hbg', e2⟩ := rewriteB_rel cfg (rot_ghost_copies cfg j fresh) b path noFacts b2 h2
  rw [hg] at hbg'; injection hbg' with hbg'; subst hbg'
  -- (B) ghost writes are unobservable, (A) the clones are invisible
  have e3 := ghost_writes_unobservable cfg bg hwfg (okBb_ok cfg bg noFacts hok) st
  have e4 := posB_sim cfg (fun x => fresh ≤ x) (rot_sim cfg j fresh) b path noFacts bg hg
    (fun x hx => Nat.not_le_of_lt (hreads x hx)) st st ⟨rfl, rfl, fun _ _ => rfl⟩
  rw [e1 st, ← noGhostB_exec cfg b2 hng st, e2 st, e3, e4.2.1]


/-- the same with the taint analysis in place of launch totality: no launch and no effectful call of `bg` may see a register
field last written by one of the two copies (no well-formedness condition needed) -/
theorem loop_overlap_trace_taint (path : List Nat) (j fresh : Nat) (b b' b2 bg : Block)
    (h' : applyLoopOverlapGen false false path j fresh b = some b')
    (h2 : applyLoopOverlapGen true false path j fresh b = some b2)
    (hg : applyLoopOverlapGen true true path j fresh b = some bg)
    (hng : noGhostB b2 = true) (hok : okTB cfg.fields bg [] = true)
    (hreads : ∀ x ∈ readsB b, x < fresh) (st : St) :
    (execB cfg false b' st).tr = (execB cfg false b st).tr := by
  unfold applyLoopOverlapGen at h' h2 hg
  obtain ⟨b2', hb2', e1⟩ := rewriteB_rel cfg (rot_erase_orig cfg false j fresh) b path noFacts b' h'
  rw [h2] at hb2'; injection hb2' with hb2'; subst hb2'
  obtain ⟨bg', hbg', e2⟩ := rewriteB_rel cfg (rot_ghost_copies cfg j fresh) b path noFacts b2 h2
  rw [hg] at hbg'; injection hbg' with hbg'; subst hbg'
  have e3 := ghost_writes_unobservable_taint cfg bg hok st
  have e4 := posB_sim cfg (fun x => fresh ≤ x) (rot_sim cfg j fresh) b path noFacts bg hg
    (fun x hx => Nat.not_le_of_lt (hreads x hx)) st st ⟨rfl, rfl, fun _ _ => rfl⟩
  rw [e1 st, ← noGhostB_exec cfg b2 hng st, e2 st, e3, e4.2.1]

/-- pull (insertion of a setup) with the taint analysis in place of launch totality -/
theorem insert_setup_trace_taint (path : List Nat) (a : AccId) (fs : List (Field × Var)) (b b' bg : Block)
    (h' : insertAt path (.setup a fs) b = some b') (hg : insertAt path (.ghost a fs) b = some bg)
    (hwf : wfB b = true) (hn : nodupB b = true) (hng : noGhostB b' = true)
    (hok : okTB cfg.fields bg [] = true) (st : St) :
    (execB cfg false b' st).tr = (execB cfg false b st).tr := by
  unfold insertAt at h' hg
  obtain ⟨bg', hbg', heq⟩ := rewriteB_rel cfg (insert_setup_ghost_rel cfg a fs) b path noFacts b' h'
  rw [hg] at hbg'; injection hbg' with hbg'; subst hbg'
  have h1 : execB cfg false bg st = execB cfg false b st :=
    rewriteB_exec cfg (insert_ghost_ok cfg a fs) b path noFacts bg hg hwf hn st
      (by intro a f x h; simp [noFacts] at h) (by intro a f x h; simp [noFacts] at h)
  rw [← noGhostB_exec cfg b' hng st, heq st, ghost_writes_unobservable_taint cfg bg hok st, h1]


end SnaxVerif.Accfg
