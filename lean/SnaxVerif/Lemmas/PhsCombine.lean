import SnaxVerif.Lemmas.PhsMerge
/-! C20: what `combine` (the model of `append_to_abstract_graph`) establishes. Core Lean only. -/
namespace SnaxVerif.Phs

variable [Variant]

/-! ### symbol tables under append / set -/

theorem findId_append (id : String) (n : Node) : ∀ (l : List Node) (p : Nat),
    findId id (l ++ [n]) p = match findId id l p with
      | some q => some q
      | none => if n.id = id then some (p + l.length) else none
  | [], p => by simp [findId]
  | x :: r, p => by
    simp only [List.cons_append, findId]
    split
    · rfl
    · rw [findId_append id n r (p + 1)]
      cases findId id r (p + 1) with
      | some q => rfl
      | none => simp only [List.length_cons]; split <;> simp <;> omega

theorem findId_ids_congr (id : String) : ∀ (l l' : List Node) (p : Nat), l.map (·.id) = l'.map (·.id) →
    findId id l p = findId id l' p
  | [], [], _, _ => rfl
  | [], _ :: _, _, h => by simp at h
  | _ :: _, [], _, h => by simp at h
  | x :: r, x' :: r', p, h => by
    simp only [List.map_cons, List.cons.injEq] at h
    simp only [findId, h.1]
    split
    · rfl
    · exact findId_ids_congr id r r' (p + 1) h.2

theorem uniqueIds_ids_congr : ∀ (l l' : List Node), l.map (·.id) = l'.map (·.id) → uniqueIds l = uniqueIds l'
  | [], [], _ => rfl
  | [], _ :: _, h => by simp at h
  | _ :: _, [], h => by simp at h
  | x :: r, x' :: r', h => by
    simp only [List.map_cons, List.cons.injEq] at h
    simp only [uniqueIds, h.1, findId_ids_congr x'.id r r' 0 h.2, uniqueIds_ids_congr r r' h.2]

theorem ids_set_same {l : List Node} {i : Nat} {a x : Node} (ha : l[i]? = some a) (hx : x.id = a.id) :
    (l.set i x).map (·.id) = l.map (·.id) := by
  apply List.ext_getElem?
  intro j
  simp only [List.getElem?_map, List.getElem?_set]
  split
  next h =>
    subst h
    have hi : i < l.length := by
      rcases Nat.lt_or_ge i l.length with h | h
      · exact h
      · simp [List.getElem?_eq_none h] at ha
    have hg : l[i] = a := by
      have := List.getElem?_eq_getElem hi
      rw [ha] at this; exact (Option.some.inj this).symm
    simp [hi, hx, hg]
  · rfl

theorem uniqueIds_append {l : List Node} {n : Node} (hu : uniqueIds l = true) (hn : findId n.id l 0 = none) :
    uniqueIds (l ++ [n]) = true := by
  induction l with
  | nil => simp [uniqueIds, findId]
  | cons x r ih =>
    simp only [uniqueIds, Bool.and_eq_true, Option.isNone_iff_eq_none] at hu
    simp only [findId] at hn
    split at hn
    · simp at hn
    next hne =>
      have hn' : findId n.id r 0 = none := by
        cases h : findId n.id r 0 with
        | none => rfl
        | some q =>
          obtain ⟨n', hn', hid⟩ := (findId_some r 0 q h).2
          exact absurd hid (findId_none r 1 hn _ _ hn')
      simp only [List.cons_append, uniqueIds, Bool.and_eq_true, Option.isNone_iff_eq_none]
      refine ⟨?_, ih hu.2 hn'⟩
      rw [findId_append, hu.1]
      simp [Ne.symm hne]

/-! ### `get_equivalent_owner`, `are_equivalent` -/

theorem equivOwner_spec {G A : PE} {nArgs : Nat} {g o : Src} (h : equivOwner G A nArgs g = .ok o) :
    o.hasMux = false ∧ ∃ l, G.leafOf g = some l ∧ A.leafOf o = some l := by
  cases g with
  | arg i =>
    simp only [equivOwner] at h
    split at h
    · injection h with h; subst h; exact ⟨rfl, .arg i, rfl, rfl⟩
    · simp at h
  | node j =>
    simp only [equivOwner] at h
    split at h
    · simp at h
    next gn hgn =>
      split at h
      · simp at h
      next a ha =>
        injection h with h; subst h
        obtain ⟨na, hna, hid⟩ := lookup_some ha
        exact ⟨rfl, .name gn.id, by simp [PE.leafOf, hgn], by simp [PE.leafOf, hna, hid]⟩
  | mux s a b => simp [equivOwner] at h

theorem areEquivalent_spec {G A : PE} {g a : Src} (h : areEquivalent G A g a = true) :
    ∃ l, G.leafOf g = some l ∧ l ∈ A.poss a := by
  unfold areEquivalent at h
  split at h
  next l hl => exact ⟨l, hl, by simpa using h⟩
  · simp at h

theorem mapExcept_spec {α β} (f : α → Except Err β) : ∀ (l : List α) (r : List β), mapExcept f l = .ok r →
    r.length = l.length ∧ ∀ (p : Nat) (a : α), l[p]? = some a → ∃ b, r[p]? = some b ∧ f a = .ok b
  | [], r, h => by
    simp [mapExcept] at h; subst h; exact ⟨rfl, fun p a hp => by simp at hp⟩
  | x :: xs, r, h => by
    unfold mapExcept at h
    split at h
    · simp at h
    next b hb =>
      split at h
      · simp at h
      next bs hbs =>
        injection h with h; subst h
        obtain ⟨hl, hr⟩ := mapExcept_spec f xs bs hbs
        refine ⟨by simp [hl], ?_⟩
        intro p a hp
        cases p with
        | zero => simp at hp; subst hp; exact ⟨b, by simp, hb⟩
        | succ p => simpa using hr p a (by simpa using hp)

/-! ### `uncollide_inputs` -/

/-- shape of the operand list after `uncollide_inputs`: every operand is kept or gets ONE mux on top, whose
switch is the next fresh number and whose rhs is a plain value -/
inductive UncRel : List Src → List Src → Nat → Nat → Prop
  | nil (ns : Nat) : UncRel [] [] ns ns
  | keep {as r : List Src} {ns ns' : Nat} (a : Src) : UncRel as r ns ns' → UncRel (a :: as) (a :: r) ns ns'
  | wrap {as r : List Src} {ns ns' : Nat} (a o : Src) : o.hasMux = false → UncRel as r (ns + 1) ns' →
      UncRel (a :: as) (.mux ns a o :: r) ns ns'

theorem uncollide_spec {G A : PE} : ∀ (gs as r : List Src) (ns ns' : Nat),
    uncollideList G A gs as ns = .ok (r, ns') → UncRel as r ns ns' ∧ as.length = gs.length ∧
      ∀ (p : Nat) (g : Src), gs[p]? = some g → ∃ (l : Leaf) (a : Src), G.leafOf g = some l ∧ as[p]? = some a ∧
        ((r[p]? = some a ∧ l ∈ A.poss a) ∨
         ∃ s o, r[p]? = some (.mux s a o) ∧ o.hasMux = false ∧ A.leafOf o = some l)
  | [], [], r, ns, ns', h => by
    simp only [uncollideList, Except.ok.injEq, Prod.mk.injEq] at h
    obtain ⟨rfl, rfl⟩ := h
    exact ⟨.nil _, rfl, fun p g hp => by simp at hp⟩
  | [], _ :: _, _, _, _, h => by simp [uncollideList] at h
  | _ :: _, [], _, _, _, h => by simp [uncollideList] at h
  | g :: gs, a :: as, r, ns, ns', h => by
    unfold uncollideList at h
    split at h
    next heq =>
      split at h
      · simp at h
      next r1 ns1 h1 =>
        simp only [Except.ok.injEq, Prod.mk.injEq] at h
        obtain ⟨rfl, rfl⟩ := h
        obtain ⟨hrel, hlen, hp⟩ := uncollide_spec gs as r1 ns _ h1
        refine ⟨.keep a hrel, by simp [hlen], ?_⟩
        intro p g' hg'
        cases p with
        | zero =>
          simp at hg'; subst hg'
          obtain ⟨l, hl, hposs⟩ := areEquivalent_spec heq
          exact ⟨l, a, hl, by simp, .inl ⟨by simp, hposs⟩⟩
        | succ p => simpa using hp p g' (by simpa using hg')
    next hne =>
      split at h
      · simp at h
      next o ho =>
        split at h
        · simp at h
        next r1 ns1 h1 =>
          simp only [Except.ok.injEq, Prod.mk.injEq] at h
          obtain ⟨rfl, rfl⟩ := h
          obtain ⟨hrel, hlen, hp⟩ := uncollide_spec gs as r1 (ns + 1) _ h1
          obtain ⟨hom, l, hl, hlo⟩ := equivOwner_spec ho
          refine ⟨.wrap a o hom hrel, by simp [hlen], ?_⟩
          intro p g' hg'
          cases p with
          | zero =>
            simp at hg'; subst hg'
            exact ⟨l, a, hl, by simp, .inr ⟨ns, o, by simp, hom, hlo⟩⟩
          | succ p => simpa using hp p g' (by simpa using hg')

theorem UncRel.le {as r : List Src} {ns ns' : Nat} (h : UncRel as r ns ns') : ns ≤ ns' := by
  induction h with
  | nil => exact Nat.le_refl _
  | keep _ _ ih => exact ih
  | wrap _ _ _ _ ih => omega

theorem UncRel.length {as r : List Src} {ns ns' : Nat} (h : UncRel as r ns ns') : r.length = as.length := by
  induction h with
  | nil => rfl
  | keep _ _ ih => simp [ih]
  | wrap _ _ _ _ ih => simp [ih]

/-- every new operand is the old one or the old one under one fresh mux -/
theorem UncRel.get {as r : List Src} {ns ns' : Nat} (h : UncRel as r ns ns') :
    ∀ (p : Nat) (t' : Src), r[p]? = some t' → ∃ a, as[p]? = some a ∧
      (t' = a ∨ ∃ s o, t' = .mux s a o ∧ o.hasMux = false ∧ ns ≤ s ∧ s < ns') := by
  induction h with
  | nil => intro p t' hp; simp at hp
  | @keep as r ns ns' a hrel ih =>
    intro p t' hp
    cases p with
    | zero => simp at hp; subst hp; exact ⟨a, by simp, .inl rfl⟩
    | succ p => simpa using ih p t' (by simpa using hp)
  | @wrap as r ns ns' a o ho hrel ih =>
    intro p t' hp
    cases p with
    | zero =>
      simp at hp; subst hp
      exact ⟨a, by simp, .inr ⟨ns, o, rfl, ho, Nat.le_refl _, by have := hrel.le; omega⟩⟩
    | succ p =>
      obtain ⟨a', ha', h'⟩ := ih p t' (by simpa using hp)
      refine ⟨a', by simpa using ha', ?_⟩
      rcases h' with h' | ⟨s, o', h1, h2, h3, h4⟩
      · exact .inl h'
      · exact .inr ⟨s, o', h1, h2, by omega, h4⟩

theorem UncRel.wraps {as r : List Src} {ns ns' : Nat} (h : UncRel as r ns ns') :
    ∀ (p : Nat) (a : Src), as[p]? = some a → ∃ t', r[p]? = some t' ∧ Wraps ns a t' := by
  induction h with
  | nil => intro p a hp; simp at hp
  | @keep as r ns ns' a hrel ih =>
    intro p a' hp
    cases p with
    | zero => simp at hp; subst hp; exact ⟨a, by simp, .refl _⟩
    | succ p => simpa using ih p a' (by simpa using hp)
  | @wrap as r ns ns' a o ho hrel ih =>
    intro p a' hp
    cases p with
    | zero => simp at hp; subst hp; exact ⟨_, by simp, .step ns o (.refl _) (Nat.le_refl _)⟩
    | succ p =>
      obtain ⟨t', ht', w⟩ := ih p a' (by simpa using hp)
      exact ⟨t', by simpa using ht', w.mono (by omega)⟩

/-- the switches of a new operand: the old ones, possibly one new one in `[ns, ns')` -/
theorem UncRel.muxes {as r : List Src} {ns ns' : Nat} (h : UncRel as r ns ns') {p : Nat} {t' : Src}
    (hp : r[p]? = some t') : ∃ a, as[p]? = some a ∧ ∀ x, x ∈ srcMuxes t' → x ∈ srcMuxes a ∨ (ns ≤ x ∧ x < ns') := by
  obtain ⟨a, ha, h'⟩ := h.get p t' hp
  refine ⟨a, ha, ?_⟩
  rcases h' with rfl | ⟨s, o, rfl, ho, h3, h4⟩
  · exact fun x hx => .inl hx
  · intro x hx
    simp only [srcMuxes, srcMuxes_of_noMux ho, List.append_nil, List.mem_cons] at hx
    rcases hx with rfl | hx
    · exact .inr ⟨h3, h4⟩
    · exact .inl hx

/-- different operands keep disjoint switches -/
theorem UncRel.disj {as r : List Src} {ns ns' : Nat} (h : UncRel as r ns ns') :
    (∀ (p : Nat) (a : Src), as[p]? = some a → ∀ x, x ∈ srcMuxes a → x < ns) →
    (∀ (p p' : Nat) (a a' : Src), as[p]? = some a → as[p']? = some a' → p ≠ p' → ∀ x, x ∈ srcMuxes a → x ∉ srcMuxes a') →
    ∀ (p p' : Nat) (t t' : Src), r[p]? = some t → r[p']? = some t' → p ≠ p' → ∀ x, x ∈ srcMuxes t → x ∉ srcMuxes t' := by
  induction h with
  | nil => intro _ _ p p' t t' hp; simp at hp
  | @keep as r ns ns' a hrel ih =>
    intro hold hdis p p' t t' hp hp' hne x hx hx'
    have hold' : ∀ (p : Nat) (a : Src), as[p]? = some a → ∀ x, x ∈ srcMuxes a → x < ns :=
      fun p a' h' => hold (p + 1) a' (by simpa using h')
    have hdis' : ∀ (p p' : Nat) (a a' : Src), as[p]? = some a → as[p']? = some a' → p ≠ p' →
        ∀ x, x ∈ srcMuxes a → x ∉ srcMuxes a' :=
      fun p p' a1 a2 h1 h2 hn => hdis (p + 1) (p' + 1) a1 a2 (by simpa using h1) (by simpa using h2) (by omega)
    cases p with
    | zero =>
      cases p' with
      | zero => exact hne rfl
      | succ p' =>
        simp at hp; subst hp
        obtain ⟨a', ha', hm⟩ := hrel.muxes (p := p') (by simpa using hp')
        rcases hm x hx' with h1 | h1
        · exact hdis 0 (p' + 1) a a' (by simp) (by simpa using ha') (by omega) x hx h1
        · have := hold 0 a (by simp) x hx; omega
    | succ p =>
      cases p' with
      | zero =>
        simp at hp'; subst hp'
        obtain ⟨a', ha', hm⟩ := hrel.muxes (p := p) (by simpa using hp)
        rcases hm x hx with h1 | h1
        · exact hdis (p + 1) 0 a' a (by simpa using ha') (by simp) (by omega) x h1 hx'
        · have := hold 0 a (by simp) x hx'; omega
      | succ p' =>
        exact ih hold' hdis' p p' t t' (by simpa using hp) (by simpa using hp') (by omega) x hx hx'
  | @wrap as r ns ns' a o ho hrel ih =>
    intro hold hdis p p' t t' hp hp' hne x hx hx'
    have hold' : ∀ (p : Nat) (a : Src), as[p]? = some a → ∀ x, x ∈ srcMuxes a → x < ns + 1 :=
      fun p a' h' x hx => Nat.lt_succ_of_lt (hold (p + 1) a' (by simpa using h') x hx)
    have hdis' : ∀ (p p' : Nat) (a a' : Src), as[p]? = some a → as[p']? = some a' → p ≠ p' →
        ∀ x, x ∈ srcMuxes a → x ∉ srcMuxes a' :=
      fun p p' a1 a2 h1 h2 hn => hdis (p + 1) (p' + 1) a1 a2 (by simpa using h1) (by simpa using h2) (by omega)
    have hhead : ∀ y, y ∈ srcMuxes (Src.mux ns a o) → y = ns ∨ y ∈ srcMuxes a := by
      intro y hy
      simpa [srcMuxes, srcMuxes_of_noMux ho] using hy
    cases p with
    | zero =>
      cases p' with
      | zero => exact hne rfl
      | succ p' =>
        simp at hp; subst hp
        obtain ⟨a', ha', hm⟩ := hrel.muxes (p := p') (by simpa using hp')
        rcases hhead x hx with rfl | hxa
        · rcases hm _ hx' with h1 | h1
          · have := hold (p' + 1) a' (by simpa using ha') _ h1; omega
          · omega
        · rcases hm x hx' with h1 | h1
          · exact hdis 0 (p' + 1) a a' (by simp) (by simpa using ha') (by omega) x hxa h1
          · have := hold 0 a (by simp) x hxa; omega
    | succ p =>
      cases p' with
      | zero =>
        simp at hp'; subst hp'
        obtain ⟨a', ha', hm⟩ := hrel.muxes (p := p) (by simpa using hp)
        rcases hhead x hx' with rfl | hxa
        · rcases hm _ hx with h1 | h1
          · have := hold (p + 1) a' (by simpa using ha') _ h1; omega
          · omega
        · rcases hm x hx with h1 | h1
          · exact hdis (p + 1) 0 a' a (by simpa using ha') (by simp) (by omega) x h1 hxa
          · have := hold 0 a (by simp) x hxa; omega
      | succ p' =>
        exact ih hold' hdis' p p' t t' (by simpa using hp) (by simpa using hp') (by omega) x hx hx'

/-! ### slot invariants under the two kinds of graph update -/

/-- one op (a choose op or the yield, key `k0`) had its operands uncollided; all other slots are unchanged -/
theorem slotInv_update {A A' : PE} (hinv : SlotInv A) (k0 : Option Nat) {as r : List Src} {ns' : Nat}
    (hrel : UncRel as r A.switches.length ns')
    (hsw : A'.switches = A.switches ++ List.replicate (ns' - A.switches.length) .mux)
    (hold : ∀ p, A.slot k0 p = as[p]?) (hnew : ∀ p, A'.slot k0 p = r[p]?)
    (hother : ∀ k, k ≠ k0 → ∀ p, A'.slot k p = A.slot k p) : SlotInv A' := by
  have hN : ∀ (p : Nat) (a : Src), as[p]? = some a → ∀ x, x ∈ srcMuxes a → x < A.switches.length :=
    fun p a ha x hx => hinv.lt (k := k0) (p := p) (by rw [hold p, ha]) hx
  have hswOld : ∀ x, x < A.switches.length → A'.switches[x]? = A.switches[x]? := by
    intro x hx; rw [hsw, List.getElem?_append_left hx]
  have hswNew : ∀ x, A.switches.length ≤ x → x < ns' → A'.switches[x]? = some .mux := by
    intro x h1 h2
    rw [hsw, List.getElem?_append_right h1, List.getElem?_replicate, if_pos (by omega)]
  -- switches of a slot of A': old ones of the same slot of A, or a new one (only at k0)
  have hcls : ∀ k p t, A'.slot k p = some t → ∃ a, A.slot k p = some a ∧
      ∀ x, x ∈ srcMuxes t → x ∈ srcMuxes a ∨ (k = k0 ∧ A.switches.length ≤ x ∧ x < ns') := by
    intro k p t ht
    by_cases hk : k = k0
    · subst hk
      rw [hnew p] at ht
      obtain ⟨a, ha, hm⟩ := hrel.muxes ht
      refine ⟨a, by rw [hold p, ha], fun x hx => ?_⟩
      rcases hm x hx with h | h
      · exact .inl h
      · exact .inr ⟨rfl, h⟩
    · rw [hother k hk p] at ht
      exact ⟨t, ht, fun x hx => .inl hx⟩
  refine ⟨?_, ?_, ?_⟩
  · intro k p t ht
    by_cases hk : k = k0
    · subst hk
      rw [hnew p] at ht
      obtain ⟨a, ha, h'⟩ := hrel.get p t ht
      have hta : treeOk a := hinv.tree k p a (by rw [hold p, ha])
      rcases h' with rfl | ⟨s, o, rfl, ho, h3, _⟩
      · exact hta
      · exact ⟨ho, fun hin => by have := hN p a ha s hin; omega, hta⟩
    · rw [hother k hk p] at ht; exact hinv.tree k p t ht
  · intro k p t ht x hx
    obtain ⟨a, ha, hm⟩ := hcls k p t ht
    rcases hm x hx with h | ⟨_, h1, h2⟩
    · rw [hswOld x (hinv.lt ha h)]; exact hinv.muxok k p a ha x h
    · exact hswNew x h1 h2
  · intro k p t k' p' t' ht ht' hne x hx hx'
    by_cases hk : k = k0
    · by_cases hk' : k' = k0
      · rw [hk] at ht hne; rw [hk'] at ht' hne
        have hpp : p ≠ p' := fun e => hne (by rw [e])
        rw [hnew p] at ht; rw [hnew p'] at ht'
        refine hrel.disj hN ?_ p p' t t' ht ht' hpp x hx hx'
        intro q q' a a' ha ha' hq y hy
        exact hinv.disj k0 q a k0 q' a' (by rw [hold q, ha]) (by rw [hold q', ha']) (fun e => hq (by injection e)) y hy
      · obtain ⟨a, ha, hm⟩ := hcls k p t ht
        rw [hother k' hk' p'] at ht'
        rcases hm x hx with h | ⟨_, h1, _⟩
        · exact hinv.disj k p a k' p' t' ha ht' hne x h hx'
        · have := hinv.lt ht' hx'; omega
    · obtain ⟨a', ha', hm'⟩ := hcls k' p' t' ht'
      rw [hother k hk p] at ht
      rcases hm' x hx' with h | ⟨_, h1, _⟩
      · exact hinv.disj k p t k' p' a' ht ha' hne x hx h
      · have := hinv.lt ht hx; omega

/-- slots are kept or are plain values (a new choose op whose operands are plain values was appended) -/
theorem slotInv_append {A A' : PE} (hinv : SlotInv A)
    (hsw : ∀ (x : Nat) (u : SwUse), A.switches[x]? = some u → A'.switches[x]? = some u)
    (hslot : ∀ k p t, A'.slot k p = some t → A.slot k p = some t ∨ t.hasMux = false) : SlotInv A' := by
  refine ⟨?_, ?_, ?_⟩
  · intro k p t ht
    rcases hslot k p t ht with h | h
    · exact hinv.tree k p t h
    · cases t <;> simp_all [Src.hasMux, treeOk]
  · intro k p t ht x hx
    rcases hslot k p t ht with h | h
    · exact hsw x _ (hinv.muxok k p t h x hx)
    · rw [srcMuxes_of_noMux h] at hx; simp at hx
  · intro k p t k' p' t' ht ht' hne x hx hx'
    rcases hslot k p t ht with h | h
    · rcases hslot k' p' t' ht' with h' | h'
      · exact hinv.disj k p t k' p' t' h h' hne x hx hx'
      · rw [srcMuxes_of_noMux h'] at hx'; simp at hx'
    · rw [srcMuxes_of_noMux h] at hx; simp at hx

/-! ### the invariant of merged graphs -/

structure Inv (A : PE) : Prop where
  uniq : uniqueIds A.nodes = true
  ops : ∀ (j : Nat) (n : Node), A.nodes[j]? = some n → n.ops ≠ []
  swOk : ∀ (j : Nat) (n : Node), A.nodes[j]? = some n → A.switches[n.sw]? = some (.choose j)
  swt : SwT A
  slots : SlotInv A

theorem lt_of_getElem? {α} {l : List α} {i : Nat} {a : α} (h : l[i]? = some a) : i < l.length := by
  rcases Nat.lt_or_ge i l.length with h' | h'
  · exact h'
  · simp [List.getElem?_eq_none h'] at h

theorem srcMuxOk_of (A : PE) : ∀ t, (∀ s, s ∈ srcMuxes t → A.switches[s]? = some .mux) → srcMuxOk A t = true
  | .arg _, _ => rfl
  | .node _, _ => rfl
  | .mux s l r, h => by
    simp only [srcMuxOk, Bool.and_eq_true, decide_eq_true_eq]
    exact ⟨⟨h s (by simp [srcMuxes]), srcMuxOk_of A l (fun x hx => h x (by simp [srcMuxes, hx]))⟩,
      srcMuxOk_of A r (fun x hx => h x (by simp [srcMuxes, hx]))⟩

/-- every choose op offers at most one operation per class -/
def CU (A : PE) : Prop := ∀ (j : Nat) (n : Node), A.nodes[j]? = some n → ClassFun n.ops

/-- all offered operations come from `S` -/
def OpsIn (S : List OpCode) (A : PE) : Prop :=
  ∀ (j : Nat) (n : Node), A.nodes[j]? = some n → ∀ o, o ∈ n.ops → o ∈ S

theorem Inv.wf {A : PE} (h : Inv A) (hcu : CU A) : A.wf = true := by
  simp only [PE.wf, Bool.and_eq_true, List.all_eq_true]
  refine ⟨⟨⟨h.uniq, ?_⟩, ?_⟩, ?_⟩
  · intro n hn
    obtain ⟨j, hj, hjn⟩ := List.getElem_of_mem hn
    have hnj : A.nodes[j]? = some n := by rw [List.getElem?_eq_getElem hj, hjn]
    simp only [nodeOk, Bool.and_eq_true, List.all_eq_true, Bool.not_eq_true', List.isEmpty_eq_false_iff]
    refine ⟨⟨h.ops j n hnj, fun t ht => ?_⟩, (classFun_iff _).mpr (hcu j n hnj)⟩
    obtain ⟨p, hp, hpt⟩ := List.getElem_of_mem ht
    apply srcMuxOk_of
    exact h.slots.muxok (some j) p t (by simp [PE.slot, hnj, List.getElem?_eq_getElem hp, hpt])
  · exact srcMuxOk_of A _ (h.slots.muxok none 0 A.yld rfl)
  · intro j hj
    have hj' : j < A.nodes.length := List.mem_range.mp hj
    simp only [nodeSwOk, List.getElem?_eq_getElem hj', decide_eq_true_eq]
    exact h.swOk j _ (List.getElem?_eq_getElem hj')

theorem hasClass_iff (cur : List OpCode) (c : OpCode) : hasClass cur c = true ↔ ∃ x, x ∈ cur ∧ sameOp x c = true := by
  simp [hasClass, List.any_eq_true]

theorem insertOps_left (o : OpCode) : ∀ (new cur : List OpCode), o ∈ cur → o ∈ insertOps cur new
  | [], _, h => h
  | x :: r, cur, h => by
    simp only [insertOps]
    apply insertOps_left o r
    split
    · exact h
    · exact List.mem_append_left _ h

theorem insertOps_sub (o : OpCode) : ∀ (new cur : List OpCode), o ∈ insertOps cur new → o ∈ cur ∨ o ∈ new
  | [], _, h => .inl h
  | x :: r, cur, h => by
    simp only [insertOps] at h
    rcases insertOps_sub o r _ h with h' | h'
    · split at h'
      · exact .inl h'
      · rcases List.mem_append.mp h' with h'' | h''
        · exact .inl h''
        · simp at h''; exact .inr (by simp [h''])
    · exact .inr (by simp [h'])

/-- an operation of `new` is offered afterwards unless an operation of its class with OTHER attributes is
there already (in `cur`, or earlier in `new`) -/
theorem insertOps_right (o : OpCode) : ∀ (new cur : List OpCode), o ∈ new →
    (∀ c, c ∈ cur → sameOp c o = true → c = o) → (∀ c, c ∈ new → sameOp c o = true → c = o) → o ∈ insertOps cur new
  | [], _, h, _, _ => by simp at h
  | x :: r, cur, h, hc, hn => by
    simp only [insertOps]
    by_cases hx : x = o
    · subst hx
      apply insertOps_left
      split
      next hh =>
        obtain ⟨c, hcm, hcc⟩ := (hasClass_iff _ _).mp hh
        exact hc c hcm hcc ▸ hcm
      · exact List.mem_append_right _ (by simp)
    · have hor : o ∈ r := by
        rcases List.mem_cons.mp h with h | h
        · exact absurd h.symm hx
        · exact h
      apply insertOps_right o r _ hor
      · intro c hcm hcc
        split at hcm
        · exact hc c hcm hcc
        · rcases List.mem_append.mp hcm with h' | h'
          · exact hc c h' hcc
          · simp at h'; subst h'; exact hn c (by simp) hcc
      · exact fun c hcm hcc => hn c (by simp [hcm]) hcc

theorem insertOps_classFun : ∀ (new cur : List OpCode), ClassFun cur → ClassFun (insertOps cur new)
  | [], _, h => h
  | x :: r, cur, h => by
    simp only [insertOps]
    apply insertOps_classFun r
    split
    · exact h
    next hh =>
      have hno : ∀ c, c ∈ cur → sameOp c x ≠ true := by
        intro c hc hcc
        exact hh ((hasClass_iff _ _).mpr ⟨c, hc, hcc⟩)
      intro o o' ho ho' hcc
      rcases List.mem_append.mp ho with h1 | h1 <;> rcases List.mem_append.mp ho' with h2 | h2
      · exact h o o' h1 h2 hcc
      · simp at h2; subst h2; exact absurd hcc (hno o h1)
      · simp at h1; subst h1; exact absurd (sameOp_symm hcc) (hno o' h2)
      · simp at h1 h2; rw [h1, h2]

theorem leafOf_ext {N : Nat} {A A' : PE} (h : Ext N A A') {t : Src} {l : Leaf} (hl : A.leafOf t = some l) :
    A'.leafOf t = some l := by
  cases t with
  | arg i => exact hl
  | mux s a b => simp [PE.leafOf] at hl
  | node j =>
    simp only [PE.leafOf] at hl ⊢
    cases hn : A.nodes[j]? with
    | none => simp [hn] at hl
    | some n =>
      obtain ⟨n', hn', hid, _⟩ := h.node j n hn
      simp only [hn, Option.map_some] at hl
      simp only [hn', Option.map_some, hid]; exact hl

def addNode (A : PE) (n : Node) : PE :=
  { A with nodes := A.nodes ++ [n], switches := A.switches ++ [.choose A.nodes.length] }

def setNode (A : PE) (ai : Nat) (n : Node) (k : Nat) : PE :=
  { A with nodes := A.nodes.set ai n, switches := A.switches ++ List.replicate k .mux }

def setYld (A : PE) (y : Src) (k : Nat) : PE :=
  { A with yld := y, switches := A.switches ++ List.replicate k .mux }

@[simp] theorem addNode_nodes (A : PE) (n : Node) : (addNode A n).nodes = A.nodes ++ [n] := rfl
@[simp] theorem addNode_switches (A : PE) (n : Node) :
    (addNode A n).switches = A.switches ++ [.choose A.nodes.length] := rfl
@[simp] theorem addNode_yld (A : PE) (n : Node) : (addNode A n).yld = A.yld := rfl
@[simp] theorem addNode_argTys (A : PE) (n : Node) : (addNode A n).argTys = A.argTys := rfl
@[simp] theorem setNode_nodes (A : PE) (ai : Nat) (n : Node) (k : Nat) : (setNode A ai n k).nodes = A.nodes.set ai n := rfl
@[simp] theorem setNode_switches (A : PE) (ai : Nat) (n : Node) (k : Nat) :
    (setNode A ai n k).switches = A.switches ++ List.replicate k .mux := rfl
@[simp] theorem setNode_yld (A : PE) (ai : Nat) (n : Node) (k : Nat) : (setNode A ai n k).yld = A.yld := rfl
@[simp] theorem setNode_argTys (A : PE) (ai : Nat) (n : Node) (k : Nat) : (setNode A ai n k).argTys = A.argTys := rfl
@[simp] theorem setYld_nodes (A : PE) (y : Src) (k : Nat) : (setYld A y k).nodes = A.nodes := rfl
@[simp] theorem setYld_switches (A : PE) (y : Src) (k : Nat) :
    (setYld A y k).switches = A.switches ++ List.replicate k .mux := rfl
@[simp] theorem setYld_yld (A : PE) (y : Src) (k : Nat) : (setYld A y k).yld = y := rfl
@[simp] theorem setYld_argTys (A : PE) (y : Src) (k : Nat) : (setYld A y k).argTys = A.argTys := rfl

/-- result of merging one choose op of `G` -/
structure StepOk (G A A' : PE) (g : Node) : Prop where
  inv : Inv A'
  ext : Ext A.switches.length A A'
  route : NodeRoutable A' G g
  /-- the merged choose op is covered PROVIDED no operation of the same class with other attributes is in
  play (all operations come from a set `S` in which the class determines the operation) -/
  cov : ∀ S : List OpCode, ClassFun S → OpsIn S A → (∀ o, o ∈ g.ops → o ∈ S) → coversNode A' g = true
  opsIn : ∀ S : List OpCode, OpsIn S A → (∀ o, o ∈ g.ops → o ∈ S) → OpsIn S A'
  cu : CU A → ClassFun g.ops → CU A'

theorem step_new {G A : PE} {g : Node} {owners : List Src} (hinv : Inv A) (hg : g.ops ≠ [])
    (hlk : A.lookup g.id = none) (hown : mapExcept (equivOwner G A A.nArgs) g.operands = .ok owners) :
    StepOk G A (addNode A ⟨g.id, g.ops, owners, A.switches.length, g.resTy⟩) g := by
  obtain ⟨hol, hop⟩ := mapExcept_spec _ _ _ hown
  let n : Node := ⟨g.id, g.ops, owners, A.switches.length, g.resTy⟩
  have hnodeOld : ∀ j, j < A.nodes.length → (A.nodes ++ [n])[j]? = A.nodes[j]? :=
    fun j hj => List.getElem?_append_left hj
  have hnodeNew : (A.nodes ++ [n])[A.nodes.length]? = some n := by
    rw [List.getElem?_append_right (Nat.le_refl _)]; simp
  have hswOld : ∀ (x : Nat) (u : SwUse), A.switches[x]? = some u →
      (A.switches ++ [SwUse.choose A.nodes.length])[x]? = some u := by
    intro x u hx; rw [List.getElem?_append_left (lt_of_getElem? hx)]; exact hx
  have hownMux : ∀ (p : Nat) (o : Src), owners[p]? = some o → o.hasMux = false := by
    intro p o ho
    have hp : p < g.operands.length := by rw [← hol]; exact lt_of_getElem? ho
    obtain ⟨b, hb, hf⟩ := hop p _ (List.getElem?_eq_getElem hp)
    rw [ho] at hb; injection hb with hb; subst hb
    exact (equivOwner_spec hf).1
  have hext : Ext A.switches.length A (addNode A n) := by
    refine ⟨rfl, ⟨_, rfl⟩, ?_, ?_, .refl _⟩
    · intro id ai h
      show findId id (A.nodes ++ [n]) 0 = some ai
      rw [findId_append]
      have : findId id A.nodes 0 = some ai := h
      rw [this]
    · intro j n0 hn0
      refine ⟨n0, ?_, rfl, fun _ h => h, rfl, fun p t ht => ⟨t, ht, .refl _⟩⟩
      show (A.nodes ++ [n])[j]? = some n0
      rw [hnodeOld j (lt_of_getElem? hn0)]; exact hn0
  have hlookNew : (addNode A n).lookup g.id = some A.nodes.length := by
    show findId g.id (A.nodes ++ [n]) 0 = some A.nodes.length
    rw [findId_append]
    have : findId g.id A.nodes 0 = none := hlk
    rw [this]; simp [n]
  have hnodeCases : ∀ (j : Nat) (n0 : Node), (A.nodes ++ [n])[j]? = some n0 → A.nodes[j]? = some n0 ∨ n0 = n := by
    intro j n0 hn0
    have hj : j < (A.nodes ++ [n]).length := lt_of_getElem? hn0
    simp only [List.length_append, List.length_cons, List.length_nil] at hj
    by_cases hjl : j < A.nodes.length
    · left; rw [← hnodeOld j hjl]; exact hn0
    · have : j = A.nodes.length := by omega
      subst this
      rw [hnodeNew] at hn0; injection hn0 with hn0; exact .inr hn0.symm
  refine ⟨⟨?_, ?_, ?_, ?_, ?_⟩, hext, ?_, ?_, ?_, ?_⟩
  · exact uniqueIds_append hinv.uniq hlk
  · intro j n0 hn0
    have hj : j < (A.nodes ++ [n]).length := lt_of_getElem? hn0
    simp only [List.length_append, List.length_cons, List.length_nil] at hj
    by_cases hjl : j < A.nodes.length
    · exact hinv.ops j n0 (by rw [← hnodeOld j hjl]; exact hn0)
    · have : j = A.nodes.length := by omega
      subst this
      have : (A.nodes ++ [n])[A.nodes.length]? = some n0 := hn0
      rw [hnodeNew] at this; injection this with this; subst this; exact hg
  · intro j n0 hn0
    have hj : j < (A.nodes ++ [n]).length := lt_of_getElem? hn0
    simp only [List.length_append, List.length_cons, List.length_nil] at hj
    by_cases hjl : j < A.nodes.length
    · exact hswOld _ _ (hinv.swOk j n0 (by rw [← hnodeOld j hjl]; exact hn0))
    · have : j = A.nodes.length := by omega
      subst this
      have : (A.nodes ++ [n])[A.nodes.length]? = some n0 := hn0
      rw [hnodeNew] at this; injection this with this; subst this
      show (A.switches ++ [SwUse.choose A.nodes.length])[A.switches.length]? = _
      rw [List.getElem?_append_right (Nat.le_refl _)]; simp
  · intro s j hs
    have hs' : (A.switches ++ [SwUse.choose A.nodes.length])[s]? = some (.choose j) := hs
    by_cases hsl : s < A.switches.length
    · rw [List.getElem?_append_left hsl] at hs'
      obtain ⟨n0, hn0⟩ := hinv.swt s j hs'
      exact ⟨n0, by show (A.nodes ++ [n])[j]? = some n0; rw [hnodeOld j (lt_of_getElem? hn0)]; exact hn0⟩
    · rw [List.getElem?_append_right (by omega)] at hs'
      have h0 : s - A.switches.length = 0 := by
        have := lt_of_getElem? hs'; simp at this; omega
      rw [h0] at hs'; simp at hs'; subst hs'
      exact ⟨n, hnodeNew⟩
  · apply slotInv_append hinv.slots hswOld
    intro k p t ht
    cases k with
    | none => left; cases p <;> simpa [PE.slot] using ht
    | some j =>
      simp only [PE.slot, addNode_nodes] at ht ⊢
      by_cases hjl : j < A.nodes.length
      · left; rw [← hnodeOld j hjl]; exact ht
      · right
        cases hn0 : (A.nodes ++ [n])[j]? with
        | none => rw [hn0] at ht; simp at ht
        | some n0 =>
          have hj := lt_of_getElem? hn0
          simp only [List.length_append, List.length_cons, List.length_nil] at hj
          have : j = A.nodes.length := by omega
          subst this
          rw [hnodeNew] at hn0; injection hn0 with hn0; subst hn0
          rw [hnodeNew] at ht
          exact hownMux p t (by simpa using ht)
  · refine ⟨A.nodes.length, n, hlookNew, hnodeNew, hol, ?_⟩
    intro p t ht
    obtain ⟨o, ho, hf⟩ := hop p t ht
    obtain ⟨hom, l, hl, hlo⟩ := equivOwner_spec hf
    exact ⟨l, o, hl, ho, (poss_noMux _ hom l).mpr (leafOf_ext hext hlo)⟩
  · have : coversNode (addNode A n) g = true := by
      simp only [coversNode, hlookNew, addNode_nodes, hnodeNew]
      simp [n]
    exact fun _ _ _ _ => this
  · intro S hA hgS j n0 hn0
    rcases hnodeCases j n0 hn0 with h | h
    · exact hA j n0 h
    · subst h; exact hgS
  · intro hcu hgc j n0 hn0
    rcases hnodeCases j n0 hn0 with h | h
    · exact hcu j n0 h
    · subst h; exact hgc

theorem swt_replicate {A : PE} (hswt : SwT A) {A' : PE} {k : Nat}
    (hsw : A'.switches = A.switches ++ List.replicate k .mux)
    (hnodes : ∀ (j : Nat) (n0 : Node), A.nodes[j]? = some n0 → ∃ n1 : Node, A'.nodes[j]? = some n1) : SwT A' := by
  intro s j hs
  rw [hsw] at hs
  by_cases hsl : s < A.switches.length
  · rw [List.getElem?_append_left hsl] at hs
    obtain ⟨n0, hn0⟩ := hswt s j hs
    exact hnodes j n0 hn0
  · rw [List.getElem?_append_right (by omega), List.getElem?_replicate] at hs
    split at hs <;> simp at hs

theorem step_old {G A : PE} {g a : Node} {ai : Nat} {opnds : List Src} {ns : Nat} (hinv : Inv A)
    (hlk : A.lookup g.id = some ai) (ha : A.nodes[ai]? = some a)
    (hunc : uncollideList G A g.operands a.operands A.switches.length = .ok (opnds, ns)) :
    StepOk G A (setNode A ai ⟨a.id, insertOps a.ops g.ops, opnds, a.sw, a.resTy⟩ (ns - A.switches.length)) g := by
  obtain ⟨hrel, hlen, hp⟩ := uncollide_spec _ _ _ _ _ hunc
  generalize hn' : (⟨a.id, insertOps a.ops g.ops, opnds, a.sw, a.resTy⟩ : Node) = n'
  have hid' : n'.id = a.id := by rw [← hn']
  have hops' : n'.ops = insertOps a.ops g.ops := by rw [← hn']
  have hopnds' : n'.operands = opnds := by rw [← hn']
  have hsw' : n'.sw = a.sw := by rw [← hn']
  have hai : ai < A.nodes.length := lt_of_getElem? ha
  have hnode : ∀ j, (setNode A ai n' (ns - A.switches.length)).nodes[j]? =
      if ai = j then some n' else A.nodes[j]? := by
    intro j; simp [List.getElem?_set, hai]
  have hswOld : ∀ (x : Nat) (u : SwUse), A.switches[x]? = some u →
      (setNode A ai n' (ns - A.switches.length)).switches[x]? = some u := by
    intro x u hx
    rw [setNode_switches, List.getElem?_append_left (lt_of_getElem? hx)]; exact hx
  have hext : Ext A.switches.length A (setNode A ai n' (ns - A.switches.length)) := by
    refine ⟨rfl, ⟨_, rfl⟩, ?_, ?_, .refl _⟩
    · intro id aj h
      show findId id (A.nodes.set ai n') 0 = some aj
      rw [findId_ids_congr id _ A.nodes 0 (ids_set_same ha hid')]; exact h
    · intro j n0 hn0
      by_cases hj : ai = j
      · subst hj
        rw [ha] at hn0; injection hn0 with hn0; subst hn0
        refine ⟨n', by rw [hnode]; simp, hid', ?_, by rw [hopnds']; exact hrel.length, ?_⟩
        · intro o ho; rw [hops']; exact insertOps_left o _ _ ho
        · intro p t ht; rw [hopnds']; exact hrel.wraps p t ht
      · exact ⟨n0, by rw [hnode, if_neg hj]; exact hn0, rfl, fun _ h => h, rfl, fun p t ht => ⟨t, ht, .refl _⟩⟩
  have hlook : (setNode A ai n' (ns - A.switches.length)).lookup g.id = some ai := hext.lookup _ _ hlk
  have hnodeAi : (setNode A ai n' (ns - A.switches.length)).nodes[ai]? = some n' := by rw [hnode]; simp
  refine ⟨⟨?_, ?_, ?_, ?_, ?_⟩, hext, ?_, ?_, ?_, ?_⟩
  · show uniqueIds (A.nodes.set ai n') = true
    rw [uniqueIds_ids_congr _ A.nodes (ids_set_same ha hid')]; exact hinv.uniq
  · intro j n0 hn0
    rw [hnode] at hn0
    split at hn0
    · injection hn0 with hn0; subst hn0
      rw [hops']
      have hane := hinv.ops ai a ha
      cases hao : a.ops with
      | nil => exact absurd hao hane
      | cons o r =>
        intro hnil
        have : o ∈ insertOps (o :: r) g.ops := insertOps_left o _ _ (by simp)
        rw [hnil] at this; simp at this
    · exact hinv.ops j n0 hn0
  · intro j n0 hn0
    rw [hnode] at hn0
    split at hn0
    next hj =>
      injection hn0 with hn0; subst hn0; subst hj
      rw [hsw']; exact hswOld _ _ (hinv.swOk ai a ha)
    · exact hswOld _ _ (hinv.swOk j n0 hn0)
  · apply swt_replicate hinv.swt rfl
    intro j n0 hn0
    rw [hnode]
    split
    · exact ⟨n', rfl⟩
    · exact ⟨n0, hn0⟩
  · apply slotInv_update hinv.slots (some ai) hrel rfl
    · intro p; simp [PE.slot, ha]
    · intro p; simp only [PE.slot, hnodeAi, Option.bind_some, hopnds']
    · intro k hk p
      cases k with
      | none => cases p <;> rfl
      | some j =>
        have hj : ai ≠ j := fun e => hk (by rw [e])
        simp only [PE.slot, hnode, if_neg hj]
  · refine ⟨ai, n', hlook, hnodeAi, by rw [hopnds', hrel.length]; exact hlen, ?_⟩
    intro p t ht
    obtain ⟨l, ap, hl, hap, hcase⟩ := hp p t ht
    rcases hcase with ⟨hr, hposs⟩ | ⟨s, o, hr, hom, hlo⟩
    · exact ⟨l, ap, hl, by rw [hopnds']; exact hr, poss_base hext l ap hposs⟩
    · refine ⟨l, .mux s ap o, hl, by rw [hopnds']; exact hr, ?_⟩
      simp only [PE.poss, List.mem_append]
      exact .inr ((poss_noMux _ hom l).mpr (leafOf_ext hext hlo))
  · intro S hS hA hgS
    simp only [coversNode, hlook, hnodeAi, hops', List.all_eq_true, List.contains_eq_mem, decide_eq_true_eq]
    intro o ho
    exact insertOps_right o _ _ ho (fun c hc hcc => hS c o (hA ai a ha c hc) (hgS o ho) hcc)
      (fun c hc hcc => hS c o (hgS c hc) (hgS o ho) hcc)
  · intro S hA hgS j n0 hn0
    rw [hnode] at hn0
    split at hn0
    · injection hn0 with hn0; subst hn0
      intro o ho
      rw [hops'] at ho
      rcases insertOps_sub o _ _ ho with h | h
      · exact hA ai a ha o h
      · exact hgS o h
    · exact hA j n0 hn0
  · intro hcu _ j n0 hn0
    rw [hnode] at hn0
    split at hn0
    · injection hn0 with hn0; subst hn0
      rw [hops']; exact insertOps_classFun _ _ (hcu ai a ha)
    · exact hcu j n0 hn0

structure YieldOk (G A A' : PE) : Prop where
  inv : Inv A'
  ext : Ext A.switches.length A A'
  route : YieldRoutable A' G
  nodes : A'.nodes = A.nodes

theorem step_yield {G A : PE} {y : Src} {ns : Nat} (hinv : Inv A)
    (hunc : uncollideList G A [G.yld] [A.yld] A.switches.length = .ok ([y], ns)) :
    YieldOk G A (setYld A y (ns - A.switches.length)) := by
  obtain ⟨hrel, _, hp⟩ := uncollide_spec _ _ _ _ _ hunc
  have hswOld : ∀ (x : Nat) (u : SwUse), A.switches[x]? = some u →
      (setYld A y (ns - A.switches.length)).switches[x]? = some u := by
    intro x u hx
    rw [setYld_switches, List.getElem?_append_left (lt_of_getElem? hx)]; exact hx
  have hext : Ext A.switches.length A (setYld A y (ns - A.switches.length)) := by
    refine ⟨rfl, ⟨_, rfl⟩, fun _ _ h => h, ?_, ?_⟩
    · intro j n0 hn0
      exact ⟨n0, hn0, rfl, fun _ h => h, rfl, fun p t ht => ⟨t, ht, .refl _⟩⟩
    · obtain ⟨t', ht', w⟩ := hrel.wraps 0 A.yld (by simp)
      simp at ht'; subst ht'; exact w
  refine ⟨⟨hinv.uniq, hinv.ops, ?_, ?_, ?_⟩, hext, ?_, rfl⟩
  · intro j n0 hn0
    exact hswOld _ _ (hinv.swOk j n0 hn0)
  · exact swt_replicate hinv.swt rfl (fun j n0 hn0 => ⟨n0, hn0⟩)
  · apply slotInv_update hinv.slots none hrel rfl
    · intro p; cases p <;> simp [PE.slot]
    · intro p; cases p <;> simp [PE.slot]
    · intro k hk p
      cases k with
      | none => exact absurd rfl hk
      | some j => rfl
  · obtain ⟨l, ap, hl, hap, hcase⟩ := hp 0 G.yld (by simp)
    simp at hap; subst hap
    refine ⟨l, hl, ?_⟩
    rcases hcase with ⟨hr, hposs⟩ | ⟨s, o, hr, hom, hlo⟩
    · simp at hr; subst hr
      exact poss_base hext l _ hposs
    · simp at hr; subst hr
      show l ∈ PE.poss _ (Src.mux s A.yld o)
      simp only [PE.poss, List.mem_append]
      exact .inr ((poss_noMux _ hom l).mpr (leafOf_ext hext hlo))

theorem combineNode_ok {G A A' : PE} {g : Node} (hinv : Inv A) (hg : g.ops ≠ [])
    (h : combineNode G A g = .ok A') : StepOk G A A' g := by
  unfold combineNode at h
  split at h
  next hlk =>
    split at h
    · simp at h
    next owners hown =>
      split at h
      next gt at_ _ _ =>
        split at h
        · simp at h
        · injection h with h; subst h
          exact step_new hinv hg hlk hown
      · simp at h
  next ai hlk =>
    split at h
    · simp at h
    next a ha =>
      split at h
      next gt at_ _ _ =>
        split at h
        · simp at h
        · split at h
          · simp at h
          · split at h
            · simp at h
            next opnds ns hunc =>
              injection h with h; subst h
              exact step_old hinv hlk ha hunc
      · simp at h

theorem combineYield_ok {G A A' : PE} (hinv : Inv A) (h : combineYield G A = .ok A') : YieldOk G A A' := by
  unfold combineYield at h
  split at h
  · simp at h
  next y ns hunc =>
    injection h with h; subst h
    exact step_yield hinv hunc
  · simp at h

theorem ext_sw_le {N : Nat} {A A' : PE} (h : Ext N A A') : A.switches.length ≤ A'.switches.length := by
  obtain ⟨e, he⟩ := h.sw
  rw [he, List.length_append]; omega

/-- what the fold over the choose ops of `G` establishes besides the invariant: provenance of the offered
operations, class-uniqueness, and (under the attribute clause) coverage -/
structure OpsFacts (gs : List Node) (A A' : PE) : Prop where
  opsIn : ∀ S : List OpCode, OpsIn S A → (∀ g, g ∈ gs → ∀ o, o ∈ g.ops → o ∈ S) → OpsIn S A'
  cu : CU A → (∀ g, g ∈ gs → ClassFun g.ops) → CU A'
  cov : ∀ S : List OpCode, ClassFun S → OpsIn S A → (∀ g, g ∈ gs → ∀ o, o ∈ g.ops → o ∈ S) →
    ∀ g, g ∈ gs → coversNode A' g = true

theorem combineNodes_ok {G : PE} : ∀ (gs : List Node) (A A' : PE), Inv A → (∀ g, g ∈ gs → g.ops ≠ []) →
    combineNodes G gs A = .ok A' →
    Inv A' ∧ Ext A.switches.length A A' ∧ (∀ g, g ∈ gs → NodeRoutable A' G g) ∧ OpsFacts gs A A'
  | [], A, A', hinv, _, h => by
    simp only [combineNodes, Except.ok.injEq] at h; subst h
    exact ⟨hinv, Ext.refl _ _, fun g hg => by simp at hg, ⟨fun _ h _ => h, fun h _ => h, fun _ _ _ _ g hg => by simp at hg⟩⟩
  | g :: r, A, A', hinv, hops, h => by
    unfold combineNodes at h
    split at h
    · simp at h
    next A1 h1 =>
      have st := combineNode_ok hinv (hops g (by simp)) h1
      obtain ⟨hinv', hext', hr, hf⟩ := combineNodes_ok r A1 A' st.inv (fun g' hg' => hops g' (by simp [hg'])) h
      have hext1 : Ext A.switches.length A1 A' := hext'.mono (ext_sw_le st.ext)
      refine ⟨hinv', st.ext.trans hext1, ?_, ⟨?_, ?_, ?_⟩⟩
      · intro g' hg'
        rcases List.mem_cons.mp hg' with rfl | hg'
        · exact nodeRoutable_mono hext' st.route
        · exact hr g' hg'
      · intro S hA hS
        exact hf.opsIn S (st.opsIn S hA (hS g (by simp))) (fun g' hg' => hS g' (by simp [hg']))
      · intro hcu hS
        exact hf.cu (st.cu hcu (hS g (by simp))) (fun g' hg' => hS g' (by simp [hg']))
      · intro S hSf hA hS g' hg'
        have hA1 := st.opsIn S hA (hS g (by simp))
        rcases List.mem_cons.mp hg' with rfl | hg'
        · exact coversNode_mono hext' (st.cov S hSf hA (hS _ (by simp)))
        · exact hf.cov S hSf hA1 (fun g'' hg'' => hS g'' (by simp [hg''])) g' hg'

/-- **what a merge establishes**: the invariant is kept, the graph is extended, the merged graph is routable;
the offered operations are those of `A` and `G`, class-uniqueness is kept, and `G` is covered PROVIDED all
operations come from a set in which the class determines the operation (finding DC20a otherwise) -/
theorem combine_ok {A G A' : PE} (hinv : Inv A) (hops : ∀ g, g ∈ G.nodes → g.ops ≠ [])
    (h : combine A G = .ok A') :
    Inv A' ∧ Ext A.switches.length A A' ∧ Routable A' G ∧ OpsFacts G.nodes A A' := by
  unfold combine at h
  split at h
  · simp at h
  · split at h
    · simp at h
    next A1 h1 =>
      obtain ⟨hinv1, hext1, hr1, hf⟩ := combineNodes_ok G.nodes A A1 hinv hops h1
      have sy := combineYield_ok hinv1 h
      have hext2 : Ext A.switches.length A1 A' := sy.ext.mono (ext_sw_le hext1)
      refine ⟨sy.inv, hext1.trans hext2, ⟨?_, sy.route⟩, ⟨?_, ?_, ?_⟩⟩
      · intro c k hk
        exact nodeRoutable_mono sy.ext (hr1 k (List.mem_of_getElem? hk))
      · intro S hA hS j n hn
        rw [sy.nodes] at hn; exact hf.opsIn S hA hS j n hn
      · intro hcu hS j n hn
        rw [sy.nodes] at hn; exact hf.cu hcu hS j n hn
      · intro S hSf hA hS g hg
        exact coversNode_mono sy.ext (hf.cov S hSf hA hS g hg)

end SnaxVerif.Phs
