import SnaxVerif.Lemmas.Accfg
/-! "At every program point": the facts the inference assumes in front of every statement hold in the
state in which that statement executes, on every execution (C07 at full strength). -/
namespace SnaxVerif.Accfg

variable (cfg : Cfg)

/-- one loop iteration: environment with the induction variable bound, then the body -/
def iterBody (gh : Bool) (b : Block) (iv : Var) (l stp : Int) : Nat → St → St :=
  fun i u => execB cfg gh b { u with env := setEnv u.env iv (l + i * stp) }

theorem head_step (b : Block) (hwf : wfB b = true) (F : Facts) (iv : Var)
    (ha : Avoids F (iv :: defsB b)) (l stp : Int) (i : Nat) (u : St)
    (hu : Sound (headFacts b F) u) : Sound (headFacts b F) (iterBody cfg false b iv l stp i u) := by
  have hav : Avoids (headFacts b F) (defsB b) :=
    fun a f x hx hm => ha a f x (meet_le_left hx) (by simp [hm])
  have hiv : ∀ a f x, headFacts b F a f = some x → x ≠ iv :=
    fun a f x hx e => ha a f x (meet_le_left hx) (by simp [e])
  intro a f x hx
  have h1 : F a f = some x := meet_le_left hx
  have h2 : knownB b F a f = some x := meet_le_right hx
  have hloc := localB b (headFacts b F) F a f (by rw [hx, h1])
  exact soundB cfg b hwf _ _ (hu.setEnv iv _ hiv) hav a f x (by rw [hloc, h2])

theorem head_iter (b : Block) (hwf : wfB b = true) (F : Facts) (iv : Var)
    (ha : Avoids F (iv :: defsB b)) (l stp : Int) : ∀ (n k : Nat) (u : St),
    Sound (headFacts b F) u → Sound (headFacts b F) (iterFrom (iterBody cfg false b iv l stp) n k u)
  | 0, _, _, hu => hu
  | n+1, k, u, hu => by
    simp only [iterFrom]
    exact head_iter b hwf F iv ha l stp n (k + 1) _ (head_step cfg b hwf F iv ha l stp k u hu)

/- Every statement reached on the execution from `st` runs in a state in which the facts inferred
in front of it hold. -/
mutual
def PointsS : Stmt → Facts → St → Prop
  | .ifS c t e, F, s => if s.env c ≠ 0 then PointsB t F s else PointsB e F s
  | .forS lb ub step iv b, F, s =>
      ∀ k, k < tripCount (s.env lb) (s.env ub) (s.env step) →
        PointsB b (headFacts b F)
          (let u := iterFrom (iterBody cfg false b iv (s.env lb) (s.env step)) k 0 s
           { u with env := setEnv u.env iv (s.env lb + k * s.env step) })
  | _, _, _ => True
def PointsB : Block → Facts → St → Prop
  | .nil, _, _ => True
  | .cons s r, F, st => Sound F st ∧ PointsS s F st ∧ PointsB r (knownS s F) (execS cfg false s st)
end

mutual
theorem pointsS : (st : Stmt) → wfS st = true → ∀ (F : Facts) (s : St), Sound F s → Avoids F (defsS st) →
    PointsS cfg st F s
  | .setup _ _, _, _, _, _, _ => by simp [PointsS]
  | .ghost _ _, _, _, _, _, _ => by simp [PointsS]
  | .launch _ _, _, _, _, _, _ => by simp [PointsS]
  | .await _, _, _, _, _, _ => by simp [PointsS]
  | .pure _ _ _, _, _, _, _, _ => by simp [PointsS]
  | .call _ _, _, _, _, _, _ => by simp [PointsS]
  | .ifS c t e, hwf, F, s, h, ha => by
      simp only [wfS, Bool.and_eq_true] at hwf
      simp only [PointsS]
      split
      · exact pointsB t hwf.1 F s h (fun a f x hx hm => ha a f x hx (by simp [defsS, hm]))
      · exact pointsB e hwf.2 F s h (fun a f x hx hm => ha a f x hx (by simp [defsS, hm]))
  | .forS lb ub step iv b, hwf, F, s, h, ha => by
      simp only [wfS] at hwf; simp only [defsS] at ha
      simp only [PointsS]
      intro k _
      have hav : Avoids (headFacts b F) (defsB b) :=
        fun a f x hx hm => ha a f x (meet_le_left hx) (by simp [hm])
      have hiv : ∀ a f x, headFacts b F a f = some x → x ≠ iv :=
        fun a f x hx e => ha a f x (meet_le_left hx) (by simp [e])
      have h0 : Sound (headFacts b F) s := fun a f x hx => h a f x (meet_le_left hx)
      have hk := head_iter cfg b hwf F iv ha (s.env lb) (s.env step) k 0 s h0
      exact pointsB b hwf _ _ (hk.setEnv iv _ hiv) hav
theorem pointsB : (b : Block) → wfB b = true → ∀ (F : Facts) (s : St), Sound F s → Avoids F (defsB b) →
    PointsB cfg b F s
  | .nil, _, _, _, _, _ => by simp [PointsB]
  | .cons st r, hwf, F, s, h, ha => by
      obtain ⟨hws, hwr, huse⟩ := wfB_cons hwf
      simp only [PointsB]
      have hA : Avoids F (defsS st) := fun a f x hx hm => ha a f x hx (by simp [defsB, hm])
      refine ⟨h, pointsS st hws F s h hA, ?_⟩
      apply pointsB r hwr _ _ (soundS cfg st hws F s h hA)
      intro a f x hx hmem
      rcases varsS st F a f x hx with h2 | h2
      · exact ha a f x h2 (by simp [defsB, hmem])
      · exact huse x h2 hmem
end

end SnaxVerif.Accfg
