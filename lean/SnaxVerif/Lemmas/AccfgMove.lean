import SnaxVerif.Lemmas.AccfgDce
import SnaxVerif.Model.AccfgMove
/-! Certified block moves preserve the machine state (C06, block-level overlap incl. the moved input closure). -/
namespace SnaxVerif.Accfg

variable (cfg : Cfg)

theorem St.ext' {u v : St} (he : u.env = v.env) (hr : u.regs = v.regs) (ht : u.tr = v.tr) : u = v := by
  cases u; cases v; simp_all

/-- a side-effect-free statement commutes with any statement it shares no variables with -/
theorem swap_sef (s t : Stmt) (hs : sefS s = true)
    (h1 : ∀ x ∈ defsS s, x ∉ readsS t) (h2 : ∀ x ∈ defsS s, x ∉ defsS t) (h3 : ∀ x ∈ defsS t, x ∉ readsS s) (u : St) :
    execS cfg false t (execS cfg false s u) = execS cfg false s (execS cfg false t u) := by
  -- A = exec t u
  have hfs : ∀ (w : St) (R : Regs) (T : List Event),
      execS cfg false s { w with regs := R, tr := T } = { execS cfg false s w with regs := R, tr := T } :=
    fun w R T => sefS_frame cfg false s hs w R T
  have hsu : EqOff (fun x => x ∈ defsS s) (execS cfg false s u) u := by
    have hf := hfs u u.regs u.tr
    have e : ({ u with regs := u.regs, tr := u.tr } : St) = u := rfl
    rw [e] at hf
    exact ⟨by rw [hf], by rw [hf], fun x hx => envS_frame cfg false s x hx u⟩
  -- run t on both
  have hts := sameS_sim cfg (fun x => x ∈ defsS s) t (fun x hx hm => h1 x hm hx) _ _ hsu
  -- run s from A
  let A := execS cfg false t u
  have hAu : EqOff (fun x => x ∈ defsS t) ({ A with regs := u.regs, tr := u.tr } : St) u :=
    ⟨rfl, rfl, fun x hx => envS_frame cfg false t x hx u⟩
  have hsA := sameS_sim cfg (fun x => x ∈ defsS t) s (fun x hx hm => h3 x hm hx) _ _ hAu
  have hfA := hfs { A with regs := u.regs, tr := u.tr } A.regs A.tr
  have eA : ({ ({ A with regs := u.regs, tr := u.tr } : St) with regs := A.regs, tr := A.tr } : St) = A := rfl
  rw [eA] at hfA
  apply St.ext'
  · funext x
    by_cases hxs : x ∈ defsS s
    · -- defined by s: both sides carry the value s computes
      have hxt : x ∉ defsS t := h2 x hxs
      rw [envS_frame cfg false t x hxt (execS cfg false s u)]
      rw [hfA]
      exact (hsA.2.2 x hxt).symm
    · rw [hts.2.2 x hxs]
      exact (envS_frame cfg false s x hxs A).symm
  · rw [hts.1, hfA]
  · rw [hts.2.1, hfA]

/-- a setup commutes with a statement that is quiet for its accelerator and does not define its operands -/
theorem swap_setup (a : AccId) (fs : List (Field × Var)) (t : Stmt)
    (ht : touchesS a t = false) (hl : launchesS a t = false) (hav : ∀ x ∈ fs.map (·.2), x ∉ defsS t) (u : St) :
    execS cfg false t (execS cfg false (.setup a fs) u) = execS cfg false (.setup a fs) (execS cfg false t u) := by
  simp only [execS]
  rw [setRegs_eq_setVals u.regs u.env a fs, quietS_comm cfg a _ t ht hl u, setRegs_eq_setVals]
  have henv : (fs.map fun p => (p.1, (execS cfg false t u).env p.2)) = (fs.map fun p => (p.1, u.env p.2)) := by
    apply List.map_congr_left
    intro p hp
    rw [envS_frame cfg false t p.2 (hav p.2 (List.mem_map_of_mem hp)) u]
  rw [henv]

theorem indep_swap (s t : Stmt) (h : indep s t = true) (u : St) :
    execS cfg false t (execS cfg false s u) = execS cfg false s (execS cfg false t u) := by
  unfold indep at h
  rcases Bool.or_eq_true_iff.mp h with h | h
  · simp only [Bool.and_eq_true, List.all_eq_true, Bool.not_eq_true', List.contains_eq_mem,
      decide_eq_false_iff_not] at h
    obtain ⟨⟨hs, h12⟩, h3⟩ := h
    exact swap_sef cfg s t hs (fun x hx => (h12 x hx).1) (fun x hx => (h12 x hx).2) h3 u
  · cases s with
    | setup a fs =>
      simp only [Bool.and_eq_true, Bool.not_eq_true', List.all_eq_true, List.contains_eq_mem,
        decide_eq_false_iff_not] at h
      obtain ⟨⟨ht, hl⟩, hav⟩ := h
      refine swap_setup cfg a fs t ht hl ?_ u
      intro x hx
      obtain ⟨p, hp, rfl⟩ := List.mem_map.mp hx
      exact hav p hp
    | _ => simp at h

theorem execB_ofList_cons (s : Stmt) (l : List Stmt) (u : St) :
    execB cfg false (Block.ofList (s :: l)) u = execB cfg false (Block.ofList l) (execS cfg false s u) := rfl

/-- moving `s` across a whole list of statements it is independent of -/
theorem commute_list (s : Stmt) : ∀ (stay : List Stmt), stay.all (indep s) = true → ∀ u,
    execB cfg false (Block.ofList stay) (execS cfg false s u) = execS cfg false s (execB cfg false (Block.ofList stay) u)
  | [], _, u => rfl
  | t :: r, h, u => by
      simp only [List.all_cons, Bool.and_eq_true] at h
      rw [execB_ofList_cons, execB_ofList_cons, indep_swap cfg s t h.1 u]
      exact commute_list s r h.2 _

theorem exec_ofList_append (l1 l2 : List Stmt) (u : St) :
    execB cfg false (Block.ofList (l1 ++ l2)) u = execB cfg false (Block.ofList l2) (execB cfg false (Block.ofList l1) u) := by
  rw [ofList_append, execB_append]

theorem partition_exec : ∀ (seg : List (Bool × Stmt)) (stay : List Stmt), partitionOK seg stay = true → ∀ u,
    execB cfg false (Block.ofList (movedOf seg ++ (stay ++ stayOf seg))) u =
    execB cfg false (Block.ofList (stay ++ seg.map (·.2))) u
  | [], stay, _, u => by simp [movedOf, stayOf]
  | (true, s) :: r, stay, h, u => by
      simp only [partitionOK, Bool.and_eq_true] at h
      have hm : movedOf ((true, s) :: r) = s :: movedOf r := by simp [movedOf]
      have hst : stayOf ((true, s) :: r) = stayOf r := by simp [stayOf]
      rw [hm, hst, List.cons_append, execB_ofList_cons, partition_exec r stay h.2]
      rw [exec_ofList_append, commute_list cfg s stay h.1 u, exec_ofList_append]
      simp only [List.map_cons, execB_ofList_cons]
  | (false, t) :: r, stay, h, u => by
      simp only [partitionOK] at h
      have hm : movedOf ((false, t) :: r) = movedOf r := by simp [movedOf]
      have hst : stayOf ((false, t) :: r) = t :: stayOf r := by simp [stayOf]
      rw [hm, hst]
      have := partition_exec r (stay ++ [t]) h u
      simpa [List.append_assoc] using this

theorem blockMoveRw_ok (flags : List Bool) : LocalOK cfg (blockMoveRw flags) := by
  intro F b i b' h _ _ st _ _
  unfold blockMoveRw at h
  simp only [] at h
  split at h
  · next hc =>
    injection h with h; subst h
    obtain ⟨hlen, hp⟩ := hc
    have hb : b = Block.ofList (b.toList.take i ++ (((b.toList.drop i).take flags.length) ++
        ((b.toList.drop i).drop flags.length))) := by
      rw [List.take_append_drop, List.take_append_drop, ofList_toList]
    have hz : (flags.zip ((b.toList.drop i).take flags.length)).map (·.2) = (b.toList.drop i).take flags.length := by
      rw [List.map_snd_zip]; omega
    have key := partition_exec cfg _ [] hp (execB cfg false (Block.ofList (b.toList.take i)) st)
    simp only [List.nil_append, hz] at key
    have e1 : b.toList.take i ++ movedOf (flags.zip ((b.toList.drop i).take flags.length)) ++
        stayOf (flags.zip ((b.toList.drop i).take flags.length)) ++ (b.toList.drop i).drop flags.length =
        b.toList.take i ++ ((movedOf (flags.zip ((b.toList.drop i).take flags.length)) ++
        stayOf (flags.zip ((b.toList.drop i).take flags.length))) ++ (b.toList.drop i).drop flags.length) := by
      simp [List.append_assoc]
    rw [e1, exec_ofList_append, exec_ofList_append cfg (movedOf _ ++ stayOf _), key]
    conv => rhs; rw [hb]
    rw [exec_ofList_append, exec_ofList_append cfg ((b.toList.drop i).take flags.length)]
  · cases h

end SnaxVerif.Accfg
