import SnaxVerif.Lemmas.AccfgLinksHolds
/-! List form of the refinement: the pre-order annotation of the LINKED program (what `inferL` answers for the state
operand of every setup and launch, tabulated over the accelerator's fields) equals the pre-order annotation `annotB`
of the position-based analysis on the traced program as `accfg_common.Conv` sees it (`eraseAll`) — the very
comparison the pre-existing correspondence of C07 performs per program, now a theorem about the model. -/
namespace SnaxVerif.AccfgLinks
open SnaxVerif.Accfg

/-- tabulate a dictionary over a field list (cf. `tab`) -/
def tabL (fs : List Field) (s : LState) : List (Field × Var) :=
  fs.filterMap fun f => (s.lookup f).map fun x => (f, x)

mutual
def annotTabS (fields : AccId → List Field) (D : DTab) (m : Nat) : LStmt → List (Option (List (Field × Var)))
  | .setup a _ _ inp => [(inferAt D m inp).map (tabL (fields a))]
  | .empty _ _ => [some []]
  | .launch a _ (some v) _ => [(inferL D m [] v).map (tabL (fields a))]
  | .launch _ _ none _ => [none]
  | .await _ => []
  | .pure _ _ _ => []
  | .call _ _ => []
  | .ifS _ t e _ => annotTabB fields D m t ++ annotTabB fields D m e
  | .forS _ _ _ _ b _ => annotTabB fields D m b
def annotTabB (fields : AccId → List Field) (D : DTab) (m : Nat) : LBlock → List (Option (List (Field × Var)))
  | .nil => []
  | .cons s r => annotTabS fields D m s ++ annotTabB fields D m r
end

/- every launch follows the setup of its accelerator in straight-line code -/
mutual
def allCurS : LStmt → Bool
  | .launch _ _ _ cur => cur
  | .ifS _ t e _ => allCurB t && allCurB e
  | .forS _ _ _ _ b _ => allCurB b
  | _ => true
def allCurB : LBlock → Bool
  | .nil => true
  | .cons s r => allCurS s && allCurB r
end

theorem tabL_of_row {s : LState} {r : Row} (h : ∀ f, s.lookup f = r f) (fs : List Field) (F : Facts) (a : AccId)
    (hF : F a = r) : tabL fs s = tab F a fs := by
  simp only [tabL, tab, h, ← hF]

theorem tab_empty (F : Facts) (a : AccId) (h : F a = emptyRow) (fs : List Field) : tab F a fs = [] := by
  simp only [tab, h, emptyRow]
  induction fs with
  | nil => rfl
  | cons f r ih => simp

theorem gives_annot {D : DTab} {v : StateId} {G : Facts} {a : AccId} (h : Gives D [] v (G a)) (fs : List Field) :
    ∃ N, ∀ m, N ≤ m → (inferL D m [] v).map (tabL fs) = some (tab G a fs) := by
  obtain ⟨s, ⟨N, hN⟩, _, hr⟩ := h
  exact ⟨N, fun m hm => by rw [hN m hm]; simp only [Option.map_some]; rw [tabL_of_row hr fs G a rfl]⟩

theorem headFacts_eraseAll (b : LBlock) (G : Facts) : headFacts (eraseAll b) G = headFacts (erase b) G := by
  simp only [headFacts, knownB_eraseAll]

mutual
theorem annotTabS_agree (fields : AccId → List Field) (D : DTab) : (s : LStmt) → ∀ G : Facts,
    (∀ a, AgreeS a D [] s G) → allCurS s = true →
    ∃ N, ∀ m, N ≤ m → annotTabS fields D m s = (annotS fields (eraseAllS s) G).map some
  | .setup a fs out inp, G, h, _ => by
      have := h a; simp only [AgreeS] at this
      have hin := (this trivial).1
      cases inp with
      | none =>
        simp only [SigIs] at hin
        exact ⟨0, fun m _ => by simp [annotTabS, inferAt, eraseAllS, annotS, tab_empty G a hin, tabL]⟩
      | some v =>
        obtain ⟨N, hN⟩ := gives_annot (a := a) hin (fields a)
        exact ⟨N, fun m hm => by simp [annotTabS, inferAt, eraseAllS, annotS, hN m hm]⟩
  | .empty a out, G, h, _ => by
      have := h a; simp only [AgreeS] at this
      exact ⟨0, fun m _ => by simp [annotTabS, eraseAllS, annotS, tab_empty G a (this trivial).1]⟩
  | .launch a lv st cur, G, h, hc => by
      have hcur : cur = true := by simpa [allCurS] using hc
      have := h a; simp only [AgreeS] at this
      obtain ⟨v, hv, hg⟩ := this trivial hcur
      subst hv
      obtain ⟨N, hN⟩ := gives_annot (a := a) hg (fields a)
      exact ⟨N, fun m hm => by simp [annotTabS, eraseAllS, annotS, hN m hm]⟩
  | .await _, _, _, _ => ⟨0, fun _ _ => by simp [annotTabS, eraseAllS, annotS]⟩
  | .pure _ _ _, _, _, _ => ⟨0, fun _ _ => by simp [annotTabS, eraseAllS, annotS]⟩
  | .call _ _, _, _, _ => ⟨0, fun _ _ => by simp [annotTabS, eraseAllS, annotS]⟩
  | .ifS c t e res, G, h, hc => by
      simp only [allCurS, Bool.and_eq_true] at hc
      obtain ⟨N1, h1⟩ := annotTabB_agree fields D t G
        (fun a => by have := h a; simp only [AgreeS] at this; exact this.1) hc.1
      obtain ⟨N2, h2⟩ := annotTabB_agree fields D e G
        (fun a => by have := h a; simp only [AgreeS] at this; exact this.2.1) hc.2
      exact ⟨max N1 N2, fun m hm => by
        simp [annotTabS, eraseAllS, annotS, h1 m (by omega), h2 m (by omega)]⟩
  | .forS lb ub step iv b car, G, h, hc => by
      simp only [allCurS] at hc
      obtain ⟨N, hN⟩ := annotTabB_agree fields D b (headFacts (erase b) G)
        (fun a => by have := h a; simp only [AgreeS] at this; exact this.1) hc
      exact ⟨N, fun m hm => by simp [annotTabS, eraseAllS, annotS, hN m hm, headFacts_eraseAll]⟩
theorem annotTabB_agree (fields : AccId → List Field) (D : DTab) : (b : LBlock) → ∀ G : Facts,
    (∀ a, AgreeB a D [] b G) → allCurB b = true →
    ∃ N, ∀ m, N ≤ m → annotTabB fields D m b = (annotB fields (eraseAll b) G).map some
  | .nil, _, _, _ => ⟨0, fun _ _ => by simp [annotTabB, eraseAll, annotB]⟩
  | .cons s r, G, h, hc => by
      simp only [allCurB, Bool.and_eq_true] at hc
      obtain ⟨N1, h1⟩ := annotTabS_agree fields D s G
        (fun a => by have := h a; simp only [AgreeB] at this; exact this.1) hc.1
      obtain ⟨N2, h2⟩ := annotTabB_agree fields D r (stepF s G)
        (fun a => by have := h a; simp only [AgreeB] at this; exact this.2) hc.2
      exact ⟨max N1 N2, fun m hm => by
        simp [annotTabB, eraseAll, annotB, h1 m (by omega), h2 m (by omega), knownS_eraseAll]⟩
end

end SnaxVerif.AccfgLinks
