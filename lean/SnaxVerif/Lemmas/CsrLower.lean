import SnaxVerif.Model.CsrLower
import Mathlib.Data.List.Nodup
/-! Helper lemmas for C04 (b): the lowering commutes with execution, traces map through the declared map. -/
namespace SnaxVerif.CsrLower
open SnaxVerif.RegMap (Dict lookup)

variable {σ : Type}

/-- execution of a straight list of lowered ops -/
def execCL (sem : Sem σ) : List CStmt → σ → σ × List CEv
  | [], s => (s, [])
  | st :: l, s =>
    let a := execCS sem st s
    let b := execCL sem l a.1
    (b.1, a.2 ++ b.2)

/-- the refinement relation between an accfg-level and a CSR-level run -/
def R (ds : List Decl) (x : σ × List Ev) (y : σ × List CEv) : Prop := y.1 = x.1 ∧ mapTrace ds x.2 = some y.2

theorem mapTrace_append (ds : List Decl) (t1 t2 : List Ev) :
    mapTrace ds (t1 ++ t2) = (mapTrace ds t1).bind (fun a => (mapTrace ds t2).map (fun b => a ++ b)) := by
  induction t1 with
  | nil => simp [mapTrace]
  | cons e t ih =>
    simp only [List.cons_append, mapTrace, ih]
    cases mapEv ds e <;> cases mapTrace ds t <;> cases mapTrace ds t2 <;> simp

theorem mapTrace_append_some {ds : List Decl} {t1 t2 : List Ev} {c1 c2 : List CEv}
    (h1 : mapTrace ds t1 = some c1) (h2 : mapTrace ds t2 = some c2) : mapTrace ds (t1 ++ t2) = some (c1 ++ c2) := by
  rw [mapTrace_append, h1, h2]; rfl

theorem execCB_prepend (sem : Sem σ) (l : List CStmt) (b : CBlock) (s : σ) :
    execCB sem (CBlock.prepend l b) s =
      ((execCB sem b (execCL sem l s).1).1, (execCL sem l s).2 ++ (execCB sem b (execCL sem l s).1).2) := by
  induction l generalizing s with
  | nil => simp [CBlock.prepend, execCL]
  | cons st l ih => simp [CBlock.prepend, execCL, execCB, ih, List.append_assoc]

/-- sequencing preserves the refinement -/
theorem R_seq {ds : List Decl} {x : σ × List Ev} {y : σ × List CEv} {f : σ → σ × List Ev} {g : σ → σ × List CEv}
    (h : R ds x y) (hfg : ∀ s, R ds (f s) (g s)) :
    R ds ((f x.1).1, x.2 ++ (f x.1).2) ((g y.1).1, y.2 ++ (g y.1).2) := by
  obtain ⟨h1, h2⟩ := h
  rw [h1]
  obtain ⟨h3, h4⟩ := hfg x.1
  exact ⟨h3, mapTrace_append_some h2 h4⟩

/-- removing the state slots keeps the data positions, in order -/
theorem fData_filter (sl : List FSlot) : fData (sl.filter FSlot.isData) = fData sl := by
  induction sl with
  | nil => rfl
  | cons x xs ih => cases x <;> simp [List.filter, FSlot.isData, fData, ih]

theorem iData_filter (sl : List ISlot) : iData (sl.filter ISlot.isData) = iData sl := by
  induction sl with
  | nil => rfl
  | cons x xs ih => cases x <;> simp [List.filter, ISlot.isData, iData, ih]

theorem no_state_filter_f (sl : List FSlot) : ((sl.filter FSlot.isData).filter (fun x => !x.isData)).length = 0 := by
  induction sl with
  | nil => rfl
  | cons x xs ih => cases x <;> simp [List.filter, FSlot.isData, ih]

theorem no_state_filter_i (sl : List ISlot) : ((sl.filter ISlot.isData).filter (fun x => !x.isData)).length = 0 := by
  induction sl with
  | nil => rfl
  | cons x xs ih => cases x <;> simp [List.filter, ISlot.isData, ih]

/-- the same state transformer applied after both runs preserves the refinement -/
theorem R_post {ds : List Decl} {x : σ × List Ev} {y : σ × List CEv} (F : σ → σ) (h : R ds x y) :
    R ds (F x.1, x.2) (F y.1, y.2) := ⟨by rw [h.1], h.2⟩

theorem R_iter {ds : List Decl} (f : Nat → σ → σ × List Ev) (g : Nat → σ → σ × List CEv)
    (h : ∀ i s, R ds (f i s) (g i s)) : ∀ n i s, R ds (iterN f n i s) (iterN g n i s) := by
  intro n
  induction n with
  | zero => intro i s; exact ⟨rfl, rfl⟩
  | succ n ih =>
    intro i s
    simp only [iterN]
    exact R_seq (h i s) (fun s' => ih (i + 1) s')

theorem lowerSetup_refines (ds : List Decl) (sem : Sem σ) (acc : String) (d : Decl) (hd : findDecl ds acc = some d)
    (s : σ) : ∀ (ps : List (String × Var × Bool)) (l : List CStmt), lowerSetup d ps = .ok l →
      R ds (s, ps.map (fun p => Ev.fieldW acc p.1 (sem.val p.2.1 s))) (execCL sem l s) := by
  intro ps
  induction ps with
  | nil => intro l h; simp [lowerSetup] at h; subst h; exact ⟨rfl, rfl⟩
  | cons p ps ih =>
    intro l h
    obtain ⟨f, v, c⟩ := p
    simp only [lowerSetup] at h
    split at h
    · cases h
    · next a ha =>
      split at h
      · cases h
      · next r hr =>
        cases h
        obtain ⟨h1, h2⟩ := ih r hr
        refine ⟨by simp [execCL, execCS, h1], ?_⟩
        simp only [List.map_cons, mapTrace, mapEv, addrF, hd, Option.bind_some, ha, Option.map_some, h2]
        simp [execCL, execCS] at h1 ⊢

theorem lowerLaunch_refines (ds : List Decl) (sem : Sem σ) (acc : String) (d : Decl) (hd : findDecl ds acc = some d)
    (s : σ) : ∀ (ps : List (String × Var)) (l : List CStmt), lowerLaunch d ps = .ok l →
      R ds (s, ps.map (fun p => Ev.launchW acc p.1 (sem.val p.2 s))) (execCL sem l s) := by
  intro ps
  induction ps with
  | nil => intro l h; simp [lowerLaunch] at h; subst h; exact ⟨rfl, rfl⟩
  | cons p ps ih =>
    intro l h
    obtain ⟨f, v⟩ := p
    simp only [lowerLaunch] at h
    split at h
    · split at h
      · cases h
      · next a ha =>
        split at h
        · cases h
        · next r hr =>
          cases h
          obtain ⟨h1, h2⟩ := ih r hr
          refine ⟨by simp [execCL, execCS, h1], ?_⟩
          simp only [List.map_cons, mapTrace, mapEv, addrL, hd, Option.bind_some, ha, Option.map_some, h2]
          simp [execCL, execCS] at h1 ⊢
    · cases h

theorem lowerAwait_refines (ds : List Decl) (sem : Sem σ) (acc : String) (d : Decl) (hd : findDecl ds acc = some d)
    (s : σ) : R ds (s, [Ev.await acc]) (execCL sem (lowerAwait d) s) := by
  unfold lowerAwait
  cases hs : d.style <;> simp [R, execCL, execCS, mapTrace, mapEv, hd, hs]

/-! ### channel-group launch -/

theorem execCL_append (sem : Sem σ) (l1 l2 : List CStmt) (s : σ) :
    execCL sem (l1 ++ l2) s =
      ((execCL sem l2 (execCL sem l1 s).1).1, (execCL sem l1 s).2 ++ (execCL sem l2 (execCL sem l1 s).1).2) := by
  induction l1 generalizing s with
  | nil => simp [execCL]
  | cons st l ih => simp [execCL, ih, List.append_assoc]

/-- straight-line refinement at a fixed data state -/
def T (ds : List Decl) (sem : Sem σ) (s : σ) (evs : List Ev) (l : List CStmt) : Prop :=
  R ds (s, evs) (execCL sem l s)

theorem T_nil (ds : List Decl) (sem : Sem σ) (s : σ) : T ds sem s [] [] := ⟨rfl, rfl⟩

theorem T_append {ds : List Decl} {sem : Sem σ} {s : σ} {e1 e2 : List Ev} {l1 l2 : List CStmt}
    (h1 : T ds sem s e1 l1) (h2 : T ds sem s e2 l2) : T ds sem s (e1 ++ e2) (l1 ++ l2) := by
  unfold T R at *
  obtain ⟨a1, a2⟩ := h1
  obtain ⟨b1, b2⟩ := h2
  simp only at a1 a2 b1 b2
  rw [execCL_append]
  simp only [a1]
  exact ⟨b1, mapTrace_append_some a2 b2⟩

theorem T_cons_c {ds : List Decl} {sem : Sem σ} {s : σ} {e : Ev} {evs : List Ev} {l : List CStmt} (a : Nat) (c : Int)
    (he : mapEv ds e = some [CEv.w a c]) (h : T ds sem s evs l) : T ds sem s (e :: evs) (.csrwC a c :: l) := by
  have h0 : T ds sem s [e] [.csrwC a c] := by
    unfold T R; simp [execCL, execCS, mapTrace, he]
  exact T_append h0 h

theorem T_cons_v {ds : List Decl} {sem : Sem σ} {s : σ} {e : Ev} {evs : List Ev} {l : List CStmt} (a : Nat) (v : Var)
    (c1 c2 : Bool) (he : mapEv ds e = some [CEv.w a (sem.val v s)]) (h : T ds sem s evs l) :
    T ds sem s (e :: evs) (.csrw a v c1 c2 :: l) := by
  have h0 : T ds sem s [e] [.csrw a v c1 c2] := by
    unfold T R; simp [execCL, execCS, mapTrace, he]
  exact T_append h0 h

theorem mapEv_fieldW {ds : List Decl} {acc : String} {d : Decl} (hd : findDecl ds acc = some d) {f : String} {a : Nat}
    (ha : lookup d.fields f = some a) (c : Int) : mapEv ds (.fieldW acc f c) = some [CEv.w a c] := by
  simp [mapEv, addrF, hd, ha]

theorem mapEv_launchW {ds : List Decl} {acc : String} {d : Decl} (hd : findDecl ds acc = some d) {f : String} {a : Nat}
    (ha : lookup d.launch f = some a) (c : Int) : mapEv ds (.launchW acc f c) = some [CEv.w a c] := by
  simp [mapEv, addrL, hd, ha]

theorem lowerShiftChunks_refines (ds : List Decl) (sem : Sem σ) (acc : String) (d : Decl)
    (hd : findDecl ds acc = some d) (s : σ) : ∀ (cs : List (Nat × List Int)) (l : List CStmt),
      lowerShiftChunks d cs = .ok l → T ds sem s (shiftEvents acc cs) l := by
  intro cs
  induction cs with
  | nil => intro l h; simp [lowerShiftChunks] at h; subst h; exact T_nil ds sem s
  | cons x cs ih =>
    intro l h
    obtain ⟨c, ch⟩ := x
    simp only [lowerShiftChunks] at h
    split at h
    · cases h
    · next w hw =>
      split at h
      · cases h
      · next a ha =>
        split at h
        · cases h
        · next r hr =>
          cases h
          have : packWordD ch = w := by simp [packWordD, hw]
          simp only [shiftEvents, List.map_cons, this]
          exact T_cons_c a w (mapEv_fieldW hd ha w) (ih r hr)

theorem lowerMults_refines (ds : List Decl) (sem : Sem σ) (acc : String) (d : Decl)
    (hd : findDecl ds acc = some d) (s : σ) : ∀ (vs : List Int) (j : Nat) (l : List CStmt),
      lowerMults d j vs = .ok l → T ds sem s (multEvents acc j vs) l := by
  intro vs
  induction vs with
  | nil => intro j l h; simp [lowerMults] at h; subst h; exact T_nil ds sem s
  | cons v vs ih =>
    intro j l h
    simp only [lowerMults] at h
    split at h
    · cases h
    · next a ha =>
      split at h
      · cases h
      · next r hr =>
        cases h
        simp only [multEvents]
        exact T_cons_c a v (mapEv_fieldW hd ha v) (ih (j + 1) r hr)

theorem lowerAwait_T (ds : List Decl) (sem : Sem σ) (acc : String) (d : Decl) (hd : findDecl ds acc = some d)
    (s : σ) : T ds sem s [Ev.await acc] (lowerAwait d) := lowerAwait_refines ds sem acc d hd s

theorem lowerGroups_refines (ds : List Decl) (sem : Sem σ) (acc : String) (d : Decl)
    (hd : findDecl ds acc = some d) (s : σ) (n : Nat) (ps : List (String × Var)) (aG : Nat)
    (haG : lookup d.launch "launch_gemmx" = some aG) (shifts mults : List Int) :
    ∀ (is : List Nat) (l : List CStmt), lowerGroups d n ps aG shifts mults is = .ok l →
      T ds sem s (groupEvents acc (match lastLookup ps "launch_gemmx" with | some v => sem.val v s | none => 0)
        n shifts mults is) l := by
  intro is
  induction is with
  | nil => intro l h; simp [lowerGroups] at h; subst h; exact T_nil ds sem s
  | cons i is ih =>
    intro l h
    simp only [lowerGroups] at h
    split at h
    · cases h
    · next sh hsh =>
      split at h
      · cases h
      · next mu hmu =>
        split at h
        · cases h
        · next v hv =>
          split at h
          · cases h
          · next r hr =>
            cases h
            simp only [groupEvents, hv]
            have h1 := lowerShiftChunks_refines ds sem acc d hd s _ sh hsh
            have h2 := lowerMults_refines ds sem acc d hd s _ 0 mu hmu
            have h3 : T ds sem s [Ev.launchW acc "launch_gemmx" (sem.val v s), Ev.await acc]
                (.csrw aG v false false :: lowerAwait d) :=
              T_cons_v aG v false false (mapEv_launchW hd haG _) (lowerAwait_T ds sem acc d hd s)
            have h4 := ih r hr
            simp only [hv] at h4
            exact T_append (T_append (T_append h1 h2) h3) h4

theorem lowerLaunchG_refines (ds : List Decl) (sem : Sem σ) (acc : String) (d : Decl)
    (hd : findDecl ds acc = some d) (s : σ) (ps : List (String × Var)) (n : Nat) (m : Int) (shifts mults : List Int)
    (l : List CStmt) (h : lowerLaunchG d ps n m shifts mults = .ok l) :
    T ds sem s (launchGEvents acc (fun f => match lastLookup ps f with | some v => sem.val v s | none => 0)
      n m shifts mults) l := by
  unfold lowerLaunchG at h
  split at h
  · next aG aS haG haS =>
    split at h
    · cases h
    · split at h
      · next aM aT haM haT =>
        split at h
        · cases h
        · next vS hvS =>
          split at h
          · cases h
          · next r hr =>
            cases h
            unfold launchGEvents
            refine T_cons_c aM _ (mapEv_fieldW hd haM _) (T_cons_c aT _ (mapEv_fieldW hd haT _) ?_)
            simp only [hvS]
            exact T_cons_v aS vS false false (mapEv_launchW hd haS _)
              (lowerGroups_refines ds sem acc d hd s n ps aG haG shifts mults _ r hr)
      · cases h
  · cases h

theorem execCL_rocc (sem : Sem σ) (l : List RStmt) (s : σ) : execCL sem (l.map CStmt.rocc) s = (s, []) := by
  induction l with
  | nil => rfl
  | cons x l ih => simp [execCL, execCS, ih]

mutual
theorem lowerStmt_refines (ds : List Decl) (sem : Sem σ) : (st : Stmt) → (l : List CStmt) →
    lowerStmt ds st = .ok l → ∀ s, R ds (execS sem st s) (execCL sem l s)
  | .setup acc ps, l, h, s => by
    simp only [lowerStmt] at h
    split at h
    · cases h
    · next d hd => simpa [execS] using lowerSetup_refines ds sem acc d hd s ps l h
  | .launch acc ps, l, h, s => by
    simp only [lowerStmt] at h
    split at h
    · cases h
    · next d hd => simpa [execS] using lowerLaunch_refines ds sem acc d hd s ps l h
  | .launchG acc ps n m shifts mults, l, h, s => by
    simp only [lowerStmt] at h
    split at h
    · cases h
    · next d hd =>
      simp only [execS]
      exact lowerLaunchG_refines ds sem acc d hd s ps n m shifts mults l h
  | .await acc, l, h, s => by
    simp only [lowerStmt] at h
    split at h
    · cases h
    · next d hd => cases h; simpa [execS] using lowerAwait_refines ds sem acc d hd s
  | .setupR acc ps prev, l, h, s => by
    simp only [lowerStmt] at h
    split at h
    · cases h
    · split at h
      · cases h
      · cases h; simp [R, execS, execCL_rocc, mapTrace]
  | .launchR acc ps, l, h, s => by
    simp only [lowerStmt] at h
    split at h
    · cases h
    · split at h
      · cases h
      · cases h; simp [R, execS, execCL_rocc, mapTrace]
  | .awaitR acc, l, h, s => by
    simp only [lowerStmt] at h
    split at h
    · cases h
    · cases h; simp [R, execS, execCL, mapTrace]
  | .op tag n, l, h, s => by
    simp only [lowerStmt] at h
    cases h
    simp [R, execS, execCL, execCS, mapTrace, mapEv]
  | .ifS tag n t e, l, h, s => by
    simp only [lowerStmt] at h
    split at h
    · cases h
    · next e' he =>
      split at h
      · cases h
      · next t' ht =>
        cases h
        have hT := lowerBlock_refines ds sem t t' ht s
        have hE := lowerBlock_refines ds sem e e' he s
        simp only [execS, execCL, execCS, iData_filter]
        split
        · have := R_post (assign sem ((iData n).map (fun x => (x.1, x.2.1)))) hT
          exact ⟨by simpa using this.1, by simpa using this.2⟩
        · have := R_post (assign sem ((iData n).map (fun x => (x.1, x.2.2)))) hE
          exact ⟨by simpa using this.1, by simpa using this.2⟩
  | .forS tag n b, l, h, s => by
    simp only [lowerStmt] at h
    split at h
    · cases h
    · next b' hb =>
      cases h
      have hB := fun i s' => R_post (assign sem ((fData n).map (fun x => (x.2.1, x.2.2.2))))
        (lowerBlock_refines ds sem b b' hb (sem.iter tag i s'))
      have h1 := R_iter (ds := ds)
        (fun i s' => (assign sem ((fData n).map (fun x => (x.2.1, x.2.2.2))) (execB sem b (sem.iter tag i s')).1,
          (execB sem b (sem.iter tag i s')).2))
        (fun i s' => (assign sem ((fData n).map (fun x => (x.2.1, x.2.2.2))) (execCB sem b' (sem.iter tag i s')).1,
          (execCB sem b' (sem.iter tag i s')).2))
        hB (sem.trips tag s) 0 (assign sem ((fData n).map (fun x => (x.2.1, x.2.2.1))) s)
      have := R_post (assign sem ((fData n).map (fun x => (x.1, x.2.1)))) h1
      simp only [execS, execCL, execCS, fData_filter]
      exact ⟨by simpa using this.1, by simpa using this.2⟩
theorem lowerBlock_refines (ds : List Decl) (sem : Sem σ) : (b : Block) → (q : CBlock) →
    lowerBlock ds b = .ok q → ∀ s, R ds (execB sem b s) (execCB sem q s)
  | .nil, q, h, s => by
    simp only [lowerBlock] at h
    cases h
    exact ⟨rfl, rfl⟩
  | .cons st r, q, h, s => by
    simp only [lowerBlock] at h
    split at h
    · cases h
    · next r' hr =>
      split at h
      · cases h
      · next l hl =>
        cases h
        have h1 := lowerStmt_refines ds sem st l hl s
        have h2 := fun s' => lowerBlock_refines ds sem r r' hr s'
        rw [execCB_prepend]
        simp only [execB]
        exact R_seq h1 h2
end

/-! ### no state survives -/

theorem stateCount_prepend (l : List CStmt) (b : CBlock) :
    (CBlock.prepend l b).stateCount = (l.map CStmt.stateCount).sum + b.stateCount := by
  induction l with
  | nil => simp [CBlock.prepend]
  | cons s l ih => simp [CBlock.prepend, CBlock.stateCount, ih, Nat.add_assoc]

theorem lowerSetup_noState (d : Decl) : ∀ (ps : List (String × Var × Bool)) (l : List CStmt),
    lowerSetup d ps = .ok l → (l.map CStmt.stateCount).sum = 0 := by
  intro ps
  induction ps with
  | nil => intro l h; simp [lowerSetup] at h; subst h; rfl
  | cons p ps ih =>
    intro l h
    obtain ⟨f, v, c⟩ := p
    simp only [lowerSetup] at h
    split at h
    · cases h
    · split at h
      · cases h
      · next r hr => cases h; simp [CStmt.stateCount, ih r hr]

theorem lowerLaunch_noState (d : Decl) : ∀ (ps : List (String × Var)) (l : List CStmt),
    lowerLaunch d ps = .ok l → (l.map CStmt.stateCount).sum = 0 := by
  intro ps
  induction ps with
  | nil => intro l h; simp [lowerLaunch] at h; subst h; rfl
  | cons p ps ih =>
    intro l h
    obtain ⟨f, v⟩ := p
    simp only [lowerLaunch] at h
    split at h
    · split at h
      · cases h
      · split at h
        · cases h
        · next r hr => cases h; simp [CStmt.stateCount, ih r hr]
    · cases h

/-- statements without regions and without state -/
def CStmt.isLeaf : CStmt → Bool
  | .csrw .. | .csrwC .. | .poll _ | .clear | .nop => true
  | _ => false

theorem sum_stateCount_of_leaf (l : List CStmt) (h : ∀ x ∈ l, x.isLeaf = true) : (l.map CStmt.stateCount).sum = 0 := by
  induction l with
  | nil => rfl
  | cons x l ih =>
    have hx := h x List.mem_cons_self
    have := ih (fun y hy => h y (List.mem_cons_of_mem _ hy))
    cases x <;> simp_all [CStmt.stateCount, CStmt.isLeaf]

theorem sum_stateCount_rocc (l : List RStmt) : ((l.map CStmt.rocc).map CStmt.stateCount).sum = 0 := by
  induction l with
  | nil => rfl
  | cons x l ih => simp only [List.map_cons, List.sum_cons, ih, CStmt.stateCount]

theorem lowerSetup_leaf (d : Decl) : ∀ (ps : List (String × Var × Bool)) (l : List CStmt),
    lowerSetup d ps = .ok l → ∀ x ∈ l, x.isLeaf = true := by
  intro ps
  induction ps with
  | nil => intro l h; simp [lowerSetup] at h; subst h; simp
  | cons p ps ih =>
    intro l h
    obtain ⟨f, v, c⟩ := p
    simp only [lowerSetup] at h
    split at h
    · cases h
    · split at h
      · cases h
      · next r hr =>
        cases h
        intro x hx
        rcases List.mem_cons.mp hx with rfl | hx
        · rfl
        · exact ih r hr x hx

theorem lowerLaunch_leaf (d : Decl) : ∀ (ps : List (String × Var)) (l : List CStmt),
    lowerLaunch d ps = .ok l → ∀ x ∈ l, x.isLeaf = true := by
  intro ps
  induction ps with
  | nil => intro l h; simp [lowerLaunch] at h; subst h; simp
  | cons p ps ih =>
    intro l h
    obtain ⟨f, v⟩ := p
    simp only [lowerLaunch] at h
    split at h
    · split at h
      · cases h
      · split at h
        · cases h
        · next r hr =>
          cases h
          intro x hx
          rcases List.mem_cons.mp hx with rfl | hx
          · rfl
          · exact ih r hr x hx
    · cases h

theorem lowerAwait_leaf (d : Decl) : ∀ x ∈ lowerAwait d, x.isLeaf = true := by
  unfold lowerAwait; cases d.style <;> simp [CStmt.isLeaf]

theorem lowerShiftChunks_leaf (d : Decl) : ∀ (cs : List (Nat × List Int)) (l : List CStmt),
    lowerShiftChunks d cs = .ok l → ∀ x ∈ l, x.isLeaf = true := by
  intro cs
  induction cs with
  | nil => intro l h; simp [lowerShiftChunks] at h; subst h; simp
  | cons c cs ih =>
    intro l h
    obtain ⟨c, ch⟩ := c
    simp only [lowerShiftChunks] at h
    split at h
    · cases h
    · split at h
      · cases h
      · split at h
        · cases h
        · next r hr =>
          cases h
          intro x hx
          rcases List.mem_cons.mp hx with rfl | hx
          · rfl
          · exact ih r hr x hx

theorem lowerMults_leaf (d : Decl) : ∀ (vs : List Int) (j : Nat) (l : List CStmt),
    lowerMults d j vs = .ok l → ∀ x ∈ l, x.isLeaf = true := by
  intro vs
  induction vs with
  | nil => intro j l h; simp [lowerMults] at h; subst h; simp
  | cons v vs ih =>
    intro j l h
    simp only [lowerMults] at h
    split at h
    · cases h
    · split at h
      · cases h
      · next r hr =>
        cases h
        intro x hx
        rcases List.mem_cons.mp hx with rfl | hx
        · rfl
        · exact ih (j + 1) r hr x hx

theorem lowerGroups_leaf (d : Decl) (n : Nat) (ps : List (String × Var)) (aG : Nat) (shifts mults : List Int) :
    ∀ (is : List Nat) (l : List CStmt), lowerGroups d n ps aG shifts mults is = .ok l → ∀ x ∈ l, x.isLeaf = true := by
  intro is
  induction is with
  | nil => intro l h; simp [lowerGroups] at h; subst h; simp
  | cons i is ih =>
    intro l h
    simp only [lowerGroups] at h
    split at h
    · cases h
    · next sh hsh =>
      split at h
      · cases h
      · next mu hmu =>
        split at h
        · cases h
        · split at h
          · cases h
          · next r hr =>
            cases h
            intro x hx
            simp only [List.mem_append, List.mem_cons] at hx
            rcases hx with ((hx | hx) | (rfl | hx)) | hx
            · exact lowerShiftChunks_leaf d _ sh hsh x hx
            · exact lowerMults_leaf d _ 0 mu hmu x hx
            · rfl
            · exact lowerAwait_leaf d x hx
            · exact ih r hr x hx

theorem lowerLaunchG_leaf (d : Decl) (ps : List (String × Var)) (n : Nat) (m : Int) (shifts mults : List Int)
    (l : List CStmt) (h : lowerLaunchG d ps n m shifts mults = .ok l) : ∀ x ∈ l, x.isLeaf = true := by
  unfold lowerLaunchG at h
  split at h
  · split at h
    · cases h
    · split at h
      · split at h
        · cases h
        · split at h
          · cases h
          · next r hr =>
            cases h
            intro x hx
            simp only [List.mem_cons] at hx
            rcases hx with rfl | rfl | rfl | hx
            · rfl
            · rfl
            · rfl
            · exact lowerGroups_leaf d n ps _ shifts mults _ r hr x hx
      · cases h
  · cases h

theorem lowerLaunchG_noState (d : Decl) (ps : List (String × Var)) (n : Nat) (m : Int) (shifts mults : List Int)
    (l : List CStmt) (h : lowerLaunchG d ps n m shifts mults = .ok l) : (l.map CStmt.stateCount).sum = 0 :=
  sum_stateCount_of_leaf _ (lowerLaunchG_leaf d ps n m shifts mults l h)

mutual
theorem lowerStmt_noState (ds : List Decl) : (st : Stmt) → (l : List CStmt) → lowerStmt ds st = .ok l →
    (l.map CStmt.stateCount).sum = 0
  | .setup acc ps, l, h => by
    simp only [lowerStmt] at h
    split at h
    · cases h
    · next d _ => exact lowerSetup_noState d ps l h
  | .launch acc ps, l, h => by
    simp only [lowerStmt] at h
    split at h
    · cases h
    · next d _ => exact lowerLaunch_noState d ps l h
  | .launchG acc ps n m shifts mults, l, h => by
    simp only [lowerStmt] at h
    split at h
    · cases h
    · next d _ => exact lowerLaunchG_noState d ps n m shifts mults l h
  | .await acc, l, h => by
    simp only [lowerStmt] at h
    split at h
    · cases h
    · next d _ => cases h; unfold lowerAwait; cases d.style <;> simp [CStmt.stateCount]
  | .setupR acc ps prev, l, h => by
    simp only [lowerStmt] at h
    split at h
    · cases h
    · split at h
      · cases h
      · cases h; exact sum_stateCount_rocc _
  | .launchR acc ps, l, h => by
    simp only [lowerStmt] at h
    split at h
    · cases h
    · split at h
      · cases h
      · cases h; exact sum_stateCount_rocc _
  | .awaitR acc, l, h => by
    simp only [lowerStmt] at h
    split at h
    · cases h
    · cases h; rfl
  | .op tag n, l, h => by
    simp only [lowerStmt] at h
    cases h; simp [CStmt.stateCount]
  | .ifS tag n t e, l, h => by
    simp only [lowerStmt] at h
    split at h
    · cases h
    · next e' he =>
      split at h
      · cases h
      · next t' ht =>
        cases h
        simp [CStmt.stateCount, lowerBlock_noState ds t t' ht, lowerBlock_noState ds e e' he, no_state_filter_i]
  | .forS tag n b, l, h => by
    simp only [lowerStmt] at h
    split at h
    · cases h
    · next b' hb => cases h; simp [CStmt.stateCount, lowerBlock_noState ds b b' hb, no_state_filter_f]
theorem lowerBlock_noState (ds : List Decl) : (b : Block) → (q : CBlock) → lowerBlock ds b = .ok q →
    q.stateCount = 0
  | .nil, q, h => by simp only [lowerBlock] at h; cases h; rfl
  | .cons st r, q, h => by
    simp only [lowerBlock] at h
    split at h
    · cases h
    · next r' hr =>
      split at h
      · cases h
      · next l hl =>
        cases h
        rw [stateCount_prepend, lowerStmt_noState ds st l hl, lowerBlock_noState ds r r' hr]
end

/-! ### register contents -/

/-- separation of the declared addresses (what injectivity of the register map provides) -/
structure Sep (ds : List Decl) : Prop where
  inj : ∀ acc f acc' f' a, addrF ds acc f = some a → addrF ds acc' f' = some a → acc = acc' ∧ f = f'
  launchSep : ∀ acc lf acc' f a, addrL ds acc lf = some a → addrF ds acc' f ≠ some a
  clearSep : ∀ acc d, findDecl ds acc = some d → d.style = .poll1 → ∀ acc' f, addrF ds acc' f ≠ some clearAddr

/-- the address-indexed register file holds, at every declared field address, the field's value -/
def Rel (ds : List Decl) (rf : RegsF) (ra : RegsA) : Prop := ∀ acc f a, addrF ds acc f = some a → ra a = rf acc f

theorem replayA_append (c1 c2 : List CEv) (ra : RegsA) : replayA (c1 ++ c2) ra = replayA c2 (replayA c1 ra) := by
  induction c1 generalizing ra with
  | nil => rfl
  | cons e c ih => cases e <;> simp [replayA, ih]

theorem replayF_append (t1 t2 : List Ev) (rf : RegsF) : replayF (t1 ++ t2) rf = replayF t2 (replayF t1 rf) := by
  induction t1 generalizing rf with
  | nil => rfl
  | cons e c ih => cases e <;> simp [replayF, ih]

theorem rel_step {ds : List Decl} (hs : Sep ds) (e : Ev) (a : List CEv) (h : mapEv ds e = some a)
    (rf : RegsF) (ra : RegsA) (hr : Rel ds rf ra) : Rel ds (replayF [e] rf) (replayA a ra) := by
  cases e with
  | fieldW acc f v =>
    simp only [mapEv, Option.map_eq_some_iff] at h
    obtain ⟨ad, had, rfl⟩ := h
    intro acc' f' a' ha'
    simp only [replayF, replayA]
    by_cases hEq : a' = ad
    · subst hEq
      obtain ⟨h1, h2⟩ := hs.inj acc' f' acc f a' ha' had
      simp [h1, h2]
    · have hne : ¬ (acc' = acc ∧ f' = f) := by
        rintro ⟨rfl, rfl⟩
        rw [had] at ha'; exact hEq (Option.some.inj ha').symm
      simp [hEq, hne, hr acc' f' a' ha']
  | launchW acc lf v =>
    simp only [mapEv, Option.map_eq_some_iff] at h
    obtain ⟨ad, had, rfl⟩ := h
    intro acc' f' a' ha'
    simp only [replayF, replayA]
    have hne : a' ≠ ad := by
      rintro rfl
      exact hs.launchSep acc lf acc' f' a' had ha'
    simp [hne, hr acc' f' a' ha']
  | await acc =>
    simp only [mapEv, Option.map_eq_some_iff] at h
    obtain ⟨d, hd, rfl⟩ := h
    intro acc' f' a' ha'
    cases hst : d.style with
    | poll1 =>
      have hne : a' ≠ clearAddr := by
        rintro rfl
        exact hs.clearSep acc d hd hst acc' f' ha'
      simp [replayF, replayA, hne, hr acc' f' a' ha']
    | poll3 => simp [replayF, replayA, hr acc' f' a' ha']
  | op tag =>
    simp only [mapEv, Option.some.injEq] at h
    subst h
    intro acc' f' a' ha'
    simp [replayF, replayA, hr acc' f' a' ha']

theorem regs_refine {ds : List Decl} (hs : Sep ds) : ∀ (t : List Ev) (c : List CEv), mapTrace ds t = some c →
    ∀ rf ra, Rel ds rf ra → Rel ds (replayF t rf) (replayA c ra) := by
  intro t
  induction t with
  | nil => intro c h rf ra hr; simp [mapTrace] at h; subst h; exact hr
  | cons e t ih =>
    intro c h rf ra hr
    simp only [mapTrace] at h
    cases ha : mapEv ds e with
    | none => simp [ha] at h
    | some a =>
      cases hb : mapTrace ds t with
      | none => simp [ha, hb] at h
      | some b =>
        simp [ha, hb] at h
        subst h
        have h1 := rel_step hs e a ha rf ra hr
        have := ih b hb _ _ h1
        rw [replayA_append]
        rw [show e :: t = [e] ++ t from rfl, replayF_append]
        exact this

theorem mapTrace_split {ds : List Decl} {t1 t2 : List Ev} {c : List CEv} (h : mapTrace ds (t1 ++ t2) = some c) :
    ∃ c1 c2, c = c1 ++ c2 ∧ mapTrace ds t1 = some c1 ∧ mapTrace ds t2 = some c2 := by
  rw [mapTrace_append] at h
  cases h1 : mapTrace ds t1 with
  | none => simp [h1] at h
  | some c1 =>
    cases h2 : mapTrace ds t2 with
    | none => simp [h1, h2] at h
    | some c2 =>
      simp [h1, h2] at h
      exact ⟨c1, c2, h.symm, rfl, rfl⟩

/-! ### a single declared accelerator with an injective map is separated -/

theorem mem_of_lookup {d : Dict} {k : String} {a : Nat} (h : lookup d k = some a) : (k, a) ∈ d := by
  unfold lookup at h
  rw [Option.map_eq_some_iff] at h
  obtain ⟨e, he, rfl⟩ := h
  have h1 := List.mem_of_find?_eq_some he
  have h2 := List.find?_some he
  have : e.1 = k := by simpa using h2
  rw [← this]; exact h1

def declOf (name : String) (m : RegMap.RegMap) (style : Style) : Decl :=
  { name := name, fields := m.fields, launch := m.launch, barrier := m.barrier, style := style }

theorem findDecl_single {name acc : String} {m : RegMap.RegMap} {style : Style} {d : Decl}
    (h : findDecl [declOf name m style] acc = some d) : d = declOf name m style ∧ acc = name := by
  unfold findDecl at h
  simp only [List.find?_cons, List.find?_nil] at h
  split at h
  · next hh =>
    have hn : name = acc := by simpa [declOf] using hh
    exact ⟨(Option.some.inj h).symm, hn.symm⟩
  · cases h

theorem sep_single (name : String) (m : RegMap.RegMap) (style : Style) (h : m.addrs.Nodup)
    (hc : style = .poll1 → clearAddr ∈ m.reserved) : Sep [declOf name m style] := by
  unfold RegMap.RegMap.addrs at h
  have hF : ∀ acc f a, addrF [declOf name m style] acc f = some a → (f, a) ∈ m.fields ∧ acc = name := by
    intro acc f a ha
    unfold addrF at ha
    cases hd : findDecl [declOf name m style] acc with
    | none => simp [hd] at ha
    | some d =>
      obtain ⟨rfl, rfl⟩ := findDecl_single hd
      simp [hd] at ha
      exact ⟨mem_of_lookup ha, rfl⟩
  have hL : ∀ acc f a, addrL [declOf name m style] acc f = some a → (f, a) ∈ m.launch := by
    intro acc f a ha
    unfold addrL at ha
    cases hd : findDecl [declOf name m style] acc with
    | none => simp [hd] at ha
    | some d =>
      obtain ⟨rfl, rfl⟩ := findDecl_single hd
      simp [hd] at ha
      exact mem_of_lookup ha
  rw [List.nodup_append] at h
  obtain ⟨h123, _, h4⟩ := h
  rw [List.nodup_append] at h123
  obtain ⟨h12, _, _⟩ := h123
  rw [List.nodup_append] at h12
  obtain ⟨h1, _, h12'⟩ := h12
  refine ⟨?_, ?_, ?_⟩
  · intro acc f acc' f' a ha ha'
    obtain ⟨m1, rfl⟩ := hF acc f a ha
    obtain ⟨m2, rfl⟩ := hF acc' f' a ha'
    refine ⟨rfl, ?_⟩
    have := List.inj_on_of_nodup_map (f := fun e : String × Nat => e.2) h1 m1 m2 rfl
    exact congrArg Prod.fst this
  · intro acc lf acc' f a ha ha'
    have m1 := hL acc lf a ha
    obtain ⟨m2, _⟩ := hF acc' f a ha'
    exact h12' a (List.mem_map_of_mem (f := fun e : String × Nat => e.2) m2) a
      (List.mem_map_of_mem (f := fun e : String × Nat => e.2) m1) rfl
  · intro acc d hd hst acc' f ha
    obtain ⟨rfl, rfl⟩ := findDecl_single hd
    obtain ⟨m2, _⟩ := hF acc' f clearAddr ha
    have hmem : clearAddr ∈ m.reserved := hc hst
    apply h4 clearAddr _ clearAddr hmem rfl
    simp only [List.mem_append]
    exact Or.inl (Or.inl (List.mem_map_of_mem (f := fun e : String × Nat => e.2) m2))

/-! ### when the lowering raises: exactly on an undeclared lookup -/

mutual
/-- everything the lowering looks up is there: accelerators declared, setup fields and launch fields in the
declared dictionaries, launch field names containing "launch" -/
def Stmt.Declared (ds : List Decl) : Stmt → Prop
  | .setup acc ps => ∃ d, findDecl ds acc = some d ∧ ∀ p ∈ ps, (lookup d.fields p.1).isSome
  | .launch acc ps => ∃ d, findDecl ds acc = some d ∧ ∀ p ∈ ps, hasLaunch p.1 = true ∧ (lookup d.launch p.1).isSome
  -- channel-group launch: the accelerator is declared and the group lowering finds all it looks up (both launch
  -- registers, `M`, `temporal_loop_bound`, both launch values, the shift / mult registers of every chunk), there
  -- is at least one group and every shift chunk has four values
  | .launchG acc ps n m shifts mults => ∃ d, findDecl ds acc = some d ∧ ∃ l, lowerLaunchG d ps n m shifts mults = .ok l
  | .await acc => (findDecl ds acc).isSome
  -- RoCC: the accelerator is declared and the per-op lowering does not raise (retraced operands present in the
  -- inferred state / both launch operands given, every declared launch instruction mentioned)
  | .setupR acc ps prev => ∃ d, findDecl ds acc = some d ∧ ∃ l, roccSetup d.fields ps prev = .ok l
  | .launchR acc ps => ∃ d, findDecl ds acc = some d ∧ ∃ l, roccLaunch d.launch ps = .ok l
  | .awaitR acc => (findDecl ds acc).isSome
  | .op _ _ => True
  | .ifS _ _ t e => t.Declared ds ∧ e.Declared ds
  | .forS _ _ b => b.Declared ds
def Block.Declared (ds : List Decl) : Block → Prop
  | .nil => True
  | .cons s r => s.Declared ds ∧ r.Declared ds
end

theorem lowerSetup_total (d : Decl) : ∀ ps : List (String × Var × Bool), (∀ p ∈ ps, (lookup d.fields p.1).isSome) →
    ∃ l, lowerSetup d ps = .ok l := by
  intro ps
  induction ps with
  | nil => intro _; exact ⟨[], rfl⟩
  | cons p ps ih =>
    intro h
    obtain ⟨f, v, c⟩ := p
    obtain ⟨l, hl⟩ := ih (fun q hq => h q (List.mem_cons_of_mem _ hq))
    have := h (f, v, c) List.mem_cons_self
    cases ha : lookup d.fields f with
    | none => simp [ha] at this
    | some a => exact ⟨_, by simp [lowerSetup, ha, hl]; rfl⟩

theorem lowerLaunch_total (d : Decl) : ∀ ps : List (String × Var),
    (∀ p ∈ ps, hasLaunch p.1 = true ∧ (lookup d.launch p.1).isSome) → ∃ l, lowerLaunch d ps = .ok l := by
  intro ps
  induction ps with
  | nil => intro _; exact ⟨[], rfl⟩
  | cons p ps ih =>
    intro h
    obtain ⟨f, v⟩ := p
    obtain ⟨l, hl⟩ := ih (fun q hq => h q (List.mem_cons_of_mem _ hq))
    obtain ⟨h1, h2⟩ := h (f, v) List.mem_cons_self
    cases ha : lookup d.launch f with
    | none => simp [ha] at h2
    | some a => exact ⟨_, by simp [lowerLaunch, h1, ha, hl]; rfl⟩

mutual
theorem lowerStmt_total (ds : List Decl) : (st : Stmt) → st.Declared ds → ∃ l, lowerStmt ds st = .ok l
  | .setup acc ps, h => by
    obtain ⟨d, hd, hp⟩ := h
    obtain ⟨l, hl⟩ := lowerSetup_total d ps hp
    exact ⟨l, by simp [lowerStmt, hd, hl]⟩
  | .launch acc ps, h => by
    obtain ⟨d, hd, hp⟩ := h
    obtain ⟨l, hl⟩ := lowerLaunch_total d ps hp
    exact ⟨l, by simp [lowerStmt, hd, hl]⟩
  | .launchG acc ps n m shifts mults, h => by
    obtain ⟨d, hd, l, hl⟩ := h
    exact ⟨l, by simp [lowerStmt, hd, hl]⟩
  | .await acc, h => by
    simp only [Stmt.Declared] at h
    cases hd : findDecl ds acc with
    | none => simp [hd] at h
    | some d => exact ⟨_, by simp [lowerStmt, hd]; rfl⟩
  | .setupR acc ps prev, h => by
    obtain ⟨d, hd, l, hl⟩ := h
    exact ⟨_, by simp [lowerStmt, hd, hl]; rfl⟩
  | .launchR acc ps, h => by
    obtain ⟨d, hd, l, hl⟩ := h
    exact ⟨_, by simp [lowerStmt, hd, hl]; rfl⟩
  | .awaitR acc, h => by
    simp only [Stmt.Declared] at h
    cases hd : findDecl ds acc with
    | none => simp [hd] at h
    | some d => exact ⟨_, by simp [lowerStmt, hd]; rfl⟩
  | .op tag n, _ => ⟨_, by simp [lowerStmt]; rfl⟩
  | .ifS tag sl t e, h => by
    obtain ⟨ht, he⟩ := h
    obtain ⟨t', ht'⟩ := lowerBlock_total ds t ht
    obtain ⟨e', he'⟩ := lowerBlock_total ds e he
    exact ⟨_, by simp [lowerStmt, ht', he']; rfl⟩
  | .forS tag sl b, h => by
    obtain ⟨b', hb'⟩ := lowerBlock_total ds b h
    exact ⟨_, by simp [lowerStmt, hb']; rfl⟩
theorem lowerBlock_total (ds : List Decl) : (b : Block) → b.Declared ds → ∃ q, lowerBlock ds b = .ok q
  | .nil, _ => ⟨_, by simp [lowerBlock]; rfl⟩
  | .cons s r, h => by
    obtain ⟨hs, hr⟩ := h
    obtain ⟨l, hl⟩ := lowerStmt_total ds s hs
    obtain ⟨r', hr'⟩ := lowerBlock_total ds r hr
    exact ⟨_, by simp [lowerBlock, hl, hr']; rfl⟩
end

/-- and conversely the lowering only succeeds on such programs (so `Declared` is exactly "does not raise") -/
theorem lowerSetup_ok_declared (d : Decl) : ∀ (ps : List (String × Var × Bool)) (l : List CStmt),
    lowerSetup d ps = .ok l → ∀ p ∈ ps, (lookup d.fields p.1).isSome := by
  intro ps
  induction ps with
  | nil => intro l _ p hp; cases hp
  | cons q ps ih =>
    intro l h p hp
    obtain ⟨f, v, c⟩ := q
    simp only [lowerSetup] at h
    split at h
    · cases h
    · next a ha =>
      split at h
      · cases h
      · next r hr =>
        rcases List.mem_cons.mp hp with rfl | hp
        · simp [ha]
        · exact ih r hr p hp

theorem lowerLaunch_ok_declared (d : Decl) : ∀ (ps : List (String × Var)) (l : List CStmt),
    lowerLaunch d ps = .ok l → ∀ p ∈ ps, hasLaunch p.1 = true ∧ (lookup d.launch p.1).isSome := by
  intro ps
  induction ps with
  | nil => intro l _ p hp; cases hp
  | cons q ps ih =>
    intro l h p hp
    obtain ⟨f, v⟩ := q
    simp only [lowerLaunch] at h
    split at h
    · next hf =>
      split at h
      · cases h
      · next a ha =>
        split at h
        · cases h
        · next r hr =>
          rcases List.mem_cons.mp hp with rfl | hp
          · exact ⟨hf, by simp [ha]⟩
          · exact ih r hr p hp
    · cases h

mutual
theorem lowerStmt_ok_declared (ds : List Decl) : (st : Stmt) → (l : List CStmt) → lowerStmt ds st = .ok l →
    st.Declared ds
  | .setup acc ps, l, h => by
    simp only [lowerStmt] at h
    split at h
    · cases h
    · next d hd => exact ⟨d, hd, lowerSetup_ok_declared d ps l h⟩
  | .launch acc ps, l, h => by
    simp only [lowerStmt] at h
    split at h
    · cases h
    · next d hd => exact ⟨d, hd, lowerLaunch_ok_declared d ps l h⟩
  | .launchG acc ps n m shifts mults, l, h => by
    simp only [lowerStmt] at h
    split at h
    · cases h
    · next d hd => exact ⟨d, hd, l, h⟩
  | .await acc, l, h => by
    simp only [lowerStmt] at h
    split at h
    · cases h
    · next d hd => simp [Stmt.Declared, hd]
  | .setupR acc ps prev, l, h => by
    simp only [lowerStmt] at h
    split at h
    · cases h
    · next d hd =>
      split at h
      · cases h
      · next r hr => exact ⟨d, hd, r, hr⟩
  | .launchR acc ps, l, h => by
    simp only [lowerStmt] at h
    split at h
    · cases h
    · next d hd =>
      split at h
      · cases h
      · next r hr => exact ⟨d, hd, r, hr⟩
  | .awaitR acc, l, h => by
    simp only [lowerStmt] at h
    split at h
    · cases h
    · next d hd => simp [Stmt.Declared, hd]
  | .op tag n, _, _ => trivial
  | .ifS tag sl t e, l, h => by
    simp only [lowerStmt] at h
    split at h
    · cases h
    · next e' he =>
      split at h
      · cases h
      · next t' ht => exact ⟨lowerBlock_ok_declared ds t t' ht, lowerBlock_ok_declared ds e e' he⟩
  | .forS tag sl b, l, h => by
    simp only [lowerStmt] at h
    split at h
    · cases h
    · next b' hb => exact lowerBlock_ok_declared ds b b' hb
theorem lowerBlock_ok_declared (ds : List Decl) : (b : Block) → (q : CBlock) → lowerBlock ds b = .ok q →
    b.Declared ds
  | .nil, _, _ => trivial
  | .cons s r, q, h => by
    simp only [lowerBlock] at h
    split at h
    · cases h
    · next r' hr =>
      split at h
      · cases h
      · next l hl => exact ⟨lowerStmt_ok_declared ds s l hl, lowerBlock_ok_declared ds r r' hr⟩
end

end SnaxVerif.CsrLower
