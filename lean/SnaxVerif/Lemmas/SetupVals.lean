import SnaxVerif.Model.SetupVals
/-! Helper lemmas for C08 (alignment of separately generated field and value lists). Core Lean only. -/
namespace SnaxVerif.SV

/-! ### generic list / Except plumbing -/

theorem mapM_ok_get {α β ε} {f : α → Except ε β} : ∀ (l : List α) (rs : List β), l.mapM f = .ok rs →
    rs.length = l.length ∧ ∀ (i : Nat) a, l[i]? = some a → ∃ r, rs[i]? = some r ∧ f a = .ok r := by
  intro l
  induction l with
  | nil => intro rs h; simp [pure, Except.pure] at h; subst h; simp
  | cons a l ih =>
    intro rs h
    rw [List.mapM_cons] at h
    cases hf : f a with
    | error e => simp [hf, bind, Except.bind] at h
    | ok r =>
      cases hl : l.mapM f with
      | error e => simp [hf, hl, bind, Except.bind] at h
      | ok rs0 =>
        simp [hf, hl, bind, Except.bind, pure, Except.pure] at h
        subst h
        obtain ⟨hlen, hall⟩ := ih rs0 hl
        refine ⟨by simp [hlen], ?_⟩
        intro i b hi
        cases i with
        | zero => simp at hi; subst hi; exact ⟨r, by simp, hf⟩
        | succ i => simp at hi; simpa using hall i b hi

theorem Aligned.append {m : Field → Option Den} {f1 f2 : List Field} {v1 v2 : List Val}
    (h1 : Aligned m f1 v1) (h2 : Aligned m f2 v2) : Aligned m (f1 ++ f2) (v1 ++ v2) := by
  unfold Aligned at *
  simp [List.map_append, h1, h2]

theorem Aligned.nil {m : Field → Option Den} : Aligned m [] [] := rfl

theorem Aligned.single {m : Field → Option Den} {f : Field} {v : Val} (h : m f = some v.den) :
    Aligned m [f] [v] := by
  simp [Aligned, h]

/-- index form of `Aligned` (this is the shape the property theorems are stated in) -/
theorem Aligned.index {m : Field → Option Den} {fs : List Field} {vs : List Val} (h : Aligned m fs vs) :
    vs.length = fs.length ∧ ∀ (i : Nat) f, fs[i]? = some f → ∃ v : Val, vs[i]? = some v ∧ m f = some v.den := by
  unfold Aligned at h
  have hlen : vs.length = fs.length := by
    have := congrArg List.length h
    simpa using this.symm
  refine ⟨hlen, ?_⟩
  intro i f hf
  have hi := congrArg (fun l => l[i]?) h
  simp only [List.getElem?_map, hf, Option.map_some] at hi
  cases hv : vs[i]? with
  | none => simp [hv] at hi
  | some v => simp [hv] at hi; exact ⟨v, rfl, hi⟩

theorem aligned_of_get {m : Field → Option Den} (fs : List Field) (vs : List Val) (hl : vs.length = fs.length)
    (h : ∀ (i : Nat) f (v : Val), fs[i]? = some f → vs[i]? = some v → m f = some v.den) : Aligned m fs vs := by
  unfold Aligned
  apply List.ext_getElem?
  intro i
  simp only [List.getElem?_map]
  cases hf : fs[i]? with
  | none =>
    have : vs[i]? = none := by
      rw [List.getElem?_eq_none_iff] at hf ⊢; omega
    simp [this]
  | some f =>
    cases hv : vs[i]? with
    | none =>
      have : fs[i]? = none := by
        rw [List.getElem?_eq_none_iff] at hv ⊢; omega
      simp [this] at hf
    | some v => simp [h i f v hf hv]

theorem flatMap_aligned {α} {m : Field → Option Den} (F : α → List Field) (V : α → List Val) :
    ∀ (l : List α), (∀ x ∈ l, Aligned m (F x) (V x)) → Aligned m (l.flatMap F) (l.flatMap V) := by
  intro l
  induction l with
  | nil => intro _; exact Aligned.nil
  | cons a l ih =>
    intro h
    simp only [List.flatMap_cons]
    exact Aligned.append (h a (by simp)) (ih fun x hx => h x (by simp [hx]))

/-- blocks computed by a `mapM` that may fail: alignment of the concatenation from alignment per element -/
theorem mapM_flat_aligned {α β ε} {m : Field → Option Den} {f : α → Except ε β} (F : α → List Field)
    (V : α × β → List Val) : ∀ (l : List α) (rs : List β), l.mapM f = .ok rs →
    (∀ x ∈ l, ∀ r, f x = .ok r → Aligned m (F x) (V (x, r))) →
    Aligned m (l.flatMap F) ((l.zip rs).flatMap V) := by
  intro l
  induction l with
  | nil => intro rs _ _; simp; exact Aligned.nil
  | cons a l ih =>
    intro rs h hall
    rw [List.mapM_cons] at h
    cases hf : f a with
    | error e => simp [hf, bind, Except.bind] at h
    | ok r =>
      cases hl : l.mapM f with
      | error e => simp [hf, hl, bind, Except.bind] at h
      | ok rs0 =>
        simp [hf, hl, bind, Except.bind, pure, Except.pure] at h
        subst h
        simp only [List.flatMap_cons, List.zip_cons_cons]
        exact Aligned.append (hall a (by simp) r hf) (ih rs0 hl fun x hx r' hr => hall x (by simp [hx]) r' hr)

/-- values computed by a `mapM` over `range n` against fields `g 0 … g (n-1)` -/
theorem range_mapM_aligned {m : Field → Option Den} (n : Nat) (g : Nat → Field) (f : Nat → Except Err Val)
    (vs : List Val) (h : (List.range n).mapM f = .ok vs)
    (hm : ∀ i v, i < n → f i = .ok v → m (g i) = some v.den) : Aligned m ((List.range n).map g) vs := by
  obtain ⟨hlen, hall⟩ := mapM_ok_get _ _ h
  apply aligned_of_get
  · simpa using hlen
  · intro i fld v hf hv
    simp only [List.getElem?_map] at hf
    cases hr : (List.range n)[i]? with
    | none => simp [hr] at hf
    | some j =>
      have hj : j = i ∧ i < n := by
        rw [List.getElem?_eq_some_iff] at hr
        obtain ⟨hlt, he⟩ := hr
        simp at hlt he
        exact ⟨he.symm, hlt⟩
      obtain ⟨rfl, hlt⟩ := hj
      simp [hr] at hf; subst hf
      obtain ⟨r, hr1, hr2⟩ := hall j j hr
      rw [hv] at hr1; injection hr1 with hr1; subst hr1
      exact hm j v hlt hr2

/-- values computed elementwise from a list `l` (by a `mapM` that may fail) against fields `g 0 … g (|l|-1)` -/
theorem idx_mapM_aligned {α} {m : Field → Option Den} (l : List α) (g : Nat → Field) (f : α → Except Err Val)
    (vs : List Val) (h : l.mapM f = .ok vs)
    (hm : ∀ (i : Nat) a v, l[i]? = some a → f a = .ok v → m (g i) = some v.den) :
    Aligned m ((List.range l.length).map g) vs := by
  obtain ⟨hlen, hall⟩ := mapM_ok_get _ _ h
  apply aligned_of_get
  · simpa using hlen
  · intro i fld v hf hv
    simp only [List.getElem?_map] at hf
    cases hr : (List.range l.length)[i]? with
    | none => simp [hr] at hf
    | some j =>
      rw [List.getElem?_eq_some_iff] at hr
      obtain ⟨hlt, he⟩ := hr
      simp at hlt he
      subst he
      simp [List.getElem?_range hlt] at hf; subst hf
      have ha : l[i]? = some l[i] := by simp [hlt]
      obtain ⟨r, hr1, hr2⟩ := hall i l[i] ha
      rw [hv] at hr1; injection hr1 with hr1; subst hr1
      exact hm i l[i] v ha hr2

theorem idx_map_aligned {α} {m : Field → Option Den} (l : List α) (g : Nat → Field) (V : α → Val)
    (hm : ∀ (i : Nat) a, l[i]? = some a → m (g i) = some (V a).den) :
    Aligned m ((List.range l.length).map g) (l.map V) := by
  apply aligned_of_get
  · simp
  · intro i fld v hf hv
    simp only [List.getElem?_map] at hf hv
    cases ha : l[i]? with
    | none => simp [ha] at hv
    | some a =>
      have hlt : i < l.length := by
        rw [List.getElem?_eq_some_iff] at ha; exact ha.1
      simp [List.getElem?_range hlt] at hf; subst hf
      simp [ha] at hv; subst hv
      exact hm i a ha


/-! ### the regular streamer -/

theorem padDims_get (st : Streamer) (p : Pattern) (i : Nat) (h : i < st.tdims.length) :
    (padDims st p)[i]? = some (p.dims.getD i (1, 0)) := by
  unfold padDims
  rw [List.getElem?_append, List.getD_eq_getElem?_getD]
  split
  · next hlt => simp [List.getElem?_eq_getElem hlt]
  · next hge =>
    have hn : p.dims[i]? = none := by rw [List.getElem?_eq_none_iff]; omega
    rw [List.getElem?_replicate, hn]
    have : i - p.dims.length < st.tdims.length - p.dims.length := by omega
    simp [this]

theorem padDims_zip_length (st : Streamer) (p : Pattern) :
    (st.tdims.zip (padDims st p)).length = st.tdims.length := by
  simp [padDims, List.length_zip]; omega

theorem padDims_zip_get (st : Streamer) (p : Pattern) (i : Nat) (a : Flag × (Int × Int))
    (h : (st.tdims.zip (padDims st p))[i]? = some a) :
    st.tdims[i]? = some a.1 ∧ a.2 = p.dims.getD i (1, 0) := by
  rw [List.getElem?_zip_eq_some] at h
  obtain ⟨h1, h2⟩ := h
  have hlt : i < st.tdims.length := by
    rw [List.getElem?_eq_some_iff] at h1; exact h1.1
  rw [padDims_get st p i hlt] at h2
  exact ⟨h1, (Option.some.inj h2).symm⟩

theorem ptrLow_den (z : Bool) (idx : Nat) :
    (ptrLowVal z idx).den = if z then konst zeroAddress else fun env => env (.opnd idx) := by
  cases z <;> rfl

theorem sstride_aligned (cfg : List Streamer) (op : StreamOp) (st : Streamer) (idx : Nat) (p : Pattern)
    (hp : op.pats[idx]? = some p) (ss : List Val) (h : sstrideVals st p = .ok ss) :
    Aligned (streamMeaning cfg op) ((List.range st.sdims.length).map (Field.sstride idx)) ss := by
  apply range_mapM_aligned _ _ _ _ h
  intro i v _ hv
  simp only [streamMeaning, hp, Option.bind_some]
  cases hs : p.ss[i]? with
  | none => simp [hs] at hv
  | some s => simp [hs] at hv; subst hv; rfl

theorem bound_aligned (cfg : List Streamer) (op : StreamOp) (st : Streamer) (idx : Nat) (p : Pattern)
    (hst : cfg[idx]? = some st) (hp : op.pats[idx]? = some p) :
    Aligned (streamMeaning cfg op) ((List.range st.tdims.length).map (Field.bound idx)) (boundVals st p) := by
  have := idx_map_aligned (m := streamMeaning cfg op) (st.tdims.zip (padDims st p)) (Field.bound idx)
    (fun x => Val.c (collapse x.1 x.2.1 x.2.2))
  rw [padDims_zip_length] at this
  apply this
  intro i a ha
  obtain ⟨h1, h2⟩ := padDims_zip_get st p i a ha
  simp only [streamMeaning, hst, hp, Option.bind_some, h1, Option.map_some, h2]
  rfl

theorem tstride_aligned (cfg : List Streamer) (op : StreamOp) (st : Streamer) (idx : Nat) (p : Pattern)
    (hp : op.pats[idx]? = some p) (ts : List Val) (h : tstrideVals st p = .ok ts) :
    Aligned (streamMeaning cfg op) ((List.range st.tdims.length).map (Field.tstride idx)) ts := by
  have := idx_mapM_aligned (m := streamMeaning cfg op) (st.tdims.zip (padDims st p)) (Field.tstride idx) _ ts h
  rw [padDims_zip_length] at this
  apply this
  intro i a v ha hv
  obtain ⟨_, h2⟩ := padDims_zip_get st p i a ha
  simp only [streamMeaning, hp, Option.map_some, ← h2]
  split at hv
  · simp at hv
  · simp at hv; subst hv; rfl

theorem streamerBlock_aligned (cfg : List Streamer) (op : StreamOp) (x : Streamer × Nat)
    (hx : cfg[x.2]? = some x.1) (r : List Val × Bool) (h : streamerBlock op x = .ok r) :
    Aligned (streamMeaning cfg op) (streamerBlockFields x) r.1 := by
  unfold streamerBlock at h
  cases hz : op.zero[x.2]? with
  | none => simp [hz] at h
  | some z =>
    cases hp : op.pats[x.2]? with
    | none => simp [hz, hp] at h
    | some p =>
      cases hs : sstrideVals x.1 p with
      | error e => simp [hz, hp, hs] at h
      | ok ss =>
        cases ht : tstrideVals x.1 p with
        | error e => simp [hz, hp, hs, ht] at h
        | ok ts =>
          simp only [hz, hp, hs, ht] at h
          injection h with h
          subst h
          unfold streamerBlockFields
          refine Aligned.append (Aligned.append (Aligned.append (Aligned.append (Aligned.append ?_ ?_) ?_) ?_) ?_) ?_
          · apply aligned_of_get _ _ rfl
            intro i f v hf hv
            match i with
            | 0 => simp at hf hv; subst hf hv; simp [streamMeaning, hz, ptrLow_den]
            | 1 => simp at hf hv; subst hf hv; rfl
            | (k + 2) => simp at hf
          · exact sstride_aligned cfg op x.1 x.2 p hp ss hs
          · exact bound_aligned cfg op x.1 x.2 p hx hp
          · exact tstride_aligned cfg op x.1 x.2 p hp ts ht
          · unfold remapVals; split
            · exact Aligned.single rfl
            · exact Aligned.nil
          · unfold chanVals; split
            · apply Aligned.single; simp [streamMeaning, hz]; rfl
            · exact Aligned.nil

theorem streamerBlock_bcast (cfg : List Streamer) (op : StreamOp) (x : Streamer × Nat)
    (hx : cfg[x.2]? = some x.1) (r : List Val × Bool) (h : streamerBlock op x = .ok r) :
    Aligned (streamMeaning cfg op) (bcastField x) (bcastVal (x, r)) := by
  unfold streamerBlock at h
  cases hz : op.zero[x.2]? with
  | none => simp [hz] at h
  | some z =>
    cases hp : op.pats[x.2]? with
    | none => simp [hz, hp] at h
    | some p =>
      cases hs : sstrideVals x.1 p with
      | error e => simp [hz, hp, hs] at h
      | ok ss =>
        cases ht : tstrideVals x.1 p with
        | error e => simp [hz, hp, hs, ht] at h
        | ok ts =>
          simp only [hz, hp, hs, ht] at h
          injection h with h
          subst h
          unfold bcastField bcastVal
          by_cases hb : x.1.has .bcast = true
          · simp only [hb, if_true]
            apply Aligned.single
            simp [streamMeaning, hx, hp, doBroadcast, hb]
            rfl
          · simp only [hb]; exact Aligned.nil

theorem transpose_aligned (cfg : List Streamer) (op : StreamOp) (x : Streamer × Nat) :
    Aligned (streamMeaning cfg op) (transposeField x) (transposeVal x) := by
  unfold transposeField transposeVal
  split
  · exact Aligned.single rfl
  · exact Aligned.nil

theorem streamerVals_aligned (cfg : List Streamer) (op : StreamOp) (vs : List Val)
    (h : streamerVals cfg op = .ok vs) : Aligned (streamMeaning cfg op) (streamerFields cfg) vs := by
  unfold streamerVals at h
  cases hm : cfg.zipIdx.mapM (streamerBlock op) with
  | error e => simp [hm] at h
  | ok rs =>
    simp only [hm] at h
    injection h with h
    subst h
    unfold streamerFields
    refine Aligned.append (Aligned.append ?_ ?_) ?_
    · exact mapM_flat_aligned streamerBlockFields (fun y => y.2.1) _ _ hm
        (fun x hx r hr => streamerBlock_aligned cfg op x (List.mem_zipIdx_iff_getElem?.mp hx) r hr)
    · exact flatMap_aligned _ _ _ (fun x _ => transpose_aligned cfg op x)
    · exact mapM_flat_aligned bcastField bcastVal _ _ hm
        (fun x hx r hr => streamerBlock_bcast cfg op x (List.mem_zipIdx_iff_getElem?.mp hx) r hr)


/-! ### wrappers: alu, gemmx -/

theorem Aligned.mono {m m' : Field → Option Den} {fs : List Field} {vs : List Val}
    (hmm : ∀ f d, m f = some d → m' f = some d) (h : Aligned m fs vs) : Aligned m' fs vs := by
  obtain ⟨hlen, hall⟩ := h.index
  apply aligned_of_get _ _ hlen
  intro i f v hf hv
  obtain ⟨v', hv', hm⟩ := hall i f hf
  rw [hv] at hv'; injection hv' with hv'; subst hv'
  exact hmm f _ hm

theorem alu_extends (cfg : List Streamer) (op : StreamOp) (f : Field) (d : Den)
    (h : streamMeaning cfg op f = some d) : aluMeaning cfg op f = some d := by
  cases f <;> simp_all [aluMeaning, streamMeaning]

theorem gemmx_extends (cfg : List Streamer) (op : StreamOp) (P : GParams) (f : Field) (d : Den)
    (h : streamMeaning cfg op f = some d) : gemmxMeaning cfg op P f = some d := by
  cases f <;> simp_all [gemmxMeaning, streamMeaning]

theorem xdma_extends (cfg : List Streamer) (op : XdmaOp) (f : Field) (d : Den)
    (h : streamMeaning cfg op.s f = some d) : xdmaMeaning cfg op f = some d := by
  cases f <;> simp_all [xdmaMeaning, streamMeaning]

/-- The ALU loop count is the number of temporal steps of stream 0: always with FC08c; on the unrepaired tree
when the pattern has exactly one loop. -/
theorem firstBound_steps (v : Variant) (op : StreamOp) (lb : Int) (p : Pattern) (h : firstBound v op = .ok lb)
    (hp : op.pats[0]? = some p) (hok : v.loopAllDims = true ∨ p.dims.length = 1) :
    lb = prodI (p.dims.map (·.1)) := by
  unfold firstBound at h
  simp only [hp] at h
  by_cases hv : v.loopAllDims = true
  · simp only [hv, if_true] at h
    injection h with h; exact h.symm
  · simp only [hv] at h
    rcases hok with hok | hok
    · exact absurd hok hv
    · match hd : p.dims, hok with
      | [d], _ => simp [hd] at h; subst h; simp [prodI]

theorem aluVals_aligned (v : Variant) (cfg : List Streamer) (op : StreamOp) (vs : List Val)
    (h : aluVals v cfg op = .ok vs)
    (hok : v.loopAllDims = true ∨ ∀ p, op.pats[0]? = some p → p.dims.length = 1) :
    Aligned (aluMeaning cfg op) (aluFields cfg) vs := by
  unfold aluVals at h
  cases hb : firstBound v op with
  | error e => simp [hb] at h
  | ok lb =>
    cases hs : streamerVals cfg op with
    | error e => simp [hb, hs] at h
    | ok sv =>
      simp only [hb, hs] at h
      injection h with h
      subst h
      unfold aluFields
      refine Aligned.append ((streamerVals_aligned cfg op sv hs).mono (alu_extends cfg op)) ?_
      cases hp : op.pats[0]? with
      | none => unfold firstBound at hb; simp [hp] at hb
      | some p =>
        have hlb := firstBound_steps v op lb p hb hp (hok.imp id (fun h => h p hp))
        subst hlb
        apply aligned_of_get _ _ rfl
        intro i f v hf hv
        match i with
        | 0 => simp at hf hv; subst hf hv; rfl
        | 1 => simp at hf hv; subst hf hv; simp [aluMeaning, hp]; rfl
        | (k + 2) => simp at hf

theorem gemmxTail_aligned (cfg : List Streamer) (op : StreamOp) (n : Nat) (P : GParams)
    (hs : P.shifts.length = ceil4 n) (hm : P.mults.length = n) :
    Aligned (gemmxMeaning cfg op P)
      ([Field.K, .N, .M, .subtractions, .csr0, .csr1] ++ ((List.range (ceil4 n)).map Field.shift
        ++ ((List.range n).map Field.mult ++ [.temporalLoopBound, .bypassSIMD])))
      ([Val.c P.k, .c P.n, .c P.m, P.sub, P.csr0, P.csr1] ++ (P.shifts ++ (P.mults ++ [P.tlb, P.byp]))) := by
  refine Aligned.append ?_ (Aligned.append ?_ (Aligned.append ?_ ?_))
  · simp [Aligned, gemmxMeaning]
    exact ⟨rfl, rfl, rfl⟩
  · have := idx_map_aligned (m := gemmxMeaning cfg op P) P.shifts Field.shift id
      (fun i a ha => by simp [gemmxMeaning, ha])
    rw [hs] at this; simpa using this
  · have := idx_map_aligned (m := gemmxMeaning cfg op P) P.mults Field.mult id
      (fun i a ha => by simp [gemmxMeaning, ha])
    rw [hm] at this; simpa using this
  · simp [Aligned, gemmxMeaning]

theorem gemmxVals_aligned (v : Variant) (cfg : List Streamer) (n : Nat) (op : GemmxOp) (vs : List Val)
    (h : gemmxVals v cfg n op = .ok vs) :
    ∃ P, gemmxParams v n op = .ok P ∧
      (P.shifts.length = ceil4 n → P.mults.length = n →
        Aligned (gemmxMeaning cfg op.s P) (gemmxFields cfg n) vs) := by
  unfold gemmxVals at h
  cases hs : streamerVals cfg op.s with
  | error e => simp [hs] at h
  | ok sv =>
    cases hp : gemmxParams v n op with
    | error e => simp [hs, hp] at h
    | ok P =>
      simp only [hs, hp] at h
      injection h with h
      subst h
      refine ⟨P, rfl, fun h1 h2 => ?_⟩
      simp only [gemmxFields, gemmxTail, List.append_assoc]
      exact Aligned.append ((streamerVals_aligned cfg op.s sv hs).mono (gemmx_extends cfg op.s P))
        (gemmxTail_aligned cfg op.s n P h1 h2)


/-! ### snax_xdma -/

theorem ext_aligned (v : Variant) (cfg : List Streamer) (op : XdmaOp) (idx : Nat) (e : Ext)
    (hgen : v.extCsrLen = true ∨ op.kernel ≠ .notGeneric) :
    Aligned (xdmaMeaning cfg op) ((List.range (csrLen e)).map (Field.extCsr idx e)) (extVals v op.kernel e) := by
  -- the all-zero case (kernel absent or not the extension's kernel)
  have zeros : (op.kernel = .notGeneric ∨ extMatches op.kernel e ≠ true) →
      Aligned (xdmaMeaning cfg op) ((List.range (csrLen e)).map (Field.extCsr idx e))
        (List.replicate (csrLen e) (.c 0)) := by
    intro hz
    have := idx_map_aligned (m := xdmaMeaning cfg op) (List.replicate (csrLen e) (0 : Int)) (Field.extCsr idx e) Val.c
    simp only [List.length_replicate, List.map_replicate] at this
    apply this
    intro i a ha
    rw [List.getElem?_replicate] at ha
    split at ha
    · next hlt =>
      simp at ha; subst ha
      rcases hz with hz | hz
      · simp [xdmaMeaning, hlt, hz]; rfl
      · simp [xdmaMeaning, hlt, hz]; rfl
    · simp at ha
  unfold extVals
  by_cases hk : op.kernel = .notGeneric
  · rcases hgen with hgen | hgen
    · simp only [hk, if_true, hgen]
      exact zeros (Or.inl hk)
    · exact absurd hk hgen
  · simp only [hk, if_false]
    by_cases hmt : extMatches op.kernel e = true
    · simp only [hmt, if_true]
      have hl : (csrValues op.kernel).length = csrLen e := by
        cases e <;> cases hk' : op.kernel <;> simp_all [extMatches, csrValues, csrLen]
      have := idx_map_aligned (m := xdmaMeaning cfg op) (csrValues op.kernel) (Field.extCsr idx e) Val.c
      rw [hl] at this
      apply this
      intro i a ha
      have hlt : i < csrLen e := by
        obtain ⟨h1, _⟩ := List.getElem?_eq_some_iff.mp ha; omega
      simp [xdmaMeaning, hlt, hk, hmt, List.getD_eq_getElem?_getD, ha]
      rfl
    · simp only [hmt]
      exact zeros (Or.inr hmt)

theorem xdmaBlock_aligned (v : Variant) (cfg : List Streamer) (op : XdmaOp) (z : Bool) (x : Streamer × Nat)
    (h14 : v.f14 = true)
    (hx : cfg[x.2]? = some x.1) (hz : op.s.zero[x.2]? = some z)
    (hgen : v.extCsrLen = true ∨ op.kernel ≠ .notGeneric)
    (r : List Val) (h : xdmaBlock v op z x = .ok r) :
    Aligned (xdmaMeaning cfg op) (xdmaBlockFields v x) r := by
  unfold xdmaBlock at h
  cases hp : op.s.pats[x.2]? with
  | none => simp [hp] at h
  | some p =>
    cases hs : sstrideVals x.1 p with
    | error e => simp [hp, hs] at h
    | ok ss =>
      cases ht : tstrideVals x.1 p with
      | error e => simp [hp, hs, ht] at h
      | ok ts =>
        simp only [hp, hs, ht] at h
        injection h with h
        subst h
        unfold xdmaBlockFields
        simp only [h14, if_true]
        refine Aligned.append (Aligned.append (Aligned.append (Aligned.append (Aligned.append (Aligned.append ?_ ?_) ?_) ?_) ?_) ?_) ?_
        · exact (sstride_aligned cfg op.s x.1 x.2 p hp ss hs).mono (xdma_extends cfg op)
        · exact (bound_aligned cfg op.s x.1 x.2 p hx hp).mono (xdma_extends cfg op)
        · exact (tstride_aligned cfg op.s x.1 x.2 p hp ts ht).mono (xdma_extends cfg op)
        · split
          · apply Aligned.single; simp [xdmaMeaning, hz]; rfl
          · exact Aligned.nil
        · split
          · apply Aligned.single; simp [xdmaMeaning, hz]; rfl
          · exact Aligned.nil
        · apply Aligned.single; simp [xdmaMeaning, hx]; rfl
        · exact flatMap_aligned _ _ _ (fun e _ => ext_aligned v cfg op x.2 e hgen)

theorem xdmaPtr_ok (op : XdmaOp) (x : Streamer × Nat) (z : Bool) (h : xdmaPtr op x = .ok z) :
    op.s.zero[x.2]? = some z := by
  unfold xdmaPtr at h
  cases hz : op.s.zero[x.2]? with
  | none => simp [hz] at h
  | some z' => simp [hz] at h; subst h; rfl

theorem zipIdx_lt {α} (l : List α) (x : α × Nat) (hx : x ∈ l.zipIdx) : x.2 < l.length := by
  have := List.mem_zipIdx_iff_getElem?.mp hx
  exact (List.getElem?_eq_some_iff.mp this).1

/-- the first loop succeeded: every operand that belongs to a streamer exists -/
theorem xdma_ptr_all (cfg : List Streamer) (op : XdmaOp) (zs : List Bool)
    (hm : cfg.zipIdx.mapM (xdmaPtr op) = .ok zs) (x : Streamer × Nat) (hx : x ∈ cfg.zipIdx) :
    ∃ z, op.s.zero[x.2]? = some z := by
  obtain ⟨_, hall⟩ := mapM_ok_get _ _ hm
  obtain ⟨i, hi⟩ := List.mem_iff_getElem?.mp hx
  obtain ⟨r, _, hr2⟩ := hall i x hi
  exact ⟨r, xdmaPtr_ok op x r hr2⟩

theorem xdma_zs_uniform (cfg : List Streamer) (op : XdmaOp) (zs : List Bool) (b : Bool)
    (hm : cfg.zipIdx.mapM (xdmaPtr op) = .ok zs) (hzero : ∀ s, s < cfg.length → op.s.zero[s]? = some b) :
    ∀ z ∈ zs, z = b := by
  obtain ⟨hlen, hall⟩ := mapM_ok_get _ _ hm
  intro z hz
  obtain ⟨i, hi⟩ := List.mem_iff_getElem?.mp hz
  have hlt : i < cfg.zipIdx.length := by
    have := (List.getElem?_eq_some_iff.mp hi).1; omega
  have ha : cfg.zipIdx[i]? = some cfg.zipIdx[i] := by simp
  obtain ⟨r, hr1, hr2⟩ := hall i _ ha
  rw [hi] at hr1; injection hr1 with hr1; subst hr1
  have h1 := xdmaPtr_ok op _ z hr2
  have h2 := hzero _ (zipIdx_lt cfg cfg.zipIdx[i] (List.mem_of_getElem? ha))
  rw [h1] at h2; exact Option.some.inj h2

theorem xdmaVals_aligned (v : Variant) (cfg : List Streamer) (op : XdmaOp) (vs : List Val)
    (h : xdmaVals v cfg op = .ok vs) (h14 : v.f14 = true)
    (hzero : v.zeroPerOperand = true ∨ ∃ b, ∀ s, s < cfg.length → op.s.zero[s]? = some b)
    (hgen : v.extCsrLen = true ∨ op.kernel ≠ .notGeneric) :
    Aligned (xdmaMeaning cfg op) (xdmaFields v cfg) vs := by
  unfold xdmaVals at h
  cases hm1 : cfg.zipIdx.mapM (xdmaPtr op) with
  | error e => simp [hm1] at h
  | ok zs =>
    simp only [hm1] at h
    cases hm2 : cfg.zipIdx.mapM (fun x => xdmaBlock v op (maskFlag v op (zs.getLast?.getD false) x) x) with
    | error e => simp [hm2] at h
    | ok bs =>
      simp only [hm2] at h
      injection h with h
      subst h
      unfold xdmaFields
      have hlen := (mapM_ok_get _ _ hm1).1
      refine Aligned.append ?_ ?_
      · refine mapM_flat_aligned (fun x => [Field.ptrLow x.2, .ptrHigh x.2])
          (fun y => [ptrLowVal y.2 y.1.2, .c 0]) _ _ hm1 (fun x _ r hr => ?_)
        have hz := xdmaPtr_ok op x r hr
        apply aligned_of_get _ _ rfl
        intro i f v hf hv
        match i with
        | 0 => simp at hf hv; subst hf hv; simp [xdmaMeaning, streamMeaning, hz, ptrLow_den]
        | 1 => simp at hf hv; subst hf hv; rfl
        | (k + 2) => simp at hf
      · refine mapM_flat_aligned (xdmaBlockFields v) (·.2) _ _ hm2 (fun x hx r hr => ?_)
        have hlt := zipIdx_lt cfg x hx
        obtain ⟨z, hz⟩ := xdma_ptr_all cfg op zs hm1 x hx
        have hflag : op.s.zero[x.2]? = some (maskFlag v op (zs.getLast?.getD false) x) := by
          unfold maskFlag
          by_cases hv : v.zeroPerOperand = true
          · simp [hv, hz]
          · rcases hzero with hzero | ⟨b, hzero⟩
            · exact absurd hzero hv
            · have huni := xdma_zs_uniform cfg op zs b hm1 hzero
              have hzl : zs.getLast?.getD false = b := by
                cases hg : zs.getLast? with
                | none =>
                  have : zs = [] := List.getLast?_eq_none_iff.mp hg
                  subst this; simp at hlen; omega
                | some z => simp; exact huni z (List.mem_of_getLast? hg)
              simp only [hv, hzl]
              exact hzero x.2 hlt
        exact xdmaBlock_aligned v cfg op _ x h14 (List.mem_zipIdx_iff_getElem?.mp hx) hflag hgen r hr

/-! ### snax_gemmx: kernel parameters (counts for the i8 branch, loop counts) -/

theorem chunks4_length {α} : ∀ (l : List α), (chunks4 l).length = ceil4 l.length
  | [] => by simp [chunks4, ceil4]
  | [_] => by simp [chunks4, ceil4]
  | [_, _] => by simp [chunks4, ceil4]
  | [_, _, _] => by simp [chunks4, ceil4]
  | _ :: _ :: _ :: _ :: rest => by
    simp [chunks4, chunks4_length rest, ceil4]; omega

theorem bcastN_length (n : Nat) (l : List Int) (h : l.length = 1 ∨ n ≤ l.length) : n ≤ (bcastN n l).length := by
  unfold bcastN
  split
  · simp
  · next hne =>
    rcases h with h | h
    · match l, h with
      | [x], _ => exact absurd rfl (hne x)
    · exact h

/-- what a successful mac/qmac parameter computation looked like -/
theorem gemmxParams_mac_inv (v : Variant) (n : Nat) (op : GemmxOp) (P : GParams) (zp : Option (Nat × Nat))
    (hk : op.kernel = .mac zp) (h : gemmxParams v n op = .ok P) :
    ∃ last p0, (if op.i8out then op.s.pats[2]? else op.s.pats.getLast?) = some last ∧ op.s.pats[0]? = some p0 ∧
      P.m = prodI ((last.dims.filter fun d => d.2 ≠ 0).map (·.1)) ∧ P.m ≠ 0 ∧ P.n = 1 ∧
      P.k = Int.fdiv (prodI (p0.dims.map (·.1))) P.m ∧
      (op.i8out = true → ∃ sh, (chunks4 (effRescale n op).shifts).mapM packShiftChunk = .ok sh ∧
        P.shifts = sh.take (ceil4 n) ∧ P.mults = ((effRescale n op).mults.map Val.c).take n ∧
        P.tlb = .c P.m ∧ P.byp = .c 0 ∧ P.csr1 = .c (effRescale n op).dr ∧
        P.csr0 = csr0Val (effRescale n op).minI (effRescale n op).maxI (effRescale n op).outZp (effRescale n op).inZp ∧
        P.attrs = launchAttrs n op sh.length (effRescale n op).mults.length P.m) := by
  unfold gemmxParams at h
  simp only [hk] at h
  split at h
  · simp at h
  · next last hlast =>
    split at h
    · simp at h
    · next p0 hp0 =>
      split at h
      · simp at h
      · next hm =>
        refine ⟨last, p0, hlast, hp0, ?_⟩
        split at h
        · next hi =>
          split at h
          · simp at h
          · next sh hsh =>
            injection h with h; subst h
            exact ⟨rfl, hm, rfl, rfl, fun _ => ⟨sh, hsh, rfl, rfl, rfl, rfl, rfl, rfl, rfl⟩⟩
        · next hi =>
          injection h with h; subst h
          exact ⟨rfl, hm, rfl, rfl, fun hh => absurd hh hi⟩



theorem effRescale_lengths (n : Nat) (op : GemmxOp)
    (hchan : ∀ r, op.post = some r → (r.shifts.length = 1 ∨ n ≤ r.shifts.length) ∧
      (r.mults.length = 1 ∨ n ≤ r.mults.length)) :
    n ≤ (effRescale n op).shifts.length ∧ n ≤ (effRescale n op).mults.length := by
  unfold effRescale
  cases hp : op.post with
  | none => simp [defaultRescale]
  | some r =>
    obtain ⟨h1, h2⟩ := hchan r hp
    exact ⟨bcastN_length n r.shifts h1, bcastN_length n r.mults h2⟩

theorem gemmx_counts_i8 (v : Variant) (n : Nat) (op : GemmxOp) (P : GParams) (zp : Option (Nat × Nat))
    (hk : op.kernel = .mac zp) (hi : op.i8out = true) (h : gemmxParams v n op = .ok P)
    (hchan : ∀ r, op.post = some r → (r.shifts.length = 1 ∨ n ≤ r.shifts.length) ∧
      (r.mults.length = 1 ∨ n ≤ r.mults.length)) :
    P.shifts.length = ceil4 n ∧ P.mults.length = n := by
  obtain ⟨_, _, _, _, _, _, _, _, hi8⟩ := gemmxParams_mac_inv v n op P zp hk h
  obtain ⟨sh, hsh, hs, hm, _⟩ := hi8 hi
  obtain ⟨h1, h2⟩ := effRescale_lengths n op hchan
  have hlen := (mapM_ok_get _ _ hsh).1
  rw [chunks4_length] at hlen
  rw [hs, hm]
  simp only [List.length_take, List.length_map, hlen]
  unfold ceil4 at *
  omega

theorem gemmxParams_rescale_inv (v : Variant) (n : Nat) (op : GemmxOp) (P : GParams) (r : Rescale)
    (hk : op.kernel = .rescale r) (h : gemmxParams v n op = .ok P) :
    ∃ p0, op.s.pats[0]? = some p0 ∧ P.k = 1 ∧ P.n = 1 ∧ P.m = prodI (p0.dims.map (·.1)) ∧ P.tlb = .c P.m := by
  unfold gemmxParams at h
  simp only [hk] at h
  split at h
  · simp at h
  · next p0 hp0 =>
    split at h
    · injection h with h; subst h; exact ⟨p0, hp0, rfl, rfl, rfl, rfl⟩
    · simp at h

theorem gemmx_loopcount (v : Variant) (n : Nat) (op : GemmxOp) (P : GParams) (h : gemmxParams v n op = .ok P)
    (p0 : Pattern) (hp0 : op.s.pats[0]? = some p0) (hdiv : P.m ∣ prodI (p0.dims.map (·.1))) :
    P.k * P.n * P.m = prodI (p0.dims.map (·.1)) := by
  cases hk : op.kernel with
  | mac zp =>
    obtain ⟨_, p0', _, hp0', _, _, hn, hkk, _⟩ := gemmxParams_mac_inv v n op P zp hk h
    rw [hp0] at hp0'; injection hp0' with hp0'; subst hp0'
    rw [hn, hkk, Int.mul_one]
    exact Int.fdiv_mul_cancel hdiv
  | rescale r =>
    obtain ⟨p0', hp0', h1, h2, h3, _⟩ := gemmxParams_rescale_inv v n op P r hk h
    rw [hp0] at hp0'; injection hp0' with hp0'; subst hp0'
    rw [h1, h2, h3]; simp
  | other =>
    unfold gemmxParams at h
    simp [hk] at h



/-! ### the region verifier and the address stream of the written dimensions -/

theorem regionAccepts_fits (cfg : List Streamer) (op : StreamOp) (h : regionAccepts cfg op = true)
    (s : Nat) (st : Streamer) (p : Pattern) (hst : cfg[s]? = some st) (hp : op.pats[s]? = some p) :
    p.dims.length ≤ st.tdims.length ∧ p.ss.length ≤ st.sdims.length := by
  unfold regionAccepts at h
  simp only [Bool.and_eq_true, List.all_eq_true, decide_eq_true_eq] at h
  have hm : (st, p) ∈ cfg.zip op.pats :=
    List.mem_iff_getElem?.mpr ⟨s, List.getElem?_zip_eq_some.mpr ⟨hst, hp⟩⟩
  exact h.2 (st, p) hm

theorem addrsOut_unit (rest : List (Int × Int)) : addrsOut ((1, 0) :: rest) = addrsOut rest := by
  simp [addrsOut]

theorem addrsOut_replicate_unit (k : Nat) (rest : List (Int × Int)) :
    addrsOut (List.replicate k (1, 0) ++ rest) = addrsOut rest := by
  induction k with
  | zero => simp
  | succ k ih => rw [List.replicate_succ, List.cons_append, addrsOut_unit, ih]

theorem writtenDims_eq_pad (st : Streamer) (p : Pattern) (hle : p.dims.length ≤ st.tdims.length) :
    writtenDims st p = padDims st p := by
  unfold writtenDims
  apply List.map_snd_zip
  simp [padDims]; omega

theorem written_stream (st : Streamer) (p : Pattern) (hle : p.dims.length ≤ st.tdims.length) :
    addrStream (writtenDims st p) = addrStream p.dims := by
  rw [writtenDims_eq_pad st p hle]
  unfold addrStream padDims
  rw [List.reverse_append, List.reverse_replicate, addrsOut_replicate_unit]


end SnaxVerif.SV
