import SnaxVerif.Lemmas.TslResolve
/-! Helper lemmas for C10: the metadata branch of `get_step_ops` (memref with a `StridedLayoutAttr`). -/
namespace SnaxVerif.Tsl
open SnaxVerif

/-! ### generic list facts -/

theorem zip_flatten {α β : Type} : ∀ (A : List (List α)) (B : List (List β)),
    A.map List.length = B.map List.length → A.flatten.zip B.flatten = (List.zipWith List.zip A B).flatten
  | [], [], _ => rfl
  | [], _ :: _, h => by simp at h
  | _ :: _, [], h => by simp at h
  | a :: A, b :: B, h => by
    simp only [List.map_cons, List.cons.injEq] at h
    simp only [List.flatten_cons, List.zipWith_cons_cons]
    rw [List.zip_append h.1, zip_flatten A B h.2]

/-! ### the loop with pre-assigned steps -/

/-- the chain value after a pass over a list of tiles -/
def dynAfterM : List ((Stride × Nat) × Option Nat) → Nat → Nat
  | [], dyn => dyn
  | ((s, b), pre) :: r, dyn =>
    match s.step with
    | some _ => dynAfterM r dyn
    | none => dynAfterM r ((match pre with | some p => p | none => dyn) * b)

theorem stepsRevM_append (el : Nat) : ∀ (X Y : List ((Stride × Nat) × Option Nat)) (dyn : Nat),
    stepsRevM el (X ++ Y) dyn = stepsRevM el X dyn ++ stepsRevM el Y (dynAfterM X dyn)
  | [], Y, dyn => rfl
  | ((s, b), pre) :: r, Y, dyn => by
    cases h : s.step with
    | some st => simp [stepsRevM, dynAfterM, h, stepsRevM_append el r Y dyn]
    | none => cases pre <;> simp [stepsRevM, dynAfterM, h, stepsRevM_append el r Y _]

/-- steps of a run of tiles listed innermost first: `c, c·b₁, c·b₁·b₂, …` -/
def chainSteps : Nat → List Nat → List Nat
  | _, [] => []
  | c, b :: r => c :: chainSteps (c * b) r

theorem chainSteps_append : ∀ (X Y : List Nat) (c : Nat),
    chainSteps c (X ++ Y) = chainSteps c X ++ chainSteps (c * prodL X) Y
  | [], Y, c => by simp [chainSteps, prodL]
  | b :: r, Y, c => by simp [chainSteps, prodL, chainSteps_append r Y (c * b), Nat.mul_assoc]

/-- the steps of `from_stride(st, tb)`, outermost first, are the chain over the reversed bounds -/
theorem steps_fromStrideS (st : Nat) : ∀ (tb : List Nat),
    ((fromStrideS st tb).map (·.step)).reverse = chainSteps st tb.reverse
  | [] => rfl
  | b :: r => by
    simp only [fromStrideS, List.map_cons, List.reverse_cons, steps_fromStrideS st r, chainSteps_append]
    have : prodL r.reverse = prodL r := by
      clear b
      induction r with
      | nil => rfl
      | cons x r ih =>
        rw [List.reverse_cons]
        have happ : ∀ (X Y : List Nat), prodL (X ++ Y) = prodL X * prodL Y := by
          intro X Y
          induction X with
          | nil => simp [prodL]
          | cons a X ihx => simp [prodL, ihx, Nat.mul_assoc]
        rw [happ, ih]; simp [prodL, Nat.mul_comm]
    simp [chainSteps, this, Nat.mul_comm]

/-- a run of dynamic tiles without pre-assigned step continues the chain -/
theorem stepsRevM_dynRun (el : Nat) : ∀ (X : List ((Stride × Nat) × Option Nat)) (dyn : Nat),
    (∀ x ∈ X, x.1.1.step = none ∧ x.2 = none) →
    stepsRevM el X dyn = chainSteps dyn (X.map (·.1.2))
  | [], _, _ => rfl
  | ((s, b), pre) :: r, dyn, h => by
    obtain ⟨hs, hp⟩ := h ((s, b), pre) (by simp)
    simp only at hs hp
    subst hp
    simp only [stepsRevM, hs, List.map_cons, chainSteps]
    rw [stepsRevM_dynRun el r (dyn * b) fun x hx => h x (by simp [hx])]

/-- a run of static tiles gets the literals, whatever is pre-assigned -/
theorem stepsRevM_statRun (el : Nat) : ∀ (X : List ((Stride × Nat) × Option Nat)) (dyn : Nat),
    (∀ x ∈ X, ∃ st, x.1.1.step = some st) →
    stepsRevM el X dyn = X.map (fun x => x.1.1.step.getD 0 * el) ∧ dynAfterM X dyn = dyn
  | [], _, _ => ⟨rfl, rfl⟩
  | ((s, b), pre) :: r, dyn, h => by
    obtain ⟨st, hs⟩ := h ((s, b), pre) (by simp)
    simp only at hs
    obtain ⟨ih1, ih2⟩ := stepsRevM_statRun el r dyn fun x hx => h x (by simp [hx])
    exact ⟨by simp [stepsRevM, hs, ih1], by simp [dynAfterM, hs, ih2]⟩

/-! ### one dimension -/

/-- the tiles `from_stride(None, o :: inner)` produces: every step dynamic -/
def dynTiles (o : Option Nat) (inner : List Nat) : TStride := ⟨none, o⟩ :: inner.map fun b => ⟨none, some b⟩

theorem preDim_allDyn (p : Nat) : ∀ (T : TStride), T ≠ [] → (∀ x ∈ T, x.step = none) →
    preDim p T = List.replicate (T.length - 1) none ++ [some p]
  | [], h, _ => absurd rfl h
  | [s], _, h => by simp [preDim, h s (by simp)]
  | s :: s' :: r, _, h => by
    have ih := preDim_allDyn p (s' :: r) (by simp) fun x hx => h x (by simp [hx])
    simp only [preDim, ih, List.length_cons, Nat.add_sub_cancel]
    rfl

theorem length_preDim (p : Nat) : ∀ (T : TStride), (preDim p T).length = T.length
  | [] => rfl
  | [_] => rfl
  | _ :: s' :: r => by simp [preDim, length_preDim p (s' :: r)]

/-- the block of a dimension: (tile, resolved bound, pre-assigned step) -/
def blockM (T : TStride) (B : List Nat) (p : Nat) : List ((Stride × Nat) × Option Nat) := (T.zip B).zip (preDim p T)

theorem dynAfterM_append : ∀ (X Y : List ((Stride × Nat) × Option Nat)) (dyn : Nat),
    dynAfterM (X ++ Y) dyn = dynAfterM Y (dynAfterM X dyn)
  | [], _, _ => rfl
  | ((s, b), pre) :: r, Y, dyn => by
    cases h : s.step <;> cases pre <;> simp [dynAfterM, h, dynAfterM_append r Y]

theorem prodL_append : ∀ (X Y : List Nat), prodL (X ++ Y) = prodL X * prodL Y
  | [], Y => by simp [prodL]
  | a :: X, Y => by simp [prodL, prodL_append X Y, Nat.mul_assoc]

theorem prodL_reverse : ∀ (X : List Nat), prodL X.reverse = prodL X
  | [] => rfl
  | a :: X => by rw [List.reverse_cons, prodL_append, prodL_reverse X]; simp [prodL, Nat.mul_comm]

/-- a dimension all of whose tiles have a dynamic step, on a strided memref: whatever the incoming chain value,
    read innermost first its tiles get `p, p·b_last, …` (p = run-time stride × element size), and the chain
    leaves with `p · Π bounds` -/
theorem stepsRevM_allDynBlock (el p : Nat) : ∀ (T : TStride) (B : List Nat) (dyn : Nat),
    T ≠ [] → T.length = B.length → (∀ x ∈ T, x.step = none) →
    stepsRevM el (blockM T B p).reverse dyn = chainSteps p B.reverse ∧
      dynAfterM (blockM T B p).reverse dyn = p * prodL B
  | [], _, _, h, _, _ => absurd rfl h
  | [t], [], _, _, h, _ => by simp at h
  | [t], [b], dyn, _, _, hall => by
    have ht : t.step = none := hall t (by simp)
    simp [blockM, preDim, ht, stepsRevM, dynAfterM, chainSteps, prodL]
  | [t], _ :: _ :: _, _, _, h, _ => by simp at h
  | t :: t' :: r, [], _, _, h, _ => by simp at h
  | t :: t' :: r, b :: B, dyn, _, hlen, hall => by
    have ht : t.step = none := hall t (by simp)
    obtain ⟨ih1, ih2⟩ := stepsRevM_allDynBlock el p (t' :: r) B dyn (by simp) (by simpa using hlen)
      (fun x hx => hall x (by simp [hx]))
    have hblk : blockM (t :: t' :: r) (b :: B) p = ((t, b), none) :: blockM (t' :: r) B p := by
      simp [blockM, preDim]
    rw [hblk, List.reverse_cons, stepsRevM_append, dynAfterM_append, ih1, ih2]
    refine ⟨?_, ?_⟩
    · rw [List.reverse_cons, chainSteps_append, prodL_reverse]
      simp [stepsRevM, ht, chainSteps]
    · simp [dynAfterM, ht, prodL, Nat.mul_comm, Nat.mul_left_comm]

/-- a dimension all of whose tiles have a static step: the literals × el, chain untouched -/
theorem stepsRevM_statBlock (el p : Nat) (T : TStride) (B : List Nat) (dyn : Nat)
    (hlen : T.length = B.length) (hall : ∀ x ∈ T, ∃ st, x.step = some st) :
    stepsRevM el (blockM T B p).reverse dyn = (T.map fun x => x.step.getD 0 * el).reverse ∧
      dynAfterM (blockM T B p).reverse dyn = dyn := by
  have hmem : ∀ x ∈ (blockM T B p).reverse, ∃ st, x.1.1.step = some st := by
    intro x hx
    rw [List.mem_reverse] at hx
    exact hall x.1.1 (List.of_mem_zip (List.of_mem_zip hx).1).1
  obtain ⟨h1, h2⟩ := stepsRevM_statRun el _ dyn hmem
  refine ⟨?_, h2⟩
  rw [h1, List.map_reverse]
  congr 1
  have : (blockM T B p).map (fun x => x.1.1) = T := by
    unfold blockM
    rw [show (fun x : (Stride × Nat) × Option Nat => x.1.1) = Prod.fst ∘ Prod.fst from rfl, ← List.map_map,
      List.map_fst_zip (by simp [length_preDim, hlen]), List.map_fst_zip (by omega)]
  conv => rhs; rw [← this]
  rw [List.map_map]
  rfl

/-! ### whole layouts -/

/-- one dimension on a strided memref: its tiles, its resolved bounds, the run-time stride of the memref -/
structure DimM where
  T : TStride
  B : List Nat
  σ : Nat

/-- what `get_step_ops` must produce for it: a dimension with dynamic steps follows the run-time stride
    (`σ·E, σ·E·b_last, …`, listed outermost first), a dimension with static steps gets the literals × el -/
def dimSteps (el E : Nat) (d : DimM) : List Nat :=
  if d.T.all (fun x => x.step.isNone) then (chainSteps (d.σ * E) d.B.reverse).reverse
  else d.T.map fun x => x.step.getD 0 * el

def DimM.Ok (d : DimM) : Prop :=
  d.T ≠ [] ∧ d.T.length = d.B.length ∧ ((∀ x ∈ d.T, x.step = none) ∨ (∀ x ∈ d.T, ∃ st, x.step = some st))

theorem length_chainSteps : ∀ (B : List Nat) (c : Nat), (chainSteps c B).length = B.length
  | [], _ => rfl
  | b :: r, c => by simp [chainSteps, length_chainSteps r]

theorem length_dimSteps (el E : Nat) (d : DimM) (h : d.Ok) : (dimSteps el E d).length = d.T.length := by
  unfold dimSteps
  split
  · simp [length_chainSteps, h.2.1]
  · simp

theorem block_dimSteps (el E : Nat) (d : DimM) (h : d.Ok) (dyn : Nat) :
    stepsRevM el (blockM d.T d.B (d.σ * E)).reverse dyn = (dimSteps el E d).reverse := by
  obtain ⟨hne, hlen, hcase⟩ := h
  rcases hcase with hall | hall
  · have htest : d.T.all (fun x => x.step.isNone) = true := by
      rw [List.all_eq_true]; intro x hx; simp [hall x hx]
    rw [(stepsRevM_allDynBlock el (d.σ * E) d.T d.B dyn hne hlen hall).1]
    simp [dimSteps, htest]
  · have htest : ¬ d.T.all (fun x => x.step.isNone) = true := by
      rw [List.all_eq_true]
      intro hn
      obtain ⟨x, hx⟩ := List.exists_mem_of_ne_nil _ hne
      obtain ⟨st, hst⟩ := hall x hx
      have := hn x hx
      simp [hst] at this
    rw [(stepsRevM_statBlock el (d.σ * E) d.T d.B dyn hlen hall).1]
    simp [dimSteps, htest]

theorem blocks_dimSteps (el E : Nat) : ∀ (dims : List DimM) (dyn : Nat), (∀ d ∈ dims, d.Ok) →
    stepsRevM el ((dims.map fun d => blockM d.T d.B (d.σ * E)).flatten).reverse dyn
      = ((dims.map (dimSteps el E)).flatten).reverse
  | [], _, _ => rfl
  | d :: ds, dyn, h => by
    simp only [List.map_cons, List.flatten_cons, List.reverse_append]
    rw [stepsRevM_append, blocks_dimSteps el E ds dyn fun x hx => h x (by simp [hx]),
      block_dimSteps el E d (h d (by simp))]

theorem preLayout_dims (E : Nat) : ∀ (dims : List DimM), (∀ d ∈ dims, d.Ok) →
    preLayout E (dims.map (·.T)) (dims.map (·.σ)) = .ok (dims.map fun d => preDim (d.σ * E) d.T)
  | [], _ => rfl
  | d :: ds, h => by
    have hd := (h d (by simp)).1
    simp only [List.map_cons, preLayout, if_neg hd, preLayout_dims E ds fun x hx => h x (by simp [hx])]

theorem zipWith_map_same {α β γ δ : Type} (f : β → γ → δ) (g : α → β) (k : α → γ) : ∀ (l : List α),
    List.zipWith f (l.map g) (l.map k) = l.map fun x => f (g x) (k x)
  | [] => rfl
  | x :: l => by simp [zipWith_map_same f g k l]

theorem triples_dims (E : Nat) (dims : List DimM) (h : ∀ d ∈ dims, d.Ok) :
    (((dims.map (·.T)).flatten.zip (dims.map (·.B)).flatten).zip (dims.map fun d => preDim (d.σ * E) d.T).flatten)
      = (dims.map fun d => blockM d.T d.B (d.σ * E)).flatten := by
  have h1 : (dims.map (·.T)).map List.length = (dims.map (·.B)).map List.length := by
    simp only [List.map_map]
    apply List.map_congr_left
    intro d hd
    exact (h d hd).2.1
  rw [zip_flatten _ _ h1, zipWith_map_same]
  have h2 : (dims.map fun d => d.T.zip d.B).map List.length
      = (dims.map fun d => preDim (d.σ * E) d.T).map List.length := by
    simp only [List.map_map]
    apply List.map_congr_left
    intro d hd
    simp [length_preDim, (h d hd).2.1]
  rw [zip_flatten _ _ h2, zipWith_map_same]
  rfl

/-- **the metadata branch of `get_step_ops`, dimension by dimension** -/
theorem stepsAtStrided_dims (dims : List DimM) (off : Option Int) (el E : Nat) (hne : dims ≠ [])
    (hok : ∀ d ∈ dims, d.Ok) :
    stepsAtStrided ⟨dims.map (·.T), off⟩ (dims.map (·.B)) el E (dims.map (·.σ))
      = .ok (dims.map (dimSteps el E)) := by
  have hts : ¬ dims.map (·.T) = [] := by simpa using hne
  have hlen : ((dims.map (·.T)).flatten).length = ((dims.map (·.B)).flatten).length := by
    simp only [List.length_flatten, List.map_map]
    congr 1
    apply List.map_congr_left
    intro d hd
    exact (hok d hd).2.1
  unfold stepsAtStrided
  simp only [preLayout_dims E dims hok, Layout.strides, if_neg hts, hlen, ne_eq, not_true_eq_false, if_false]
  rcases maxStep _ 0 _ 0 with ⟨p, v⟩
  simp only [triples_dims E dims hok, blocks_dimSteps el E dims _ hok, List.reverse_reverse]
  congr 1
  apply regroup_flatten_of_lengths
  simp only [List.map_map]
  apply List.map_congr_left
  intro d hd
  simp [length_dimSteps el E d (hok d hd)]

/-- `from_stride(None, o :: inner)`: every step dynamic -/
theorem stepsFrom_none : ∀ (r : List (Option Nat)), stepsFrom none r = none :: r.map fun _ => none
  | [] => rfl
  | b :: r => by
    simp only [stepsFrom, stepsFrom_none r, List.headD_cons, List.map_cons]
    cases b with
    | none => rfl
    | some b => cases b <;> rfl

theorem fromStride_none (o : Option Nat) (inner : List Nat) :
    fromStride none (o :: inner.map some) = dynTiles o inner := by
  simp only [fromStride, List.tail_cons, stepsFrom_none, dynTiles, List.zip_cons_cons, List.map_cons, List.map_map]
  congr 1
  induction inner with
  | nil => rfl
  | cons b r ih => simp [ih]

end SnaxVerif.Tsl
