import SnaxVerif.Model.CyclicLayout
/-!
Helper lemmas for C09 (cyclic memory layouts): granularity padding, canonicalisation preserves the
address function, the "push" lemma (a new outermost stride at least as large as the span of the
layout keeps it injective), and the invariants of the schedule walk and the fill-up.
-/
namespace SnaxVerif.CyclicLayout

/-- decidable equality of results, for `decide` on concrete witnesses -/
instance exceptDecEq {ε α : Type} [DecidableEq ε] [DecidableEq α] : DecidableEq (Except ε α)
  | .ok a, .ok b => if h : a = b then isTrue (by rw [h]) else isFalse (by intro h'; cases h'; exact h rfl)
  | .error a, .error b => if h : a = b then isTrue (by rw [h]) else isFalse (by intro h'; cases h'; exact h rfl)
  | .ok _, .error _ => isFalse (by intro h; cases h)
  | .error _, .ok _ => isFalse (by intro h; cases h)

/-! ## granularity padding -/

theorem pad_ge (s g : Nat) : s ≤ pad s g := by unfold pad; split <;> omega

/-- the padded stride is a multiple of the granularity whenever the granularity divides 64 -/
theorem pad_dvd (s g : Nat) (hg : g ∣ 64) : g ∣ pad s g := by
  unfold pad
  split
  · rename_i h; exact Nat.dvd_of_mod_eq_zero h
  · have h64 : (0 : Int) < 64 := by decide
    have hm := Int.fmod_eq_emod_of_nonneg ((g : Int) - s) (Int.le_of_lt h64)
    have hnn : 0 ≤ ((g : Int) - s) % 64 := Int.emod_nonneg _ (by decide)
    obtain ⟨k, hk⟩ := hg
    have hdm := Int.mul_ediv_add_emod ((g : Int) - s) 64
    have : ((g : Int)) ∣ ((s : Int) + ((g : Int) - s) % 64) := by
      have e : (s : Int) + ((g : Int) - s) % 64 = g - 64 * (((g : Int) - s) / 64) := by omega
      rw [e]
      apply Int.dvd_sub (Int.dvd_refl _)
      exact Int.dvd_trans ⟨(k : Int), by exact_mod_cast hk⟩ (Int.dvd_mul_right 64 _)
    rw [hm]
    have hcast : ((s + Int.toNat (((g : Int) - s) % 64) : Nat) : Int) = (s : Int) + ((g : Int) - s) % 64 := by
      rw [Int.natCast_add, Int.toNat_of_nonneg hnn]
    exact Int.natCast_dvd_natCast.mp (by rw [hcast]; exact this)

theorem gran_dvd_64 (sp w k : Nat) : gran sp w k ∣ 64 := by
  unfold gran
  split <;> split <;> decide

theorem ensure_ge {sp w cur k c} (h : ensureGranularity sp w cur k = .ok c) : cur ≤ c := by
  unfold ensureGranularity at h
  split at h
  · cases h; exact Nat.le_refl _
  · split at h
    · cases h
    · split at h
      · cases h
      · cases h; exact pad_ge _ _

/-! ## products -/

theorem prodNZ_pos (l : List Stride) : 0 < prodNZ l := by
  induction l with
  | nil => simp [prodNZ]
  | cons s r ih =>
    simp only [prodNZ]
    split
    · omega
    · exact Nat.mul_pos (by omega) ih

theorem prodNZ_eq_prodB : ∀ (l : List Stride), 0 < prodB l → prodNZ l = prodB l
  | [], _ => rfl
  | s :: r, h => by
    simp only [prodB] at h
    have hb : 0 < s.bound := by
      rcases Nat.eq_zero_or_pos s.bound with h0 | h0
      · rw [h0] at h; simp at h
      · exact h0
    have hr : 0 < prodB r := by
      rcases Nat.eq_zero_or_pos (prodB r) with h0 | h0
      · rw [h0] at h; simp at h
      · exact h0
    simp only [prodNZ, prodB, prodNZ_eq_prodB r hr]
    rw [if_neg (by omega)]


/-! ## canonicalisation preserves bounds product and addresses -/

theorem digit_split (j b R : Nat) : j / R = b * (j / (b * R)) + (j % (b * R)) / R := by
  have h1 : j % (b * R) / R = j / R % b := by rw [Nat.mul_comm b R]; exact Nat.mod_mul_right_div_self j R b
  have h2 : j / (b * R) = j / R / b := by rw [Nat.mul_comm b R, Nat.div_div_eq_div_mul]
  rw [h1, h2]; exact (Nat.div_add_mod (j / R) b).symm

theorem canon_nil_iff (l : List Stride) : canon l = [] ↔ l = [] := by
  cases l with
  | nil => simp [canon]
  | cons s r =>
    simp only [canon]
    split
    · simp
    · split
      · simp
      · split <;> simp

theorem prodB_canon : ∀ l, prodB (canon l) = prodB l
  | [] => rfl
  | s :: r => by
    have ih := prodB_canon r
    simp only [canon]
    split
    · rename_i hc
      have : r = [] := (canon_nil_iff r).mp hc
      subst this; rfl
    · rename_i h t hc
      rw [hc] at ih
      split
      · rename_i hb; simp only [prodB] at ih ⊢; rw [hb, Nat.one_mul]; exact ih
      · split
        · simp only [prodB] at ih ⊢; rw [← ih, Nat.mul_comm h.bound s.bound, Nat.mul_assoc]
        · simp only [prodB] at ih ⊢; rw [ih]

theorem addrIn_canon : ∀ (l : List Stride) (i : Nat), addrIn (canon l) i = addrIn l i
  | [], _ => rfl
  | s :: r, i => by
    have ih := addrIn_canon r i
    have hp := prodB_canon r
    simp only [canon]
    split
    · rename_i hc
      have : r = [] := (canon_nil_iff r).mp hc
      subst this; rfl
    · rename_i h t hc
      rw [hc] at ih hp
      split
      · rename_i hb
        simp only [addrIn] at ih ⊢
        rw [ih, hb, Nat.one_mul]
        have : i % prodB r / prodB r = 0 := by
          rcases Nat.eq_zero_or_pos (prodB r) with h0 | h0
          · simp [h0]
          · exact Nat.div_eq_of_lt (Nat.mod_lt _ h0)
        simp [this]
      · split
        · rename_i hsq
          obtain ⟨_, _, hsq, _⟩ := hsq
          simp only [addrIn, prodB] at ih hp ⊢
          rw [← ih, ← hp, ← hsq]
          have hj : i % (h.bound * prodB t) = (i % (s.bound * (h.bound * prodB t))) % (h.bound * prodB t) := by
            rw [Nat.mod_mul_left_mod]
          have e1 : h.bound * s.bound * prodB t = s.bound * (h.bound * prodB t) := by
            rw [Nat.mul_comm h.bound s.bound, Nat.mul_assoc]
          rw [e1, hj, digit_split (i % (s.bound * (h.bound * prodB t))) h.bound (prodB t), Nat.mul_add,
              Nat.mul_assoc, Nat.add_assoc]
        · simp only [addrIn, prodB] at ih hp ⊢
          rw [ih, hp]

/-- inside the box the unreduced outermost digit equals the reduced one -/
theorem addrDim_eq_addrIn : ∀ (l : List Stride) (i : Nat), i < prodB l → addrDim l i = addrIn l i
  | [], _, _ => rfl
  | s :: r, i, h => by
    simp only [prodB] at h
    simp only [addrDim, addrIn, Nat.mod_eq_of_lt h]

/-- canonicalising one dimension does not change the address of any index of the box -/
theorem canon_addr (l : List Stride) (i : Nat) (h : i < prodB l) : addrDim (canon l) i = addrDim l i := by
  rw [addrDim_eq_addrIn l i h, addrDim_eq_addrIn (canon l) i (by rw [prodB_canon]; exact h), addrIn_canon]

/-- reducing the index modulo a multiple of the dimension's size does not change the inner digits -/
theorem addrIn_mod : ∀ (l : List Stride) (i M : Nat), prodB l ∣ M → addrIn l (i % M) = addrIn l i
  | [], _, _, _ => rfl
  | s :: r, i, M, h => by
    simp only [prodB] at h
    have hr : prodB r ∣ M := Nat.dvd_trans (Nat.dvd_mul_left _ _) h
    simp only [addrIn, addrIn_mod r i M hr, Nat.mod_mod_of_dvd i h]

/-- pushing a new outermost stride: quotient goes to the new stride, remainder to the old ones -/
theorem addrDim_cons (st : Stride) (l : List Stride) (i : Nat) (hP : 0 < prodB l) :
    addrDim (st :: l) i = st.step * (i / prodB l) + addrDim l (i % prodB l) := by
  rw [addrDim_eq_addrIn l (i % prodB l) (Nat.mod_lt _ hP), addrIn_mod l i (prodB l) (Nat.dvd_refl _)]
  simp only [addrDim]


/-! ## specification vocabulary -/

/-- `idx` is an index vector inside the box spanned by the layout's own bounds -/
def InBox (S : Layout) (idx : List Nat) : Prop :=
  idx.length = S.length ∧ ∀ (d : Nat) (l : List Stride) (i : Nat), S[d]? = some l → idx[d]? = some i → i < prodB l

/-- `idx` is a logical element of an operand of this shape -/
def InShape (shape : List Nat) (idx : List Nat) : Prop :=
  idx.length = shape.length ∧ ∀ (d n i : Nat), shape[d]? = some n → idx[d]? = some i → i < n

/-- the layout covers exactly the operand's shape: one entry per dimension, bound product = extent -/
def Covers (L : Layout) (shape : List Nat) : Prop :=
  L.length = shape.length ∧ ∀ (d : Nat) (l : List Stride) (n : Nat), L[d]? = some l → shape[d]? = some n → prodB l = n

/-- distinct logical elements of the operand live at distinct addresses -/
def InjectiveOn (L : Layout) (shape : List Nat) : Prop :=
  ∀ idx idx', InShape shape idx → InShape shape idx' → addr L idx = addr L idx' → idx = idx'

/-- every address of the layout's box is below `cur` -/
def SpanLt (S : Layout) (cur : Nat) : Prop := ∀ idx, InBox S idx → addr S idx < cur

def Inj (S : Layout) : Prop :=
  ∀ idx idx', InBox S idx → InBox S idx' → addr S idx = addr S idx' → idx = idx'

/-! ## the push lemma -/

theorem addr_set : ∀ (S : Layout) (idx : List Nat) (d : Nat) (l : List Stride) (st : Stride) (i : Nat),
    S[d]? = some l → idx[d]? = some i → 0 < prodB l →
    addr (S.set d (st :: l)) idx = st.step * (i / prodB l) + addr S (idx.set d (i % prodB l))
  | [], _, _, _, _, _, hS, _, _ => by simp at hS
  | _ :: _, [], _, _, _, _, _, hi, _ => by simp at hi
  | l0 :: S, i0 :: idx, 0, l, st, i, hS, hi, hP => by
    simp at hS hi; subst hS hi
    simp only [List.set, addr]
    rw [addrDim_cons st l0 i0 hP]; omega
  | l0 :: S, i0 :: idx, d + 1, l, st, i, hS, hi, hP => by
    simp at hS hi
    simp only [List.set, addr]
    rw [addr_set S idx d l st i hS hi hP]; omega

theorem lt_length_of_getElem? {α} {l : List α} {d : Nat} {x : α} (h : l[d]? = some x) : d < l.length := by
  rcases Nat.lt_or_ge d l.length with h1 | h1
  · exact h1
  · rw [List.getElem?_eq_none h1] at h; cases h

/-- an index vector of the pushed layout splits into a digit of the new stride and an index
vector of the old layout -/
theorem inbox_lower {S : Layout} {idx : List Nat} {d : Nat} {l : List Stride} {st : Stride} {i : Nat}
    (hS : S[d]? = some l) (hP : 0 < prodB l) (hb : InBox (S.set d (st :: l)) idx) (hi : idx[d]? = some i) :
    InBox S (idx.set d (i % prodB l)) ∧ i / prodB l < st.bound := by
  have hd : d < S.length := lt_length_of_getElem? hS
  obtain ⟨hlen, hall⟩ := hb
  rw [List.length_set] at hlen
  have hilt : i < st.bound * prodB l := by
    have := hall d (st :: l) i (by rw [List.getElem?_set_self hd]) hi
    simpa [prodB] using this
  refine ⟨⟨by rw [List.length_set]; exact hlen, ?_⟩, ?_⟩
  · intro e l' j hl' hj
    by_cases hed : d = e
    · subst hed
      rw [hS] at hl'; cases hl'
      rw [List.getElem?_set_self (by omega)] at hj; cases hj
      exact Nat.mod_lt _ hP
    · rw [List.getElem?_set_ne hed] at hj
      exact hall e l' j (by rw [List.getElem?_set_ne hed]; exact hl') hj
  · apply Nat.div_lt_of_lt_mul
    rw [Nat.mul_comm]; exact hilt

theorem radix_unique {s q q' a a' : Nat} (ha : a < s) (ha' : a' < s) (h : s * q + a = s * q' + a') :
    q = q' ∧ a = a' := by
  have hq : q = q' := by
    rcases Nat.lt_trichotomy q q' with hlt | heq | hgt
    · exfalso
      have : s * (q + 1) ≤ s * q' := Nat.mul_le_mul_left s hlt
      rw [Nat.mul_add] at this; omega
    · exact heq
    · exfalso
      have : s * (q' + 1) ≤ s * q := Nat.mul_le_mul_left s hgt
      rw [Nat.mul_add] at this; omega
  subst hq
  exact ⟨rfl, by omega⟩

/-- **push lemma**: a new outermost stride whose step is at least the span of the whole layout keeps
all addresses distinct, and the new span is `step * bound` -/
theorem push_inv {S : Layout} {d : Nat} {l : List Stride} {st : Stride} {cur : Nat}
    (hS : S[d]? = some l) (hP : 0 < prodB l) (hcur : cur ≤ st.step)
    (hsp : SpanLt S cur) (hinj : Inj S) :
    SpanLt (S.set d (st :: l)) (st.step * st.bound) ∧ Inj (S.set d (st :: l)) := by
  have hd : d < S.length := lt_length_of_getElem? hS
  have key : ∀ idx, InBox (S.set d (st :: l)) idx → ∃ i, idx[d]? = some i ∧
      InBox S (idx.set d (i % prodB l)) ∧ i / prodB l < st.bound ∧
      addr (S.set d (st :: l)) idx = st.step * (i / prodB l) + addr S (idx.set d (i % prodB l)) := by
    intro idx hb
    have hdi : d < idx.length := by rw [hb.1, List.length_set]; exact hd
    refine ⟨idx[d], List.getElem?_eq_getElem hdi, ?_⟩
    obtain ⟨h1, h2⟩ := inbox_lower hS hP hb (List.getElem?_eq_getElem hdi)
    exact ⟨h1, h2, addr_set S idx d l st _ hS (List.getElem?_eq_getElem hdi) hP⟩
  constructor
  · intro idx hb
    obtain ⟨i, _, hb0, hq, he⟩ := key idx hb
    have ha := hsp _ hb0
    rw [he]
    have : st.step * (i / prodB l + 1) ≤ st.step * st.bound := Nat.mul_le_mul_left _ hq
    rw [Nat.mul_add] at this; omega
  · intro idx idx' hb hb' heq
    obtain ⟨i, hi, hb0, _, he⟩ := key idx hb
    obtain ⟨i', hi', hb0', _, he'⟩ := key idx' hb'
    have ha := hsp _ hb0
    have ha' := hsp _ hb0'
    rw [he, he'] at heq
    obtain ⟨hq, haa⟩ := radix_unique (Nat.lt_of_lt_of_le ha hcur) (Nat.lt_of_lt_of_le ha' hcur) heq
    have h0 := hinj _ _ hb0 hb0' haa
    have hlen : idx.length = idx'.length := by rw [hb.1, hb'.1]
    have hdi : d < idx.length := by rw [hb.1, List.length_set]; exact hd
    have hmod : i % prodB l = i' % prodB l := by
      have := congrArg (fun x => x[d]?) h0
      simp only [List.getElem?_set_self hdi, List.getElem?_set_self (hlen ▸ hdi)] at this
      exact Option.some.inj this
    have hii : i = i' := by
      rw [← Nat.div_add_mod i (prodB l), ← Nat.div_add_mod i' (prodB l), hq, hmod]
    apply List.ext_getElem?
    intro e
    by_cases hed : d = e
    · subst hed; rw [hi, hi', hii]
    · have := congrArg (fun x => x[e]?) h0
      simpa [List.getElem?_set_ne hed] using this


/-! ## invariants of the walk -/

structure Inv (shape : List Nat) (S : Layout) (cur : Nat) : Prop where
  len : S.length = shape.length
  dvd : ∀ (d : Nat) (l : List Stride) (n : Nat), S[d]? = some l → shape[d]? = some n → prodB l ∣ n
  span : SpanLt S cur
  inj : Inj S
  chain : ∀ l ∈ S, ∀ p ∈ l, p.step * p.bound ≤ cur

theorem addr_all_nil : ∀ (S : Layout) (idx : List Nat), (∀ l ∈ S, l = []) → addr S idx = 0
  | [], _, _ => by simp [addr]
  | _ :: _, [], _ => by simp [addr]
  | l :: S, i :: idx, h => by
    have hl : l = [] := h l (by simp)
    subst hl
    simp only [addr, addrDim, addr_all_nil S idx (fun l hl => h l (by simp [hl]))]

theorem inv_init (shape : List Nat) : Inv shape (initState shape).1 (initState shape).2 := by
  have hnil : ∀ l ∈ (shape.map fun _ => ([] : List Stride)), l = [] := by
    intro l hl; simp at hl; exact hl.2
  have hget : ∀ (d : Nat) (l : List Stride), (shape.map fun _ => ([] : List Stride))[d]? = some l → l = [] := by
    intro d l h; exact hnil l (List.mem_of_getElem? h)
  refine ⟨by simp [initState], ?_, ?_, ?_, ?_⟩
  · intro d l n hl _
    simp only [initState] at hl
    rw [hget d l hl]; simp [prodB]
  · intro idx _
    simp only [initState]
    rw [addr_all_nil _ _ hnil]; decide
  · intro idx idx' hb hb' _
    simp only [initState] at hb hb'
    have hz : ∀ (x : List Nat), InBox (shape.map fun _ => ([] : List Stride)) x → ∀ (e i : Nat), x[e]? = some i → i = 0 := by
      intro x hx e i hi
      have he : e < (shape.map fun _ => ([] : List Stride)).length := by rw [← hx.1]; exact lt_length_of_getElem? hi
      have := hx.2 e _ i (List.getElem?_eq_getElem he) hi
      rw [hget e _ (List.getElem?_eq_getElem he)] at this
      simp [prodB] at this; exact this
    apply List.ext_getElem?
    intro e
    by_cases he : e < idx.length
    · have he' : e < idx'.length := by rw [hb'.1, ← hb.1]; exact he
      rw [List.getElem?_eq_getElem he, List.getElem?_eq_getElem he',
        hz idx hb e _ (List.getElem?_eq_getElem he), hz idx' hb' e _ (List.getElem?_eq_getElem he')]
    · have he' : ¬ e < idx'.length := by rw [hb'.1, ← hb.1]; exact he
      rw [List.getElem?_eq_none (by omega), List.getElem?_eq_none (by omega)]
  · intro l hl p hp
    simp only [initState] at hl
    rw [hnil l hl] at hp; cases hp

theorem inv_push {shape : List Nat} {S : Layout} {cur d n c lb : Nat} {l : List Stride}
    (hpos : ∀ n ∈ shape, 0 < n) (hI : Inv shape S cur) (hS : S[d]? = some l) (hn : shape[d]? = some n)
    (hc : cur ≤ c) (hlb : lb * prodB l ∣ n) :
    Inv shape (S.set d (⟨c, lb⟩ :: l)) (c * lb) := by
  have hnpos : 0 < n := hpos n (List.mem_of_getElem? hn)
  have hPpos : 0 < prodB l := Nat.pos_of_dvd_of_pos (hI.dvd d l n hS hn) hnpos
  have hmul : 0 < lb * prodB l := Nat.pos_of_dvd_of_pos hlb hnpos
  have hlbpos : 0 < lb := by
    rcases Nat.eq_zero_or_pos lb with h0 | h0
    · rw [h0] at hmul; simp at hmul
    · exact h0
  have hd : d < S.length := lt_length_of_getElem? hS
  obtain ⟨hsp, hinj⟩ := push_inv (st := ⟨c, lb⟩) hS hPpos hc hI.span hI.inj
  refine ⟨by rw [List.length_set]; exact hI.len, ?_, hsp, hinj, ?_⟩
  · intro e l' n' hl' hn'
    by_cases hed : d = e
    · subst hed
      rw [List.getElem?_set_self hd] at hl'; cases hl'
      rw [hn] at hn'; cases hn'
      simpa [prodB] using hlb
    · rw [List.getElem?_set_ne hed] at hl'
      exact hI.dvd e l' n' hl' hn'
  · have hcc : cur ≤ c * lb := Nat.le_trans hc (Nat.le_mul_of_pos_right c hlbpos)
    intro l' hl' p hp
    rcases List.mem_or_eq_of_mem_set hl' with h | h
    · exact Nat.le_trans (hI.chain l' h p hp) hcc
    · subst h
      rcases List.mem_cons.mp hp with h | h
      · subst h; exact Nat.le_refl _
      · exact Nat.le_trans (hI.chain l (List.mem_of_getElem? hS) p h) hcc

theorem layoutBound_dvd (c : Cfg) (d P n b : Nat) (hP : P ∣ n) : layoutBound c d P n b * P ∣ n := by
  unfold layoutBound
  simp only []
  split
  · rename_i h
    simp only [Bool.and_eq_true, decide_eq_true_eq] at h
    obtain ⟨⟨_, hm⟩, _⟩ := h
    rw [Nat.mul_comm]
    exact Nat.mul_dvd_of_dvd_div hP (Nat.dvd_of_mod_eq_zero hm)
  · rw [Nat.div_mul_cancel hP]; exact Nat.dvd_refl _

/-- what one iteration of the schedule loop does -/
theorem stepCol_cases {c : Cfg} {S S' : Layout} {cur cur' k b : Nat} {col : List Int}
    (h : stepCol c (S, cur) k b col = .ok (S', cur')) :
    (S' = S ∧ cur' = cur) ∨
    ∃ (d : Nat) (l : List Stride) (n cu : Nat), S[d]? = some l ∧ c.shape[d]? = some n ∧ cur ≤ cu ∧
      S' = S.set d (⟨cu, layoutBound c d (prodNZ l) n b⟩ :: l) ∧ cur' = cu * layoutBound c d (prodNZ l) n b := by
  unfold stepCol at h
  split at h
  · cases h; exact Or.inl ⟨rfl, rfl⟩
  · rename_i d _
    split at h
    · cases h
    · rename_i cu hcu
      split at h
      · rename_i l n hl hn
        simp only [] at h
        cases h
        exact Or.inr ⟨d, l, n, cu, hl, hn, ensure_ge hcu, rfl, rfl⟩
      · cases h

theorem inv_stepCol {c : Cfg} {S S' : Layout} {cur cur' k b : Nat} {col : List Int}
    (hpos : ∀ n ∈ c.shape, 0 < n) (hI : Inv c.shape S cur)
    (h : stepCol c (S, cur) k b col = .ok (S', cur')) : Inv c.shape S' cur' := by
  rcases stepCol_cases h with ⟨h1, h2⟩ | ⟨d, l, n, cu, hl, hn, hcu, h1, h2⟩
  · subst h1 h2; exact hI
  · subst h1 h2
    have hdvd := hI.dvd d l n hl hn
    have hPpos : 0 < prodB l := Nat.pos_of_dvd_of_pos hdvd (hpos n (List.mem_of_getElem? hn))
    apply inv_push hpos hI hl hn hcu
    rw [prodNZ_eq_prodB l hPpos]
    exact layoutBound_dvd c d (prodB l) n b hdvd

theorem inv_walk {c : Cfg} (hpos : ∀ n ∈ c.shape, 0 < n) :
    ∀ (cols : List (Nat × List Int)) (k : Nat) (S : Layout) (cur : Nat) (S' : Layout) (cur' : Nat),
      Inv c.shape S cur → walk c cols k (S, cur) = .ok (S', cur') → Inv c.shape S' cur'
  | [], _, _, _, _, _, hI, h => by
    simp only [walk] at h; cases h; exact hI
  | (b, col) :: rest, k, S, cur, S', cur', hI, h => by
    simp only [walk] at h
    split at h
    · cases h
    · rename_i st' hst
      obtain ⟨S1, cur1⟩ := st'
      exact inv_walk hpos rest (k + 1) S1 cur1 S' cur' (inv_stepCol hpos hI hst) h

/-! ## fill-up (with F15) -/

def CovAt (shape : List Nat) (S : Layout) (d : Nat) : Prop :=
  ∀ (l : List Stride) (n : Nat), S[d]? = some l → shape[d]? = some n → prodB l = n

theorem ceil_of_dvd {P n : Nat} (hP : 0 < P) (h : P ∣ n) : (n + P - 1) / P = n / P := by
  obtain ⟨k, rfl⟩ := h
  have : P * k + P - 1 = P - 1 + P * k := by omega
  rw [this, Nat.add_mul_div_left _ _ hP, Nat.mul_div_cancel_left _ hP, Nat.div_eq_of_lt (by omega)]
  omega

theorem fillStep_inv {shape : List Nat} (hpos : ∀ n ∈ shape, 0 < n) (st : Layout × Nat) (d : Nat)
    (hI : Inv shape st.1 st.2) :
    Inv shape (fillStep shape st d).1 (fillStep shape st d).2 ∧
    CovAt shape (fillStep shape st d).1 d ∧
    ∀ e, CovAt shape st.1 e → CovAt shape (fillStep shape st d).1 e := by
  obtain ⟨S, cur⟩ := st
  simp only at hI
  unfold fillStep
  simp only []
  split
  · rename_i l n hl hn
    have hnpos : 0 < n := hpos n (List.mem_of_getElem? hn)
    have hdvd := hI.dvd d l n hl hn
    have hPpos : 0 < prodB l := Nat.pos_of_dvd_of_pos hdvd hnpos
    have hd : d < S.length := lt_length_of_getElem? hl
    rw [prodNZ_eq_prodB l hPpos]
    split
    · have hrem : (n + prodB l - 1) / prodB l * prodB l = n := by
        rw [ceil_of_dvd hPpos hdvd, Nat.div_mul_cancel hdvd]
      have hself : CovAt shape (S.set d (⟨cur, (n + prodB l - 1) / prodB l⟩ :: l)) d := by
        intro l' n' hl' hn'
        rw [List.getElem?_set_self hd] at hl'; cases hl'
        rw [hn] at hn'; cases hn'
        simpa [prodB] using hrem
      refine ⟨inv_push hpos hI hl hn (Nat.le_refl _) (by rw [hrem]; exact Nat.dvd_refl _), hself, ?_⟩
      intro e he
      by_cases hed : d = e
      · subst hed; exact hself
      · intro l' n' hl' hn'
        rw [List.getElem?_set_ne hed] at hl'
        exact he l' n' hl' hn'
    · rename_i hno
      simp only [Bool.or_eq_true, decide_eq_true_eq, not_or, Nat.not_lt] at hno
      refine ⟨hI, ?_, fun e he => he⟩
      intro l' n' hl' hn'
      simp only at hl'
      rw [hl] at hl'; cases hl'
      rw [hn] at hn'; cases hn'
      exact Nat.le_antisymm (Nat.le_of_dvd hnpos hdvd) hno.2
  · rename_i hnone
    refine ⟨hI, ?_, fun e he => he⟩
    intro l n hl hn
    exact absurd hn (hnone l n hl)

theorem fill_fold {shape : List Nat} (hpos : ∀ n ∈ shape, 0 < n) :
    ∀ (ds : List Nat) (st : Layout × Nat), Inv shape st.1 st.2 →
      Inv shape (ds.foldl (fillStep shape) st).1 (ds.foldl (fillStep shape) st).2 ∧
      (∀ e, CovAt shape st.1 e → CovAt shape (ds.foldl (fillStep shape) st).1 e) ∧
      ∀ e ∈ ds, CovAt shape (ds.foldl (fillStep shape) st).1 e
  | [], st, hI => ⟨hI, fun _ h => h, fun _ h => by cases h⟩
  | d :: ds, st, hI => by
    obtain ⟨h1, h2, h3⟩ := fillStep_inv hpos st d hI
    obtain ⟨g1, g2, g3⟩ := fill_fold hpos ds (fillStep shape st d) h1
    simp only [List.foldl]
    refine ⟨g1, fun e he => g2 e (h3 e he), ?_⟩
    intro e he
    rcases List.mem_cons.mp he with h | h
    · subst h; exact g2 _ h2
    · exact g3 e h

theorem fillFixed_spec {shape : List Nat} (hpos : ∀ n ∈ shape, 0 < n) (st : Layout × Nat)
    (hI : Inv shape st.1 st.2) :
    Inv shape (fillFixed shape st).1 (fillFixed shape st).2 ∧ Covers (fillFixed shape st).1 shape := by
  obtain ⟨g1, _, g3⟩ := fill_fold hpos (List.range shape.length) st hI
  refine ⟨g1, g1.len, ?_⟩
  intro d l n hl hn
  exact g3 d (List.mem_range.mpr (lt_length_of_getElem? hn)) l n hl hn


/-! ## canonicalisation of the whole layout, and the final assembly -/

theorem addr_map_canon : ∀ (S : Layout) (idx : List Nat),
    (∀ (d : Nat) (l : List Stride) (i : Nat), S[d]? = some l → idx[d]? = some i → i < prodB l) →
    addr (S.map canon) idx = addr S idx
  | [], _, _ => by simp [addr]
  | _ :: _, [], _ => by simp [addr]
  | l :: S, i :: idx, h => by
    simp only [List.map, addr]
    rw [canon_addr l i (h 0 l i (by simp) (by simp)),
      addr_map_canon S idx (fun d l' i' hl hi => h (d + 1) l' i' (by simpa using hl) (by simpa using hi))]

theorem covers_map_canon {S : Layout} {shape : List Nat} (h : Covers S shape) : Covers (S.map canon) shape := by
  refine ⟨by rw [List.length_map]; exact h.1, ?_⟩
  intro d l n hl hn
  rw [List.getElem?_map] at hl
  cases hS : S[d]? with
  | none => rw [hS] at hl; cases hl
  | some l0 =>
    rw [hS] at hl; simp at hl; subst hl
    rw [prodB_canon]; exact h.2 d l0 n hS hn

theorem inbox_of_inshape {S : Layout} {shape idx : List Nat} (hc : Covers S shape) (h : InShape shape idx) :
    InBox S idx := by
  refine ⟨by rw [h.1, hc.1], ?_⟩
  intro d l i hl hi
  have hd : d < shape.length := by rw [← hc.1]; exact lt_length_of_getElem? hl
  have hn : shape[d]? = some shape[d] := List.getElem?_eq_getElem hd
  rw [hc.2 d l _ hl hn]
  exact h.2 d _ i hn hi

theorem injective_map_canon {S : Layout} {shape : List Nat} (hc : Covers S shape) (hinj : Inj S) :
    InjectiveOn (S.map canon) shape := by
  intro idx idx' h h' heq
  have hb := inbox_of_inshape hc h
  have hb' := inbox_of_inshape hc h'
  rw [addr_map_canon S idx hb.2, addr_map_canon S idx' hb'.2] at heq
  exact hinj idx idx' hb hb' heq

/-- the layout chosen by the (fixed) pass for one operand covers the shape and is one-to-one on it -/
theorem cyclicLayout_spec {c : Cfg} {L : Layout} (hpos : ∀ n ∈ c.shape, 0 < n)
    (h : cyclicLayout true c = .ok L) : Covers L c.shape ∧ InjectiveOn L c.shape := by
  unfold cyclicLayout layoutPre at h
  split at h
  · cases h
  · rename_i S hS
    split at hS
    · cases hS
    · rename_i st hst
      obtain ⟨S1, cur1⟩ := st
      cases hS; cases h
      have hI := inv_walk hpos (revCols c) 0 _ _ S1 cur1 (inv_init c.shape) hst
      obtain ⟨hI2, hcov⟩ := fillFixed_spec hpos (S1, cur1) hI
      simp only [if_true]
      exact ⟨covers_map_canon hcov, injective_map_canon hcov hI2.inj⟩

theorem mapE_ok {α β ε : Type} {f : α → Except ε β} : ∀ {xs : List α} {ys : List β}, mapE f xs = .ok ys →
    ys.length = xs.length ∧ ∀ (i : Nat) (x : α) (y : β), xs[i]? = some x → ys[i]? = some y → f x = .ok y
  | [], ys, h => by
    simp only [mapE] at h; cases h
    exact ⟨rfl, fun i x y hx _ => by simp at hx⟩
  | x :: xs, ys, h => by
    simp only [mapE] at h
    split at h
    · cases h
    · rename_i y hy
      split at h
      · cases h
      · rename_i ys' hys
        cases h
        obtain ⟨hl, hall⟩ := mapE_ok hys
        refine ⟨by simp [hl], ?_⟩
        intro i x' y' hx' hy'
        cases i with
        | zero => simp at hx' hy'; subst hx' hy'; exact hy
        | succ i => simp at hx' hy'; exact hall i x' y' hx' hy'

theorem operandLayout_spec {tiled : Bool} {spatial : Option Nat} {bounds : List Int} {o : Operand} {L : Layout}
    (h : operandLayout true tiled spatial bounds o = .ok L) : Covers L o.shape ∧ InjectiveOn L o.shape := by
  unfold operandLayout at h
  split at h
  · cases h
  · rename_i hchk
    simp only [Bool.or_eq_true, not_or, Bool.not_eq_true] at hchk
    have hpos : ∀ n ∈ o.shape, 0 < n := by
      intro n hn
      rcases Nat.eq_zero_or_pos n with h0 | h0
      · exfalso
        have : o.shape.any (· = 0) = true := List.any_eq_true.mpr ⟨n, hn, by simp [h0]⟩
        rw [hchk.1] at this; cases this
      · exact h0
    exact cyclicLayout_spec (c := cfgOf tiled spatial bounds o) hpos h

end SnaxVerif.CyclicLayout
