import SnaxVerif.Model.Pipeline
/-! Slot structure of the unrolled pipeline (C15): the program emitted by `unroll` is, slot by slot, the ideal
`slots S N` whenever `S - 1 ≤ N` (the fact established by the F16 guard). -/
namespace SnaxVerif.Pipeline

theorem mem_slot {S N t k n : Nat} : (k, n) ∈ slot S N t ↔ k < S ∧ n < N ∧ t = n + k := by
  simp only [slot, List.mem_map, List.mem_range'_1, Prod.mk.injEq]
  constructor
  · rintro ⟨k', ⟨h1, h2⟩, rfl, rfl⟩
    omega
  · rintro ⟨hk, hn, rfl⟩
    exact ⟨k, by omega, rfl, by omega⟩

theorem reverse_range (n : Nat) : (List.range n).reverse = (List.range n).map (fun i => n - 1 - i) := by
  apply List.ext_getElem
  · simp
  · intro i h1 h2
    simp [List.getElem_reverse]

def castSlot (s : List (Nat × Nat)) : List (Nat × Int) := s.map fun p => (p.1, (p.2 : Int))

theorem prologue_slot {S N i : Nat} (hi : i < S - 1) (hN : S - 1 ≤ N) :
    evalSlot 0 N ((List.range (i + 1)).map fun j => (j, IExpr.const (i - j))) = castSlot (slot S N i) := by
  have h1 : i + 1 - N = 0 := by omega
  have h2 : min S (i + 1) = i + 1 := by omega
  simp only [evalSlot, castSlot, slot, h1, h2, List.map_map, List.range_eq_range', Nat.sub_zero]
  apply List.map_congr_left
  intro k _
  simp [IExpr.eval]

theorem steady_slot {S N d : Nat} (hd : d < N - (S - 1)) :
    evalSlot (((S - 1 : Nat) : Int) + (d : Nat)) N ((List.range S).map fun k => (k, IExpr.ivMinus k))
      = castSlot (slot S N (S - 1 + d)) := by
  have h1 : S - 1 + d + 1 - N = 0 := by omega
  have h2 : min S (S - 1 + d + 1) = S := by omega
  simp only [evalSlot, castSlot, slot, h1, h2, List.map_map, List.range_eq_range', Nat.sub_zero]
  apply List.map_congr_left
  intro k hk
  have : k < S := by simpa [List.mem_range'_1] using hk
  simp only [Function.comp, IExpr.eval, Prod.mk.injEq, true_and]
  omega

theorem epilogue_slot {S N i : Nat} (hi : i < S - 1) (hN : S - 1 ≤ N) :
    evalSlot 0 N ((List.range (i + 1)).reverse.map fun j => (S - 1 - j, IExpr.ubMinus (i - j + 1)))
      = castSlot (slot S N (N + (S - 2 - i))) := by
  have h1 : N + (S - 2 - i) + 1 - N = S - 1 - i := by omega
  have h2 : min S (N + (S - 2 - i) + 1) = S := by omega
  have h3 : S - (S - 1 - i) = i + 1 := by omega
  simp only [evalSlot, castSlot, slot, h1, h2, h3, reverse_range, List.map_map, List.range'_eq_map_range]
  apply List.map_congr_left
  intro a ha
  have : a < i + 1 := by simpa using ha
  simp only [Function.comp, IExpr.eval, Prod.mk.injEq]
  omega

theorem slots_split {S N : Nat} (hS : 0 < S) (hN : S - 1 ≤ N) :
    slots S N = (List.range (S - 1)).map (slot S N)
      ++ ((List.range (N - (S - 1))).map (fun d => slot S N (S - 1 + d))
      ++ (List.range (S - 1)).map (fun q => slot S N (N + q))) := by
  have hsplit : N + S - 1 = (S - 1) + ((N - (S - 1)) + (S - 1)) := by omega
  unfold slots
  rw [hsplit, List.range_add, List.range_add]
  simp only [List.map_append, List.map_map]
  congr 2
  apply List.map_congr_left
  intro q _
  simp only [Function.comp]
  congr 1
  omega

/-- the unrolled program, evaluated for `ub = N`, is the ideal slot sequence -/
theorem unroll_eq_slots {S N : Nat} (hS : 0 < S) (hN : S - 1 ≤ N) : evalUnroll S N = (slots S N).map castSlot := by
  rw [slots_split hS hN]
  simp only [evalUnroll, unroll, List.map_append, List.map_map, List.append_assoc]
  congr 1
  · apply List.map_congr_left
    intro i hi
    exact prologue_slot (by simpa using hi) hN
  congr 1
  · have : ((N : Int) - ((S - 1 : Nat) : Int)).toNat = N - (S - 1) := by omega
    rw [this]
    apply List.map_congr_left
    intro d hd
    exact steady_slot (S := S) (N := N) (by simpa using hd)
  · rw [reverse_range, List.map_map]
    apply List.map_congr_left
    intro q hq
    have hq' : q < S - 1 := by simpa using hq
    have := epilogue_slot (S := S) (N := N) (i := S - 1 - 1 - q) (by omega) hN
    have e : S - 2 - (S - 1 - 1 - q) = q := by omega
    rw [e] at this
    exact this

end SnaxVerif.Pipeline
