import SnaxVerif.Lemmas.PipelineDouble
/-! C15: `duplicate` (the model of PipelineDuplicateBuffers) ESTABLISHES the side conditions of the equivalence theorems:
`dupWF` always, `safeB` under the input clauses `inputOK` (TilesAligned, OneWriterStage). -/
namespace SnaxVerif.Pipeline

theorem mem_touches_iff {p : Prog} {k : Nat} {w : Bool} {v : Opnd} :
    (k, w, v) ∈ touches p ↔
      k < p.stages.length ∧ ∃ op ∈ p.stages.getD k [], (w = false ∧ v ∈ op.ins) ∨ (w = true ∧ v ∈ op.outs) := by
  simp only [touches, allOps, List.mem_flatMap, List.mem_range, List.mem_map, List.mem_append, Prod.mk.injEq]
  constructor
  · rintro ⟨⟨k', op⟩, ⟨k'', hk'', op', hop', heq⟩, h⟩
    simp only [Prod.mk.injEq] at heq
    obtain ⟨rfl, rfl⟩ := heq
    rcases h with ⟨x, hx, hk, hw, hv⟩ | ⟨x, hx, hk, hw, hv⟩
    · simp only at hk hx
      subst hk hw hv
      exact ⟨hk'', op', hop', Or.inl ⟨rfl, hx⟩⟩
    · simp only at hk hx
      subst hk hw hv
      exact ⟨hk'', op', hop', Or.inr ⟨rfl, hx⟩⟩
  · rintro ⟨hk, op, hop, h⟩
    refine ⟨(k, op), ⟨k, hk, op, hop, rfl⟩, ?_⟩
    rcases h with ⟨rfl, hv⟩ | ⟨rfl, hv⟩
    · exact Or.inl ⟨v, hv, rfl, rfl, rfl⟩
    · exact Or.inr ⟨v, hv, rfl, rfl, rfl⟩

/-- the program produced by `duplicate` when it succeeds -/
def mapP (c : Opnd → Opnd) (P : List (List SOp)) : List (List SOp) :=
  P.map fun st => st.map fun o => ⟨o.tag, o.ins.map c, o.outs.map c⟩

theorem getD_mapP (c : Opnd → Opnd) (P : List (List SOp)) (k : Nat) :
    (mapP c P).getD k [] = (P.getD k []).map fun o => ⟨o.tag, o.ins.map c, o.outs.map c⟩ := by
  unfold mapP
  simp only [List.getD_eq_getElem?_getD, List.getElem?_map]
  cases P[k]? <;> simp

theorem mem_touches_mapP {tiles tiles' : List (Nat × Nat × Bool)} {c : Opnd → Opnd} {P : List (List SOp)}
    {k : Nat} {w : Bool} {v' : Opnd} :
    (k, w, v') ∈ touches ⟨tiles, mapP c P⟩ ↔ ∃ v, v' = c v ∧ (k, w, v) ∈ touches ⟨tiles', P⟩ := by
  simp only [mem_touches_iff, getD_mapP, List.mem_map]
  have hl : (mapP c P).length = P.length := by simp [mapP]
  constructor
  · rintro ⟨hk, op', ⟨op, hop, rfl⟩, h⟩
    rw [hl] at hk
    rcases h with ⟨rfl, hv⟩ | ⟨rfl, hv⟩
    · simp only [List.mem_map] at hv
      obtain ⟨v, hv, rfl⟩ := hv
      exact ⟨v, rfl, hk, op, hop, Or.inl ⟨rfl, hv⟩⟩
    · simp only [List.mem_map] at hv
      obtain ⟨v, hv, rfl⟩ := hv
      exact ⟨v, rfl, hk, op, hop, Or.inr ⟨rfl, hv⟩⟩
  · rintro ⟨v, rfl, hk, op, hop, h⟩
    refine ⟨by rw [hl]; exact hk, _, ⟨op, hop, rfl⟩, ?_⟩
    rcases h with ⟨rfl, hv⟩ | ⟨rfl, hv⟩
    · exact Or.inl ⟨rfl, List.mem_map.mpr ⟨v, hv, rfl⟩⟩
    · exact Or.inr ⟨rfl, List.mem_map.mpr ⟨v, hv, rfl⟩⟩

theorem mem_inStages {tiles : List (Nat × Nat × Bool)} {P : List (List SOp)} {k : Nat} {v : Opnd} :
    k ∈ inStages P v ↔ (k, false, v) ∈ touches ⟨tiles, P⟩ := by
  simp only [inStages, stageIns, List.mem_filter, List.mem_range, decide_eq_true_eq, List.mem_flatMap, mem_touches_iff]
  constructor
  · rintro ⟨hk, op, hop, hv⟩
    exact ⟨hk, op, hop, by simpa using hv⟩
  · rintro ⟨hk, op, hop, h⟩
    exact ⟨hk, op, hop, by simpa using h⟩

theorem mem_outStages {tiles : List (Nat × Nat × Bool)} {P : List (List SOp)} {k : Nat} {v : Opnd} :
    k ∈ outStages P v ↔ (k, true, v) ∈ touches ⟨tiles, P⟩ := by
  simp only [outStages, stageOuts, List.mem_filter, List.mem_range, decide_eq_true_eq, List.mem_flatMap, mem_touches_iff]
  constructor
  · rintro ⟨hk, op, hop, hv⟩
    exact ⟨hk, op, hop, by simpa using hv⟩
  · rintro ⟨hk, op, hop, h⟩
    exact ⟨hk, op, hop, by simpa using h⟩

/-- an operand becomes a parity-selected pair only if it is an allocation written by exactly one stage and read by
exactly the next one -/
theorem classify_dup {P : List (List SOp)} {v : Opnd} {b : Nat} (h : classify P v = .ok (.dup b))
    (hv : ∀ b', v ≠ .dup b') :
    v = .alloc b ∧ ∃ ko, inStages P v = [ko + 1] ∧ outStages P v = [ko] := by
  cases v with
  | dup b' => exact absurd rfl (hv b')
  | tile j =>
    simp only [classify] at h
    split at h <;> first | (simp at h; done) | skip
    split at h <;> simp at h
  | ext x =>
    simp only [classify] at h
    split at h <;> first | (simp at h; done) | skip
    split at h <;> simp at h
  | alloc a =>
    simp only [classify] at h
    split at h <;> first | (simp at h; done) | skip
    next ki ko hi ho =>
      split at h
      · simp at h
      · next hk =>
        simp only [Except.ok.injEq, Opnd.dup.injEq] at h
        subst h
        have : ki = ko + 1 := by
          simp only [ne_eq, Decidable.not_not] at hk
          exact hk
        subst this
        exact ⟨rfl, ko, hi, ho⟩

/-- otherwise it stays what it is, and it is never read or never written by the stages -/
theorem classify_same {P : List (List SOp)} {v w : Opnd} (h : classify P v = .ok w) (hw : ∀ b, w ≠ .dup b) :
    w = v ∧ (inStages P v = [] ∨ outStages P v = []) := by
  cases v with
  | dup b' =>
    simp only [classify, Except.ok.injEq] at h
    exact absurd h.symm (hw b')
  | tile j =>
    simp only [classify] at h
    split at h
    · next hi => simp only [Except.ok.injEq] at h; exact ⟨h.symm, Or.inl hi⟩
    · next _ ho _ => simp only [Except.ok.injEq] at h; exact ⟨h.symm, Or.inr ho⟩
    · split at h <;> simp at h
    · simp at h
  | ext x =>
    simp only [classify] at h
    split at h
    · next hi => simp only [Except.ok.injEq] at h; exact ⟨h.symm, Or.inl hi⟩
    · next _ ho _ => simp only [Except.ok.injEq] at h; exact ⟨h.symm, Or.inr ho⟩
    · split at h <;> simp at h
    · simp at h
  | alloc a =>
    simp only [classify] at h
    split at h
    · next hi => simp only [Except.ok.injEq] at h; exact ⟨h.symm, Or.inl hi⟩
    · next _ ho _ => simp only [Except.ok.injEq] at h; exact ⟨h.symm, Or.inr ho⟩
    · split at h
      · simp at h
      · simp only [Except.ok.injEq] at h
        exact absurd h.symm (hw a)
    · simp at h

theorem cget_of_ok {P : List (List SOp)} {v w : Opnd} (h : classify P v = .ok w) : cget P v = w := by
  simp [cget, h]

theorem operand_of_touch {tiles : List (Nat × Nat × Bool)} {P : List (List SOp)} {k : Nat} {w : Bool} {v : Opnd}
    (h : (k, w, v) ∈ touches ⟨tiles, P⟩) : v ∈ allOperands P := by
  obtain ⟨hk, op, hop, hv⟩ := mem_touches_iff.mp h
  simp only [allOperands, List.mem_flatMap, List.mem_append]
  have hk' : k < P.length := hk
  have hst : P.getD k [] ∈ P := by
    rw [List.getD_eq_getElem?_getD, List.getElem?_eq_getElem hk', Option.getD_some]
    exact List.getElem_mem _
  refine ⟨_, hst, op, hop, ?_⟩
  rcases hv with ⟨_, hv⟩ | ⟨_, hv⟩
  · exact Or.inl hv
  · exact Or.inr hv

/-- when `duplicate` succeeds its result is the input with every operand replaced by its classification, and every
operand is classified without error -/
theorem duplicate_ok {P st : List (List SOp)} (h : duplicate P = .ok st) :
    st = mapP (cget P) P ∧ ∀ v ∈ allOperands P, ∃ w, classify P v = .ok w := by
  unfold duplicate at h
  split at h
  · simp at h
  · split at h
    · simp at h
    · next hnone =>
      simp only [Except.ok.injEq] at h
      refine ⟨h.symm, ?_⟩
      intro v hv
      have := List.findSome?_eq_none_iff.mp hnone v hv
      cases hc : classify P v with
      | ok w => exact ⟨w, rfl⟩
      | error e => simp [hc] at this

theorem nodup_of_input {P : List (List SOp)} (hnd : inputNoDup P = true) {k : Nat} {w : Bool} {v : Opnd}
    {tiles : List (Nat × Nat × Bool)} (h : (k, w, v) ∈ touches ⟨tiles, P⟩) : ∀ b, v ≠ .dup b := by
  have h' : (k, w, v) ∈ touches ⟨[], P⟩ := by
    rw [mem_touches_iff] at h ⊢
    exact h
  have := List.all_eq_true.mp hnd _ h'
  rintro b rfl
  simp at this

/-- PipelineDuplicateBuffers establishes `dupWF`: a duplicated allocation is not also used directly, and each of its
readers is preceded by its writer stage -/
theorem duplicate_dupWF {tiles : List (Nat × Nat × Bool)} {P st : List (List SOp)} (h : duplicate P = .ok st)
    (hnd : inputNoDup P = true) : dupWF ⟨tiles, st⟩ = true := by
  obtain ⟨rfl, hok⟩ := duplicate_ok h
  unfold dupWF
  rw [List.all_eq_true]
  rintro ⟨k, w, v'⟩ ht
  obtain ⟨v, rfl, hv⟩ := (mem_touches_mapP (tiles' := tiles)).mp ht
  obtain ⟨cw, hcw⟩ := hok v (operand_of_touch hv)
  rw [cget_of_ok hcw]
  cases cw with
  | tile j => rfl
  | ext x => rfl
  | alloc b =>
    simp only [Bool.not_eq_eq_eq_not, Bool.not_true]
    cases hd : dupId ⟨tiles, mapP (cget P) P⟩ b with
    | false => rfl
    | true =>
      exfalso
      unfold dupId at hd
      obtain ⟨⟨k2, w2, v2'⟩, ht2, hb2⟩ := List.any_eq_true.mp hd
      simp only [beq_iff_eq] at hb2
      subst hb2
      obtain ⟨v2, hv2eq, hv2⟩ := (mem_touches_mapP (tiles' := tiles)).mp ht2
      obtain ⟨cw2, hcw2⟩ := hok v2 (operand_of_touch hv2)
      rw [cget_of_ok hcw2] at hv2eq
      subst hv2eq
      have h2 := (classify_dup hcw2 (nodup_of_input hnd hv2)).1
      have h1 := (classify_same hcw (by intro b'; simp)).1
      rw [h2, h1, hcw] at hcw2
      simp at hcw2
  | dup b =>
    cases w with
    | true => rfl
    | false =>
      obtain ⟨hva, ko, hi, ho⟩ := classify_dup hcw (nodup_of_input hnd hv)
      have hk : k ∈ inStages P v := mem_inStages.mpr hv
      rw [hi] at hk
      have hk' : k = ko + 1 := by simpa using hk
      have hko : ko ∈ outStages P v := by rw [ho]; simp
      have hw := (mem_outStages (tiles := tiles)).mp hko
      have hw' : (ko, true, Opnd.dup b) ∈ touches ⟨tiles, mapP (cget P) P⟩ :=
        (mem_touches_mapP (tiles' := tiles)).mpr ⟨v, (cget_of_ok hcw).symm, hw⟩
      simp only [Bool.false_or]
      rw [List.any_eq_true]
      exact ⟨_, hw', by simp [hk']⟩

/-- a value that is never read or never written, touched by two occurrences one of which writes: both write -/
theorem both_write {tiles : List (Nat × Nat × Bool)} {P : List (List SOp)} {v : Opnd} {kx ky : Nat} {wx wy : Bool}
    (hone : inStages P v = [] ∨ outStages P v = [])
    (hx : (kx, wx, v) ∈ touches ⟨tiles, P⟩) (hy : (ky, wy, v) ∈ touches ⟨tiles, P⟩) (hw : (wx || wy) = true) :
    wx = true ∧ wy = true := by
  have hO : outStages P v ≠ [] := by
    cases wx with
    | true => exact List.ne_nil_of_mem (mem_outStages.mpr hx)
    | false =>
      cases wy with
      | true => exact List.ne_nil_of_mem (mem_outStages.mpr hy)
      | false => simp at hw
  have hI : inStages P v = [] := by
    rcases hone with h | h
    · exact h
    · exact absurd h hO
  constructor
  · cases wx with
    | true => rfl
    | false => exact absurd (mem_inStages.mpr hx) (by rw [hI]; simp)
  · cases wy with
    | true => rfl
    | false => exact absurd (mem_inStages.mpr hy) (by rw [hI]; simp)

theorem stage_of_dup {tiles : List (Nat × Nat × Bool)} {P : List (List SOp)} {v : Opnd} {ko k : Nat} {w : Bool}
    (hi : inStages P v = [ko + 1]) (ho : outStages P v = [ko]) (h : (k, w, v) ∈ touches ⟨tiles, P⟩) :
    k = if w then ko else ko + 1 := by
  cases w with
  | true =>
    have := mem_outStages.mpr h
    rw [ho] at this
    simpa using this
  | false =>
    have := mem_inStages.mpr h
    rw [hi] at this
    simpa using this

/-- PipelineDuplicateBuffers establishes `safeB` for every input whose tiles are compatible and whose write-only shared
buffers have one writing stage (`inputOK`) -/
theorem duplicate_safe {tiles : List (Nat × Nat × Bool)} {P st : List (List SOp)} (h : duplicate P = .ok st)
    (hnd : inputNoDup P = true) (hin : inputOK tiles P = true) : safeB ⟨tiles, st⟩ = true := by
  obtain ⟨rfl, hok⟩ := duplicate_ok h
  unfold safeB
  rw [List.all_eq_true]
  rintro ⟨kx, wx, vx'⟩ htx
  rw [List.all_eq_true]
  rintro ⟨ky, wy, vy'⟩ hty
  obtain ⟨vx, rfl, hx⟩ := (mem_touches_mapP (tiles' := tiles)).mp htx
  obtain ⟨vy, rfl, hy⟩ := (mem_touches_mapP (tiles' := tiles)).mp hty
  cases hw : (wx || wy) with
  | false => simp [hw]
  | true =>
    simp only [hw, Bool.not_true, Bool.false_or]
    have hpin : pairIn tiles (kx, wx, vx) (ky, wy, vy) = true := by
      have := List.all_eq_true.mp (List.all_eq_true.mp hin _ hx) _ hy
      simpa [hw] using this
    obtain ⟨cx, hcx⟩ := hok vx (operand_of_touch hx)
    obtain ⟨cy, hcy⟩ := hok vy (operand_of_touch hy)
    rw [cget_of_ok hcx, cget_of_ok hcy]
    have hndx := nodup_of_input hnd hx
    have hndy := nodup_of_input hnd hy
    cases cx with
    | tile j =>
      have hx1 := (classify_same hcx (by intro b; simp)).1
      cases cy with
      | tile j' =>
        have hy1 := (classify_same hcy (by intro b; simp)).1
        subst hx1 hy1
        simpa [pairIn, pairOK] using hpin
      | alloc b => rfl
      | ext b => rfl
      | dup b => rfl
    | ext b =>
      obtain ⟨hx1, hxone⟩ := classify_same hcx (by intro b; simp)
      cases cy with
      | ext b' =>
        obtain ⟨hy1, _⟩ := classify_same hcy (by intro b; simp)
        subst hx1 hy1
        simp only [pairOK, Bool.or_eq_true, bne_iff_ne, ne_eq, beq_iff_eq]
        by_cases hb : b = b'
        · subst hb
          obtain ⟨rfl, rfl⟩ := both_write hxone hx hy hw
          simp only [pairIn, Bool.and_self, Bool.not_true, Bool.false_or, Bool.or_eq_true, bne_iff_ne, ne_eq,
            not_true_eq_false, false_or, beq_iff_eq] at hpin
          exact Or.inr hpin
        · exact Or.inl hb
      | tile j => rfl
      | alloc b' => rfl
      | dup b' => rfl
    | alloc b =>
      obtain ⟨hx1, hxone⟩ := classify_same hcx (by intro b; simp)
      cases cy with
      | alloc b' =>
        obtain ⟨hy1, _⟩ := classify_same hcy (by intro b; simp)
        subst hx1 hy1
        simp only [pairOK, Bool.or_eq_true, bne_iff_ne, ne_eq, beq_iff_eq]
        by_cases hb : b = b'
        · subst hb
          obtain ⟨rfl, rfl⟩ := both_write hxone hx hy hw
          simp only [pairIn, Bool.and_self, Bool.not_true, Bool.false_or, Bool.or_eq_true, bne_iff_ne, ne_eq,
            not_true_eq_false, false_or, beq_iff_eq] at hpin
          exact Or.inr hpin
        · exact Or.inl hb
      | dup b' =>
        have hy1 := (classify_dup hcy hndy).1
        subst hx1 hy1
        simp only [pairOK, bne_iff_ne, ne_eq]
        rintro rfl
        rw [hcx] at hcy
        simp at hcy
      | tile j => rfl
      | ext b' => rfl
    | dup b =>
      obtain ⟨hx1, ko, hi, ho⟩ := classify_dup hcx hndx
      cases cy with
      | alloc b' =>
        have hy1 := (classify_same hcy (by intro b; simp)).1
        subst hx1 hy1
        simp only [pairOK, bne_iff_ne, ne_eq]
        rintro rfl
        rw [hcx] at hcy
        simp at hcy
      | dup b' =>
        have hy1 := (classify_dup hcy hndy).1
        subst hx1 hy1
        simp only [pairOK, Bool.or_eq_true, bne_iff_ne, ne_eq]
        by_cases hb : b = b'
        · subst hb
          have ex := stage_of_dup hi ho hx
          have ey := stage_of_dup hi ho hy
          right
          cases wx <;> cases wy <;> simp at hw ⊢ <;> simp at ex ey <;> omega
        · exact Or.inl hb
      | tile j => rfl
      | ext b' => rfl

/-- both side conditions at once -/
theorem duplicate_establishes {tiles : List (Nat × Nat × Bool)} {P st : List (List SOp)} (h : duplicate P = .ok st)
    (hnd : inputNoDup P = true) :
    dupWF ⟨tiles, st⟩ = true ∧ (inputOK tiles P = true → safeB ⟨tiles, st⟩ = true) :=
  ⟨duplicate_dupWF h hnd, duplicate_safe h hnd⟩

end SnaxVerif.Pipeline
