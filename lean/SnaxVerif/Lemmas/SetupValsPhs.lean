import SnaxVerif.Lemmas.SetupVals
import SnaxVerif.Lemmas.Phs
import SnaxVerif.Model.SetupValsPhs
/-! Helper lemmas for the PHS part of C08. -/
namespace SnaxVerif.SV

/-- `decode_abstract_graph` yields one value per `get_true_switches()` (re-derived from the shared PHS lemmas; the
same statement is C20's `switch_count`) -/
theorem decode_length (A K : Phs.PE) (sw : List Nat) (hA : A.wf = true) (h : Phs.decode A K = .ok sw) :
    sw.length = A.trueSwitches := by
  obtain ⟨_, _, pre, m, hpre, _, hsw⟩ := Phs.decode_ok h
  rw [hsw]
  exact Phs.finalVals_length A K m (fun j a ha => (Phs.wf_node hA ha).1) A.switches 0 pre hpre

theorem phs_extends (cfg : List Streamer) (op : StreamOp) (sw : List Nat) (f : Field) (d : Den)
    (h : streamMeaning cfg op f = some d) : phsMeaning cfg op sw f = some d := by
  cases f <;> simp_all [phsMeaning, streamMeaning]

theorem phsVals_aligned (v : Variant) (cfg : List Streamer) (op : StreamOp) (A : Phs.PE)
    (K : Except Phs.Err Phs.PE) (vs : List Val) (h : phsVals v cfg op A K = .ok vs) (hA : A.wf = true)
    (hok : v.loopAllDims = true ∨ ∀ p, op.pats[0]? = some p → p.dims.length = 1) :
    ∃ k sw, K = .ok k ∧ Phs.decode A k = .ok sw ∧ Aligned (phsMeaning cfg op sw) (phsFields cfg A) vs := by
  unfold phsVals at h
  cases hb : firstBound v op with
  | error e => simp [hb] at h
  | ok lb =>
    cases hs : streamerVals cfg op with
    | error e => simp [hb, hs] at h
    | ok sv =>
      cases K with
      | error e => simp [hb, hs] at h
      | ok k =>
        cases hd : Phs.decode A k with
        | error e => simp [hb, hs, hd] at h
        | ok sw =>
          simp only [hb, hs, hd] at h
          injection h with h
          subst h
          refine ⟨k, sw, rfl, hd, ?_⟩
          unfold phsFields
          refine Aligned.append (Aligned.append ?_ ?_) ?_
          · exact (streamerVals_aligned cfg op sv hs).mono (phs_extends cfg op sw)
          · have := idx_map_aligned (m := phsMeaning cfg op sw) sw Field.phsSwitch
              (fun (x : Nat) => Val.c (Int.ofNat x)) (fun i a ha => by simp [phsMeaning, ha]; rfl)
            rw [decode_length A k sw hA hd] at this
            exact this
          · cases hp : op.pats[0]? with
            | none => unfold firstBound at hb; simp [hp] at hb
            | some p =>
              have hlb := firstBound_steps v op lb p hb hp (hok.imp id (fun h => h p hp))
              subst hlb
              apply Aligned.single
              simp [phsMeaning, hp]; rfl

end SnaxVerif.SV
