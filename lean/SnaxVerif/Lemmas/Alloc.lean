import SnaxVerif.Model.Alloc
/-! Helper lemmas for C11 (allocation size, static bump allocator, lifetimes, placement). Core Lean only. -/
deriving instance DecidableEq for Except

namespace SnaxVerif.Alloc

/-! ## size -/

theorem dimAddr_le_span : ∀ (ss bs : List Nat) (i : Nat), i < prodL bs →
    ((dimAddr ss bs i : Nat) : Int) ≤ dimSpan ss bs
  | [], _, _, _ => by simp [dimAddr, dimSpan]
  | _ :: _, [], _, _ => by simp [dimAddr, dimSpan]
  | s :: ss, b :: bs, i, h => by
    simp only [prodL] at h
    have hP : 0 < prodL bs := by
      rcases Nat.eq_zero_or_pos (prodL bs) with h0 | h0
      · rw [h0] at h; omega
      · exact h0
    have hd : i / prodL bs < b := (Nat.div_lt_iff_lt_mul hP).2 h
    have hr : i % prodL bs < prodL bs := Nat.mod_lt _ hP
    have ih := dimAddr_le_span ss bs (i % prodL bs) hr
    simp only [dimAddr, dimSpan]
    have h1 : ((i / prodL bs : Nat) : Int) * (s : Int) ≤ ((b : Int) - 1) * (s : Int) :=
      Int.mul_le_mul_of_nonneg_right (by omega) (by omega)
    rw [Int.natCast_add, Int.natCast_mul]
    omega

/-- idx inside the box spanned by the resolved bounds (same rank) -/
def InBox : List (List Nat) → List Nat → Prop
  | b :: bs, i :: is => i < prodL b ∧ InBox bs is
  | [], [] => True
  | _, _ => False

theorem byteAddr_le_span : ∀ (ss bs : List (List Nat)) (idx : List Nat), InBox bs idx →
    ((byteAddr ss bs idx : Nat) : Int) ≤ spanAll ss bs
  | [], _, _, _ => by simp [byteAddr, spanAll]
  | _ :: _, [], [], _ => by simp [byteAddr, spanAll]
  | _ :: _, [], _ :: _, h => by simp [InBox] at h
  | _ :: _, _ :: _, [], h => by simp [InBox] at h
  | s :: ss, b :: bs, i :: is, h => by
    obtain ⟨h1, h2⟩ := h
    have := dimAddr_le_span s b i h1
    have := byteAddr_le_span ss bs is h2
    simp only [byteAddr, spanAll]
    rw [Int.natCast_add]
    omega

theorem inBox_of_covers : ∀ (bs : List (List Nat)) (sh idx : List Nat),
    CoversB bs sh → InShape idx sh → InBox bs idx
  | [], [], [], _, _ => by simp [InBox]
  | [], [], _ :: _, _, h => by simp [InShape] at h
  | [], _ :: _, _, h, _ => by simp [CoversB] at h
  | _ :: _, [], _, h, _ => by simp [CoversB] at h
  | _ :: _, _ :: _, [], _, h => by simp [InShape] at h
  | b :: bs, n :: ns, i :: is, hc, hi => by
    obtain ⟨hc1, hc2⟩ := hc
    obtain ⟨hi1, hi2⟩ := hi
    exact ⟨by omega, inBox_of_covers bs ns is hc2 hi2⟩

theorem prodL_pos_filter : ∀ (l : List Nat), 0 < prodL l → l.filter (· ≠ 0) = l
  | [], _ => rfl
  | x :: xs, h => by
    simp only [prodL] at h
    have hx : x ≠ 0 := by intro h0; subst h0; simp at h
    have hxs : 0 < prodL xs := by
      rcases Nat.eq_zero_or_pos (prodL xs) with h0 | h0
      · rw [h0] at h; simp at h
      · exact h0
    rw [List.filter_cons]
    simp only [ne_eq, hx, not_false_eq_true, decide_true, if_true]
    rw [prodL_pos_filter xs hxs]

theorem innerBounds_filterMap : ∀ (rest : List Stride) (ib : List Nat),
    innerBounds rest = .ok ib → rest.filterMap (·.bound) = ib
  | [], ib, h => by simp [innerBounds] at h; subst h; rfl
  | s :: rest, ib, h => by
    simp only [innerBounds] at h
    cases hb : s.bound with
    | none => simp [hb] at h
    | some b =>
      simp only [hb] at h
      cases hr : innerBounds rest with
      | error e => simp [hr, Except.map] at h
      | ok r =>
        simp [hr, Except.map] at h
        subst h
        simp [hb, innerBounds_filterMap rest r hr]

theorem boundsDim_covers (t : TStride) (n : Nat) (b : List Nat)
    (hb : boundsDim t n = .ok b) (hc : DimCovered t n) : n ≤ prodL b := by
  cases t with
  | nil => simp [DimCovered] at hc
  | cons s0 rest =>
    simp only [boundsDim] at hb
    simp only [DimCovered] at hc
    cases h0 : s0.bound with
    | some b0 =>
      simp only [h0] at hb hc
      obtain ⟨ib, hib, hle⟩ := hc
      simp [hib, Except.map] at hb
      subst hb
      simpa [prodL] using hle
    | none =>
      simp only [h0] at hb hc
      obtain ⟨ib, hib, hpos, hdvd⟩ := hc
      simp [hib, Except.map] at hb
      subst hb
      have hsp : staticProd (s0 :: rest) = prodL ib := by
        unfold staticProd
        simp only [List.filterMap_cons, h0]
        rw [innerBounds_filterMap rest ib hib, prodL_pos_filter ib hpos]
      simp only [prodL, hsp]
      rw [Nat.div_mul_cancel hdvd]
      exact Nat.le_refl _

theorem boundsAll_covers : ∀ (dims : List TStride) (sh : List Nat) (bs : List (List Nat)),
    boundsAll dims sh = .ok bs → LayoutCovers dims sh → CoversB bs sh
  | [], [], bs, h, _ => by simp [boundsAll] at h; subst h; simp [CoversB]
  | [], _ :: _, _, _, hc => by simp [LayoutCovers] at hc
  | _ :: _, [], _, _, hc => by simp [LayoutCovers] at hc
  | t :: ts, n :: ns, bs, h, hc => by
    obtain ⟨hc1, hc2⟩ := hc
    simp only [boundsAll] at h
    cases hb : boundsDim t n with
    | error e => simp [hb] at h
    | ok b =>
      simp only [hb] at h
      cases hr : boundsAll ts ns with
      | error e => simp [hr, Except.map] at h
      | ok r =>
        simp [hr, Except.map] at h
        subst h
        exact ⟨boundsDim_covers t n b hb hc1, boundsAll_covers ts ns r hr hc2⟩

theorem rowMajor_lt : ∀ (sh idx : List Nat), InShape idx sh → rowMajor sh idx < prodL sh
  | [], [], _ => by simp [rowMajor, prodL]
  | [], _ :: _, h => by simp [InShape] at h
  | _ :: _, [], h => by simp [InShape] at h
  | n :: ns, i :: is, h => by
    obtain ⟨h1, h2⟩ := h
    have ih := rowMajor_lt ns is h2
    simp only [rowMajor, prodL]
    have : (i + 1) * prodL ns ≤ n * prodL ns := Nat.mul_le_mul_right _ h1
    rw [Nat.add_mul] at this
    omega

/-! ## static bump allocator -/

theorem roundUp_ge (a al : Nat) : a ≤ roundUp a al := by unfold roundUp; split <;> omega

theorem roundUp_aligned (a al : Nat) (h : 0 < al) : roundUp a al % al = 0 := by
  unfold roundUp
  split
  · have := Nat.mod_lt a h
    have e : a + (al - a % al) = (a / al + 1) * al := by
      have := Nat.div_add_mod a al
      rw [Nat.add_mul, Nat.one_mul, Nat.mul_comm]; omega
    rw [e]; exact Nat.mul_mod_left _ _
  · omega

/-- what one successful `staticStep` guarantees -/
theorem staticStep_spec (mems : List Mem) (cur : Nat → Nat) (r : Req) (p : Placed) (cur' : Nat → Nat)
    (h : staticStep mems cur r = .ok (p, cur')) :
    r.mem = some p.mem ∧ r.size = some p.size ∧ r.align = p.align ∧ 0 < p.align ∧
    cur p.mem ≤ p.addr ∧ p.addr % p.align = 0 ∧
    (∃ mem, mems[p.mem]? = some mem ∧ p.addr + p.size ≤ mem.start + mem.cap) ∧
    cur' p.mem = p.addr + p.size ∧ (∀ k, k ≠ p.mem → cur' k = cur k) := by
  unfold staticStep at h
  split at h
  · simp at h
  · rename_i size hsize
    split at h
    · simp at h
    · rename_i m hm
      split at h
      · simp at h
      · rename_i mem hmem
        split at h
        · simp at h
        · rename_i hal
          simp only at h
          split at h
          · simp at h
          · rename_i hfit
            simp only [Except.ok.injEq, Prod.mk.injEq] at h
            obtain ⟨hp, hc⟩ := h
            subst hp hc
            have hpos : 0 < r.align := Nat.pos_of_ne_zero hal
            refine ⟨hm, hsize, rfl, hpos, roundUp_ge _ _, roundUp_aligned _ _ hpos,
              ⟨mem, hmem, by simp only; omega⟩, by simp, ?_⟩
            intro k hk
            simp [hk]

theorem staticRun_spec (mems : List Mem) : ∀ (reqs : List Req) (cur : Nat → Nat) (out : List Placed),
    staticRun mems cur reqs = .ok out →
    (∀ p ∈ out, cur p.mem ≤ p.addr ∧ 0 < p.align ∧ p.addr % p.align = 0 ∧
        ∃ mem, mems[p.mem]? = some mem ∧ p.addr + p.size ≤ mem.start + mem.cap) ∧
    out.Pairwise (fun p q => p.mem = q.mem → p.addr + p.size ≤ q.addr) ∧
    out.map (fun p => (some p.mem, some p.size, p.align)) = reqs.map (fun r => (r.mem, r.size, r.align))
  | [], cur, out, h => by simp [staticRun] at h; subst h; simp
  | r :: rest, cur, out, h => by
    simp only [staticRun] at h
    cases hs : staticStep mems cur r with
    | error e => simp [hs] at h
    | ok pc =>
      obtain ⟨p, cur'⟩ := pc
      simp only [hs] at h
      cases hr : staticRun mems cur' rest with
      | error e => simp [hr, Except.map] at h
      | ok tl =>
        simp [hr, Except.map] at h
        subst h
        obtain ⟨hin, hpw, hmap⟩ := staticRun_spec mems rest cur' tl hr
        obtain ⟨hm, hsz, hal, hpos, hge, hmod, hcap, hc1, hc2⟩ := staticStep_spec mems cur r p cur' hs
        refine ⟨?_, ?_, ?_⟩
        · intro q hq
          simp only [List.mem_cons] at hq
          rcases hq with rfl | hq
          · exact ⟨hge, hpos, hmod, hcap⟩
          · obtain ⟨h1, h2, h3, h4⟩ := hin q hq
            refine ⟨?_, h2, h3, h4⟩
            by_cases hk : q.mem = p.mem
            · rw [hk] at h1 ⊢; rw [hc1] at h1; omega
            · rw [hc2 _ hk] at h1; exact h1
        · simp only [List.pairwise_cons]
          refine ⟨?_, hpw⟩
          intro q hq hmem
          obtain ⟨h1, _⟩ := hin q hq
          rw [← hmem, hc1] at h1
          exact h1
        · simp [hmap, hm, hsz, hal]

/-! ## lifetimes -/

theorem aliasScan_mono : ∀ (fl : List (Node × Nat)) (S : List Nat) (x : Nat), x ∈ S → x ∈ aliasScan S fl
  | [], _, _, h => h
  | (n, _) :: rest, S, x, h => by
    simp only [aliasScan]
    apply aliasScan_mono
    split
    · exact List.mem_append_right _ h
    · exact h

theorem usesAny_of_mem {S : List Nat} {n : Node} {w : Nat} (hw : w ∈ n.ops) (hS : w ∈ S) :
    usesAny S n = true := by
  unfold usesAny
  rw [List.any_eq_true]
  exact ⟨w, hw, by simpa using hS⟩

theorem closed_alias (S : List Nat) (fl : List (Node × Nat)) (r : Nat) (hc : closed S fl = true)
    (hr : r ∈ S) : ∀ v, Alias fl r v → v ∈ S := by
  intro v h
  induction h with
  | base => exact hr
  | step hmem hf hw _ hv ih =>
    unfold closed at hc
    rw [List.all_eq_true] at hc
    have := hc _ hmem
    simp only [hf, usesAny_of_mem hw ih, Bool.and_self, Bool.not_true, Bool.false_or,
      List.all_eq_true] at this
    simpa using this _ hv

theorem aliasSet_fixed_covers (r : Nat) (fl : List (Node × Nat)) (S : List Nat)
    (h : aliasSet .fixed r fl = .ok S) : ∀ v, Alias fl r v → v ∈ S := by
  simp only [aliasSet] at h
  split at h
  · rename_i hc
    simp only [Except.ok.injEq] at h
    subst h
    exact closed_alias _ fl r hc (aliasScan_mono fl [r] r (by simp))
  · simp at h

theorem mem_useTops {S : List Nat} {fl : List (Node × Nat)} {n : Node} {t : Nat}
    (h : (n, t) ∈ fl) (hu : usesAny S n = true) : t ∈ useTops S fl := by
  unfold useTops
  rw [List.mem_map]
  exact ⟨(n, t), List.mem_filter.2 ⟨h, hu⟩, rfl⟩

theorem le_endTime : ∀ (tops : List Nat) (s : Nat), s ≤ endTime s tops ∧ ∀ t ∈ tops, t ≤ endTime s tops
  | [], s => by simp [endTime]
  | x :: xs, s => by
    have ih := le_endTime xs (max s x)
    simp only [endTime, List.foldl_cons] at ih ⊢
    refine ⟨by omega, ?_⟩
    intro t ht
    simp only [List.mem_cons] at ht
    rcases ht with rfl | ht
    · omega
    · exact ih.2 t ht

/-- what the first loop of `MiniMallocate` records for each buffer -/
theorem buffersFrom_spec (vm : ViewMode) (fl : List (Node × Nat)) :
    ∀ (p : Prog) (k : Nat) (bs : List Buf), buffersFrom vm fl p k = .ok bs →
    ∀ b ∈ bs, ∃ j res req fu S, p[j]? = some (.alloc res req fu) ∧ b.start = k + j ∧ b.res = res ∧
      req.size = some b.size ∧ req.mem = some b.mem ∧ b.align = req.align ∧
      aliasSet vm res fl = .ok S ∧ b.stop = endTime b.start (useTops S fl)
  | [], k, bs, h => by simp [buffersFrom] at h; subst h; simp
  | .op nodes t :: rest, k, bs, h => by
    simp only [buffersFrom] at h
    intro b hb
    obtain ⟨j, res, req, fu, S, h1, h2, h3⟩ := buffersFrom_spec vm fl rest (k + 1) bs h b hb
    exact ⟨j + 1, res, req, fu, S, by simpa using h1, by omega, h3⟩
  | .alloc res req fu :: rest, k, bs, h => by
    simp only [buffersFrom] at h
    cases hm : mkBuf vm fl k res req with
    | error e => simp [hm] at h
    | ok b0 =>
      simp only [hm] at h
      cases hr : buffersFrom vm fl rest (k + 1) with
      | error e => simp [hr, Except.map] at h
      | ok tl =>
        simp [hr, Except.map] at h
        subst h
        intro b hb
        simp only [List.mem_cons] at hb
        rcases hb with rfl | hb
        · unfold mkBuf at hm
          split at hm
          · simp at hm
          · rename_i size hsize
            split at hm
            · simp at hm
            · rename_i m hmem
              split at hm
              · simp at hm
              · rename_i S hS
                simp only [Except.ok.injEq] at hm
                subst hm
                exact ⟨0, res, req, fu, S, by simp, by simp, rfl, hsize, hmem, rfl, hS, rfl⟩
        · obtain ⟨j, res', req', fu', S, h1, h2, h3⟩ := buffersFrom_spec vm fl rest (k + 1) tl hr b hb
          exact ⟨j + 1, res', req', fu', S, by simpa using h1, by omega, h3⟩

/-- the second loop only fills in the value to deallocate -/
theorem attachCasts_spec : ∀ (bs : List Buf) (fus : List (Option (Option Nat))) (bs' : List Buf),
    attachCasts bs fus = .ok bs' → ∀ b' ∈ bs', ∃ b ∈ bs, ∃ v, b' = { b with castRes := v }
  | [], _, bs', h => by simp [attachCasts] at h; subst h; simp
  | _ :: _, [], _, h => by simp [attachCasts] at h
  | b :: bs, fu :: fus, bs', h => by
    simp only [attachCasts] at h
    split at h
    · simp at h
    · simp at h
    · rename_i v
      cases hr : attachCasts bs fus with
      | error e => simp [hr, Except.map] at h
      | ok tl =>
        simp [hr, Except.map] at h
        subst h
        intro b' hb'
        simp only [List.mem_cons] at hb'
        rcases hb' with rfl | hb'
        · exact ⟨b, by simp, v, rfl⟩
        · obtain ⟨b0, hb0, v0, h0⟩ := attachCasts_spec bs fus tl hr b' hb'
          exact ⟨b0, by simp [hb0], v0, h0⟩

/-- everything `lifetimes` guarantees about a buffer it returns -/
theorem lifetimes_spec (vm : ViewMode) (p : Prog) (bs : List Buf) (h : lifetimes vm p = .ok bs) :
    ∀ b ∈ bs, ∃ res req fu S, p[b.start]? = some (.alloc res req fu) ∧ b.res = res ∧
      req.size = some b.size ∧ req.mem = some b.mem ∧ b.align = req.align ∧
      aliasSet vm res (flat p) = .ok S ∧ b.stop = endTime b.start (useTops S (flat p)) := by
  unfold lifetimes at h
  split at h
  · simp at h
  · rename_i bs0 hbs0
    intro b hb
    obtain ⟨b0, hb0, v, hv⟩ := attachCasts_spec bs0 _ bs h b hb
    obtain ⟨j, res, req, fu, S, h1, h2, h3, h4, h5, h6, h7, h8⟩ := buffersFrom_spec vm (flat p) p 0 bs0 hbs0 b0 hb0
    subst hv
    simp only [Nat.zero_add] at h2
    exact ⟨res, req, fu, S, by simpa [h2] using h1, h3, h4, h5, h6, h7, h8⟩

/-- operations that use values sit in `op` top-level operations -/
theorem flatFrom_spec : ∀ (p : Prog) (k : Nat) (n : Node) (u : Nat), (n, u) ∈ flatFrom p k →
    ∃ j nodes t, u = k + j ∧ p[j]? = some (.op nodes t) ∧ n ∈ nodes
  | [], _, _, _, h => by simp [flatFrom] at h
  | .alloc .. :: rest, k, n, u, h => by
    simp only [flatFrom] at h
    obtain ⟨j, nodes, t, h1, h2, h3⟩ := flatFrom_spec rest (k + 1) n u h
    exact ⟨j + 1, nodes, t, by omega, by simpa using h2, h3⟩
  | .op nodes t :: rest, k, n, u, h => by
    simp only [flatFrom, List.mem_append, List.mem_map] at h
    rcases h with ⟨n', hn', heq⟩ | h
    · simp only [Prod.mk.injEq] at heq
      obtain ⟨rfl, rfl⟩ := heq
      exact ⟨0, nodes, t, by simp, by simp, hn'⟩
    · obtain ⟨j, nodes', t', h1, h2, h3⟩ := flatFrom_spec rest (k + 1) n u h
      exact ⟨j + 1, nodes', t', by omega, by simpa using h2, h3⟩

/-! ## placement -/

theorem findOff_mem (z : List (Buf × Nat)) (b : Buf) (off : Nat) (h : findOff z b = some off) :
    (b, off) ∈ z := by
  unfold findOff at h
  cases hf : z.find? (fun x => decide (x.1 = b)) with
  | none => simp [hf] at h
  | some x =>
    simp only [hf, Option.map_some, Option.some.injEq] at h
    have h1 := List.find?_some hf
    have h2 := List.mem_of_find?_eq_some hf
    simp only [decide_eq_true_eq] at h1
    obtain ⟨x1, x2⟩ := x
    simp only at h1 h
    subst h1 h
    exact h2

theorem placeOne_spec (mems : List Mem) (sol : Nat → List Nat) (all : List Buf) (b : Buf) (P : Placed)
    (h : placeOne mems sol all b = .ok P) :
    ∃ mem off, mems[b.mem]? = some mem ∧ (b, off) ∈ (subset all b.mem).zip (sol b.mem) ∧
      P = ⟨b.mem, off + mem.start, b.size, b.align⟩ := by
  unfold placeOne at h
  split at h
  · simp at h
  · rename_i mem hmem
    split at h
    · simp at h
    · rename_i off hoff
      simp only [Except.ok.injEq] at h
      exact ⟨mem, off, hmem, findOff_mem _ b off hoff, h.symm⟩

theorem placeAll_spec (mems : List Mem) (sol : Nat → List Nat) (all : List Buf) :
    ∀ (bs : List Buf) (pl : List (Buf × Placed)), placeAll mems sol all bs = .ok pl →
    pl.map (·.1) = bs ∧ ∀ x ∈ pl, placeOne mems sol all x.1 = .ok x.2
  | [], pl, h => by simp [placeAll] at h; subst h; simp
  | b :: rest, pl, h => by
    simp only [placeAll] at h
    cases hp : placeOne mems sol all b with
    | error e => simp [hp] at h
    | ok P =>
      simp only [hp] at h
      cases hr : placeAll mems sol all rest with
      | error e => simp [hr, Except.map] at h
      | ok tl =>
        simp [hr, Except.map] at h
        subst h
        obtain ⟨h1, h2⟩ := placeAll_spec mems sol all rest tl hr
        refine ⟨by simp [h1], ?_⟩
        intro x hx
        simp only [List.mem_cons] at hx
        rcases hx with rfl | hx
        · exact hp
        · exact h2 x hx

theorem contractOk_sound (bufs : List Buf) (cap : Nat) (offs : List Nat)
    (h : contractOk bufs cap offs = true) : SolverContract bufs cap offs := by
  unfold contractOk at h
  simp only [Bool.and_eq_true, decide_eq_true_eq, List.all_eq_true, Bool.or_eq_true,
    Bool.not_eq_true'] at h
  obtain ⟨hlen, hall⟩ := h
  refine ⟨hlen, ?_, ?_⟩
  · intro p hp
    exact (hall p hp).1
  · intro p hp q hq hne hov
    have := (hall p hp).2 q hq
    rcases this with (heq | hno) | hd
    · exact absurd heq hne
    · unfold overlapLife at hno
      simp only [decide_eq_false_iff_not] at hno
      exact absurd hov hno
    · unfold disjointRange at hd
      simp only [Bool.or_eq_true, decide_eq_true_eq] at hd
      exact hd

/-! ## the first-fit solver satisfies the contract -/

theorem alignUp_mod (off a : Nat) : alignUp off a % a = 0 := by
  unfold alignUp; exact Nat.mul_mod_left _ _

theorem findSlot_spec (b : Buf) (a : Nat) (placed : List (Buf × Nat)) :
    ∀ (fuel off o : Nat), findSlot b a placed fuel off = some o →
      o % a = 0 ∧ ∀ p ∈ placed, clashWith b o p = false
  | 0, _, _, h => by simp [findSlot] at h
  | fuel + 1, off, o, h => by
    simp only [findSlot] at h
    split at h
    · rename_i hnone
      simp only [Option.some.injEq] at h
      subst h
      refine ⟨alignUp_mod off a, ?_⟩
      intro p hp
      have := List.find?_eq_none.1 hnone p hp
      simpa using this
    · exact findSlot_spec b a placed fuel _ o h

/-- two placed buffers do not conflict -/
def NoClash (p q : Buf × Nat) : Prop :=
  p.1 ≠ q.1 → max p.1.start q.1.start < min p.1.stop q.1.stop →
    p.2 + p.1.size ≤ q.2 ∨ q.2 + q.1.size ≤ p.2

/-- invariant of the placement loop -/
def Good (cap : Nat) (L : List (Buf × Nat)) : Prop :=
  (∀ p ∈ L, p.2 + p.1.size ≤ cap ∧ (0 < p.1.align → p.2 % p.1.align = 0)) ∧
  (∀ p ∈ L, ∀ q ∈ L, NoClash p q)

theorem noClash_of_clashWith {b : Buf} {o : Nat} {p : Buf × Nat} (h : clashWith b o p = false) :
    NoClash (b, o) p ∧ NoClash p (b, o) := by
  unfold clashWith overlapLife disjointRange at h
  simp only [Bool.and_eq_false_iff, decide_eq_false_iff_not, Bool.not_eq_false', Bool.or_eq_true,
    decide_eq_true_eq] at h
  constructor
  · intro _ hov
    simp only at hov ⊢
    rcases h with h | h
    · omega
    · omega
  · intro _ hov
    simp only at hov ⊢
    rcases h with h | h
    · omega
    · omega

theorem firstFitAux_spec (cap : Nat) : ∀ (bufs : List Buf) (placed : List (Buf × Nat)) (offs : List Nat),
    Good cap placed → firstFitAux cap bufs placed = .ok offs →
    offs.length = bufs.length ∧ Good cap (placed ++ bufs.zip offs)
  | [], placed, offs, hg, h => by
    simp [firstFitAux] at h; subst h; simpa using hg
  | b :: rest, placed, offs, hg, h => by
    simp only [firstFitAux] at h
    split at h
    · simp at h
    · rename_i off hslot
      split at h
      · simp at h
      · rename_i hcap
        cases hr : firstFitAux cap rest (placed ++ [(b, off)]) with
        | error e => simp [hr, Except.map] at h
        | ok tl =>
          simp [hr, Except.map] at h
          subst h
          obtain ⟨hmod, hno⟩ := findSlot_spec b (max 1 b.align) placed _ 0 off hslot
          have hg' : Good cap (placed ++ [(b, off)]) := by
            refine ⟨?_, ?_⟩
            · intro p hp
              simp only [List.mem_append, List.mem_singleton] at hp
              rcases hp with hp | rfl
              · exact hg.1 p hp
              · refine ⟨by simp only; omega, ?_⟩
                intro hal
                simp only at hal ⊢
                have : max 1 b.align = b.align := by omega
                rw [this] at hmod
                exact hmod
            · intro p hp q hq
              simp only [List.mem_append, List.mem_singleton] at hp hq
              rcases hp with hp | rfl
              · rcases hq with hq | rfl
                · exact hg.2 p hp q hq
                · exact (noClash_of_clashWith (hno p hp)).2
              · rcases hq with hq | rfl
                · exact (noClash_of_clashWith (hno q hq)).1
                · intro hne; exact absurd rfl hne
          obtain ⟨hlen, hgood⟩ := firstFitAux_spec cap rest _ tl hg' hr
          refine ⟨by simp [hlen], ?_⟩
          simpa [List.append_assoc] using hgood

theorem good_nil (cap : Nat) : Good cap [] := by
  constructor <;> intro p hp <;> simp at hp

/-- Every answer of the first-fit solver satisfies the safety part of the contract, and the
alignment part for every buffer with a non-zero alignment. -/
theorem firstFit_spec (bufs : List Buf) (cap : Nat) (offs : List Nat) (h : firstFit bufs cap = .ok offs) :
    SolverSafe bufs cap offs ∧ ∀ p ∈ bufs.zip offs, 0 < p.1.align → p.2 % p.1.align = 0 := by
  obtain ⟨hlen, hg⟩ := firstFitAux_spec cap bufs [] offs (good_nil cap) h
  simp only [List.nil_append] at hg
  refine ⟨⟨hlen, fun p hp => (hg.1 p hp).1, ?_⟩, fun p hp => (hg.1 p hp).2⟩
  intro p hp q hq hne hov
  exact hg.2 p hp q hq hne hov

theorem solverSafe_of_contract {bufs : List Buf} {cap : Nat} {offs : List Nat}
    (h : SolverContract bufs cap offs) : SolverSafe bufs cap offs :=
  ⟨h.1, fun p hp => (h.2.1 p hp).2, h.2.2⟩

theorem ffErrors_ok (mems : List Mem) (bs : List Buf) : ∀ (n : Nat), ffErrors mems bs n = .ok () →
    ∀ m, m < n → ∀ mem, mems[m]? = some mem → ∃ offs, firstFit (subset bs m) mem.cap = .ok offs
  | 0, _, m, hm, _, _ => by omega
  | n + 1, h, m, hm, mem, hmem => by
    simp only [ffErrors] at h
    split at h
    · simp at h
    · rename_i hprev
      by_cases hmn : m = n
      · subst hmn
        simp only [hmem] at h
        split at h
        · rename_i offs hoffs; exact ⟨offs, hoffs⟩
        · simp at h
      · exact ffErrors_ok mems bs n (by cases ‹Unit›; exact hprev) m (by omega) mem hmem

theorem miniMallocate_bufs (vm : ViewMode) (mems : List Mem) (sol : Nat → List Nat) (p : Prog) (r : MiniResult)
    (h : miniMallocate vm mems sol p = .ok r) : lifetimes vm p = .ok r.bufs := by
  unfold miniMallocate at h
  split at h
  · simp at h
  · rename_i bs hbs
    split at h
    · simp at h
    · split at h
      · simp at h
      · simp only [Except.ok.injEq] at h
        subst h
        exact hbs

/-! ## the first-fit search terminates: the fuel of the model is never used up -/

theorem alignUp_ge (off a : Nat) (h : 0 < a) : off ≤ alignUp off a := by
  unfold alignUp
  have h1 := Nat.div_add_mod (off + a - 1) a
  have h2 := Nat.mod_lt (off + a - 1) h
  have h3 : (off + a - 1) / a * a = a * ((off + a - 1) / a) := Nat.mul_comm _ _
  omega

theorem filter_length_le_of_imp {α} (P Q : α → Bool) : ∀ (l : List α), (∀ x ∈ l, P x = true → Q x = true) →
    (l.filter P).length ≤ (l.filter Q).length
  | [], _ => by simp
  | x :: xs, h => by
    have ih := filter_length_le_of_imp P Q xs (fun y hy => h y (List.mem_cons_of_mem _ hy))
    have hx := h x (by simp)
    simp only [List.filter_cons]
    cases hp : P x with
    | false =>
      cases hq : Q x with
      | false => simpa using ih
      | true => simp only [Bool.false_eq_true, if_false, if_true, List.length_cons]; omega
    | true =>
      rw [hx hp]
      simpa using ih

theorem filter_length_lt {α} (P Q : α → Bool) : ∀ (l : List α), (∀ x ∈ l, P x = true → Q x = true) →
    ∀ x0 ∈ l, Q x0 = true → P x0 = false → (l.filter P).length < (l.filter Q).length
  | [], _, _, h0, _, _ => by simp at h0
  | x :: xs, h, x0, h0, hq0, hp0 => by
    have hle := filter_length_le_of_imp P Q xs (fun y hy => h y (List.mem_cons_of_mem _ hy))
    simp only [List.mem_cons] at h0
    simp only [List.filter_cons]
    rcases h0 with rfl | h0
    · rw [hp0, hq0]
      simp only [Bool.false_eq_true, if_false, if_true, List.length_cons]
      omega
    · have ih := filter_length_lt P Q xs (fun y hy => h y (List.mem_cons_of_mem _ hy)) x0 h0 hq0 hp0
      have hx := h x (by simp)
      cases hp : P x with
      | false =>
        cases hq : Q x with
        | false => simpa using ih
        | true => simp only [Bool.false_eq_true, if_false, if_true, List.length_cons]; omega
      | true =>
        rw [hx hp]
        simpa using ih

/-- number of placed buffers that end above `off`: only those can still clash -/
def pend (placed : List (Buf × Nat)) (off : Nat) : Nat :=
  (placed.filter fun p => decide (off < p.2 + p.1.size)).length

theorem clash_lt {b : Buf} {off : Nat} {p : Buf × Nat} (h : clashWith b off p = true) :
    off < p.2 + p.1.size := by
  unfold clashWith disjointRange at h
  simp only [Bool.and_eq_true, Bool.not_eq_true', Bool.or_eq_false_iff, decide_eq_false_iff_not] at h
  omega

theorem findSlot_isSome (b : Buf) (a : Nat) (ha : 0 < a) (placed : List (Buf × Nat)) :
    ∀ (fuel off : Nat), pend placed off < fuel → (findSlot b a placed fuel off).isSome = true
  | 0, _, h => by omega
  | fuel + 1, off, h => by
    simp only [findSlot]
    split
    · rfl
    · rename_i p hp
      have hmem := List.mem_of_find?_eq_some hp
      have hclash := List.find?_some hp
      have hlt := clash_lt hclash
      have hge := alignUp_ge off a ha
      apply findSlot_isSome b a ha placed fuel
      have h1 : pend placed (p.2 + p.1.size) < pend placed (alignUp off a) := by
        unfold pend
        apply filter_length_lt _ _ placed _ p hmem
        · simpa using hlt
        · simp
        · intro x _ hx
          simp only [decide_eq_true_eq] at hx ⊢
          omega
      have h2 : pend placed (alignUp off a) ≤ pend placed off := by
        unfold pend
        apply filter_length_le_of_imp
        intro x _ hx
        simp only [decide_eq_true_eq] at hx ⊢
        omega
      omega

theorem pend_le (placed : List (Buf × Nat)) (off : Nat) : pend placed off ≤ placed.length := by
  unfold pend; exact List.length_filter_le _ _

theorem firstFitAux_fuel (cap : Nat) : ∀ (bufs : List Buf) (placed : List (Buf × Nat)),
    firstFitAux cap bufs placed ≠ .error .solverFuel
  | [], _ => by simp [firstFitAux]
  | b :: rest, placed => by
    simp only [firstFitAux]
    have hs := findSlot_isSome b (max 1 b.align) (by omega) placed (placed.length + 1) 0
      (by have := pend_le placed 0; omega)
    split
    · rename_i hnone; rw [hnone] at hs; simp at hs
    · rename_i off _
      split
      · simp
      · have ih := firstFitAux_fuel cap rest (placed ++ [(b, off)])
        cases hr : firstFitAux cap rest (placed ++ [(b, off)]) with
        | error e => simp [Except.map]; intro he; subst he; exact ih hr
        | ok tl => simp [Except.map]

theorem firstFitAux_err (cap : Nat) : ∀ (bufs : List Buf) (placed : List (Buf × Nat)) (e : Err),
    firstFitAux cap bufs placed = .error e → e = .solverFull ∨ e = .solverFuel
  | [], _, e, h => by simp [firstFitAux] at h
  | b :: rest, placed, e, h => by
    simp only [firstFitAux] at h
    split at h
    · simp at h; exact Or.inr h.symm
    · rename_i off _
      split at h
      · simp at h; exact Or.inl h.symm
      · cases hr : firstFitAux cap rest (placed ++ [(b, off)]) with
        | error e' =>
          simp [hr, Except.map] at h
          subst h
          exact firstFitAux_err cap rest _ e' hr
        | ok tl => simp [hr, Except.map] at h

/-! ## the lifetimes are tight -/

theorem usesAny_witness {S : List Nat} {n : Node} (h : usesAny S n = true) : ∃ w ∈ n.ops, w ∈ S := by
  unfold usesAny at h
  rw [List.any_eq_true] at h
  obtain ⟨w, hw, hc⟩ := h
  exact ⟨w, hw, by simpa using hc⟩

theorem aliasScan_sound (fl : List (Node × Nat)) (r : Nat) : ∀ (rest : List (Node × Nat)) (S : List Nat),
    (∀ v ∈ S, Alias fl r v) → (∀ n ∈ rest, n ∈ fl) → ∀ v ∈ aliasScan S rest, Alias fl r v
  | [], S, hS, _ => by simpa [aliasScan] using hS
  | (n, t) :: rest, S, hS, hsub => by
    simp only [aliasScan]
    apply aliasScan_sound fl r rest
    · split
      · rename_i hc
        simp only [Bool.and_eq_true] at hc
        obtain ⟨w, hw, hwS⟩ := usesAny_witness hc.2
        intro v hv
        simp only [List.mem_append] at hv
        rcases hv with hv | hv
        · exact Alias.step (hsub (n, t) (by simp)) hc.1 hw (hS w hwS) hv
        · exact hS v hv
      · exact hS
    · intro m hm; exact hsub m (List.mem_cons_of_mem _ hm)

theorem endTime_mem : ∀ (tops : List Nat) (s : Nat), endTime s tops = s ∨ endTime s tops ∈ tops
  | [], s => by simp [endTime]
  | x :: xs, s => by
    have ih := endTime_mem xs (max s x)
    simp only [endTime, List.foldl_cons] at ih ⊢
    rcases ih with ih | ih
    · rcases Nat.le_total s x with h | h
      · right; rw [ih, Nat.max_eq_right h]; simp
      · left; rw [ih, Nat.max_eq_left h]
    · right; exact List.mem_cons_of_mem _ ih

theorem useTops_witness {S : List Nat} {fl : List (Node × Nat)} {t : Nat} (h : t ∈ useTops S fl) :
    ∃ n, (n, t) ∈ fl ∧ usesAny S n = true := by
  unfold useTops at h
  rw [List.mem_map] at h
  obtain ⟨⟨n, t'⟩, hm, rfl⟩ := h
  rw [List.mem_filter] at hm
  exact ⟨n, hm.1, hm.2⟩

/-! ## the alias scan reaches a fixed point on every program in SSA order -/

theorem usesAny_append_of_disjoint {S T : List Nat} {n : Node} (hd : ∀ w ∈ T, w ∉ n.ops)
    (h : usesAny (T ++ S) n = true) : usesAny S n = true := by
  unfold usesAny at h ⊢
  rw [List.any_eq_true] at h ⊢
  obtain ⟨w, hw, hc⟩ := h
  refine ⟨w, hw, ?_⟩
  simp only [List.contains_eq_mem, List.mem_append, decide_eq_true_eq] at hc ⊢
  rcases hc with hc | hc
  · exact absurd hw (hd w hc)
  · exact hc

theorem closed_of_wellOrd : ∀ (rest pre : List (Node × Nat)) (S : List Nat),
    (∀ n ∈ pre, (follows .fixed n.1 && usesAny S n.1) = true → ∀ v ∈ n.1.res, v ∈ S) →
    (∀ n ∈ pre, ∀ m ∈ rest, ∀ w ∈ m.1.res, w ∉ n.1.ops) →
    WellOrd rest →
    ∀ n ∈ pre ++ rest, (follows .fixed n.1 && usesAny (aliasScan S rest) n.1) = true →
      ∀ v ∈ n.1.res, v ∈ aliasScan S rest
  | [], pre, S, hpre, _, _ => by simpa [aliasScan] using hpre
  | (m, t) :: rest, pre, S, hpre, hdis, hwo => by
    obtain ⟨hself, hlater, hwo'⟩ := hwo
    simp only [aliasScan]
    have key := closed_of_wellOrd rest (pre ++ [(m, t)])
      (if follows .fixed m && usesAny S m then m.res ++ S else S) ?_ ?_ hwo'
    · intro n hn
      exact key n (by simpa [List.append_assoc] using hn)
    · -- the extended prefix is closed w.r.t. the extended set
      intro n hn hfu v hv
      simp only [List.mem_append, List.mem_singleton] at hn
      rcases hn with hn | rfl
      · split at hfu
        · rename_i hcond
          simp only [Bool.and_eq_true] at hfu
          have hu := usesAny_append_of_disjoint (hdis n hn (m, t) (by simp)) hfu.2
          rw [if_pos hcond]
          exact List.mem_append_right _ (hpre n hn (by simp [hfu.1, hu]) v hv)
        · rename_i hcond
          rw [if_neg hcond]
          exact hpre n hn hfu v hv
      · simp only at hfu hv ⊢
        split at hfu
        · rename_i hcond
          rw [if_pos hcond]
          exact List.mem_append_left _ hv
        · rename_i hcond
          exact absurd hfu hcond
    · intro n hn m' hm' w hw
      simp only [List.mem_append, List.mem_singleton] at hn
      rcases hn with hn | rfl
      · exact hdis n hn m' (by simp [hm']) w hw
      · exact hlater m' hm' w hw

theorem aliasScan_closed (r : Nat) (fl : List (Node × Nat)) (h : WellOrd fl) :
    closed (aliasScan [r] fl) fl = true := by
  unfold closed
  rw [List.all_eq_true]
  intro n hn
  have := closed_of_wellOrd fl [] [r] (by simp) (by simp) h n (by simpa using hn)
  cases hc : (follows .fixed n.1 && usesAny (aliasScan [r] fl) n.1) with
  | false => simp [hc]
  | true =>
    simp only [hc, Bool.not_true, Bool.false_or, List.all_eq_true]
    intro v hv
    simpa using this hc v hv

theorem aliasSet_fixed_ok (r : Nat) (fl : List (Node × Nat)) (h : WellOrd fl) :
    aliasSet .fixed r fl = .ok (aliasScan [r] fl) := by
  simp [aliasSet, aliasScan_closed r fl h]

theorem buffersFrom_not_notClosed (fl : List (Node × Nat)) (h : WellOrd fl) :
    ∀ (p : Prog) (k : Nat), buffersFrom .fixed fl p k ≠ .error .notClosed
  | [], k => by simp [buffersFrom]
  | .op _ _ :: rest, k => by simp only [buffersFrom]; exact buffersFrom_not_notClosed fl h rest (k + 1)
  | .alloc res req fu :: rest, k => by
    simp only [buffersFrom]
    have ih := buffersFrom_not_notClosed fl h rest (k + 1)
    unfold mkBuf
    rw [aliasSet_fixed_ok res fl h]
    cases req.size with
    | none => simp
    | some size =>
      cases req.mem with
      | none => simp
      | some m =>
        simp only
        cases hr : buffersFrom .fixed fl rest (k + 1) with
        | error e => simp [Except.map]; intro he; subst he; exact ih hr
        | ok tl => simp [Except.map]

theorem attachCasts_not_notClosed : ∀ (bs : List Buf) (fus : List (Option (Option Nat))),
    attachCasts bs fus ≠ .error .notClosed
  | [], _ => by simp [attachCasts]
  | _ :: _, [] => by simp [attachCasts]
  | b :: bs, fu :: fus => by
    simp only [attachCasts]
    have ih := attachCasts_not_notClosed bs fus
    split
    · simp
    · simp
    · cases hr : attachCasts bs fus with
      | error e => simp [Except.map]; intro he; subst he; exact ih hr
      | ok tl => simp [Except.map]

/-- shape of every placed address: the solver's offset for that buffer plus the start of its memory -/
theorem placed_addr_form (vm : ViewMode) (mems : List Mem) (sol : Nat → List Nat) (p : Prog) (r : MiniResult)
    (h : miniMallocate vm mems sol p = .ok r) :
    ∀ x ∈ r.placed, x.1 ∈ r.bufs ∧ ∃ mem off, mems[x.1.mem]? = some mem ∧
      (x.1, off) ∈ (subset r.bufs x.1.mem).zip (sol x.1.mem) ∧ x.2.addr = off + mem.start := by
  unfold miniMallocate at h
  split at h
  · simp at h
  · rename_i bs hbs
    split at h
    · simp at h
    · split at h
      · simp at h
      · rename_i pl hpl
        simp only [Except.ok.injEq] at h
        subst h
        simp only
        obtain ⟨hmap, hone⟩ := placeAll_spec mems sol bs bs pl hpl
        intro x hx
        have hxb : x.1 ∈ bs := by rw [← hmap]; exact List.mem_map_of_mem hx
        obtain ⟨mem, off, hmem, hz, hP⟩ := placeOne_spec mems sol bs x.1 x.2 (hone x hx)
        exact ⟨hxb, mem, off, hmem, hz, by rw [hP]⟩

theorem wellOrdB_sound : ∀ (l : List (Node × Nat)), wellOrdB l = true → WellOrd l
  | [], _ => trivial
  | (n, t) :: rest, h => by
    simp only [wellOrdB, Bool.and_eq_true, List.all_eq_true, Bool.not_eq_true',
      List.contains_eq_mem, decide_eq_false_iff_not] at h
    obtain ⟨⟨h1, h2⟩, h3⟩ := h
    exact ⟨h1, fun m hm w hw => h2 m hm w hw, wellOrdB_sound rest h3⟩

end SnaxVerif.Alloc
