import SnaxVerif.Model.Scheduler
/-! Soundness of the exact matcher: every acceptance is backed by re-checked integer witnesses. -/
namespace SnaxVerif.Sched
open List

theorem inSpanB_sound (P : List Vec) (v : Vec) (h : inSpanB P v = true) : InSpan P v := by
  unfold inSpanB at h
  split at h
  · next c w _ =>
    simp only [Bool.and_eq_true, bne_iff_ne, ne_eq, beq_iff_eq] at h
    exact ⟨c, w, h.1, h.2⟩
  · simp at h

theorem sameRowSpaceB_sound (T P : List Vec) (h : sameRowSpaceB T P = true) : SameRowSpace T P := by
  unfold sameRowSpaceB at h
  simp only [Bool.and_eq_true, all_eq_true] at h
  exact ⟨fun v hv => inSpanB_sound P v (h.1 v hv), fun v hv => inSpanB_sound T v (h.2 v hv)⟩

/-- the rows of the template operand that take part (outer rows are broadcast) -/
def tRows (tp sp : Operand) : List Vec := tp.rows.drop (tp.rows.length - sp.rows.length)
/-- the rows of the schedule operand restricted to the template's dims -/
def sRows (tn n : Nat) (sp : Operand) : List Vec := if n > tn then sp.rows.map (lastN tn) else sp.rows

theorem matchOp_sound (tn n : Nat) (tp sp : Operand) (h : matchOp tn n tp sp = .ok true) :
    tn ≤ n ∧ SameRowSpace (tRows tp sp) (sRows tn n sp) := by
  unfold matchOp at h
  unfold tRows sRows
  split at h
  · next hgt =>
    split at h
    · simp at h
    · simp only [Except.ok.injEq] at h
      simp only [hgt, if_true]
      exact ⟨by omega, sameRowSpaceB_sound _ _ h⟩
  · next hgt =>
    split at h
    · simp at h
    · simp only [Except.ok.injEq] at h
      simp only [hgt, if_false]
      exact ⟨by omega, sameRowSpaceB_sound _ _ h⟩

theorem matchOps_sound (tn n : Nat) : ∀ (ts ss : List Operand), matchOps tn n ts ss = .ok true →
    ∀ p ∈ ts.zip ss, tn ≤ n ∧ SameRowSpace (tRows p.1 p.2) (sRows tn n p.2)
  | [], _, _, p, hp => by simp at hp
  | _ :: _, [], _, p, hp => by simp at hp
  | tp :: ts, sp :: ss, h, p, hp => by
    unfold matchOps at h
    split at h
    · simp at h
    · simp at h
    · next hm =>
      simp only [zip_cons_cons, mem_cons] at hp
      rcases hp with rfl | hp
      · exact matchOp_sound tn n tp sp hm
      · exact matchOps_sound tn n ts ss h p hp

end SnaxVerif.Sched
