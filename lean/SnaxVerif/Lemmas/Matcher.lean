import SnaxVerif.Model.Scheduler
/-! Exactness of the certifying matcher: every `true` is backed by a re-checked integer combination, every
`false` by a re-checked orthogonal vector. -/
namespace SnaxVerif.Sched
open List

theorem inSpanB_sound (P : List Vec) (v : Vec) (h : inSpanB P v = true) : InSpan P v := by
  unfold inSpanB at h
  split at h
  · next c w _ =>
    simp only [Bool.and_eq_true, bne_iff_ne, ne_eq, beq_iff_eq] at h
    exact ⟨c, w, h.1, h.2⟩
  · simp at h

theorem sameRowSpaceB_sound (T P : List Vec) (h : sameRowSpaceB T P = true) : SameRowSpace T P := by
  unfold sameRowSpaceB at h
  simp only [Bool.and_eq_true, all_eq_true] at h
  exact ⟨fun v hv => inSpanB_sound P v (h.1 v hv), fun v hv => inSpanB_sound T v (h.2 v hv)⟩

/-! ### the orthogonality certificate -/

theorem vdot_vscale (c : Int) : ∀ (v y : Vec), vdot (vscale c v) y = c * vdot v y
  | [], y => by simp [vscale, vdot]
  | _ :: _, [] => by simp [vscale, vdot]
  | a :: v, b :: y => by
    have ih := vdot_vscale c v y
    simp only [vscale, map_cons, vdot] at ih ⊢
    rw [ih, Int.mul_add, Int.mul_assoc]

theorem vdot_vadd : ∀ (a b y : Vec), a.length = b.length → vdot (vadd a b) y = vdot a y + vdot b y
  | [], [], y, _ => by simp [vadd, vdot]
  | [], _ :: _, _, h => by simp at h
  | _ :: _, [], _, h => by simp at h
  | x :: a, z :: b, [], _ => by simp [vadd, vdot]
  | x :: a, z :: b, w :: y, h => by
    have ih := vdot_vadd a b y (by simpa using h)
    simp only [vadd, zipWith_cons_cons, vdot] at ih ⊢
    rw [ih, Int.add_mul]
    omega

theorem vdot_replicate_zero (n : Nat) : ∀ (y : Vec), vdot (List.replicate n 0) y = 0 := by
  induction n with
  | zero => intro y; simp [vdot]
  | succ n ih =>
    intro y
    cases y with
    | nil => simp [List.replicate_succ, vdot]
    | cons b y => simp [List.replicate_succ, vdot, ih y]

theorem length_comb (n : Nat) : ∀ (w : Vec) (P : List Vec), (∀ p ∈ P, p.length = n) → (comb n w P).length = n
  | [], _, _ => by simp [comb]
  | _ :: _, [], _ => by simp [comb]
  | c :: w, p :: P, h => by
    have ih := length_comb n w P (fun q hq => h q (mem_cons_of_mem _ hq))
    simp [comb, vadd, vscale, ih, h p (by simp)]

theorem vdot_comb (n : Nat) (y : Vec) : ∀ (w : Vec) (P : List Vec), (∀ p ∈ P, p.length = n) →
    (∀ p ∈ P, vdot p y = 0) → vdot (comb n w P) y = 0
  | [], _, _, _ => by simp [comb, vdot_replicate_zero]
  | _ :: _, [], _, _ => by simp [comb, vdot_replicate_zero]
  | c :: w, p :: P, hl, ho => by
    have ih := vdot_comb n y w P (fun q hq => hl q (mem_cons_of_mem _ hq)) (fun q hq => ho q (mem_cons_of_mem _ hq))
    have hlen : (vscale c p).length = (comb n w P).length := by
      rw [length_comb n w P (fun q hq => hl q (mem_cons_of_mem _ hq))]
      simp [vscale, hl p (by simp)]
    simp only [comb]
    rw [vdot_vadd _ _ _ hlen, vdot_vscale, ho p (by simp), ih]
    simp

/-- a vector orthogonal to all rows of `P` but not to `v` refutes membership of `v` in the rational span -/
theorem nonMemberB_sound (P : List Vec) (v y : Vec) (h : nonMemberB P v y = true) : ¬ InSpan P v := by
  unfold nonMemberB at h
  simp only [Bool.and_eq_true, beq_iff_eq, all_eq_true, bne_iff_ne, ne_eq] at h
  obtain ⟨⟨⟨_, hl⟩, ho⟩, hv⟩ := h
  rintro ⟨c, w, hc, heq⟩
  have h1 : vdot (vscale c v) y = 0 := by
    rw [heq]; exact vdot_comb v.length y w P hl ho
  rw [vdot_vscale] at h1
  rcases Int.mul_eq_zero.mp h1 with h0 | h0
  · exact hc h0
  · exact hv h0

theorem spanDecide_exact (P : List Vec) (v : Vec) (b : Bool) (h : spanDecide P v = some b) :
    (b = true ↔ InSpan P v) := by
  unfold spanDecide at h
  split at h
  · next hin =>
    simp only [Option.some.injEq] at h
    subst h
    exact ⟨fun _ => inSpanB_sound P v hin, fun _ => rfl⟩
  · split at h
    · next y _ =>
      split at h
      · next hnm =>
        simp only [Option.some.injEq] at h
        subst h
        exact ⟨(fun hf => by cases hf), fun hs => absurd hs (nonMemberB_sound P v y hnm)⟩
      · cases h
    · cases h

theorem combineDecisions_exact (ds : List (Option Bool)) (b : Bool) (h : combineDecisions ds = some b) :
    (b = true ↔ ∀ d ∈ ds, d = some true) ∧ (b = false → ∃ d ∈ ds, d = some false) := by
  unfold combineDecisions at h
  split at h
  · next hany =>
    simp only [Option.some.injEq] at h
    subst h
    obtain ⟨d, hd, hdf⟩ := List.any_eq_true.mp hany
    have hdf' : d = some false := by simpa using hdf
    refine ⟨⟨(fun hf => by cases hf), fun hall => ?_⟩, fun _ => ⟨d, hd, hdf'⟩⟩
    have := hall d hd
    rw [hdf'] at this
    cases this
  · split at h
    · next hall =>
      simp only [Option.some.injEq] at h
      subst h
      refine ⟨⟨fun _ d hd => ?_, fun _ => rfl⟩, fun hf => by cases hf⟩
      have := List.all_eq_true.mp hall d hd
      simpa using this
    · cases h

/-- **the row-space comparison is exact whenever it answers** -/
theorem sameRowSpaceD_exact (T P : List Vec) (b : Bool) (h : sameRowSpaceD T P = some b) :
    (b = true ↔ SameRowSpace T P) := by
  unfold sameRowSpaceD at h
  obtain ⟨h1, h2⟩ := combineDecisions_exact _ b h
  constructor
  · intro hb
    have hall := h1.mp hb
    refine ⟨fun v hv => ?_, fun v hv => ?_⟩
    · have := hall (spanDecide P v) (mem_append.mpr (Or.inl (mem_map.mpr ⟨v, hv, rfl⟩)))
      exact (spanDecide_exact P v true this).mp rfl
    · have := hall (spanDecide T v) (mem_append.mpr (Or.inr (mem_map.mpr ⟨v, hv, rfl⟩)))
      exact (spanDecide_exact T v true this).mp rfl
  · intro hs
    cases b with
    | true => rfl
    | false =>
      obtain ⟨d, hd, hdf⟩ := h2 rfl
      rcases mem_append.mp hd with hd | hd
      · obtain ⟨v, hv, rfl⟩ := mem_map.mp hd
        have := (spanDecide_exact P v false hdf).mpr (hs.1 v hv)
        cases this
      · obtain ⟨v, hv, rfl⟩ := mem_map.mp hd
        have := (spanDecide_exact T v false hdf).mpr (hs.2 v hv)
        cases this

/-- the rows of the template operand that take part (outer rows are broadcast) -/
def tRows (tp sp : Operand) : List Vec := tp.rows.drop (tp.rows.length - sp.rows.length)
/-- the rows of the schedule operand restricted to the template's dims -/
def sRows (tn n : Nat) (sp : Operand) : List Vec := if n > tn then sp.rows.map (lastN tn) else sp.rows

theorem decisionE_ok {d : Option Bool} {b : Bool} (h : decisionE d = .ok b) : d = some b := by
  cases d with
  | none => simp [decisionE] at h
  | some x => simpa [decisionE] using h

/-- what `TemplatePattern.matches` is supposed to decide for one operand -/
def OperandFits (tn n : Nat) (tp sp : Operand) : Prop := tn ≤ n ∧ SameRowSpace (tRows tp sp) (sRows tn n sp)

theorem matchOp_exact (tn n : Nat) (tp sp : Operand) (b : Bool) (h : matchOp tn n tp sp = .ok b) :
    (b = true ↔ OperandFits tn n tp sp) := by
  unfold matchOp at h
  unfold OperandFits tRows sRows
  split at h
  · next hgt =>
    split at h
    · simp at h
    · have := sameRowSpaceD_exact _ _ b (decisionE_ok h)
      simp only [hgt, if_true]
      exact ⟨fun hb => ⟨by omega, this.mp hb⟩, fun hs => this.mpr hs.2⟩
  · next hgt =>
    split at h
    · next hlt =>
      simp only [Except.ok.injEq] at h
      subst h
      exact ⟨(fun hf => by cases hf), fun hs => by omega⟩
    · have := sameRowSpaceD_exact _ _ b (decisionE_ok h)
      simp only [hgt, if_false]
      exact ⟨fun hb => ⟨by omega, this.mp hb⟩, fun hs => this.mpr hs.2⟩

theorem matchOp_sound (tn n : Nat) (tp sp : Operand) (h : matchOp tn n tp sp = .ok true) :
    tn ≤ n ∧ SameRowSpace (tRows tp sp) (sRows tn n sp) := (matchOp_exact tn n tp sp true h).mp rfl

theorem matchOps_exact (tn n : Nat) : ∀ (ts ss : List Operand) (b : Bool), matchOps tn n ts ss = .ok b →
    (b = true ↔ ∀ p ∈ ts.zip ss, OperandFits tn n p.1 p.2)
  | [], _, b, h => by
    simp only [matchOps, Except.ok.injEq] at h
    subst h; simp
  | _ :: _, [], b, h => by
    simp only [matchOps, Except.ok.injEq] at h
    subst h; simp
  | tp :: ts, sp :: ss, b, h => by
    unfold matchOps at h
    split at h
    · simp at h
    · next hm =>
      simp only [Except.ok.injEq] at h
      subst h
      refine ⟨(fun hf => by cases hf), fun hall => ?_⟩
      have := (matchOp_exact tn n tp sp false hm).mpr (hall (tp, sp) (by simp))
      cases this
    · next hm =>
      have ih := matchOps_exact tn n ts ss b h
      have h0 := (matchOp_exact tn n tp sp true hm).mp rfl
      constructor
      · intro hb p hp
        simp only [zip_cons_cons, mem_cons] at hp
        rcases hp with rfl | hp
        · exact h0
        · exact ih.mp hb p hp
      · intro hall
        exact ih.mpr (fun p hp => hall p (by simp [hp]))

theorem matchOps_sound (tn n : Nat) (ts ss : List Operand) (h : matchOps tn n ts ss = .ok true) :
    ∀ p ∈ ts.zip ss, tn ≤ n ∧ SameRowSpace (tRows p.1 p.2) (sRows tn n p.2) :=
  (matchOps_exact tn n ts ss true h).mp rfl

end SnaxVerif.Sched
