import SnaxVerif.Lemmas.SchedWF
/-! Stability of the innermost dimensions under the later steps of the backtracking (C16). -/
namespace SnaxVerif.Sched
open List

theorem lastN_append_of_le {α} (j : Nat) (p q : List α) (h : j ≤ q.length) : lastN j (p ++ q) = lastN j q := by
  unfold lastN
  have : (p ++ q).length - j = p.length + (q.length - j) := by simp; omega
  rw [this, drop_append]
  simp

theorem lastN_length {α} (l : List α) : lastN l.length l = l := by simp [lastN]

theorem lastN_rotList {α} (d j : Nat) (l : List α) (h : d + j ≤ l.length) :
    lastN j (rotList d l) = lastN j l := by
  have e1 : rotList d l = ((l.take d).drop 1 ++ l.take 1) ++ l.drop d := by simp [rotList]
  have e2 : l = l.take d ++ l.drop d := (take_append_drop d l).symm
  have hl : j ≤ (l.drop d).length := by simp; omega
  rw [e1, lastN_append_of_le _ _ _ hl]
  conv => rhs; rw [e2, lastN_append_of_le _ _ _ hl]

theorem lastN_tileList_lt {α} (x y : α) (i j : Nat) (l : List α) (h : i + 1 + j ≤ l.length) :
    lastN j (tileList x y i l) = lastN j l := by
  have e1 : tileList x y i l = (l.take i ++ [x, y]) ++ l.drop (i + 1) := by simp [tileList]
  have e2 : l = l.take (i + 1) ++ l.drop (i + 1) := (take_append_drop (i + 1) l).symm
  have hl : j ≤ (l.drop (i + 1)).length := by simp; omega
  rw [e1, lastN_append_of_le _ _ _ hl]
  conv => rhs; rw [e2, lastN_append_of_le _ _ _ hl]

theorem lastN_tileList_eq {α} (x y : α) (i : Nat) (l : List α) (h : i < l.length) :
    lastN (l.length - i) (tileList x y i l) = y :: l.drop (i + 1) := by
  have e1 : tileList x y i l = (l.take i ++ [x]) ++ (y :: l.drop (i + 1)) := by simp [tileList]
  have hl : l.length - i = (y :: l.drop (i + 1)).length := by simp; omega
  rw [e1, hl, lastN_append_of_le _ _ _ (Nat.le_refl _), lastN_length]

theorem lastN_eq_drop {α} (i : Nat) (l : List α) (h : i ≤ l.length) : lastN (l.length - i) l = l.drop i := by
  unfold lastN
  congr 1
  omega

theorem lastN_tileRow (t i : Nat) (r : List Int) (h : i < r.length) :
    lastN (r.length - i) (tileRow t i r) = lastN (r.length - i) r := by
  unfold tileRow
  rw [lastN_tileList_eq _ _ _ _ h, lastN_eq_drop i r (by omega), drop_eq_getElem_cons h]
  simp [List.getD_eq_getElem?_getD, h]

theorem lastN_head {α} (j : Nat) (l : List α) (a : α) : (lastN j l).head?.getD a = l.getD (l.length - j) a := by
  simp [lastN, List.getD_eq_getElem?_getD]

/-- a predicate that looks at the matrices and the number of dims only, never at the bound values
(true of `Template.matches` and of all extra checks of `scheduler.py`) -/
def OpsOnly {β} (p : Template → Schedule → β) : Prop :=
  ∀ t x x', x.ops = x'.ops → x.bounds.length = x'.bounds.length → p t x = p t x'

theorem matchesQ_opsOnly : OpsOnly matchesQ := by
  intro t x x' ho hl
  unfold matchesQ
  simp only [ho, hl]

theorem isPureOutputStationary_opsOnly : OpsOnly isPureOutputStationary := by
  intro t x x' ho hl
  unfold isPureOutputStationary
  simp only [ho, hl]

theorem isMemoryFlexibleEnough_opsOnly (sizes : List Nat) : OpsOnly (isMemoryFlexibleEnough sizes) := by
  intro t x x' ho hl
  unfold isMemoryFlexibleEnough
  simp only [ho, hl]

/-- post-condition at level `j`, a function of the innermost `j` dims only -/
def PostAt (mtch : Template → Schedule → Except Err Bool) (checks : List (Template → Schedule → Bool))
    (tmpl : Template) (j : Nat) (x : Schedule) : Prop :=
  mtch (tInnerRaw j tmpl) x = .ok true ∧ (∀ ch ∈ checks, ch (tInnerRaw j tmpl) x = true) ∧
  (templateBound tmpl j ≠ 0 → x.bounds.head?.getD 0 ≤ templateBound tmpl j)

theorem innerRaw_rotateRaw (d j : Nat) (s : Schedule) (hwf : WF s) (h : d + j ≤ s.n) :
    innerRaw j (rotateRaw d s) = innerRaw j s := by
  unfold innerRaw rotateRaw
  simp only [Schedule.mk.injEq, map_map]
  refine ⟨lastN_rotList d j _ h, ?_⟩
  apply map_congr_left
  intro o ho
  simp only [Function.comp, Operand.mapRows, map_map]
  congr 1
  apply map_congr_left
  intro r hr
  exact lastN_rotList d j r (by rw [hwf.2 o ho r hr]; exact h)

theorem innerRaw_tileRaw_lt (i t j : Nat) (s : Schedule) (hwf : WF s) (h : i + 1 + j ≤ s.n) :
    innerRaw j (tileRaw i t s) = innerRaw j s := by
  unfold innerRaw tileRaw
  simp only [Schedule.mk.injEq, map_map]
  refine ⟨lastN_tileList_lt _ _ i j _ h, ?_⟩
  apply map_congr_left
  intro o ho
  simp only [Function.comp, Operand.mapRows, map_map]
  congr 1
  apply map_congr_left
  intro r hr
  exact lastN_tileList_lt _ _ i j r (by rw [hwf.2 o ho r hr]; exact h)

theorem innerRaw_tileRaw_eq (i t : Nat) (s : Schedule) (hwf : WF s) (h : i < s.n) :
    (innerRaw (s.n - i) (tileRaw i t s)).ops = (innerRaw (s.n - i) s).ops ∧
    (innerRaw (s.n - i) (tileRaw i t s)).bounds = t :: s.bounds.drop (i + 1) ∧
    (innerRaw (s.n - i) (tileRaw i t s)).bounds.length = (innerRaw (s.n - i) s).bounds.length := by
  simp only [Schedule.n] at h ⊢
  unfold innerRaw tileRaw
  simp only [map_map]
  refine ⟨?_, lastN_tileList_eq _ _ i _ h, ?_⟩
  · apply map_congr_left
    intro o ho
    simp only [Function.comp, Operand.mapRows, map_map]
    congr 1
    apply map_congr_left
    intro r hr
    have hl := hwf.2 o ho r hr
    have := lastN_tileRow t i r (by omega)
    simp only [Function.comp]
    rw [← hl]
    exact this
  · rw [lastN_tileList_eq _ _ i _ h, lastN_eq_drop i _ (by omega)]
    simp
    omega

end SnaxVerif.Sched

namespace SnaxVerif.Sched
open List

/-- the extra-check lists `scheduler.py` / `AutoflowScheduler` use -/
def realChecks (useStationary : Bool) (memSizes : Option (List Nat)) : List (Template → Schedule → Bool) :=
  (if useStationary then [isPureOutputStationary] else []) ++
  (match memSizes with | some sz => [isMemoryFlexibleEnough sz] | none => [])

theorem realChecks_opsOnly (u : Bool) (m : Option (List Nat)) : ∀ ch ∈ realChecks u m, OpsOnly ch := by
  intro ch hmem
  unfold realChecks at hmem
  rcases List.mem_append.mp hmem with hmem | hmem
  · cases u <;> simp at hmem
    subst hmem; exact isPureOutputStationary_opsOnly
  · cases m <;> simp at hmem
    subst hmem; exact isMemoryFlexibleEnough_opsOnly _

theorem stationary_mem_realChecks (m : Option (List Nat)) : isPureOutputStationary ∈ realChecks true m := by
  simp [realChecks]

theorem memflex_mem_realChecks (u : Bool) (sz : List Nat) : isMemoryFlexibleEnough sz ∈ realChecks u (some sz) := by
  simp [realChecks]

end SnaxVerif.Sched

namespace SnaxVerif.Sched
open List

theorem innerRaw_self (r : Schedule) (hwf : WF r) : innerRaw r.n r = r := by
  unfold innerRaw
  have : r.ops.map (Operand.mapRows (lastN r.n)) = r.ops := by
    conv => rhs; rw [← List.map_id r.ops]
    apply List.map_congr_left
    intro o ho
    unfold Operand.mapRows
    have : o.rows.map (lastN r.n) = o.rows := by
      conv => rhs; rw [← List.map_id o.rows]
      apply List.map_congr_left
      intro row hrow
      show lastN r.bounds.length row = id row
      rw [← hwf.2 o ho row hrow]; exact lastN_length row
    rw [this]; rfl
  rw [this, show lastN r.n r.bounds = r.bounds from lastN_length _]

end SnaxVerif.Sched
