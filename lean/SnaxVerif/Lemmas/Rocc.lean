import SnaxVerif.Model.CsrLower
/-! Helper lemmas for the RoCC clause of C04: what `roccEmit` emits, what executing it does. -/
namespace SnaxVerif.CsrLower

/-! ### strings -/

theorem instrOf_append4 (i : String) (c1 c2 c3 c4 : Char) :
    instrOf (i ++ String.ofList [c1, c2, c3, c4]) = i := by
  unfold instrOf
  have h1 : (i ++ String.ofList [c1, c2, c3, c4]).toList = i.toList ++ [c1, c2, c3, c4] := by
    simp [String.toList_append]
  have h2 : (i ++ String.ofList [c1, c2, c3, c4]).length = i.length + 4 := by
    simp [String.length_append]
  rw [h1, h2, Nat.add_sub_cancel, String.length_toList.symm, List.take_left', String.ofList_toList]
  rfl

theorem instrOf_rs1 (i : String) : instrOf (i ++ ".rs1") = i := instrOf_append4 i '.' 'r' 's' '1'
theorem instrOf_rs2 (i : String) : instrOf (i ++ ".rs2") = i := instrOf_append4 i '.' 'r' 's' '2'

theorem isRs1_rs1 (i : String) : isRs1 (i ++ ".rs1") = true := by
  unfold isRs1; simp [String.toList_append]

/-- a field name of an instruction-configured accelerator: `<instr>.rs1` or `<instr>.rs2` -/
def WF (k : String) : Prop := k = instrOf k ++ ".rs1" ∨ k = instrOf k ++ ".rs2"

theorem WF_rs1 (i : String) : WF (i ++ ".rs1") := Or.inl (by rw [instrOf_rs1])
theorem WF_rs2 (i : String) : WF (i ++ ".rs2") := Or.inr (by rw [instrOf_rs2])

/-! ### dictionaries -/

theorem lastLookup_some_mem {α} {ps : List (String × α)} {k : String} {v : α} (h : lastLookup ps k = some v) :
    (k, v) ∈ ps := by
  induction ps with
  | nil => simp [lastLookup] at h
  | cons p ps ih =>
    obtain ⟨k', v'⟩ := p
    simp only [lastLookup] at h
    cases hr : lastLookup ps k with
    | some x => rw [hr] at h; cases h; exact List.mem_cons_of_mem _ (ih hr)
    | none =>
      rw [hr] at h
      by_cases hk : (k' == k) = true
      · simp [hk] at h; subst h
        have : k' = k := by simpa using hk
        subst this; exact List.mem_cons_self
      · simp [hk] at h

theorem lastLookup_isSome_of_mem {α} {ps : List (String × α)} {k : String} {v : α} (h : (k, v) ∈ ps) :
    (lastLookup ps k).isSome := by
  induction ps with
  | nil => cases h
  | cons p ps ih =>
    obtain ⟨k', v'⟩ := p
    simp only [lastLookup]
    cases hr : lastLookup ps k with
    | some x => rfl
    | none =>
      rcases List.mem_cons.mp h with h | h
      · cases h; simp
      · have := ih h; rw [hr] at this; cases this

/-- a setup writing its fields in order leaves in each field its LAST value -/
theorem applySetup_eq (val : Var → Int) : ∀ (ps : List (String × Var)) (r : RegsR) (k : String),
    applySetup val ps r k = match lastLookup ps k with | some v => val v | none => r k := by
  intro ps
  induction ps with
  | nil => intro r k; rfl
  | cons p ps ih =>
    intro r k
    obtain ⟨k', v⟩ := p
    simp only [applySetup, lastLookup, ih]
    cases hr : lastLookup ps k with
    | some x => rfl
    | none =>
      by_cases hk : (k' == k) = true
      · have : k' = k := by simpa using hk
        subst this; simp [upd]
      · have hne : ¬ k = k' := by
          intro e; subst e; simp at hk
        simp [hk, upd, hne]

/-! ### emission -/

/-- every emitted statement is an instruction of a mentioned instruction carrying `operand`s -/
theorem roccEmit_sound (ps : List (String × Var)) (fb : String → Option RVal) (restrict : Bool) :
    ∀ (decl : RegMap.Dict) (l : List RStmt), roccEmit ps fb restrict decl = .ok l →
      ∀ s ∈ l, ∃ i f a b, s = .insn i f a b ∧ hasInstr ps i = true ∧
        operand ps fb (i ++ ".rs1") = some a ∧ operand ps fb (i ++ ".rs2") = some b := by
  intro decl
  induction decl with
  | nil => intro l h; simp [roccEmit] at h; subst h; simp
  | cons e r ih =>
    intro l h s hs
    simp only [roccEmit] at h
    split at h
    · split at h
      · next hi =>
        split at h
        · next a b ha hb =>
          split at h
          · next l' hl' =>
            cases h
            rcases List.mem_cons.mp hs with rfl | hs
            · exact ⟨_, _, _, _, rfl, hi, ha, hb⟩
            · exact ih l' hl' s hs
          · cases h
        · cases h
      · split at h
        · exact ih l h s hs
        · cases h
    · exact ih l h s hs

/-- every declared `.rs1` key of a mentioned instruction gets its instruction -/
theorem roccEmit_complete (ps : List (String × Var)) (fb : String → Option RVal) (restrict : Bool) :
    ∀ (decl : RegMap.Dict) (l : List RStmt), roccEmit ps fb restrict decl = .ok l →
      ∀ e ∈ decl, isRs1 e.1 = true → hasInstr ps (instrOf e.1) = true →
        ∃ a b, RStmt.insn (instrOf e.1) e.2 a b ∈ l := by
  intro decl
  induction decl with
  | nil => intro l _ e he; cases he
  | cons d r ih =>
    intro l h e he h1 h2
    simp only [roccEmit] at h
    split at h
    · split at h
      · split at h
        · next a b _ _ =>
          split at h
          · next l' hl' =>
            cases h
            rcases List.mem_cons.mp he with rfl | he
            · exact ⟨a, b, List.mem_cons_self⟩
            · obtain ⟨a', b', hm⟩ := ih l' hl' e he h1 h2
              exact ⟨a', b', List.mem_cons_of_mem _ hm⟩
          · cases h
        · cases h
      · next hn =>
        split at h
        · rcases List.mem_cons.mp he with rfl | he
          · rw [h2] at hn; exact absurd rfl hn
          · exact ih l h e he h1 h2
        · cases h
    · next hn =>
      rcases List.mem_cons.mp he with rfl | he
      · rw [h1] at hn; exact absurd rfl hn
      · exact ih l h e he h1 h2

/-- with `restrict = false` (launch) every declared `.rs1` key is a mentioned instruction -/
theorem roccEmit_all (ps : List (String × Var)) (fb : String → Option RVal) :
    ∀ (decl : RegMap.Dict) (l : List RStmt), roccEmit ps fb false decl = .ok l →
      ∀ e ∈ decl, isRs1 e.1 = true → ∃ a b, RStmt.insn (instrOf e.1) e.2 a b ∈ l := by
  intro decl
  induction decl with
  | nil => intro l _ e he; cases he
  | cons d r ih =>
    intro l h e he h1
    simp only [roccEmit] at h
    split at h
    · split at h
      · split at h
        · next a b _ _ =>
          split at h
          · next l' hl' =>
            cases h
            rcases List.mem_cons.mp he with rfl | he
            · exact ⟨a, b, List.mem_cons_self⟩
            · obtain ⟨a', b', hm⟩ := ih l' hl' e he h1
              exact ⟨a', b', List.mem_cons_of_mem _ hm⟩
          · cases h
        · cases h
      · simp at h
    · next hn =>
      rcases List.mem_cons.mp he with rfl | he
      · rw [h1] at hn; exact absurd rfl hn
      · exact ih l h e he h1

/-! ### execution -/

/-- `k` is one of the two source registers of an instruction in `l` -/
def Written (l : List RStmt) (k : String) : Prop :=
  ∃ i f a b, RStmt.insn i f a b ∈ l ∧ (k = i ++ ".rs1" ∨ k = i ++ ".rs2")

/-- if every instruction carries `T` of its two registers, then afterwards a written register holds `T`,
an unwritten one what it held -/
theorem execR_spec (val : Var → Int) (T : String → Int) : ∀ (l : List RStmt) (r : RegsR),
    (∀ i f a b, RStmt.insn i f a b ∈ l → rvalOf val a = T (i ++ ".rs1") ∧ rvalOf val b = T (i ++ ".rs2")) →
    ∀ k, (Written l k → execR val l r k = T k) ∧ (¬ Written l k → execR val l r k = r k) := by
  intro l
  induction l with
  | nil =>
    intro r _ k
    refine ⟨?_, fun _ => rfl⟩
    rintro ⟨i, f, a, b, hm, _⟩; cases hm
  | cons s l ih =>
    intro r h k
    have hl : ∀ i f a b, RStmt.insn i f a b ∈ l → rvalOf val a = T (i ++ ".rs1") ∧ rvalOf val b = T (i ++ ".rs2") :=
      fun i f a b hm => h i f a b (List.mem_cons_of_mem _ hm)
    cases s with
    | const0 =>
      simp only [execR]
      obtain ⟨h1, h2⟩ := ih r hl k
      refine ⟨fun hw => h1 ?_, fun hw => h2 ?_⟩
      · obtain ⟨i, f, a, b, hm, hk⟩ := hw
        rcases List.mem_cons.mp hm with hm | hm
        · cases hm
        · exact ⟨i, f, a, b, hm, hk⟩
      · rintro ⟨i, f, a, b, hm, hk⟩
        exact hw ⟨i, f, a, b, List.mem_cons_of_mem _ hm, hk⟩
    | insn i0 f0 a0 b0 =>
      simp only [execR]
      obtain ⟨ha0, hb0⟩ := h i0 f0 a0 b0 List.mem_cons_self
      obtain ⟨h1, h2⟩ := ih (upd (upd r (i0 ++ ".rs1") (rvalOf val a0)) (i0 ++ ".rs2") (rvalOf val b0)) hl k
      by_cases hw : Written l k
      · exact ⟨fun _ => h1 hw, fun hn => absurd ⟨hw.choose, hw.choose_spec.choose, hw.choose_spec.choose_spec.choose,
          hw.choose_spec.choose_spec.choose_spec.choose,
          List.mem_cons_of_mem _ hw.choose_spec.choose_spec.choose_spec.choose_spec.1,
          hw.choose_spec.choose_spec.choose_spec.choose_spec.2⟩ hn⟩
      · rw [h2 hw]
        refine ⟨?_, ?_⟩
        · rintro ⟨i, f, a, b, hm, hk⟩
          rcases List.mem_cons.mp hm with hm | hm
          · cases hm
            rcases hk with rfl | rfl
            · by_cases e : i0 ++ ".rs1" = i0 ++ ".rs2"
              · rw [e]; simp [upd, hb0]
              · simp [upd, e, ha0]
            · simp [upd, hb0]
          · exact absurd ⟨i, f, a, b, hm, hk⟩ hw
        · intro hn
          have n1 : ¬ k = i0 ++ ".rs1" := fun e => hn ⟨i0, f0, a0, b0, List.mem_cons_self, Or.inl e⟩
          have n2 : ¬ k = i0 ++ ".rs2" := fun e => hn ⟨i0, f0, a0, b0, List.mem_cons_self, Or.inr e⟩
          simp [upd, n1, n2]

theorem written_append_const0 {l : List RStmt} {k : String} (pre : List RStmt)
    (hpre : ∀ s ∈ pre, s = RStmt.const0) : Written (pre ++ l) k ↔ Written l k := by
  constructor
  · rintro ⟨i, f, a, b, hm, hk⟩
    rcases List.mem_append.mp hm with hm | hm
    · cases hpre _ hm
    · exact ⟨i, f, a, b, hm, hk⟩
  · rintro ⟨i, f, a, b, hm, hk⟩
    exact ⟨i, f, a, b, List.mem_append_right _ hm, hk⟩

/-! ### hypotheses of the property theorems -/

/-- the inferred previous state is a sound description of the register file (C07's conclusion) -/
def PrevSound (val : Var → Int) (st : List (String × Var)) (regs : RegsR) : Prop :=
  ∀ k v, plookup st k = some v → regs k = val v

theorem operand_fromState_sound {val : Var → Int} {st : List (String × Var)} {regs : RegsR}
    (hprev : PrevSound val st regs) (ps : List (String × Var)) (k : String) (a : RVal)
    (h : operand ps (fromState st) k = some a) : rvalOf val a = applySetup val ps regs k := by
  rw [applySetup_eq]
  unfold operand at h
  cases hl : lastLookup ps k with
  | some v => rw [hl] at h; cases h; rfl
  | none =>
    rw [hl] at h
    simp only [fromState, Option.map_eq_some_iff] at h
    obtain ⟨v, hv, rfl⟩ := h
    exact (hprev k v hv).symm

/-- what "never set" means for the partner of a first setup: the register still holds the default 0 -/
def NeverSetZero (ps : List (String × Var)) (regs : RegsR) : Prop :=
  ∀ p ∈ ps, ∀ k, (k = instrOf p.1 ++ ".rs1" ∨ k = instrOf p.1 ++ ".rs2") → lastLookup ps k = none → regs k = 0


end SnaxVerif.CsrLower
