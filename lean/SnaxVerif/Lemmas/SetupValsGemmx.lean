import SnaxVerif.Lemmas.SetupVals
/-! C08, snax_gemmx: the generator's parameter record carries what the kernel registers mean (`gemmxSpec`, read
off the operation). Core Lean only. -/
namespace SnaxVerif.SV

theorem pack4_den (a b c d : Val) (env : Env) :
    (pack4 a b c d 24 16 8 0).den env = word4 (a.den env) (b.den env) (c.den env) (d.den env) := by
  simp only [pack4, Val.den, konst, word4, BitVec.shiftLeft_eq']
  have h24 : (BitVec.ofInt 32 24).toNat = 24 := by decide
  have h16 : (BitVec.ofInt 32 16).toNat = 16 := by decide
  have h8 : (BitVec.ofInt 32 8).toNat = 8 := by decide
  have h0 : (BitVec.ofInt 32 0).toNat = 0 := by decide
  rw [h24, h16, h8, h0, BitVec.shiftLeft_zero]
  simp only [BitVec.or_assoc]

theorem pack2_den (a b : Val) (env : Env) :
    (pack2 a b 0 8).den env = a.den env ||| (b.den env <<< 8) := by
  simp only [pack2, Val.den, konst, BitVec.shiftLeft_eq']
  have h8 : (BitVec.ofInt 32 8).toNat = 8 := by decide
  have h0 : (BitVec.ofInt 32 0).toNat = 0 := by decide
  rw [h8, h0, BitVec.shiftLeft_zero]

theorem c_den (x : Int) (env : Env) : (Val.c x).den env = bv x := rfl

theorem csr0Val_den (r : Rescale) (env : Env) :
    (csr0Val r.minI r.maxI r.outZp r.inZp).den env = csr0Spec r := by
  unfold csr0Val
  rw [pack4_den]
  rfl

theorem chunks4_get {α} : ∀ (l : List α) (i : Nat) (a b c d : α), (chunks4 l)[i]? = some [a, b, c, d] →
    l[4 * i]? = some a ∧ l[4 * i + 1]? = some b ∧ l[4 * i + 2]? = some c ∧ l[4 * i + 3]? = some d
  | [], i, a, b, c, d, h => by simp [chunks4] at h
  | [_], i, a, b, c, d, h => by
    cases i <;> simp [chunks4] at h
  | [_, _], i, a, b, c, d, h => by
    cases i <;> simp [chunks4] at h
  | [_, _, _], i, a, b, c, d, h => by
    cases i <;> simp [chunks4] at h
  | x :: y :: z :: w :: rest, 0, a, b, c, d, h => by
    simp [chunks4] at h
    obtain ⟨rfl, rfl, rfl, rfl⟩ := h
    simp
  | x :: y :: z :: w :: rest, i + 1, a, b, c, d, h => by
    simp [chunks4] at h
    have := chunks4_get rest i a b c d h
    have e : 4 * (i + 1) = 4 * i + 4 := by omega
    simp only [e]
    simpa [List.getElem?_cons_succ] using this

theorem packShiftChunk_ok (ch : List Int) (w : Val) (h : packShiftChunk ch = .ok w) :
    ∃ a b c d, ch = [a, b, c, d] ∧ w = pack4 (.c d) (.c c) (.c b) (.c a) 24 16 8 0 := by
  match ch, h with
  | [a, b, c, d], h => simp [packShiftChunk] at h; exact ⟨a, b, c, d, rfl, h.symm⟩

/-- the i-th packed word of the i8 branch is the word of channels 4i … 4i+3 -/
theorem shift_word_spec (s : List Int) (sh : List Val) (h : (chunks4 s).mapM packShiftChunk = .ok sh)
    (i : Nat) (w : Val) (hw : sh[i]? = some w) :
    ∃ bw, shiftWord s i = some bw ∧ ∀ env, w.den env = bw := by
  obtain ⟨hlen, hall⟩ := mapM_ok_get _ _ h
  have hlt : i < (chunks4 s).length := by
    have := (List.getElem?_eq_some_iff.mp hw).1; omega
  have hch : (chunks4 s)[i]? = some (chunks4 s)[i] := by simp [hlt]
  obtain ⟨r, hr1, hr2⟩ := hall i _ hch
  rw [hw] at hr1; injection hr1 with hr1; subst hr1
  obtain ⟨a, b, c, d, hc, hwv⟩ := packShiftChunk_ok _ _ hr2
  rw [hc] at hch
  obtain ⟨h0, h1, h2, h3⟩ := chunks4_get s i a b c d hch
  refine ⟨word4 (bv d) (bv c) (bv b) (bv a), by simp [shiftWord, h0, h1, h2, h3], fun env => ?_⟩
  rw [hwv, pack4_den]
  rfl

/-- the three ways `gemmxParams` succeeds, with the record spelled out -/
theorem gemmxParams_cases (v : Variant) (n : Nat) (op : GemmxOp) (P : GParams) (h : gemmxParams v n op = .ok P) :
    (∃ zp last p0 sh, op.kernel = .mac zp ∧ op.i8out = true ∧ outPattern op = some last ∧ op.s.pats[0]? = some p0 ∧
      (chunks4 (effRescale n op).shifts).mapM packShiftChunk = .ok sh ∧
      P.k = Int.fdiv (prodI (p0.dims.map (·.1))) (prodI ((last.dims.filter fun d => d.2 ≠ 0).map (·.1))) ∧
      P.n = 1 ∧ P.m = prodI ((last.dims.filter fun d => d.2 ≠ 0).map (·.1)) ∧
      P.sub = pack2 (.andi (match zp with | some (a, _) => .leaf (.inp a) | none => .c 0) c255)
                    (.andi (match zp with | some (_, b) => .leaf (.inp b) | none => .c 0) c255) 0 8 ∧
      P.csr0 = csr0Val (effRescale n op).minI (effRescale n op).maxI (effRescale n op).outZp (effRescale n op).inZp ∧
      P.csr1 = .c (effRescale n op).dr ∧ P.shifts = sh.take (ceil4 n) ∧
      P.mults = ((effRescale n op).mults.map Val.c).take n ∧ P.tlb = .c P.m ∧ P.byp = .c 0) ∨
    (∃ zp last p0, op.kernel = .mac zp ∧ op.i8out = false ∧ outPattern op = some last ∧ op.s.pats[0]? = some p0 ∧
      P.k = Int.fdiv (prodI (p0.dims.map (·.1))) (prodI ((last.dims.filter fun d => d.2 ≠ 0).map (·.1))) ∧
      P.n = 1 ∧ P.m = prodI ((last.dims.filter fun d => d.2 ≠ 0).map (·.1)) ∧
      P.sub = pack2 (.andi (match zp with | some (a, _) => .leaf (.inp a) | none => .c 0) c255)
                    (.andi (match zp with | some (_, b) => .leaf (.inp b) | none => .c 0) c255) 0 8 ∧
      P.csr0 = .c 0 ∧ P.csr1 = .c 0 ∧ P.shifts = List.replicate (ceil4 n) (.c 0) ∧
      P.mults = List.replicate n (.c 1) ∧ P.tlb = .c 0 ∧ P.byp = .c 1) ∨
    (∃ r p0 s mu, op.kernel = .rescale r ∧ op.s.pats[0]? = some p0 ∧ r.shifts[0]? = some s ∧ r.mults[0]? = some mu ∧
      P.k = 1 ∧ P.n = 1 ∧ P.m = prodI (p0.dims.map (·.1)) ∧ P.sub = .c 0 ∧
      P.csr0 = csr0Val r.minI r.maxI r.outZp r.inZp ∧ P.csr1 = .c r.dr ∧
      P.shifts = List.replicate (ceil4 n) (pack4 (.c s) (.c s) (.c s) (.c s) 24 16 8 0) ∧
      P.mults = List.replicate (if v.f11 then n else ceil4 n) (.c mu) ∧ P.tlb = .c P.m ∧ P.byp = .c 0) := by
  unfold gemmxParams at h
  cases hk : op.kernel with
  | mac zp =>
    simp only [hk] at h
    split at h
    · simp at h
    · next last hlast =>
      split at h
      · simp at h
      · next p0 hp0 =>
        split at h
        · simp at h
        · next hm =>
          split at h
          · next hi =>
            split at h
            · simp at h
            · next sh hsh =>
              injection h with h; subst h
              refine Or.inl ⟨zp, last, p0, sh, rfl, hi, ?_, hp0, hsh, rfl, rfl, rfl,
                (by rcases zp with _ | ⟨a, b⟩ <;> rfl), rfl, rfl, rfl, rfl, rfl, rfl⟩
              simpa [outPattern, hi] using hlast
          · next hi =>
            injection h with h; subst h
            have hi' : op.i8out = false := by simpa using hi
            refine Or.inr (Or.inl ⟨zp, last, p0, rfl, hi', ?_, hp0, rfl, rfl, rfl,
              (by rcases zp with _ | ⟨a, b⟩ <;> rfl), rfl, rfl, rfl, rfl, rfl, rfl⟩)
            simpa [outPattern, hi'] using hlast
  | rescale r =>
    simp only [hk] at h
    split at h
    · simp at h
    · next p0 hp0 =>
      split at h
      · next s mu hs hmu =>
        injection h with h; subst h
        exact Or.inr (Or.inr ⟨r, p0, s, mu, rfl, hp0, hs, hmu, rfl, rfl, rfl, rfl, rfl, rfl, rfl, rfl, rfl, rfl⟩)
      · simp at h
  | other => simp [hk] at h


theorem bv255 : bv 255 = (255 : BitVec 32) := by decide

theorem andi255_den (a : Val) (env : Env) : (Val.andi a c255).den env = a.den env &&& 255 := by
  show a.den env &&& (Val.c 255).den env = _
  rw [c_den, bv255]

/-- what the kernel registers of gemmx mean, conjunct by conjunct -/
def KernelSpecHolds (cfg : List Streamer) (n : Nat) (op : GemmxOp) (P : GParams) : Prop :=
  (∀ f, f = Field.K ∨ f = .N ∨ f = .M ∨ f = .subtractions ∨ f = .csr0 ∨ f = .csr1 ∨ f = .temporalLoopBound ∨
        f = .bypassSIMD → gemmxMeaning cfg op.s P f = gemmxSpec n op f) ∧
  (∀ i, i < ceil4 n → gemmxMeaning cfg op.s P (.shift i) = gemmxSpec n op (.shift i)) ∧
  (∀ i, i < n → gemmxMeaning cfg op.s P (.mult i) = gemmxSpec n op (.mult i))

theorem c_den' (x : Int) : (Val.c x).den = konst x := rfl

theorem sub_den (zp : Option (Nat × Nat)) :
    (pack2 (.andi (match zp with | some (a, _) => .leaf (.inp a) | none => .c 0) c255)
           (.andi (match zp with | some (_, b) => .leaf (.inp b) | none => .c 0) c255) 0 8).den =
    fun env => (zpaDen zp env &&& 255) ||| ((zpbDen zp env &&& 255) <<< 8) := by
  funext env
  rw [pack2_den, andi255_den, andi255_den]
  rcases zp with _ | ⟨a, b⟩ <;> rfl

theorem gemmxSpec_mac {n : Nat} {op : GemmxOp} {zp : Option (Nat × Nat)} (hk : op.kernel = .mac zp) (f : Field) :
    gemmxSpec n op f = macSpec n op zp f := by simp [gemmxSpec, hk]

theorem gemmxSpec_rescale {n : Nat} {op : GemmxOp} {r : Rescale} (hk : op.kernel = .rescale r) (f : Field) :
    gemmxSpec n op f = rescaleSpec n op r f := by simp [gemmxSpec, hk]

theorem csr0Val_den' (r : Rescale) : (csr0Val r.minI r.maxI r.outZp r.inZp).den = fun _ => csr0Spec r :=
  funext (csr0Val_den r)

section branches
variable (cfg : List Streamer) (n : Nat) (op : GemmxOp) (P : GParams)

theorem spec_mac_i8_scalar (zp : Option (Nat × Nat)) (last p0 : Pattern)
    (hi : op.i8out = true) (hout : outPattern op = some last) (hp0 : op.s.pats[0]? = some p0)
    (hPk : P.k = Int.fdiv (prodI (p0.dims.map (·.1))) (prodI ((last.dims.filter fun d => d.2 ≠ 0).map (·.1))))
    (hPn : P.n = 1) (hPm : P.m = prodI ((last.dims.filter fun d => d.2 ≠ 0).map (·.1)))
    (hsub : P.sub = pack2 (.andi (match zp with | some (a, _) => .leaf (.inp a) | none => .c 0) c255)
                    (.andi (match zp with | some (_, b) => .leaf (.inp b) | none => .c 0) c255) 0 8)
    (hc0 : P.csr0 = csr0Val (effRescale n op).minI (effRescale n op).maxI (effRescale n op).outZp (effRescale n op).inZp)
    (hc1 : P.csr1 = .c (effRescale n op).dr) (htlb : P.tlb = .c P.m) (hbyp : P.byp = .c 0) :
    ∀ f, f = Field.K ∨ f = .N ∨ f = .M ∨ f = .subtractions ∨ f = .csr0 ∨ f = .csr1 ∨ f = .temporalLoopBound ∨
        f = .bypassSIMD → gemmxMeaning cfg op.s P f = macSpec n op zp f := by
  intro f hf
  rcases hf with rfl | rfl | rfl | rfl | rfl | rfl | rfl | rfl
  · simp only [gemmxMeaning, macSpec, macM, stepsA, hout, hp0, hPk, Option.map_some, Option.bind_some]
  · simp only [gemmxMeaning, macSpec, hPn]
  · simp only [gemmxMeaning, macSpec, macM, hout, hPm, Option.map_some]
  · simp only [gemmxMeaning, macSpec, hsub, sub_den]
  · simp only [gemmxMeaning, macSpec, hi, if_true, hc0, csr0Val_den']
  · simp only [gemmxMeaning, macSpec, hi, if_true, hc1, c_den']
  · simp only [gemmxMeaning, macSpec, hi, if_true, macM, hout, htlb, hPm, Option.map_some, c_den']
  · simp only [gemmxMeaning, macSpec, hi, if_true, hbyp, c_den']

theorem spec_mac_i8_arrays (zp : Option (Nat × Nat)) (sh : List Val) (hi : op.i8out = true)
    (hsh : (chunks4 (effRescale n op).shifts).mapM packShiftChunk = .ok sh)
    (hPs : P.shifts = sh.take (ceil4 n)) (hPmu : P.mults = ((effRescale n op).mults.map Val.c).take n)
    (hs : P.shifts.length = ceil4 n) :
    (∀ i, i < ceil4 n → gemmxMeaning cfg op.s P (.shift i) = macSpec n op zp (.shift i)) ∧
    (∀ i, i < n → gemmxMeaning cfg op.s P (.mult i) = macSpec n op zp (.mult i)) := by
  refine ⟨?_, ?_⟩
  · intro i hi4
    have hlen : i < (sh.take (ceil4 n)).length := by rw [← hPs, hs]; exact hi4
    have hget : (sh.take (ceil4 n))[i]? = sh[i]? := List.getElem?_take_of_lt hi4
    have hlt : i < sh.length := by
      simp only [List.length_take] at hlen; omega
    obtain ⟨bw, hbw, hden⟩ := shift_word_spec _ sh hsh i sh[i] (by simp [hlt])
    have hd : sh[i].den = fun _ => bw := funext hden
    simp only [gemmxMeaning, macSpec, hi, hi4, if_true, hPs, hget, hbw, Option.map_some,
      List.getElem?_eq_getElem hlt, hd]
  · intro i hin
    have hget : (((effRescale n op).mults.map Val.c).take n)[i]? = ((effRescale n op).mults.map Val.c)[i]? :=
      List.getElem?_take_of_lt hin
    simp only [gemmxMeaning, macSpec, hi, hin, if_true, hPmu, hget, List.getElem?_map, Option.map_map]
    rfl

theorem spec_mac_i32 (zp : Option (Nat × Nat)) (last p0 : Pattern)
    (hi : op.i8out = false) (hout : outPattern op = some last) (hp0 : op.s.pats[0]? = some p0)
    (hPk : P.k = Int.fdiv (prodI (p0.dims.map (·.1))) (prodI ((last.dims.filter fun d => d.2 ≠ 0).map (·.1))))
    (hPn : P.n = 1) (hPm : P.m = prodI ((last.dims.filter fun d => d.2 ≠ 0).map (·.1)))
    (hsub : P.sub = pack2 (.andi (match zp with | some (a, _) => .leaf (.inp a) | none => .c 0) c255)
                    (.andi (match zp with | some (_, b) => .leaf (.inp b) | none => .c 0) c255) 0 8)
    (hc0 : P.csr0 = .c 0) (hc1 : P.csr1 = .c 0) (hPs : P.shifts = List.replicate (ceil4 n) (.c 0))
    (hPmu : P.mults = List.replicate n (.c 1)) (htlb : P.tlb = .c 0) (hbyp : P.byp = .c 1) :
    (∀ f, f = Field.K ∨ f = .N ∨ f = .M ∨ f = .subtractions ∨ f = .csr0 ∨ f = .csr1 ∨ f = .temporalLoopBound ∨
        f = .bypassSIMD → gemmxMeaning cfg op.s P f = macSpec n op zp f) ∧
    (∀ i, i < ceil4 n → gemmxMeaning cfg op.s P (.shift i) = macSpec n op zp (.shift i)) ∧
    (∀ i, i < n → gemmxMeaning cfg op.s P (.mult i) = macSpec n op zp (.mult i)) := by
  refine ⟨?_, ?_, ?_⟩
  · intro f hf
    rcases hf with rfl | rfl | rfl | rfl | rfl | rfl | rfl | rfl
    · simp only [gemmxMeaning, macSpec, macM, stepsA, hout, hp0, hPk, Option.map_some, Option.bind_some]
    · simp only [gemmxMeaning, macSpec, hPn]
    · simp only [gemmxMeaning, macSpec, macM, hout, hPm, Option.map_some]
    · simp only [gemmxMeaning, macSpec, hsub, sub_den]
    · simp only [gemmxMeaning, macSpec, hi, Bool.false_eq_true, if_false, hc0, c_den']
    · simp only [gemmxMeaning, macSpec, hi, Bool.false_eq_true, if_false, hc1, c_den']
    · simp only [gemmxMeaning, macSpec, hi, Bool.false_eq_true, if_false, htlb, c_den']
    · simp only [gemmxMeaning, macSpec, hi, Bool.false_eq_true, if_false, hbyp, c_den']
  · intro i hi4
    simp only [gemmxMeaning, macSpec, hi, Bool.false_eq_true, if_false, hi4, if_true, hPs, List.getElem?_replicate, Option.map_some, c_den']
  · intro i hin
    simp only [gemmxMeaning, macSpec, hi, Bool.false_eq_true, if_false, hin, if_true, hPmu, List.getElem?_replicate, Option.map_some, c_den']

theorem spec_rescale (v : Variant) (hv : v.f11 = true) (r : Rescale) (p0 : Pattern) (s mu : Int)
    (hp0 : op.s.pats[0]? = some p0) (hs0 : r.shifts[0]? = some s) (hmu0 : r.mults[0]? = some mu)
    (hPk : P.k = 1) (hPn : P.n = 1) (hPm : P.m = prodI (p0.dims.map (·.1))) (hsub : P.sub = .c 0)
    (hc0 : P.csr0 = csr0Val r.minI r.maxI r.outZp r.inZp) (hc1 : P.csr1 = .c r.dr)
    (hPs : P.shifts = List.replicate (ceil4 n) (pack4 (.c s) (.c s) (.c s) (.c s) 24 16 8 0))
    (hPmu : P.mults = List.replicate (if v.f11 then n else ceil4 n) (.c mu)) (htlb : P.tlb = .c P.m)
    (hbyp : P.byp = .c 0) :
    (∀ f, f = Field.K ∨ f = .N ∨ f = .M ∨ f = .subtractions ∨ f = .csr0 ∨ f = .csr1 ∨ f = .temporalLoopBound ∨
        f = .bypassSIMD → gemmxMeaning cfg op.s P f = rescaleSpec n op r f) ∧
    (∀ i, i < ceil4 n → gemmxMeaning cfg op.s P (.shift i) = rescaleSpec n op r (.shift i)) ∧
    (∀ i, i < n → gemmxMeaning cfg op.s P (.mult i) = rescaleSpec n op r (.mult i)) := by
  have hword : (pack4 (.c s) (.c s) (.c s) (.c s) 24 16 8 0).den = fun _ => word4 (bv s) (bv s) (bv s) (bv s) := by
    funext env; rw [pack4_den]; rfl
  refine ⟨?_, ?_, ?_⟩
  · intro f hf
    rcases hf with rfl | rfl | rfl | rfl | rfl | rfl | rfl | rfl
    · simp only [gemmxMeaning, rescaleSpec, hPk]
    · simp only [gemmxMeaning, rescaleSpec, hPn]
    · simp only [gemmxMeaning, rescaleSpec, stepsA, hp0, hPm, Option.map_some]
    · simp only [gemmxMeaning, rescaleSpec, hsub, c_den']
    · simp only [gemmxMeaning, rescaleSpec, hc0, csr0Val_den']
    · simp only [gemmxMeaning, rescaleSpec, hc1, c_den']
    · simp only [gemmxMeaning, rescaleSpec, stepsA, hp0, htlb, hPm, Option.map_some, c_den']
    · simp only [gemmxMeaning, rescaleSpec, hbyp, c_den']
  · intro i hi4
    simp only [gemmxMeaning, rescaleSpec, hi4, if_true, hPs, List.getElem?_replicate, hs0, Option.map_some, hword]
  · intro i hin
    simp only [hv, if_true] at hPmu
    simp only [gemmxMeaning, rescaleSpec, hin, if_true, hPmu, List.getElem?_replicate, hmu0, Option.map_some, c_den']

end branches

theorem gemmx_kernel_spec (v : Variant) (hv : v.f11 = true) (cfg : List Streamer) (n : Nat) (op : GemmxOp)
    (P : GParams) (h : gemmxParams v n op = .ok P) (hs : P.shifts.length = ceil4 n) :
    KernelSpecHolds cfg n op P := by
  rcases gemmxParams_cases v n op P h with
    ⟨zp, last, p0, sh, hk, hi, hout, hp0, hsh, hPk, hPn, hPm, hsub, hc0, hc1, hPs, hPmu, htlb, hbyp⟩ |
    ⟨zp, last, p0, hk, hi, hout, hp0, hPk, hPn, hPm, hsub, hc0, hc1, hPs, hPmu, htlb, hbyp⟩ |
    ⟨r, p0, s, mu, hk, hp0, hs0, hmu0, hPk, hPn, hPm, hsub, hc0, hc1, hPs, hPmu, htlb, hbyp⟩
  · have h1 := spec_mac_i8_scalar cfg n op P zp last p0 hi hout hp0 hPk hPn hPm hsub hc0 hc1 htlb hbyp
    have h2 := spec_mac_i8_arrays cfg n op P zp sh hi hsh hPs hPmu hs
    exact ⟨fun f hf => by rw [gemmxSpec_mac hk]; exact h1 f hf,
           fun i hi4 => by rw [gemmxSpec_mac hk]; exact h2.1 i hi4,
           fun i hin => by rw [gemmxSpec_mac hk]; exact h2.2 i hin⟩
  · have h1 := spec_mac_i32 cfg n op P zp last p0 hi hout hp0 hPk hPn hPm hsub hc0 hc1 hPs hPmu htlb hbyp
    exact ⟨fun f hf => by rw [gemmxSpec_mac hk]; exact h1.1 f hf,
           fun i hi4 => by rw [gemmxSpec_mac hk]; exact h1.2.1 i hi4,
           fun i hin => by rw [gemmxSpec_mac hk]; exact h1.2.2 i hin⟩
  · have h1 := spec_rescale cfg n op P v hv r p0 s mu hp0 hs0 hmu0 hPk hPn hPm hsub hc0 hc1 hPs hPmu htlb hbyp
    exact ⟨fun f hf => by rw [gemmxSpec_rescale hk]; exact h1.1 f hf,
           fun i hi4 => by rw [gemmxSpec_rescale hk]; exact h1.2.1 i hi4,
           fun i hin => by rw [gemmxSpec_rescale hk]; exact h1.2.2 i hin⟩

end SnaxVerif.SV
