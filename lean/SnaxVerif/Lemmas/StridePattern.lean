import SnaxVerif.Model.StridePattern
/-! Helper lemmas for `StridePattern.canonicalize` (C19). Core Lean only. -/
namespace SnaxVerif
namespace Stride

/-- `range (q*t)` enumerated as `t*i + j` in order (copied from design/prototypes/BoxTile.lean). -/
theorem range_mul_flatMap (q t : Nat) :
    (List.range q).flatMap (fun i => (List.range t).map (fun j => t * i + j)) = List.range (q * t) := by
  induction q with
  | zero => simp
  | succ n ih =>
    rw [List.range_succ, List.flatMap_append, ih]
    simp only [List.flatMap_cons, List.flatMap_nil, List.append_nil]
    rw [Nat.succ_mul, List.range_add]
    congr 1
    apply List.map_congr_left
    intro a _
    rw [Nat.mul_comm]

/-- The inner loops `a` run completely for every offset of the outer loops `b`. -/
theorem offs_append (a b : List Loop) :
    offs (a ++ b) = (offs b).flatMap (fun o => (offs a).map (fun x => o + x)) := by
  induction a with
  | nil => simp [offs]
  | cons x a ih =>
    obtain ⟨bd, s⟩ := x
    simp only [List.cons_append, offs, ih, List.flatMap_assoc, List.map_flatMap, List.flatMap_map,
      List.map_map]
    congr 1
    funext o
    congr 1
    funext o'
    apply List.map_congr_left
    intro i _
    simp [Int.add_assoc]

theorem offs_zero_bound (s : Int) : offs [((0 : Nat), s)] = [] := by
  simp [offs]

theorem offs_unit_bound (s : Int) : offs [((1 : Nat), s)] = [0] := by
  simp [offs]

/-- Two adjacent loops `(b, s)` (inner) and `(u, b*s)` (outer) enumerate the same offsets, in the same
order, as the single loop `(b*u, s)`. -/
theorem offs_merge (b u : Nat) (s : Int) :
    offs [(b * u, s)] = offs [(b, s), (u, (b : Int) * s)] := by
  simp only [offs, List.flatMap_cons, List.flatMap_nil, List.append_nil, List.flatMap_map]
  rw [Nat.mul_comm b u, ← range_mul_flatMap u b, List.map_flatMap]
  congr 1
  funext j
  rw [List.map_map]
  apply List.map_congr_left
  intro i _
  simp only [Function.comp, Int.zero_add]
  rw [Int.natCast_add, Int.natCast_mul, Int.mul_add]
  rw [Int.mul_left_comm, ← Int.mul_assoc]

/-- One step of the loop preserves the denoted sequence (`acc` is kept reversed). -/
theorem step_offs (acc : List Loop) (x : Loop) :
    offs (step acc x).reverse = offs (acc.reverse ++ [x]) := by
  obtain ⟨ub, ts⟩ := x
  unfold step
  simp only []
  split
  · next h =>
    subst h
    rw [List.reverse_cons, offs_append, offs_append, offs_zero_bound, offs_zero_bound]
  · split
    · next h =>
      subst h
      rw [offs_append, offs_unit_bound]
      simp
    · split
      · next b s rest =>
        split
        · next hm =>
          subst hm
          rw [List.reverse_cons, List.reverse_cons, List.append_assoc, offs_append,
            offs_append (rest.reverse), offs_merge]
          rfl
        · rw [List.reverse_cons]
      · rw [List.reverse_cons]

theorem foldl_step_offs (p acc : List Loop) :
    offs (p.foldl step acc).reverse = offs (acc.reverse ++ p) := by
  induction p generalizing acc with
  | nil => simp
  | cons x p ih =>
    rw [List.foldl_cons, ih, offs_append, step_offs, ← offs_append]
    simp

theorem canonLoops_offs (p : List Loop) : offs (canonLoops p) = offs p := by
  unfold canonLoops
  rw [foldl_step_offs]
  simp

/-! ### idempotence -/

/-- `acc` (reversed) is a list on which every entry would be appended unchanged again. -/
def Fixed : List Loop → Prop
  | [] => True
  | x :: rest => step rest x = x :: rest ∧ Fixed rest

theorem cons_ne_self_len {α} (x : α) (l : List α) : l ≠ x :: l := by
  intro h
  have := congrArg List.length h
  simp at this

theorem step_fixed (acc : List Loop) (x : Loop) (h : Fixed acc) : Fixed (step acc x) := by
  obtain ⟨ub, ts⟩ := x
  unfold step
  simp only []
  split
  · exact ⟨by simp [step], h⟩
  · next h0 =>
    split
    · exact h
    · next h1 =>
      split
      · next b s rest =>
        obtain ⟨hb, hrest⟩ := h
        split
        · next hm =>
          refine ⟨?_, hrest⟩
          -- the merged entry `(b*ub, s)` is appended unchanged after `rest`
          unfold step at hb ⊢
          simp only [] at hb ⊢
          by_cases hb0 : b = 0
          · subst hb0
            simp at hb
            simp [hb]
          · by_cases hb1 : b = 1
            · subst hb1
              simp at hb
            · have hbu0 : b * ub ≠ 0 := Nat.mul_ne_zero hb0 h0
              have hbu1 : b * ub ≠ 1 := by
                intro hc
                have := Nat.eq_one_of_mul_eq_one_right hc
                exact hb1 this
              simp only [hb0, hb1, hbu0, hbu1, if_false] at hb ⊢
              split
              · next b' s' r' =>
                simp only [] at hb
                split
                · next hm' =>
                  rw [if_pos hm'] at hb
                  have := congrArg List.length hb
                  simp at this
                · rfl
              · rfl
        · refine ⟨?_, hb, hrest⟩
          next hm => simp [step, h0, h1, hm]
      · exact ⟨by simp [step, h0, h1], h⟩

theorem foldl_step_fixed (p acc : List Loop) (h : Fixed acc) : Fixed (p.foldl step acc) := by
  induction p generalizing acc with
  | nil => exact h
  | cons x p ih => exact ih _ (step_fixed acc x h)

theorem foldl_step_reverse_of_fixed (acc : List Loop) (h : Fixed acc) :
    acc.reverse.foldl step [] = acc := by
  induction acc with
  | nil => rfl
  | cons x rest ih =>
    rw [List.reverse_cons, List.foldl_append, ih h.2]
    exact h.1

theorem canonLoops_idem (p : List Loop) : canonLoops (canonLoops p) = canonLoops p := by
  unfold canonLoops
  rw [foldl_step_reverse_of_fixed _ (foldl_step_fixed p [] trivial)]

/-- no unit bounds survive, zero bounds carry stride 0 (what the canonical form looks like) -/
theorem fixed_shape (acc : List Loop) (h : Fixed acc) :
    ∀ x ∈ acc, x.1 ≠ 1 ∧ (x.1 = 0 → x.2 = 0) := by
  induction acc with
  | nil => intro x hx; cases hx
  | cons y rest ih =>
    intro x hx
    rcases List.mem_cons.mp hx with rfl | hx
    · obtain ⟨hy, _⟩ := h
      obtain ⟨ub, ts⟩ := x
      unfold step at hy
      simp only [] at hy
      constructor
      · intro h1
        simp only [] at h1
        subst h1
        simp at hy
      · intro h0
        simp only [] at h0
        subst h0
        simp at hy
        exact hy.symm
    · exact ih h.2 x hx

/-! ### the attribute -/

theorem zip_unzip' {α β} (l : List (α × β)) : l.unzip.1.zip l.unzip.2 = l := List.zip_unzip l

theorem canonicalize_loops (p : Pattern) (h : (0 : Int) ∉ p.ss) :
    p.canonicalize.loops = canonLoops p.loops := by
  unfold Pattern.canonicalize
  rw [if_neg h]
  simp only [Pattern.loops]
  exact zip_unzip' _

end Stride
end SnaxVerif
