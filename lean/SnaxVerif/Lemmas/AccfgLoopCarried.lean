import SnaxVerif.Lemmas.AccfgLoopOverlap
import SnaxVerif.Lemmas.AccfgMerge
/-! Loop-level overlap for loops with carried data values (desugared into casts): correctness of the rotation (C06). -/
namespace SnaxVerif.Accfg

variable (cfg : Cfg)

/-! ### the chain computed on a suffix of `pre` (the head casts `H` are never cloned: their results are parameters) -/

theorem inputChain_closed_gen (pre : List Stmt) (iv : Var) (hssa : pureSSA pre = true) (H : List Stmt) :
    ∀ (R B : List Stmt), pre = H ++ (R.reverse ++ B) → ∀ (need : List Var) (K : List Var), iv ∈ K →
      (∀ y ∈ H.flatMap pureDef, y ∈ K) →
      closedChain (pre.flatMap pureDef) iv (inputChain R need) K = true ∧
      (∀ x ∈ need, x ∈ R.reverse.flatMap pureDef → x ∈ (inputChain R need).flatMap pureDef)
  | [], _, _, need, K, _, _ => by simp [inputChain, closedChain]
  | s :: R, B, hpre, need, K, hK, hH => by
      have hpre' : pre = H ++ (R.reverse ++ s :: B) := by rw [hpre]; simp
      have hpre'' : pre = (H ++ R.reverse) ++ s :: B := by rw [hpre']; simp
      cases s
      case pure d op args =>
        simp only [inputChain]
        split
        · next hneed =>
          obtain ⟨ihc, ihcov⟩ := inputChain_closed_gen pre iv hssa H R (Stmt.pure d op args :: B) hpre' (need ++ args) K hK hH
          refine ⟨?_, ?_⟩
          · rw [closedChain_append, ihc, Bool.true_and]
            simp only [closedChain, Bool.and_true, List.all_eq_true, Bool.or_eq_true, List.contains_eq_mem, decide_eq_true_eq,
              Bool.and_eq_true, Bool.not_eq_true', decide_eq_false_iff_not, bne_iff_ne, ne_eq, List.mem_append, List.mem_reverse]
            intro y hy
            by_cases hyiv : y = iv
            · exact Or.inl (Or.inr (hyiv ▸ hK))
            by_cases hyp : y ∈ pre.flatMap pureDef
            · have hbefore := ssa_arg_defined_before (H ++ R.reverse) (Stmt.pure d op args) B (hpre'' ▸ hssa) y
                (by simpa [pureArgs] using hy) (hpre'' ▸ hyp)
              simp only [List.flatMap_append, List.mem_append] at hbefore
              rcases hbefore with hb | hb
              · exact Or.inl (Or.inr (hH y hb))
              · exact Or.inl (Or.inl (ihcov y (List.mem_append_right _ hy) hb))
            · exact Or.inr ⟨hyp, hyiv⟩
          · intro x hx hxd
            simp only [List.reverse_cons, List.flatMap_append, List.flatMap_cons, List.flatMap_nil, pureDef, List.mem_append,
              List.mem_singleton, List.append_nil] at hxd ⊢
            rcases hxd with hxd | hxd
            · exact Or.inl (ihcov x (List.mem_append_left _ hx) hxd)
            · exact Or.inr hxd
        · next hneed =>
          obtain ⟨ihc, ihcov⟩ := inputChain_closed_gen pre iv hssa H R (Stmt.pure d op args :: B) hpre' need K hK hH
          refine ⟨ihc, ?_⟩
          intro x hx hxd
          simp only [List.reverse_cons, List.flatMap_append, List.flatMap_cons, List.flatMap_nil, pureDef, List.mem_append,
            List.mem_singleton, List.append_nil] at hxd
          rcases hxd with hxd | hxd
          · exact ihcov x hx hxd
          · exact absurd (by simpa [hxd] using hx) hneed
      all_goals
        simp only [inputChain]
        obtain ⟨ihc, ihcov⟩ := inputChain_closed_gen pre iv hssa H R (_ :: B) hpre' need K hK hH
        refine ⟨ihc, ?_⟩
        intro x hx hxd
        simp only [List.reverse_cons, List.flatMap_append, List.flatMap_cons, List.flatMap_nil, pureDef, List.append_nil] at hxd
        exact ihcov x hx hxd

/-- **the clones compute what `pre` will compute**, with any number of renamed parameters: `minit` maps the induction variable
and the block arguments to their sources; `E` is the environment in which `pre` will run, `e` the one in which the clones run.
They must agree on the variables the chain reads and `pre` does not define (`hfree`), and the sources must hold in `e` what the
parameters will be worth after `pre` has run from `E` (`hinit`). -/
theorem clone_correct_gen (pre pre' : List Stmt) (need : List Var) (iv : Var) (minit : List (Var × Var)) (E e : Env) (F0 : Nat)
    (hssa : pureSSA pre = true) (hsub : ∀ s ∈ pre', s ∈ pre)
    (hcl : closedChain (pre.flatMap pureDef) iv (inputChain pre'.reverse need) (minit.map (·.1)) = true)
    (hcov : ∀ x ∈ need, x ∈ minit.map (·.1) ∨ x ∈ (inputChain pre'.reverse need).flatMap pureDef ∨
      (x ∉ pre.flatMap pureDef ∧ x ≠ iv))
    (hreads : ∀ s ∈ pre, ∀ y ∈ pureArgs s, y < F0) (hneed : ∀ x ∈ need, x < F0)
    (hinit : CloneInv (runPure cfg pre E) e minit F0)
    (hfree : ∀ y, (y ∈ need ∨ ∃ s ∈ pre', y ∈ pureArgs s) → y ∉ pre.flatMap pureDef → y ≠ iv → E y = e y) :
    (∀ x ∈ need, runPure cfg (cloneChain (inputChain pre'.reverse need) minit F0).1 e
        (renameVar (cloneChain (inputChain pre'.reverse need) minit F0).2.1 x)
      = runPure cfg pre E x)
    ∧ (∀ y, y < F0 → runPure cfg (cloneChain (inputChain pre'.reverse need) minit F0).1 e y = e y) := by
  obtain ⟨hinv, hag, hkeys⟩ := clone_inv cfg pre E e iv F0 hssa
    (fun y => y ∈ need ∨ ∃ s ∈ pre', y ∈ pureArgs s) hfree
    (inputChain pre'.reverse need) minit F0 e (Nat.le_refl _)
    (fun s hs => hsub s (List.mem_reverse.mp (inputChain_sub _ _ s hs))) hcl
    (fun s hs y hy => ⟨hreads s (hsub s (List.mem_reverse.mp (inputChain_sub _ _ s hs))) y hy,
      Or.inr ⟨s, List.mem_reverse.mp (inputChain_sub _ _ s hs), hy⟩⟩) (fun _ _ => rfl) hinit
  refine ⟨?_, hag⟩
  intro x hx
  by_cases hk : x ∈ (cloneChain (inputChain pre'.reverse need) minit F0).2.1.map (·.1)
  · obtain ⟨y', hy'⟩ := lookup_isSome_of_mem hk
    rw [renameVar_some hy']
    exact hinv.ok x y' hy'
  · have hnk := hk
    rw [hkeys x] at hnk
    simp only [not_or] at hnk
    rcases hcov x hx with h | h | h
    · exact absurd h hnk.2
    · exact absurd h hnk.1
    · rw [renameVar_none hk, hag x (hneed x hx), runPure_frame cfg pre _ x h.1]
      exact (hfree x (Or.inl hx) h.1 h.2).symm


/-! ### the rotation with carried values -/

/-- what the proof needs to know about the carried structure (established from the decidable `carrySide`) -/
structure CarryOK (fs : List (Field × Var)) (pre pre' tails : List Stmt) (iv : Var) (fresh : Nat)
    (params0 params1 : List (Var × Var)) : Prop where
  hsub : ∀ s ∈ pre', s ∈ pre
  hcl0 : closedChain (pre.flatMap pureDef) iv (inputChain pre'.reverse (fs.map (·.2))) (iv :: params0.map (·.1)) = true
  hcl1 : closedChain (pre.flatMap pureDef) iv (inputChain pre'.reverse (fs.map (·.2))) (iv :: params1.map (·.1)) = true
  hcov0 : ∀ x ∈ fs.map (·.2), x ∈ iv :: params0.map (·.1) ∨ x ∈ (inputChain pre'.reverse (fs.map (·.2))).flatMap pureDef ∨
    (x ∉ pre.flatMap pureDef ∧ x ≠ iv)
  hcov1 : ∀ x ∈ fs.map (·.2), x ∈ iv :: params1.map (·.1) ∨ x ∈ (inputChain pre'.reverse (fs.map (·.2))).flatMap pureDef ∨
    (x ∉ pre.flatMap pureDef ∧ x ≠ iv)
  htp : tails.all isPure = true
  htssa : pureSSA tails = true
  hp1 : ∀ p y, params1.lookup p = some y → p ≠ iv ∧ y < fresh ∧ y ∉ tails.flatMap pureDef ∧
    ∃ q, Stmt.pure p .cast [q] ∈ pre ∧ Stmt.pure q .cast [y] ∈ tails ∧ q ∉ pre.flatMap pureDef ∧ q ≠ iv
  hrd : ∀ y, (y ∈ fs.map (·.2) ∨ ∃ s ∈ pre', y ∈ pureArgs s) → y ∉ tails.flatMap pureDef

theorem defsB_ofList_pure : ∀ (l : List Stmt), l.all isPure = true → defsB (Block.ofList l) = l.flatMap pureDef
  | [], _ => rfl
  | s :: r, h => by
      simp only [List.all_cons, Bool.and_eq_true] at h
      cases s <;> simp_all [isPure, Block.ofList, defsB, defsS, pureDef, defsB_ofList_pure r]

theorem cast_eval (x : Int) : PureOp.eval cfg .cast [x] = x := rfl

set_option maxHeartbeats 800000 in
/-- **rotation of the first setup of a loop body, with carried values.** -/
theorem rot_loop_C (gh : Bool) (a : AccId) (fs : List (Field × Var)) (pre pre' after' tails : List Stmt) (lb ub st iv : Var)
    (fresh : Nat) (params0 params1 : List (Var × Var))
    (hs : RotSide a fs pre (after' ++ tails) lb ub st iv fresh)
    (hc : CarryOK fs pre pre' tails iv fresh params0 params1)
    (c0l c1l : List Stmt) (m0 m1 : List (Var × Var)) (next f1 : Nat)
    (hc0 : cloneChain (inputChain pre'.reverse (fs.map (·.2))) ((iv, lb) :: params0) fresh = (c0l, m0, next))
    (hc1 : cloneChain (inputChain pre'.reverse (fs.map (·.2))) ((iv, next) :: params1) (next + 1) = (c1l, m1, f1))
    (u : St)
    (hp0u : ∀ p x, params0.lookup p = some x → p ≠ iv ∧ x < fresh ∧
      ∃ q, Stmt.pure p .cast [q] ∈ pre ∧ q ∉ pre.flatMap pureDef ∧ q ≠ iv ∧ q < fresh ∧ u.env q = u.env x) :
    execS cfg gh (.forS lb ub st iv (Block.ofList (pre ++ (after' ++ (((Stmt.pure next .add [iv, st] :: c1l) ++
        [Stmt.setup a (fs.map fun p => (p.1, renameVar m1 p.2))]) ++ tails)))))
      (execB cfg gh (Block.ofList (c0l ++ [Stmt.setup a (fs.map fun p => (p.1, renameVar m0 p.2))])) u)
    = execS cfg gh (.forS lb ub st iv (Block.ofList (pre ++ (Stmt.setup a fs :: (after' ++ (((Stmt.pure next .add [iv, st] :: c1l) ++
        [Stmt.setup a (fs.map fun p => (p.1, renameVar m1 p.2))]) ++ tails))))))
      (execB cfg gh (Block.ofList (c0l ++ [Stmt.setup a (fs.map fun p => (p.1, renameVar m0 p.2))])) u) := by
  have hfn : fresh ≤ next := by
    have := (cloneChain_props (inputChain pre'.reverse (fs.map (·.2))) ((iv, lb) :: params0) fresh).1; rw [hc0] at this; exact this
  have hp0l : c0l.all isPure = true := by
    have := (cloneChain_props (inputChain pre'.reverse (fs.map (·.2))) ((iv, lb) :: params0) fresh).2; rw [hc0] at this; exact this
  have hp1l : c1l.all isPure = true := by
    have := (cloneChain_props (inputChain pre'.reverse (fs.map (·.2))) ((iv, next) :: params1) (next + 1)).2
    rw [hc1] at this; exact this
  have hd0 : ∀ x ∈ c0l.flatMap pureDef, fresh ≤ x := by
    have := cloneChain_defs_ge (inputChain pre'.reverse (fs.map (·.2))) ((iv, lb) :: params0) fresh; rw [hc0] at this; exact this
  have hd1 : ∀ x ∈ c1l.flatMap pureDef, next + 1 ≤ x := by
    have := cloneChain_defs_ge (inputChain pre'.reverse (fs.map (·.2))) ((iv, next) :: params1) (next + 1)
    rw [hc1] at this; exact this
  have lt_lb : lb < fresh := hs.hlt lb (by simp)
  have lt_st : st < fresh := hs.hlt st (by simp)
  have hreads : ∀ s ∈ pre, ∀ y ∈ pureArgs s, y < fresh := fun s hsm y hy =>
    hs.hlt y (by
      have := mem_readsB_ofList (pre ++ (after' ++ tails)) s y (List.mem_append_left _ hsm) (pureArgs_sub_reads s y hy)
      simp only [List.mem_append]; exact Or.inl (Or.inr this))
  have hneed : ∀ x ∈ fs.map (·.2), x < fresh := fun x hx => hs.hlt x (by simp only [List.mem_append]; exact Or.inr hx)
  have hiv_after : iv ∉ defsB (Block.ofList after') := fun h => hs.hivb (List.mem_append_right _ (by
    rw [defsB_ofList_append]; exact List.mem_append_left _ h))
  have hst_after : st ∉ defsB (Block.ofList after') := fun h => hs.hst (List.mem_append_right _ (by
    rw [defsB_ofList_append]; exact List.mem_append_left _ h))
  have hst_pre : st ∉ pre.flatMap pureDef := fun h => hs.hst (List.mem_append_left _ h)
  have hst_tails : st ∉ tails.flatMap pureDef := fun h => hs.hst (List.mem_append_right _ (by
    rw [defsB_ofList_append]; exact List.mem_append_right _ (by rwa [defsB_ofList_pure tails hc.htp])))
  have hiv_tails : iv ∉ tails.flatMap pureDef := fun h => hs.hivb (List.mem_append_right _ (by
    rw [defsB_ofList_append]; exact List.mem_append_right _ (by rwa [defsB_ofList_pure tails hc.htp])))
  -- values in the register `q` after the carry assignments
  have htail_val : ∀ (e : Env) q y, Stmt.pure q .cast [y] ∈ tails → y ∉ tails.flatMap pureDef → runPure cfg tails e q = e y := by
    intro e q y hm hy
    rw [runPure_val cfg tails e q .cast [y] hc.htssa hm]
    simp only [List.map, cast_eval]
    exact runPure_frame cfg tails e y hy
  have hw0 : execB cfg gh (Block.ofList (c0l ++ [Stmt.setup a (fs.map fun p => (p.1, renameVar m0 p.2))])) u
      = { u with env := runPure cfg c0l u.env,
                 regs := setRegs u.regs (runPure cfg c0l u.env) a (fs.map fun p => (p.1, renameVar m0 p.2)) } := by
    rw [execL_append, exec_pure_list cfg gh c0l hp0l]
    simp [Block.ofList, execB, execS]
  have he0 : ∀ y, y < fresh → runPure cfg c0l u.env y = u.env y := fun y hy =>
    runPure_frame cfg c0l _ y (fun hm => Nat.not_le_of_lt hy (hd0 y hm))
  rw [hw0]
  simp only [execS]
  apply iterFrom_congr_idx _ _
    (fun k x => x.env st = runPure cfg c0l u.env st ∧
      ∀ p ∈ fs, x.regs a p.1 = runPure cfg pre (setEnv x.env iv (runPure cfg c0l u.env lb + (k : Int) * runPure cfg c0l u.env st)) p.2)
  · intro k x ⟨hxst, hinv⟩
    obtain ⟨hW1env, hW1regs⟩ := exec_quiet_list cfg gh a pre hs.hpure
      { x with env := setEnv x.env iv (runPure cfg c0l u.env lb + (k : Int) * runPure cfg c0l u.env st) }
    generalize hW1 : execB cfg gh (Block.ofList pre)
      { x with env := setEnv x.env iv (runPure cfg c0l u.env lb + (k : Int) * runPure cfg c0l u.env st) } = W1 at hW1env hW1regs
    have hb1 : ∀ rest, execB cfg gh (Block.ofList (pre ++ rest))
          { x with env := setEnv x.env iv (runPure cfg c0l u.env lb + (k : Int) * runPure cfg c0l u.env st) }
        = execB cfg gh (Block.ofList rest) W1 :=
      fun rest => by rw [execL_append, hW1]
    have hb2 : ∀ rest, execB cfg gh (Block.ofList (pre ++ (Stmt.setup a fs :: rest)))
          { x with env := setEnv x.env iv (runPure cfg c0l u.env lb + (k : Int) * runPure cfg c0l u.env st) }
        = execB cfg gh (Block.ofList rest) W1 :=
      fun rest => by
        rw [execL_append, hW1]
        exact exec_setup_noop cfg gh a fs rest _ (fun p hp => by rw [hW1regs, hW1env]; exact hinv p hp)
    constructor
    · rw [hb1, hb2]
    · rw [hb2]
      rw [execL_append, execL_append, execL_append,
        exec_pure_list cfg gh (Stmt.pure next PureOp.add [iv, st] :: c1l) (by simp [isPure, hp1l]),
        exec_pure_list cfg gh tails hc.htp]
      generalize hw2 : execB cfg gh (Block.ofList after') W1 = w2
      have h2iv : w2.env iv = runPure cfg c0l u.env lb + (k : Int) * runPure cfg c0l u.env st := by
        rw [← hw2, envB_frame cfg gh _ iv hiv_after, hW1env]
        rw [runPure_frame cfg pre _ iv hs.hiv]; simp [setEnv]
      have h2st : w2.env st = runPure cfg c0l u.env st := by
        rw [← hw2, envB_frame cfg gh _ st hst_after, hW1env]
        rw [runPure_frame cfg pre _ st hst_pre]; simp [setEnv, hs.hne, hxst]
      simp only [Block.ofList, execB, execS, runPure, stepPure, PureOp.eval, List.map]
      -- the environment in which the clones ran, and after them
      have he1 : ∀ y, y < fresh → runPure cfg c1l (setEnv w2.env next (w2.env iv + w2.env st)) y = w2.env y := by
        intro y hy
        rw [runPure_frame cfg c1l _ y (fun hm => by have := hd1 y hm; omega)]
        simp only [setEnv]
        rw [if_neg (Nat.ne_of_lt (Nat.lt_of_lt_of_le hy hfn))]
      have hcc1 := clone_correct_gen cfg pre pre' (fs.map (·.2)) iv ((iv, next) :: params1)
        (setEnv (runPure cfg tails (runPure cfg c1l (setEnv w2.env next (w2.env iv + w2.env st)))) iv
          (runPure cfg c0l u.env lb + ((k + 1 : Nat) : Int) * runPure cfg c0l u.env st))
        (setEnv w2.env next (w2.env iv + w2.env st)) (next + 1) hs.hssa hc.hsub
        (by simpa using hc.hcl1) (by simpa using hc.hcov1)
        (fun s hsm y hy => Nat.lt_succ_of_le (Nat.le_trans (Nat.le_of_lt (hreads s hsm y hy)) hfn))
        (fun y hy => Nat.lt_succ_of_le (Nat.le_trans (Nat.le_of_lt (hneed y hy)) hfn))
        (by
          constructor
          · intro y y' hl
            simp only [List.lookup_cons] at hl
            split at hl
            · next hy =>
              injection hl with hl; subst hl
              have : y = iv := by simpa using hy
              subst this
              rw [runPure_frame cfg pre _ y hs.hiv]
              simp only [setEnv, if_true, h2iv, h2st]
              exact succ_mul_step _ _ k
            · obtain ⟨hpiv, hylt, hynt, q, hhead, htail, hqnp, hqiv⟩ := hc.hp1 y y' hl
              rw [runPure_val cfg pre _ y .cast [q] hs.hssa hhead]
              simp only [List.map, cast_eval]
              rw [runPure_frame cfg pre _ q hqnp]
              simp only [setEnv, if_neg hqiv]
              rw [htail_val _ q y' htail hynt, he1 y' hylt]
              rw [if_neg (Nat.ne_of_lt (Nat.lt_of_lt_of_le hylt hfn))]
          · intro y y' hl
            simp only [List.lookup_cons] at hl
            split at hl
            · injection hl with hl; subst hl; exact Nat.lt_succ_self _
            · exact Nat.lt_succ_of_le (Nat.le_trans (Nat.le_of_lt (hc.hp1 y y' hl).2.1) hfn))
        (by
          intro y hyrd hynp hyiv
          have hylt : y < fresh := by
            rcases hyrd with h | ⟨s, hsm, h⟩
            · exact hneed y h
            · exact hreads s (hc.hsub s hsm) y h
          simp only [setEnv, if_neg hyiv]
          rw [runPure_frame cfg tails _ y (hc.hrd y hyrd), he1 y hylt]
          rw [if_neg (Nat.ne_of_lt (Nat.lt_of_lt_of_le hylt hfn))])
      rw [hc1] at hcc1
      refine ⟨?_, ?_⟩
      · show runPure cfg tails (runPure cfg c1l _) st = _
        rw [runPure_frame cfg tails _ st hst_tails, he1 st lt_st, h2st]
      · intro p hp
        show setRegs w2.regs _ a _ a p.1 = _
        rw [setRegs_renamed _ _ _ _ _ hs.hnd p hp]
        exact hcc1.1 p.2 (List.mem_map_of_mem hp)
  · refine ⟨rfl, ?_⟩
    intro p hp
    show setRegs u.regs (runPure cfg c0l u.env) a (fs.map fun p => (p.1, renameVar m0 p.2)) a p.1 = _
    have hcc0 := clone_correct_gen cfg pre pre' (fs.map (·.2)) iv ((iv, lb) :: params0)
      (setEnv (runPure cfg c0l u.env) iv (runPure cfg c0l u.env lb + ((0 : Nat) : Int) * runPure cfg c0l u.env st))
      u.env fresh hs.hssa hc.hsub (by simpa using hc.hcl0) (by simpa using hc.hcov0) hreads hneed
      (by
        constructor
        · intro y y' hl
          simp only [List.lookup_cons] at hl
          split at hl
          · next hy =>
            injection hl with hl; subst hl
            have : y = iv := by simpa using hy
            subst this
            rw [runPure_frame cfg pre _ y hs.hiv]
            simp [setEnv, he0 lb lt_lb]
          · obtain ⟨hpiv, hxlt, q, hhead, hqnp, hqiv, hqlt, hal⟩ := hp0u y y' hl
            rw [runPure_val cfg pre _ y .cast [q] hs.hssa hhead]
            simp only [List.map, cast_eval]
            rw [runPure_frame cfg pre _ q hqnp]
            simp only [setEnv, if_neg hqiv]
            rw [he0 q hqlt]
            exact hal.symm
        · intro y y' hl
          simp only [List.lookup_cons] at hl
          split at hl
          · injection hl with hl; subst hl; exact lt_lb
          · exact (hp0u y y' hl).2.1)
      (by
        intro y hyrd hynp hyiv
        have hylt : y < fresh := by
          rcases hyrd with h | ⟨s, hsm, h⟩
          · exact hneed y h
          · exact hreads s (hc.hsub s hsm) y h
        simp only [setEnv, if_neg hyiv]
        exact he0 y hylt)
    rw [hc0] at hcc0
    rw [setRegs_renamed _ _ _ _ _ hs.hnd p hp]
    exact hcc0.1 p.2 (List.mem_map_of_mem hp)


/-! ### from the decidable side conditions to the hypotheses of the rotation -/

theorem isCastOf_eq {s : Stmt} {p q : Var} (h : isCastOf s = some (p, q)) : s = .pure p .cast [q] := by
  unfold isCastOf at h
  split at h
  · injection h with h; injection h with h1 h2; subst h1; subst h2; rfl
  · cases h

theorem any_isCastOf {l : List Stmt} {p q : Var} (h : l.any (fun s => isCastOf s == some (p, q)) = true) :
    Stmt.pure p .cast [q] ∈ l := by
  obtain ⟨s, hs, he⟩ := List.any_eq_true.mp h
  have : isCastOf s = some (p, q) := by simpa using he
  rw [← isCastOf_eq this]; exact hs

theorem lookup_dropMid {l : List (Var × Var × Var)} {p y : Var} (h : (dropMid l).lookup p = some y) :
    ∃ q, (p, q, y) ∈ l := by
  induction l with
  | nil => simp [dropMid] at h
  | cons t r ih =>
    simp only [dropMid, List.map_cons, List.lookup_cons] at h
    split at h
    · next hp =>
      injection h with h
      have : p = t.1 := by simpa using hp
      exact ⟨t.2.1, by rw [this, ← h]; exact List.mem_cons_self⟩
    · obtain ⟨q, hq⟩ := ih h
      exact ⟨q, List.mem_cons_of_mem _ hq⟩

/-- membership form of the alias environment's meaning -/
def AliasM (A : List (Var × Var)) (u : St) : Prop := ∀ p ∈ A, u.env p.1 = u.env p.2

theorem AliasM.lookup {A : List (Var × Var)} {u : St} (h : AliasM A u) {q x : Var} (hl : A.lookup q = some x) :
    u.env q = u.env x := by
  obtain ⟨l1, l2, hA, _⟩ := List.lookup_eq_some_iff.mp hl
  exact h (q, x) (by rw [hA]; simp)

theorem aliasStep_ok (gh : Bool) (s : Stmt) (A : List (Var × Var)) (u : St) (h : AliasM A u) :
    AliasM (aliasStep s A) (execS cfg gh s u) := by
  have hfilt : AliasM (A.filter (fun p => !(defsS s).contains p.1 && !(defsS s).contains p.2)) (execS cfg gh s u) := by
    intro p hp
    simp only [List.mem_filter, Bool.and_eq_true, Bool.not_eq_true', List.contains_eq_mem, decide_eq_false_iff_not] at hp
    rw [envS_frame cfg gh s p.1 hp.2.1 u, envS_frame cfg gh s p.2 hp.2.2 u]
    exact h p hp.1
  unfold aliasStep
  cases hc : isCastOf s with
  | none => simpa using hfilt
  | some dx =>
    obtain ⟨d, x⟩ := dx
    simp only []
    split
    · exact hfilt
    · next hne =>
      intro p hp
      rcases List.mem_cons.mp hp with hp | hp
      · subst hp
        rw [isCastOf_eq hc]
        simp only [execS, setEnv, if_true, List.map, cast_eval]
        rw [if_neg (fun hxd => hne hxd.symm)]
      · exact hfilt p hp

theorem carry_unpack {A : List (Var × Var)} {a : AccId} {fs : List (Field × Var)} {pre after : List Stmt} {lb ub st iv : Var}
    {fresh : Nat} (h : rotGuardC true A a fs pre after lb ub st iv fresh = true) :
    RotSide a fs pre after lb ub st iv fresh ∧
    CarryOK fs pre (pre.drop (nHeads pre after)) (after.drop (after.length - nTails pre after)) iv fresh
      (dropMid (params0T A (pre.take (nHeads pre after))))
      (dropMid (params1T (pre.take (nHeads pre after)) (after.drop (after.length - nTails pre after)))) ∧
    (∀ p x, (dropMid (params0T A (pre.take (nHeads pre after)))).lookup p = some x → p ≠ iv ∧ x < fresh ∧
      ∃ q, Stmt.pure p .cast [q] ∈ pre ∧ q ∉ pre.flatMap pureDef ∧ q ≠ iv ∧ q < fresh ∧ A.lookup q = some x) := by
  simp only [rotGuardC, Bool.and_eq_true, Bool.not_true, Bool.false_or] at h
  obtain ⟨⟨_, hrg⟩, hcs⟩ := h
  have hs := rotGuard_side hrg
  simp only [carrySide, Bool.and_eq_true] at hcs
  obtain ⟨⟨⟨⟨⟨htp, htssa⟩, ht1⟩, ht0⟩, hps⟩, hrd⟩ := hcs
  have hpre : pre = pre.take (nHeads pre after) ++ (((pre.drop (nHeads pre after)).reverse).reverse ++ []) := by simp
  have hps' := List.all_eq_true.mp hps
  have hclosed : ∀ (K : List Var), iv ∈ K → (∀ y ∈ (pre.take (nHeads pre after)).flatMap pureDef, y ∈ K) →
      closedChain (pre.flatMap pureDef) iv (inputChain (pre.drop (nHeads pre after)).reverse (fs.map (·.2))) K = true ∧
      (∀ x ∈ fs.map (·.2), x ∈ K ∨ x ∈ (inputChain (pre.drop (nHeads pre after)).reverse (fs.map (·.2))).flatMap pureDef ∨
        (x ∉ pre.flatMap pureDef ∧ x ≠ iv)) := by
    intro K hK hH
    have hc := inputChain_closed_gen pre iv hs.hssa (pre.take (nHeads pre after)) (pre.drop (nHeads pre after)).reverse []
      hpre (fs.map (·.2)) K hK hH
    refine ⟨hc.1, ?_⟩
    intro x hx
    by_cases hp : x ∈ pre.flatMap pureDef
    · have : x ∈ (pre.take (nHeads pre after)).flatMap pureDef ∨ x ∈ (pre.drop (nHeads pre after)).flatMap pureDef := by
        rw [← List.mem_append, ← List.flatMap_append, List.take_append_drop]; exact hp
      rcases this with h1 | h1
      · exact Or.inl (hH x h1)
      · exact Or.inr (Or.inl (hc.2 x hx (by simpa using h1)))
    · by_cases hiv : x = iv
      · exact Or.inl (hiv ▸ hK)
      · exact Or.inr (Or.inr ⟨hp, hiv⟩)
  have hK0 := hclosed (iv :: (dropMid (params0T A (pre.take (nHeads pre after)))).map (·.1)) List.mem_cons_self
    (fun y hy => by
      have := hps' y hy
      simp only [Bool.and_eq_true, List.contains_eq_mem, decide_eq_true_eq] at this
      exact List.mem_cons_of_mem _ this.1)
  have hK1 := hclosed (iv :: (dropMid (params1T (pre.take (nHeads pre after))
      (after.drop (after.length - nTails pre after)))).map (·.1)) List.mem_cons_self
    (fun y hy => by
      have := hps' y hy
      simp only [Bool.and_eq_true, List.contains_eq_mem, decide_eq_true_eq] at this
      exact List.mem_cons_of_mem _ this.2)
  refine ⟨hs, ⟨fun s hsm => List.mem_of_mem_drop hsm, hK0.1, hK1.1, hK0.2, hK1.2, htp, htssa, ?_, ?_⟩, ?_⟩
  · intro p y hl
    obtain ⟨q, hq⟩ := lookup_dropMid hl
    have := (List.all_eq_true.mp ht1) (p, q, y) hq
    simp only [Bool.and_eq_true, Bool.not_eq_true', List.contains_eq_mem, decide_eq_false_iff_not, bne_iff_ne, ne_eq,
      decide_eq_true_eq] at this
    obtain ⟨⟨⟨⟨⟨⟨h1, h2⟩, h3⟩, h4⟩, h5⟩, h6⟩, h7⟩ := this
    exact ⟨h5, h6, h7, q, any_isCastOf h1, any_isCastOf h2, h3, h4⟩
  · intro y hy hm
    have := (List.all_eq_true.mp hrd) y hm
    simp only [Bool.and_eq_true, Bool.not_eq_true', List.contains_eq_mem, decide_eq_false_iff_not] at this
    rcases hy with hy | ⟨s, hsm, hy⟩
    · exact this.1 hy
    · exact this.2 (List.mem_flatMap.mpr ⟨s, hsm, hy⟩)
  · intro p x hl
    obtain ⟨q, hq⟩ := lookup_dropMid hl
    have := (List.all_eq_true.mp ht0) (p, q, x) hq
    simp only [Bool.and_eq_true, Bool.not_eq_true', List.contains_eq_mem, decide_eq_false_iff_not, bne_iff_ne, ne_eq,
      decide_eq_true_eq, beq_iff_eq] at this
    obtain ⟨⟨⟨⟨⟨⟨h1, h2⟩, h3⟩, h4⟩, h5⟩, h6⟩, h7⟩ := this
    exact ⟨h5, h6, q, any_isCastOf h1, h3, h4, h7, h2⟩


/-! ### the variants of the carried rewrite and the relations between them -/

theorem loopOverlapC_zero {keep ghost chk : Bool} {j fresh : Nat} {A : List (Var × Var)} {F : Facts} {s : Stmt} {r b1 : Block}
    (h : loopOverlapC keep ghost chk j fresh A F (.cons s r) 0 = some b1) :
    ∃ lb ub st iv body a fs after, s = .forS lb ub st iv body ∧ body.toList.drop j = .setup a fs :: after ∧
      rotGuardC chk A a fs (body.toList.take j) after lb ub st iv fresh = true ∧
      b1 = rotWindowC keep ghost
        (dropMid (params0T A ((body.toList.take j).take (nHeads (body.toList.take j) after))))
        (dropMid (params1T ((body.toList.take j).take (nHeads (body.toList.take j) after))
          (after.drop (after.length - nTails (body.toList.take j) after))))
        (nHeads (body.toList.take j) after) (nTails (body.toList.take j) after)
        a fs (body.toList.take j) after lb ub st iv fresh r := by
  simp only [loopOverlapC] at h
  split at h
  · next lb ub st iv body =>
    split at h
    · next a fs after hdrop =>
      split at h
      · next hg =>
        injection h with h
        exact ⟨lb, ub, st, iv, body, a, fs, after, rfl, hdrop, hg, h.symm⟩
      · cases h
    · cases h
  · cases h

theorem loopOverlapC_zero_intro (keep ghost chk : Bool) (j fresh : Nat) (A : List (Var × Var)) (F : Facts) (lb ub st iv : Var)
    (body r : Block) (a : AccId) (fs : List (Field × Var)) (after : List Stmt)
    (hdrop : body.toList.drop j = .setup a fs :: after)
    (hg : rotGuardC chk A a fs (body.toList.take j) after lb ub st iv fresh = true) :
    loopOverlapC keep ghost chk j fresh A F (.cons (.forS lb ub st iv body) r) 0
      = some (rotWindowC keep ghost
        (dropMid (params0T A ((body.toList.take j).take (nHeads (body.toList.take j) after))))
        (dropMid (params1T ((body.toList.take j).take (nHeads (body.toList.take j) after))
          (after.drop (after.length - nTails (body.toList.take j) after))))
        (nHeads (body.toList.take j) after) (nTails (body.toList.take j) after)
        a fs (body.toList.take j) after lb ub st iv fresh r) := by
  simp only [loopOverlapC, hdrop, hg, if_true]

/-- (C) erasing the original setup from the rotated loop changes nothing, for states in which the alias environment holds -/
theorem rotC_erase_aux (gh : Bool) (j fresh : Nat) : (blk : Block) → ∀ (A : List (Var × Var)) (F : Facts) (i : Nat) (b1 : Block),
    loopOverlapC false false true j fresh A F blk i = some b1 →
    ∃ b2, loopOverlapC true false true j fresh A F blk i = some b2 ∧
      ∀ u, AliasM A u → execB cfg gh b1 u = execB cfg gh b2 u
  | .nil, _, _, _, _, h => by simp [loopOverlapC] at h
  | .cons s r, A, F, i+1, b1, h => by
      simp only [loopOverlapC, Option.map_eq_some_iff] at h
      obtain ⟨r1, hr1, rfl⟩ := h
      obtain ⟨r2, hr2, heq⟩ := rotC_erase_aux gh j fresh r (aliasStep s A) F i r1 hr1
      refine ⟨.cons s r2, by simp [loopOverlapC, hr2], ?_⟩
      intro u hu
      simp only [execB]
      exact heq _ (aliasStep_ok cfg gh s A u hu)
  | .cons s r, A, F, 0, b1, h => by
      obtain ⟨lb, ub, st, iv, body, a, fs, after, rfl, hdrop, hg, rfl⟩ := loopOverlapC_zero h
      refine ⟨_, loopOverlapC_zero_intro true false true j fresh A F lb ub st iv body r a fs after hdrop hg, ?_⟩
      intro u hu
      obtain ⟨hs, hc, hp0⟩ := carry_unpack hg
      have hs' : RotSide a fs (body.toList.take j)
          (after.take (after.length - nTails (body.toList.take j) after) ++
            after.drop (after.length - nTails (body.toList.take j) after)) lb ub st iv fresh := by
        rw [List.take_append_drop]; exact hs
      have key := rot_loop_C cfg gh a fs (body.toList.take j) _ _ _ lb ub st iv fresh _ _ hs' hc _ _ _ _ _ _ rfl rfl u
        (fun p x hl => by
          obtain ⟨h1, h2, q, h3, h4, h5, h6, h7⟩ := hp0 p x hl
          exact ⟨h1, h2, q, h3, h4, h5, h6, hu.lookup h7⟩)
      simp only [rotWindowC, Bool.false_eq_true, if_false, if_true]
      rw [exec_window, exec_window]
      exact congrArg (execB cfg gh r) key

theorem rotC_erase_orig (gh : Bool) (j fresh : Nat) :
    LocalRel cfg gh (loopOverlapC false false true j fresh []) (loopOverlapC true false true j fresh []) := by
  intro F b i b1 h
  obtain ⟨b2, hb2, heq⟩ := rotC_erase_aux cfg gh j fresh b [] F i b1 h
  exact ⟨b2, hb2, fun st => heq st (fun p hp => by cases hp)⟩


theorem exec_unghost_mid (l t : List Stmt) (a : AccId) (x : List (Field × Var)) (u : St) :
    execB cfg true (Block.ofList (l ++ ([Stmt.setup a x] ++ t))) u = execB cfg true (Block.ofList (l ++ ([Stmt.ghost a x] ++ t))) u := by
  have h1 := execL_append cfg true l ([Stmt.setup a x] ++ t) u
  have h2 := execL_append cfg true l ([Stmt.ghost a x] ++ t) u
  rw [h1, h2]
  simp [Block.ofList, execB, execS]

/-- (B') when ghosts are executed, making the two copies ghosts changes nothing -/
theorem rotC_ghost_aux (j fresh : Nat) : (blk : Block) → ∀ (A : List (Var × Var)) (F : Facts) (i : Nat) (b1 : Block),
    loopOverlapC true false true j fresh A F blk i = some b1 →
    ∃ b2, loopOverlapC true true true j fresh A F blk i = some b2 ∧ ∀ u, execB cfg true b1 u = execB cfg true b2 u
  | .nil, _, _, _, _, h => by simp [loopOverlapC] at h
  | .cons s r, A, F, i+1, b1, h => by
      simp only [loopOverlapC, Option.map_eq_some_iff] at h
      obtain ⟨r1, hr1, rfl⟩ := h
      obtain ⟨r2, hr2, heq⟩ := rotC_ghost_aux j fresh r (aliasStep s A) F i r1 hr1
      exact ⟨.cons s r2, by simp [loopOverlapC, hr2], fun u => by simp only [execB]; exact heq _⟩
  | .cons s r, A, F, 0, b1, h => by
      obtain ⟨lb, ub, st, iv, body, a, fs, after, rfl, hdrop, hg, rfl⟩ := loopOverlapC_zero h
      refine ⟨_, loopOverlapC_zero_intro true true true j fresh A F lb ub st iv body r a fs after hdrop hg, ?_⟩
      intro u
      simp only [rotWindowC, Bool.false_eq_true, if_false, if_true]
      rw [exec_window, exec_window, exec_unghost_last]
      congr 1
      apply forS_congr
      intro w
      have e1 : ∀ (pre : List Stmt) (S : Stmt) (af : List Stmt) (n : Stmt) (c : List Stmt) (s1 : Stmt) (t : List Stmt),
          pre ++ ([S] ++ (af ++ (((n :: c) ++ [s1]) ++ t))) = (pre ++ ([S] ++ (af ++ (n :: c)))) ++ ([s1] ++ t) := by
        intro pre S af n c s1 t; simp only [List.append_assoc, List.cons_append, List.nil_append]
      rw [e1, e1, exec_unghost_mid]

theorem rotC_ghost_copies (j fresh : Nat) :
    LocalRel cfg true (loopOverlapC true false true j fresh []) (loopOverlapC true true true j fresh []) :=
  fun F b i b1 h => rotC_ghost_aux cfg j fresh b [] F i b1 h

theorem readsB_ofList_append (l1 l2 : List Stmt) :
    readsB (Block.ofList (l1 ++ l2)) = readsB (Block.ofList l1) ++ readsB (Block.ofList l2) := by
  induction l1 with
  | nil => simp [Block.ofList, readsB]
  | cons s r ih => simp [Block.ofList, readsB, ih]

/-- extra pure statements and a ghost on the left, defining only variables in `D` -/
theorem pure_extra_left_nil (D : Var → Prop) (l : List Stmt) (a : AccId) (g : List (Field × Var)) (hp : l.all isPure = true)
    (hD : ∀ x ∈ l.flatMap pureDef, D x) (u v : St) (h : EqOff D u v) :
    EqOff D (execB cfg false (Block.ofList (l ++ [Stmt.ghost a g])) u) v :=
  pure_extra_left cfg D l a g hp hD u v h

/-- (A) the cloned chains and ghost copies are invisible when ghosts are not executed -/
theorem rotC_sim_aux (j fresh : Nat) : (blk : Block) → ∀ (A : List (Var × Var)) (F : Facts) (i : Nat) (blk' : Block),
    loopOverlapC true true true j fresh A F blk i = some blk' → (∀ x ∈ readsB blk, ¬ fresh ≤ x) →
    ∀ u v, EqOff (fun x => fresh ≤ x) u v → EqOff (fun x => fresh ≤ x) (execB cfg false blk' u) (execB cfg false blk v)
  | .nil, _, _, _, _, h, _, _, _, _ => by simp [loopOverlapC] at h
  | .cons s r, A, F, i+1, blk', h, hr, u, v, huv => by
      simp only [loopOverlapC, Option.map_eq_some_iff] at h
      obtain ⟨r1, hr1, rfl⟩ := h
      simp only [readsB, List.mem_append] at hr
      simp only [execB]
      exact rotC_sim_aux j fresh r (aliasStep s A) F i r1 hr1 (fun x hx => hr x (Or.inr hx)) _ _
        (sameS_sim cfg _ s (fun x hx => hr x (Or.inl hx)) u v huv)
  | .cons s r, A, F, 0, blk', h, hr, u, v, huv => by
      obtain ⟨lb, ub, st, iv, body, a, fs, after, rfl, hdrop, hg, rfl⟩ := loopOverlapC_zero h
      simp only [readsB, readsS, List.mem_append, List.mem_cons] at hr
      have hbody : body = Block.ofList ((body.toList.take j ++
          (Stmt.setup a fs :: after.take (after.length - nTails (body.toList.take j) after))) ++
          after.drop (after.length - nTails (body.toList.take j) after)) := by
        rw [List.append_assoc, List.cons_append, List.take_append_drop, ← hdrop, List.take_append_drop, ofList_toList]
      have hrb : ∀ z ∈ readsB body, ¬ fresh ≤ z := fun z hz => hr z (Or.inl (Or.inr (Or.inr (Or.inr hz))))
      rw [hbody, readsB_ofList_append] at hrb
      have hfn := (cloneChain_props (inputChain ((body.toList.take j).drop (nHeads (body.toList.take j) after)).reverse (fs.map (·.2)))
        ((iv, lb) :: dropMid (params0T A ((body.toList.take j).take (nHeads (body.toList.take j) after)))) fresh).1
      have hp0 := (cloneChain_props (inputChain ((body.toList.take j).drop (nHeads (body.toList.take j) after)).reverse (fs.map (·.2)))
        ((iv, lb) :: dropMid (params0T A ((body.toList.take j).take (nHeads (body.toList.take j) after)))) fresh).2
      have hd0 := cloneChain_defs_ge (inputChain ((body.toList.take j).drop (nHeads (body.toList.take j) after)).reverse (fs.map (·.2)))
        ((iv, lb) :: dropMid (params0T A ((body.toList.take j).take (nHeads (body.toList.take j) after)))) fresh
      simp only [rotWindowC, if_true]
      rw [exec_window]
      simp only [execB]
      apply sameB_sim cfg _ r (fun x hx => hr x (Or.inr hx))
      have hu1 := pure_extra_left cfg (fun x => fresh ≤ x) _ a
        (fs.map fun p => (p.1, renameVar (cloneChain (inputChain ((body.toList.take j).drop (nHeads (body.toList.take j) after)).reverse
          (fs.map (·.2))) ((iv, lb) :: dropMid (params0T A ((body.toList.take j).take (nHeads (body.toList.take j) after)))) fresh).2.1 p.2))
        hp0 hd0 u v huv
      generalize execB cfg false (Block.ofList ((cloneChain (inputChain ((body.toList.take j).drop (nHeads (body.toList.take j) after)).reverse
        (fs.map (·.2))) ((iv, lb) :: dropMid (params0T A ((body.toList.take j).take (nHeads (body.toList.take j) after)))) fresh).1 ++
        [Stmt.ghost a (fs.map fun p => (p.1, renameVar (cloneChain (inputChain ((body.toList.take j).drop
          (nHeads (body.toList.take j) after)).reverse (fs.map (·.2)))
          ((iv, lb) :: dropMid (params0T A ((body.toList.take j).take (nHeads (body.toList.take j) after)))) fresh).2.1 p.2))])) u
        = u1 at hu1 ⊢
      have h1 : u1.env lb = v.env lb := hu1.2.2 lb (hr lb (Or.inl (Or.inl rfl)))
      have h2 : u1.env ub = v.env ub := hu1.2.2 ub (hr ub (Or.inl (Or.inr (Or.inl rfl))))
      have h3 : u1.env st = v.env st := hu1.2.2 st (hr st (Or.inl (Or.inr (Or.inr (Or.inl rfl)))))
      simp only [execS, h1, h2, h3]
      apply iterFrom_rel _ _ (EqOff (fun x => fresh ≤ x)) _ _ 0 u1 v hu1
      intro k x y hxy
      have hxy' := hxy.setEnv iv (v.env lb + ↑k * v.env st)
      have e1 : ∀ (pre : List Stmt) (S : Stmt) (af : List Stmt) (T t : List Stmt),
          pre ++ ([S] ++ (af ++ (T ++ t))) = ((pre ++ (S :: af)) ++ T) ++ t := by
        intro pre S af T t; simp only [List.append_assoc, List.cons_append, List.nil_append]
      rw [e1, execL_append, execL_append]
      conv => rhs; rw [hbody, execL_append]
      apply sameB_sim cfg _ _ (fun z hz => hrb z (List.mem_append_right _ hz))
      apply pure_extra_left cfg (fun x => fresh ≤ x)
      · simp only [List.all_cons, isPure, Bool.true_and]
        exact (cloneChain_props _ _ _).2
      · intro z hz
        simp only [List.flatMap_cons, pureDef, List.mem_append, List.mem_singleton] at hz
        rcases hz with hz | hz
        · rw [hz]; exact hfn
        · exact Nat.le_trans hfn (Nat.le_trans (Nat.le_succ _) (cloneChain_defs_ge _ _ _ z hz))
      · exact sameB_sim cfg _ _ (fun z hz => hrb z (List.mem_append_left _ hz)) _ _ hxy'

theorem rotC_sim (j fresh : Nat) : LocalSim cfg (fun x => fresh ≤ x) (loopOverlapC true true true j fresh []) :=
  fun F blk i blk' h hr u v huv => rotC_sim_aux cfg j fresh blk [] F i blk' h hr u v huv

/-- **loop-level overlap on a loop with carried data values.** -/
theorem loop_overlap_carried_trace (path : List Nat) (j fresh : Nat) (b b' b2 bg : Block)
    (h' : applyLoopOverlapCGen false false path j fresh b = some b')
    (h2 : applyLoopOverlapCGen true false path j fresh b = some b2)
    (hg : applyLoopOverlapCGen true true path j fresh b = some bg)
    (hng : noGhostB b2 = true) (hok : okTB cfg.fields bg [] = true ∨ (wfB bg = true ∧ okBb cfg.fields bg noFacts = true))
    (hreads : ∀ x ∈ readsB b, x < fresh) (st : St) :
    (execB cfg false b' st).tr = (execB cfg false b st).tr := by
  unfold applyLoopOverlapCGen at h' h2 hg
  obtain ⟨b2', hb2', e1⟩ := rewriteB_rel cfg (rotC_erase_orig cfg false j fresh) b path noFacts b' h'
  rw [h2] at hb2'; injection hb2' with hb2'; subst hb2'
  obtain ⟨bg', hbg', e2⟩ := rewriteB_rel cfg (rotC_ghost_copies cfg j fresh) b path noFacts b2 h2
  rw [hg] at hbg'; injection hbg' with hbg'; subst hbg'
  have e3 : (execB cfg true bg st).tr = (execB cfg false bg st).tr := by
    rcases hok with hok | ⟨hwf, hok⟩
    · exact ghost_writes_unobservable_taint cfg bg hok st
    · exact ghost_writes_unobservable cfg bg hwf (okBb_ok cfg bg noFacts hok) st
  have e4 := posB_sim cfg (fun x => fresh ≤ x) (rotC_sim cfg j fresh) b path noFacts bg hg
    (fun x hx => Nat.not_le_of_lt (hreads x hx)) st st ⟨rfl, rfl, fun _ _ => rfl⟩
  rw [e1 st, ← noGhostB_exec cfg b2 hng st, e2 st, e3, e4.2.1]

end SnaxVerif.Accfg
