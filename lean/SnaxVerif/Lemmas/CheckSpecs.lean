import SnaxVerif.Lemmas.PostInduct
/-! What the two extra checks of `scheduler.py` MEAN, as Prop-level statements about loops, proved from the
model of the code's own predicates (the harness oracle evaluates the same statements on the real objects). -/
namespace SnaxVerif.Sched
open List

/-- in a Boolean list of the form `true* false*` no `false` is followed by a `true` -/
theorem dropWhile_all_not : ∀ (L : List Bool), (L.dropWhile id).all (!·) = true →
    ∀ i j, i < j → L[i]? = some false → j < L.length → L[j]? = some false
  | [], _, i, j, _, _, hj => by simp at hj
  | a :: L, h, i, j, hij, hi, hj => by
    cases a with
    | true =>
      simp only [dropWhile_cons, id, if_true] at h
      cases i with
      | zero => simp at hi
      | succ i =>
        cases j with
        | zero => omega
        | succ j =>
          simp only [getElem?_cons_succ] at hi ⊢
          exact dropWhile_all_not L h i j (by omega) hi (by simpa using hj)
    | false =>
      simp only [dropWhile_cons, id] at h
      have hall : ∀ x ∈ (false :: L), x = false := by
        intro x hx
        have h' : (false :: L).all (!·) = true := h
        have := List.all_eq_true.mp h' x hx
        simpa using this
      have hjlt : j < (false :: L).length := hj
      rw [List.getElem?_eq_getElem hjlt]
      exact congrArg some (hall _ (List.getElem_mem hjlt))

/-- loop `d` does not move operand `o` (all coefficients of column `d` are zero): a reduction loop for it -/
def Fixes (o : Operand) (d : Nat) : Prop := ∀ r ∈ o.rows, r.getD d 0 = 0

/-- **pure output stationarity**: among the first `tc` (temporal) loops, outermost first, every loop enclosed
by a loop that keeps the output index fixed keeps it fixed too (all parallel loops precede the reductions) -/
def OutputStationary (tc : Nat) (o : Operand) : Prop := ∀ i j, i < j → j < tc → Fixes o i → Fixes o j

theorem any_ne_zero_false_iff (o : Operand) (d : Nat) :
    (o.rows.any fun r => r.getD d 0 != 0) = false ↔ Fixes o d := by
  unfold Fixes
  constructor
  · intro h r hr
    have := List.any_eq_false.mp h r hr
    simpa using this
  · intro h
    apply List.any_eq_false.mpr
    intro r hr
    have := h r hr
    simp only [bne_iff_ne, ne_eq, Decidable.not_not]
    exact this

theorem isPureOutputStationary_spec (t : Template) (s : Schedule) (o : Operand)
    (h : isPureOutputStationary t s = true) (ho : s.ops.getLast? = some o) :
    OutputStationary (temporalCount t.n s.n) o := by
  unfold isPureOutputStationary at h
  rw [ho] at h
  simp only at h
  intro i j hij hj hfi
  have hlen : ((List.range (temporalCount t.n s.n)).map fun j => o.rows.any fun r => r.getD j 0 != 0).length
      = temporalCount t.n s.n := by simp
  have key := dropWhile_all_not _ h i j hij
    (by
      rw [List.getElem?_map, List.getElem?_range (by omega)]
      simp only [Option.map_some]
      exact congrArg some ((any_ne_zero_false_iff o i).mpr hfi))
    (by rw [hlen]; exact hj)
  rw [List.getElem?_map, List.getElem?_range hj] at key
  simp only [Option.map_some, Option.some.injEq] at key
  exact (any_ne_zero_false_iff o j).mp key

/-- **memory access granularity** for one operand with `m` elements per bank: some operand dimension (row) is
walked with a stride of exactly one element by a spatially unrolled loop while every temporal loop moves it
by a multiple of `m` -/
def Packable (tc tn : Nat) (m : Int) (o : Operand) : Prop :=
  ∃ r ∈ o.rows, (∀ e ∈ r.take tc, e % m = 0) ∧ (∃ e ∈ spatialPart tn r, e = 1)

/-- elements of `size` bytes per 8-byte bank, `ceil(8 / size)` -/
def perBank (size : Nat) : Int := (((8 + size - 1) / size : Nat) : Int)

theorem isMemoryFlexibleEnough_spec (sizes : List Nat) (t : Template) (s : Schedule)
    (h : isMemoryFlexibleEnough sizes t s = true) (hn : s.n > t.n) :
    ∀ p ∈ s.ops.zip sizes, Packable (temporalCount t.n s.n) t.n (perBank p.2) p.1 := by
  unfold isMemoryFlexibleEnough at h
  simp only [hn, not_true_eq_false, if_false] at h
  intro p hp
  have := List.all_eq_true.mp h p hp
  obtain ⟨r, hr, hrow⟩ := List.any_eq_true.mp this
  simp only [Bool.and_eq_true, Bool.not_eq_true'] at hrow
  refine ⟨r, hr, ?_, ?_⟩
  · intro e he
    have := List.any_eq_false.mp hrow.1 e he
    simpa [perBank] using this
  · obtain ⟨e, he, h1⟩ := List.any_eq_true.mp hrow.2
    exact ⟨e, he, by simpa using h1⟩

end SnaxVerif.Sched
