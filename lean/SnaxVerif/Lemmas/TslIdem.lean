import SnaxVerif.Model.Tsl
/-!
# `TiledStride.canonicalize` reaches a normal form (helper lemmas for `C10.canonicalize_idempotent`)

`nfT t`: no stride but the innermost has bound 1 and no adjacent pair passes the squash test. `canonT` produces
such a list (`nfT_canonT`) and leaves such a list alone (`canonT_of_nfT`), for option-valued (dynamic) strides too.
-/
namespace SnaxVerif.Tsl

/-- the normal form of `TiledStride.canonicalize`: nothing left to drop, nothing left to squash -/
def nfT : TStride → Bool
  | [] => true
  | [_] => true
  | s :: h :: t => (s.bound != some 1) && !squashable h s && nfT (h :: t)

theorem canonT_of_nfT : ∀ (t : TStride), nfT t = true → canonT t = t
  | [], _ => rfl
  | [_], _ => rfl
  | s :: h :: t, hn => by
    simp only [nfT, Bool.and_eq_true, bne_iff_ne, ne_eq, Bool.not_eq_true'] at hn
    obtain ⟨⟨h1, h2⟩, h3⟩ := hn
    have ih := canonT_of_nfT (h :: t) h3
    rw [canonT, ih]
    simp [h1, h2]

/-- squashing the head with an outer stride keeps the squash test against the next inner stride unchanged -/
theorem squashable_merge (h2 h s : Stride) (hsq : squashable h s = true) :
    squashable h2 ⟨h.step, mulOpt h.bound s.bound⟩ = squashable h2 h := by
  obtain ⟨hs, hb⟩ := h
  obtain ⟨ss, sb⟩ := s
  cases hb with
  | none => simp [squashable, truthy] at hsq
  | some hb =>
    cases sb with
    | none => simp [squashable, truthy] at hsq
    | some sb =>
      cases hb with
      | zero => simp [squashable, truthy] at hsq
      | succ hb =>
        cases sb with
        | zero => simp [squashable, truthy] at hsq
        | succ sb =>
          have : (hb + 1) * (sb + 1) = (hb * sb + hb + sb) + 1 := by
            simp only [Nat.add_mul, Nat.mul_add]; omega
          simp only [squashable, mulOpt, this, truthy]

theorem merge_bound_ne_one (h s : Stride) (h1 : h.bound ≠ some 1) (hsq : squashable h s = true) :
    mulOpt h.bound s.bound ≠ some 1 := by
  obtain ⟨hs, hb⟩ := h
  obtain ⟨ss, sb⟩ := s
  cases hb with
  | none => simp [squashable, truthy] at hsq
  | some hb =>
    cases sb with
    | none => simp [squashable, truthy] at hsq
    | some sb =>
      simp only [mulOpt, ne_eq, Option.some.injEq] at h1 ⊢
      intro hm
      exact h1 (Nat.eq_one_of_mul_eq_one_right hm)

theorem nfT_canonT : ∀ (t : TStride), nfT (canonT t) = true
  | [] => rfl
  | s :: r => by
    have ih := nfT_canonT r
    rw [canonT]
    cases hc : canonT r with
    | nil => rfl
    | cons h t =>
      rw [hc] at ih
      simp only
      by_cases hb : s.bound = some 1
      · simp [hb, ih]
      · by_cases hsq : squashable h s = true
        · simp only [hb, ↓reduceIte, hsq]
          cases t with
          | nil => rfl
          | cons h2 t2 =>
            simp only [nfT, Bool.and_eq_true, bne_iff_ne, ne_eq, Bool.not_eq_true'] at ih ⊢
            obtain ⟨⟨i1, i2⟩, i3⟩ := ih
            exact ⟨⟨merge_bound_ne_one h s i1 hsq, by rw [squashable_merge h2 h s hsq]; exact i2⟩, i3⟩
        · simp only [hb, ↓reduceIte, hsq]
          show ((s.bound != some 1) && !squashable h s && nfT (h :: t)) = true
          simp only [Bool.and_eq_true, bne_iff_ne, ne_eq, Bool.not_eq_true']
          exact ⟨⟨hb, by simpa using hsq⟩, ih⟩

theorem canonT_idem (t : TStride) : canonT (canonT t) = canonT t := canonT_of_nfT _ (nfT_canonT t)

end SnaxVerif.Tsl

namespace SnaxVerif.Tsl

/-- canonicalising never adds a tile -/
theorem canonT_length_le : ∀ (t : TStride), (canonT t).length ≤ t.length
  | [] => Nat.le_refl _
  | s :: r => by
    have ih := canonT_length_le r
    rw [canonT]
    cases hc : canonT r with
    | nil => simp
    | cons h t =>
      rw [hc] at ih
      simp only [List.length_cons] at ih ⊢
      split
      · simp only [List.length_cons]; omega
      · split
        · simp only [List.length_cons]; omega
        · simp only [List.length_cons]; omega

/-- "always keep the innermost one": a non-empty dimension stays non-empty -/
theorem canonT_ne_nil : ∀ (t : TStride), t ≠ [] → canonT t ≠ []
  | [], h => absurd rfl h
  | s :: r, _ => by
    rw [canonT]
    cases hc : canonT r with
    | nil => simp
    | cons h t =>
      simp only
      split
      · simp
      · split <;> simp

end SnaxVerif.Tsl
