import SnaxVerif.Lemmas.DmaResolve
/-! C05: the TSL that `TransformDMA` reconstructs from a strided (or default) memref layout denotes that layout:
with static strides, the address the resolved entries assign to index `x` of a dimension is `x · stride · el`. -/
namespace SnaxVerif.Dma
open List

/-- one side of `tileAddr` -/
def tileAddrG (f : Entry → Nat) : List Entry → Nat → Nat
  | [], _ => 0
  | e :: r, x => (x / prodB r) * f e + tileAddrG f r (x % prodB r)

theorem tileAddr_eq (es : List Entry) (x : Nat) :
    tileAddr es x = (tileAddrG (·.sstep) es x, tileAddrG (·.dstep) es x) := by
  induction es generalizing x with
  | nil => rfl
  | cons e r ih => simp [tileAddr, tileAddrG, ih]

/-- every step is `σ` times the number of index values below it: a plain stride `σ`, tiled -/
def StridedChain (f : Entry → Nat) (σ : Nat) : List Entry → Prop
  | [] => True
  | e :: r => f e = σ * prodB r ∧ StridedChain f σ r

theorem tileAddrG_strided (f : Entry → Nat) (σ : Nat) : ∀ (es : List Entry), es ≠ [] → StridedChain f σ es →
    ∀ x, tileAddrG f es x = x * σ
  | [], h, _, _ => absurd rfl h
  | [e], _, hc, x => by
    simp [tileAddrG, prodB, hc.1, Nat.mul_comm]
  | e :: e' :: r, _, hc, x => by
    have ih := tileAddrG_strided f σ (e' :: r) (by simp) hc.2 (x % prodB (e' :: r))
    simp only [tileAddrG] at ih ⊢
    rw [ih, hc.1]
    generalize prodB (e' :: r) = W
    calc x / W * (σ * W) + x % W * σ = (W * (x / W) + x % W) * σ := by
          rw [Nat.add_mul, Nat.mul_comm σ W, ← Nat.mul_assoc, Nat.mul_comm (x / W) W]
      _ = x * σ := by rw [Nat.div_add_mod]


/-! ### what `TiledStride.from_stride` builds from a static stride and static inner tile bounds -/

def prodL : List Nat → Nat
  | [] => 1
  | b :: r => b * prodL r

theorem prodL_ne_zero : ∀ (bs : List Nat), (∀ b ∈ bs, b ≠ 0) → prodL bs ≠ 0
  | [], _ => by simp [prodL]
  | b :: r, h => by
    simp only [prodL]
    exact Nat.mul_ne_zero (h b (by simp)) (prodL_ne_zero r (fun x hx => h x (by simp [hx])))

def stepsOf (s : Nat) : List Nat → List Nat
  | [] => [s]
  | b :: r => s * (b * prodL r) :: stepsOf s r

theorem stepsOf_head (s : Nat) (bs : List Nat) : (stepsOf s bs).head? = some (s * prodL bs) := by
  cases bs <;> simp [stepsOf, prodL]

theorem fsSteps_static (s : Nat) : ∀ (bs : List Nat), (∀ b ∈ bs, b ≠ 0) →
    fsSteps (some s) (bs.map some) = (stepsOf s bs).map some
  | [], _ => by simp [fsSteps, stepsOf]
  | b :: r, h => by
    have ih := fsSteps_static s r (fun x hx => h x (by simp [hx]))
    have hb : b ≠ 0 := h b (by simp)
    simp only [map_cons, fsSteps, ih, stepsOf, head?_map, stepsOf_head, Option.map_some, Option.join_some]
    have ht1 : truthy (some b) = true := by simp [truthy, hb]
    simp only [ht1, Option.isSome_some, Bool.and_self, if_true, Option.getD_some]
    congr 2
    rw [Nat.mul_left_comm]

/-- strides of the inner depths: depth with bound `b` steps by `s` times the product of the bounds below it -/
def innerStrides (s : Nat) : List Nat → List Stride
  | [] => []
  | b :: r => ⟨some (s * prodL r), some b⟩ :: innerStrides s r

theorem zip_inner (s : Nat) : ∀ (bs : List Nat),
    List.zipWith Stride.mk ((stepsOf s bs).tail.map some) (bs.map some) = innerStrides s bs
  | [] => by simp [innerStrides]
  | b :: r => by
    have ih := zip_inner s r
    cases r with
    | nil => simp [stepsOf, innerStrides, prodL]
    | cons b' r' =>
      simp only [stepsOf, tail_cons, map_cons, zipWith_cons_cons, innerStrides] at ih ⊢
      rw [ih]
      simp [prodL]

/-- `from_stride(s, [b0, b1, …])` for static non-zero `s` and static non-zero inner bounds -/
theorem fromStride_static (s : Nat) (b0 : Option Nat) (bs : List Nat) (hbs : ∀ b ∈ bs, b ≠ 0) :
    fromStride (some s) (b0 :: bs.map some) = ⟨some (s * prodL bs), b0⟩ :: innerStrides s bs := by
  unfold fromStride
  simp only [tail_cons, fsSteps_static s bs hbs]
  have : stepsOf s bs = (s * prodL bs) :: (stepsOf s bs).tail := by
    cases bs <;> simp [stepsOf, prodL]
  rw [this]
  simp only [map_cons, zipWith_cons_cons, tail_cons, zip_inner]

/-! ### entries whose strides are such a chain form a plain stride -/

theorem inner_chain (st : Entry → Stride) (f : Entry → Nat) (el s : Nat) :
    ∀ (r : List Entry) (bs : List Nat), r.map st = innerStrides s bs → r.map (·.ss.bound) = bs.map some →
    (∀ e ∈ r, (∀ v, (st e).step = some v → f e = v * el) ∧ (∀ b, e.ss.bound = some b → e.bound = b)) →
    prodB r = prodL bs ∧ StridedChain f (s * el) r
  | [], [], _, _, _ => by simp [prodB, prodL, StridedChain]
  | [], _ :: _, h, _, _ => by simp [innerStrides] at h
  | _ :: _, [], h, _, _ => by simp [innerStrides] at h
  | e :: r, b :: bs, h, hb, hk => by
    simp only [map_cons, innerStrides, cons.injEq] at h hb
    obtain ⟨ih1, ih2⟩ := inner_chain st f el s r bs h.2 hb.2 (fun x hx => hk x (by simp [hx]))
    obtain ⟨k1, k2⟩ := hk e (by simp)
    have hstep : (st e).step = some (s * prodL bs) := by rw [h.1]
    have hbound : e.bound = b := k2 b hb.1
    refine ⟨by simp [prodB, prodL, hbound, ih1], ?_, ih2⟩
    rw [k1 _ hstep, ih1, Nat.mul_right_comm]


theorem innerStrides_bounds (s : Nat) (bs : List Nat) : (innerStrides s bs).map (·.bound) = bs.map some := by
  induction bs with
  | nil => rfl
  | cons b r ih => simp [innerStrides, ih]

/-- one dimension whose strides on side `st` (source or destination) were built by `from_stride` from a static
stride `s`, with the source's inner tile bounds `bs`: that side's address of index `x` is `x · s · el`. -/
theorem strided_dim (st : Entry → Stride) (f : Entry → Nat) (el s : Nat) (b0 b0' : Option Nat)
    (bs : List Nat) (hbs : ∀ b ∈ bs, b ≠ 0) (es : List Entry)
    (h : es.map st = fromStride (some s) (b0 :: bs.map some))
    (hb : es.map (·.ss.bound) = b0' :: bs.map some)
    (hk : ∀ e ∈ es, (∀ v, (st e).step = some v → f e = v * el) ∧ (∀ b, e.ss.bound = some b → e.bound = b)) :
    ∀ x, tileAddrG f es x = x * (s * el) := by
  rw [fromStride_static s b0 bs hbs] at h
  cases es with
  | nil => simp at h
  | cons e0 r =>
    simp only [map_cons, cons.injEq] at h hb
    obtain ⟨hp, hc⟩ := inner_chain st f el s r bs h.2 hb.2 (fun x hx => hk x (by simp [hx]))
    refine tileAddrG_strided f (s * el) (e0 :: r) (by simp) ⟨?_, hc⟩
    have hstep : (st e0).step = some (s * prodL bs) := by rw [h.1]
    rw [(hk e0 (by simp)).1 _ hstep, hp, Nat.mul_right_comm]

theorem strided_dim_src (el s : Nat) (b0 : Option Nat) (bs : List Nat) (hbs : ∀ b ∈ bs, b ≠ 0)
    (es : List Entry) (h : es.map (·.ss) = fromStride (some s) (b0 :: bs.map some))
    (hk : ∀ e ∈ es, e.Consistent el) (x : Nat) : (tileAddr es x).1 = x * (s * el) := by
  rw [tileAddr_eq]
  refine strided_dim (·.ss) (·.sstep) el s b0 b0 bs hbs es h ?_ (fun e he => ⟨(hk e he).1, (hk e he).2.2⟩) x
  have := congrArg (List.map (·.bound)) h
  rw [fromStride_static s b0 bs hbs] at this
  simpa [innerStrides_bounds, Function.comp_def] using this

theorem strided_dim_dst (el s : Nat) (b0 b0' : Option Nat) (bs : List Nat) (hbs : ∀ b ∈ bs, b ≠ 0)
    (es : List Entry) (h : es.map (·.ds) = fromStride (some s) (b0 :: bs.map some))
    (hb : es.map (·.ss.bound) = b0' :: bs.map some)
    (hk : ∀ e ∈ es, e.Consistent el) (x : Nat) : (tileAddr es x).2 = x * (s * el) := by
  rw [tileAddr_eq]
  exact strided_dim (·.ds) (·.dstep) el s b0 b0' bs hbs es h hb (fun e he => ⟨(hk e he).2.1, (hk e he).2.2⟩) x


/-! ### the entries produced by `resolve` carry exactly the strides of the two (reconstructed) TSLs -/

theorem innerBounds_length : ∀ (r : List Stride) (bs : List Nat), innerBounds r = .ok bs → bs.length = r.length
  | [], bs, h => by simp [innerBounds] at h; subst h; rfl
  | s :: r, bs, h => by
    unfold innerBounds at h
    split at h
    · simp at h
    · cases hr : innerBounds r with
      | error e => simp [hr, Except.map] at h
      | ok bs' =>
        simp [hr, Except.map] at h
        subst h
        simp [innerBounds_length r bs' hr]

theorem dimBounds_length (d : List Stride) (x : Nat) (bs : List Nat) (h : dimBounds d x = .ok bs) :
    bs.length = d.length := by
  unfold dimBounds at h
  split at h
  · simp at h
  next s r =>
    cases hr : innerBounds r with
    | error e => simp [hr, Except.map] at h
    | ok bs' =>
      simp [hr, Except.map] at h
      subst h
      simp [innerBounds_length r bs' hr]

theorem resolveBounds_lengths : ∀ (S : List (List Stride)) (shape : List Nat) (B : List (List Nat)),
    resolveBounds S shape = .ok B → B.map length = S.map length
  | [], _, B, h => by simp [resolveBounds] at h; subst h; rfl
  | _ :: _, [], _, h => by simp [resolveBounds] at h
  | d :: ds, x :: xs, B, h => by
    simp only [resolveBounds, bind, Except.bind] at h
    cases hd : dimBounds d x with
    | error e => simp [hd] at h
    | ok b =>
      cases hr : resolveBounds ds xs with
      | error e => simp [hd, hr] at h
      | ok r =>
        simp [hd, hr, pure, Except.pure] at h
        subst h
        simp [dimBounds_length d x b hd, resolveBounds_lengths ds xs r hr]

theorem stepsDim_length (el : Nat) : ∀ (ins : List StepIn) (dyn : Nat), (stepsDim el ins dyn).1.length = ins.length
  | [], _ => rfl
  | x :: r, dyn => by rw [stepsDim_fst_cons]; simp [stepsDim_length el r dyn]

theorem stepInsDim_length (pre : Option Nat) : ∀ (d : List Stride) (b : List Nat), b.length = d.length →
    (stepInsDim pre d b).length = d.length
  | [], _, _ => by simp [stepInsDim]
  | _ :: _, [], h => by simp at h
  | [s], b0 :: _, _ => by simp [stepInsDim]
  | s :: s' :: r, b0 :: bs, h => by
    simp only [stepInsDim, length_cons]
    rw [stepInsDim_length pre (s' :: r) bs (by simpa using h)]
    simp

theorem stepsAll_lengths (isStr : Bool) (el : Nat) : ∀ (T : List (List Stride)) (B : List (List Nat)) (mstr : List Nat)
    (dyn : Nat), B.map length = T.map length →
    (stepsAll el (stepIns isStr el T B mstr) dyn).1.map length = T.map length
  | [], _, _, _, _ => by simp [stepIns, stepsAll]
  | _ :: _, [], _, _, h => by simp at h
  | d :: ds, b :: bs, mstr, dyn, h => by
    simp only [map_cons, cons.injEq] at h
    simp only [stepIns]
    rw [stepsAll_fst_cons]
    simp only [map_cons, stepsDim_length, stepInsDim_length _ d b h.1]
    rw [stepsAll_lengths isStr el ds bs mstr.tail dyn h.2]

theorem resolveSteps_lengths (t : Tsl) (isStr : Bool) (el : Nat) (B : List (List Nat)) (mstr : List Nat)
    (h : B.map length = t.ts.map length) : (resolveSteps t isStr el B mstr).map length = t.ts.map length := by
  unfold resolveSteps
  exact stepsAll_lengths isStr el t.ts B mstr _ h

theorem zipDim_strides : ∀ (s d : List Stride) (b x y : List Nat),
    d.length = s.length → b.length = s.length → x.length = s.length → y.length = s.length →
    let es := List.zipWith (fun (p : Stride × Stride) (q : Nat × Nat × Nat) => (⟨p.1, p.2, q.1, q.2.1, q.2.2⟩ : Entry))
      (s.zip d) (b.zip (x.zip y))
    es.map (·.ss) = s ∧ es.map (·.ds) = d
  | [], [], _, _, _, _, _, _, _ => by simp
  | [], _ :: _, _, _, _, h, _, _, _ => by simp at h
  | _ :: _, [], _, _, _, h, _, _, _ => by simp at h
  | _ :: _, _ :: _, [], _, _, _, h, _, _ => by simp at h
  | _ :: _, _ :: _, _ :: _, [], _, _, _, h, _ => by simp at h
  | _ :: _, _ :: _, _ :: _, _ :: _, [], _, _, _, h => by simp at h
  | s0 :: s, d0 :: d, b0 :: b, x0 :: x, y0 :: y, h1, h2, h3, h4 => by
    have ih := zipDim_strides s d b x y (by simpa using h1) (by simpa using h2) (by simpa using h3) (by simpa using h4)
    simp only [zip_cons_cons, zipWith_cons_cons, map_cons, cons.injEq, true_and]
    exact ih

theorem zipEntries_strides : ∀ (S D : List (List Stride)) (B X Y : List (List Nat)),
    D.map length = S.map length → B.map length = S.map length → X.map length = S.map length →
    Y.map length = S.map length →
    (zipEntries S D B X Y).map (·.map (·.ss)) = S ∧ (zipEntries S D B X Y).map (·.map (·.ds)) = D
  | [], [], _, _, _, _, _, _, _ => by simp [zipEntries]
  | [], _ :: _, _, _, _, h, _, _, _ => by simp at h
  | _ :: _, [], _, _, _, h, _, _, _ => by simp at h
  | _ :: _, _ :: _, [], _, _, _, h, _, _ => by simp at h
  | _ :: _, _ :: _, _ :: _, [], _, _, _, h, _ => by simp at h
  | _ :: _, _ :: _, _ :: _, _ :: _, [], _, _, _, h => by simp at h
  | s :: S, d :: D, b :: B, x :: X, y :: Y, h1, h2, h3, h4 => by
    simp only [map_cons, cons.injEq] at h1 h2 h3 h4
    have ih := zipEntries_strides S D B X Y h1.2 h2.2 h3.2 h4.2
    have hd := zipDim_strides s d b x y h1.1 h2.1 h3.1 h4.1
    simp only [zipEntries, map_cons, cons.injEq]
    exact ⟨⟨hd.1, ih.1⟩, ⟨hd.2, ih.2⟩⟩

/-- the entries of every result of `resolve` are, position by position, the strides of the two layouts -/
theorem resolve_strides {src dst : MemTy} {tS tD : Tsl} {rs rd : Rt} {nested : List (List Entry)}
    (h : resolve src dst tS tD rs rd = .ok nested) :
    nested.map (·.map (·.ss)) = tS.ts ∧ nested.map (·.map (·.ds)) = tD.ts := by
  unfold resolve at h
  simp only [bind, Except.bind] at h
  split at h
  · simp at h
  next hss =>
    cases hb : resolveBounds tS.ts rs.shape with
    | error e => simp [hb] at h
    | ok B =>
      simp [hb, pure, Except.pure] at h
      subst h
      have hB := resolveBounds_lengths _ _ _ hb
      have hD : tD.ts.map length = tS.ts.map length := by
        simp only [sameStructure, Bool.not_eq_true, Bool.not_eq_false] at hss
        have : (tS.ts.map length == tD.ts.map length) = true := by simpa using hss
        exact (beq_iff_eq.mp this).symm
      exact zipEntries_strides _ _ _ _ _ hD hB (resolveSteps_lengths _ _ _ _ _ hB)
        (by rw [resolveSteps_lengths _ _ _ _ _ (hB.trans hD.symm), hD])


/-! ### composition: strided / default operands of `TransformDMA` -/

theorem fsSteps_length (simple : Option Nat) (tb : List (Option Nat)) : (fsSteps simple tb).length = tb.length + 1 := by
  induction tb with
  | nil => rfl
  | cons b r ih => simp [fsSteps, ih]

theorem zipWith_mk_bounds : ∀ (a tb : List (Option Nat)), tb.length ≤ a.length →
    (List.zipWith Stride.mk a tb).map (·.bound) = tb
  | _, [], _ => by simp
  | [], _ :: _, h => by simp at h
  | a0 :: a, b :: tb, h => by
    simp only [zipWith_cons_cons, map_cons, cons.injEq, true_and]
    exact zipWith_mk_bounds a tb (by simpa using h)

theorem fromStride_bounds (simple : Option Nat) (tb : List (Option Nat)) :
    (fromStride simple tb).map (·.bound) = tb := by
  unfold fromStride
  apply zipWith_mk_bounds
  rw [fsSteps_length]
  cases tb <;> simp

theorem tslOf_nonTsl {t other : MemTy} {shp : List (Option Nat)} {T : Tsl} (h : tslOf t other shp = .ok T)
    (hnt : ∀ l, t.layout ≠ .tsl l) :
    ∃ strides tbs, extractStrides t = some strides ∧ T.ts = List.zipWith fromStride strides tbs := by
  unfold tslOf at h
  split at h
  next l hl => exact absurd hl (hnt l)
  · simp at h
  · split at h
    · simp at h
    next strides hs =>
      split at h
      · simp at h
      · injection h with h; subst h
        exact ⟨strides, _, hs, rfl⟩

theorem transformDma_tsls {bv : Bool} {src dst : MemTy} {rs rd : Rt} {l : Lowered}
    (h : transformDma bv src dst rs rd = .ok l) :
    tslOf src dst src.shape = .ok l.tS ∧ tslOf dst src src.shape = .ok l.tD := by
  unfold transformDma at h
  split at h
  · simp at h
  split at h
  · simp at h
  next tS hS =>
    split at h
    · simp at h
    next tD hD =>
      split at h
      · simp at h
      split at h
      · simp at h
      · simp only [Except.ok.injEq] at h
        subst h
        exact ⟨hS, hD⟩

/-- the strides of dimension `d` of a reconstructed TSL: `from_stride(strides[d], its own tile bounds)` -/
theorem nonTsl_dim {strides : List (Option Nat)} {tbs : List (List (Option Nat))} {ts : List (List Stride)}
    (hT : ts = List.zipWith fromStride strides tbs) {d : Nat} {st : Option Nat} {X : List Stride}
    (hs : strides[d]? = some st) (hX : ts[d]? = some X) : X = fromStride st (X.map (·.bound)) := by
  rw [hT, List.getElem?_zipWith, hs] at hX
  cases htb : tbs[d]? with
  | none => simp [htb] at hX
  | some tb =>
    simp [htb] at hX
    subst hX
    rw [fromStride_bounds]

/-- SOURCE side: if the source memref has a `strided<…>` attribute or the default layout, dimension `d` has the
static stride `s` (in elements) and static non-zero inner tile bounds, then the address the resolved entries
give to index `x` of that dimension is `x · s · el` bytes: the reconstructed TSL denotes the strided layout. -/
theorem strided_source_address {bv : Bool} {src dst : MemTy} {rs rd : Rt} {l : Lowered}
    (h : transformDma bv src dst rs rd = .ok l) (hnt : ∀ t, src.layout ≠ .tsl t)
    {strides : List (Option Nat)} (hstr : extractStrides src = some strides)
    {d s : Nat} (hs : strides[d]? = some (some s))
    {es : List Entry} (hd : l.nested[d]? = some es)
    {b0 : Option Nat} {bs : List Nat} (htb : es.map (·.ss.bound) = b0 :: bs.map some) (hbs : ∀ b ∈ bs, b ≠ 0) (x : Nat) :
    (tileAddr es x).1 = x * (s * src.el) := by
  obtain ⟨hr, _, _⟩ := transformDma_resolve h
  obtain ⟨hss, _⟩ := resolve_strides hr
  obtain ⟨strides', tbs, hstr', hT⟩ := tslOf_nonTsl (transformDma_tsls h).1 hnt
  rw [hstr] at hstr'; injection hstr' with hstr'; subst hstr'
  have hX : l.tS.ts[d]? = some (es.map (·.ss)) := by rw [← hss, List.getElem?_map, hd]; rfl
  have hfs := nonTsl_dim hT hs hX
  have hb : (es.map (·.ss)).map (·.bound) = b0 :: bs.map some := by simpa [Function.comp_def] using htb
  rw [hb] at hfs
  exact strided_dim_src src.el s b0 bs hbs es hfs
    (fun e he => transformDma_consistent h e (mem_flatten.mpr ⟨es, List.mem_of_getElem? hd, he⟩)) x

/-- DESTINATION side, under `EqualTileBounds`. -/
theorem strided_dest_address {bv : Bool} {src dst : MemTy} {rs rd : Rt} {l : Lowered}
    (h : transformDma bv src dst rs rd = .ok l) (hnt : ∀ t, dst.layout ≠ .tsl t)
    (hETB : l.tS.tileBounds = l.tD.tileBounds)
    {strides : List (Option Nat)} (hstr : extractStrides dst = some strides)
    {d s : Nat} (hs : strides[d]? = some (some s))
    {es : List Entry} (hd : l.nested[d]? = some es)
    {b0 : Option Nat} {bs : List Nat} (htb : es.map (·.ss.bound) = b0 :: bs.map some) (hbs : ∀ b ∈ bs, b ≠ 0) (x : Nat) :
    (tileAddr es x).2 = x * (s * src.el) := by
  obtain ⟨hr, _, _⟩ := transformDma_resolve h
  obtain ⟨hss, hds⟩ := resolve_strides hr
  obtain ⟨strides', tbs, hstr', hT⟩ := tslOf_nonTsl (transformDma_tsls h).2 hnt
  rw [hstr] at hstr'; injection hstr' with hstr'; subst hstr'
  have hX : l.tD.ts[d]? = some (es.map (·.ds)) := by rw [← hds, List.getElem?_map, hd]; rfl
  have hXs : l.tS.ts[d]? = some (es.map (·.ss)) := by rw [← hss, List.getElem?_map, hd]; rfl
  have hfs := nonTsl_dim hT hs hX
  -- equal tile bounds: the destination's bounds of dimension d are the source's
  have hbd : (es.map (·.ds)).map (·.bound) = (es.map (·.ss)).map (·.bound) := by
    have h1 : l.tD.tileBounds[d]? = some ((es.map (·.ds)).map (·.bound)) := by
      simp only [Tsl.tileBounds, List.getElem?_map, hX]; rfl
    have h2 : l.tS.tileBounds[d]? = some ((es.map (·.ss)).map (·.bound)) := by
      simp only [Tsl.tileBounds, List.getElem?_map, hXs]; rfl
    rw [hETB, h1] at h2
    exact Option.some.inj h2
  have hb : (es.map (·.ds)).map (·.bound) = b0 :: bs.map some := by
    rw [hbd]; simpa [Function.comp_def] using htb
  rw [hb] at hfs
  exact strided_dim_dst src.el s b0 b0 bs hbs es hfs htb
    (fun e he => transformDma_consistent h e (mem_flatten.mpr ⟨es, List.mem_of_getElem? hd, he⟩)) x

end SnaxVerif.Dma
