import SnaxVerif.Model.Cores
import SnaxVerif.Model.CoreSched
/-! Helper lemmas for C13: the pending-list walk of `insert-sync-barrier` (F17 semantics, `fixed = true`). -/
namespace SnaxVerif.Cores

/-! ### lists of events -/

theorem sync_head_split {rest pre post : List Ev} {u : Leaf}
    (h : Ev.sync :: rest = pre ++ Ev.op u :: post) : Ev.sync ∈ pre := by
  cases pre with
  | nil => simp at h
  | cons p ps =>
    simp only [List.cons_append, List.cons.injEq] at h
    rw [← h.1]; simp

theorem op_head_split {l u : Leaf} {tail pre post : List Ev}
    (h : Ev.op l :: tail = pre ++ Ev.op u :: post) :
    (pre = [] ∧ u = l ∧ post = tail) ∨ (∃ pre', pre = Ev.op l :: pre' ∧ tail = pre' ++ Ev.op u :: post) := by
  cases pre with
  | nil =>
    simp only [List.nil_append, List.cons.injEq, Ev.op.injEq] at h
    exact Or.inl ⟨rfl, h.1.symm, h.2.symm⟩
  | cons p ps =>
    simp only [List.cons_append, List.cons.injEq] at h
    exact Or.inr ⟨ps, by rw [h.1], h.2⟩

theorem append_split {t1 t2 pre post : List Ev} {e : Ev} (h : t1 ++ t2 = pre ++ e :: post) :
    (∃ p2, pre = t1 ++ p2 ∧ t2 = p2 ++ e :: post) ∨ (∃ q, t1 = pre ++ e :: q ∧ post = q ++ t2) := by
  rcases List.append_eq_append_iff.mp h with ⟨a', h1, h2⟩ | ⟨c', h1, h2⟩
  · exact Or.inl ⟨a', h1, h2⟩
  · cases c' with
    | nil =>
      simp only [List.append_nil, List.nil_append] at h1 h2
      exact Or.inl ⟨[], by simp [h1], by simp [h2]⟩
    | cons c cs =>
      simp only [List.cons_append, List.cons.injEq] at h2
      exact Or.inr ⟨cs, by rw [h1, h2.1], h2.2⟩

/-! ### ids -/

theorem id_mem_idsB {z : Leaf} {b : Blk} (h : z ∈ leavesB b) : z.id ∈ idsB b :=
  List.mem_map_of_mem h

theorem idsB_leaf (l : Leaf) (r : Blk) : idsB (.leaf l r) = l.id :: idsB r := by
  simp [idsB, leavesB]

theorem idsB_sync (r : Blk) : idsB (.sync r) = idsB r := by
  simp [idsB, leavesB]

theorem idsB_if (l : Leaf) (t e r : Blk) : idsB (.ifO l t e r) = l.id :: (idsB t ++ (idsB e ++ idsB r)) := by
  simp [idsB, leavesB]

theorem idsB_for (l : Leaf) (b : Blk) (ys : Bool) (y : Leaf) (r : Blk) :
    idsB (.forO l b ys y r) = l.id :: (idsB b ++ (y.id :: idsB r)) := by
  simp [idsB, leavesB]

/-! ### the pending list -/

theorem mem_discharge {scope P : List Nat} {z : Nat} :
    z ∈ discharge Fix.all scope P ↔ z ∈ P ∧ z ∉ scope := by
  simp [discharge]

theorem visit_adds {all : List Leaf} {rt : Nat → Nat} {eff : Nat → List Nat} {cx : Ctx} {o : Leaf} {P : List Nat} {z : Nat}
    (h : z ∈ adds Fix.all all rt eff cx o) : z ∈ (visit Fix.all all rt eff cx o P).2 := by
  simp only [visit, List.mem_append]; exact Or.inr h

theorem visit_keep {all : List Leaf} {rt : Nat → Nat} {eff : Nat → List Nat} {cx : Ctx} {o : Leaf} {P : List Nat} {z : Nat}
    (h : z ∈ P) (hs : z ∉ cx.scope) : z ∈ (visit Fix.all all rt eff cx o P).2 := by
  simp only [visit, List.mem_append]
  left
  split
  · exact mem_discharge.mpr ⟨h, hs⟩
  · exact h

theorem visit_keep_nohit {all : List Leaf} {rt : Nat → Nat} {eff : Nat → List Nat} {cx : Ctx} {o : Leaf} {P : List Nat} {z : Nat}
    (h : z ∈ P) (hn : (visit Fix.all all rt eff cx o P).1 = false) : z ∈ (visit Fix.all all rt eff cx o P).2 := by
  simp only [visit] at hn
  simp only [visit, hn, List.mem_append]
  exact Or.inl h

theorem visit_hit_iff {all : List Leaf} {rt : Nat → Nat} {eff : Nat → List Nat} {cx : Ctx} {o : Leaf} {P : List Nat} :
    (visit Fix.all all rt eff cx o P).1 = true ↔ o.id ∈ P := by
  simp [visit]

theorem run_withSync {h : Bool} {b : Blk} {t : List Ev} :
    Run (withSync h b) t ↔ ∃ t', Run b t' ∧ t = (if h then [Ev.sync] else []) ++ t' := by
  cases h
  · simp [withSync]
  · simp [withSync, Run]

/-! ### operations of a run belong to the block -/

theorem star_mem {S : List Ev → Prop} {Q : Ev → Prop} {t : List Ev} (hs : Star S t)
    (h : ∀ s, S s → ∀ e ∈ s, Q e) : ∀ e ∈ t, Q e := by
  induction hs with
  | nil => intro e he; simp at he
  | cons ha _ ih =>
    intro e he
    rcases List.mem_append.mp he with h1 | h1
    · exact h _ ha e h1
    · exact ih e h1

theorem run_mem (fx : Fix) (all : List Leaf) (rt : Nat → Nat) (eff : Nat → List Nat) : ∀ (b : Blk) (cx : Ctx) (P : List Nat) (t : List Ev) (z : Leaf),
    Run (walkB fx all rt eff cx b P).1 t → Ev.op z ∈ t → z ∈ leavesB b := by
  intro b
  induction b with
  | nil =>
    intro cx P t z hr hz
    simp only [walkB, Run] at hr
    subst hr; simp at hz
  | leaf l r ih =>
    intro cx P t z hr hz
    simp only [walkB] at hr
    obtain ⟨t', hr', rfl⟩ := run_withSync.mp hr
    simp only [Run] at hr'
    obtain ⟨t'', hr'', rfl⟩ := hr'
    simp only [leavesB, List.mem_cons]
    have : Ev.op z = Ev.op l ∨ Ev.op z ∈ t'' := by
      split at hz <;> simpa using hz
    rcases this with h | h
    · left; injection h
    · right; exact ih _ _ _ _ hr'' h
  | sync r ih =>
    intro cx P t z hr hz
    simp only [walkB, Run] at hr
    obtain ⟨t', hr', rfl⟩ := hr
    simp only [leavesB]
    have : Ev.op z ∈ t' := by simpa using hz
    exact ih _ _ _ _ hr' this
  | ifO l a e r iha ihe ihr =>
    intro cx P t z hr hz
    simp only [walkB] at hr
    obtain ⟨t', hr', rfl⟩ := run_withSync.mp hr
    simp only [Run] at hr'
    obtain ⟨t1, t2, hbr, hr2, rfl⟩ := hr'
    simp only [leavesB, List.mem_cons, List.mem_append]
    have : Ev.op z = Ev.op l ∨ Ev.op z ∈ t1 ∨ Ev.op z ∈ t2 := by
      split at hz <;> simpa using hz
    rcases this with h | h | h
    · left; injection h
    · rcases hbr with hb | hb
      · right; left; exact iha _ _ _ _ hb h
      · right; right; left; exact ihe _ _ _ _ hb h
    · right; right; right; exact ihr _ _ _ _ hr2 h
  | forO l b ys y r ihb ihr =>
    intro cx P t z hr hz
    simp only [walkB] at hr
    obtain ⟨t', hr', rfl⟩ := run_withSync.mp hr
    simp only [Run] at hr'
    obtain ⟨t1, t2, hst, hr2, rfl⟩ := hr'
    simp only [leavesB, List.mem_cons, List.mem_append]
    have : Ev.op z = Ev.op l ∨ Ev.op z ∈ t1 ∨ Ev.op z ∈ t2 := by
      split at hz <;> simpa using hz
    rcases this with h | h | h
    · left; injection h
    · have key := star_mem (Q := fun e => ∀ z, e = Ev.op z → z ∈ leavesB b ∨ z = y) hst (by
        intro s hs e he z' hz'
        obtain ⟨s', hrs, rfl⟩ := hs
        subst hz'
        simp only [List.mem_append, List.mem_singleton] at he
        rcases he with he | he | he
        · left; exact ihb _ _ _ _ hrs he
        · unfold ySync at he; split at he <;> simp at he
        · right; injection he)
      rcases key _ h z rfl with k | k
      · right; left; exact k
      · right; right; left; exact k
    · right; right; right; exact ihr _ _ _ _ hr2 h


/-! ### Lemma B: a pending operation outside the block survives the walk of the block -/

theorem keep_out (all : List Leaf) (rt : Nat → Nat) (eff : Nat → List Nat) : ∀ (b : Blk) (cx : Ctx) (P : List Nat) (z : Nat),
    z ∈ P → z ∉ cx.scope → z ∉ idsB b → z ∈ (walkB Fix.all all rt eff cx b P).2 := by
  intro b
  induction b with
  | nil => intro cx P z h _ _; simpa [walkB] using h
  | leaf l r ih =>
    intro cx P z h hs hb
    simp only [walkB]
    rw [idsB_leaf] at hb
    exact ih _ _ _ (visit_keep h hs) hs (fun h' => hb (List.mem_cons_of_mem _ h'))
  | sync r ih =>
    intro cx P z h hs hb
    simp only [walkB]
    rw [idsB_sync] at hb
    exact ih _ _ _ (mem_discharge.mpr ⟨h, hs⟩) hs hb
  | ifO l a e r iha ihe ihr =>
    intro cx P z h hs hb
    simp only [walkB]
    rw [idsB_if] at hb
    simp only [List.mem_cons, List.mem_append, not_or] at hb
    obtain ⟨_, hba, hbe, hbr⟩ := hb
    exact ihr _ _ _ (ihe _ _ _ (iha _ _ _ (visit_keep h hs) hba hba) hbe hbe) hs hbr
  | forO l b ys y r ihb ihr =>
    intro cx P z h hs hb
    simp only [walkB]
    rw [idsB_for] at hb
    simp only [List.mem_cons, List.mem_append, not_or] at hb
    obtain ⟨_, hbb, hby, hbr⟩ := hb
    have hsc : z ∉ (bodyCtx cx b y).scope := by
      simp only [bodyCtx, List.mem_append, List.mem_singleton, not_or]; exact ⟨hbb, hby⟩
    have h1 := ihb (bodyCtx cx b y) _ _ (visit_keep (o := l) (all := all) (rt := rt) (eff := eff) h hs) hsc hbb
    have h2 : z ∈ (if ys then discharge Fix.all (bodyCtx cx b y).scope
        (walkB Fix.all all rt eff (bodyCtx cx b y) b (visit Fix.all all rt eff cx l P).2).2
        else (walkB Fix.all all rt eff (bodyCtx cx b y) b (visit Fix.all all rt eff cx l P).2).2) := by
      split
      · exact mem_discharge.mpr ⟨h1, hsc⟩
      · exact h1
    exact ihr _ _ _ (visit_keep h2 hsc) hs hbr

/-! ### Lemma A': a pending operation that is not part of the block either survives or every path through
the block meets a barrier -/

theorem keep_or_sync (all : List Leaf) (rt : Nat → Nat) (eff : Nat → List Nat) : ∀ (b : Blk) (cx : Ctx) (P : List Nat) (t : List Ev) (z : Nat),
    Run (walkB Fix.all all rt eff cx b P).1 t → z ∈ P → z ∉ idsB b →
    z ∈ (walkB Fix.all all rt eff cx b P).2 ∨ Ev.sync ∈ t := by
  intro b
  induction b with
  | nil => intro cx P t z _ h _; left; simpa [walkB] using h
  | leaf l r ih =>
    intro cx P t z hr h hb
    simp only [walkB] at hr ⊢
    obtain ⟨t', hr', rfl⟩ := run_withSync.mp hr
    simp only [Run] at hr'
    obtain ⟨t'', hr'', rfl⟩ := hr'
    rw [idsB_leaf] at hb
    simp only [List.mem_cons, not_or] at hb
    cases hh : (visit Fix.all all rt eff cx l P).1 with
    | true => right; simp
    | false =>
      rcases ih _ _ _ _ hr'' (visit_keep_nohit h hh) hb.2 with k | k
      · left; exact k
      · right; simp [k]
  | sync r ih =>
    intro cx P t z hr _ _
    simp only [walkB, Run] at hr
    obtain ⟨t', _, rfl⟩ := hr
    right; simp
  | ifO l a e r iha ihe ihr =>
    intro cx P t z hr h hb
    simp only [walkB] at hr ⊢
    obtain ⟨t', hr', rfl⟩ := run_withSync.mp hr
    simp only [Run] at hr'
    obtain ⟨t1, t2, _, hr2, rfl⟩ := hr'
    rw [idsB_if] at hb
    simp only [List.mem_cons, List.mem_append, not_or] at hb
    obtain ⟨_, hba, hbe, hbr⟩ := hb
    cases hh : (visit Fix.all all rt eff cx l P).1 with
    | true => right; simp
    | false =>
      have h1 := keep_out all rt eff a (plainCtx cx a) _ z (visit_keep_nohit h hh) hba hba
      have h2 := keep_out all rt eff e (plainCtx cx e) _ z h1 hbe hbe
      rcases ihr _ _ _ _ hr2 h2 hbr with k | k
      · left; exact k
      · right; simp [k]
  | forO l b ys y r ihb ihr =>
    intro cx P t z hr h hb
    simp only [walkB] at hr ⊢
    obtain ⟨t', hr', rfl⟩ := run_withSync.mp hr
    simp only [Run] at hr'
    obtain ⟨t1, t2, _, hr2, rfl⟩ := hr'
    rw [idsB_for] at hb
    simp only [List.mem_cons, List.mem_append, not_or] at hb
    obtain ⟨_, hbb, hby, hbr⟩ := hb
    cases hh : (visit Fix.all all rt eff cx l P).1 with
    | true => right; simp
    | false =>
      have hsc : z ∉ (bodyCtx cx b y).scope := by
        simp only [bodyCtx, List.mem_append, List.mem_singleton, not_or]; exact ⟨hbb, hby⟩
      have h1 := keep_out all rt eff b (bodyCtx cx b y) _ z (visit_keep_nohit h hh) hsc hbb
      have h2 : z ∈ (if ys then discharge Fix.all (bodyCtx cx b y).scope
          (walkB Fix.all all rt eff (bodyCtx cx b y) b (visit Fix.all all rt eff cx l P).2).2
          else (walkB Fix.all all rt eff (bodyCtx cx b y) b (visit Fix.all all rt eff cx l P).2).2) := by
        split
        · exact mem_discharge.mpr ⟨h1, hsc⟩
        · exact h1
      rcases ihr _ _ _ _ hr2 (visit_keep h2 hsc) hbr with k | k
      · left; exact k
      · right; simp [k]


/-! ### unique ids -/

theorem nodup_leaf {l : Leaf} {r : Blk} (h : (idsB (.leaf l r)).Nodup) :
    (idsB r).Nodup ∧ l.id ∉ idsB r := by
  rw [idsB_leaf, List.nodup_cons] at h
  exact ⟨h.2, h.1⟩

theorem nodup_if {l : Leaf} {a e r : Blk} (h : (idsB (.ifO l a e r)).Nodup) :
    (idsB a).Nodup ∧ (idsB e).Nodup ∧ (idsB r).Nodup ∧
    (∀ z, z ∈ idsB a → z ∉ idsB e ∧ z ∉ idsB r) ∧ (∀ z, z ∈ idsB e → z ∉ idsB a ∧ z ∉ idsB r) ∧
    (∀ z, z ∈ idsB r → z ∉ idsB a ∧ z ∉ idsB e) ∧
    l.id ∉ idsB a ∧ l.id ∉ idsB e ∧ l.id ∉ idsB r := by
  rw [idsB_if, List.nodup_cons, List.nodup_append, List.nodup_append] at h
  obtain ⟨hl, ha, ⟨he, hr, her⟩, haer⟩ := h
  simp only [List.mem_append, not_or] at hl
  refine ⟨ha, he, hr, ?_, ?_, ?_, hl.1, hl.2.1, hl.2.2⟩
  · intro z hz
    exact ⟨fun h' => haer z hz z (List.mem_append_left _ h') rfl,
           fun h' => haer z hz z (List.mem_append_right _ h') rfl⟩
  · intro z hz
    exact ⟨fun h' => haer z h' z (List.mem_append_left _ hz) rfl, fun h' => her z hz z h' rfl⟩
  · intro z hz
    exact ⟨fun h' => haer z h' z (List.mem_append_right _ hz) rfl, fun h' => her z h' z hz rfl⟩

theorem nodup_for {l y : Leaf} {b r : Blk} {ys : Bool} (h : (idsB (.forO l b ys y r)).Nodup) :
    (idsB b).Nodup ∧ (idsB r).Nodup ∧
    (∀ z, z ∈ idsB b → z ≠ y.id ∧ z ∉ idsB r) ∧ (∀ z, z ∈ idsB r → z ≠ y.id ∧ z ∉ idsB b) ∧
    l.id ∉ idsB b ∧ l.id ≠ y.id ∧ l.id ∉ idsB r := by
  rw [idsB_for, List.nodup_cons, List.nodup_append, List.nodup_cons] at h
  obtain ⟨hl, hb, ⟨hy, hr⟩, hbr⟩ := h
  simp only [List.mem_append, List.mem_cons, not_or] at hl
  refine ⟨hb, hr, ?_, ?_, hl.1, hl.2.1, hl.2.2⟩
  · intro z hz
    exact ⟨fun h' => hbr z hz y.id (List.mem_cons_self) h',
           fun h' => hbr z hz z (List.mem_cons_of_mem _ h') rfl⟩
  · intro z hz
    exact ⟨fun h' => hy (h' ▸ hz), fun h' => hbr z h' z (List.mem_cons_of_mem _ hz) rfl⟩


/-! ### Lemma A: an operation that is pending at the start of a block is preceded by a barrier on every
path through the block that reaches it -/

theorem star_split {S : List Ev → Prop} {t1 : List Ev} (hst : Star S t1) {u : Leaf}
    (hit : ∀ s, S s → ∀ pre post, s = pre ++ Ev.op u :: post → Ev.sync ∈ pre) :
    ∀ pre post, t1 = pre ++ Ev.op u :: post → Ev.sync ∈ pre := by
  induction hst with
  | nil => intro pre post h; simp at h
  | cons ha _ ih =>
    intro pre post h
    rcases append_split h with ⟨p2, rfl, h2⟩ | ⟨q, h1, _⟩
    · exact List.mem_append_right _ (ih _ _ h2)
    · exact hit _ ha _ _ h1

theorem pending_sync (all : List Leaf) (rt : Nat → Nat) (eff : Nat → List Nat) : ∀ (b : Blk) (cx : Ctx) (P : List Nat) (t pre post : List Ev) (u : Leaf),
    (idsB b).Nodup → Run (walkB Fix.all all rt eff cx b P).1 t → t = pre ++ Ev.op u :: post → u.id ∈ P →
    Ev.sync ∈ pre := by
  intro b
  induction b with
  | nil =>
    intro cx P t pre post u _ hr ht _
    simp only [walkB, Run] at hr
    subst hr; simp at ht
  | leaf l r ih =>
    intro cx P t pre post u hnd hr ht hu
    simp only [walkB] at hr
    obtain ⟨t', hr', rfl⟩ := run_withSync.mp hr
    simp only [Run] at hr'
    obtain ⟨t'', hr'', rfl⟩ := hr'
    cases hh : (visit Fix.all all rt eff cx l P).1 with
    | true =>
      rw [hh] at ht
      exact sync_head_split ht
    | false =>
      rw [hh] at ht
      simp only [if_false, Bool.false_eq_true, List.nil_append] at ht
      rcases op_head_split ht with ⟨_, hul, _⟩ | ⟨pre', rfl, ht'⟩
      · exfalso
        have : (visit Fix.all all rt eff cx l P).1 = true := visit_hit_iff.mpr (hul ▸ hu)
        rw [hh] at this; cases this
      · exact List.mem_cons_of_mem _ (ih _ _ _ _ _ _ (nodup_leaf hnd).1 hr'' ht' (visit_keep_nohit hu hh))
  | sync r ih =>
    intro cx P t pre post u _ hr ht _
    simp only [walkB, Run] at hr
    obtain ⟨t', _, rfl⟩ := hr
    exact sync_head_split ht
  | ifO l a e r iha ihe ihr =>
    intro cx P t pre post u hnd hr ht hu
    simp only [walkB] at hr
    obtain ⟨t', hr', rfl⟩ := run_withSync.mp hr
    simp only [Run] at hr'
    obtain ⟨t1, t2, hbr, hr2, rfl⟩ := hr'
    obtain ⟨hna, hne, hnr, hda, hde, hdr, _, _, _⟩ := nodup_if hnd
    cases hh : (visit Fix.all all rt eff cx l P).1 with
    | true =>
      rw [hh] at ht
      exact sync_head_split ht
    | false =>
      rw [hh] at ht
      simp only [if_false, Bool.false_eq_true, List.nil_append] at ht
      rcases op_head_split ht with ⟨_, hul, _⟩ | ⟨pre', rfl, ht'⟩
      · exfalso
        have : (visit Fix.all all rt eff cx l P).1 = true := visit_hit_iff.mpr (hul ▸ hu)
        rw [hh] at this; cases this
      · have hu1 := visit_keep_nohit (all := all) (rt := rt) (eff := eff) (cx := cx) (o := l) hu hh
        apply List.mem_cons_of_mem
        rcases append_split ht' with ⟨p2, rfl, h2⟩ | ⟨q, h1, _⟩
        · -- u is reached in the rest of the block
          have hur : u ∈ leavesB r := run_mem _ _ _ _ _ _ _ _ _ hr2 (by rw [h2]; simp)
          have hid := hdr _ (id_mem_idsB hur)
          have k1 := keep_out all rt eff a (plainCtx cx a) _ _ hu1 hid.1 hid.1
          have k2 := keep_out all rt eff e (plainCtx cx e) _ _ k1 hid.2 hid.2
          exact List.mem_append_right _ (ihr _ _ _ _ _ _ hnr hr2 h2 k2)
        · rcases hbr with hb | hb
          · exact iha _ _ _ _ _ _ hna hb h1 hu1
          · have hue : u ∈ leavesB e := run_mem _ _ _ _ _ _ _ _ _ hb (by rw [h1]; simp)
            have hid := hde _ (id_mem_idsB hue)
            have k1 := keep_out all rt eff a (plainCtx cx a) _ _ hu1 hid.1 hid.1
            exact ihe _ _ _ _ _ _ hne hb h1 k1
  | forO l b ys y r ihb ihr =>
    intro cx P t pre post u hnd hr ht hu
    simp only [walkB] at hr
    obtain ⟨t', hr', rfl⟩ := run_withSync.mp hr
    simp only [Run] at hr'
    obtain ⟨t1, t2, hst, hr2, rfl⟩ := hr'
    obtain ⟨hnb, hnr, hdb, hdr, hlb, hly, hlr⟩ := nodup_for hnd
    cases hh : (visit Fix.all all rt eff cx l P).1 with
    | true =>
      rw [hh] at ht
      exact sync_head_split ht
    | false =>
      rw [hh] at ht
      simp only [if_false, Bool.false_eq_true, List.nil_append] at ht
      rcases op_head_split ht with ⟨_, hul, _⟩ | ⟨pre', rfl, ht'⟩
      · exfalso
        have : (visit Fix.all all rt eff cx l P).1 = true := visit_hit_iff.mpr (hul ▸ hu)
        rw [hh] at this; cases this
      · have hu1 := visit_keep_nohit (all := all) (rt := rt) (eff := eff) (cx := cx) (o := l) hu hh
        apply List.mem_cons_of_mem
        rcases append_split ht' with ⟨p2, rfl, h2⟩ | ⟨q, h1, _⟩
        · -- u is reached after the loop
          have hur : u ∈ leavesB r := run_mem _ _ _ _ _ _ _ _ _ hr2 (by rw [h2]; simp)
          have hid := hdr _ (id_mem_idsB hur)
          have hsc : u.id ∉ (bodyCtx cx b y).scope := by
            simp only [bodyCtx, List.mem_append, List.mem_singleton, not_or]; exact ⟨hid.2, hid.1⟩
          have k1 := keep_out all rt eff b (bodyCtx cx b y) _ _ hu1 hsc hid.2
          have k2 : u.id ∈ (if ys then discharge Fix.all (bodyCtx cx b y).scope
              (walkB Fix.all all rt eff (bodyCtx cx b y) b (visit Fix.all all rt eff cx l P).2).2
              else (walkB Fix.all all rt eff (bodyCtx cx b y) b (visit Fix.all all rt eff cx l P).2).2) := by
            split
            · exact mem_discharge.mpr ⟨k1, hsc⟩
            · exact k1
          exact List.mem_append_right _ (ihr _ _ _ _ _ _ hnr hr2 h2 (visit_keep k2 hsc))
        · -- u is reached in some iteration
          refine star_split hst ?_ _ _ h1
          intro s hs pre1 post1 hs1
          obtain ⟨s', hrs, rfl⟩ := hs
          rcases append_split hs1 with ⟨p2, rfl, h2⟩ | ⟨q', h1', _⟩
          · -- u is the terminator
            cases hys : (ys || (visit Fix.all all rt eff (bodyCtx cx b y) y (if ys then discharge Fix.all (bodyCtx cx b y).scope
                (walkB Fix.all all rt eff (bodyCtx cx b y) b (visit Fix.all all rt eff cx l P).2).2
                else (walkB Fix.all all rt eff (bodyCtx cx b y) b (visit Fix.all all rt eff cx l P).2).2)).1) with
            | true =>
              rw [hys] at h2
              simp only [ySync, if_true, List.cons_append, List.nil_append] at h2
              exact List.mem_append_right _ (sync_head_split h2)
            | false =>
              rw [hys] at h2
              simp only [ySync, Bool.false_eq_true, if_false, List.nil_append] at h2
              rcases op_head_split h2 with ⟨_, huy, _⟩ | ⟨pre'', _, h3⟩
              · simp only [Bool.or_eq_false_iff] at hys
                obtain ⟨hys1, hys2⟩ := hys
                subst hys1
                simp only [Bool.false_eq_true, if_false] at hys2
                have hyb : y.id ∉ idsB b := fun h' => (hdb _ h').1 rfl
                rcases keep_or_sync all rt eff b (bodyCtx cx b y) _ _ y.id hrs (huy ▸ hu1) hyb with k | k
                · exfalso
                  have := visit_hit_iff (all := all) (rt := rt) (eff := eff) (cx := bodyCtx cx b y) (o := y).mpr k
                  rw [hys2] at this; cases this
                · exact List.mem_append_left _ k
              · simp at h3
          · exact ihb _ _ _ _ _ _ hnb hrs h1' hu1


/-! ### Lemma D: what an executed operation `x` makes pending stays pending to the end of the block
(if it is not part of the block), unless the path meets a barrier after `x` -/

/-- `x` is visited by the walk of block `b` (entered with context `cx`) under context `cx'` -/
def VisAt (x : Leaf) (cx' : Ctx) : Blk → Ctx → Prop
  | .nil, _ => False
  | .leaf l r, cx => (x = l ∧ cx' = cx) ∨ VisAt x cx' r cx
  | .sync r, cx => VisAt x cx' r cx
  | .ifO l a e r, cx => (x = l ∧ cx' = cx) ∨ VisAt x cx' a (plainCtx cx a) ∨ VisAt x cx' e (plainCtx cx e) ∨ VisAt x cx' r cx
  | .forO l b _ y r, cx =>
    (x = l ∧ cx' = cx) ∨ VisAt x cx' b (bodyCtx cx b y) ∨ (x = y ∧ cx' = bodyCtx cx b y) ∨ VisAt x cx' r cx

theorem head_cases {h : Bool} {l x : Leaf} {tail a m1 : List Ev}
    (ht : (if h then [Ev.sync] else []) ++ Ev.op l :: tail = a ++ Ev.op x :: m1) :
    (x = l ∧ m1 = tail) ∨ ∃ a', tail = a' ++ Ev.op x :: m1 := by
  cases h with
  | false =>
    simp only [Bool.false_eq_true, if_false, List.nil_append] at ht
    rcases op_head_split ht with ⟨_, h1, h2⟩ | ⟨a', _, h2⟩
    · exact Or.inl ⟨h1, h2⟩
    · exact Or.inr ⟨a', h2⟩
  | true =>
    simp only [if_true, List.cons_append, List.nil_append] at ht
    cases a with
    | nil => simp at ht
    | cons p ps =>
      simp only [List.cons_append, List.cons.injEq] at ht
      rcases op_head_split ht.2 with ⟨_, h1, h2⟩ | ⟨a', _, h2⟩
      · exact Or.inl ⟨h1, h2⟩
      · exact Or.inr ⟨a', h2⟩

theorem sync_strip {t' a m1 : List Ev} {x : Leaf} (ht : Ev.sync :: t' = a ++ Ev.op x :: m1) :
    ∃ a', t' = a' ++ Ev.op x :: m1 := by
  cases a with
  | nil => simp at ht
  | cons p ps =>
    simp only [List.cons_append, List.cons.injEq] at ht
    exact ⟨ps, ht.2⟩

theorem tail_y_cases {h : Bool} {y x : Leaf} {p2 q1 : List Ev}
    (ht : ySync h ++ [Ev.op y] = p2 ++ Ev.op x :: q1) : x = y ∧ q1 = [] ∧ p2 = ySync h := by
  cases h with
  | false =>
    simp only [ySync, Bool.false_eq_true, if_false, List.nil_append] at ht ⊢
    rcases op_head_split ht with ⟨h0, h1, h2⟩ | ⟨a', _, h2⟩
    · exact ⟨h1, h2, h0⟩
    · simp at h2
  | true =>
    simp only [ySync, if_true, List.cons_append, List.nil_append] at ht ⊢
    cases p2 with
    | nil => simp at ht
    | cons p ps =>
      simp only [List.cons_append, List.cons.injEq] at ht
      rcases op_head_split ht.2 with ⟨h0, h1, h2⟩ | ⟨a', _, h2⟩
      · exact ⟨h1, h2, by rw [h0, ← ht.1]⟩
      · simp at h2

theorem star_find {S : List Ev → Prop} {t : List Ev} (hst : Star S t) :
    ∀ (a q : List Ev) (e : Ev), t = a ++ e :: q →
    ∃ s a1 q1 q2, S s ∧ s = a1 ++ e :: q1 ∧ q = q1 ++ q2 := by
  induction hst with
  | nil => intro a q e h; simp at h
  | cons ha _ ih =>
    intro a q e h
    rcases append_split h with ⟨p2, _, h2⟩ | ⟨q', h1, h2⟩
    · exact ih _ _ _ h2
    · exact ⟨_, a, q', _, ha, h1, h2⟩

theorem dep_keep_or_sync (all : List Leaf) (rt : Nat → Nat) (eff : Nat → List Nat) (x : Leaf) (z : Nat) :
    ∀ (b : Blk) (cx : Ctx) (P : List Nat) (t a m1 : List Ev),
    (∀ cx', VisAt x cx' b cx → z ∈ adds Fix.all all rt eff cx' x) →
    Run (walkB Fix.all all rt eff cx b P).1 t → t = a ++ Ev.op x :: m1 → z ∉ idsB b →
    z ∈ (walkB Fix.all all rt eff cx b P).2 ∨ Ev.sync ∈ m1 := by
  intro b
  induction b with
  | nil =>
    intro cx P t a m1 _ hr ht _
    simp only [walkB, Run] at hr
    subst hr; simp at ht
  | leaf l r ih =>
    intro cx P t a m1 hadd hr ht hz
    simp only [walkB] at hr ⊢
    obtain ⟨t', hr', rfl⟩ := run_withSync.mp hr
    simp only [Run] at hr'
    obtain ⟨t'', hr'', rfl⟩ := hr'
    rw [idsB_leaf] at hz
    simp only [List.mem_cons, not_or] at hz
    rcases head_cases ht with ⟨hxl, rfl⟩ | ⟨a', ht'⟩
    · have h1 : z ∈ (visit Fix.all all rt eff cx l P).2 := by
        subst hxl; exact visit_adds (hadd cx (Or.inl ⟨rfl, rfl⟩))
      exact keep_or_sync all rt eff r cx _ _ z hr'' h1 hz.2
    · exact ih _ _ _ _ _ (fun cx' h => hadd cx' (Or.inr h)) hr'' ht' hz.2
  | sync r ih =>
    intro cx P t a m1 hadd hr ht hz
    simp only [walkB, Run] at hr ⊢
    obtain ⟨t', hr', rfl⟩ := hr
    obtain ⟨a', ht'⟩ := sync_strip ht
    rw [idsB_sync] at hz
    exact ih _ _ _ _ _ (fun cx' h => hadd cx' h) hr' ht' hz
  | ifO l a0 e r iha ihe ihr =>
    intro cx P t a m1 hadd hr ht hz
    simp only [walkB] at hr ⊢
    obtain ⟨t', hr', rfl⟩ := run_withSync.mp hr
    simp only [Run] at hr'
    obtain ⟨t1, t2, hbr, hr2, rfl⟩ := hr'
    rw [idsB_if] at hz
    simp only [List.mem_cons, List.mem_append, not_or] at hz
    obtain ⟨_, hza, hze, hzr⟩ := hz
    -- from pending at the entry of the rest to the conclusion
    have fin : ∀ {m2 : List Ev}, (z ∈ (walkB Fix.all all rt eff (plainCtx cx e) e
          (walkB Fix.all all rt eff (plainCtx cx a0) a0 (visit Fix.all all rt eff cx l P).2).2).2 ∨ Ev.sync ∈ m2) →
        z ∈ (walkB Fix.all all rt eff cx r (walkB Fix.all all rt eff (plainCtx cx e) e
          (walkB Fix.all all rt eff (plainCtx cx a0) a0 (visit Fix.all all rt eff cx l P).2).2).2).2 ∨ Ev.sync ∈ m2 ++ t2 := by
      intro m2 h
      rcases h with h | h
      · rcases keep_or_sync all rt eff r cx _ _ z hr2 h hzr with k | k
        · exact Or.inl k
        · exact Or.inr (List.mem_append_right _ k)
      · exact Or.inr (List.mem_append_left _ h)
    rcases head_cases ht with ⟨hxl, rfl⟩ | ⟨a', ht'⟩
    · have h1 : z ∈ (visit Fix.all all rt eff cx l P).2 := by
        subst hxl; exact visit_adds (hadd cx (Or.inl ⟨rfl, rfl⟩))
      have k1 := keep_out all rt eff a0 (plainCtx cx a0) _ z h1 hza hza
      have k2 := keep_out all rt eff e (plainCtx cx e) _ z k1 hze hze
      exact fin (m2 := t1) (Or.inl k2) |>.imp id (fun h => h)
    · rcases append_split ht' with ⟨p2, _, h2⟩ | ⟨q, h1, rfl⟩
      · exact ihr _ _ _ _ _ (fun cx' h => hadd cx' (Or.inr (Or.inr (Or.inr h)))) hr2 h2 hzr
      · rcases hbr with hb | hb
        · rcases iha _ _ _ _ _ (fun cx' h => hadd cx' (Or.inr (Or.inl h))) hb h1 hza with k | k
          · exact fin (Or.inl (keep_out all rt eff e (plainCtx cx e) _ z k hze hze))
          · exact fin (Or.inr k)
        · exact fin (ihe _ _ _ _ _ (fun cx' h => hadd cx' (Or.inr (Or.inr (Or.inl h)))) hb h1 hze)
  | forO l b ys y r ihb ihr =>
    intro cx P t a m1 hadd hr ht hz
    simp only [walkB] at hr ⊢
    obtain ⟨t', hr', rfl⟩ := run_withSync.mp hr
    simp only [Run] at hr'
    obtain ⟨t1, t2, hst, hr2, rfl⟩ := hr'
    rw [idsB_for] at hz
    simp only [List.mem_cons, List.mem_append, not_or] at hz
    obtain ⟨_, hzb, hzy, hzr⟩ := hz
    have hsc : z ∉ (bodyCtx cx b y).scope := by
      simp only [bodyCtx, List.mem_append, List.mem_singleton, not_or]; exact ⟨hzb, hzy⟩
    -- from pending after the body to pending after the terminator
    have stepY : z ∈ (walkB Fix.all all rt eff (bodyCtx cx b y) b (visit Fix.all all rt eff cx l P).2).2 →
        z ∈ (visit Fix.all all rt eff (bodyCtx cx b y) y (if ys then discharge Fix.all (bodyCtx cx b y).scope
          (walkB Fix.all all rt eff (bodyCtx cx b y) b (visit Fix.all all rt eff cx l P).2).2
          else (walkB Fix.all all rt eff (bodyCtx cx b y) b (visit Fix.all all rt eff cx l P).2).2)).2 := by
      intro k1
      apply visit_keep _ hsc
      split
      · exact mem_discharge.mpr ⟨k1, hsc⟩
      · exact k1
    have fin : ∀ {m2 : List Ev}, (z ∈ (visit Fix.all all rt eff (bodyCtx cx b y) y (if ys then discharge Fix.all (bodyCtx cx b y).scope
          (walkB Fix.all all rt eff (bodyCtx cx b y) b (visit Fix.all all rt eff cx l P).2).2
          else (walkB Fix.all all rt eff (bodyCtx cx b y) b (visit Fix.all all rt eff cx l P).2).2)).2 ∨ Ev.sync ∈ m2) →
        z ∈ (walkB Fix.all all rt eff cx r (visit Fix.all all rt eff (bodyCtx cx b y) y (if ys then discharge Fix.all (bodyCtx cx b y).scope
          (walkB Fix.all all rt eff (bodyCtx cx b y) b (visit Fix.all all rt eff cx l P).2).2
          else (walkB Fix.all all rt eff (bodyCtx cx b y) b (visit Fix.all all rt eff cx l P).2).2)).2).2 ∨ Ev.sync ∈ m2 ++ t2 := by
      intro m2 h
      rcases h with h | h
      · rcases keep_or_sync all rt eff r cx _ _ z hr2 h hzr with k | k
        · exact Or.inl k
        · exact Or.inr (List.mem_append_right _ k)
      · exact Or.inr (List.mem_append_left _ h)
    rcases head_cases ht with ⟨hxl, rfl⟩ | ⟨a', ht'⟩
    · have h1 : z ∈ (visit Fix.all all rt eff cx l P).2 := by
        subst hxl; exact visit_adds (hadd cx (Or.inl ⟨rfl, rfl⟩))
      exact fin (m2 := t1) (Or.inl (stepY (keep_out all rt eff b (bodyCtx cx b y) _ z h1 hsc hzb)))
    · rcases append_split ht' with ⟨p2, _, h2⟩ | ⟨q, h1, rfl⟩
      · exact ihr _ _ _ _ _ (fun cx' h => hadd cx' (Or.inr (Or.inr (Or.inr h)))) hr2 h2 hzr
      · obtain ⟨s, a1, q1, q2, hs, hs1, rfl⟩ := star_find hst _ _ _ h1
        obtain ⟨s', hrs, rfl⟩ := hs
        rcases append_split hs1 with ⟨p2, _, h2⟩ | ⟨q', h1', rfl⟩
        · -- x is the terminator
          obtain ⟨hxy, _, _⟩ := tail_y_cases h2
          apply fin
          left
          subst hxy
          exact visit_adds (hadd _ (Or.inr (Or.inr (Or.inl ⟨rfl, rfl⟩))))
        · rcases ihb _ _ _ _ _ (fun cx' h => hadd cx' (Or.inr (Or.inl h))) hrs h1' hzb with k | k
          · exact fin (Or.inl (stepY k))
          · apply fin
            right
            simp [k]


/-! ### dependencies the walk records -/

/-- the dependencies the walk records: `x` runs on one core, `u` not on that core only, and they use two views of
one buffer (`rt` = root of an SSA value; `rt = id`: they share an SSA value); or (repair FC13c) `x` runs on all cores
and accesses, through one of its operands `eff x.id`, a buffer that the single-core operation `u` uses -/
def Dep (rt : Nat → Nat) (eff : Nat → List Nat) (x u : Leaf) : Prop :=
  (((x.cls = Cls.dm ∧ u.cls ≠ Cls.dm) ∨ (x.cls = Cls.cp ∧ u.cls ≠ Cls.cp)) ∧
    ∃ v w, v ∈ x.vals ∧ w ∈ u.vals ∧ rt w = rt v) ∨
  (x.cls = Cls.all ∧ u.cls ≠ Cls.all ∧ ∃ v w, v ∈ eff x.id ∧ w ∈ u.vals ∧ rt w = rt v)

theorem dep_adds {all : List Leaf} {rt : Nat → Nat} {eff : Nat → List Nat} {cx : Ctx} {x u : Leaf}
    (hd : Dep rt eff x u) (hu : u ∈ all) : u.id ∈ adds Fix.all all rt eff cx x := by
  rcases hd with ⟨hc, v, w, hv1, hw, hvw⟩ | ⟨hx, hun, v, w, hv1, hw, hvw⟩
  · simp only [adds, usersOf, List.mem_append, List.mem_flatMap, List.mem_filter]
    left
    refine ⟨v, hv1, u, ⟨hu, by simp only [List.any_eq_true, beq_iff_eq]; exact ⟨w, hw, hvw⟩⟩, ?_⟩
    rcases hc with ⟨h1, h2⟩ | ⟨h1, h2⟩ <;> simp [addsFor, h1, h2]
  · simp only [adds, usersOf, List.mem_append, List.mem_flatMap, List.mem_filter]
    right
    rw [if_pos (by simp [hx])]
    simp only [List.mem_flatMap, List.mem_filter]
    refine ⟨v, hv1, u, ⟨hu, by simp only [List.any_eq_true, beq_iff_eq]; exact ⟨w, hw, hvw⟩⟩, ?_⟩
    simp [addsGlobal, hun]

theorem dep_adds_yield {all : List Leaf} {rt : Nat → Nat} {eff : Nat → List Nat} {cx : Ctx} {yid : Nat} {x u : Leaf}
    (hd : Dep rt eff x u) (hu : u ∈ all) (hk : firstLoop cx.loops u.id = some yid) :
    yid ∈ adds Fix.all all rt eff cx x := by
  rcases hd with ⟨hc, v, w, hv1, hw, hvw⟩ | ⟨hx, hun, v, w, hv1, hw, hvw⟩
  · simp only [adds, usersOf, List.mem_append, List.mem_flatMap, List.mem_filter]
    left
    refine ⟨v, hv1, u, ⟨hu, by simp only [List.any_eq_true, beq_iff_eq]; exact ⟨w, hw, hvw⟩⟩, ?_⟩
    rcases hc with ⟨h1, h2⟩ | ⟨h1, h2⟩ <;> simp [addsFor, yieldOf, h1, h2, hk]
  · simp only [adds, usersOf, List.mem_append, List.mem_flatMap, List.mem_filter]
    right
    rw [if_pos (by simp [hx])]
    simp only [List.mem_flatMap, List.mem_filter]
    refine ⟨v, hv1, u, ⟨hu, by simp only [List.any_eq_true, beq_iff_eq]; exact ⟨w, hw, hvw⟩⟩, ?_⟩
    simp [addsGlobal, yieldOf, hun, hk]

/-- `scf.if`, `scf.for` and loop terminators run on all cores and are not counted as accessing memory themselves -/
def CompoundOK (eff : Nat → List Nat) : Blk → Prop
  | .nil => True
  | .leaf _ r => CompoundOK eff r
  | .sync r => CompoundOK eff r
  | .ifO l t e r => (l.cls = Cls.all ∧ eff l.id = []) ∧ CompoundOK eff t ∧ CompoundOK eff e ∧ CompoundOK eff r
  | .forO l b _ y r =>
    (l.cls = Cls.all ∧ eff l.id = []) ∧ (y.cls = Cls.all ∧ eff y.id = []) ∧ CompoundOK eff b ∧ CompoundOK eff r

theorem compoundOK_of_all : ∀ (b : Blk), CompoundAll b → CompoundOK (fun _ => []) b := by
  intro b
  induction b with
  | nil => intro _; trivial
  | leaf l r ih => intro h; exact ih h
  | sync r ih => intro h; exact ih h
  | ifO l a e r iha ihe ihr =>
    intro h; simp only [CompoundAll] at h
    exact ⟨⟨h.1, rfl⟩, iha h.2.1, ihe h.2.2.1, ihr h.2.2.2⟩
  | forO l b ys y r ihb ihr =>
    intro h; simp only [CompoundAll] at h
    exact ⟨⟨h.1, rfl⟩, ⟨h.2.1, rfl⟩, ihb h.2.2.1, ihr h.2.2.2⟩

theorem dep_contra {rt : Nat → Nat} {eff : Nat → List Nat} {x u : Leaf} (hd : Dep rt eff x u)
    (h : x.cls = Cls.all ∧ eff x.id = []) : False := by
  rcases hd with ⟨hc, _⟩ | ⟨_, _, v, _, hv, _⟩
  · rcases hc with ⟨h1, _⟩ | ⟨h1, _⟩ <;> rw [h.1] at h1 <;> cases h1
  · rw [h.2] at hv; simp at hv

theorem kidL_sub {x : Leaf} : ∀ {b : Blk}, x ∈ kidL b → x ∈ leavesB b := by
  intro b
  induction b with
  | nil => intro h; simp [kidL] at h
  | leaf l r ih =>
    intro h; simp only [kidL, List.mem_cons] at h; simp only [leavesB, List.mem_cons]
    exact h.imp id ih
  | sync r ih => intro h; exact ih h
  | ifO l a e r _ _ ihr =>
    intro h; simp only [kidL, List.mem_cons] at h; simp only [leavesB, List.mem_cons, List.mem_append]
    rcases h with h | h
    · exact Or.inl h
    · exact Or.inr (Or.inr (Or.inr (ihr h)))
  | forO l b ys y r _ ihr =>
    intro h; simp only [kidL, List.mem_cons] at h; simp only [leavesB, List.mem_cons, List.mem_append]
    rcases h with h | h
    · exact Or.inl h
    · exact Or.inr (Or.inr (Or.inr (ihr h)))

theorem visAt_mem {x : Leaf} {cx' : Ctx} : ∀ {b : Blk} {cx : Ctx}, VisAt x cx' b cx → x ∈ leavesB b := by
  intro b
  induction b with
  | nil => intro cx h; simp [VisAt] at h
  | leaf l r ih =>
    intro cx h; simp only [VisAt] at h; simp only [leavesB, List.mem_cons]
    rcases h with h | h
    · exact Or.inl h.1
    · exact Or.inr (ih h)
  | sync r ih => intro cx h; exact ih h
  | ifO l a e r iha ihe ihr =>
    intro cx h; simp only [VisAt] at h; simp only [leavesB, List.mem_cons, List.mem_append]
    rcases h with h | h | h | h
    · exact Or.inl h.1
    · exact Or.inr (Or.inl (iha h))
    · exact Or.inr (Or.inr (Or.inl (ihe h)))
    · exact Or.inr (Or.inr (Or.inr (ihr h)))
  | forO l b ys y r ihb ihr =>
    intro cx h; simp only [VisAt] at h; simp only [leavesB, List.mem_cons, List.mem_append]
    rcases h with h | h | h | h
    · exact Or.inl h.1
    · exact Or.inr (Or.inl (ihb h))
    · exact Or.inr (Or.inr (Or.inl h.1))
    · exact Or.inr (Or.inr (Or.inr (ihr h)))

/-- some `scf.for` inside the block (at any depth) holds both `x` and operation `u` in its body -/
def InLoop (x u : Leaf) : Blk → Prop
  | .nil => False
  | .leaf _ r => InLoop x u r
  | .sync r => InLoop x u r
  | .ifO _ a e r => InLoop x u a ∨ InLoop x u e ∨ InLoop x u r
  | .forO _ b _ y r => ((x ∈ leavesB b ∨ x = y) ∧ u.id ∈ idsB b ++ [y.id]) ∨ InLoop x u b ∨ InLoop x u r

theorem inloop_mem {x u : Leaf} : ∀ {b : Blk}, InLoop x u b → x ∈ leavesB b := by
  intro b
  induction b with
  | nil => intro h; simp [InLoop] at h
  | leaf l r ih => intro h; simp only [leavesB, List.mem_cons]; exact Or.inr (ih h)
  | sync r ih => intro h; exact ih h
  | ifO l a e r iha ihe ihr =>
    intro h; simp only [InLoop] at h; simp only [leavesB, List.mem_cons, List.mem_append]
    rcases h with h | h | h
    · exact Or.inr (Or.inl (iha h))
    · exact Or.inr (Or.inr (Or.inl (ihe h)))
    · exact Or.inr (Or.inr (Or.inr (ihr h)))
  | forO l b ys y r ihb ihr =>
    intro h; simp only [InLoop] at h; simp only [leavesB, List.mem_cons, List.mem_append]
    rcases h with ⟨h | h, _⟩ | h | h
    · exact Or.inr (Or.inl h)
    · exact Or.inr (Or.inr (Or.inl h))
    · exact Or.inr (Or.inl (ihb h))
    · exact Or.inr (Or.inr (Or.inr (ihr h)))

/-- `common_loop`: when no loop inside the block holds both operations, the innermost loop that contains `u`,
seen from where `x` is visited, is the one seen from the block's own context -/
theorem visAt_firstLoop {x u : Leaf} {cx' : Ctx} : ∀ {b : Blk} {cx : Ctx}, VisAt x cx' b cx → ¬ InLoop x u b →
    firstLoop cx'.loops u.id = firstLoop cx.loops u.id := by
  intro b
  induction b with
  | nil => intro cx h; simp [VisAt] at h
  | leaf l r ih =>
    intro cx h hn
    simp only [VisAt] at h; simp only [InLoop] at hn
    rcases h with h | h
    · rw [h.2]
    · exact ih h hn
  | sync r ih => intro cx h hn; exact ih h hn
  | ifO l a e r iha ihe ihr =>
    intro cx h hn
    simp only [VisAt] at h; simp only [InLoop, not_or] at hn
    rcases h with h | h | h | h
    · rw [h.2]
    · exact iha (cx := plainCtx cx a) h hn.1
    · exact ihe (cx := plainCtx cx e) h hn.2.1
    · exact ihr h hn.2.2
  | forO l b ys y r ihb ihr =>
    intro cx h hn
    simp only [VisAt] at h; simp only [InLoop, not_or, not_and] at hn
    obtain ⟨hn1, hn2, hn3⟩ := hn
    rcases h with h | h | h | h
    · rw [h.2]
    · rw [ihb (cx := bodyCtx cx b y) h hn2]
      have : u.id ∉ idsB b ++ [y.id] := hn1 (Or.inl (visAt_mem h))
      simp [bodyCtx, firstLoop, this]
    · rw [h.2]
      have : u.id ∉ idsB b ++ [y.id] := hn1 (Or.inr h.1)
      simp [bodyCtx, firstLoop, this]
    · exact ihr h hn3

/-! ### Lemma F: the yield rule (with FC13a). After an occurrence of `x`, the rest of the iteration of the innermost
loop that holds `x` and `u` contains a barrier. -/

theorem inloop_sync (all : List Leaf) (rt : Nat → Nat) (eff : Nat → List Nat) (x u : Leaf) (hd : Dep rt eff x u) (hu : u ∈ all) :
    ∀ (b : Blk) (cx : Ctx) (P : List Nat) (t a m1 : List Ev),
    (idsB b).Nodup → CompoundOK eff b → Run (walkB Fix.all all rt eff cx b P).1 t → t = a ++ Ev.op x :: m1 →
    InLoop x u b → Ev.sync ∈ m1 := by
  intro b
  induction b with
  | nil => intro cx P t a m1 _ _ _ _ h; simp [InLoop] at h
  | leaf l r ih =>
    intro cx P t a m1 hnd hca hr ht hsib
    simp only [walkB] at hr
    obtain ⟨t', hr', rfl⟩ := run_withSync.mp hr
    simp only [Run] at hr'
    obtain ⟨t'', hr'', rfl⟩ := hr'
    simp only [InLoop] at hsib
    obtain ⟨hnr, hl⟩ := nodup_leaf hnd
    rcases head_cases ht with ⟨hxl, _⟩ | ⟨a', ht'⟩
    · exact absurd (id_mem_idsB (inloop_mem hsib)) (hxl ▸ hl)
    · exact ih _ _ _ _ _ hnr hca hr'' ht' hsib
  | sync r ih =>
    intro cx P t a m1 hnd hca hr ht hsib
    simp only [walkB, Run] at hr
    obtain ⟨t', hr', rfl⟩ := hr
    obtain ⟨a', ht'⟩ := sync_strip ht
    rw [idsB_sync] at hnd
    exact ih _ _ _ _ _ hnd hca hr' ht' hsib
  | ifO l a0 e r iha ihe ihr =>
    intro cx P t a m1 hnd hca hr ht hsib
    simp only [walkB] at hr
    obtain ⟨t', hr', rfl⟩ := run_withSync.mp hr
    simp only [Run] at hr'
    obtain ⟨t1, t2, hbr, hr2, rfl⟩ := hr'
    simp only [InLoop] at hsib
    simp only [CompoundOK] at hca
    obtain ⟨hna, hne, hnr, hda, hde, hdr, hla, hle, hlr⟩ := nodup_if hnd
    rcases head_cases ht with ⟨hxl, _⟩ | ⟨a', ht'⟩
    · exact (dep_contra hd (hxl ▸ hca.1)).elim
    · rcases append_split ht' with ⟨p2, _, h2⟩ | ⟨q, h1, rfl⟩
      · have hxr : x ∈ leavesB r := run_mem _ _ _ _ _ _ _ _ _ hr2 (by rw [h2]; simp)
        have hid := hdr _ (id_mem_idsB hxr)
        rcases hsib with h | h | h
        · exact absurd (id_mem_idsB (inloop_mem h)) hid.1
        · exact absurd (id_mem_idsB (inloop_mem h)) hid.2
        · exact ihr _ _ _ _ _ hnr hca.2.2.2 hr2 h2 h
      · apply List.mem_append_left
        rcases hbr with hb | hb
        · have hxa : x ∈ leavesB a0 := run_mem _ _ _ _ _ _ _ _ _ hb (by rw [h1]; simp)
          have hid := hda _ (id_mem_idsB hxa)
          rcases hsib with h | h | h
          · exact iha _ _ _ _ _ hna hca.2.1 hb h1 h
          · exact absurd (id_mem_idsB (inloop_mem h)) hid.1
          · exact absurd (id_mem_idsB (inloop_mem h)) hid.2
        · have hxe : x ∈ leavesB e := run_mem _ _ _ _ _ _ _ _ _ hb (by rw [h1]; simp)
          have hid := hde _ (id_mem_idsB hxe)
          rcases hsib with h | h | h
          · exact absurd (id_mem_idsB (inloop_mem h)) hid.1
          · exact ihe _ _ _ _ _ hne hca.2.2.1 hb h1 h
          · exact absurd (id_mem_idsB (inloop_mem h)) hid.2
  | forO l b ys y r ihb ihr =>
    intro cx P t a m1 hnd hca hr ht hsib
    simp only [walkB] at hr
    obtain ⟨t', hr', rfl⟩ := run_withSync.mp hr
    simp only [Run] at hr'
    obtain ⟨t1, t2, hst, hr2, rfl⟩ := hr'
    simp only [InLoop] at hsib
    simp only [CompoundOK] at hca
    obtain ⟨hnb, hnr, hdb, hdr, hlb, hly, hlr⟩ := nodup_for hnd
    have hyb : y.id ∉ idsB b := fun h' => (hdb _ h').1 rfl
    rcases head_cases ht with ⟨hxl, _⟩ | ⟨a', ht'⟩
    · exact (dep_contra hd (hxl ▸ hca.1)).elim
    · rcases append_split ht' with ⟨p2, _, h2⟩ | ⟨q, h1, rfl⟩
      · have hxr : x ∈ leavesB r := run_mem _ _ _ _ _ _ _ _ _ hr2 (by rw [h2]; simp)
        have hid := hdr _ (id_mem_idsB hxr)
        rcases hsib with ⟨h | h, _⟩ | h | h
        · exact absurd (id_mem_idsB h) hid.2
        · exact absurd (by rw [h]) hid.1
        · exact absurd (id_mem_idsB (inloop_mem h)) hid.2
        · exact ihr _ _ _ _ _ hnr hca.2.2.2 hr2 h2 h
      · apply List.mem_append_left
        obtain ⟨s, a1, q1, q2, hs, hs1, rfl⟩ := star_find hst _ _ _ h1
        apply List.mem_append_left
        obtain ⟨s', hrs, rfl⟩ := hs
        rcases append_split hs1 with ⟨p2, _, h2⟩ | ⟨q', h1', rfl⟩
        · -- x would be the terminator, which runs on all cores
          obtain ⟨hxy, _, _⟩ := tail_y_cases h2
          exact (dep_contra hd (hxy ▸ hca.2.1)).elim
        · have hxb : x ∈ leavesB b := run_mem _ _ _ _ _ _ _ _ _ hrs (by rw [h1']; simp)
          have inner : InLoop x u b → Ev.sync ∈ q' ++ (ySync (ys || (visit Fix.all all rt eff (bodyCtx cx b y) y
              (if ys then discharge Fix.all (bodyCtx cx b y).scope
                (walkB Fix.all all rt eff (bodyCtx cx b y) b (visit Fix.all all rt eff cx l P).2).2
                else (walkB Fix.all all rt eff (bodyCtx cx b y) b (visit Fix.all all rt eff cx l P).2).2)).1) ++ [Ev.op y]) :=
            fun h => List.mem_append_left _ (ihb _ _ _ _ _ hnb hca.2.2.1 hrs h1' h)
          rcases hsib with ⟨_, huid⟩ | h | h
          · by_cases hin : InLoop x u b
            · exact inner hin
            · -- this loop is the innermost one holding both: its yield becomes pending when x is visited
              have key := dep_keep_or_sync all rt eff x y.id b (bodyCtx cx b y) _ _ _ _ (by
                intro cx' hv
                apply dep_adds_yield hd hu
                rw [visAt_firstLoop hv hin]
                have : (idsB b ++ [y.id]).contains u.id = true := by simpa using huid
                show firstLoop ((idsB b ++ [y.id], y.id) :: cx.loops) u.id = some y.id
                simp only [firstLoop]
                rw [if_pos this]) hrs h1' hyb
              rcases key with k | k
              · apply List.mem_append_right
                have hys : (ys || (visit Fix.all all rt eff (bodyCtx cx b y) y (if ys then discharge Fix.all (bodyCtx cx b y).scope
                    (walkB Fix.all all rt eff (bodyCtx cx b y) b (visit Fix.all all rt eff cx l P).2).2
                    else (walkB Fix.all all rt eff (bodyCtx cx b y) b (visit Fix.all all rt eff cx l P).2).2)).1) = true := by
                  cases ys with
                  | true => rfl
                  | false =>
                    simp only [Bool.false_or, Bool.false_eq_true, if_false]
                    exact visit_hit_iff.mpr k
                rw [hys]; simp [ySync]
              · exact List.mem_append_left _ k
          · exact inner h
          · exact absurd (id_mem_idsB (inloop_mem h)) (hdb _ (id_mem_idsB hxb)).2

/-! ### Lemma C: every dependency that starts at a single-core operation is separated by a barrier -/

theorem star_pair {S : List Ev → Prop} {t : List Ev} (hst : Star S t) :
    ∀ (a m c : List Ev) (e1 e2 : Ev), t = a ++ e1 :: (m ++ e2 :: c) →
    (∃ s a1 c1, S s ∧ s = a1 ++ e1 :: (m ++ e2 :: c1)) ∨
    (∃ s a1 m1 m2, S s ∧ s = a1 ++ e1 :: m1 ∧ m = m1 ++ m2) := by
  induction hst with
  | nil => intro a m c e1 e2 h; simp at h
  | cons ha _ ih =>
    intro a m c e1 e2 h
    rcases append_split h with ⟨p2, _, h2⟩ | ⟨q, h1, h2⟩
    · exact ih _ _ _ _ _ h2
    · rcases append_split h2.symm with ⟨p2, h3, _⟩ | ⟨q'', h3, _⟩
      · exact Or.inr ⟨_, a, q, p2, ha, h1, h3⟩
      · exact Or.inl ⟨_, a, q'', ha, by rw [h1, h3]⟩

theorem loop_mem (fx : Fix) (all : List Leaf) (rt : Nat → Nat) (eff : Nat → List Nat) {b : Blk} {y : Leaf} {cxb : Ctx} {P1 : List Nat} {h : Bool}
    {t1 : List Ev}
    (hst : Star (fun s => ∃ s', Run (walkB fx all rt eff cxb b P1).1 s' ∧ s = s' ++ (ySync h ++ [Ev.op y])) t1)
    {z : Leaf} (hz : Ev.op z ∈ t1) : z ∈ leavesB b ∨ z = y := by
  have key := star_mem (Q := fun e => ∀ z, e = Ev.op z → z ∈ leavesB b ∨ z = y) hst (by
    intro s hs e he z' hz'
    obtain ⟨s', hrs, rfl⟩ := hs
    subst hz'
    simp only [List.mem_append, List.mem_singleton] at he
    rcases he with he | he | he
    · left; exact run_mem _ _ _ _ _ _ _ _ _ hrs he
    · unfold ySync at he; split at he <;> simp at he
    · right; injection he)
  exact key _ hz z rfl

theorem nodup_cut_if {l : Leaf} {a e r : Blk} (h : (idsB (.ifO l a e r)).Nodup) :
    (idsB (.ifO l a e .nil)).Nodup := by
  refine List.Nodup.sublist ?_ h
  simp [idsB, leavesB]

theorem nodup_cut_for {l y : Leaf} {b r : Blk} {ys : Bool} (h : (idsB (.forO l b ys y r)).Nodup) :
    (idsB (.forO l b ys y .nil)).Nodup := by
  refine List.Nodup.sublist ?_ h
  simp [idsB, leavesB]

theorem from_single (all : List Leaf) (rt : Nat → Nat) (eff : Nat → List Nat) (x u : Leaf) (hd : Dep rt eff x u) (hu : u ∈ all) :
    ∀ (b : Blk) (cx : Ctx) (P : List Nat) (t a m c : List Ev),
    (idsB b).Nodup → CompoundOK eff b → Run (walkB Fix.all all rt eff cx b P).1 t →
    t = a ++ Ev.op x :: (m ++ Ev.op u :: c) → Ev.sync ∈ m := by
  intro b
  induction b with
  | nil =>
    intro cx P t a m c _ _ hr ht
    simp only [walkB, Run] at hr
    subst hr; simp at ht
  | leaf l r ih =>
    intro cx P t a m c hnd hca hr ht
    simp only [walkB] at hr
    obtain ⟨t', hr', rfl⟩ := run_withSync.mp hr
    simp only [Run] at hr'
    obtain ⟨t'', hr'', rfl⟩ := hr'
    obtain ⟨hnr, _⟩ := nodup_leaf hnd
    rcases head_cases ht with ⟨hxl, hm⟩ | ⟨a', ht'⟩
    · subst hxl
      exact pending_sync all rt eff r cx _ _ _ _ u hnr hr'' hm.symm (visit_adds (dep_adds hd hu))
    · exact ih _ _ _ _ _ _ hnr hca hr'' ht'
  | sync r ih =>
    intro cx P t a m c hnd hca hr ht
    simp only [walkB, Run] at hr
    obtain ⟨t', hr', rfl⟩ := hr
    obtain ⟨a', ht'⟩ := sync_strip ht
    rw [idsB_sync] at hnd
    exact ih _ _ _ _ _ _ hnd hca hr' ht'
  | ifO l a0 e r iha ihe ihr =>
    intro cx P t a m c hnd hca hr ht
    simp only [walkB] at hr
    obtain ⟨t', hr', rfl⟩ := run_withSync.mp hr
    simp only [Run] at hr'
    obtain ⟨t1, t2, hbr, hr2, rfl⟩ := hr'
    simp only [CompoundOK] at hca
    obtain ⟨hna, hne, hnr, hda, hde, hdr, hla, hle, hlr⟩ := nodup_if hnd
    rcases head_cases ht with ⟨hxl, _⟩ | ⟨a', ht'⟩
    · exact (dep_contra hd (hxl ▸ hca.1)).elim
    · rcases append_split ht' with ⟨p2, _, h2⟩ | ⟨q, h1, h2⟩
      · exact ihr _ _ _ _ _ _ hnr hca.2.2.2 hr2 h2
      · rcases append_split h2.symm with ⟨p2, rfl, h4⟩ | ⟨q'', h3, _⟩
        · -- x in a branch, u in the rest of the block
          have hur : u ∈ leavesB r := run_mem _ _ _ _ _ _ _ _ _ hr2 (by rw [h4]; simp)
          have hid := hdr _ (id_mem_idsB hur)
          have hrun1 : Run (walkB Fix.all all rt eff cx (.ifO l a0 e .nil) P).1
              ((if (visit Fix.all all rt eff cx l P).1 then [Ev.sync] else []) ++ Ev.op l :: (t1 ++ [])) := by
            simp only [walkB]
            exact run_withSync.mpr ⟨_, by simp only [Run]; exact ⟨t1, [], hbr, rfl, rfl⟩, rfl⟩
          have hz : u.id ∉ idsB (.ifO l a0 e .nil) := by
            rw [idsB_if]
            simp only [List.mem_cons, List.mem_append, not_or, idsB, leavesB, List.map_nil, List.not_mem_nil,
              not_false_eq_true, and_true]
            exact ⟨fun h' => hlr (h' ▸ id_mem_idsB hur), hid.1, hid.2⟩
          have key := dep_keep_or_sync all rt eff x u.id (.ifO l a0 e .nil) cx P _
            ((if (visit Fix.all all rt eff cx l P).1 then [Ev.sync] else []) ++ Ev.op l :: a') (q ++ [])
            (fun cx' _ => dep_adds hd hu) hrun1 (by rw [h1]; simp) hz
          simp only [walkB] at key
          rcases key with k | k
          · exact List.mem_append_right _ (pending_sync all rt eff r cx _ _ _ _ u hnr hr2 h4 k)
          · exact List.mem_append_left _ (by simpa using k)
        · rw [h3] at h1
          rcases hbr with hb | hb
          · exact iha _ _ _ _ _ _ hna hca.2.1 hb h1
          · exact ihe _ _ _ _ _ _ hne hca.2.2.1 hb h1
  | forO l b ys y r ihb ihr =>
    intro cx P t a m c hnd hca hr ht
    simp only [walkB] at hr
    obtain ⟨t', hr', rfl⟩ := run_withSync.mp hr
    simp only [Run] at hr'
    obtain ⟨t1, t2, hst, hr2, rfl⟩ := hr'
    simp only [CompoundOK] at hca
    obtain ⟨hnb, hnr, hdb, hdr, hlb, hly, hlr⟩ := nodup_for hnd
    have hyb : y.id ∉ idsB b := fun h' => (hdb _ h').1 rfl
    rcases head_cases ht with ⟨hxl, _⟩ | ⟨a', ht'⟩
    · exact (dep_contra hd (hxl ▸ hca.1)).elim
    · rcases append_split ht' with ⟨p2, _, h2⟩ | ⟨q, h1, h2⟩
      · exact ihr _ _ _ _ _ _ hnr hca.2.2.2 hr2 h2
      · rcases append_split h2.symm with ⟨p2, rfl, h4⟩ | ⟨q'', h3, _⟩
        · -- x inside the loop, u after the loop
          have hur : u ∈ leavesB r := run_mem _ _ _ _ _ _ _ _ _ hr2 (by rw [h4]; simp)
          have hid := hdr _ (id_mem_idsB hur)
          have hrun1 : Run (walkB Fix.all all rt eff cx (.forO l b ys y .nil) P).1
              ((if (visit Fix.all all rt eff cx l P).1 then [Ev.sync] else []) ++ Ev.op l :: (t1 ++ [])) := by
            simp only [walkB]
            exact run_withSync.mpr ⟨_, by simp only [Run]; exact ⟨t1, [], hst, rfl, rfl⟩, rfl⟩
          have hz : u.id ∉ idsB (.forO l b ys y .nil) := by
            rw [idsB_for]
            simp only [List.mem_cons, List.mem_append, not_or, idsB, leavesB, List.map_nil, List.not_mem_nil,
              or_false]
            exact ⟨fun h' => hlr (h' ▸ id_mem_idsB hur), hid.2, hid.1⟩
          have key := dep_keep_or_sync all rt eff x u.id (.forO l b ys y .nil) cx P _
            ((if (visit Fix.all all rt eff cx l P).1 then [Ev.sync] else []) ++ Ev.op l :: a') (q ++ [])
            (fun cx' _ => dep_adds hd hu) hrun1 (by rw [h1]; simp) hz
          simp only [walkB] at key
          rcases key with k | k
          · exact List.mem_append_right _ (pending_sync all rt eff r cx _ _ _ _ u hnr hr2 h4 k)
          · exact List.mem_append_left _ (by simpa using k)
        · rw [h3] at h1
          rcases star_pair hst _ _ _ _ _ h1 with ⟨s, a1, c1, hs, hs1⟩ | ⟨s, a1, m1, m2, hs, hs1, rfl⟩
          · -- same iteration
            obtain ⟨s', hrs, rfl⟩ := hs
            rcases append_split hs1 with ⟨p2, _, h5⟩ | ⟨q', h5, h6⟩
            · obtain ⟨_, hnil, _⟩ := tail_y_cases h5
              simp at hnil
            · rcases append_split h6.symm with ⟨p3, rfl, h7⟩ | ⟨q3, h7, _⟩
              · -- u is the terminator
                obtain ⟨huy, _, hp3⟩ := tail_y_cases h7
                have key := dep_keep_or_sync all rt eff x y.id b (bodyCtx cx b y) _ _ _ _
                  (fun cx' _ => huy ▸ dep_adds hd hu) hrs h5 hyb
                rcases key with k | k
                · apply List.mem_append_right
                  have hys : (ys || (visit Fix.all all rt eff (bodyCtx cx b y) y (if ys then discharge Fix.all (bodyCtx cx b y).scope
                      (walkB Fix.all all rt eff (bodyCtx cx b y) b (visit Fix.all all rt eff cx l P).2).2
                      else (walkB Fix.all all rt eff (bodyCtx cx b y) b (visit Fix.all all rt eff cx l P).2).2)).1) = true := by
                    cases ys with
                    | true => rfl
                    | false =>
                      simp only [Bool.false_or, Bool.false_eq_true, if_false]
                      exact visit_hit_iff.mpr k
                  rw [hp3, hys]; simp [ySync]
                · exact List.mem_append_left _ k
              · rw [h7] at h5
                exact ihb _ _ _ _ _ _ hnb hca.2.2.1 hrs h5
          · -- u in a later iteration: the back edge
            apply List.mem_append_left
            have hxm : x ∈ leavesB b ∨ x = y :=
              loop_mem Fix.all all rt eff (Star.cons hs Star.nil) (by rw [hs1]; simp)
            have hum : u ∈ leavesB b ∨ u = y := loop_mem Fix.all all rt eff hst (by rw [h1]; simp)
            have hsib : InLoop x u (.forO l b ys y .nil) := by
              simp only [InLoop]
              refine Or.inl ⟨hxm, ?_⟩
              rcases hum with h | h
              · exact List.mem_append_left _ (id_mem_idsB h)
              · rw [h]; simp
            have hrun1 : Run (walkB Fix.all all rt eff cx (.forO l b ys y .nil) P).1
                ((if (visit Fix.all all rt eff cx l P).1 then [Ev.sync] else []) ++ Ev.op l :: ((s ++ []) ++ [])) := by
              simp only [walkB]
              exact run_withSync.mpr ⟨_, by
                simp only [Run]; exact ⟨s ++ [], [], Star.cons hs Star.nil, rfl, rfl⟩, rfl⟩
            have key := inloop_sync all rt eff x u hd hu (.forO l b ys y .nil) cx P _
              ((if (visit Fix.all all rt eff cx l P).1 then [Ev.sync] else []) ++ Ev.op l :: a1) (m1 ++ [] ++ [])
              (nodup_cut_for hnd) (by simp only [CompoundOK]; exact ⟨hca.1, hca.2.1, hca.2.2.1, trivial⟩)
              hrun1 (by rw [hs1]; simp) hsib
            simpa using key


/-! ### small constructors for runs (used by the concrete witnesses) -/

theorem run_nil : Run .nil [] := by simp [Run]
theorem run_leaf {l : Leaf} {r : Blk} {t : List Ev} (h : Run r t) : Run (.leaf l r) (Ev.op l :: t) := by
  simp only [Run]; exact ⟨t, h, rfl⟩
theorem run_sync {r : Blk} {t : List Ev} (h : Run r t) : Run (.sync r) (Ev.sync :: t) := by
  simp only [Run]; exact ⟨t, h, rfl⟩
theorem run_ifT {l : Leaf} {a e r : Blk} {t1 t2 : List Ev} (h1 : Run a t1) (h2 : Run r t2) :
    Run (.ifO l a e r) (Ev.op l :: (t1 ++ t2)) := by
  simp only [Run]; exact ⟨t1, t2, Or.inl h1, h2, rfl⟩
theorem run_ifE {l : Leaf} {a e r : Blk} {t1 t2 : List Ev} (h1 : Run e t1) (h2 : Run r t2) :
    Run (.ifO l a e r) (Ev.op l :: (t1 ++ t2)) := by
  simp only [Run]; exact ⟨t1, t2, Or.inr h1, h2, rfl⟩
theorem run_for0 {l y : Leaf} {b r : Blk} {ys : Bool} {t2 : List Ev} (h2 : Run r t2) :
    Run (.forO l b ys y r) (Ev.op l :: ([] ++ t2)) := by
  simp only [Run]; exact ⟨[], t2, Star.nil, h2, rfl⟩
theorem run_for2 {l y : Leaf} {b r : Blk} {ys : Bool} {s1 s2 t2 : List Ev} (h1 : Run b s1) (h1' : Run b s2)
    (h2 : Run r t2) :
    Run (.forO l b ys y r)
      (Ev.op l :: (((s1 ++ (ySync ys ++ [Ev.op y])) ++ ((s2 ++ (ySync ys ++ [Ev.op y])) ++ [])) ++ t2)) := by
  simp only [Run]
  exact ⟨_, t2, Star.cons ⟨s1, h1, rfl⟩ (Star.cons ⟨s2, h1', rfl⟩ Star.nil), h2, rfl⟩

/-- straight-line code -/
def StraightLine : Blk → Prop
  | .nil => True
  | .leaf _ r => StraightLine r
  | .sync r => StraightLine r
  | .ifO _ _ _ _ => False
  | .forO _ _ _ _ _ => False

theorem straight_compoundAll : ∀ b, StraightLine b → CompoundAll b := by
  intro b
  induction b with
  | nil => intro _; trivial
  | leaf l r ih => intro h; exact ih h
  | sync r ih => intro h; exact ih h
  | ifO => intro h; exact h.elim
  | forO => intro h; exact h.elim

/-! ### `snax-to-func` preserves barrier separation -/

theorem filter_split {α : Type} (q : α → Bool) : ∀ (l : List α) (a' : List α) (x : α) (r' : List α),
    l.filter q = a' ++ x :: r' → ∃ a r, l = a ++ x :: r ∧ a.filter q = a' ∧ r.filter q = r' := by
  intro l
  induction l with
  | nil => intro a' x r' h; simp at h
  | cons z zs ih =>
    intro a' x r' h
    cases hq : q z with
    | false =>
      rw [List.filter_cons_of_neg (by simp [hq])] at h
      obtain ⟨a, r, h1, h2, h3⟩ := ih _ _ _ h
      exact ⟨z :: a, r, by rw [h1]; rfl, by rw [List.filter_cons_of_neg (by simp [hq]), h2], h3⟩
    | true =>
      rw [List.filter_cons_of_pos hq] at h
      cases a' with
      | nil =>
        simp only [List.nil_append, List.cons.injEq] at h
        exact ⟨[], zs, by rw [h.1]; rfl, rfl, h.2⟩
      | cons b bs =>
        simp only [List.cons_append, List.cons.injEq] at h
        obtain ⟨a, r, h1, h2, h3⟩ := ih _ _ _ h.2
        exact ⟨z :: a, r, by rw [h1]; rfl, by rw [List.filter_cons_of_pos hq, h2, h.1], h3⟩

/-- Erasing operations that are not barriers keeps every barrier separation
(generic in what is erased: `keep` is any predicate on operations). -/
theorem separated_filter (keep : Leaf → Bool) (t : List Ev) (h : Separated t) :
    Separated (t.filter (fun e => match e with | .sync => true | .op l => keep l)) := by
  intro a' m' c' e1 e2 ht hc
  obtain ⟨a, r, h1, _, h3⟩ := filter_split _ t a' (Ev.op e1) _ ht
  obtain ⟨m, c, h4, h5, _⟩ := filter_split _ r m' (Ev.op e2) _ h3
  have hs := h a m c e1 e2 (by rw [h1, h4]) hc
  rw [← h5]
  exact List.mem_filter.mpr ⟨hs, rfl⟩

theorem separated_lowerT (t : List Ev) (h : Separated t) : Separated (lowerT t) := by
  have := separated_filter (fun l => !l.dealloc) t h
  have he : (fun e => match e with | Ev.sync => true | Ev.op l => !l.dealloc) = keptEv := by
    funext e; cases e <;> rfl
  rw [he] at this
  exact this

theorem lowerT_append (a b : List Ev) : lowerT (a ++ b) = lowerT a ++ lowerT b := by
  simp [lowerT]

theorem lowerT_ySync (ys : Bool) : lowerT (ySync ys) = ySync ys := by
  cases ys <;> simp [lowerT, ySync, keptEv]

/-- every execution of the lowered code is the lowering of an execution of the code before the pass
(same branch outcomes, same trip counts) -/
theorem lower_run : ∀ (p : Blk) (t' : List Ev), CompoundKept p → Run (lowerB p) t' →
    ∃ t, Run p t ∧ t' = lowerT t := by
  intro p
  induction p with
  | nil =>
    intro t' _ hr
    simp only [lowerB, Run] at hr
    exact ⟨[], by simp [Run], by simp [hr, lowerT]⟩
  | leaf l r ih =>
    intro t' hk hr
    simp only [lowerB] at hr
    cases hd : l.dealloc with
    | true =>
      rw [hd] at hr
      simp only [if_true] at hr
      obtain ⟨t, h1, h2⟩ := ih _ hk hr
      exact ⟨Ev.op l :: t, by simp only [Run]; exact ⟨t, h1, rfl⟩, by
        rw [h2]; simp [lowerT, keptEv, hd]⟩
    | false =>
      rw [hd] at hr
      simp only [Bool.false_eq_true, if_false, Run] at hr
      obtain ⟨t0, hr0, rfl⟩ := hr
      obtain ⟨t, h1, h2⟩ := ih _ hk hr0
      exact ⟨Ev.op l :: t, by simp only [Run]; exact ⟨t, h1, rfl⟩, by
        rw [h2]; simp [lowerT, keptEv, hd]⟩
  | sync r ih =>
    intro t' hk hr
    simp only [lowerB, Run] at hr
    obtain ⟨t0, hr0, rfl⟩ := hr
    obtain ⟨t, h1, h2⟩ := ih _ hk hr0
    exact ⟨Ev.sync :: t, by simp only [Run]; exact ⟨t, h1, rfl⟩, by
      rw [h2]; simp only [lowerT]; exact (List.filter_cons_of_pos (by rfl)).symm⟩
  | ifO l a e r iha ihe ihr =>
    intro t' hk hr
    simp only [CompoundKept] at hk
    simp only [lowerB, Run] at hr
    obtain ⟨t1, t2, hbr, hr2, rfl⟩ := hr
    obtain ⟨u2, g2, e2⟩ := ihr _ hk.2.2.2 hr2
    rcases hbr with hb | hb
    · obtain ⟨u1, g1, e1⟩ := iha _ hk.2.1 hb
      exact ⟨Ev.op l :: (u1 ++ u2), by simp only [Run]; exact ⟨u1, u2, Or.inl g1, g2, rfl⟩, by
        rw [e1, e2]; simp [lowerT, keptEv, hk.1]⟩
    · obtain ⟨u1, g1, e1⟩ := ihe _ hk.2.2.1 hb
      exact ⟨Ev.op l :: (u1 ++ u2), by simp only [Run]; exact ⟨u1, u2, Or.inr g1, g2, rfl⟩, by
        rw [e1, e2]; simp [lowerT, keptEv, hk.1]⟩
  | forO l b ys y r ihb ihr =>
    intro t' hk hr
    simp only [CompoundKept] at hk
    simp only [lowerB, Run] at hr
    obtain ⟨t1, t2, hst, hr2, rfl⟩ := hr
    obtain ⟨u2, g2, e2⟩ := ihr _ hk.2.2.2 hr2
    have hstar : ∃ u1, Star (fun s => ∃ s', Run b s' ∧ s = s' ++ (ySync ys ++ [Ev.op y])) u1 ∧ t1 = lowerT u1 := by
      induction hst with
      | nil => exact ⟨[], Star.nil, by simp [lowerT]⟩
      | cons ha _ ih2 =>
        obtain ⟨s', hs', rfl⟩ := ha
        obtain ⟨w, gw, ew⟩ := ihb _ hk.2.2.1 hs'
        obtain ⟨u1, gu, eu⟩ := ih2
        refine ⟨(w ++ (ySync ys ++ [Ev.op y])) ++ u1, Star.cons ⟨w, gw, rfl⟩ gu, ?_⟩
        rw [lowerT_append, lowerT_append, lowerT_append, lowerT_ySync, ← ew, ← eu]
        simp [lowerT, keptEv, hk.2.1]
    obtain ⟨u1, g1, e1⟩ := hstar
    exact ⟨Ev.op l :: (u1 ++ u2), by simp only [Run]; exact ⟨u1, u2, g1, g2, rfl⟩, by
      rw [e1, e2]; simp [lowerT, keptEv, hk.1]⟩

theorem compoundKept_withSync {h : Bool} {b : Blk} (hk : CompoundKept b) : CompoundKept (withSync h b) := by
  cases h
  · simpa [withSync] using hk
  · simpa [withSync, CompoundKept] using hk

theorem walk_compoundKept (fx : Fix) (all : List Leaf) (rt : Nat → Nat) (eff : Nat → List Nat) : ∀ (b : Blk) (cx : Ctx) (P : List Nat),
    CompoundKept b → CompoundKept (walkB fx all rt eff cx b P).1 := by
  intro b
  induction b with
  | nil => intro cx P h; simpa [walkB] using h
  | leaf l r ih =>
    intro cx P h
    simp only [walkB]
    exact compoundKept_withSync (by simp only [CompoundKept] at h ⊢; exact ih _ _ h)
  | sync r ih =>
    intro cx P h
    simp only [walkB, CompoundKept] at h ⊢
    exact ih _ _ h
  | ifO l a e r iha ihe ihr =>
    intro cx P h
    simp only [walkB]
    apply compoundKept_withSync
    simp only [CompoundKept] at h ⊢
    exact ⟨h.1, iha _ _ h.2.1, ihe _ _ h.2.2.1, ihr _ _ h.2.2.2⟩
  | forO l b ys y r ihb ihr =>
    intro cx P h
    simp only [walkB]
    apply compoundKept_withSync
    simp only [CompoundKept] at h ⊢
    exact ⟨h.1, h.2.1, ihb _ _ h.2.2.1, ihr _ _ h.2.2.2⟩

end SnaxVerif.Cores
