import SnaxVerif.Lemmas.SchedWF
/-! The fuel of the model's `backtrack` is adequate (never `outOfFuel` above an explicit bound) and irrelevant
(more fuel never changes an answer): the fuelled model stands for the unfuelled Python recursion. -/
namespace SnaxVerif.Sched
open List

theorem rotate_err {d : Nat} {s : Schedule} {e : Err} (h : rotate d s = .error e) : e = .indexError := by
  unfold rotate at h
  split at h
  · simpa using h.symm
  · cases h

theorem tile_err {i t : Nat} {s : Schedule} {e : Err} (h : tile i t s = .error e) : e ≠ .outOfFuel := by
  unfold tile at h
  split at h
  · injection h with h; subst h; decide
  · split at h
    · injection h with h; subst h; decide
    · split at h
      · injection h with h; subst h; decide
      · cases h

theorem btStep_err {mtch : Template → Schedule → Except Err Bool} {checks : List (Template → Schedule → Bool)}
    {tmpl : Template} {k : Nat} {s : Schedule} {e : Err} (hm : ∀ t x, mtch t x ≠ .error .outOfFuel)
    (h : btStep mtch checks tmpl k s = .error e) : e ≠ .outOfFuel := by
  unfold btStep at h
  split at h
  · next e' hr =>
    injection h with h; subst h
    rw [rotate_err hr]; decide
  · split at h
    · injection h with h; subst h; decide
    · split at h
      · next e' hme =>
        injection h with h; subst h
        intro he; subst he
        exact hm _ _ hme
      · cases h
      · split at h
        · cases h
        · simp only at h
          split at h
          · cases h
          · split at h
            · cases h
            · split at h
              · cases h
              · split at h
                · next e' hte =>
                  injection h with h; subst h
                  exact tile_err hte
                · cases h

/-- remaining depth of the recursion: levels left in the schedule plus tilings the template can still cause -/
def depthBound (tmpl : Template) (s : Schedule) (k : Nat) : Nat := (s.n + 1 - k) + (tmpl.n + 1 - k)

theorem templateBound_ne_zero {t : Template} {k : Nat} (h : templateBound t k ≠ 0) : k ≤ t.n ∧ 0 < k := by
  unfold templateBound at h
  split at h
  · assumption
  · exact absurd rfl h

/-- a candidate has the dims of the schedule, or one more if the focused dim was tiled (template bounded there) -/
theorem btStep_dims {mtch : Template → Schedule → Except Err Bool} {checks : List (Template → Schedule → Bool)}
    {tmpl : Template} {k : Nat} {s s1 : Schedule} {cand : Option Schedule} (hk : k ≤ s.n)
    (h : btStep mtch checks tmpl k s = .ok (s1, cand)) :
    s1.n = s.n ∧ ∀ c, cand = some c → depthBound tmpl c (k + 1) < depthBound tmpl s k := by
  obtain ⟨hrot, hk0, hc⟩ := btStep_ok h
  obtain ⟨rfl, hd, _⟩ := rotate_ok hrot
  have hn1 : (rotateRaw (s.n - k + 1) s).n = s.n := by
    simp only [rotateRaw]; exact length_rotList _ _ (by omega) (by omega)
  refine ⟨hn1, ?_⟩
  intro c hcand
  obtain ⟨_, _, hcase⟩ := hc c hcand
  rcases hcase with ⟨rfl, _⟩ | ⟨htb, _, htile⟩
  · unfold depthBound
    rw [hn1]
    omega
  · obtain ⟨rfl, hi, _, _⟩ := tile_ok htile
    have hcn : (tileRaw ((rotateRaw (s.n - k + 1) s).n - k) (templateBound tmpl k) (rotateRaw (s.n - k + 1) s)).n
        = s.n + 1 := by
      show (tileList _ _ _ _).length = s.n + 1
      rw [length_tileList _ _ _ _ hi]
      exact congrArg (· + 1) hn1
    obtain ⟨hkt, _⟩ := templateBound_ne_zero htb
    unfold depthBound
    rw [hcn]
    omega

theorem btLoop_no_oof {step : Schedule → Except Err (Schedule × Option Schedule)}
    {rec : Schedule → Except Err (List Schedule)} (P : Schedule → Prop)
    (hstepE : ∀ s e, P s → step s = .error e → e ≠ .outOfFuel)
    (hstepP : ∀ s s1 cand, P s → step s = .ok (s1, cand) → P s1 ∧ ∀ c, cand = some c → rec c ≠ .error .outOfFuel) :
    ∀ (i : Nat) (s : Schedule), P s → btLoop step rec i s ≠ .error .outOfFuel
  | 0, _, _ => by simp [btLoop]
  | i + 1, s, hP => by
    unfold btLoop
    split
    · next e he =>
      intro h
      injection h with h
      exact hstepE s e hP he h
    · next s1 cand hs =>
      obtain ⟨hP1, hrec⟩ := hstepP s s1 cand hP hs
      split
      · next e he =>
        intro h
        injection h with h
        subst h
        cases cand with
        | none => simp at he
        | some c => exact hrec c rfl he
      · split
        · next e he =>
          intro h
          injection h with h
          subst h
          exact btLoop_no_oof P hstepE hstepP i s1 hP1 he
        · intro h; cases h

/-- **fuel adequacy**: with more fuel than `depthBound` the search never runs out of fuel -/
theorem backtrack_no_oof {mtch : Template → Schedule → Except Err Bool} {checks : List (Template → Schedule → Bool)}
    {tmpl : Template} (hm : ∀ t x, mtch t x ≠ .error .outOfFuel) :
    ∀ (fuel : Nat) (s : Schedule) (k : Nat), depthBound tmpl s k < fuel →
      backtrack mtch checks tmpl fuel s k ≠ .error .outOfFuel
  | 0, _, _, h => by omega
  | fuel + 1, s, k, h => by
    unfold backtrack
    split
    · intro h'; cases h'
    · next hk =>
      have hk' : k ≤ s.n := by omega
      apply btLoop_no_oof (fun s' => s'.n = s.n ∧ depthBound tmpl s' k = depthBound tmpl s k)
      · intro s' e _ he
        exact btStep_err hm he
      · intro s' s1 cand hP hs
        obtain ⟨hn1, hc⟩ := btStep_dims (by rw [hP.1]; exact hk') hs
        refine ⟨⟨by rw [hn1, hP.1], by unfold depthBound; rw [hn1, hP.1]⟩, ?_⟩
        intro c hcand
        apply backtrack_no_oof hm fuel c (k + 1)
        have := hc c hcand
        rw [hP.2] at this
        omega
      · exact ⟨rfl, rfl⟩

/-! ### more fuel never changes an answer -/

theorem btLoop_mono {step : Schedule → Except Err (Schedule × Option Schedule)}
    {rec rec' : Schedule → Except Err (List Schedule)} (hrec : ∀ c rs, rec c = .ok rs → rec' c = .ok rs) :
    ∀ (i : Nat) (s : Schedule) (rs : List Schedule), btLoop step rec i s = .ok rs → btLoop step rec' i s = .ok rs
  | 0, _, rs, h => by simpa [btLoop] using h
  | i + 1, s, rs, h => by
    unfold btLoop at h ⊢
    split at h
    · cases h
    · next s1 cand hs =>
      cases cand with
      | none =>
        simp only at h ⊢
        split at h
        · cases h
        · next rest hrest =>
          rw [btLoop_mono hrec i s1 rest hrest]
          exact h
      | some c =>
        simp only at h ⊢
        split at h
        · cases h
        · next here hhere =>
          rw [hrec c here hhere]
          simp only
          split at h
          · cases h
          · next rest hrest =>
            rw [btLoop_mono hrec i s1 rest hrest]
            exact h

theorem backtrack_mono {mtch : Template → Schedule → Except Err Bool} {checks : List (Template → Schedule → Bool)}
    {tmpl : Template} : ∀ (fuel : Nat) (s : Schedule) (k : Nat) (rs : List Schedule),
      backtrack mtch checks tmpl fuel s k = .ok rs → backtrack mtch checks tmpl (fuel + 1) s k = .ok rs
  | 0, _, _, _, h => by simp [backtrack] at h
  | fuel + 1, s, k, rs, h => by
    unfold backtrack at h ⊢
    split at h
    · next hk => simp only [hk, if_true]; exact h
    · next hk =>
      simp only [hk, if_false]
      exact btLoop_mono (fun c rs' hc => backtrack_mono fuel c (k + 1) rs' hc) _ s rs h

theorem backtrack_mono_le {mtch : Template → Schedule → Except Err Bool} {checks : List (Template → Schedule → Bool)}
    {tmpl : Template} {f f' : Nat} (hle : f ≤ f') (s : Schedule) (k : Nat) (rs : List Schedule)
    (h : backtrack mtch checks tmpl f s k = .ok rs) : backtrack mtch checks tmpl f' s k = .ok rs := by
  induction hle with
  | refl => exact h
  | step _ ih => exact backtrack_mono _ s k rs ih

theorem matchOps_no_oof (tn n : Nat) : ∀ (ts ss : List Operand), matchOps tn n ts ss ≠ .error .outOfFuel
  | [], _ => by simp [matchOps]
  | _ :: _, [] => by simp [matchOps]
  | tp :: ts, sp :: ss => by
    unfold matchOps
    split
    · next e he =>
      intro h
      injection h with h
      subst h
      unfold matchOp at he
      split at he
      · split at he
        · cases he
        · cases hd : sameRowSpaceD (tp.rows.drop (tp.rows.length - sp.rows.length)) (sp.rows.map (lastN tn)) <;>
            simp [hd, decisionE] at he
      · split at he
        · cases he
        · cases hd : sameRowSpaceD (tp.rows.drop (tp.rows.length - sp.rows.length)) sp.rows <;>
            simp [hd, decisionE] at he
    · intro h; cases h
    · exact matchOps_no_oof tn n ts ss

theorem matchesQ_no_oof (t : Template) (s : Schedule) : matchesQ t s ≠ .error .outOfFuel := by
  unfold matchesQ
  split
  · intro h; cases h
  · exact matchOps_no_oof _ _ _ _

end SnaxVerif.Sched
