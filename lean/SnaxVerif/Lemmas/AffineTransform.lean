import SnaxVerif.Model.AffineTransform
import SnaxVerif.Lemmas.Affine
/-! Helper lemmas for the matrix form of affine maps (C19). Core Lean only. -/
namespace SnaxVerif
namespace AT
open AExpr

/-- `Σ_{d<n} g d`, peeled from the front. -/
def sumTo : Nat → (Nat → Int) → Int
  | 0, _ => 0
  | n + 1, g => g 0 + sumTo n (fun d => g (d + 1))

theorem sumTo_congr : ∀ (n : Nat) (f g : Nat → Int), (∀ d, d < n → f d = g d) → sumTo n f = sumTo n g := by
  intro n
  induction n with
  | zero => intros; rfl
  | succ n ih =>
    intro f g h
    simp only [sumTo]
    rw [h 0 (Nat.succ_pos n), ih _ _ (fun d hd => h (d + 1) (Nat.succ_lt_succ hd))]

theorem sumTo_add : ∀ (n : Nat) (f g : Nat → Int),
    sumTo n (fun d => f d + g d) = sumTo n f + sumTo n g := by
  intro n
  induction n with
  | zero => intros; rfl
  | succ n ih =>
    intro f g
    simp only [sumTo]
    rw [ih]
    omega

theorem sumTo_mul : ∀ (n : Nat) (c : Int) (f : Nat → Int),
    sumTo n (fun d => c * f d) = c * sumTo n f := by
  intro n
  induction n with
  | zero => intros; simp [sumTo]
  | succ n ih =>
    intro c f
    simp only [sumTo]
    rw [ih, Int.mul_add]

theorem sumTo_zero : ∀ (n : Nat), sumTo n (fun _ => 0) = 0 := by
  intro n
  induction n with
  | zero => rfl
  | succ n ih => simp only [sumTo]; rw [ih]; rfl

theorem sumTo_eq_zero (n : Nat) (f : Nat → Int) (h : ∀ d, d < n → f d = 0) : sumTo n f = 0 :=
  (sumTo_congr n f (fun _ => 0) h).trans (sumTo_zero n)

/-- `Σ_{d<n} [d = i]·g d = g i` -/
theorem sumTo_indicator : ∀ (n i : Nat) (g : Nat → Int), i < n →
    sumTo n (fun d => (if d = i then 1 else 0) * g d) = g i := by
  intro n
  induction n with
  | zero => intro i g h; cases h
  | succ n ih =>
    intro i g h
    simp only [sumTo]
    cases i with
    | zero =>
      have : sumTo n (fun d => (if d + 1 = 0 then 1 else 0) * g (d + 1)) = 0 := by
        apply sumTo_eq_zero
        intro d _
        simp
      rw [this]; simp
    | succ i =>
      have := ih i (fun d => g (d + 1)) (Nat.lt_of_succ_lt_succ h)
      simp only [Nat.add_right_cancel_iff] at this ⊢
      rw [this]; simp

theorem dot_nil_right (a : List Int) : dot a [] = 0 := by cases a <;> rfl

/-- `dot` as an indexed sum -/
theorem dot_eq_sumTo : ∀ (n : Nat) (a x : List Int), a.length = n → x.length = n →
    dot a x = sumTo n (fun d => a.getD d 0 * x.getD d 0) := by
  intro n
  induction n with
  | zero =>
    intro a x ha hx
    cases a with
    | nil => rfl
    | cons _ _ => simp at ha
  | succ n ih =>
    intro a x ha hx
    cases a with
    | nil => simp at ha
    | cons a0 as =>
      cases x with
      | nil => simp at hx
      | cons x0 xs =>
        simp only [dot, sumTo]
        rw [ih as xs (by simpa using ha) (by simpa using hx)]
        simp

theorem getD_map_range (n : Nat) (c : Nat → Int) (d : Nat) (hd : d < n) :
    ((List.range n).map c).getD d 0 = c d := by
  simp [List.getD, hd]

theorem dot_map_range (n : Nat) (c : Nat → Int) (x : List Int) (hx : x.length = n) :
    dot ((List.range n).map c) x = sumTo n (fun d => c d * x.getD d 0) := by
  rw [dot_eq_sumTo n _ x (by simp) hx]
  apply sumTo_congr
  intro d hd
  rw [getD_map_range n c d hd]

theorem map_getD_range : ∀ (a : List Int), (List.range a.length).map (fun d => a.getD d 0) = a := by
  intro a
  apply List.ext_getElem
  · simp
  · intro i h1 h2
    simp [List.getD, h2]

/-! ### `to_affine_map` -/

/-- `Σ_i row[i] * env (k+i)` -/
def dotEnv (env : Nat → Int) : Nat → List Int → Int
  | _, [] => 0
  | k, a :: row => a * env k + dotEnv env (k + 1) row

theorem toMapRowFrom_eval (env : Nat → Int) : ∀ (row : List Int) (k : Nat) (acc : AExpr) (v : Int),
    acc.eval env = some v → (toMapRowFrom k acc row).eval env = some (v + dotEnv env k row) := by
  intro row
  induction row with
  | nil => intro k acc v h; simp [toMapRowFrom, dotEnv, h]
  | cons a row ih =>
    intro k acc v h
    unfold toMapRowFrom
    split
    · next ha => subst ha; rw [ih (k + 1) acc v h]; simp [dotEnv]
    · rw [ih (k + 1) _ (v + a * env k)]
      · simp [dotEnv, Int.add_assoc]
      · rw [smartAdd_eval, eval_bin, h, smartMulC_eval]
        simp [eval_bin, evalBin, Int.mul_comm]

theorem dotEnv_envOf : ∀ (row : List Int) (x : List Int) (k : Nat),
    dotEnv (envOf x) k row = dot row (x.drop k) := by
  intro row
  induction row with
  | nil => intro x k; simp [dotEnv, dot]
  | cons a row ih =>
    intro x k
    simp only [dotEnv]
    rw [ih x (k + 1)]
    by_cases hk : k < x.length
    · rw [List.drop_eq_getElem_cons hk]
      simp [dot, envOf, List.getD, hk]
    · have hk' : x.length ≤ k := Nat.le_of_not_lt hk
      rw [List.drop_eq_nil_of_le hk', List.drop_eq_nil_of_le (Nat.le_succ_of_le hk'), dot_nil_right,
        dot_nil_right]
      simp [envOf, List.getD, List.getElem?_eq_none hk']

theorem toMapRow_eval (row : List Int) (b : Int) (x : List Int) :
    (toMapRow row b).eval (envOf x) = some (dot row x + b) := by
  unfold toMapRow
  rw [toMapRowFrom_eval (envOf x) row 0 (.const b) b rfl, dotEnv_envOf, List.drop_zero, Int.add_comm]

/-! ### `compose` -/

theorem dot_col_cons (a : Int) (as o : List Int) (Os : List (List Int)) (j : Nat) :
    dot (a :: as) (col (o :: Os) j) = a * o.getD j 0 + dot as (col Os j) := by
  simp [col, dot]

set_option linter.unusedSimpArgs false in
/-- `(row · O) · x = row · (O · x)` -/
theorem dot_matMul_row (n : Nat) (x : List Int) (hx : x.length = n) :
    ∀ (row : List Int) (O : List (List Int)), (∀ o ∈ O, o.length = n) →
      dot ((List.range n).map fun j => dot row (col O j)) x = dot row (matVec O x) := by
  intro row
  induction row with
  | nil =>
    intro O _
    rw [dot_map_range n _ x hx]
    simp only [dot]
    apply sumTo_eq_zero
    intro d _
    cases O <;> simp [col, dot]
  | cons a as ih =>
    intro O hO
    cases O with
    | nil =>
      rw [dot_map_range n _ x hx]
      simp only [matVec, List.map_nil, dot_nil_right]
      apply sumTo_eq_zero
      intro d _
      simp [col, dot_nil_right]
    | cons o Os =>
      have ho : o.length = n := hO o (List.mem_cons_self)
      have hOs : ∀ o' ∈ Os, o'.length = n := fun o' h => hO o' (List.mem_cons_of_mem _ h)
      rw [dot_map_range n _ x hx]
      simp only [matVec, List.map_cons, dot]
      rw [← matVec, ← ih Os hOs, dot_map_range n _ x hx, dot_eq_sumTo n o x ho hx, ← sumTo_mul, ← sumTo_add]
      apply sumTo_congr
      intro d _
      rw [dot_col_cons, Int.add_mul, Int.mul_assoc]

theorem dot_vecAdd_right : ∀ (a u v : List Int), u.length = v.length →
    dot a (vecAdd u v) = dot a u + dot a v := by
  intro a
  induction a with
  | nil => intro u v _; simp [dot]
  | cons a0 as ih =>
    intro u v h
    cases u with
    | nil =>
      cases v with
      | nil => simp [vecAdd, dot]
      | cons _ _ => simp at h
    | cons u0 us =>
      cases v with
      | nil => simp at h
      | cons v0 vs =>
        simp only [vecAdd, List.zipWith_cons_cons, dot]
        rw [← vecAdd, ih us vs (by simpa using h), Int.mul_add]
        omega

/-! ### `from_affine_map` -/

theorem eval_isSome_of_noDivMod (env : Nat → Int) : ∀ e : AExpr, noDivMod e = true →
    ∃ v, e.eval env = some v := by
  intro e
  induction e with
  | dim i => intro _; exact ⟨_, rfl⟩
  | const c => intro _; exact ⟨_, rfl⟩
  | bin k a b iha ihb =>
    intro h
    simp only [noDivMod, Bool.and_eq_true, Bool.or_eq_true, beq_iff_eq] at h
    obtain ⟨va, ha⟩ := iha h.1.2
    obtain ⟨vb, hb⟩ := ihb h.2
    rcases h.1.1 with rfl | rfl <;> simp [eval_bin, ha, hb, evalBin]

/-- a dimension-free division-free expression is a constant -/
theorem dimFree_const : ∀ e : AExpr, noDivMod e = true → dimFree e = true →
    ∃ v, ∀ env, e.eval env = some v := by
  intro e
  induction e with
  | dim i => intro _ h; simp [dimFree] at h
  | const c => intro _ _; exact ⟨c, fun _ => rfl⟩
  | bin k a b iha ihb =>
    intro h hf
    simp only [noDivMod, Bool.and_eq_true, Bool.or_eq_true, beq_iff_eq] at h
    simp only [dimFree, Bool.and_eq_true] at hf
    obtain ⟨va, ha⟩ := iha h.1.2 hf.1
    obtain ⟨vb, hb⟩ := ihb h.2 hf.2
    rcases h.1.1 with rfl | rfl
    · exact ⟨va + vb, fun env => by simp [eval_bin, ha, hb, evalBin]⟩
    · exact ⟨va * vb, fun env => by simp [eval_bin, ha, hb, evalBin]⟩

/-- Every admitted expression is an affine form `k + Σ_{d<n} c d * env d`. -/
theorem lin_form (n : Nat) : ∀ e : AExpr, noDivMod e = true → mulConstSide e = true →
    dimsBelow n e = true →
    ∃ (c : Nat → Int) (k : Int), ∀ env, e.eval env = some (k + sumTo n (fun d => c d * env d)) := by
  intro e
  induction e with
  | dim i =>
    intro _ _ hb
    simp only [dimsBelow, decide_eq_true_eq] at hb
    refine ⟨fun d => if d = i then 1 else 0, 0, fun env => ?_⟩
    rw [sumTo_indicator n i env hb]; simp
  | const c =>
    intro _ _ _
    refine ⟨fun _ => 0, c, fun env => ?_⟩
    have : sumTo n (fun d => (0 : Int) * env d) = 0 := by
      apply sumTo_eq_zero; intro d _; simp
    rw [this]; simp
  | bin k a b iha ihb =>
    intro h hm hb
    simp only [noDivMod, Bool.and_eq_true, Bool.or_eq_true, beq_iff_eq] at h
    simp only [mulConstSide, Bool.and_eq_true, Bool.or_eq_true, bne_iff_ne, ne_eq] at hm
    simp only [dimsBelow, Bool.and_eq_true] at hb
    obtain ⟨ca, ka, ha⟩ := iha h.1.2 hm.1.2 hb.1
    obtain ⟨cb, kb, hb'⟩ := ihb h.2 hm.2 hb.2
    rcases h.1.1 with rfl | rfl
    · refine ⟨fun d => ca d + cb d, ka + kb, fun env => ?_⟩
      have : sumTo n (fun d => (ca d + cb d) * env d)
          = sumTo n (fun d => ca d * env d) + sumTo n (fun d => cb d * env d) := by
        rw [← sumTo_add]; apply sumTo_congr; intro d _; rw [Int.add_mul]
      rw [this]
      simp only [eval_bin, ha, hb', evalBin, Option.bind_some, Option.some.injEq]
      omega
    · rcases hm.1.1 with (hk | hfa) | hfb
      · exact absurd rfl hk
      · obtain ⟨v, hv⟩ := dimFree_const a h.1.2 hfa
        refine ⟨fun d => v * cb d, v * kb, fun env => ?_⟩
        have : sumTo n (fun d => v * cb d * env d) = v * sumTo n (fun d => cb d * env d) := by
          rw [← sumTo_mul]; apply sumTo_congr; intro d _; rw [Int.mul_assoc]
        rw [this]
        simp only [eval_bin, hv, hb', evalBin, Option.bind_some, Option.some.injEq]
        rw [Int.mul_add]
      · obtain ⟨v, hv⟩ := dimFree_const b h.2 hfb
        refine ⟨fun d => v * ca d, v * ka, fun env => ?_⟩
        have : sumTo n (fun d => v * ca d * env d) = v * sumTo n (fun d => ca d * env d) := by
          rw [← sumTo_mul]; apply sumTo_congr; intro d _; rw [Int.mul_assoc]
        rw [this]
        simp only [eval_bin, hv, ha, evalBin, Option.bind_some, Option.some.injEq]
        rw [Int.mul_comm, Int.mul_add]

theorem envOf_oneList_none (n d : Nat) : envOf (oneList n none) d = 0 := by
  unfold envOf oneList
  by_cases hd : d < n <;> simp [List.getD, hd]

theorem envOf_oneList_some (n j d : Nat) (hd : d < n) :
    envOf (oneList n (some j)) d = if d = j then 1 else 0 := by
  unfold envOf oneList
  simp [List.getD, hd]

/-- The unit responses of an affine form are its coefficients. -/
theorem unit_response (n : Nat) (e : AExpr) (c : Nat → Int) (k : Int)
    (h : ∀ env, e.eval env = some (k + sumTo n (fun d => c d * env d))) :
    evalAt e (oneList n none) = k ∧
    ∀ j, j < n → evalAt e (oneList n (some j)) - evalAt e (oneList n none) = c j := by
  have h0 : evalAt e (oneList n none) = k := by
    unfold evalAt
    rw [h]
    have : sumTo n (fun d => c d * envOf (oneList n none) d) = 0 := by
      apply sumTo_eq_zero; intro d _; rw [envOf_oneList_none]; simp
    rw [this]; simp
  refine ⟨h0, fun j hj => ?_⟩
  rw [h0]
  unfold evalAt
  rw [h]
  have : sumTo n (fun d => c d * envOf (oneList n (some j)) d) = c j := by
    rw [← sumTo_indicator n j c hj]
    apply sumTo_congr
    intro d hd
    rw [envOf_oneList_some n j d hd, Int.mul_comm]
  rw [this]
  simp only [Option.getD_some]
  omega

/-- One row of `from_affine_map` evaluates like the expression it was taken from. -/
theorem fromMap_row (n : Nat) (e : AExpr) (h1 : noDivMod e = true) (h2 : mulConstSide e = true)
    (h3 : dimsBelow n e = true) (x : List Int) (hx : x.length = n) :
    e.eval (envOf x) = some
      (dot ((List.range n).map fun d => evalAt e (oneList n (some d)) - evalAt e (oneList n none)) x
        + evalAt e (oneList n none)) := by
  obtain ⟨c, k, h⟩ := lin_form n e h1 h2 h3
  obtain ⟨h0, hu⟩ := unit_response n e c k h
  rw [dot_map_range n _ x hx, h (envOf x)]
  rw [h0] at hu ⊢
  congr 1
  rw [Int.add_comm]
  congr 1
  apply sumTo_congr
  intro d hd
  rw [hu d hd]
  rfl

theorem fromMap_checks (n : Nat) (rs : List AExpr) (t : Transform) (h : fromMap n rs = .ok t) :
    (∀ e ∈ rs, noDivMod e = true ∧ dimsBelow n e = true) ∧ t.nd = n ∧ t.wf = true := by
  unfold fromMap at h
  split at h
  · cases h
  · next h1 =>
    split at h
    · cases h
    · next h2 =>
      injection h with h
      subst h
      refine ⟨fun e he => ?_, rfl, ?_⟩
      · simp only [List.any_eq_true, Bool.not_eq_true', not_exists, not_and, Bool.not_eq_false] at h1 h2
        exact ⟨h1 e he, h2 e he⟩
      · simp [Transform.wf]


end AT
end SnaxVerif
