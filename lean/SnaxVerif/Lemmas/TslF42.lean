import SnaxVerif.Model.Tsl
/-! Fix F42 (`from_stride`: `steps[0] is not None` instead of truthiness): the fixed variant of the model agrees with the
unfixed one unless the simple stride is the static 0. All C10 theorems about `fromStride (some st)` with `0 < st`
therefore hold for the fixed code as well. -/
namespace SnaxVerif.Tsl

/-- every step produced from a simple stride that is not the static 0 is `none` or positive -/
def PosOrNone : Option Nat → Prop
  | some 0 => False
  | _ => True

theorem mulTruthy_posOrNone (b s : Option Nat) : PosOrNone (mulTruthy b s) := by
  unfold mulTruthy
  split
  · simp [PosOrNone]
  · simp [PosOrNone]

theorem mulTruthyF_eq (b s : Option Nat) (hs : PosOrNone s) : mulTruthyF b s = mulTruthy b s := by
  unfold mulTruthyF mulTruthy
  cases b with
  | none => rfl
  | some b =>
    cases b with
    | zero => rfl
    | succ b =>
      cases s with
      | none => rfl
      | some s =>
        cases s with
        | zero => exact absurd hs (by simp [PosOrNone])
        | succ s => rfl

theorem stepsFrom_head_pos (simple : Option Nat) (h : PosOrNone simple) :
    ∀ r, PosOrNone ((stepsFrom simple r).headD none)
  | [] => by simpa [stepsFrom] using h
  | b :: r => by simp only [stepsFrom, List.headD_cons]; exact mulTruthy_posOrNone _ _

theorem stepsFromF_eq (simple : Option Nat) (h : PosOrNone simple) : ∀ r, stepsFromF simple r = stepsFrom simple r
  | [] => rfl
  | b :: r => by
    simp only [stepsFromF, stepsFrom, stepsFromF_eq simple h r]
    rw [mulTruthyF_eq _ _ (stepsFrom_head_pos simple h r)]

/-- the fixed and the unfixed `from_stride` agree unless the stride is the static 0 -/
theorem fromStrideF_eq (simple : Option Nat) (h : simple ≠ some 0) (tb : List (Option Nat)) :
    fromStrideF simple tb = fromStride simple tb := by
  have hp : PosOrNone simple := by
    cases simple with
    | none => simp [PosOrNone]
    | some s => cases s with
      | zero => exact absurd rfl h
      | succ s => simp [PosOrNone]
  simp [fromStrideF, fromStride, stepsFromF_eq simple hp]

/-- … and on a static 0 stride the fix yields the static step 0 for the outer tile instead of `None` -/
example : fromStrideF (some 0) [some 2, some 2] = [⟨some 0, some 2⟩, ⟨some 0, some 2⟩] ∧
    fromStride (some 0) [some 2, some 2] = [⟨none, some 2⟩, ⟨some 0, some 2⟩] := by decide

end SnaxVerif.Tsl
