import SnaxVerif.Model.AttrSyntax
/-! Round-trip lemmas for the token-level attribute syntax (C19). Core Lean only. -/
namespace SnaxVerif
namespace Syntax

theorem parseInt_print (i : Int) (r : List Tok) : parseInt (printInt i ++ r) = some (i, r) := by
  unfold printInt
  split
  · next h =>
    simp only [List.cons_append, List.nil_append, parseInt, Option.some.injEq, Prod.mk.injEq, and_true]
    omega
  · next h =>
    simp only [List.cons_append, List.nil_append, parseInt, Option.some.injEq, Prod.mk.injEq, and_true]
    omega

theorem parseIntsTail_print (l : List Int) (r : List Tok) :
    parseIntsTail (printIntsTail l ++ .rsq :: r) = some (l, r) := by
  induction l with
  | nil => simp [printIntsTail, parseIntsTail]
  | cons i l ih =>
    unfold printIntsTail printInt
    split
    · next h =>
      simp only [List.cons_append, List.nil_append, parseIntsTail, ih, Option.map_some,
        Option.some.injEq, Prod.mk.injEq, List.cons.injEq, and_true]
      omega
    · next h =>
      simp only [List.cons_append, List.nil_append, parseIntsTail, ih, Option.map_some,
        Option.some.injEq, Prod.mk.injEq, List.cons.injEq, and_true]
      omega

theorem parseInts_print (l : List Int) (r : List Tok) : parseInts (printInts l ++ r) = some (l, r) := by
  cases l with
  | nil => simp [printInts, parseInts]
  | cons i l =>
    have h1 : ∀ r', parseInt (printInt i ++ r') = some (i, r') := parseInt_print i
    unfold printInts
    simp only [List.cons_append, List.append_assoc, List.nil_append]
    have hhead : ∃ t rest, printInt i = t :: rest ∧ t ≠ Tok.rsq := by
      unfold printInt; split
      · exact ⟨_, _, rfl, by simp⟩
      · exact ⟨_, _, rfl, by simp⟩
    obtain ⟨t, rest, hp, hne⟩ := hhead
    have h1' := h1 (printIntsTail l ++ Tok.rsq :: r)
    rw [hp] at h1' ⊢
    simp only [List.cons_append] at h1' ⊢
    unfold parseInts
    split
    · next heq => injection heq with _ heq; injection heq with heq _; exact absurd heq hne
    · next heq =>
      injection heq with _ heq
      subst heq
      rw [h1']
      simp only [parseIntsTail_print, Option.map_some]
    · next hno => exact absurd rfl (hno _)

theorem parseSP_print (p : SPAttr) (r : List Tok) : parseSP (printSP p ++ r) = some (p, r) := by
  unfold printSP parseSP
  simp only [List.cons_append, List.append_assoc, List.nil_append, parseInts_print, ne_eq,
    not_true_eq_false, if_false]

/-! ### dash lists -/

theorem pd_false {α} (item : Tok → Option α) (term t : Tok) (r : List Tok) :
    parseDashAux item term false (t :: r) =
      if t = term then some ([], r) else
      match item t with
      | none => none
      | some a => (parseDashAux item term true r).map fun p => (a :: p.1, p.2) :=
  parseDashAux.eq_3 item term false t r (by intro h; cases h)

theorem pd_true_minus {α} (item : Tok → Option α) (term : Tok) (r : List Tok) :
    parseDashAux item term true (.minus :: r) = parseDashAux item term false r :=
  parseDashAux.eq_2 item term r

theorem pd_true {α} (item : Tok → Option α) (term t : Tok) (r : List Tok) (ht : t ≠ .minus) :
    parseDashAux item term true (t :: r) =
      if t = term then some ([], r) else
      match item t with
      | none => none
      | some a => (parseDashAux item term true r).map fun p => (a :: p.1, p.2) :=
  parseDashAux.eq_3 item term true t r (by intro _ h; exact ht h)

theorem parseDashAux_print {α} (item : Tok → Option α) (tok : α → Tok) (term : Tok)
    (hitem : ∀ a, item (tok a) = some a) (hterm : ∀ a, tok a ≠ term)
    (htm : term ≠ Tok.minus) (r : List Tok) :
    ∀ l : List α, parseDashAux item term false (printDash tok l ++ term :: r) = some (l, r) := by
  have hstop : ∀ b, parseDashAux item term b (term :: r) = some ([], r) := by
    intro b
    cases b
    · rw [pd_false]; simp
    · rw [pd_true _ _ _ _ htm]; simp
  have hitemstep : ∀ (a : α) (rest : List Tok),
      parseDashAux item term false (tok a :: rest) =
        (parseDashAux item term true rest).map fun p => (a :: p.1, p.2) := by
    intro a rest
    rw [pd_false, if_neg (hterm a), hitem a]
  intro l
  induction l with
  | nil => simpa [printDash] using hstop false
  | cons a l ih =>
    cases l with
    | nil =>
      simp only [printDash, List.cons_append, List.nil_append]
      rw [hitemstep a, hstop true]
      rfl
    | cons b l =>
      have hp : printDash tok (a :: b :: l) = tok a :: Tok.minus :: printDash tok (b :: l) := by
        simp [printDash]
      rw [hp]
      simp only [List.cons_append]
      rw [hitemstep a, pd_true_minus, ih]
      rfl

theorem optOf_optName (o : Opt) : optOf (optName o) = some o := by cases o <;> decide
theorem flagOf_flagName (f : Flag) : flagOf (flagName f) = some f := by cases f <;> decide
theorem stypeOf_stypeName (t : SType) : stypeOf (stypeName t) = some t := by cases t <;> decide

theorem parseOpts_dash (l : List Opt) (r : List Tok) :
    parseDash optItem .comma (printDash (fun o => Tok.ident (optName o)) l ++ Tok.comma :: r) = some (l, r) :=
  parseDashAux_print optItem _ .comma (fun a => by simp [optItem, optOf_optName]) (fun a => by simp)
    (by simp) r l

theorem parseFlags_dash (l : List Flag) (r : List Tok) :
    parseDash flagItem .comma (printDash (fun f => Tok.ident (flagName f)) l ++ Tok.comma :: r) = some (l, r) :=
  parseDashAux_print flagItem _ .comma (fun a => by simp [flagItem, flagOf_flagName]) (fun a => by simp)
    (by simp) r l

theorem parseNats_dash (l : List Nat) (r : List Tok) :
    parseDash natItem .rsq (printDash Tok.nat l ++ Tok.rsq :: r) = some (l, r) :=
  parseDashAux_print natItem _ .rsq (fun a => by simp [natItem]) (fun a => by simp)
    (by simp) r l

theorem parseStreamer_print (s : Streamer) (r : List Tok) :
    parseStreamer (printStreamer s ++ r) = some (s, r) := by
  obtain ⟨ty, temporal, spatial, opts⟩ := s
  unfold printStreamer parseStreamer
  simp only [List.cons_append, List.nil_append, List.append_assoc, stypeOf_stypeName]
  cases opts with
  | nil =>
    simp only [List.isEmpty_nil, if_true, List.nil_append, parseOpts]
    simp only [show ("temp" = "opts") = False by decide, if_false, ne_eq, not_true_eq_false,
      parseFlags_dash, parseNats_dash]
  | cons o opts =>
    simp only [List.isEmpty_cons, Bool.false_eq_true, if_false, List.cons_append, List.nil_append,
      List.append_assoc, parseOpts, if_true, parseOpts_dash, ne_eq, not_true_eq_false,
      parseFlags_dash, parseNats_dash]

theorem parseStreamers_print (r : List Tok) (hr : ∀ r', r ≠ Tok.comma :: r') :
    ∀ (l : List Streamer) (fuel : Nat), l ≠ [] → l.length ≤ fuel →
      parseStreamers fuel (printStreamers l ++ r) = some (l, r) := by
  intro l
  induction l with
  | nil => intro _ h; exact absurd rfl h
  | cons s l ih =>
    intro fuel _ hlen
    cases fuel with
    | zero => simp at hlen
    | succ fuel =>
      cases l with
      | nil =>
        simp only [printStreamers, parseStreamers, parseStreamer_print]
      | cons s2 l =>
        have := ih fuel (by simp) (by simpa using hlen)
        simp only [printStreamers, List.append_assoc, List.cons_append, parseStreamers,
          parseStreamer_print] at this ⊢
        rw [this]
        rfl

theorem printStreamers_length (l : List Streamer) : l.length ≤ (printStreamers l).length + 1 := by
  induction l with
  | nil => simp
  | cons s l ih =>
    cases l with
    | nil => simp
    | cons s2 l =>
      simp only [printStreamers, List.length_append, List.length_cons] at ih ⊢
      omega

theorem parseCfg_print (c : Config) (hne : c.streamers ≠ []) (r : List Tok) :
    parseCfg (printCfg c ++ r) = some ({ streamers := c.streamers, sys := .regular }, r) := by
  unfold printCfg parseCfg
  simp only [List.cons_append, List.append_assoc, List.nil_append]
  rw [parseStreamers_print (Tok.gt :: r) (by intro r' h; cases h) c.streamers _ hne]
  · have := printStreamers_length c.streamers
    simp only [List.length_cons, List.length_append]
    omega

/-! ### fix FC19-D16 -/

theorem parseStreamersThen_print (sys : SysType) (l : List Streamer) (hne : l ≠ []) (r : List Tok) :
    parseStreamersThen sys (printStreamers l ++ Tok.gt :: r) = some ({ streamers := l, sys := sys }, r) := by
  unfold parseStreamersThen
  rw [parseStreamers_print (Tok.gt :: r) (by intro r' h; cases h) l _ hne]
  have := printStreamers_length l
  simp only [List.length_append, List.length_cons]
  omega

theorem printStreamers_head (s : Streamer) (l : List Streamer) :
    ∃ rest, printStreamers (s :: l) = Tok.ident (stypeName s.ty) :: rest := by
  cases l with
  | nil => exact ⟨_, by simp only [printStreamers, printStreamer, List.cons_append, List.append_assoc]; rfl⟩
  | cons s2 l => exact ⟨_, by simp only [printStreamers, printStreamer, List.cons_append, List.append_assoc]; rfl⟩

theorem stypeName_ne_system (t : SType) : stypeName t ≠ "system" := by cases t <;> decide

theorem parseCfgFixed_print (c : Config) (hne : c.streamers ≠ []) (r : List Tok) :
    parseCfgFixed (printCfgFixed c ++ r) = some (c, r) := by
  obtain ⟨ss, sys⟩ := c
  simp only at hne
  cases sys with
  | xdma =>
    simp only [printCfgFixed, printSysPrefix, sysName, List.cons_append, List.nil_append, List.append_assoc,
      parseCfgFixed, if_true]
    rw [show sysOf "xdma" = some SysType.xdma by decide]
    exact parseStreamersThen_print .xdma ss hne r
  | regular =>
    cases ss with
    | nil => exact absurd rfl hne
    | cons s l =>
      obtain ⟨rest, hrest⟩ := printStreamers_head s l
      have key := parseStreamersThen_print .regular (s :: l) hne r
      simp only [printCfgFixed, printSysPrefix, List.cons_append, List.nil_append, List.append_assoc]
      rw [hrest] at key ⊢
      simp only [List.cons_append] at key ⊢
      unfold parseCfgFixed
      simp only [stypeName_ne_system, if_false]
      exact key

/-! ### the parser as it is (keys not checked) -/

theorem parseSPLoose_print (p : SPAttr) (r : List Tok) : parseSPLoose (printSP p ++ r) = some (p, r) := by
  unfold printSP parseSPLoose
  simp only [List.cons_append, List.append_assoc, List.nil_append, parseInts_print]

/-- whatever the keyword-checking parser accepts, the loose one accepts with the same result -/
theorem parseSP_sub_loose (toks : List Tok) (x : SPAttr × List Tok) (h : parseSP toks = some x) :
    parseSPLoose toks = some x := by
  unfold parseSP at h
  unfold parseSPLoose
  split at h
  · next k1 r =>
    split at h
    · cases h
    · split at h
      · next ub k2 r2 hub =>
        split at h
        · cases h
        · split at h
          · next ts k3 r3 hts =>
            split at h
            · cases h
            · exact h
          · cases h
      · cases h
  · cases h

end Syntax
end SnaxVerif
