import SnaxVerif.Model.Casts
/-! Helper lemmas for the buffer-level program model of C12: a renaming simulation between two runs of the same
block, a frame lemma, and the soundness of the placement checker `chk`. Core Lean only. -/
namespace SnaxVerif.Casts

/-! ### writes and reads under a renaming of cells -/

/-- `ρ` is injective on the cells outside `A` -/
def InjOff (A : List Nat) (ρ : Nat → Nat) : Prop := ∀ x y, x ∉ A → y ∉ A → ρ x = ρ y → x = y

theorem write_rel (A : List Nat) (ρ : Nat → Nat) (hinj : InjOff A ρ) (P : Nat → Prop) (v : Nat → Nat) :
    ∀ (cs : List Nat) (k : Nat) (m1 m2 : Mem), (∀ c ∈ cs, c ∉ A) →
      (∀ x, x ∉ A → P x → m2 (ρ x) = m1 x) →
      ∀ x, x ∉ A → (P x ∨ x ∈ cs) → write m2 (cs.map ρ) k v (ρ x) = write m1 cs k v x
  | [], _, m1, m2, _, h, x, hx, hp => by
    rcases hp with hp | hp
    · exact h x hx hp
    · cases hp
  | c :: cs, k, m1, m2, hcs, h, x, hx, hp => by
    simp only [List.map_cons, write]
    by_cases hxc : x = c
    · subst hxc; simp
    · have hne : ρ x ≠ ρ c := fun e => hxc (hinj x c hx (hcs c (by simp)) e)
      rw [if_neg hne, if_neg hxc]
      refine write_rel A ρ hinj P v cs (k + 1) m1 m2 (fun c' hc' => hcs c' (by simp [hc'])) h x hx ?_
      rcases hp with hp | hp
      · exact Or.inl hp
      · rcases List.mem_cons.mp hp with e | e
        · exact absurd e hxc
        · exact Or.inr e

theorem read_rel (A : List Nat) (ρ : Nat → Nat) (P : Nat → Prop) (m1 m2 : Mem)
    (h : ∀ x, x ∉ A → P x → m2 (ρ x) = m1 x) (cs : List Nat) (hcs : ∀ c ∈ cs, c ∉ A ∧ P c) :
    (cs.map ρ).map m2 = cs.map m1 := by
  rw [List.map_map]
  apply List.map_congr_left
  intro c hc
  exact h c (hcs c hc).1 (hcs c hc).2

/-- the two runs address corresponding cells through the operand -/
def OpdRel (A : List Nat) (ρ : Nat → Nat) (cc1 cc2 : List Nat) (o : Opd) : Prop :=
  o.cells cc2 = (o.cells cc1).map ρ ∧ ∀ c ∈ o.cells cc1, c ∉ A

theorem writeOuts_rel (A : List Nat) (ρ : Nat → Nat) (hinj : InjOff A ρ) (cc1 cc2 : List Nat) (f : Nat → Nat → Nat) :
    ∀ (outs : List Opd) (j : Nat) (P : Nat → Prop) (m1 m2 : Mem), (∀ o ∈ outs, OpdRel A ρ cc1 cc2 o) →
      (∀ x, x ∉ A → P x → m2 (ρ x) = m1 x) →
      ∀ x, x ∉ A → (P x ∨ ∃ o ∈ outs, x ∈ o.cells cc1) →
        writeOuts cc2 f m2 outs j (ρ x) = writeOuts cc1 f m1 outs j x
  | [], _, P, m1, m2, _, h, x, hx, hp => by
    simp only [writeOuts]
    rcases hp with hp | ⟨o, ho, _⟩
    · exact h x hx hp
    · cases ho
  | o :: os, j, P, m1, m2, ho, h, x, hx, hp => by
    simp only [writeOuts]
    have h1 := ho o (by simp)
    rw [h1.1]
    refine writeOuts_rel A ρ hinj cc1 cc2 f os (j + 1) (fun y => P y ∨ y ∈ o.cells cc1) _ _
      (fun o' ho' => ho o' (by simp [ho'])) ?_ x hx ?_
    · intro y hy hpy
      exact write_rel A ρ hinj P (f j) (o.cells cc1) 0 m1 m2 h1.2 h y hy hpy
    · rcases hp with hp | ⟨o', ho', hx'⟩
      · exact Or.inl (Or.inl hp)
      · rcases List.mem_cons.mp ho' with e | e
        · subst e; exact Or.inl (Or.inr hx')
        · exact Or.inr ⟨o', e, hx'⟩

/-! ### the simulation -/

/-- The parameters of a simulation between a run under `g1` and a run under `g2` of the same block:
cells are renamed by `ρ`, nothing is claimed about the cells `A` and the cells satisfying `D`. -/
structure Sim where
  g1 : Cfg
  g2 : Cfg
  ρ : Nat → Nat
  A : List Nat
  forb : List Nat
  ci : Bool
  co : Bool
  D : Nat → Prop
  hfn : g1.fn = g2.fn
  htr : g1.trips = g2.trips
  hinj : InjOff A ρ
  hfix : ∀ c, c ∉ forb → ρ c = c
  hA : ∀ c ∈ A, c ∈ forb
  hD : ∀ c, D c → c ∈ forb
  hcc : (ci || co) = true → g2.cc = g1.cc.map ρ ∧ ∀ c ∈ g1.cc, c ∉ A
  hci : ci = true → ∀ c ∈ g1.cc, ¬ D c

/-- the relation between the states of the two runs -/
def Sim.Rel (S : Sim) (P : Nat → Prop) (s1 s2 : St) : Prop :=
  s1.log = s2.log ∧ s1.clk = s2.clk ∧ ∀ x, x ∉ S.A → P x → s2.mem (S.ρ x) = s1.mem x

theorem all_not_contains {forb cs : List Nat} (h : (cs.all fun c => !forb.contains c) = true) :
    ∀ c ∈ cs, c ∉ forb := by
  intro c hc hf
  have := List.all_eq_true.mp h c hc
  simp [hf] at this

theorem map_fix (ρ : Nat → Nat) (cs : List Nat) (h : ∀ c ∈ cs, ρ c = c) : cs.map ρ = cs := by
  induction cs with
  | nil => rfl
  | cons c r ih =>
    simp only [List.map_cons]
    rw [h c (by simp), ih (fun c' hc' => h c' (by simp [hc']))]

theorem Sim.opd_out (S : Sim) (o : Opd) (h : o.okB S.forb S.co = true) : OpdRel S.A S.ρ S.g1.cc S.g2.cc o := by
  cases o with
  | direct cs =>
    have hcs := all_not_contains (by simpa [Opd.okB] using h)
    exact ⟨(map_fix S.ρ cs fun c hc => S.hfix c (hcs c hc)).symm, fun c hc hA => hcs c hc (S.hA c hA)⟩
  | cast =>
    simp only [Opd.okB] at h
    exact S.hcc (by simp [h])

theorem Sim.opd_in (S : Sim) (o : Opd) (h : o.okB S.forb S.ci = true) :
    OpdRel S.A S.ρ S.g1.cc S.g2.cc o ∧ ∀ c ∈ o.cells S.g1.cc, ¬ S.D c := by
  cases o with
  | direct cs =>
    have hcs := all_not_contains (by simpa [Opd.okB] using h)
    exact ⟨⟨(map_fix S.ρ cs fun c hc => S.hfix c (hcs c hc)).symm, fun c hc hA => hcs c hc (S.hA c hA)⟩,
      fun c hc hD => hcs c hc (S.hD c hD)⟩
  | cast =>
    simp only [Opd.okB] at h
    exact ⟨S.hcc (by simp [h]), S.hci h⟩

theorem Sim.vals_eq (S : Sim) (s1 s2 : St) (hr : S.Rel (fun x => ¬ S.D x) s1 s2) (ins : List Opd)
    (h : ins.all (Opd.okB S.forb S.ci) = true) :
    (ins.map fun o => (o.cells S.g2.cc).map s2.mem) = ins.map fun o => (o.cells S.g1.cc).map s1.mem := by
  apply List.map_congr_left
  intro o ho
  have ⟨h1, h2⟩ := S.opd_in o (List.all_eq_true.mp h o ho)
  rw [h1.1]
  exact read_rel S.A S.ρ (fun x => ¬ S.D x) s1.mem s2.mem hr.2.2 _ fun c hc => ⟨h1.2 c hc, h2 c hc⟩

/-- a leaf: the relation is kept, and it is extended to every cell written by the leaf -/
theorem Sim.leaf (S : Sim) (tag : Nat) (ins outs : List Opd) (h : (Item.leaf tag ins outs).okB S.forb S.ci S.co = true)
    (s1 s2 : St) (hr : S.Rel (fun x => ¬ S.D x) s1 s2) :
    S.Rel (fun x => ¬ S.D x ∨ ∃ o ∈ outs, x ∈ o.cells S.g1.cc)
      ((Item.leaf tag ins outs).exec S.g1 s1) ((Item.leaf tag ins outs).exec S.g2 s2) := by
  simp only [Item.okB, Bool.and_eq_true] at h
  have hv := S.vals_eq s1 s2 hr ins h.1
  simp only [Item.exec, Sim.Rel]
  refine ⟨by rw [hr.1, hv], hr.2.1, ?_⟩
  intro x hx hp
  rw [hv, S.hfn]
  exact writeOuts_rel S.A S.ρ S.hinj S.g1.cc S.g2.cc _ outs 0 (fun x => ¬ S.D x) s1.mem s2.mem
    (fun o ho => S.opd_out o (List.all_eq_true.mp h.2 o ho)) hr.2.2 x hx hp

theorem Sim.Rel.weaken (S : Sim) {P Q : Nat → Prop} (hpq : ∀ x, Q x → P x) {s1 s2 : St} (h : S.Rel P s1 s2) :
    S.Rel Q s1 s2 :=
  ⟨h.1, h.2.1, fun x hx hq => h.2.2 x hx (hpq x hq)⟩

theorem srcVal_map (ρ : Nat → Nat) (a : List Nat) (k : Nat) (m1 m2 : Mem)
    (h : ∀ c ∈ a, m2 (ρ c) = m1 c) : srcVal m2 (a.map ρ) k = srcVal m1 a k := by
  simp only [srcVal]
  rw [List.getElem?_map]
  cases hk : a[k]? with
  | none => rfl
  | some c => exact h c (List.mem_of_getElem? hk)

theorem iter_rel (R : St → St → Prop) (f1 f2 : St → St) (hf : ∀ s1 s2, R s1 s2 → R (f1 s1) (f2 s2)) :
    ∀ (n : Nat) (s1 s2 : St), R s1 s2 → R (iter f1 n s1) (iter f2 n s2)
  | 0, _, _, h => h
  | n + 1, s1, s2, h => iter_rel R f1 f2 hf n _ _ (hf s1 s2 h)

mutual
/-- **Renaming simulation**: a block all of whose operands are accepted by `okB` keeps the relation. -/
theorem Sim.item (S : Sim) : (i : Item) → i.okB S.forb S.ci S.co = true → ∀ s1 s2, S.Rel (fun x => ¬ S.D x) s1 s2 →
    S.Rel (fun x => ¬ S.D x) (i.exec S.g1 s1) (i.exec S.g2 s2)
  | .leaf tag ins outs, h, s1, s2, hr => (S.leaf tag ins outs h s1 s2 hr).weaken S (fun _ hx => Or.inl hx)
  | .copy a b, h, s1, s2, hr => by
    simp only [Item.okB, Bool.and_eq_true] at h
    have ha := all_not_contains h.1
    have hb := all_not_contains h.2
    have hfa : a.map S.ρ = a := map_fix S.ρ a fun c hc => S.hfix c (ha c hc)
    have hfb : b.map S.ρ = b := map_fix S.ρ b fun c hc => S.hfix c (hb c hc)
    simp only [Item.exec, Sim.Rel, copyCells]
    refine ⟨hr.1, hr.2.1, ?_⟩
    intro x hx hp
    have hval : srcVal s2.mem a = srcVal s1.mem a := by
      funext k
      have := srcVal_map S.ρ a k s1.mem s2.mem
        (fun c hc => hr.2.2 c (fun hA => ha c hc (S.hA c hA)) (fun hD => ha c hc (S.hD c hD)))
      rw [hfa] at this
      exact this
    rw [hval]
    have := write_rel S.A S.ρ S.hinj (fun x => ¬ S.D x) (srcVal s1.mem a)
      b 0 s1.mem s2.mem (fun c hc hA => hb c hc (S.hA c hA)) hr.2.2 x hx (Or.inl hp)
    rw [hfb] at this
    exact this
  | .copyIn, h, _, _, _ => by simp [Item.okB] at h
  | .copyOut, h, _, _, _ => by simp [Item.okB] at h
  | .loop id b, h, s1, s2, hr => by
    simp only [Item.okB] at h
    simp only [Item.exec]
    rw [← S.htr, ← hr.2.1]
    exact iter_rel (S.Rel fun x => ¬ S.D x) _ _ (fun t1 t2 ht => S.blk b h t1 t2 ht) _ _ _
      ⟨hr.1, by simp [hr.2.1], hr.2.2⟩
theorem Sim.blk (S : Sim) : (b : Blk) → b.okB S.forb S.ci S.co = true → ∀ s1 s2, S.Rel (fun x => ¬ S.D x) s1 s2 →
    S.Rel (fun x => ¬ S.D x) (b.exec S.g1 s1) (b.exec S.g2 s2)
  | .nil, _, _, _, hr => by simpa [Blk.exec] using hr
  | .cons i r, h, s1, s2, hr => by
    simp only [Blk.okB, Bool.and_eq_true] at h
    simp only [Blk.exec]
    exact S.blk r h.2 _ _ (S.item i h.1 s1 s2 hr)
end

/-! ### frame: cells that no output addresses keep their value -/

theorem write_frame (m : Mem) (v : Nat → Nat) : ∀ (cs : List Nat) (k : Nat) (x : Nat), x ∉ cs → write m cs k v x = m x
  | [], _, _, _ => rfl
  | c :: cs, k, x, h => by
    simp only [write]
    rw [if_neg (fun e => h (by simp [e]))]
    exact write_frame m v cs (k + 1) x (fun e => h (by simp [e]))

theorem writeOuts_frame (cc : List Nat) (f : Nat → Nat → Nat) (x : Nat) :
    ∀ (outs : List Opd) (j : Nat) (m : Mem), (∀ o ∈ outs, x ∉ o.cells cc) → writeOuts cc f m outs j x = m x
  | [], _, _, _ => rfl
  | o :: os, j, m, h => by
    simp only [writeOuts]
    rw [writeOuts_frame cc f x os (j + 1) _ (fun o' ho' => h o' (by simp [ho']))]
    exact write_frame m (f j) (o.cells cc) 0 x (h o (by simp))

theorem iter_inv (Q : St → Prop) (f : St → St) (hf : ∀ s, Q s → Q (f s)) : ∀ (n : Nat) (s : St), Q s → Q (iter f n s)
  | 0, _, h => h
  | n + 1, s, h => iter_inv Q f hf n _ (hf s h)

mutual
/-- **Frame**: an item without cast outputs whose directly addressed operands avoid `forb` leaves `forb` alone
    (under any configuration). -/
theorem frame_item (g : Cfg) (forb : List Nat) (ci : Bool) (x : Nat) (hx : x ∈ forb) (v : Nat) :
    (i : Item) → i.okB forb ci false = true → ∀ s, s.mem x = v → (i.exec g s).mem x = v
  | .leaf tag ins outs, h, s, hs => by
    simp only [Item.okB, Bool.and_eq_true] at h
    simp only [Item.exec]
    rw [writeOuts_frame g.cc _ x outs 0 s.mem ?_]
    · exact hs
    · intro o ho
      have := List.all_eq_true.mp h.2 o ho
      cases o with
      | direct cs =>
        have h' : (cs.all fun c => !forb.contains c) = true := by simpa [Opd.okB] using this
        exact fun hc => all_not_contains h' x hc hx
      | cast => simp [Opd.okB] at this
  | .copy a b, h, s, hs => by
    simp only [Item.okB, Bool.and_eq_true] at h
    simp only [Item.exec, copyCells]
    rw [write_frame _ _ b 0 x (fun hc => all_not_contains h.2 x hc hx)]
    exact hs
  | .copyIn, h, _, _ => by simp [Item.okB] at h
  | .copyOut, h, _, _ => by simp [Item.okB] at h
  | .loop id b, h, s, hs => by
    simp only [Item.okB] at h
    simp only [Item.exec]
    exact iter_inv (fun t => t.mem x = v) _ (fun t ht => frame_blk g forb ci x hx v b h t ht) _ _ hs
theorem frame_blk (g : Cfg) (forb : List Nat) (ci : Bool) (x : Nat) (hx : x ∈ forb) (v : Nat) :
    (b : Blk) → b.okB forb ci false = true → ∀ s, s.mem x = v → (b.exec g s).mem x = v
  | .nil, _, s, hs => by simpa [Blk.exec] using hs
  | .cons i r, h, s, hs => by
    simp only [Blk.okB, Bool.and_eq_true] at h
    simp only [Blk.exec]
    exact frame_blk g forb ci x hx v r h.2 _ (frame_item g forb ci x hx v i h.1 s hs)
end

/-! ### the renaming source cell ↦ stand-in cell -/

/-- the stand-in cell of a source cell (identity elsewhere) -/
def ren : List Nat → List Nat → Nat → Nat
  | s :: ss, a :: as, x => if x = s then a else ren ss as x
  | _, _, x => x

theorem ren_fix : ∀ (S A : List Nat) (x : Nat), x ∉ S → ren S A x = x
  | [], _, _, _ => by simp [ren]
  | _ :: _, [], _, _ => by simp [ren]
  | s :: ss, a :: as, x, h => by
    simp only [ren]
    rw [if_neg (fun e => h (by simp [e]))]
    exact ren_fix ss as x (fun e => h (by simp [e]))

theorem ren_mem : ∀ (S A : List Nat) (x : Nat), S.length = A.length → x ∈ S → ren S A x ∈ A
  | [], _, _, _, h => by cases h
  | _ :: _, [], _, hl, _ => by simp at hl
  | s :: ss, a :: as, x, hl, h => by
    simp only [ren]
    by_cases e : x = s
    · simp [e]
    · rw [if_neg e]
      have hx : x ∈ ss := by
        rcases List.mem_cons.mp h with h | h
        · exact absurd h e
        · exact h
      exact List.mem_cons_of_mem _ (ren_mem ss as x (by simpa using hl) hx)

theorem ren_map : ∀ (S A : List Nat), S.Nodup → S.length = A.length → S.map (ren S A) = A
  | [], [], _, _ => rfl
  | [], _ :: _, _, hl => by simp at hl
  | _ :: _, [], _, hl => by simp at hl
  | s :: ss, a :: as, hn, hl => by
    have hn' := List.nodup_cons.mp hn
    have h1 : (s :: ss).map (ren (s :: ss) (a :: as)) = a :: ss.map (ren ss as) := by
      simp only [List.map_cons, ren, if_true]
      congr 1
      apply List.map_congr_left
      intro x hx
      rw [if_neg (fun e => hn'.1 (by rw [← e]; exact hx))]
    rw [h1, ren_map ss as hn'.2 (by simpa using hl)]

/-- well-formedness of the pair (source cells, stand-in cells) -/
structure WF (S A : List Nat) : Prop where
  nodupS : S.Nodup
  nodupA : A.Nodup
  len : S.length = A.length
  disj : ∀ c ∈ S, c ∉ A

theorem ren_inj : ∀ (S A : List Nat), A.Nodup → S.length = A.length → InjOff A (ren S A)
  | [], _, _, _ => by intro x y _ _ h; simpa [ren] using h
  | _ :: _, [], _, hl => by simp at hl
  | s :: ss, a :: as, hn, hl => by
    have hn' := List.nodup_cons.mp hn
    have hl' : ss.length = as.length := by simpa using hl
    have ih := ren_inj ss as hn'.2 hl'
    intro x y hx hy h
    simp only [ren] at h
    have hxa : x ∉ as := fun e => hx (List.mem_cons_of_mem _ e)
    have hya : y ∉ as := fun e => hy (List.mem_cons_of_mem _ e)
    have key : ∀ z, z ∉ a :: as → ren ss as z ≠ a := by
      intro z hz e
      by_cases hzs : z ∈ ss
      · exact hn'.1 (by rw [← e]; exact ren_mem ss as z hl' hzs)
      · rw [ren_fix ss as z hzs] at e
        exact hz (by simp [e])
    by_cases ex : x = s <;> by_cases ey : y = s
    · rw [ex, ey]
    · rw [if_pos ex, if_neg ey] at h
      exact absurd h.symm (key y hy)
    · rw [if_neg ex, if_pos ey] at h
      exact absurd h (key x hx)
    · rw [if_neg ex, if_neg ey] at h
      exact ih x y hxa hya h

/-- copy source → stand-in: afterwards the stand-in cell of `x` holds the value of `x` -/
theorem write_ren_in (m : Mem) (w : Nat → Nat) : ∀ (S A : List Nat) (k : Nat) (v : Nat → Nat),
    S.length = A.length → A.Nodup → (∀ j (h : j < S.length), v (k + j) = w (S[j])) →
    ∀ x ∈ S, write m A k v (ren S A x) = w x
  | [], _, _, _, _, _, _, _, h => by cases h
  | _ :: _, [], _, _, hl, _, _, _, _ => by simp at hl
  | s :: ss, a :: as, k, v, hl, hn, hv, x, hx => by
    have hn' := List.nodup_cons.mp hn
    have hl' : ss.length = as.length := by simpa using hl
    by_cases e : x = s
    · have hr : ren (s :: ss) (a :: as) x = a := by simp [ren, e]
      rw [hr]
      simp only [write, if_true]
      have := hv 0 (by simp)
      simpa [e] using this
    · have hr : ren (s :: ss) (a :: as) x = ren ss as x := by simp [ren, e]
      rw [hr]
      have hxs : x ∈ ss := by
        rcases List.mem_cons.mp hx with h | h
        · exact absurd h e
        · exact h
      have hne : ren ss as x ≠ a := fun e' => hn'.1 (by rw [← e']; exact ren_mem ss as x hl' hxs)
      simp only [write]
      rw [if_neg hne]
      refine write_ren_in m w ss as (k + 1) v hl' hn'.2 ?_ x hxs
      intro j hj
      have := hv (j + 1) (by simpa using hj)
      simpa [Nat.add_assoc, Nat.add_comm 1 j] using this

/-- copy stand-in → source: afterwards `x` holds the value of its stand-in cell -/
theorem write_ren_out (m : Mem) (w : Nat → Nat) : ∀ (S A : List Nat) (k : Nat) (v : Nat → Nat),
    S.length = A.length → (∀ j (h : j < A.length), v (k + j) = w (A[j])) →
    ∀ x ∈ S, write m S k v x = w (ren S A x)
  | [], _, _, _, _, _, _, h => by cases h
  | _ :: _, [], _, _, hl, _, _, _ => by simp at hl
  | s :: ss, a :: as, k, v, hl, hv, x, hx => by
    have hl' : ss.length = as.length := by simpa using hl
    by_cases e : x = s
    · have hr : ren (s :: ss) (a :: as) x = a := by simp [ren, e]
      rw [hr]
      simp only [write]
      rw [if_pos e]
      have := hv 0 (by simp)
      simpa using this
    · have hr : ren (s :: ss) (a :: as) x = ren ss as x := by simp [ren, e]
      rw [hr]
      simp only [write]
      rw [if_neg e]
      have hxs : x ∈ ss := by
        rcases List.mem_cons.mp hx with h | h
        · exact absurd h e
        · exact h
      refine write_ren_out m w ss as (k + 1) v hl' ?_ x hxs
      intro j hj
      have := hv (j + 1) (by simpa using hj)
      simpa [Nat.add_assoc, Nat.add_comm 1 j] using this

theorem srcVal_get (m : Mem) (S : List Nat) (j : Nat) (h : j < S.length) : srcVal m S (0 + j) = m (S[j]) := by
  simp [srcVal, List.getElem?_eq_getElem h]

/-! ### soundness of the placement checker -/

/-- what the checker state means: `σ` = state of the run in which the cast is an alias, `τ` = state of the run
    with the stand-in buffer -/
def Inv (S A : List Nat) (q : Sync) (σ τ : St) : Prop :=
  σ.log = τ.log ∧ σ.clk = τ.clk ∧ (∀ x, x ∉ A → x ∉ S → τ.mem x = σ.mem x) ∧
  (q.srcOk = true → ∀ x ∈ S, τ.mem x = σ.mem x) ∧ (q.allocOk = true → ∀ x ∈ S, τ.mem (ren S A x) = σ.mem x)

def simRen (fn : Fn) (trips : Nat → Nat → Nat) (S A : List Nat) (wf : WF S A) (ci co : Bool) (D : Nat → Prop)
    (hD : ∀ c, D c → c ∈ S) (hci : ci = true → ∀ c ∈ S, ¬ D c) : Sim :=
  { g1 := aliasCfg fn trips S A, g2 := realCfg fn trips S A, ρ := ren S A, A := A, forb := A ++ S, ci := ci, co := co,
    D := D, hfn := rfl, htr := rfl, hinj := ren_inj S A wf.nodupA wf.len,
    hfix := fun c hc => ren_fix S A c (fun h => hc (List.mem_append_right _ h)),
    hA := fun _ hc => List.mem_append_left _ hc,
    hD := fun c hc => List.mem_append_right _ (hD c hc),
    hcc := fun _ => ⟨(ren_map S A wf.nodupS wf.len).symm, wf.disj⟩,
    hci := hci }

def simId (fn : Fn) (trips : Nat → Nat → Nat) (S A : List Nat) : Sim :=
  { g1 := aliasCfg fn trips S A, g2 := realCfg fn trips S A, ρ := id, A := A, forb := A, ci := false, co := false,
    D := fun _ => False, hfn := rfl, htr := rfl, hinj := fun _ _ _ _ h => h,
    hfix := fun _ _ => rfl, hA := fun _ hc => hc, hD := fun _ h => h.elim,
    hcc := fun h => by simp at h, hci := fun h => by simp at h }

theorem exists_cast (forb : List Nat) (outs : List Opd) (h1 : outs.all (Opd.okB forb true) = true)
    (h2 : outs.all (Opd.okB forb false) = false) : Opd.cast ∈ outs := by
  induction outs with
  | nil => simp at h2
  | cons o os ih =>
    simp only [List.all_cons, Bool.and_eq_true] at h1
    simp only [List.all_cons, Bool.and_eq_false_iff] at h2
    cases o with
    | cast => simp
    | direct cs =>
      rcases h2 with h2 | h2
      · have := h1.1; simp only [Opd.okB] at this h2; rw [this] at h2; cases h2
      · exact List.mem_cons_of_mem _ (ih h1.2 h2)

theorem stepOther_sound (fn : Fn) (trips : Nat → Nat → Nat) (S A : List Nat) (wf : WF S A) (i : Item) (q q' : Sync)
    (σ τ : St) (h : stepOther S A i q = some q') (hinv : Inv S A q σ τ) :
    Inv S A q' (i.exec (aliasCfg fn trips S A) σ) (i.exec (realCfg fn trips S A) τ) := by
  obtain ⟨hlog, hclk, hoff, hsrc, hall⟩ := hinv
  unfold stepOther at h
  split at h
  next h1 =>
    -- touches neither buffer
    cases h
    let sm := simRen fn trips S A wf false false (fun x => x ∈ S) (fun _ h => h) (fun h => by simp at h)
    have hr := sm.item i h1 σ τ ⟨hlog, hclk, fun x hx hs => by
      show τ.mem (ren S A x) = σ.mem x
      rw [ren_fix S A x hs]; exact hoff x hx hs⟩
    have fr1 := fun x (hx : x ∈ A ++ S) => frame_item (aliasCfg fn trips S A) (A ++ S) false x hx (σ.mem x) i h1 σ rfl
    have fr2 := fun x (hx : x ∈ A ++ S) => frame_item (realCfg fn trips S A) (A ++ S) false x hx (τ.mem x) i h1 τ rfl
    refine ⟨hr.1, hr.2.1, ?_, ?_, ?_⟩
    · intro x hx hs
      have := hr.2.2 x hx hs
      rwa [show sm.ρ x = x from ren_fix S A x hs] at this
    · intro hq x hx
      rw [fr1 x (List.mem_append_right _ hx), fr2 x (List.mem_append_right _ hx)]
      exact hsrc hq x hx
    · intro hq x hx
      rw [fr1 x (List.mem_append_right _ hx), fr2 _ (List.mem_append_left _ (ren_mem S A x wf.len hx))]
      exact hall hq x hx
  next h1 =>
    split at h
    next h2 =>
      -- addresses the source directly
      split at h
      next hq =>
        cases h
        let sm := simId fn trips S A
        have hr := sm.item i h2 σ τ ⟨hlog, hclk, fun x hx _ => by
          show τ.mem x = σ.mem x
          by_cases hs : x ∈ S
          · exact hsrc hq x hs
          · exact hoff x hx hs⟩
        refine ⟨hr.1, hr.2.1, ?_, ?_, ?_⟩
        · intro x hx _; exact hr.2.2 x hx (fun h => h)
        · intro _ x hx; exact hr.2.2 x (wf.disj x hx) (fun h => h)
        · intro hq'; cases hq'
      next => cases h
    next h2 =>
      split at h
      next h3 =>
        -- uses the cast value
        cases h
        let sm := simRen fn trips S A wf q.allocOk true (fun x => q.allocOk = false ∧ x ∈ S) (fun _ h => h.2)
          (fun hc _ _ hD => by rw [hc] at hD; exact Bool.noConfusion hD.1)
        have hpre : sm.Rel (fun x => ¬ sm.D x) σ τ := ⟨hlog, hclk, fun x hx hd => by
          show τ.mem (ren S A x) = σ.mem x
          by_cases hs : x ∈ S
          · cases hq : q.allocOk with
            | true => exact hall hq x hs
            | false => exact absurd ⟨hq, hs⟩ hd
          · rw [ren_fix S A x hs]; exact hoff x hx hs⟩
        have hr := sm.item i h3 σ τ hpre
        refine ⟨hr.1, hr.2.1, ?_, ?_, ?_⟩
        · intro x hx hs
          have := hr.2.2 x hx (fun hd => hs hd.2)
          rwa [show sm.ρ x = x from ren_fix S A x hs] at this
        · intro hq x hx
          simp only [Bool.and_eq_true] at hq
          rw [frame_item (aliasCfg fn trips S A) (A ++ S) q.allocOk x (List.mem_append_right _ hx) (σ.mem x) i hq.2 σ rfl,
            frame_item (realCfg fn trips S A) (A ++ S) q.allocOk x (List.mem_append_right _ hx) (τ.mem x) i hq.2 τ rfl]
          exact hsrc hq.1 x hx
        · intro hq x hx
          cases hqa : q.allocOk with
          | true =>
            exact hr.2.2 x (wf.disj x hx) (fun hd => by
              have hd' : q.allocOk = false ∧ x ∈ S := hd
              rw [hqa] at hd'
              exact Bool.noConfusion hd'.1)
          | false =>
            rw [hqa] at hq
            simp only [Bool.false_or, Bool.and_eq_true, Bool.not_eq_true'] at hq
            cases i with
            | leaf tag ins outs =>
              have h3' := h3
              simp only [Item.okB, Bool.and_eq_true] at h3'
              have hnf := hq.1
              simp only [Item.okB] at hnf
              rw [hqa] at h3'
              rw [h3'.1, Bool.true_and] at hnf
              have hc := exists_cast (A ++ S) outs h3'.2 hnf
              have hl := sm.leaf tag ins outs h3 σ τ hpre
              exact hl.2.2 x (wf.disj x hx) (Or.inr ⟨Opd.cast, hc, hx⟩)
            | copy a b => simp [Item.isLeaf] at hq
            | copyIn => simp [Item.isLeaf] at hq
            | copyOut => simp [Item.isLeaf] at hq
            | loop id b => simp [Item.isLeaf] at hq
      next => cases h

theorem stepSync_sound (fn : Fn) (trips : Nat → Nat → Nat) (S A : List Nat) (wf : WF S A) (i : Item) (q q' : Sync)
    (σ τ : St) (h : stepSync S A i q = some q') (hinv : Inv S A q σ τ) :
    Inv S A q' (i.exec (aliasCfg fn trips S A) σ) (i.exec (realCfg fn trips S A) τ) := by
  cases i with
  | leaf t a b => exact stepOther_sound fn trips S A wf _ q q' σ τ (by simpa [stepSync] using h) hinv
  | copy a b => exact stepOther_sound fn trips S A wf _ q q' σ τ (by simpa [stepSync] using h) hinv
  | loop id b => exact stepOther_sound fn trips S A wf _ q q' σ τ (by simpa [stepSync] using h) hinv
  | copyIn =>
    obtain ⟨hlog, hclk, hoff, hsrc, _⟩ := hinv
    simp only [stepSync] at h
    split at h
    next hq =>
      cases h
      simp only [Item.exec, aliasCfg, realCfg, if_true, Bool.false_eq_true, if_false, copyCells]
      refine ⟨hlog, hclk, ?_, ?_, ?_⟩
      · intro x hx hs; dsimp only; rw [write_frame _ _ A 0 x hx]; exact hoff x hx hs
      · intro _ x hx; dsimp only; rw [write_frame _ _ A 0 x (wf.disj x hx)]; exact hsrc hq x hx
      · intro _ x hx
        dsimp only
        rw [write_ren_in τ.mem τ.mem S A 0 (srcVal τ.mem S) wf.len wf.nodupA (fun j hj => srcVal_get τ.mem S j hj) x hx]
        exact hsrc hq x hx
    next => cases h
  | copyOut =>
    obtain ⟨hlog, hclk, hoff, _, hall⟩ := hinv
    simp only [stepSync] at h
    split at h
    next hq =>
      cases h
      simp only [Item.exec, aliasCfg, realCfg, if_true, Bool.false_eq_true, if_false, copyCells]
      refine ⟨hlog, hclk, ?_, ?_, ?_⟩
      · intro x hx hs; dsimp only; rw [write_frame _ _ S 0 x hs]; exact hoff x hx hs
      · intro _ x hx
        dsimp only
        rw [write_ren_out τ.mem τ.mem S A 0 (srcVal τ.mem A) wf.len (fun j hj => srcVal_get τ.mem A j hj) x hx]
        exact hall hq x hx
      · intro _ x hx
        have hm := ren_mem S A x wf.len hx
        dsimp only
        rw [write_frame _ _ S 0 _ (fun hs => wf.disj _ hs hm)]
        exact hall hq x hx
    next => cases h

theorem chkFrom_sound (fn : Fn) (trips : Nat → Nat → Nat) (S A : List Nat) (wf : WF S A) :
    (b : Blk) → ∀ (q q' : Sync) (σ τ : St), chkFrom S A b q = some q' → Inv S A q σ τ →
      Inv S A q' (b.exec (aliasCfg fn trips S A) σ) (b.exec (realCfg fn trips S A) τ)
  | .nil, q, q', σ, τ, h, hinv => by
    simp only [chkFrom] at h
    cases h
    simpa [Blk.exec] using hinv
  | .cons i r, q, q', σ, τ, h, hinv => by
    simp only [chkFrom] at h
    split at h
    next q1 h1 =>
      simp only [Blk.exec]
      exact chkFrom_sound fn trips S A wf r q1 q' _ _ h (stepSync_sound fn trips S A wf i q q1 σ τ h1 hinv)
    next => cases h

/-! ### the inserted copies do nothing when the cast is an alias -/

theorem iter_congr (f g : St → St) (h : ∀ s, f s = g s) : ∀ (n : Nat) (s : St), iter f n s = iter g n s
  | 0, _ => rfl
  | n + 1, s => by simp only [iter]; rw [h s]; exact iter_congr f g h n _

mutual
theorem insOut_item_alias (g : Cfg) (hg : g.real = false) : (i i' : Item) → i.insOut = some i' →
    ∀ s, i'.exec g s = i.exec g s
  | .loop id b, i', h, s => by
    simp only [Item.insOut] at h
    split at h
    next b' hb =>
      cases h
      simp only [Item.exec]
      exact iter_congr _ _ (fun t => insOut_blk_alias g hg b b' hb t) _ _
    next => cases h
  | .leaf _ _ _, _, h, _ => by simp [Item.insOut] at h
  | .copy _ _, _, h, _ => by simp [Item.insOut] at h
  | .copyIn, _, h, _ => by simp [Item.insOut] at h
  | .copyOut, _, h, _ => by simp [Item.insOut] at h
theorem insOut_blk_alias (g : Cfg) (hg : g.real = false) : (b b' : Blk) → b.insOut = some b' →
    ∀ s, b'.exec g s = b.exec g s
  | .nil, _, h, _ => by simp [Blk.insOut] at h
  | .cons i r, b', h, s => by
    simp only [Blk.insOut] at h
    split at h
    next r' hr =>
      cases h
      simp only [Blk.exec]
      exact insOut_blk_alias g hg r r' hr _
    next =>
      split at h
      next =>
        cases h
        simp only [Blk.exec, Item.exec, hg, Bool.false_eq_true, if_false]
      next =>
        split at h
        next i' hi =>
          cases h
          simp only [Blk.exec]
          rw [insOut_item_alias g hg i i' hi s]
        next => cases h
end

theorem insInTop_alias (g : Cfg) (hg : g.real = false) : (b : Blk) → ∀ s, (insInTop b).exec g s = b.exec g s
  | .nil, _ => rfl
  | .cons i r, s => by
    simp only [insInTop]
    split
    · simp only [Blk.exec, Item.exec, hg, Bool.false_eq_true, if_false]
    · simp only [Blk.exec]
      exact insInTop_alias g hg r _

/-- with the cast as an alias, the realised block (fixed rule) behaves like the original block -/
theorem realize_alias (g : Cfg) (hg : g.real = false) (b : Blk) (s : St) :
    (realize true b).exec g s = b.exec g s := by
  have h1 : ∀ s, ((b.insOut).getD b).exec g s = b.exec g s := by
    intro s
    cases h : b.insOut with
    | none => rfl
    | some b' => exact insOut_blk_alias g hg b b' h s
  simp only [realize, if_true]
  split
  · rw [insInTop_alias g hg]; exact h1 s
  · exact h1 s

/-! ### plumbing of `transformConstant`, `transposeTuple` -/
open SnaxVerif.Tsl in
theorem static?_dim : ∀ (t : List SStride),
    (t.map SStride.toStride).mapM staticStride = some t
  | [] => rfl
  | x :: r => by
    simp only [List.map_cons, List.mapM_cons]
    rw [static?_dim r]
    rfl

open SnaxVerif.Tsl in
theorem static?_ofStatic (s : SLayout) (off : Option Int) : static? (ofStatic s off) = some s := by
  unfold static? ofStatic
  simp only
  induction s with
  | nil => rfl
  | cons t ts ih =>
    simp only [List.map_cons, List.mapM_cons]
    rw [static?_dim t, ih]
    rfl

theorem length_flatMap_const {α} (f : Nat → List α) (c : Nat) (h : ∀ i, (f i).length = c) :
    ∀ n, ((List.range n).flatMap f).length = n * c
  | 0 => by simp
  | n + 1 => by
    rw [List.range_succ, List.flatMap_append, List.length_append, length_flatMap_const f c h n]
    simp [h, Nat.succ_mul]

theorem getElem?_flatMap_range {α} (f : Nat → List α) (c : Nat) (h : ∀ i, (f i).length = c) :
    ∀ (n i j : Nat), i < n → j < c → ((List.range n).flatMap f)[i * c + j]? = (f i)[j]?
  | 0, _, _, hi, _ => by cases hi
  | n + 1, i, j, hi, hj => by
    rw [List.range_succ, List.flatMap_append]
    have hlen := length_flatMap_const f c h n
    by_cases hin : i < n
    · have hlt : i * c + j < ((List.range n).flatMap f).length := by
        rw [hlen]
        calc i * c + j < i * c + c := by omega
          _ = (i + 1) * c := by rw [Nat.succ_mul]
          _ ≤ n * c := Nat.mul_le_mul_right c hin
      rw [List.getElem?_append_left hlt]
      exact getElem?_flatMap_range f c h n i j hin hj
    · have hi' : i = n := by omega
      subst hi'
      rw [List.getElem?_append_right (by rw [hlen]; omega), hlen]
      simp

end SnaxVerif.Casts
