import SnaxVerif.Model.Tsl
import SnaxVerif.Lemmas.Affine
import Mathlib.Data.List.Nodup
import Mathlib.Tactic.Ring
import Mathlib.Data.List.Perm.Subperm
/-! Helper lemmas for the tiled-strided-layout model (C10). -/
namespace SnaxVerif.Tsl
open SnaxVerif AExpr

/-! ### arithmetic -/

theorem digit_split (j b R : Nat) : j / R = b * (j / (b * R)) + (j % (b * R)) / R := by
  have h1 : j % (b * R) / R = j / R % b := by rw [Nat.mul_comm b R]; exact Nat.mod_mul_right_div_self j R b
  have h2 : j / (b * R) = j / R / b := by rw [Nat.mul_comm b R, Nat.div_div_eq_div_mul]
  rw [h1, h2]; exact (Nat.div_add_mod (j / R) b).symm

theorem prodB_pos (r : List SStride) (h : ∀ x ∈ r, 0 < x.bound) : 0 < prodB r := by
  induction r with
  | nil => simp [prodB]
  | cons s r ih =>
    simp only [prodB]
    exact Nat.mul_pos (h s (by simp)) (ih fun x hx => h x (by simp [hx]))

/-- inside the box the unreduced outermost digit equals the reduced one -/
theorem addrDim_eq_addrIn : ∀ (l : List SStride) (i : Nat), i < prodB l → addrDim l i = addrIn l i
  | [], _, _ => rfl
  | s :: r, i, h => by
    simp only [prodB] at h
    simp only [addrDim, addrIn, Nat.mod_eq_of_lt h]

/-- the reduced digits are periodic with period `prodB` -/
theorem addrIn_add_mul : ∀ (l : List SStride) (i k : Nat), addrIn l (i + k * prodB l) = addrIn l i
  | [], _, _ => rfl
  | s :: r, i, k => by
    simp only [addrIn, prodB]
    have h := addrIn_add_mul r i (k * s.bound)
    rw [Nat.mul_assoc] at h
    rw [h, Nat.add_mul_mod_self_right]

theorem addrIn_mul_add (l : List SStride) (q j : Nat) : addrIn l (prodB l * q + j) = addrIn l j := by
  rw [Nat.add_comm, Nat.mul_comm]; exact addrIn_add_mul l j q

theorem addrIn_of_dvd (l : List SStride) (k : Nat) : addrIn l (k * prodB l) = 0 := by
  have h := addrIn_add_mul l 0 k
  rw [Nat.zero_add] at h
  rw [h]
  clear h
  induction l with
  | nil => rfl
  | cons s r ih => simp [addrIn, ih]

/-! ### static layouts inside the option-valued model -/

theorem prodT_static (r : List SStride) (h : ∀ x ∈ r, 0 < x.bound) :
    prodT (r.map SStride.toStride) = prodB r := by
  induction r with
  | nil => rfl
  | cons s r ih =>
    have hs : 0 < s.bound := h s (by simp)
    have ih' := ih fun x hx => h x (by simp [hx])
    obtain ⟨n, hn⟩ : ∃ n, s.bound = n + 1 := ⟨s.bound - 1, by omega⟩
    simp only [List.map_cons, prodT, SStride.toStride, prodB, hn, ih']

theorem strides_static_not_dynamic (l : List SStride) :
    (l.map SStride.toStride).any Stride.isDynamic = false := by
  induction l with
  | nil => rfl
  | cons s r ih => simp [SStride.toStride, Stride.isDynamic, ih]

theorem isDynamic_ofStatic (s : SLayout) (off : Option Int) : (ofStatic s off).isDynamic = false := by
  unfold Layout.isDynamic Layout.strides ofStatic
  simp only
  induction s with
  | nil => rfl
  | cons t ts ih =>
    simp only [List.map_cons, List.flatten_cons, List.any_append, ih, strides_static_not_dynamic, Bool.or_self]

/-! ### `get_affine_map` -/

theorem eval_fdiv_dim (env : Nat → Int) (dim i P : Nat) (henv : env dim = (i : Int)) (hP : 0 < P) :
    (AExpr.bin .fdiv (.dim dim) (.const (P : Int))).eval env = some ((i / P : Nat) : Int) := by
  have hP' : (P : Int) ≠ 0 := by omega
  simp only [eval_bin, eval_dim, eval_const, Option.bind_some, evalBin, henv, if_neg hP', Int.ofNat_fdiv]

theorem eval_fdiv_mod_dim (env : Nat → Int) (dim i M P : Nat) (henv : env dim = (i : Int)) (hM : 0 < M)
    (hP : 0 < P) :
    (AExpr.bin .fdiv (.bin .mod (.dim dim) (.const (M : Int))) (.const (P : Int))).eval env
      = some ((i % M / P : Nat) : Int) := by
  have hP' : (P : Int) ≠ 0 := by omega
  have hM' : (M : Int) ≠ 0 := by omega
  simp only [eval_bin, eval_dim, eval_const, Option.bind_some, evalBin, henv, if_neg hP', if_neg hM',
    Int.ofNat_fdiv, Int.ofNat_fmod]

theorem affDim_eval (env : Nat → Int) (dim i : Nat) (henv : env dim = (i : Int)) :
    ∀ (d0 : Bool) (t : List SStride) (acc : AExpr) (a : Int),
      (∀ x ∈ t, 0 < x.step ∧ 0 < x.bound) → acc.eval env = some a →
      ∃ e, affDim dim d0 (t.map SStride.toStride) acc = .ok e ∧
        e.eval env = some (a + ((if d0 then addrDim t i else addrIn t i : Nat) : Int)) := by
  intro d0 t
  induction t generalizing d0 with
  | nil => intro acc a _ hacc; exact ⟨acc, rfl, by cases d0 <;> simp [addrDim, addrIn, hacc]⟩
  | cons s r ih =>
    intro acc a hpos hacc
    have hs := hpos s (by simp)
    have hr : ∀ x ∈ r, 0 < x.step ∧ 0 < x.bound := fun x hx => hpos x (by simp [hx])
    have hrb : ∀ x ∈ r, 0 < x.bound := fun x hx => (hr x hx).2
    have hP : 0 < prodB r := prodB_pos r hrb
    have hM : 0 < s.bound * prodB r := Nat.mul_pos hs.2 hP
    obtain ⟨n, hn⟩ : ∃ n, s.step = n + 1 := ⟨s.step - 1, by omega⟩
    have hpT : prodT (r.map SStride.toStride) = prodB r := prodT_static r hrb
    have hpT2 : prodT (s.toStride :: r.map SStride.toStride) = s.bound * prodB r := by
      have := prodT_static (s :: r) (fun x hx => (hpos x hx).2)
      simpa [prodB] using this
    -- the summand
    let base : AExpr := if d0 then AExpr.dim dim else .bin .mod (.dim dim) (.const ((s.bound * prodB r : Nat) : Int))
    let term := AExpr.smartMulC (.bin .fdiv base (.const ((prodB r : Nat) : Int))) ((s.step : Nat) : Int)
    have hterm : affTerm dim d0 s.toStride (r.map SStride.toStride) = .ok term := by
      simp only [term, base]
      rw [← hpT2, ← hpT]
      obtain ⟨st, b⟩ := s
      simp only at hn
      subst hn
      rfl
    have hdig : term.eval env = some (((s.step * (if d0 then i / prodB r else i % (s.bound * prodB r) / prodB r) : Nat)) : Int) := by
      simp only [term, smartMulC_eval]
      rw [eval_bin]
      cases d0 with
      | true =>
        simp only [base, ↓reduceIte]
        rw [eval_fdiv_dim env dim i (prodB r) henv hP]
        simp [evalBin, Int.mul_comm]
      | false =>
        simp only [base, Bool.false_eq_true, ↓reduceIte]
        rw [eval_fdiv_mod_dim env dim i _ (prodB r) henv hM hP]
        simp [evalBin, Int.mul_comm]
    have hadd : (AExpr.smartAdd acc term).eval env
        = some (a + ((s.step * (if d0 then i / prodB r else i % (s.bound * prodB r) / prodB r) : Nat) : Int)) := by
      rw [smartAdd_eval, eval_bin, hacc, hdig]; simp [evalBin]
    obtain ⟨e, he, hev⟩ := ih false (AExpr.smartAdd acc term) _ hr hadd
    refine ⟨e, ?_, ?_⟩
    · simp only [List.map_cons, affDim, hterm]; exact he
    · rw [hev]
      cases d0 <;> simp [addrDim, addrIn, Int.add_assoc]

theorem affDims_eval (env : Nat → Int) :
    ∀ (s : SLayout) (d : Nat) (idx : List Nat) (acc : AExpr) (a : Int),
      SPos s → (∀ k, env (d + k) = ((idx.getD k 0 : Nat) : Int)) → acc.eval env = some a →
      ∃ e, affDims d (s.map (·.map SStride.toStride)) acc = .ok e ∧
        e.eval env = some (a + (addr s idx : Int)) := by
  intro s
  induction s with
  | nil => intro d idx acc a _ _ hacc; exact ⟨acc, rfl, by simp [addr, hacc]⟩
  | cons t ts ih =>
    intro d idx acc a hpos henv hacc
    have ht : ∀ x ∈ t, 0 < x.step ∧ 0 < x.bound := hpos t (by simp)
    have hts : SPos ts := fun t' ht' => hpos t' (by simp [ht'])
    have h0 : env d = ((idx.headD 0 : Nat) : Int) := by
      have := henv 0
      simpa [List.getD_eq_getElem?_getD, List.headD_eq_head?_getD, List.head?_eq_getElem?] using this
    obtain ⟨e1, he1, hev1⟩ := affDim_eval env d (idx.headD 0) h0 true t acc a ht hacc
    have henv' : ∀ k, env (d + 1 + k) = ((idx.tail.getD k 0 : Nat) : Int) := by
      intro k
      have := henv (k + 1)
      rw [show d + 1 + k = d + (k + 1) by omega, this]
      cases idx <;> simp
    obtain ⟨e, he, hev⟩ := ih (d + 1) idx.tail e1 _ hts henv' hev1
    refine ⟨e, ?_, ?_⟩
    · simp only [List.map_cons, affDims, he1]; exact he
    · rw [hev]; simp [addr, Int.add_assoc]

/-! ### the box -/

theorem mem_points_cons (n : Nat) (ns : List Nat) (idx : List Nat) :
    idx ∈ points (n :: ns) ↔ ∃ i is, idx = i :: is ∧ i < n ∧ is ∈ points ns := by
  simp only [points, List.mem_flatMap, List.mem_range, List.mem_map]
  constructor
  · rintro ⟨i, hi, is, his, rfl⟩; exact ⟨i, is, rfl, hi, his⟩
  · rintro ⟨i, is, rfl, hi, his⟩; exact ⟨i, hi, is, his, rfl⟩

/-- membership in the box, spelled out -/
def InBox : List Nat → List Nat → Prop
  | [], [] => True
  | n :: ns, i :: is => i < n ∧ InBox ns is
  | _, _ => False

theorem mem_points_iff : ∀ (sh idx : List Nat), idx ∈ points sh ↔ InBox sh idx
  | [], [] => by simp [points, InBox]
  | [], _ :: _ => by simp [points, InBox]
  | n :: ns, [] => by simp [mem_points_cons, InBox]
  | n :: ns, i :: is => by
    rw [mem_points_cons]
    simp only [InBox, ← mem_points_iff ns is]
    constructor
    · rintro ⟨i', is', h, hi, his⟩; cases h; exact ⟨hi, his⟩
    · rintro ⟨hi, his⟩; exact ⟨i, is, rfl, hi, his⟩

/-! ### `canonicalize` -/

/-- `TiledStride.canonicalize` restricted to static strides -/
def canonS : List SStride → List SStride
  | [] => []
  | s :: r =>
    match canonS r with
    | [] => [s]
    | h :: t =>
      if s.bound = 1 then h :: t
      else if h.step ≠ 0 ∧ h.bound ≠ 0 ∧ s.bound ≠ 0 ∧ s.step = h.step * h.bound then
        ⟨h.step, h.bound * s.bound⟩ :: t
      else s :: h :: t

theorem truthy_some (a : Nat) : truthy (some a) = decide (a ≠ 0) := by
  cases a <;> simp [truthy]

theorem squashable_static (h s : SStride) :
    squashable h.toStride s.toStride
      = decide (h.step ≠ 0 ∧ h.bound ≠ 0 ∧ s.bound ≠ 0 ∧ s.step = h.step * h.bound) := by
  simp only [squashable, SStride.toStride, truthy_some]
  by_cases h1 : h.step = 0 <;> by_cases h2 : h.bound = 0 <;> by_cases h3 : s.bound = 0 <;>
    by_cases h4 : s.step = h.step * h.bound <;> simp [h1, h2, h3, h4]

theorem canonT_static : ∀ (t : List SStride), canonT (t.map SStride.toStride) = (canonS t).map SStride.toStride
  | [] => rfl
  | s :: r => by
    have ih := canonT_static r
    simp only [List.map_cons, canonT, canonS, ih]
    cases hc : canonS r with
    | nil => rfl
    | cons h t =>
      simp only [List.map_cons]
      have hb : (s.toStride.bound = some 1) ↔ s.bound = 1 := by simp [SStride.toStride]
      by_cases h1 : s.bound = 1
      · rw [if_pos (hb.mpr h1), if_pos h1]; rfl
      · rw [if_neg (fun h' => h1 (hb.mp h')), if_neg h1, squashable_static]
        by_cases h2 : h.step ≠ 0 ∧ h.bound ≠ 0 ∧ s.bound ≠ 0 ∧ s.step = h.step * h.bound
        · simp only [h2, decide_true, if_true, and_self, ne_eq, not_false_eq_true, List.map_cons]
          simp [SStride.toStride, mulOpt]
        · simp only [h2, decide_false, if_false, List.map_cons]
          simp

theorem canonS_nil_iff (l : List SStride) : canonS l = [] ↔ l = [] := by
  cases l with
  | nil => simp [canonS]
  | cons s r =>
    simp only [canonS]
    split
    · simp
    · split
      · simp
      · split <;> simp

theorem prodB_canonS : ∀ l, prodB (canonS l) = prodB l
  | [] => rfl
  | s :: r => by
    have ih := prodB_canonS r
    simp only [canonS]
    split
    · rename_i hc
      have : r = [] := (canonS_nil_iff r).mp hc
      subst this; rfl
    · rename_i h t hc
      rw [hc] at ih
      split
      · rename_i hb; simp only [prodB] at ih ⊢; rw [hb, Nat.one_mul]; exact ih
      · split
        · simp only [prodB] at ih ⊢; rw [← ih, Nat.mul_comm h.bound s.bound, Nat.mul_assoc]
        · simp only [prodB] at ih ⊢; rw [ih]

theorem addrIn_canonS : ∀ (l : List SStride) (i : Nat), addrIn (canonS l) i = addrIn l i
  | [], _ => rfl
  | s :: r, i => by
    have ih := addrIn_canonS r i
    have hp := prodB_canonS r
    simp only [canonS]
    split
    · rename_i hc
      have : r = [] := (canonS_nil_iff r).mp hc
      subst this; rfl
    · rename_i h t hc
      rw [hc] at ih hp
      split
      · rename_i hb
        simp only [addrIn] at ih ⊢
        rw [ih, hb, Nat.one_mul]
        have : i % prodB r / prodB r = 0 := by
          rcases Nat.eq_zero_or_pos (prodB r) with h0 | h0
          · simp [h0]
          · exact Nat.div_eq_of_lt (Nat.mod_lt _ h0)
        simp [this]
      · split
        · rename_i hsq
          obtain ⟨_, _, _, hsq⟩ := hsq
          simp only [addrIn, prodB] at ih hp ⊢
          rw [← ih, ← hp, hsq]
          have hj : i % (h.bound * prodB t) = (i % (s.bound * (h.bound * prodB t))) % (h.bound * prodB t) := by
            rw [Nat.mod_mul_left_mod]
          have e1 : h.bound * s.bound * prodB t = s.bound * (h.bound * prodB t) := by
            rw [Nat.mul_comm h.bound s.bound, Nat.mul_assoc]
          rw [e1, hj, digit_split (i % (s.bound * (h.bound * prodB t))) h.bound (prodB t), Nat.mul_add,
              Nat.mul_assoc, Nat.add_assoc]
        · simp only [addrIn, prodB] at ih hp ⊢
          rw [ih, hp]

/-- one dimension: canonicalising does not change the address of any index below the bound -/
theorem canonS_addrDim (l : List SStride) (i : Nat) (h : i < prodB l) : addrDim (canonS l) i = addrDim l i := by
  rw [addrDim_eq_addrIn l i h, addrDim_eq_addrIn (canonS l) i (by rw [prodB_canonS]; exact h), addrIn_canonS]

theorem canonicalize_ofStatic (s : SLayout) (off : Option Int) :
    (ofStatic s off).canonicalize = ofStatic (s.map canonS) off := by
  simp only [Layout.canonicalize, ofStatic, List.map_map]
  congr 1
  apply List.map_congr_left
  intro t _
  simp [canonT_static]

theorem shape_canonS (s : SLayout) : shape (s.map canonS) = shape s := by
  simp only [shape, List.map_map]
  apply List.map_congr_left
  intro t _
  simp [prodB_canonS]

theorem addr_canonS : ∀ (s : SLayout) (idx : List Nat), idx ∈ points (shape s) →
    addr (s.map canonS) idx = addr s idx
  | [], _, _ => rfl
  | t :: ts, idx, h => by
    simp only [shape, List.map_cons] at h
    obtain ⟨i, is, rfl, hi, his⟩ := (mem_points_cons _ _ _).mp h
    simp only [List.map_cons, addr, List.headD_cons, List.tail_cons]
    rw [canonS_addrDim t i hi, addr_canonS ts is his]

/-! ### `all_values` -/

theorem bsum_assoc (a b c : List Nat) : bsum (bsum a b) c = bsum a (bsum b c) := by
  simp only [bsum, List.flatMap_assoc, List.flatMap_map, List.map_flatMap, List.map_map, Function.comp_def,
    Nat.add_assoc]

theorem bsum_zero_right (a : List Nat) : bsum a [0] = a := by
  simp [bsum]

theorem bsum_zero_left (a : List Nat) : bsum [0] a = a := by
  simp [bsum]

/-- range (q*t) enumerated as (i / t, i % t) pairs in order -/
theorem range_mul_flatMap (q t : Nat) :
    (List.range q).flatMap (fun i => (List.range t).map (fun j => t * i + j)) = List.range (q * t) := by
  induction q with
  | zero => simp
  | succ n ih =>
    rw [List.range_succ, List.flatMap_append, ih]
    simp only [List.flatMap_cons, List.flatMap_nil, List.append_nil]
    rw [Nat.succ_mul, List.range_add]
    congr 1
    apply List.map_congr_left
    intro a _
    rw [Nat.mul_comm]

/-- the addresses of one dimension in index order -/
def enumDim (t : List SStride) : List Nat := (List.range (prodB t)).map (addrDim t)

theorem allValues_static (x : SStride) (h : 0 < x.step ∧ 0 < x.bound) :
    x.toStride.allValues = .ok ((List.range x.bound).map (x.step * ·)) := by
  obtain ⟨h1, h2⟩ := h
  simp only [Stride.allValues, SStride.toStride]
  rw [if_neg (by omega), if_neg (by omega)]

theorem enumDim_cons (s : SStride) (r : List SStride) (hr : ∀ x ∈ r, 0 < x.bound) :
    bsum ((List.range s.bound).map (s.step * ·)) (enumDim r) = enumDim (s :: r) := by
  have hP : 0 < prodB r := prodB_pos r hr
  simp only [bsum, enumDim, prodB, List.flatMap_map, List.map_map]
  rw [← range_mul_flatMap, List.map_flatMap]
  apply List.flatMap_congr
  intro q _
  rw [List.map_map]
  apply List.map_congr_left
  intro j hj
  have hj' : j < prodB r := List.mem_range.mp hj
  show s.step * q + addrDim r j = addrDim (s :: r) (prodB r * q + j)
  rw [show addrDim (s :: r) (prodB r * q + j)
        = s.step * ((prodB r * q + j) / prodB r) + addrIn r (prodB r * q + j) from rfl,
    addrIn_mul_add, Nat.mul_add_div hP, Nat.div_eq_of_lt hj', Nat.add_zero, addrDim_eq_addrIn r j hj']

theorem allValuesFrom_dim : ∀ (t : List SStride) (rest : List Stride) (acc : List Nat),
    (∀ x ∈ t, 0 < x.step ∧ 0 < x.bound) →
    allValuesFrom (t.map SStride.toStride ++ rest) acc = allValuesFrom rest (bsum acc (enumDim t))
  | [], rest, acc, _ => by
    simp [enumDim, prodB, addrDim, List.range_succ, bsum_zero_right]
  | s :: r, rest, acc, hpos => by
    have hs := hpos s (by simp)
    have hr : ∀ x ∈ r, 0 < x.step ∧ 0 < x.bound := fun x hx => hpos x (by simp [hx])
    simp only [List.map_cons, List.cons_append, allValuesFrom, allValues_static s hs]
    rw [allValuesFrom_dim r rest _ hr, bsum_assoc, enumDim_cons s r (fun x hx => (hr x hx).2)]

theorem map_addr_points_cons (t : List SStride) (ts : SLayout) (n : Nat) (sh : List Nat) :
    (points (n :: sh)).map (addr (t :: ts))
      = bsum ((List.range n).map (addrDim t)) ((points sh).map (addr ts)) := by
  simp only [points, bsum, List.map_flatMap, List.map_map, List.flatMap_map]
  apply List.flatMap_congr
  intro i _
  apply List.map_congr_left
  intro is _
  simp [addr]

theorem allValuesFrom_layout : ∀ (s : SLayout) (rest : List Stride) (acc : List Nat), SPos s →
    allValuesFrom ((s.map (·.map SStride.toStride)).flatten ++ rest) acc
      = allValuesFrom rest (bsum acc ((points (shape s)).map (addr s)))
  | [], rest, acc, _ => by
    simp [shape, points, addr, bsum_zero_right]
  | t :: ts, rest, acc, hpos => by
    have ht : ∀ x ∈ t, 0 < x.step ∧ 0 < x.bound := hpos t (by simp)
    have hts : SPos ts := fun t' ht' => hpos t' (by simp [ht'])
    simp only [List.map_cons, List.flatten_cons, List.append_assoc]
    rw [allValuesFrom_dim t _ acc ht, allValuesFrom_layout ts rest _ hts, bsum_assoc]
    simp only [shape, List.map_cons]
    rw [map_addr_points_cons]
    rfl

/-! ### `self_overlaps`, `is_dense` -/

theorem hasDup_eq_false_iff : ∀ (l : List Nat), hasDup l = false ↔ l.Nodup
  | [] => by simp [hasDup]
  | a :: r => by
    simp only [hasDup, Bool.or_eq_false_iff, List.nodup_cons, hasDup_eq_false_iff r]
    simp

theorem nodup_points : ∀ (sh : List Nat), (points sh).Nodup
  | [] => by simp [points]
  | n :: ns => by
    simp only [points]
    rw [List.nodup_flatMap]
    refine ⟨fun i _ => (nodup_points ns).map (fun a b h => (List.cons.inj h).2), ?_⟩
    apply List.nodup_range.pairwise_of_forall_ne
    intro a _ b _ hab
    simp only [Function.onFun, List.disjoint_left, List.mem_map]
    rintro x ⟨p, _, rfl⟩ ⟨q, _, h⟩
    exact hab (List.cons.inj h).1.symm

theorem foldl_max_ge (l : List Nat) : ∀ a, a ≤ l.foldl max a := by
  induction l with
  | nil => intro a; exact Nat.le_refl a
  | cons x r ih => intro a; exact Nat.le_trans (Nat.le_max_left a x) (ih (max a x))

theorem le_foldl_max (l : List Nat) : ∀ a v, v ∈ l → v ≤ l.foldl max a := by
  induction l with
  | nil => intro a v h; cases h
  | cons x r ih =>
    intro a v h
    rcases List.mem_cons.mp h with rfl | h
    · exact Nat.le_trans (Nat.le_max_right a v) (foldl_max_ge r _)
    · exact ih _ v h

theorem foldl_max_mem (l : List Nat) : ∀ a, l.foldl max a = a ∨ l.foldl max a ∈ l := by
  induction l with
  | nil => intro a; exact Or.inl rfl
  | cons x r ih =>
    intro a
    simp only [List.foldl_cons, List.mem_cons]
    rcases ih (max a x) with h | h
    · rw [h]
      rcases Nat.le_total a x with hax | hax
      · right; left; exact Nat.max_eq_right hax
      · left; exact Nat.max_eq_left hax
    · right; right; exact h

theorem le_maxL (l : List Nat) (v : Nat) (h : v ∈ l) : v ≤ maxL l := le_foldl_max l 0 v h

/-- a list of `N` naturals is a permutation of `0 … N-1` iff it has no duplicates and its maximum is `N-1` -/
theorem dense_iff_perm (l : List Nat) :
    (hasDup l = false ∧ maxL l = l.length - 1) ↔ l.Perm (List.range l.length) := by
  constructor
  · rintro ⟨hd, hm⟩
    have hnd : l.Nodup := (hasDup_eq_false_iff l).mp hd
    have hsub : l ⊆ List.range l.length := by
      intro v hv
      have h1 := le_maxL l v hv
      have hpos : 0 < l.length := List.length_pos_of_mem hv
      exact List.mem_range.mpr (by omega)
    exact (hnd.subperm hsub).perm_of_length_le (by simp)
  · intro hp
    have hnd : l.Nodup := (hp.nodup_iff).mpr List.nodup_range
    refine ⟨(hasDup_eq_false_iff l).mpr hnd, ?_⟩
    rcases Nat.eq_zero_or_pos l.length with h0 | hpos
    · have : l = [] := List.length_eq_zero_iff.mp h0
      subst this; rfl
    · have hle : maxL l ≤ l.length - 1 := by
        rcases foldl_max_mem l 0 with h | h
        · unfold maxL; omega
        · have := List.mem_range.mp (hp.subset h); unfold maxL; omega
      have hge : l.length - 1 ≤ maxL l :=
        le_maxL l _ (hp.symm.subset (List.mem_range.mpr (by omega)))
      omega

/-! ### subview pointer arithmetic -/

theorem prodInner_static : ∀ (r : List SStride), prodInner (r.map SStride.toStride) = .ok (prodB r)
  | [] => rfl
  | s :: r => by simp [prodInner, SStride.toStride, prodInner_static r, prodB]

theorem addrDim_zero (t : List SStride) : addrDim t 0 = 0 := by
  cases t with
  | nil => rfl
  | cons s r =>
    have := addrIn_of_dvd r 0
    simp only [Nat.zero_mul] at this
    simp [addrDim, this]

theorem ptrTerm_aligned (t : List SStride) (el v : Nat) (hpos : ∀ x ∈ t, 0 < x.step ∧ 0 < x.bound)
    (hne : t ≠ []) (hdvd : prodB t.tail ∣ v) :
    ptrTerm (t.map SStride.toStride) el v = .ok (el * addrDim t v) := by
  cases t with
  | nil => exact absurd rfl hne
  | cons s r =>
    obtain ⟨k, rfl⟩ := hdvd
    have hP : 0 < prodB r := prodB_pos r fun x hx => (hpos x (by simp [hx])).2
    simp only [List.tail_cons] at hP ⊢
    simp only [List.map_cons, ptrTerm, SStride.toStride, prodInner_static, if_neg (Nat.pos_iff_ne_zero.mp hP)]
    have h0 : addrIn r (prodB r * k) = 0 := by rw [Nat.mul_comm]; exact addrIn_of_dvd r k
    simp only [addrDim, h0, Nat.add_zero, Nat.mul_div_cancel_left k hP]
    congr 1
    ring

theorem subviewTerms_aligned : ∀ (s : SLayout) (el : Nat) (offs : List (Option Nat)) (dyn vals : List Nat),
    SPos s → mergeOffs offs dyn = some vals → Aligned s vals →
    ∃ terms, subviewTerms true el (s.map (·.map SStride.toStride)) offs dyn = .ok terms ∧
      terms.sum = el * addr s vals
  | [], el, offs, dyn, vals, _, hm, hal => by
    cases vals with
    | nil =>
      cases offs with
      | nil => exact ⟨[], rfl, by simp [addr]⟩
      | cons o offs =>
        cases o with
        | none => cases dyn <;> simp [mergeOffs] at hm
        | some c => simp [mergeOffs] at hm
    | cons v vs => simp [Aligned] at hal
  | t :: ts, el, offs, dyn, vals, hpos, hm, hal => by
    have ht : ∀ x ∈ t, 0 < x.step ∧ 0 < x.bound := hpos t (by simp)
    have hts : SPos ts := fun t' ht' => hpos t' (by simp [ht'])
    cases vals with
    | nil => simp [Aligned] at hal
    | cons v vs =>
      obtain ⟨hne, hdvd, hal'⟩ := hal
      cases offs with
      | nil => simp [mergeOffs] at hm
      | cons o offs =>
        cases o with
        | none =>
          cases dyn with
          | nil => simp [mergeOffs] at hm
          | cons w dyn =>
            simp only [mergeOffs, Option.map_eq_some_iff] at hm
            obtain ⟨vs', hm', hcons⟩ := hm
            cases hcons
            obtain ⟨terms, hterms, hsum⟩ := subviewTerms_aligned ts el offs dyn vs hts hm' hal'
            refine ⟨el * addrDim t v :: terms, ?_, ?_⟩
            · simp only [List.map_cons, subviewTerms, ptrTerm_aligned t el v ht hne hdvd, hterms]; rfl
            · simp [addr, hsum, Nat.mul_add]
        | some c =>
          simp only [mergeOffs, Option.map_eq_some_iff] at hm
          obtain ⟨vs', hm', hcons⟩ := hm
          cases hcons
          obtain ⟨terms, hterms, hsum⟩ := subviewTerms_aligned ts el offs dyn vs hts hm' hal'
          by_cases hc : v = 0
          · subst hc
            refine ⟨terms, ?_, ?_⟩
            · simp only [List.map_cons, subviewTerms]; simpa using hterms
            · simp [addr, hsum, addrDim_zero]
          · refine ⟨el * addrDim t v :: terms, ?_, ?_⟩
            · simp only [List.map_cons, subviewTerms, Bool.true_and, ne_eq, hc, not_false_eq_true, decide_true,
                if_true, ptrTerm_aligned t el v ht hne hdvd, hterms]; rfl
            · simp [addr, hsum, Nat.mul_add]

/-! ### print / parse -/

def optInt (x : Option Nat) : Option Int := x.map fun n => (n : Int)

/-- the tokens of a bracketed list of entries, without the brackets -/
def itemsToks (xs : List (Option Nat)) : List Tok := commaSep (xs.map fun x => [printOptNat x])

theorem parseIntQ_print (x : Option Nat) (hx : x ≠ some 0) (rest : List Tok) :
    parseIntQ (printOptNat x :: rest) = .ok (optInt x, rest) := by
  cases x with
  | none => rfl
  | some n =>
    cases n with
    | zero => exact absurd rfl hx
    | succ n => rfl

theorem printOptNat_ne (x : Option Nat) (close : Tok) (hq : close ≠ .question) (hi : ∀ n, close ≠ .int n) :
    printOptNat x ≠ close := by
  cases x with
  | none => exact fun h => hq h.symm
  | some n => cases n with
    | zero => exact fun h => hq h.symm
    | succ n => exact fun h => hi _ h.symm

theorem dropComma_of_ne (close : Tok) (hc : close ≠ .comma) (rest : List Tok) :
    dropComma (close :: rest) = close :: rest := by
  cases close <;> first | rfl | exact absurd rfl hc

theorem parseItems_print (close : Tok) (hq : close ≠ .question) (hi : ∀ n, close ≠ .int n) (hc : close ≠ .comma) :
    ∀ (xs : List (Option Nat)) (fuel : Nat) (rest : List Tok), (∀ x ∈ xs, x ≠ some 0) → xs.length < fuel →
      parseItems close fuel (itemsToks xs ++ close :: rest) = .ok (xs.map optInt, rest)
  | [], fuel, rest, _, hf => by
    obtain ⟨f, rfl⟩ : ∃ f, fuel = f + 1 := ⟨fuel - 1, by simp at hf; omega⟩
    simp [itemsToks, commaSep, parseItems]
  | [x], fuel, rest, hx, hf => by
    obtain ⟨f, rfl⟩ : ∃ f, fuel = f + 1 := ⟨fuel - 1, by simp at hf; omega⟩
    have hne := printOptNat_ne x close hq hi
    have ih := parseItems_print close hq hi hc [] f rest (by simp) (by simp at hf ⊢; omega)
    simp only [itemsToks, commaSep, List.map_nil, List.nil_append] at ih
    simp only [itemsToks, List.map_cons, List.map_nil, commaSep, List.cons_append, List.nil_append, parseItems,
      if_neg hne, parseIntQ_print x (hx x (by simp)), dropComma_of_ne close hc, ih]
  | x :: y :: r, fuel, rest, hx, hf => by
    obtain ⟨f, rfl⟩ : ∃ f, fuel = f + 1 := ⟨fuel - 1, by simp at hf; omega⟩
    have hne := printOptNat_ne x close hq hi
    have ih := parseItems_print close hq hi hc (y :: r) f rest (fun z hz => hx z (by simp [hz]))
      (by simp at hf ⊢; omega)
    simp only [itemsToks, List.map_cons] at ih
    simp only [itemsToks, List.map_cons, commaSep, List.cons_append, List.nil_append, parseItems,
      if_neg hne, parseIntQ_print x (hx x (by simp)), dropComma, ih]

theorem mkStrides_print : ∀ (t : TStride),
    mkStrides (t.map fun s => optInt s.step) (t.map fun s => optInt s.bound) = .ok t
  | [] => rfl
  | s :: r => by
    have h1 : ∀ x : Option Nat, toNatEntry (optInt x) = .ok x := by
      intro x; cases x <;> rfl
    simp only [List.map_cons, mkStrides, h1, mkStrides_print r]

theorem length_itemsToks_ge : ∀ (xs : List (Option Nat)), xs.length ≤ (itemsToks xs).length
  | [] => by simp
  | [x] => by simp [itemsToks, commaSep]
  | x :: y :: r => by
    have := length_itemsToks_ge (y :: r)
    simp only [itemsToks, List.map_cons, commaSep, List.length_append, List.length_cons, List.length_nil] at this ⊢
    omega

/-- `printTStride` as a cons, in the association that `parseTStride` consumes -/
theorem printTStride_append (t : TStride) (rest : List Tok) :
    printTStride t ++ rest = .lsq :: (itemsToks (t.map (·.bound)) ++ .rsq :: .arrow :: .lpar ::
      (itemsToks (t.map (·.step)) ++ .rpar :: rest)) := by
  simp [printTStride, itemsToks, List.map_map, Function.comp_def]

def PrintableT (t : TStride) : Prop := ∀ x ∈ t, x.step ≠ some 0 ∧ x.bound ≠ some 0

theorem parseTStride_print (t : TStride) (fuel : Nat) (rest : List Tok) (hp : PrintableT t)
    (hf : t.length < fuel) : parseTStride fuel (printTStride t ++ rest) = .ok (t, rest) := by
  rw [printTStride_append]
  have hb := parseItems_print .rsq (by decide) (by intro n; exact Tok.noConfusion) (by decide)
    (t.map (·.bound)) fuel (.arrow :: .lpar :: (itemsToks (t.map (·.step)) ++ .rpar :: rest))
    (by intro x hx; obtain ⟨s, hs, rfl⟩ := List.mem_map.mp hx; exact (hp s hs).2) (by simpa using hf)
  have hs := parseItems_print .rpar (by decide) (by intro n; exact Tok.noConfusion) (by decide)
    (t.map (·.step)) fuel rest
    (by intro x hx; obtain ⟨s, hs, rfl⟩ := List.mem_map.mp hx; exact (hp s hs).1) (by simpa using hf)
  simp only [parseTStride, hb, hs, List.length_map, ne_eq, not_true_eq_false, if_false, List.map_map,
    Function.comp_def, mkStrides_print]

theorem parseOffset_print (off : Option Int) (rest : List Tok) :
    parseOffset true (printOffset off ++ rest) = .ok (off, rest) := by
  cases off with
  | none => rfl
  | some o => cases o <;> rfl

def tailToks (off : Option Int) : List Tok :=
  (if off = some 0 then [] else .comma :: .offsetKw :: .colon :: printOffset off) ++ [.greater]

def restToks (off : Option Int) : List TStride → List Tok
  | [] => tailToks off
  | t :: ts => .comma :: (printTStride t ++ restToks off ts)

theorem commaSep_rest (off : Option Int) : ∀ (ts : List TStride) (t : TStride),
    commaSep ((t :: ts).map printTStride) ++ tailToks off = printTStride t ++ restToks off ts
  | [], t => by simp [commaSep, restToks]
  | t' :: ts, t => by
    have ih := commaSep_rest off ts t'
    simp only [List.map_cons] at ih
    simp only [List.map_cons, commaSep, restToks, List.append_assoc, List.cons_append, ih]

theorem length_restToks_ge (off : Option Int) : ∀ (ts : List TStride), ts.length + 1 ≤ (restToks off ts).length
  | [] => by simp [restToks, tailToks]
  | t :: ts => by
    have := length_restToks_ge off ts
    simp only [restToks, List.length_cons, List.length_append]
    omega

theorem length_printTStride_gt (t : TStride) (rest : List Tok) : t.length < (printTStride t ++ rest).length := by
  rw [printTStride_append]
  have := length_itemsToks_ge (t.map (·.bound))
  simp only [List.length_map] at this
  simp only [List.length_cons, List.length_append]
  omega

theorem parseLayout_tail (off : Option Int) (acc : List TStride) (f : Nat) :
    parseLayout true (f + 1) (dropComma (tailToks off)) acc = .ok ⟨acc, off⟩ := by
  unfold tailToks
  by_cases h : off = some 0
  · subst h; rfl
  · rw [if_neg h]
    simp only [List.cons_append, dropComma, parseLayout, parseOffset_print]

theorem parseLayout_loop (off : Option Int) : ∀ (ts : List TStride) (t : TStride) (acc : List TStride) (fuel : Nat),
    ts.length + 2 ≤ fuel → (∀ x ∈ t :: ts, PrintableT x) →
    parseLayout true fuel (printTStride t ++ restToks off ts) acc = .ok ⟨acc ++ t :: ts, off⟩
  | ts, t, acc, fuel, hf, hp => by
    obtain ⟨f, rfl⟩ : ∃ f, fuel = f + 1 := ⟨fuel - 1, by omega⟩
    have hpt := parseTStride_print t (printTStride t ++ restToks off ts).length (restToks off ts)
      (hp t (by simp)) (length_printTStride_gt t _)
    have hstep : parseLayout true (f + 1) (printTStride t ++ restToks off ts) acc
        = parseLayout true f (dropComma (restToks off ts)) (acc ++ [t]) := by
      generalize hto : printTStride t ++ restToks off ts = toks at hpt
      rw [printTStride_append] at hto
      subst hto
      simp only [parseLayout, hpt]
    rw [hstep]
    cases ts with
    | nil =>
      obtain ⟨f', rfl⟩ : ∃ f', f = f' + 1 := ⟨f - 1, by simp at hf; omega⟩
      simp only [restToks]
      rw [parseLayout_tail]
    | cons t' ts' =>
      simp only [restToks, dropComma]
      rw [parseLayout_loop off ts' t' (acc ++ [t]) f (by simp at hf ⊢; omega)
        (fun x hx => hp x (by simp at hx ⊢; right; exact hx))]
      simp

/-! ### `from_stride` -/

def prodL : List Nat → Nat
  | [] => 1
  | b :: r => b * prodL r

/-- the steps computed by `from_stride` for inner bounds `r` (outermost first, one more than `r`) -/
def stepsN (st : Nat) : List Nat → List Nat
  | [] => [st]
  | b :: r => (b * (prodL r * st)) :: stepsN st r

/-- `from_stride` on static input -/
def fromStrideS (st : Nat) : List Nat → List SStride
  | [] => []
  | b :: r => ⟨prodL r * st, b⟩ :: fromStrideS st r

theorem prodL_pos (r : List Nat) (h : ∀ b ∈ r, 0 < b) : 0 < prodL r := by
  induction r with
  | nil => simp [prodL]
  | cons b r ih => exact Nat.mul_pos (h b (by simp)) (ih fun x hx => h x (by simp [hx]))

theorem stepsN_head (st : Nat) (r : List Nat) : (stepsN st r).head? = some (prodL r * st) := by
  cases r with
  | nil => simp [stepsN, prodL]
  | cons b r => simp [stepsN, prodL, Nat.mul_assoc]

theorem mulTruthy_pos (b h : Nat) (hb : 0 < b) (hh : 0 < h) : mulTruthy (some b) (some h) = some (b * h) := by
  obtain ⟨b', rfl⟩ : ∃ b', b = b' + 1 := ⟨b - 1, by omega⟩
  obtain ⟨h', rfl⟩ : ∃ h', h = h' + 1 := ⟨h - 1, by omega⟩
  rfl

theorem stepsFrom_static (st : Nat) (hst : 0 < st) : ∀ (r : List Nat), (∀ b ∈ r, 0 < b) →
    stepsFrom (some st) (r.map some) = (stepsN st r).map some
  | [], _ => rfl
  | b :: r, h => by
    have hr : ∀ x ∈ r, 0 < x := fun x hx => h x (by simp [hx])
    have ih := stepsFrom_static st hst r hr
    have hh := stepsN_head st r
    simp only [List.map_cons, stepsFrom, ih, stepsN]
    have : ((stepsN st r).map some).headD none = some (prodL r * st) := by
      cases hs : stepsN st r with
      | nil => simp [hs] at hh
      | cons x xs => simp [hs] at hh ⊢; exact hh
    rw [this, mulTruthy_pos b _ (h b (by simp)) (Nat.mul_pos (prodL_pos r hr) hst)]

theorem zip_stepsN (st : Nat) : ∀ (r : List Nat) (b0 : Nat),
    ((stepsN st r).zip (b0 :: r)).map (fun p => (⟨p.1, p.2⟩ : SStride)) = fromStrideS st (b0 :: r)
  | [], b0 => by simp [stepsN, fromStrideS, prodL]
  | b :: r, b0 => by
    have ih := zip_stepsN st r b
    simp only [stepsN, List.zip_cons_cons, List.map_cons, fromStrideS, prodL, Nat.mul_assoc] at ih ⊢
    rw [ih]

/-- `from_stride(st, tile_bounds)` on static input with positive stride and positive inner bounds -/
theorem fromStride_static (st : Nat) (hst : 0 < st) (tb : List Nat) (h : ∀ b ∈ tb.tail, 0 < b) :
    fromStride (some st) (tb.map some) = (fromStrideS st tb).map SStride.toStride := by
  cases tb with
  | nil => rfl
  | cons b0 r =>
    simp only [List.tail_cons] at h
    rw [← zip_stepsN]
    simp only [fromStride, List.map_cons, List.tail_cons, stepsFrom_static st hst r h]
    rw [show (some b0 :: r.map some) = (b0 :: r).map some from rfl, List.zip_map, List.map_map, List.map_map]
    rfl

theorem prodB_fromStrideS (st : Nat) : ∀ (r : List Nat), prodB (fromStrideS st r) = prodL r
  | [] => rfl
  | b :: r => by simp [fromStrideS, prodB, prodL, prodB_fromStrideS st r]

theorem addrIn_fromStrideS (st : Nat) : ∀ (r : List Nat) (i : Nat),
    addrIn (fromStrideS st r) i = st * (i % prodL r)
  | [], i => by simp [fromStrideS, addrIn, prodL, Nat.mod_one]
  | b :: r, i => by
    simp only [fromStrideS, addrIn, prodB_fromStrideS, addrIn_fromStrideS st r, prodL]
    have h1 : i % (b * prodL r) % prodL r = i % prodL r := Nat.mod_mul_left_mod i b (prodL r)
    have h2 := Nat.div_add_mod (i % (b * prodL r)) (prodL r)
    rw [h1] at h2
    calc prodL r * st * (i % (b * prodL r) / prodL r) + st * (i % prodL r)
        = st * (prodL r * (i % (b * prodL r) / prodL r) + i % prodL r) := by ring
      _ = st * (i % (b * prodL r)) := by rw [h2]

/-- a dimension built by `from_stride` is a plain stride: address = stride · index, for EVERY index -/
theorem addrDim_fromStrideS (st : Nat) (tb : List Nat) (hne : tb ≠ []) (i : Nat) :
    addrDim (fromStrideS st tb) i = st * i := by
  cases tb with
  | nil => exact absurd rfl hne
  | cons b r =>
    simp only [fromStrideS, addrDim, prodB_fromStrideS, addrIn_fromStrideS]
    have h2 := Nat.div_add_mod i (prodL r)
    calc prodL r * st * (i / prodL r) + st * (i % prodL r)
        = st * (prodL r * (i / prodL r) + i % prodL r) := by ring
      _ = st * i := by rw [h2]

theorem bounds_fromStrideS (st : Nat) : ∀ (tb : List Nat),
    ((fromStrideS st tb).map SStride.toStride).map (·.bound) = tb.map some
  | [] => rfl
  | b :: r => by
    have ih := bounds_fromStrideS st r
    simp only [fromStrideS, List.map_cons, SStride.toStride] at ih ⊢
    rw [ih]

theorem fromStrides_static : ∀ (strides : List Nat) (tbs : List (List Nat)),
    (∀ s ∈ strides, 0 < s) → (∀ tb ∈ tbs, ∀ b ∈ tb.tail, 0 < b) →
    ((strides.map some).zip (tbs.map (·.map some))).map (fun p => fromStride p.1 p.2)
      = (List.zipWith fromStrideS strides tbs).map (·.map SStride.toStride)
  | [], _, _, _ => by simp
  | _ :: _, [], _, _ => by simp
  | st :: ss, tb :: tbs, hs, ht => by
    have ih := fromStrides_static ss tbs (fun s h => hs s (by simp [h])) (fun t h => ht t (by simp [h]))
    simp only [List.map_cons, List.zip_cons_cons, List.zipWith_cons_cons]
    rw [ih, fromStride_static st (hs st (by simp)) tb (ht tb (by simp))]

theorem tileBounds_zipWith : ∀ (strides : List Nat) (tbs : List (List Nat)), strides.length = tbs.length →
    ((List.zipWith fromStrideS strides tbs).map (·.map SStride.toStride)).map (·.map (·.bound))
      = tbs.map (·.map some)
  | [], [], _ => rfl
  | [], _ :: _, h => by simp at h
  | _ :: _, [], h => by simp at h
  | st :: ss, tb :: tbs, h => by
    have ih := tileBounds_zipWith ss tbs (by simpa using h)
    simp only [List.zipWith_cons_cons, List.map_cons, bounds_fromStrideS, ih]

theorem addr_zipWith : ∀ (strides : List Nat) (tbs : List (List Nat)) (idx : List Nat),
    strides.length = tbs.length → (∀ tb ∈ tbs, tb ≠ []) →
    addr (List.zipWith fromStrideS strides tbs) idx = dot strides idx
  | [], [], _, _, _ => rfl
  | [], _ :: _, _, h, _ => by simp at h
  | _ :: _, [], _, h, _ => by simp at h
  | st :: ss, tb :: tbs, idx, h, hne => by
    have ih := addr_zipWith ss tbs idx.tail (by simpa using h) (fun t ht => hne t (by simp [ht]))
    simp only [List.zipWith_cons_cons, addr, dot, ih, addrDim_fromStrideS st tb (hne tb (by simp))]

/-! ### bound ops on static layouts -/

theorem mapM_bound_static : ∀ (r : List SStride),
    (r.map SStride.toStride).mapM staticBound = .ok (r.map (·.bound))
  | [] => rfl
  | s :: r => by
    have ih := mapM_bound_static r
    simp only [List.map_cons, List.mapM_cons, ih]
    rfl

theorem boundsDim_static (t : List SStride) (hne : t ≠ []) (d : Nat) :
    boundsDim (t.map SStride.toStride) d = .ok (t.map (·.bound)) := by
  cases t with
  | nil => exact absurd rfl hne
  | cons s r =>
    simp only [List.map_cons, boundsDim, mapM_bound_static r]
    rfl

theorem boundsAt_static : ∀ (s : SLayout) (sh : List Nat), sh.length = s.length → (∀ t ∈ s, t ≠ []) →
    boundsAt (s.map (·.map SStride.toStride)) sh = .ok (s.map (·.map (·.bound)))
  | [], _, _, _ => rfl
  | _ :: _, [], h, _ => by simp at h
  | t :: ts, d :: ds, h, hne => by
    have ih := boundsAt_static ts ds (by simpa using h) (fun t' ht' => hne t' (by simp [ht']))
    simp only [List.map_cons, boundsAt, boundsDim_static t (hne t (by simp)) d, ih]

/-! ### step ops (`get_step_ops`) -/

theorem stepsRev_static (el : Nat) : ∀ (L : List (SStride × Nat)) (dyn : Nat),
    stepsRev el (L.map fun p => (p.1.toStride, p.2)) dyn = L.map fun p => p.1.step * el
  | [], _ => rfl
  | p :: r, dyn => by
    have ih := stepsRev_static el r dyn
    simp only [SStride.toStride] at ih
    simp only [List.map_cons, stepsRev, SStride.toStride, ih]

theorem regroup_map {α : Type} (f : α → Stride) (g : α → Nat) : ∀ (s : List (List α)),
    regroup (s.map (·.map f)) (s.flatten.map g) = s.map (·.map g)
  | [] => rfl
  | t :: ts => by
    simp only [List.map_cons, regroup, List.flatten_cons, List.map_append, List.length_map]
    rw [List.take_left' (by simp), List.drop_left' (by simp), regroup_map f g ts]

theorem regroup_map_steps (f : Nat → Nat) : ∀ (ts : List TStride) (X : List Nat),
    regroup ts (X.map f) = (regroup ts X).map (·.map f)
  | [], _ => rfl
  | t :: ts, X => by
    simp only [regroup, List.map_cons, List.map_take]
    rw [← List.map_drop, regroup_map_steps f ts]

theorem flatten_regroup : ∀ (ts : List TStride) (X : List Nat), X.length = (ts.map List.length).sum →
    (regroup ts X).flatten = X
  | [], X, h => by
    simp at h; simp [regroup, h]
  | t :: ts, X, h => by
    simp only [List.map_cons, List.sum_cons] at h
    simp only [regroup, List.flatten_cons]
    rw [flatten_regroup ts (X.drop t.length) (by simp [List.length_drop]; omega), List.take_append_drop]

theorem length_stepsRev (el : Nat) : ∀ (L : List (Stride × Nat)) (dyn : Nat), (stepsRev el L dyn).length = L.length
  | [], _ => rfl
  | (s, b) :: r, dyn => by
    cases h : s.step <;> simp [stepsRev, h, length_stepsRev el r]

/-- the core of `stepsAt` on a static layout does not depend on the seed of the dynamic chain -/
theorem stepsCore_static (s : SLayout) (el dyn : Nat) :
    regroup (s.map (·.map SStride.toStride))
      (stepsRev el (((s.map (·.map SStride.toStride)).flatten.zip (s.map (·.map (·.bound))).flatten).reverse) dyn).reverse
      = s.map (·.map (·.step * el)) := by
  have h1 : (s.map (·.map SStride.toStride)).flatten = s.flatten.map SStride.toStride := by
    rw [List.map_flatten]
  have h2 : (s.map (·.map (·.bound))).flatten = s.flatten.map (·.bound) := by
    rw [List.map_flatten]
  have h3 : (s.flatten.map SStride.toStride).zip (s.flatten.map (·.bound))
      = (s.flatten.map fun x => (x, x.bound)).map fun p => (p.1.toStride, p.2) := by
    rw [List.zip_map', List.map_map]; rfl
  rw [h1, h2, h3, ← List.map_reverse, stepsRev_static]
  simp only [List.map_reverse, List.reverse_reverse, List.map_map, Function.comp_def]
  exact regroup_map SStride.toStride (fun x => x.step * el) s

theorem strides_ofStatic (s : SLayout) (off : Option Int) :
    (ofStatic s off).strides = (s.map (·.map SStride.toStride)).flatten := rfl

theorem stepsAt_ofStatic (s : SLayout) (off : Option Int) (el : Nat) (hs : s ≠ []) (hne : ∀ t ∈ s, t ≠ []) :
    stepsAt (ofStatic s off) (s.map (·.map (·.bound))) el = .ok (s.map (·.map (·.step * el))) := by
  have hts : (ofStatic s off).ts = s.map (·.map SStride.toStride) := rfl
  have hlen : ((s.map (·.map SStride.toStride)).flatten).length = ((s.map (·.map (·.bound))).flatten).length := by
    simp [List.length_flatten, Function.comp_def]
  have hflat : (s.map (·.map SStride.toStride)).flatten ≠ [] := by
    cases s with
    | nil => exact absurd rfl hs
    | cons t ts =>
      cases t with
      | nil => exact absurd rfl (hne [] (by simp))
      | cons x r => simp
  have h1 : ¬ (s.map (·.map SStride.toStride)) = [] := by
    cases s with
    | nil => exact absurd rfl hs
    | cons t ts => simp
  unfold stepsAt
  simp only [strides_ofStatic, hts, if_neg h1, hlen, ne_eq, not_true_eq_false, if_false, if_neg hflat]
  rcases maxStep _ 0 _ 0 with ⟨p, v⟩
  simp only [stepsCore_static]

/-- bytes = element size × elements, at the level of the right-to-left loop -/
theorem stepsRev_scale (el : Nat) : ∀ (L : List (Stride × Nat)) (dyn : Nat),
    stepsRev el L (dyn * el) = (stepsRev 1 L dyn).map (· * el)
  | [], _ => rfl
  | (s, b) :: r, dyn => by
    cases h : s.step with
    | some st => simp [stepsRev, h, stepsRev_scale el r dyn]
    | none =>
      have := stepsRev_scale el r (dyn * b)
      rw [show dyn * b * el = dyn * el * b by ring] at this
      simp [stepsRev, h, this]

/-- the chain: a static tile gets its literal step; a dynamic tile gets the seed times the extents of the
    dynamic tiles visited before it (to its right / inside it) -/
theorem stepsRev_getElem (el : Nat) : ∀ (L : List (Stride × Nat)) (dyn i : Nat) (s : Stride) (b : Nat),
    L[i]? = some (s, b) →
    (stepsRev el L dyn)[i]? = some (match s.step with
      | some st => st * el
      | none => dyn * dynProd (L.take i))
  | [], _, _, _, _, h => by simp at h
  | (s0, b0) :: r, dyn, 0, s, b, h => by
    simp only [List.getElem?_cons_zero, Option.some.injEq, Prod.mk.injEq] at h
    obtain ⟨rfl, rfl⟩ := h
    cases hs : s0.step <;> simp [stepsRev, hs, dynProd]
  | (s0, b0) :: r, dyn, i + 1, s, b, h => by
    simp only [List.getElem?_cons_succ] at h
    cases hs0 : s0.step with
    | some st0 =>
      have ih := stepsRev_getElem el r dyn i s b h
      simp only [stepsRev, hs0, List.getElem?_cons_succ, ih, List.take_succ_cons, dynProd, Nat.one_mul]
    | none =>
      have ih := stepsRev_getElem el r (dyn * b0) i s b h
      simp only [stepsRev, hs0, List.getElem?_cons_succ, ih, List.take_succ_cons, dynProd, Nat.mul_assoc]

/-- `maxStep` returns the running maximum: at least the initial value and every static step seen -/
theorem maxStep_ge : ∀ (l : List Stride) (pos bp bv : Nat),
    bv ≤ (maxStep l pos bp bv).2 ∧ ∀ x ∈ l, ∀ st, x.step = some st → st ≤ (maxStep l pos bp bv).2
  | [], _, _, _ => by simp [maxStep]
  | s :: r, pos, bp, bv => by
    cases hs : s.step with
    | none =>
      have ih := maxStep_ge r (pos + 1) bp bv
      simp only [maxStep, hs]
      refine ⟨ih.1, ?_⟩
      intro x hx st hst
      rcases List.mem_cons.mp hx with rfl | hx
      · rw [hs] at hst; cases hst
      · exact ih.2 x hx st hst
    | some st0 =>
      simp only [maxStep, hs]
      by_cases hgt : st0 > bv
      · have ih := maxStep_ge r (pos + 1) pos st0
        rw [if_pos hgt]
        refine ⟨by omega, ?_⟩
        intro x hx st hst
        rcases List.mem_cons.mp hx with rfl | hx
        · rw [hs] at hst; cases hst; exact ih.1
        · exact ih.2 x hx st hst
      · have ih := maxStep_ge r (pos + 1) bp bv
        rw [if_neg hgt]
        refine ⟨ih.1, ?_⟩
        intro x hx st hst
        rcases List.mem_cons.mp hx with rfl | hx
        · rw [hs] at hst; cases hst; omega
        · exact ih.2 x hx st hst

/-- … and it is attained: either nothing beat the initial value, or the returned position (relative to the
    start of the list) holds a static step equal to the returned value -/
theorem maxStep_attained : ∀ (l : List Stride) (pos bp bv : Nat),
    (maxStep l pos bp bv = (bp, bv)) ∨
      ∃ j, (maxStep l pos bp bv).1 = pos + j ∧ (l[j]?).bind (·.step) = some (maxStep l pos bp bv).2 ∧
        bv < (maxStep l pos bp bv).2
  | [], _, _, _ => Or.inl rfl
  | s :: r, pos, bp, bv => by
    cases hs : s.step with
    | none =>
      simp only [maxStep, hs]
      rcases maxStep_attained r (pos + 1) bp bv with h | ⟨j, h1, h2, h3⟩
      · exact Or.inl h
      · exact Or.inr ⟨j + 1, by omega, by simpa using h2, h3⟩
    | some st0 =>
      simp only [maxStep, hs]
      by_cases hgt : st0 > bv
      · rw [if_pos hgt]
        rcases maxStep_attained r (pos + 1) pos st0 with h | ⟨j, h1, h2, h3⟩
        · exact Or.inr ⟨0, by simp [h], by simp [h, hs], by rw [h]; exact hgt⟩
        · exact Or.inr ⟨j + 1, by omega, by simpa using h2, by omega⟩
      · rw [if_neg hgt]
        rcases maxStep_attained r (pos + 1) bp bv with h | ⟨j, h1, h2, h3⟩
        · exact Or.inl h
        · exact Or.inr ⟨j + 1, by omega, by simpa using h2, h3⟩

/-! ### bound ops on dimensions with a dynamic outermost bound -/

theorem boundsDim_dynamic (d : DynDim) (hr : ∀ x ∈ d.2, 0 < x.bound) (n : Nat) :
    boundsDim d.toTStride n = .ok (d.boundsFor n) := by
  obtain ⟨st, r⟩ := d
  simp only [DynDim.toTStride, DynDim.boundsFor, boundsDim, mapM_bound_static r]
  have : prodT ({ step := st, bound := none } :: r.map SStride.toStride) = prodB r := by
    simp only [prodT]; exact prodT_static r hr
  rw [this]

theorem boundsAt_dynamic : ∀ (ds : List DynDim) (sh : List Nat), sh.length = ds.length →
    (∀ d ∈ ds, ∀ x ∈ d.2, 0 < x.bound) →
    boundsAt (ds.map DynDim.toTStride) sh = .ok (List.zipWith DynDim.boundsFor ds sh)
  | [], _, _, _ => by simp [boundsAt]
  | _ :: _, [], h, _ => by simp at h
  | d :: ds, n :: sh, h, hp => by
    have ih := boundsAt_dynamic ds sh (by simpa using h) (fun d' hd' => hp d' (by simp [hd']))
    simp only [List.map_cons, boundsAt, boundsDim_dynamic d (hp d (by simp)) n, ih, List.zipWith_cons_cons]

/-- the seed of the dynamic chain: extent at the position of the largest static step × that step × el -/
def seedOf (l : Layout) (bounds : List (List Nat)) (el : Nat) : Nat :=
  bounds.flatten.getD (maxStep l.strides 0 (l.strides.length - 1) 0).1 0 *
    ((maxStep l.strides 0 (l.strides.length - 1) 0).2 * el)

/-- what a successful `stepsAt` returns -/
theorem stepsAt_ok (l : Layout) (bounds : List (List Nat)) (el : Nat) (steps : List (List Nat))
    (h : stepsAt l bounds el = .ok steps) :
    l.strides.length = bounds.flatten.length ∧
      steps = regroup l.ts (stepsRev el (l.strides.zip bounds.flatten).reverse (seedOf l bounds el)).reverse := by
  unfold stepsAt at h
  simp only at h
  split at h
  · cases h
  · split at h
    · cases h
    · rename_i hlen
      split at h
      · cases h
      · refine ⟨by simpa using hlen, ?_⟩
        rcases hm : maxStep l.strides 0 (l.strides.length - 1) 0 with ⟨p, v⟩
        simp only [hm] at h
        injection h with h
        rw [← h, seedOf, hm]

theorem stepsAt_scale (l : Layout) (bounds : List (List Nat)) (el : Nat) :
    stepsAt l bounds el = (stepsAt l bounds 1).map (·.map (·.map (· * el))) := by
  unfold stepsAt
  simp only
  split
  · rfl
  · split
    · rfl
    · split
      · rfl
      · rcases maxStep l.strides 0 (l.strides.length - 1) 0 with ⟨p, v⟩
        simp only [Except.map, Nat.mul_one]
        congr 1
        rw [show bounds.flatten.getD p 0 * (v * el) = bounds.flatten.getD p 0 * v * el by ring, stepsRev_scale,
          ← List.map_reverse, regroup_map_steps]

theorem length_flatten_strides (l : Layout) : l.strides.length = (l.ts.map List.length).sum := by
  simp [Layout.strides, List.length_flatten]

theorem prodL_bounds (r : List SStride) : prodL (r.map (·.bound)) = prodB r := by
  induction r with
  | nil => rfl
  | cons s r ih => simp [prodL, prodB, ih]

end SnaxVerif.Tsl
