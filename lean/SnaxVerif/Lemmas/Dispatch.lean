import SnaxVerif.Model.Dispatch
/-! Helper lemmas for C14 (dispatch-regions). Core Lean only. -/
namespace SnaxVerif.Dispatch

/-- what one phase leaves of the trace of a core: ops selected by the phase only on core `tc` -/
def keep (sel : Leaf → Bool) (tc core : Nat) (l : Leaf) : Bool := !(sel l) || decide (core = tc)

theorem run_ofLeaves (core : Nat) (orc : Orc) (ls : List Leaf) (p : List Nat) :
    runB core orc (ofLeaves ls) p = ls := by
  induction ls with
  | nil => simp [ofLeaves, runB]
  | cons l ls ih => simp [ofLeaves, runB, runO, ih]

theorem run_flush (tc core : Nat) (orc : Orc) (pend : List Leaf) (rest : Blk) (p : List Nat) :
    runB core orc (flush tc pend rest) p =
      (if core = tc then pend.reverse else []) ++ runB core orc rest p := by
  cases pend with
  | nil => simp [flush]
  | cons l ls =>
    simp only [flush, runB, runO, run_ofLeaves]

theorem sched_map_filter (q : Leaf → Bool) (fs : List (List Nat → List Leaf)) :
    ∀ (s : List Nat) (i : Nat) (p : List Nat),
      sched (fs.map (fun f p => (f p).filter q)) s i p = (sched fs s i p).filter q := by
  intro s
  induction s with
  | nil => intro i p; simp [sched]
  | cons r s ih =>
    intro i p
    simp only [sched, List.filter_append, ih]
    congr 1
    simp only [List.getD_eq_getElem?_getD, List.getElem?_map]
    cases fs[r]? <;> simp

theorem filter_keep_of_sel (sel : Leaf → Bool) (tc core : Nat) (ls : List Leaf)
    (h : ∀ l ∈ ls, sel l = true) :
    ls.filter (keep sel tc core) = if core = tc then ls else [] := by
  induction ls with
  | nil => simp
  | cons l ls ih =>
    have hl := h l (by simp)
    have ih' := ih (fun x hx => h x (by simp [hx]))
    by_cases hc : core = tc <;> simp_all [keep]

mutual
/-- one dispatcher call: every core then runs the block with the selected ops kept only on `tc`
    (`pend` = the pending run, which the walk will still guard) -/
theorem goB_spec (sel : Leaf → Bool) (tc core : Nat) (orc : Orc)
    (hsel : ∀ k, sel (regEv k) = false) :
    (b : Blk) → (pend : List Leaf) → (∀ l ∈ pend, sel l = true) → (p : List Nat) →
    runB core orc (goB sel tc b pend) p =
      (if core = tc then pend.reverse else []) ++ (runB core orc b p).filter (keep sel tc core)
  | .nil, pend, _, p => by
      simp [goB, run_flush, runB]
  | .cons (.leaf l) r, pend, h, p => by
      simp only [goB]
      cases hi : l.inner <;> cases hs : sel l <;>
        simp only [Bool.false_eq_true, if_false, if_true, run_flush, runB, runO]
      · rw [goB_spec sel tc core orc hsel r [] (by simp) p]
        simp [keep, hs]
      · rw [goB_spec sel tc core orc hsel r (l :: pend)
              (by intro x hx; simp at hx; rcases hx with rfl | hx; exact hs; exact h x hx) p]
        by_cases hc : core = tc <;> simp [hc, hs, keep]
      · rw [goB_spec sel tc core orc hsel r [] (by simp) p]
        simp [keep, hs]
      · rw [goB_spec sel tc core orc hsel r [l] (by simp [hs]) p]
        by_cases hc : core = tc <;> simp [hc, hs, keep]
  | .cons (.guard c b) r, pend, _, p => by
      simp only [goB, run_flush, runB, runO]
      rw [goB_spec sel tc core orc hsel r [] (by simp) p]
      by_cases hc : core = c
      · simp only [hc, if_true]
        rw [← hc, goB_spec sel tc core orc hsel b [] (by simp) p]
        simp [List.filter_append]
      · simp [hc]
  | .cons (.reg k kind rs) r, pend, _, p => by
      simp only [goB, run_flush, runB, runO]
      rw [goB_spec sel tc core orc hsel r [] (by simp) p, goRs_spec sel tc core orc hsel rs,
        sched_map_filter]
      simp [List.filter_append, keep, hsel]
theorem goRs_spec (sel : Leaf → Bool) (tc core : Nat) (orc : Orc)
    (hsel : ∀ k, sel (regEv k) = false) :
    (rs : Regs) →
    runRs core orc (goRs sel tc rs) =
      (runRs core orc rs).map (fun f p => (f p).filter (keep sel tc core))
  | .nil => by simp [goRs, runRs]
  | .cons b rs => by
      simp only [goRs, runRs, List.map_cons]
      rw [goRs_spec sel tc core orc hsel rs]
      congr 1
      funext p
      simpa using goB_spec sel tc core orc hsel b [] (by simp) p
end

theorem dmOf_regEv (k : Nat) : dmOf (regEv k) = false := rfl
theorem cpOf_regEv (r : Bool) (k : Nat) : cpOf r (regEv k) = false := by cases r <;> rfl

/-- a whole dispatcher call on a block -/
theorem goB_run (sel : Leaf → Bool) (tc core : Nat) (orc : Orc)
    (hsel : ∀ k, sel (regEv k) = false) (b : Blk) (p : List Nat) :
    runB core orc (goB sel tc b []) p = (runB core orc b p).filter (keep sel tc core) := by
  simpa using goB_spec sel tc core orc hsel b [] (by simp) p

/-! blocks of a function -/

theorem phaseBlocks_get (sel : Leaf → Bool) (tc : Nat) :
    ∀ (bs : List BB) (i : Nat),
      (phaseBlocks true sel tc bs)[i]? = (bs[i]?).map (fun bb => ⟨goB sel tc bb.body [], bb.term⟩) := by
  intro bs
  induction bs with
  | nil => intro i; simp [phaseBlocks]
  | cons bb rest ih =>
    intro i
    cases i with
    | zero => simp [phaseBlocks]
    | succ i => simp [phaseBlocks, ih]

theorem runBlocks_phase (sel : Leaf → Bool) (tc core : Nat) (orc : Orc)
    (hsel : ∀ k, sel (regEv k) = false) (bs : List BB) :
    ∀ (fuel cur : Nat),
      runBlocks core orc (phaseBlocks true sel tc bs) fuel cur =
        (runBlocks core orc bs fuel cur).filter (keep sel tc core) := by
  intro fuel
  induction fuel with
  | zero => intro cur; simp [runBlocks]
  | succ n ih =>
    intro cur
    simp only [runBlocks, phaseBlocks_get]
    cases hb : bs[cur]? with
    | none => simp
    | some bb =>
      simp only [Option.map_some, List.filter_append, goB_run sel tc core orc hsel]
      congr 1
      cases bb.term with
      | ret => simp
      | br t => simp [ih]
      | cbr k t e => simp only [ih]; split <;> rfl

theorem keep_keep (r : Bool) (nb core : Nat) (l : Leaf) :
    (keep dmOf (nb - 1) core l && keep (cpOf r) 0 core l) = allowed r nb core l := by
  simp [keep, allowed]

theorem findSome_prelude (nb : Nat) (a b : Bool) (rest : List Pre) :
    (prelude nb a b ++ rest).findSome? pinnedVal = rest.findSome? pinnedVal := by
  cases a <;> cases b <;> simp [prelude, List.findSome?_cons, pinnedVal]

theorem coreOf_dispatch (r fixed : Bool) (nb : Nat) (f : Func) (core : Nat) :
    coreOf (dispatch r fixed nb f) core = coreOf f core := by
  simp only [coreOf, dispatch, findSome_prelude]

mutual
theorem mem_runO_any (sel : Leaf → Bool) (core : Nat) (orc : Orc) (l : Leaf) (hl : sel l = true) :
    (o : Op) → (p : List Nat) → l ∈ runO core orc o p → (∀ k, sel (regEv k) = false) → anyO sel o = true
  | .leaf x, p, h, _ => by
      simp [runO] at h; subst h; simpa [anyO] using hl
  | .guard c b, p, h, hs => by
      simp only [runO] at h
      by_cases hc : core = c
      · simp only [hc, if_true] at h
        simp only [anyO]
        exact mem_runB_any sel core orc l hl b p (by rw [hc]; exact h) hs
      · simp [hc] at h
  | .reg k kind rs, p, h, hs => by
      simp only [runO, List.mem_cons] at h
      rcases h with h | h
      · subst h; simp [hs] at hl
      · simp only [anyO]
        exact mem_sched_any sel core orc l hl rs (orc k kind p) 0 p h hs
theorem mem_runB_any (sel : Leaf → Bool) (core : Nat) (orc : Orc) (l : Leaf) (hl : sel l = true) :
    (b : Blk) → (p : List Nat) → l ∈ runB core orc b p → (∀ k, sel (regEv k) = false) → anyB sel b = true
  | .nil, p, h, _ => by simp [runB] at h
  | .cons o r, p, h, hs => by
      simp only [runB, List.mem_append] at h
      simp only [anyB, Bool.or_eq_true]
      rcases h with h | h
      · exact Or.inl (mem_runO_any sel core orc l hl o p h hs)
      · exact Or.inr (mem_runB_any sel core orc l hl r p h hs)
theorem mem_sched_any (sel : Leaf → Bool) (core : Nat) (orc : Orc) (l : Leaf) (hl : sel l = true) :
    (rs : Regs) → (s : List Nat) → (i : Nat) → (p : List Nat) →
      l ∈ sched (runRs core orc rs) s i p → (∀ k, sel (regEv k) = false) → anyRs sel rs = true
  | .nil, s, i, p, h, _ => by
      exfalso
      induction s generalizing i with
      | nil => simp [sched] at h
      | cons r s ih =>
        simp only [sched, runRs, List.mem_append] at h
        rcases h with h | h
        · simp at h
        · exact ih (i + 1) h
  | .cons b rs, s, i, p, h, hs => by
      simp only [anyRs, Bool.or_eq_true]
      induction s generalizing i with
      | nil => simp [sched] at h
      | cons r s ih =>
        simp only [sched, List.mem_append] at h
        rcases h with h | h
        · cases r with
          | zero =>
            simp only [runRs, List.getD_cons_zero] at h
            exact Or.inl (mem_runB_any sel core orc l hl b (i :: p) h hs)
          | succ r =>
            simp only [runRs, List.getD_cons_succ] at h
            have : l ∈ sched (runRs core orc rs) [r] i p := by
              simp only [sched, List.mem_append]; exact Or.inl h
            exact Or.inr (mem_sched_any sel core orc l hl rs [r] i p this hs)
        · exact ih (i + 1) h
end

theorem mem_runBlocks_changed (sel : Leaf → Bool) (core : Nat) (orc : Orc) (l : Leaf)
    (hl : sel l = true) (hs : ∀ k, sel (regEv k) = false) (bs : List BB) :
    ∀ (fuel cur : Nat), l ∈ runBlocks core orc bs fuel cur → changedBlocks sel bs = true := by
  intro fuel
  induction fuel with
  | zero => intro cur h; simp [runBlocks] at h
  | succ n ih =>
    intro cur h
    simp only [runBlocks] at h
    cases hb : bs[cur]? with
    | none => simp [hb] at h
    | some bb =>
      simp only [hb, List.mem_append] at h
      rcases h with h | h
      · simp only [changedBlocks, List.any_eq_true]
        exact ⟨bb, List.mem_of_getElem? hb, mem_runB_any sel core orc l hl bb.body [n] h hs⟩
      · cases ht : bb.term with
        | ret => simp [ht] at h
        | br t => simp only [ht] at h; exact ih t h
        | cbr k t e =>
          simp only [ht] at h
          split at h
          · exact ih t h
          · exact ih e h

/-! ## structure of the output: the pass only adds guards, and which guards

`stripB` erases every guard (its body stays in place); `labB gs` lists the leaves (and region ops) of a
block in program order, each with the stack of guard cores around it (`gs` = the stack outside). -/

def appB : Blk → Blk → Blk
  | .nil, b => b
  | .cons o r, b => .cons o (appB r b)

mutual
def stripO : Op → Blk
  | .leaf l => .cons (.leaf l) .nil
  | .guard _ b => stripB b
  | .reg k kind rs => .cons (.reg k kind (stripRs rs)) .nil
def stripB : Blk → Blk
  | .nil => .nil
  | .cons o r => appB (stripO o) (stripB r)
def stripRs : Regs → Regs
  | .nil => .nil
  | .cons b rs => .cons (stripB b) (stripRs rs)
end

mutual
def labO (gs : List Nat) : Op → List (Leaf × List Nat)
  | .leaf l => [(l, gs)]
  | .guard c b => labB (gs ++ [c]) b
  | .reg k _ rs => (regEv k, gs) :: labRs gs rs
def labB (gs : List Nat) : Blk → List (Leaf × List Nat)
  | .nil => []
  | .cons o r => labO gs o ++ labB gs r
def labRs (gs : List Nat) : Regs → List (Leaf × List Nat)
  | .nil => []
  | .cons b rs => labB gs b ++ labRs gs rs
end

/-- one phase appends its core to the guard stack of exactly the selected leaves -/
def relab (sel : Leaf → Bool) (tc : Nat) (x : Leaf × List Nat) : Leaf × List Nat :=
  (x.1, if sel x.1 then x.2 ++ [tc] else x.2)

theorem appB_nil : (b : Blk) → appB b .nil = b
  | .nil => rfl
  | .cons o r => by simp [appB, appB_nil r]

theorem appB_assoc : (a b c : Blk) → appB (appB a b) c = appB a (appB b c)
  | .nil, _, _ => rfl
  | .cons o r, b, c => by simp [appB, appB_assoc r b c]

theorem strip_ofLeaves (ls : List Leaf) : stripB (ofLeaves ls) = ofLeaves ls := by
  induction ls with
  | nil => rfl
  | cons l ls ih => simp [ofLeaves, stripB, stripO, appB, ih]

theorem ofLeaves_append (a b : List Leaf) : ofLeaves (a ++ b) = appB (ofLeaves a) (ofLeaves b) := by
  induction a with
  | nil => rfl
  | cons l ls ih => simp [ofLeaves, appB, ih]

theorem strip_flush (tc : Nat) (pend : List Leaf) (rest : Blk) :
    stripB (flush tc pend rest) = appB (ofLeaves pend.reverse) (stripB rest) := by
  cases pend with
  | nil => simp [flush, ofLeaves, appB]
  | cons l ls => simp only [flush, stripB, stripO, strip_ofLeaves]

mutual
theorem strip_goB (sel : Leaf → Bool) (tc : Nat) :
    (b : Blk) → (pend : List Leaf) →
    stripB (goB sel tc b pend) = appB (ofLeaves pend.reverse) (stripB b)
  | .nil, pend => by simp [goB, strip_flush, stripB]
  | .cons (.leaf l) r, pend => by
      simp only [goB]
      cases hi : l.inner <;> cases hs : sel l <;>
        simp only [Bool.false_eq_true, if_false, if_true, strip_flush, stripB, stripO]
      · rw [strip_goB sel tc r []]; simp [ofLeaves, appB]
      · rw [strip_goB sel tc r (l :: pend)]
        simp [ofLeaves_append, ofLeaves, appB, appB_assoc]
      · rw [strip_goB sel tc r []]; simp [ofLeaves, appB]
      · rw [strip_goB sel tc r [l]]; simp [ofLeaves, appB]
  | .cons (.guard c b) r, pend => by
      simp only [goB, strip_flush, stripB, stripO]
      rw [strip_goB sel tc b [], strip_goB sel tc r []]
      simp [ofLeaves, appB]
  | .cons (.reg k kind rs) r, pend => by
      simp only [goB, strip_flush, stripB, stripO]
      rw [strip_goRs sel tc rs, strip_goB sel tc r []]
      simp [ofLeaves, appB]
theorem strip_goRs (sel : Leaf → Bool) (tc : Nat) :
    (rs : Regs) → stripRs (goRs sel tc rs) = stripRs rs
  | .nil => by simp [goRs]
  | .cons b rs => by
      simp only [goRs, stripRs]
      rw [strip_goB sel tc b [], strip_goRs sel tc rs]
      simp [ofLeaves, appB]
end

theorem lab_ofLeaves (gs : List Nat) (ls : List Leaf) : labB gs (ofLeaves ls) = ls.map (fun l => (l, gs)) := by
  induction ls with
  | nil => rfl
  | cons l ls ih => simp [ofLeaves, labB, labO, ih]

theorem lab_flush (gs : List Nat) (tc : Nat) (pend : List Leaf) (rest : Blk) :
    labB gs (flush tc pend rest) = pend.reverse.map (fun l => (l, gs ++ [tc])) ++ labB gs rest := by
  cases pend with
  | nil => simp [flush]
  | cons l ls => simp only [flush, labB, labO, lab_ofLeaves]

mutual
theorem lab_goB (sel : Leaf → Bool) (tc : Nat) (hsel : ∀ k, sel (regEv k) = false) :
    (b : Blk) → (gs : List Nat) → (pend : List Leaf) → (∀ l ∈ pend, sel l = true) →
    labB gs (goB sel tc b pend) =
      pend.reverse.map (fun l => (l, gs ++ [tc])) ++ (labB gs b).map (relab sel tc)
  | .nil, gs, pend, _ => by simp [goB, lab_flush, labB]
  | .cons (.leaf l) r, gs, pend, h => by
      simp only [goB]
      cases hi : l.inner <;> cases hs : sel l <;>
        simp only [Bool.false_eq_true, if_false, if_true, lab_flush, labB, labO]
      · rw [lab_goB sel tc hsel r gs [] (by simp)]; simp [relab, hs]
      · rw [lab_goB sel tc hsel r gs (l :: pend)
              (by intro x hx; simp at hx; rcases hx with rfl | hx; exact hs; exact h x hx)]
        simp [relab, hs]
      · rw [lab_goB sel tc hsel r gs [] (by simp)]; simp [relab, hs]
      · rw [lab_goB sel tc hsel r gs [l] (by simp [hs])]; simp [relab, hs]
  | .cons (.guard c b) r, gs, pend, _ => by
      simp only [goB, lab_flush, labB, labO]
      rw [lab_goB sel tc hsel b (gs ++ [c]) [] (by simp), lab_goB sel tc hsel r gs [] (by simp)]
      simp
  | .cons (.reg k kind rs) r, gs, pend, _ => by
      simp only [goB, lab_flush, labB, labO]
      rw [lab_goRs sel tc hsel rs gs, lab_goB sel tc hsel r gs [] (by simp)]
      simp [relab, hsel]
theorem lab_goRs (sel : Leaf → Bool) (tc : Nat) (hsel : ∀ k, sel (regEv k) = false) :
    (rs : Regs) → (gs : List Nat) →
    labRs gs (goRs sel tc rs) = (labRs gs rs).map (relab sel tc)
  | .nil, gs => by simp [goRs, labRs]
  | .cons b rs, gs => by
      simp only [goRs, labRs]
      rw [lab_goB sel tc hsel b gs [] (by simp), lab_goRs sel tc hsel rs gs]
      simp
end

theorem phaseBlocks_map (sel : Leaf → Bool) (tc : Nat) (bs : List BB) :
    phaseBlocks true sel tc bs = bs.map (fun bb => ⟨goB sel tc bb.body [], bb.term⟩) := by
  induction bs with
  | nil => rfl
  | cons bb rest ih => simp [phaseBlocks, ih]

/-- the guards the two phases put around a leaf, outermost first -/
def guardsFor (r : Bool) (nb : Nat) (l : Leaf) : List Nat :=
  (if dmOf l then [nb - 1] else []) ++ (if cpOf r l then [0] else [])

/-! leaves listed by `labB` are leaves of the block -/

mutual
theorem mem_labO_any (sel : Leaf → Bool) (l : Leaf) (hl : sel l = true) (hs : ∀ k, sel (regEv k) = false) :
    (o : Op) → (gs g : List Nat) → (l, g) ∈ labO gs o → anyO sel o = true
  | .leaf x, gs, g, h => by
      simp only [labO, List.mem_singleton, Prod.mk.injEq] at h
      rw [← h.1]; simpa [anyO] using hl
  | .guard c b, gs, g, h => by
      simp only [labO] at h
      simp only [anyO]
      exact mem_labB_any sel l hl hs b _ g h
  | .reg k kind rs, gs, g, h => by
      simp only [labO, List.mem_cons, Prod.mk.injEq] at h
      rcases h with h | h
      · rw [h.1, hs] at hl; cases hl
      · simp only [anyO]
        exact mem_labRs_any sel l hl hs rs gs g h
theorem mem_labB_any (sel : Leaf → Bool) (l : Leaf) (hl : sel l = true) (hs : ∀ k, sel (regEv k) = false) :
    (b : Blk) → (gs g : List Nat) → (l, g) ∈ labB gs b → anyB sel b = true
  | .nil, gs, g, h => by simp [labB] at h
  | .cons o r, gs, g, h => by
      simp only [labB, List.mem_append] at h
      simp only [anyB, Bool.or_eq_true]
      rcases h with h | h
      · exact Or.inl (mem_labO_any sel l hl hs o gs g h)
      · exact Or.inr (mem_labB_any sel l hl hs r gs g h)
theorem mem_labRs_any (sel : Leaf → Bool) (l : Leaf) (hl : sel l = true) (hs : ∀ k, sel (regEv k) = false) :
    (rs : Regs) → (gs g : List Nat) → (l, g) ∈ labRs gs rs → anyRs sel rs = true
  | .nil, gs, g, h => by simp [labRs] at h
  | .cons b rs, gs, g, h => by
      simp only [labRs, List.mem_append] at h
      simp only [anyRs, Bool.or_eq_true]
      rcases h with h | h
      · exact Or.inl (mem_labB_any sel l hl hs b gs g h)
      · exact Or.inr (mem_labRs_any sel l hl hs rs gs g h)
end

/-- one phase keeps the leaves: a leaf of the block is still listed after the phase (with relabelled guards) -/
theorem mem_lab_goB (sel : Leaf → Bool) (tc : Nat) (hsel : ∀ k, sel (regEv k) = false) (b : Blk)
    (l : Leaf) (g : List Nat) (h : (l, g) ∈ labB [] b) :
    ∃ g', (l, g') ∈ labB [] (goB sel tc b []) := by
  rw [lab_goB sel tc hsel b [] [] (by simp)]
  simp only [List.reverse_nil, List.map_nil, List.nil_append, List.mem_map]
  exact ⟨_, (l, g), h, rfl⟩

end SnaxVerif.Dispatch
