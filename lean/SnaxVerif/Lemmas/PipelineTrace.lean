import SnaxVerif.Model.Pipeline
/-! Reordering of independent events (C15): two executions of the same events that agree on the relative order of
every pair of non-commuting events end in the same memory. -/
namespace SnaxVerif.Pipeline

section Generic
variable {E M : Type} (stp : E → M → M)

def runL (l : List E) (m : M) : M := l.foldl (fun m e => stp e m) m

def Comm (a b : E) : Prop := ∀ m, stp a (stp b m) = stp b (stp a m)

theorem runL_move_front (a : E) (r : List E) :
    ∀ (p : List E) (m : M), (∀ b ∈ p, Comm stp a b) → runL stp (p ++ a :: r) m = runL stp (a :: (p ++ r)) m
  | [], _, _ => rfl
  | b :: p, m, h => by
    have ih := runL_move_front a r p (stp b m) (fun c hc => h c (List.mem_cons_of_mem _ hc))
    simp only [runL, List.cons_append, List.foldl_cons] at ih ⊢
    rw [ih, h b List.mem_cons_self m]

theorem runL_perm : ∀ (l1 l2 : List E), l1.Nodup → l1.Perm l2 →
    (∀ a b, [a, b].Sublist l1 → [b, a].Sublist l2 → Comm stp a b) → ∀ m, runL stp l1 m = runL stp l2 m
  | [], l2, _, hp, _, m => by rw [List.Perm.eq_nil (hp.symm)]
  | a :: l1, l2, hnd, hp, h, m => by
    have ha : a ∈ l2 := hp.subset List.mem_cons_self
    obtain ⟨p, r, rfl⟩ := List.append_of_mem ha
    have hnd2 : (p ++ a :: r).Nodup := hp.nodup_iff.mp hnd
    have hcomm : ∀ b ∈ p, Comm stp a b := by
      intro b hb
      have hba : b ≠ a := by
        rintro rfl
        have := (List.nodup_append.mp hnd2).2.2 b hb b List.mem_cons_self
        exact this rfl
      have hb1 : b ∈ l1 := by
        have : b ∈ a :: l1 := hp.symm.subset (List.mem_append_left _ hb)
        rcases List.mem_cons.mp this with h' | h'
        · exact absurd h' hba
        · exact h'
      apply h a b
      · exact List.Sublist.cons_cons a (List.singleton_sublist.mpr hb1)
      · exact List.Sublist.append (List.singleton_sublist.mpr hb) (List.Sublist.cons_cons a (List.nil_sublist r))
    rw [runL_move_front stp a r p m hcomm]
    have hp' : l1.Perm (p ++ r) := (hp.trans List.perm_middle).cons_inv
    have ih := runL_perm l1 (p ++ r) (List.nodup_cons.mp hnd).2 hp'
      (fun x y h1 h2 => h x y (List.Sublist.cons a h1)
        (h2.trans ((List.sublist_cons_self a r).append_left p))) (stp a m)
    simpa [runL] using ih
end Generic

/-! ## independence of events of the symbolic machine -/

def Indep (p : Prog) (dbl : Bool) (a b : Ev) : Prop :=
  (∀ x ∈ p.writes dbl a, x ∉ p.writes dbl b ∧ x ∉ p.reads dbl b) ∧ (∀ x ∈ p.writes dbl b, x ∉ p.reads dbl a)

theorem readVals_congr {m m' : Mem} : ∀ (rs : List Loc), (∀ r ∈ rs, m r = m' r) → readVals rs m = readVals rs m'
  | [], _ => rfl
  | r :: rs, h => by
    simp only [readVals, List.foldr_cons]
    rw [h r List.mem_cons_self]
    have := readVals_congr rs (fun x hx => h x (List.mem_cons_of_mem _ hx))
    simp only [readVals] at this
    rw [this]

theorem step_of_not_mem {p : Prog} {dbl : Bool} {e : Ev} {m : Mem} {x : Loc} (h : x ∉ p.writes dbl e) :
    step p dbl e m x = m x := by simp [step, h]

theorem step_comm {p : Prog} {dbl : Bool} {a b : Ev} (h : Indep p dbl a b) : Comm (step p dbl) a b := by
  intro m
  funext x
  by_cases ha : x ∈ p.writes dbl a
  · have hb : x ∉ p.writes dbl b := (h.1 x ha).1
    rw [step_of_not_mem hb]
    simp only [step, ha, if_true]
    congr 1
    apply readVals_congr
    intro r hr
    apply step_of_not_mem
    intro hw
    exact h.2 r hw hr
  · rw [step_of_not_mem ha]
    by_cases hb : x ∈ p.writes dbl b
    · simp only [step, hb, if_true]
      congr 1
      apply readVals_congr
      intro r hr
      symm
      apply step_of_not_mem
      intro hw
      exact (h.1 r hw).2 hr
    · rw [step_of_not_mem hb, step_of_not_mem hb, step_of_not_mem ha]

theorem exec_eq_runL (p : Prog) (dbl : Bool) (l : List Ev) (m : Mem) : exec p dbl l m = runL (step p dbl) l m := rfl

end SnaxVerif.Pipeline
