import SnaxVerif.Lemmas.AccfgFrame
/-! MergeSetupOps preserves the machine state (C01). -/
namespace SnaxVerif.Accfg

variable (cfg : Cfg)

/-- what `mergeScan` found, as a decomposition of the block -/
theorem mergeScan_spec (a : AccId) : ∀ (l : List Stmt) (i : Nat) (cand : Option (List Stmt × List (Field × Var)))
    (mid seen : List Stmt) (pre : List Stmt) (fs1 : List (Field × Var)) (mid' : List Stmt)
    (fs2 : List (Field × Var)) (rest : List Stmt),
    mergeScan a l i cand mid seen = some (pre, fs1, mid', fs2, rest) →
    (∀ cpre cfs, cand = some (cpre, cfs) →
        seen.reverse = cpre.reverse ++ [.setup a cfs] ++ mid.reverse ∧ ∀ m ∈ mid, sefS m = true) →
    seen.reverse ++ l = pre ++ [.setup a fs1] ++ mid' ++ [.setup a fs2] ++ rest ∧ ∀ m ∈ mid', sefS m = true
  | [], i, cand, mid, seen, pre, fs1, mid', fs2, rest, h, _ => by
      cases i <;> simp [mergeScan] at h
  | s :: l, 0, cand, mid, seen, pre, fs1, mid', fs2, rest, h, hc => by
      cases s with
      | setup a' fs =>
        cases cand with
        | none => simp [mergeScan] at h
        | some c =>
          obtain ⟨cpre, cfs⟩ := c
          simp only [mergeScan] at h
          split at h
          · next ha =>
            subst ha
            injection h with h
            simp only [Prod.mk.injEq] at h
            obtain ⟨rfl, rfl, rfl, rfl, rfl⟩ := h
            obtain ⟨h1, h2⟩ := hc cpre cfs rfl
            refine ⟨?_, ?_⟩
            · rw [h1]; simp
            · intro m hm; exact h2 m (by simpa using hm)
          · cases h
      | _ => cases cand <;> simp [mergeScan] at h
  | s :: l, i+1, cand, mid, seen, pre, fs1, mid', fs2, rest, h, hc => by
      cases s with
      | setup a' fs =>
        simp only [mergeScan] at h
        split at h
        · next ha =>
          subst ha
          have := mergeScan_spec a' l i (some (seen, fs)) [] (.setup a' fs :: seen) pre fs1 mid' fs2 rest h
            (by intro cpre cfs hcc; cases hcc; simp)
          simpa using this
        · have := mergeScan_spec a l i none [] (.setup a' fs :: seen) pre fs1 mid' fs2 rest h
            (by intro cpre cfs hcc; cases hcc)
          simpa using this
      | ghost a' fs =>
        simp only [mergeScan, sefS] at h
        have := mergeScan_spec a l i none [] (.ghost a' fs :: seen) pre fs1 mid' fs2 rest (by simpa using h)
          (by intro cpre cfs hcc; cases hcc)
        simpa using this
      | launch a' lv =>
        simp only [mergeScan, sefS] at h
        have := mergeScan_spec a l i none [] (.launch a' lv :: seen) pre fs1 mid' fs2 rest (by simpa using h)
          (by intro cpre cfs hcc; cases hcc)
        simpa using this
      | await a' =>
        simp only [mergeScan, sefS] at h
        have := mergeScan_spec a l i none [] (.await a' :: seen) pre fs1 mid' fs2 rest (by simpa using h)
          (by intro cpre cfs hcc; cases hcc)
        simpa using this
      | call t e =>
        simp only [mergeScan, sefS] at h
        have := mergeScan_spec a l i none [] (.call t e :: seen) pre fs1 mid' fs2 rest (by simpa using h)
          (by intro cpre cfs hcc; cases hcc)
        simpa using this
      | pure d op args =>
        simp only [mergeScan, sefS, if_true] at h
        have := mergeScan_spec a l i cand (.pure d op args :: mid) (.pure d op args :: seen) pre fs1 mid' fs2 rest h
          (by
            intro cpre cfs hcc
            obtain ⟨h1, h2⟩ := hc cpre cfs hcc
            refine ⟨by simp [h1], ?_⟩
            intro m hm
            rcases List.mem_cons.mp hm with rfl | hm
            · simp [sefS]
            · exact h2 m hm)
        simpa using this
      | ifS c t e =>
        simp only [mergeScan] at h
        split at h
        · next hsef =>
          have := mergeScan_spec a l i cand (.ifS c t e :: mid) (.ifS c t e :: seen) pre fs1 mid' fs2 rest h
            (by
              intro cpre cfs hcc
              obtain ⟨h1, h2⟩ := hc cpre cfs hcc
              refine ⟨by simp [h1], ?_⟩
              intro m hm
              rcases List.mem_cons.mp hm with rfl | hm
              · exact hsef
              · exact h2 m hm)
          simpa using this
        · have := mergeScan_spec a l i none [] (.ifS c t e :: seen) pre fs1 mid' fs2 rest h
            (by intro cpre cfs hcc; cases hcc)
          simpa using this
      | forS lb ub st iv b =>
        simp only [mergeScan] at h
        split at h
        · next hsef =>
          have := mergeScan_spec a l i cand (.forS lb ub st iv b :: mid) (.forS lb ub st iv b :: seen) pre fs1 mid' fs2 rest h
            (by
              intro cpre cfs hcc
              obtain ⟨h1, h2⟩ := hc cpre cfs hcc
              refine ⟨by simp [h1], ?_⟩
              intro m hm
              rcases List.mem_cons.mp hm with rfl | hm
              · exact hsef
              · exact h2 m hm)
          simpa using this
        · have := mergeScan_spec a l i none [] (.forS lb ub st iv b :: seen) pre fs1 mid' fs2 rest h
            (by intro cpre cfs hcc; cases hcc)
          simpa using this

theorem lookup_map_val {β : Type} (g : Field × Var → β) : ∀ (l : List (Field × Var)) (f : Field),
    (l.map (fun p => (p.1, g p))).lookup f = (l.find? (fun p => f == p.1)).map g
  | [], f => rfl
  | (k, v) :: r, f => by
      simp only [List.map_cons, List.lookup_cons, List.find?_cons]
      cases hfk : (f == k) <;> simp [lookup_map_val g r f]

theorem lookup_eq_find (l : List (Field × Var)) (f : Field) :
    l.lookup f = (l.find? (fun p => f == p.1)).map (·.2) := by
  induction l with
  | nil => rfl
  | cons p r ih =>
    obtain ⟨k, v⟩ := p
    simp only [List.lookup_cons, List.find?_cons]
    cases hfk : (f == k) <;> simp [ih]

theorem lookup_filter_notin (keys : List Field) : ∀ (l : List (Field × Var)) (f : Field),
    (l.filter (fun p => !keys.contains p.1)).lookup f = if keys.contains f then none else l.lookup f
  | [], f => by simp
  | (k, v) :: r, f => by
      have ih := lookup_filter_notin keys r f
      by_cases hk : keys.contains k
      · simp only [List.filter_cons, hk, Bool.not_true, Bool.false_eq_true, if_false, ih, List.lookup_cons]
        by_cases hfk : f = k
        · subst hfk; simp only [hk, if_true]
        · have : (f == k) = false := by simpa using hfk
          simp [this]
      · simp only [List.filter_cons, hk, Bool.not_false, if_true, List.lookup_cons, ih]
        by_cases hfk : f = k
        · subst hfk; simp only [hk, beq_self_eq_true]; simp
        · have : (f == k) = false := by simpa using hfk
          simp [this]

theorem lookup_none_of_not_contains (l : List (Field × Var)) (f : Field)
    (h : (l.map (·.1)).contains f = false) : l.lookup f = none := by
  rw [List.lookup_eq_none_iff]
  intro p hp
  have : f ∉ l.map (·.1) := by simpa using h
  have hne : f ≠ p.1 := fun e => this (by rw [e]; exact List.mem_map_of_mem hp)
  simpa using hne

theorem contains_of_lookup_some (l : List (Field × Var)) (f : Field) (y : Var) (h : l.lookup f = some y) :
    (l.map (·.1)).contains f = true := by
  obtain ⟨l1, l2, hl, _⟩ := List.lookup_eq_some_iff.mp h
  simp [hl]

theorem lookup_mergeFields (fs1 fs2 : List (Field × Var)) (f : Field) :
    (mergeFields fs1 fs2).lookup f = match fs1.lookup f with
      | some y => some ((fs2.lookup f).getD y)
      | none => fs2.lookup f := by
  unfold mergeFields
  rw [List.lookup_append, lookup_map_val, lookup_filter_notin]
  rw [lookup_eq_find fs1 f]
  cases hfind : fs1.find? (fun p => f == p.1) with
  | none =>
    simp only [Option.map_none, Option.none_or]
    have hl : fs1.lookup f = none := by rw [lookup_eq_find, hfind]; rfl
    have : (fs1.map (·.1)).contains f = false := by
      cases hc : (fs1.map (·.1)).contains f with
      | false => rfl
      | true =>
        exfalso
        have hm : f ∈ fs1.map (·.1) := by simpa using hc
        obtain ⟨p, hp, hpf⟩ := List.mem_map.mp hm
        have := List.find?_eq_none.mp hfind p hp
        simp [hpf] at this
    rw [this]; simp [hl]
  | some p =>
    have hpf : f = p.1 := by
      have := List.find?_some hfind
      simpa using this
    simp [Option.map_some, Option.some_or, hpf]

theorem setRegs_merge (R : Regs) (env env' : Env) (a : AccId) (fs1 fs2 : List (Field × Var))
    (henv : ∀ y ∈ fs1.map (·.2), env' y = env y) :
    setRegs (setRegs R env a fs1) env' a fs2 = setRegs R env' a (mergeFields fs1 fs2) := by
  funext a' f
  simp only [setRegs]
  split
  · rw [lookup_mergeFields]
    cases h1 : fs1.lookup f with
    | none => rfl
    | some y =>
      have hy : y ∈ fs1.map (·.2) := by
        obtain ⟨l1, l2, hl, _⟩ := List.lookup_eq_some_iff.mp h1
        simp [hl]
      cases h2 : fs2.lookup f with
      | none => simp [henv y hy]
      | some x => simp
  · rfl

theorem defsB_ofList_append (l1 l2 : List Stmt) :
    defsB (Block.ofList (l1 ++ l2)) = defsB (Block.ofList l1) ++ defsB (Block.ofList l2) := by
  induction l1 with
  | nil => simp [Block.ofList, defsB]
  | cons s r ih => simp [Block.ofList, defsB, ih]

theorem wfB_split : ∀ (l1 : List Stmt) (s : Stmt) (l2 : List Stmt), wfB (Block.ofList (l1 ++ s :: l2)) = true →
    ∀ x ∈ usesS s, x ∉ defsB (Block.ofList l2)
  | [], s, l2, h => (wfB_cons (by simpa [Block.ofList] using h)).2.2
  | t :: l1, s, l2, h => wfB_split l1 s l2 (wfB_cons (by simpa [Block.ofList] using h)).2.1

theorem sefB_ofList (l : List Stmt) (h : ∀ m ∈ l, sefS m = true) : sefB (Block.ofList l) = true := by
  induction l with
  | nil => rfl
  | cons s r ih =>
    simp only [Block.ofList, sefB, Bool.and_eq_true]
    exact ⟨h s (by simp), ih (fun m hm => h m (by simp [hm]))⟩

/-- the semantic core of MergeSetupOps -/
theorem merge_core (a : AccId) (fs1 fs2 : List (Field × Var)) (mid : List Stmt)
    (hsef : ∀ m ∈ mid, sefS m = true) (hav : ∀ x ∈ fs1.map (·.2), x ∉ defsB (Block.ofList mid)) (st : St) :
    execS cfg false (.setup a (mergeFields fs1 fs2)) (execB cfg false (Block.ofList mid) st) =
    execS cfg false (.setup a fs2) (execB cfg false (Block.ofList mid) (execS cfg false (.setup a fs1) st)) := by
  have hs := sefB_ofList mid hsef
  have hfr := sefB_frame cfg false (Block.ofList mid) hs st (setRegs st.regs st.env a fs1) st.tr
  have hreg := sefB_regs cfg false (Block.ofList mid) hs st
  have e1 : execS cfg false (.setup a fs1) st = { st with regs := setRegs st.regs st.env a fs1, tr := st.tr } := rfl
  rw [e1, hfr]
  simp only [execS]
  have henv : ∀ y ∈ fs1.map (·.2), (execB cfg false (Block.ofList mid) st).env y = st.env y :=
    fun y hy => envB_frame cfg false _ y (hav y hy) st
  rw [setRegs_merge st.regs st.env _ a fs1 fs2 henv, hreg.1]
  cases hu : execB cfg false (Block.ofList mid) st with
  | mk env regs tr =>
    have : tr = st.tr := by have := hreg.2; rw [hu] at this; exact this
    simp [this]

theorem mergeRw_ok : LocalOK cfg mergeRw := by
  intro F b i b' h hwf hn st hs ha
  unfold mergeRw at h
  split at h
  · cases h
  · next a _ =>
    split at h
    · next pre fs1 mid fs2 rest hscan =>
      injection h with h; subst h
      obtain ⟨hdec, hsef⟩ := mergeScan_spec a b.toList i none [] [] pre fs1 mid fs2 rest hscan
        (by intro cpre cfs hc; cases hc)
      simp only [List.reverse_nil, List.nil_append] at hdec
      have hb : b = Block.ofList (pre ++ [.setup a fs1] ++ mid ++ [.setup a fs2] ++ rest) := by
        rw [← hdec, ofList_toList]
      have hav : ∀ x ∈ fs1.map (·.2), x ∉ defsB (Block.ofList mid) := by
        intro x hx hm
        have hw : wfB (Block.ofList (pre ++ .setup a fs1 :: (mid ++ [.setup a fs2] ++ rest))) = true := by
          rw [hb] at hwf; simpa using hwf
        have := wfB_split pre (.setup a fs1) (mid ++ [.setup a fs2] ++ rest) hw x (by simpa [usesS] using hx)
        apply this
        rw [List.append_assoc, defsB_ofList_append]
        simp [hm]
      rw [hb]
      simp only [ofList_append, execB_append, Block.ofList, execB]
      rw [merge_core cfg a fs1 fs2 mid hsef hav]
    · cases h

end SnaxVerif.Accfg
