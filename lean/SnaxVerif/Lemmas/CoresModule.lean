import SnaxVerif.Lemmas.Cores
/-! C13: the pending list is the only state of `insert-sync-barrier` that survives from one function of a module to
the next. The output for a function does not depend on what an earlier function left pending. -/
namespace SnaxVerif.Cores

/-- two pending lists with the same members among the ids `S` -/
def AgreeOn (S P Q : List Nat) : Prop := ∀ z ∈ S, (z ∈ P ↔ z ∈ Q)

theorem agree_contains {S P Q : List Nat} {i : Nat} (h : AgreeOn S P Q) (hi : i ∈ S) :
    P.contains i = Q.contains i := by
  rw [Bool.eq_iff_iff]
  simp only [List.contains_iff_mem]
  exact h i hi

theorem agree_discharge {S P Q : List Nat} (fx : Fix) (scope : List Nat) (h : AgreeOn S P Q) :
    AgreeOn S (discharge fx scope P) (discharge fx scope Q) := by
  intro z hz
  unfold discharge
  split
  · simp
  · simp only [List.mem_filter]
    rw [h z hz]

theorem agree_append {S P Q A : List Nat} (h : AgreeOn S P Q) : AgreeOn S (P ++ A) (Q ++ A) := by
  intro z hz
  simp only [List.mem_append]
  rw [h z hz]

theorem agree_visit {S P Q : List Nat} (fx : Fix) (all : List Leaf) (rt : Nat → Nat) (eff : Nat → List Nat) (cx : Ctx) (o : Leaf)
    (h : AgreeOn S P Q) (ho : o.id ∈ S) :
    (visit fx all rt eff cx o P).1 = (visit fx all rt eff cx o Q).1 ∧
    AgreeOn S (visit fx all rt eff cx o P).2 (visit fx all rt eff cx o Q).2 := by
  have hc := agree_contains h ho
  refine ⟨by simp only [visit]; exact hc, ?_⟩
  simp only [visit]
  rw [hc]
  split
  · exact agree_append (agree_discharge fx cx.scope h)
  · exact agree_append h

/-- The walk only ever asks whether an operation OF THE BLOCK is pending: pending lists that agree on the ids of a
set containing the block give the same output block (and pending lists that still agree). -/
theorem walk_pending_congr (fx : Fix) (all : List Leaf) (rt : Nat → Nat) (eff : Nat → List Nat) (S : List Nat) :
    ∀ (b : Blk) (cx : Ctx) (P Q : List Nat), (∀ z ∈ idsB b, z ∈ S) → AgreeOn S P Q →
    (walkB fx all rt eff cx b P).1 = (walkB fx all rt eff cx b Q).1 ∧
    AgreeOn S (walkB fx all rt eff cx b P).2 (walkB fx all rt eff cx b Q).2 := by
  intro b
  induction b with
  | nil => intro cx P Q _ h; simp only [walkB]; exact ⟨trivial, h⟩
  | leaf l r ih =>
    intro cx P Q hs h
    rw [idsB_leaf] at hs
    obtain ⟨h1, h2⟩ := agree_visit fx all rt eff cx l h (hs _ (by simp))
    obtain ⟨h3, h4⟩ := ih cx _ _ (fun z hz => hs z (by simp [hz])) h2
    simp only [walkB]
    exact ⟨by rw [h1, h3], h4⟩
  | sync r ih =>
    intro cx P Q hs h
    rw [idsB_sync] at hs
    obtain ⟨h3, h4⟩ := ih cx _ _ hs (agree_discharge fx cx.scope h)
    simp only [walkB]
    exact ⟨by rw [h3], h4⟩
  | ifO l a e r iha ihe ihr =>
    intro cx P Q hs h
    rw [idsB_if] at hs
    obtain ⟨h1, h2⟩ := agree_visit fx all rt eff cx l h (hs _ (by simp))
    obtain ⟨h3, h4⟩ := iha (plainCtx cx a) _ _ (fun z hz => hs z (by simp [hz])) h2
    obtain ⟨h5, h6⟩ := ihe (plainCtx cx e) _ _ (fun z hz => hs z (by simp [hz])) h4
    obtain ⟨h7, h8⟩ := ihr cx _ _ (fun z hz => hs z (by simp [hz])) h6
    simp only [walkB]
    exact ⟨by rw [h1, h3, h5, h7], h8⟩
  | forO l b ys y r ihb ihr =>
    intro cx P Q hs h
    rw [idsB_for] at hs
    obtain ⟨h1, h2⟩ := agree_visit fx all rt eff cx l h (hs _ (by simp))
    obtain ⟨h3, h4⟩ := ihb (bodyCtx cx b y) _ _ (fun z hz => hs z (by simp [hz])) h2
    have h4' : AgreeOn S
        (if ys then discharge fx (bodyCtx cx b y).scope (walkB fx all rt eff (bodyCtx cx b y) b (visit fx all rt eff cx l P).2).2
          else (walkB fx all rt eff (bodyCtx cx b y) b (visit fx all rt eff cx l P).2).2)
        (if ys then discharge fx (bodyCtx cx b y).scope (walkB fx all rt eff (bodyCtx cx b y) b (visit fx all rt eff cx l Q).2).2
          else (walkB fx all rt eff (bodyCtx cx b y) b (visit fx all rt eff cx l Q).2).2) := by
      cases ys
      · exact h4
      · exact agree_discharge fx _ h4
    obtain ⟨h5, h6⟩ := agree_visit fx all rt eff (bodyCtx cx b y) y h4' (hs _ (by simp))
    obtain ⟨h7, h8⟩ := ihr cx _ _ (fun z hz => hs z (by simp [hz])) h6
    simp only [walkB]
    exact ⟨by rw [h1, h3, h5, h7], h8⟩

/-! ### what can become pending -/

/-- the loop terminators the context can make pending all belong to `F` -/
def CtxIn (F : List Nat) (cx : Ctx) : Prop :=
  (∀ kids y, cx.forKids = some (kids, y) → y ∈ F) ∧ (∀ e ∈ cx.loops, e.2 ∈ F)

theorem firstLoop_mem {loops : List (List Nat × Nat)} {uid y : Nat} (h : firstLoop loops uid = some y) :
    ∃ e ∈ loops, e.2 = y := by
  induction loops with
  | nil => simp [firstLoop] at h
  | cons e es ih =>
    obtain ⟨sc, y'⟩ := e
    simp only [firstLoop] at h
    split at h
    · exact ⟨(sc, y'), by simp, by simpa using h⟩
    · obtain ⟨e', he', h'⟩ := ih h
      exact ⟨e', by simp [he'], h'⟩

theorem yieldOf_sub {F : List Nat} {fx : Fix} {cx : Ctx} {u : Leaf} (hc : CtxIn F cx) :
    ∀ z ∈ yieldOf fx cx u, z ∈ F := by
  intro z hz
  unfold yieldOf at hz
  split at hz
  · split at hz
    · next y hy =>
      obtain ⟨e, he, rfl⟩ := firstLoop_mem hy
      simp only [List.mem_singleton] at hz
      exact hz ▸ hc.2 e he
    · simp at hz
  · split at hz
    · next kids y hk =>
      split at hz
      · simp only [List.mem_singleton] at hz
        exact hz ▸ hc.1 kids y hk
      · simp at hz
    · simp at hz

theorem adds_sub {F : List Nat} {fx : Fix} {all : List Leaf} {rt : Nat → Nat} {eff : Nat → List Nat} {cx : Ctx} {o : Leaf}
    (hall : ∀ u ∈ all, u.id ∈ F) (hc : CtxIn F cx) : ∀ z ∈ adds fx all rt eff cx o, z ∈ F := by
  intro z hz
  have hy : ∀ u : Leaf, ∀ z ∈ yieldOf fx cx u, z ∈ F := fun u => yieldOf_sub (fx := fx) (u := u) hc
  simp only [adds, List.mem_append] at hz
  rcases hz with hz | hz
  · simp only [usersOf, List.mem_flatMap, List.mem_filter] at hz
    obtain ⟨v, _, u, ⟨hu, _⟩, hz⟩ := hz
    simp only [addsFor, List.mem_append] at hz
    rcases hz with hz | hz | hz
    · split at hz
      · rcases List.mem_cons.mp hz with h | h
        · exact h ▸ hall u hu
        · exact hy u z h
      · simp at hz
    · split at hz
      · rcases List.mem_cons.mp hz with h | h
        · exact h ▸ hall u hu
        · exact hy u z h
      · simp at hz
    · split at hz
      · simp only [List.mem_singleton] at hz
        exact hz ▸ hall u hu
      · simp at hz
  · split at hz
    · simp only [usersOf, List.mem_flatMap, List.mem_filter] at hz
      obtain ⟨v, _, u, ⟨hu, _⟩, hz⟩ := hz
      unfold addsGlobal at hz
      split at hz
      · rcases List.mem_cons.mp hz with h | h
        · exact h ▸ hall u hu
        · exact hy u z h
      · simp at hz
    · simp at hz

theorem discharge_sub {fx : Fix} {scope P : List Nat} : ∀ z ∈ discharge fx scope P, z ∈ P := by
  intro z hz
  unfold discharge at hz
  split at hz
  · simp at hz
  · exact (List.mem_filter.mp hz).1

theorem visit_sub {F : List Nat} {fx : Fix} {all : List Leaf} {rt : Nat → Nat} {eff : Nat → List Nat} {cx : Ctx} {o : Leaf} {P : List Nat}
    (hall : ∀ u ∈ all, u.id ∈ F) (hc : CtxIn F cx) : ∀ z ∈ (visit fx all rt eff cx o P).2, z ∈ P ∨ z ∈ F := by
  intro z hz
  simp only [visit, List.mem_append] at hz
  rcases hz with hz | hz
  · split at hz
    · exact Or.inl (discharge_sub z hz)
    · exact Or.inl hz
  · exact Or.inr (adds_sub hall hc z hz)

theorem ctxIn_plain {F : List Nat} {cx : Ctx} (b : Blk) (h : CtxIn F cx) : CtxIn F (plainCtx cx b) :=
  ⟨by intro kids y hk; simp [plainCtx] at hk, h.2⟩

theorem ctxIn_body {F : List Nat} {cx : Ctx} (b : Blk) (y : Leaf) (h : CtxIn F cx) (hy : y.id ∈ F) :
    CtxIn F (bodyCtx cx b y) := by
  refine ⟨?_, ?_⟩
  · intro kids y' hk
    simp only [bodyCtx, Option.some.injEq, Prod.mk.injEq] at hk
    exact hk.2 ▸ hy
  · intro e he
    simp only [bodyCtx, List.mem_cons] at he
    rcases he with rfl | he
    · exact hy
    · exact h.2 e he

/-- everything pending after the walk of a block was pending before or is an operation of `F`
(`F` ⊇ the operations of the function) -/
theorem walk_pending_sub (fx : Fix) (all : List Leaf) (rt : Nat → Nat) (eff : Nat → List Nat) (F : List Nat) (hall : ∀ u ∈ all, u.id ∈ F) :
    ∀ (b : Blk) (cx : Ctx) (P : List Nat), CtxIn F cx → (∀ z ∈ idsB b, z ∈ F) →
    ∀ z ∈ (walkB fx all rt eff cx b P).2, z ∈ P ∨ z ∈ F := by
  intro b
  induction b with
  | nil => intro cx P _ _ z hz; simp only [walkB] at hz; exact Or.inl hz
  | leaf l r ih =>
    intro cx P hc hs z hz
    rw [idsB_leaf] at hs
    simp only [walkB] at hz
    rcases ih cx _ hc (fun z hz => hs z (by simp [hz])) z hz with h | h
    · exact visit_sub hall hc z h
    · exact Or.inr h
  | sync r ih =>
    intro cx P hc hs z hz
    rw [idsB_sync] at hs
    simp only [walkB] at hz
    rcases ih cx _ hc hs z hz with h | h
    · exact Or.inl (discharge_sub z h)
    · exact Or.inr h
  | ifO l a e r iha ihe ihr =>
    intro cx P hc hs z hz
    rw [idsB_if] at hs
    simp only [walkB] at hz
    rcases ihr cx _ hc (fun z hz => hs z (by simp [hz])) z hz with h | h
    · rcases ihe (plainCtx cx e) _ (ctxIn_plain e hc) (fun z hz => hs z (by simp [hz])) z h with h | h
      · rcases iha (plainCtx cx a) _ (ctxIn_plain a hc) (fun z hz => hs z (by simp [hz])) z h with h | h
        · exact visit_sub hall hc z h
        · exact Or.inr h
      · exact Or.inr h
    · exact Or.inr h
  | forO l b ys y r ihb ihr =>
    intro cx P hc hs z hz
    rw [idsB_for] at hs
    have hcb := ctxIn_body b y hc (hs y.id (by simp))
    simp only [walkB] at hz
    rcases ihr cx _ hc (fun z hz => hs z (by simp [hz])) z hz with h | h
    · rcases visit_sub hall hcb z h with h | h
      · have h' : z ∈ (walkB fx all rt eff (bodyCtx cx b y) b (visit fx all rt eff cx l P).2).2 := by
          cases ys
          · exact h
          · exact discharge_sub z h
        rcases ihb (bodyCtx cx b y) _ hcb (fun z hz => hs z (by simp [hz])) z h' with h | h
        · exact visit_sub hall hc z h
        · exact Or.inr h
      · exact Or.inr h
    · exact Or.inr h

/-! ### modules -/

/-- The state that survives from one function to the next is harmless: whatever is pending when the walk enters
a function - as long as it names no operation of that function or of a later one - the module walk produces, function
by function, exactly what the pass produces for each function alone. -/
theorem walkModule_independent (fx : Fix) (rt : Nat → Nat) (eff : Nat → List Nat) :
    ∀ (fs : List Blk) (P : List Nat),
    fs.Pairwise (fun f g => ∀ z ∈ idsB f, z ∉ idsB g) → (∀ f ∈ fs, ∀ z ∈ P, z ∉ idsB f) →
    walkModule fx rt eff fs P = fs.map (insertBarriers fx rt eff) := by
  intro fs
  induction fs with
  | nil => intro P _ _; simp [walkModule]
  | cons f fs ih =>
    intro P hp hP
    simp only [walkModule, List.map_cons, insertBarriers]
    rw [List.pairwise_cons] at hp
    have hagree : AgreeOn (idsB f) P [] := by
      intro z hz
      constructor
      · intro h; exact absurd hz (hP f (by simp) z h)
      · intro h; simp at h
    obtain ⟨h1, _⟩ := walk_pending_congr fx (leavesB f) rt eff (idsB f) f (topCtx f) P [] (fun z hz => hz) hagree
    rw [h1]
    congr 1
    apply ih _ hp.2
    intro g hg z hz
    have hsub := walk_pending_sub fx (leavesB f) rt eff (idsB f) (fun u hu => id_mem_idsB hu) f (topCtx f) P
      ⟨by intro kids y hk; simp [topCtx] at hk, by intro e he; simp [topCtx] at he⟩ (fun z hz => hz) z hz
    rcases hsub with h | h
    · exact hP g (by simp [hg]) z h
    · exact hp.1 g hg z h

end SnaxVerif.Cores
