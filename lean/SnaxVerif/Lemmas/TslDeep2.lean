import SnaxVerif.Lemmas.TslStrided
/-! Helper lemmas for C10, second deepening round. -/
namespace SnaxVerif.Tsl
open SnaxVerif

/-! ### every view of the canonical form -/

theorem canonS_pos : ∀ (l : List SStride), (∀ x ∈ l, 0 < x.step ∧ 0 < x.bound) →
    ∀ x ∈ canonS l, 0 < x.step ∧ 0 < x.bound
  | [], _ => by simp [canonS]
  | s :: r, hpos => by
    have ih := canonS_pos r fun x hx => hpos x (by simp [hx])
    have hs := hpos s (by simp)
    simp only [canonS]
    cases hc : canonS r with
    | nil => simpa using hs
    | cons h t =>
      rw [hc] at ih
      have hh := ih h (by simp)
      have ht : ∀ x ∈ t, 0 < x.step ∧ 0 < x.bound := fun x hx => ih x (by simp [hx])
      simp only
      split
      · exact ih
      · split
        · intro x hx
          rcases List.mem_cons.mp hx with rfl | hx
          · exact ⟨hh.1, Nat.mul_pos hh.2 hs.2⟩
          · exact ht x hx
        · intro x hx
          rcases List.mem_cons.mp hx with rfl | hx
          · exact hs
          · exact ih x hx

theorem spos_canonS (s : SLayout) (h : SPos s) : SPos (s.map canonS) := by
  intro t ht x hx
  obtain ⟨t0, ht0, rfl⟩ := List.mem_map.mp ht
  exact canonS_pos t0 (h t0 ht0) x hx

/-- the enumeration of the canonical form is the enumeration of the layout -/
theorem allValues_canonS (s : SLayout) (off : Option Int) (hpos : SPos s) :
    (ofStatic (s.map canonS) off).allValues = (ofStatic s off).allValues := by
  have h1 := allValuesFrom_layout (s.map canonS) [] [0] (spos_canonS s hpos)
  have h2 := allValuesFrom_layout s [] [0] hpos
  simp only [List.append_nil, allValuesFrom, bsum_zero_left] at h1 h2
  unfold Layout.allValues Layout.strides
  simp only [ofStatic]
  rw [h1, h2, shape_canonS]
  congr 1
  apply List.map_congr_left
  intro p hp
  exact addr_canonS s p hp

/-! ### `from_stride` with a static stride and any outermost bound -/

theorem fromStride_static_outer (st : Nat) (hst : 0 < st) (o : Option Nat) (inner : List Nat)
    (h : ∀ b ∈ inner, 0 < b) :
    fromStride (some st) (o :: inner.map some)
      = ⟨some (prodL inner * st), o⟩ :: (fromStrideS st inner).map SStride.toStride := by
  simp only [fromStride, List.tail_cons, stepsFrom_static st hst inner h]
  cases inner with
  | nil => simp [stepsN, fromStrideS, prodL]
  | cons b r =>
    have hz := zip_stepsN st r b
    simp only [stepsN, List.map_cons, List.zip_cons_cons, prodL, fromStrideS] at hz ⊢
    rw [Nat.mul_assoc]
    congr 1
    rw [show (some b :: r.map some) = (b :: r).map some from rfl, List.zip_map, List.map_map]
    have hz' := congrArg (List.map SStride.toStride) hz
    rw [List.map_map] at hz'
    simp only [List.map_cons] at hz'
    rw [← hz']
    rfl

theorem steps_scale (st el : Nat) : ∀ (r : List Nat),
    (fromStrideS st r).map (fun x => x.step * el) = (fromStrideS (st * el) r).map (·.step)
  | [] => rfl
  | b :: r => by simp [fromStrideS, steps_scale st el r, Nat.mul_assoc]

/-! ### subview pointers without the alignment clause -/

theorem ptrTerm_floor (t : List SStride) (el v : Nat) (hpos : ∀ x ∈ t, 0 < x.step ∧ 0 < x.bound) (hne : t ≠ []) :
    ptrTerm (t.map SStride.toStride) el v = .ok (el * addrDim t (v / prodB t.tail * prodB t.tail)) := by
  have hP : 0 < prodB t.tail := prodB_pos t.tail fun x hx => (hpos x (List.mem_of_mem_tail hx)).2
  rw [← ptrTerm_aligned t el (v / prodB t.tail * prodB t.tail) hpos hne (Dvd.intro_left _ rfl)]
  cases t with
  | nil => exact absurd rfl hne
  | cons s r =>
    simp only [List.tail_cons] at hP ⊢
    simp only [List.map_cons, ptrTerm, SStride.toStride, prodInner_static, Nat.mul_div_cancel _ hP]

theorem subviewTerms_floor : ∀ (s : SLayout) (el : Nat) (offs : List (Option Nat)) (dyn vals : List Nat),
    SPos s → mergeOffs offs dyn = some vals → Shaped s vals →
    ∃ terms, subviewTerms true el (s.map (·.map SStride.toStride)) offs dyn = .ok terms ∧
      terms.sum = el * addr s (floorTile s vals)
  | [], el, offs, dyn, vals, _, hm, hal => by
    cases vals with
    | nil =>
      cases offs with
      | nil => exact ⟨[], rfl, by simp [addr]⟩
      | cons o offs =>
        cases o with
        | none => cases dyn <;> simp [mergeOffs] at hm
        | some c => simp [mergeOffs] at hm
    | cons v vs => simp [Shaped] at hal
  | t :: ts, el, offs, dyn, vals, hpos, hm, hal => by
    have ht : ∀ x ∈ t, 0 < x.step ∧ 0 < x.bound := hpos t (by simp)
    have hts : SPos ts := fun t' ht' => hpos t' (by simp [ht'])
    cases vals with
    | nil => simp [Shaped] at hal
    | cons v vs =>
      obtain ⟨hne, hal'⟩ := hal
      cases offs with
      | nil => simp [mergeOffs] at hm
      | cons o offs =>
        cases o with
        | none =>
          cases dyn with
          | nil => simp [mergeOffs] at hm
          | cons w dyn =>
            simp only [mergeOffs, Option.map_eq_some_iff] at hm
            obtain ⟨vs', hm', hcons⟩ := hm
            cases hcons
            obtain ⟨terms, hterms, hsum⟩ := subviewTerms_floor ts el offs dyn vs hts hm' hal'
            refine ⟨el * addrDim t (v / prodB t.tail * prodB t.tail) :: terms, ?_, ?_⟩
            · simp only [List.map_cons, subviewTerms, ptrTerm_floor t el v ht hne, hterms]; rfl
            · simp [addr, floorTile, hsum, Nat.mul_add]
        | some c =>
          simp only [mergeOffs, Option.map_eq_some_iff] at hm
          obtain ⟨vs', hm', hcons⟩ := hm
          cases hcons
          obtain ⟨terms, hterms, hsum⟩ := subviewTerms_floor ts el offs dyn vs hts hm' hal'
          by_cases hc : v = 0
          · subst hc
            refine ⟨terms, ?_, ?_⟩
            · simp only [List.map_cons, subviewTerms]; simpa using hterms
            · simp [addr, floorTile, hsum, addrDim_zero]
          · refine ⟨el * addrDim t (v / prodB t.tail * prodB t.tail) :: terms, ?_, ?_⟩
            · simp only [List.map_cons, subviewTerms, Bool.true_and, ne_eq, hc, not_false_eq_true, decide_true,
                if_true, ptrTerm_floor t el v ht hne, hterms]; rfl
            · simp [addr, floorTile, hsum, Nat.mul_add]

end SnaxVerif.Tsl
