import SnaxVerif.Lemmas.StridePattern
import SnaxVerif.Model.StridePatternZ
/-! The integer-bound model agrees with the natural-bound model on non-negative bounds (C19). -/
namespace SnaxVerif
namespace Stride

theorem stepZ_toZ (acc : List Loop) (x : Loop) : stepZ (acc.map toZ) (toZ x) = (step acc x).map toZ := by
  obtain ⟨ub, ts⟩ := x
  unfold stepZ step toZ
  simp only []
  by_cases h0 : ub = 0
  · subst h0; simp
  · have h0' : ¬ ((ub : Int) = 0) := by omega
    by_cases h1 : ub = 1
    · subst h1; simp
    · have h1' : ¬ ((ub : Int) = 1) := by omega
      simp only [h0, h0', h1, h1', if_false]
      cases acc with
      | nil => simp
      | cons a rest =>
        obtain ⟨b, s⟩ := a
        simp only [List.map_cons]
        by_cases hm : (b : Int) * s = ts
        · simp [hm, Int.natCast_mul]
        · simp [hm]

theorem foldl_stepZ_toZ (p acc : List Loop) :
    (p.map toZ).foldl stepZ (acc.map toZ) = (p.foldl step acc).map toZ := by
  induction p generalizing acc with
  | nil => rfl
  | cons x p ih => simp only [List.map_cons, List.foldl_cons, stepZ_toZ, ih]

theorem canonLoopsZ_toZ (p : List Loop) : canonLoopsZ (p.map toZ) = (canonLoops p).map toZ := by
  unfold canonLoopsZ canonLoops
  have := foldl_stepZ_toZ p []
  simp only [List.map_nil] at this
  rw [this, List.map_reverse]

theorem offsZ_toZ (p : List Loop) : offsZ (p.map toZ) = offs p := by
  induction p with
  | nil => rfl
  | cons x p ih =>
    obtain ⟨b, s⟩ := x
    simp only [List.map_cons, toZ, offsZ, offs, ih, Int.toNat_natCast]

/-- every list of loops with non-negative bounds is the image of a natural-bound list -/
theorem exists_nat_of_nonneg (p : List LoopZ) (h : ∀ x ∈ p, 0 ≤ x.1) : ∃ q : List Loop, p = q.map toZ := by
  induction p with
  | nil => exact ⟨[], rfl⟩
  | cons x p ih =>
    obtain ⟨q, hq⟩ := ih (fun y hy => h y (List.mem_cons_of_mem _ hy))
    obtain ⟨b, s⟩ := x
    have hb : 0 ≤ b := h (b, s) List.mem_cons_self
    refine ⟨(b.toNat, s) :: q, ?_⟩
    simp only [List.map_cons, toZ, hq]
    congr 2
    omega

end Stride
end SnaxVerif
