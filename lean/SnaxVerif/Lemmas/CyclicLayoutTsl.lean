import SnaxVerif.Lemmas.Tsl
import SnaxVerif.Lemmas.CyclicLayoutDeep
/-!
Bridge between the layout model of C09 (`Model/CyclicLayout.lean`) and the model of the
`TiledStridedLayout` class of C10 (`Model/Tsl.lean`): the two address functions and the two models of
`TiledStride.canonicalize` coincide, so C10's theorems about the class' own views (`all_values()`,
`self_overlaps()`) apply to the layouts that `set-memory-layout` produces.
-/
namespace SnaxVerif.CyclicLayout
open SnaxVerif

def toS1 (l : List Stride) : List Tsl.SStride := l.map fun p => ⟨p.step, p.bound⟩
def toS (L : Layout) : Tsl.SLayout := L.map toS1

theorem prodB_toS1 : ∀ l, Tsl.prodB (toS1 l) = prodB l
  | [] => rfl
  | s :: r => by
    have ih := prodB_toS1 r
    simp only [toS1, List.map_cons] at ih ⊢
    simp only [Tsl.prodB, prodB, ih]

theorem addrIn_toS1 : ∀ l i, Tsl.addrIn (toS1 l) i = addrIn l i
  | [], _ => rfl
  | s :: r, i => by
    have ih := addrIn_toS1 r i
    have hp := prodB_toS1 r
    simp only [toS1, List.map_cons] at ih hp ⊢
    simp only [Tsl.addrIn, addrIn, ih, hp]

theorem addrDim_toS1 : ∀ l i, Tsl.addrDim (toS1 l) i = addrDim l i
  | [], _ => rfl
  | s :: r, i => by
    have ih := addrIn_toS1 r i
    have hp := prodB_toS1 r
    simp only [toS1, List.map_cons] at ih hp ⊢
    simp only [Tsl.addrDim, addrDim, ih, hp]

/-- the two address functions agree on index vectors of the right length -/
theorem addr_toS : ∀ (L : Layout) (idx : List Nat), idx.length = L.length → Tsl.addr (toS L) idx = addr L idx
  | [], _, _ => by simp [toS, Tsl.addr, addr]
  | l :: S, [], h => by simp at h
  | l :: S, i :: idx, h => by
    have ih := addr_toS S idx (by simpa using h)
    simp only [toS, List.map_cons] at ih ⊢
    simp only [Tsl.addr, addr, List.headD_cons, List.tail_cons, addrDim_toS1, ih]

/-- the two models of `TiledStride.canonicalize` agree on static strides -/
theorem canonS_toS1 : ∀ l, Tsl.canonS (toS1 l) = toS1 (canon l)
  | [] => rfl
  | s :: r => by
    have ih := canonS_toS1 r
    simp only [toS1, List.map_cons] at ih ⊢
    simp only [Tsl.canonS, canon, ih]
    cases hc : canon r with
    | nil => simp
    | cons h t =>
      simp only [List.map_cons]
      by_cases hb : s.bound = 1
      · simp [hb]
      · simp only [hb, if_false]
        by_cases hsq : h.step ≠ 0 ∧ h.bound ≠ 0 ∧ h.step * h.bound = s.step ∧ s.bound ≠ 0
        · have : h.step ≠ 0 ∧ h.bound ≠ 0 ∧ s.bound ≠ 0 ∧ s.step = h.step * h.bound :=
            ⟨hsq.1, hsq.2.1, hsq.2.2.2, hsq.2.2.1.symm⟩
          rw [if_pos this, if_pos hsq]; simp
        · have : ¬ (h.step ≠ 0 ∧ h.bound ≠ 0 ∧ s.bound ≠ 0 ∧ s.step = h.step * h.bound) :=
            fun hh => hsq ⟨hh.1, hh.2.1, hh.2.2.2.symm, hh.2.2.1⟩
          rw [if_neg this, if_neg hsq]; simp

theorem shape_toS {L : Layout} {shape : List Nat} (hc : Covers L shape) : Tsl.shape (toS L) = shape := by
  apply List.ext_getElem?
  intro d
  simp only [Tsl.shape, toS, List.map_map, List.getElem?_map]
  cases hL : L[d]? with
  | none =>
    have : L.length ≤ d := by
      rcases Nat.lt_or_ge d L.length with h | h
      · rw [List.getElem?_eq_getElem h] at hL; cases hL
      · exact h
    rw [List.getElem?_eq_none (by rw [← hc.1]; exact this)]; rfl
  | some l =>
    have hd : d < shape.length := by rw [← hc.1]; exact lt_length_of_getElem? hL
    rw [List.getElem?_eq_getElem hd]
    simp only [Option.map_some, Function.comp]
    rw [prodB_toS1, hc.2 d l _ hL (List.getElem?_eq_getElem hd)]

theorem inshape_of_tslInBox : ∀ (sh idx : List Nat), Tsl.InBox sh idx → InShape sh idx
  | [], [], _ => ⟨rfl, fun d n i hn _ => by simp at hn⟩
  | [], _ :: _, h => by simp [Tsl.InBox] at h
  | _ :: _, [], h => by simp [Tsl.InBox] at h
  | n :: ns, i :: is, h => by
    obtain ⟨hi, hr⟩ := h
    obtain ⟨hl, hall⟩ := inshape_of_tslInBox ns is hr
    refine ⟨by simp [hl], ?_⟩
    intro d n' i' hn hi'
    cases d with
    | zero => simp at hn hi'; subst hn hi'; exact hi
    | succ d => simp at hn hi'; exact hall d n' i' hn hi'

theorem spos_toS {L : Layout} (h : ∀ l ∈ L, AllPos l) : Tsl.SPos (toS L) := by
  intro t ht x hx
  simp only [toS, List.mem_map] at ht
  obtain ⟨l, hl, rfl⟩ := ht
  simp only [toS1, List.mem_map] at hx
  obtain ⟨p, hp, rfl⟩ := hx
  exact h l hl p hp

/-- `Props/C10.lean: allValues_eq`, re-derived from the lemmas so that C09 does not import C10's property file -/
theorem tsl_allValues_eq (s : Tsl.SLayout) (off : Option Int) (hpos : Tsl.SPos s) :
    (Tsl.ofStatic s off).allValues = .ok ((Tsl.points (Tsl.shape s)).map (Tsl.addr s)) := by
  have h := Tsl.allValuesFrom_layout s [] [0] hpos
  simp only [List.append_nil, Tsl.allValuesFrom, Tsl.bsum_zero_left] at h
  exact h

/-- the class' own views of a layout chosen by the pass: `all_values()` lists the addresses of the
operand's elements in row-major order, and `self_overlaps()` answers `False` -/
theorem chosen_layout_views {c : Cfg} {L : Layout} (hpos : ∀ n ∈ c.shape, 0 < n)
    (h : cyclicLayout true c = .ok L) (off : Option Int) :
    (Tsl.ofStatic (toS L) off).allValues = .ok ((Tsl.points c.shape).map (addr L)) ∧
    (Tsl.ofStatic (toS L) off).selfOverlaps = .ok false := by
  obtain ⟨hcov, hinj⟩ := cyclicLayout_spec hpos h
  have hsp := spos_toS (cyclicLayout_pos hpos h)
  have hshape := shape_toS hcov
  have hav : (Tsl.ofStatic (toS L) off).allValues = .ok ((Tsl.points c.shape).map (addr L)) := by
    rw [tsl_allValues_eq (toS L) off hsp, hshape]
    congr 1
    apply List.map_congr_left
    intro p hp
    have hin := inshape_of_tslInBox _ _ ((Tsl.mem_points_iff _ _).mp hp)
    exact addr_toS L p (by rw [hin.1, hcov.1])
  refine ⟨hav, ?_⟩
  simp only [Tsl.Layout.selfOverlaps, hav, Except.map]
  congr 1
  rw [Tsl.hasDup_eq_false_iff, List.nodup_map_iff_inj_on (Tsl.nodup_points _)]
  intro p hp q hq hpq
  have hp' := inshape_of_tslInBox _ _ ((Tsl.mem_points_iff _ _).mp hp)
  have hq' := inshape_of_tslInBox _ _ ((Tsl.mem_points_iff _ _).mp hq)
  exact hinj p q hp' hq' hpq

end SnaxVerif.CyclicLayout
