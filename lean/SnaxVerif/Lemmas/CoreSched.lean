/-
Theorems for property C13, second part (see `Model/CoreSched.lean`).
-/
import SnaxVerif.Model.CoreSched

namespace SnaxVerif.Cores

/-! ## per-core programs -/

theorem proj_append (c : Core) (a b : List Ev) : proj c (a ++ b) = proj c a ++ proj c b := by
  simp only [proj, List.filter_append]

theorem proj_ySync (c : Core) (ys : Bool) : proj c (ySync ys) = ySync ys := by
  cases ys <;> simp [proj, ySync, evOn]

theorem star_proj (c : Core) (S S' : List Ev → Prop)
    (h : ∀ s, S s → S' (proj c s)) : ∀ t, Star S t → Star S' (proj c t) := by
  intro t ht
  induction ht with
  | nil => exact Star.nil
  | cons ha _ ih =>
    rw [proj_append]
    exact Star.cons (h _ ha) ih

theorem perCore_run (c : Core) :
    ∀ (p : Blk) (t : List Ev), CompoundAll p → Run p t → Run (perCore c p) (proj c t) := by
  intro p
  induction p with
  | nil =>
    intro t _ h
    simp only [Run] at h
    subst h
    simp [perCore, Run, proj]
  | leaf l r ih =>
    intro t hc h
    simp only [Run] at h
    obtain ⟨t', hr, rfl⟩ := h
    simp only [CompoundAll] at hc
    have := ih t' hc hr
    cases hx : execs c l.cls with
    | true =>
      simp only [perCore, hx, if_true, Run]
      refine ⟨proj c t', this, ?_⟩
      simp [proj, evOn, hx]
    | false =>
      simp only [perCore, hx]
      have e : proj c (Ev.op l :: t') = proj c t' := by
        simp [proj, evOn, hx]
      rw [e]
      simpa using this
  | sync r ih =>
    intro t hc h
    simp only [Run] at h
    obtain ⟨t', hr, rfl⟩ := h
    simp only [CompoundAll] at hc
    simp only [perCore, Run]
    refine ⟨proj c t', ih t' hc hr, ?_⟩
    simp [proj, List.filter_cons, evOn]
  | ifO l a b r iha ihb ihr =>
    intro t hc h
    simp only [Run] at h
    obtain ⟨t1, t2, hab, hr, rfl⟩ := h
    simp only [CompoundAll] at hc
    obtain ⟨hl, hca, hcb, hcr⟩ := hc
    simp only [perCore, Run]
    refine ⟨proj c t1, proj c t2, ?_, ihr t2 hcr hr, ?_⟩
    · cases hab with
      | inl h => exact Or.inl (iha t1 hca h)
      | inr h => exact Or.inr (ihb t1 hcb h)
    · rw [← proj_append]
      simp [proj, evOn, hl, execs]
  | forO l b ys y r ihb ihr =>
    intro t hc h
    simp only [Run] at h
    obtain ⟨t1, t2, hs, hr, rfl⟩ := h
    simp only [CompoundAll] at hc
    obtain ⟨hl, hy, hcb, hcr⟩ := hc
    simp only [perCore, Run]
    refine ⟨proj c t1, proj c t2, ?_, ihr t2 hcr hr, ?_⟩
    · refine star_proj c _ _ ?_ t1 hs
      intro s hs
      obtain ⟨s', hs', rfl⟩ := hs
      refine ⟨proj c s', ihb s' hcb hs', ?_⟩
      rw [proj_append, proj_append, proj_ySync]
      simp [proj, evOn, hy, execs]
    · rw [← proj_append]
      simp [proj, evOn, hl, execs]

theorem proj_syncs (c : Core) (t : List Ev) : (proj c t).filter isSync = t.filter isSync := by
  induction t with
  | nil => rfl
  | cons e t ih =>
    cases e with
    | sync =>
      simp only [proj, List.filter_cons, evOn, isSync, if_true] at ih ⊢
      rw [ih]
    | op l =>
      cases hx : execs c l.cls with
      | true =>
        simp only [proj, List.filter_cons, evOn, isSync, hx, if_true] at ih ⊢
        exact ih
      | false =>
        simp only [proj, List.filter_cons, evOn, hx] at ih ⊢
        exact ih

/-! ## epochs -/

theorem epochs_spec (t : List Ev) :
    ∃ e es, epochs t = e :: es ∧ (∃ post, t = e.map Ev.op ++ post) ∧
      ∀ ep ∈ es, ∃ pre post, t = pre ++ (ep.map Ev.op ++ post) := by
  induction t with
  | nil => exact ⟨[], [], rfl, ⟨[], rfl⟩, by intro ep h; cases h⟩
  | cons x t ih =>
    obtain ⟨e, es, he, ⟨post, hpost⟩, htl⟩ := ih
    cases x with
    | sync =>
      refine ⟨[], e :: es, by simp only [epochs, he], ⟨Ev.sync :: t, rfl⟩, ?_⟩
      intro ep hep
      cases hep with
      | head => exact ⟨[Ev.sync], post, by rw [hpost]; rfl⟩
      | tail _ h =>
        obtain ⟨pre, post', h'⟩ := htl ep h
        exact ⟨Ev.sync :: pre, post', by rw [h']; rfl⟩
    | op l =>
      refine ⟨l :: e, es, by simp only [epochs, he], ⟨post, by rw [hpost]; rfl⟩, ?_⟩
      intro ep hep
      obtain ⟨pre, post', h'⟩ := htl ep hep
      exact ⟨Ev.op l :: pre, post', by rw [h']; rfl⟩

theorem epochs_mem (t : List Ev) (ep : List Leaf) (h : ep ∈ epochs t) :
    ∃ pre post, t = pre ++ (ep.map Ev.op ++ post) := by
  obtain ⟨e, es, he, ⟨post, hpost⟩, htl⟩ := epochs_spec t
  rw [he] at h
  cases h with
  | head => exact ⟨[], post, hpost⟩
  | tail _ h => exact htl ep h

theorem sync_not_mem_map_op (m : List Leaf) : Ev.sync ∉ m.map Ev.op := by
  intro h
  obtain ⟨x, _, hx⟩ := List.mem_map.mp h
  cases hx

theorem epoch_no_conflict (t : List Ev) (h : Separated t) :
    ∀ ep ∈ epochs t, ∀ a m c e1 e2, ep = a ++ e1 :: (m ++ e2 :: c) → ¬ Conflict e1 e2 := by
  intro ep hep a m c e1 e2 hdec hcf
  obtain ⟨pre, post, ht⟩ := epochs_mem t ep hep
  have : t = (pre ++ a.map Ev.op) ++ Ev.op e1 :: (m.map Ev.op ++ Ev.op e2 :: (c.map Ev.op ++ post)) := by
    rw [ht, hdec]
    simp only [List.map_append, List.map_cons, List.append_assoc, List.cons_append]
  exact sync_not_mem_map_op m (h _ _ _ _ _ this hcf)

/-! ## commutation -/

theorem map_step_of_disjoint (b : Leaf) (m : Mem) (rs : List Nat) (h : ∀ x ∈ rs, x ∉ b.writes) :
    rs.map (step b m) = rs.map m := by
  apply List.map_congr_left
  intro x hx
  simp only [step, h x hx, if_false]

theorem step_comm (a b : Leaf) (h1 : ¬ Clash a b) (m : Mem) :
    step a (step b m) = step b (step a m) := by
  have hwr : ∀ x, x ∈ a.writes → x ∉ b.reads := fun x hx hb => h1 ⟨x, Or.inl ⟨hx, Or.inl hb⟩⟩
  have hww : ∀ x, x ∈ a.writes → x ∉ b.writes := fun x hx hb => h1 ⟨x, Or.inl ⟨hx, Or.inr hb⟩⟩
  have hrw : ∀ x, x ∈ a.reads → x ∉ b.writes := fun x hx hb => h1 ⟨x, Or.inr ⟨hx, hb⟩⟩
  have ea : a.reads.map (step b m) = a.reads.map m := map_step_of_disjoint b m _ hrw
  have eb : b.reads.map (step a m) = b.reads.map m :=
    map_step_of_disjoint a m _ (fun x hx hw => hwr x hw hx)
  funext x
  show (if x ∈ a.writes then Term.app a.id (a.reads.map (step b m)) else step b m x) =
    (if x ∈ b.writes then Term.app b.id (b.reads.map (step a m)) else step a m x)
  rw [ea, eb]
  by_cases ha : x ∈ a.writes
  · have hb : x ∉ b.writes := hww x ha
    simp only [step, ha, hb, if_true, if_false]
  · by_cases hb : x ∈ b.writes
    · simp only [step, ha, hb, if_true, if_false]
    · simp only [step, ha, hb, if_false]

theorem clash_symm (a b : Leaf) (h : Clash a b) : Clash b a := by
  obtain ⟨x, h⟩ := h
  refine ⟨x, ?_⟩
  cases h with
  | inl h =>
    obtain ⟨hw, h⟩ := h
    cases h with
    | inl hr => exact Or.inr ⟨hr, hw⟩
    | inr hw' => exact Or.inl ⟨hw', Or.inr hw⟩
  | inr h => exact Or.inl ⟨h.2, Or.inl h.1⟩

/-! ## schedules -/

theorem execS_append (s1 s2 : List (Core × Leaf)) (m : Mem) :
    execS (s1 ++ s2) m = execS s2 (execS s1 m) := by
  induction s1 generalizing m with
  | nil => rfl
  | cons e s ih => exact ih (step e.2 m)

/-- an event that clashes with nothing in front of it can be executed first -/
theorem execS_move_front (e : Core × Leaf) (post : List (Core × Leaf)) :
    ∀ (pre : List (Core × Leaf)) (m : Mem), (∀ x ∈ pre, ¬ Clash e.2 x.2) →
      execS (pre ++ e :: post) m = execS (e :: (pre ++ post)) m := by
  intro pre
  induction pre with
  | nil => intro m _; rfl
  | cons x pre ih =>
    intro m h
    have hx : ¬ Clash e.2 x.2 := h x (List.mem_cons_self ..)
    have ih' := ih (step x.2 m) (fun y hy => h y (List.mem_cons_of_mem _ hy))
    show execS (pre ++ e :: post) (step x.2 m) = execS (pre ++ post) (step x.2 (step e.2 m))
    rw [ih', ← step_comm e.2 x.2 hx m]
    rfl

theorem sched_deterministic : ∀ (s1 s2 : List (Core × Leaf)),
    (∀ c, s1.filter (fun e => e.1 == c) = s2.filter (fun e => e.1 == c)) →
    (∀ a mid z e1 e2, s1 = a ++ e1 :: (mid ++ e2 :: z) → e1.1 ≠ e2.1 →
      ¬ Clash e1.2 e2.2 ∧ ¬ Clash e2.2 e1.2) →
    ∀ m, execS s1 m = execS s2 m := by
  intro s1
  induction s1 with
  | nil =>
    intro s2 hf _ m
    cases s2 with
    | nil => rfl
    | cons x s2 =>
      have := hf x.1
      simp at this
  | cons e s1 ih =>
    intro s2 hf hnc m
    -- the first event of core `e.1` in `s2` is `e`
    have h0 := hf e.1
    have h0' : s2.filter (fun x => x.1 == e.1) = e :: s1.filter (fun x => x.1 == e.1) := by
      rw [← h0]; simp
    obtain ⟨pre, post, rfl, hpre, _, hpost⟩ := List.filter_eq_cons_iff.mp h0'
    have hpre' : ∀ x ∈ pre, x.1 ≠ e.1 := by
      intro x hx heq
      exact hpre x hx (by simp [heq])
    -- nothing in `pre` clashes with `e`
    have hcl : ∀ x ∈ pre, ¬ Clash e.2 x.2 := by
      intro x hx
      have hx2 : x ∈ (pre ++ e :: post).filter (fun y => y.1 == x.1) := by
        rw [List.mem_filter]
        exact ⟨List.mem_append_left _ hx, by simp⟩
      rw [← hf x.1, List.mem_filter] at hx2
      have hx1 : x ∈ s1 := by
        cases hx2.1 with
        | head => exact absurd rfl (hpre' _ hx)
        | tail _ h => exact h
      obtain ⟨a, z, rfl⟩ := List.append_of_mem hx1
      exact (hnc [] a z e x rfl (fun h => hpre' x hx h.symm)).1
    -- the remaining schedules agree per core
    have hf' : ∀ c, s1.filter (fun x => x.1 == c) = (pre ++ post).filter (fun x => x.1 == c) := by
      intro c
      have hc := hf c
      by_cases hec : e.1 = c
      · subst hec
        rw [List.filter_append, ← hpost]
        have : pre.filter (fun x => x.1 == e.1) = [] := by
          rw [List.filter_eq_nil_iff]
          exact hpre
        rw [this]
        rfl
      · have hb : (e.1 == c) = false := by simp [hec]
        simp only [List.filter_append, List.filter_cons, hb] at hc ⊢
        exact hc
    have hnc' : ∀ a mid z e1 e2, s1 = a ++ e1 :: (mid ++ e2 :: z) → e1.1 ≠ e2.1 →
        ¬ Clash e1.2 e2.2 ∧ ¬ Clash e2.2 e1.2 := by
      intro a mid z e1 e2 hs hne
      exact hnc (e :: a) mid z e1 e2 (by rw [hs]; rfl) hne
    rw [execS_move_front e post pre m hcl]
    show execS s1 (step e.2 m) = execS (pre ++ post) (step e.2 m)
    exact ih (pre ++ post) hf' hnc' (step e.2 m)

/-! ## schedules of an epoch -/

theorem eq_of_map_snd (c : Core) : ∀ (l1 l2 : List (Core × Leaf)),
    (∀ x ∈ l1, x.1 = c) → (∀ x ∈ l2, x.1 = c) → l1.map (·.2) = l2.map (·.2) → l1 = l2 := by
  intro l1
  induction l1 with
  | nil =>
    intro l2 _ _ h
    cases l2 with
    | nil => rfl
    | cons y l2 => simp at h
  | cons x l1 ih =>
    intro l2 h1 h2 h
    cases l2 with
    | nil => simp at h
    | cons y l2 =>
      simp only [List.map_cons, List.cons.injEq] at h
      have hx := h1 x (List.mem_cons_self ..)
      have hy := h2 y (List.mem_cons_self ..)
      have : x = y := by
        cases x; cases y
        simp only at hx hy h
        simp only [Prod.mk.injEq]
        exact ⟨hx.trans hy.symm, h.1⟩
      subst this
      rw [ih l2 (fun z hz => h1 z (List.mem_cons_of_mem _ hz))
        (fun z hz => h2 z (List.mem_cons_of_mem _ hz)) h.2]

theorem two_positions {α : Type} (l : List α) (x y : α) (hx : x ∈ l) (hy : y ∈ l) (hne : x ≠ y) :
    (∃ a m c, l = a ++ x :: (m ++ y :: c)) ∨ (∃ a m c, l = a ++ y :: (m ++ x :: c)) := by
  obtain ⟨a, r, rfl⟩ := List.append_of_mem hx
  rw [List.mem_append, List.mem_cons] at hy
  cases hy with
  | inl h =>
    obtain ⟨a1, a2, rfl⟩ := List.append_of_mem h
    exact Or.inr ⟨a1, a2, r, by simp only [List.append_assoc, List.cons_append]⟩
  | inr h =>
    cases h with
    | inl h => exact absurd h.symm hne
    | inr h =>
      obtain ⟨r1, r2, rfl⟩ := List.append_of_mem h
      exact Or.inl ⟨a, r1, r2, rfl⟩

theorem sched_mem (ep : List Leaf) (s : List (Core × Leaf)) (h : IsSchedule ep s)
    (e : Core × Leaf) (he : e ∈ s) : e.2 ∈ ep ∧ execs e.1 e.2.cls = true := by
  have : e.2 ∈ (s.filter (fun x => x.1 == e.1)).map (·.2) := by
    rw [List.mem_map]
    exact ⟨e, by rw [List.mem_filter]; exact ⟨he, by simp⟩, rfl⟩
  rw [h e.1, List.mem_filter] at this
  exact this

theorem execs_same_cls (c1 c2 : Core) (k : Cls) (hne : c1 ≠ c2)
    (h1 : execs c1 k = true) (h2 : execs c2 k = true) : k = Cls.all := by
  cases k <;> cases c1 <;> cases c2 <;> simp_all [execs]

theorem epoch_schedule_deterministic (ep : List Leaf)
    (hfree : ∀ a m c e1 e2, ep = a ++ e1 :: (m ++ e2 :: c) → ¬ Conflict e1 e2 ∧ ¬ Conflict e2 e1)
    (hro : ∀ l ∈ ep, l.cls = Cls.all → l.writes = [])
    (s1 s2 : List (Core × Leaf)) (h1 : IsSchedule ep s1) (h2 : IsSchedule ep s2) :
    ∀ m, execS s1 m = execS s2 m := by
  apply sched_deterministic
  · intro c
    apply eq_of_map_snd c
    · intro x hx
      rw [List.mem_filter] at hx
      exact eq_of_beq hx.2
    · intro x hx
      rw [List.mem_filter] at hx
      exact eq_of_beq hx.2
    · rw [h1 c, h2 c]
  · intro a mid z e1 e2 hs hne
    have hm1 : e1 ∈ s1 := by rw [hs]; simp
    have hm2 : e2 ∈ s1 := by rw [hs]; simp
    obtain ⟨hep1, hx1⟩ := sched_mem ep s1 h1 e1 hm1
    obtain ⟨hep2, hx2⟩ := sched_mem ep s1 h1 e2 hm2
    have key : ¬ Clash e1.2 e2.2 := by
      intro hcl
      by_cases hk : e1.2.cls = e2.2.cls
      · rw [← hk] at hx2
        have hall := execs_same_cls e1.1 e2.1 _ hne hx1 hx2
        have w1 := hro _ hep1 hall
        have w2 := hro _ hep2 (hk ▸ hall)
        obtain ⟨x, hx⟩ := hcl
        rw [w1, w2] at hx
        simp at hx
      · have hcf : Conflict e1.2 e2.2 := ⟨hk, hcl⟩
        have hne2 : e1.2 ≠ e2.2 := fun h => hk (by rw [h])
        cases two_positions ep e1.2 e2.2 hep1 hep2 hne2 with
        | inl h =>
          obtain ⟨a', m', c', h⟩ := h
          exact (hfree _ _ _ _ _ h).1 hcf
        | inr h =>
          obtain ⟨a', m', c', h⟩ := h
          exact (hfree _ _ _ _ _ h).2 hcf
    exact ⟨key, fun h => key (clash_symm _ _ h)⟩

end SnaxVerif.Cores
