def hello := "world"
