# throwaway: abstract CSR machine for accfg-level IR (exploration only)
import h
from xdsl.dialects import arith, scf, func, builtin
from xdsl.ir import Operation, Block, SSAValue
from snaxc.dialects import accfg
class Machine:
    def __init__(self, clobber_seed=0):
        self.regs={}   # (acc, field) -> value
        self.trace=[]
        self.ncalls=0
        self.clobber_seed=clobber_seed
    def snapshot(self, acc):
        return tuple(sorted((f,v) for (a,f),v in self.regs.items() if a==acc))
def run_block(block: Block, env: dict, m: Machine):
    for op in block.ops:
        r = run_op(op, env, m)
        if r is not None: return r
    return None
def val(env, v):
    if v not in env: raise KeyError(f'use of undefined value {v}')
    return env[v]
def run_op(op: Operation, env, m: Machine):
    if isinstance(op, arith.ConstantOp):
        env[op.result]=op.value.value.data
    elif isinstance(op, arith.AddiOp): env[op.result]=val(env,op.lhs)+val(env,op.rhs)
    elif isinstance(op, arith.MuliOp): env[op.result]=val(env,op.lhs)*val(env,op.rhs)
    elif isinstance(op, arith.SubiOp): env[op.result]=val(env,op.lhs)-val(env,op.rhs)
    elif isinstance(op, arith.IndexCastOp): env[op.result]=val(env,op.input)
    elif isinstance(op, accfg.SetupOp):
        acc=op.accelerator.data
        for name,v in op.iter_params(): m.regs[(acc,name)]=val(env,v)
        env[op.out_state]='state'
    elif isinstance(op, accfg.LaunchOp):
        acc=op.accelerator.data
        m.trace.append(('launch',acc,m.snapshot(acc)))
        env[op.token]='tok'
    elif isinstance(op, accfg.AwaitOp):
        m.trace.append(('await',))
    elif isinstance(op, func.CallOp):
        eff = op.attributes.get('accfg.effects')
        if eff is None or eff.data != accfg.EffectsEnum.NONE:
            m.ncalls+=1
            for k in list(m.regs): m.regs[k]=('clobber',m.clobber_seed,m.ncalls)
        m.trace.append(('call',op.callee.string_value()))
    elif isinstance(op, scf.YieldOp):
        return [val(env,o) if not isinstance(o.type,(accfg.StateType,)) else 'state' for o in op.operands]
    elif isinstance(op, scf.IfOp):
        c=val(env,op.cond)
        reg = op.true_region if c else op.false_region
        res = run_block(reg.block, env, m) if reg.blocks else []
        for r,v in zip(op.results, res or []): env[r]=v
    elif isinstance(op, scf.ForOp):
        lb,ub,st=val(env,op.lb),val(env,op.ub),val(env,op.step)
        carried=[val(env,a) if not isinstance(a.type,accfg.StateType) else 'state' for a in op.iter_args]
        i=lb
        while st>0 and i<ub:
            env[op.body.block.args[0]]=i
            for a,v in zip(op.body.block.args[1:],carried): env[a]=v
            carried=run_block(op.body.block, env, m) or []
            i+=st
        for r,v in zip(op.results,carried): env[r]=v
    elif isinstance(op, func.ReturnOp): return 'ret'
    else: raise NotImplementedError(op.name)
def run_func(f: func.FuncOp, args, clobber_seed=0):
    m=Machine(clobber_seed); env={a:v for a,v in zip(f.body.block.args,args)}
    run_block(f.body.block, env, m)
    return m.trace
