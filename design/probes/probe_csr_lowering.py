import sys, random, io, contextlib, warnings, itertools, os
warnings.filterwarnings('ignore')
import h, csr, gen
from xdsl.parser import Parser
from xdsl.dialects import func, arith, scf, llvm, builtin
from snaxc.dialects import accfg
from snaxc.tools.snax_opt_main import SNAXOptMain
ctx = SNAXOptMain(args=['/dev/null','--allow-unregistered-dialect']).ctx
ACCDECL='''"accfg.accelerator"() <{name = @snax_hwpe_mult, fields = {A=0x3d0, B=0x3d1, O=0x3d3, vector_length=0x3d4, nr_iters=0x3d5, mode=0x3d6}, launch_fields = {launch=0x3c0}, barrier = 0x3c3}> : () -> ()
'''
ADDR={'A':0x3d0,'B':0x3d1,'O':0x3d3}
# CSR-level machine
class CM:
    def __init__(s): s.regs={}; s.trace=[]; s.ncalls=0; s.polls=0
def cval(env,v):
    if v not in env: raise KeyError(str(v))
    return env[v]
def crun(block, env, m):
    for op in block.ops:
        r=cop(op,env,m)
        if r is not None: return r
def cop(op, env, m):
    if isinstance(op, arith.ConstantOp): env[op.result]=op.value.value.data
    elif isinstance(op, arith.AddiOp): env[op.result]=cval(env,op.lhs)+cval(env,op.rhs)
    elif isinstance(op, arith.IndexCastOp): env[op.result]=cval(env,op.input)
    elif isinstance(op, arith.CmpiOp): env[op.result]=int(cval(env,op.lhs)!=cval(env,op.rhs))   # 'ne'
    elif isinstance(op, llvm.InlineAsmOp):
        asm=op.asm_string.data
        if asm.startswith('csrw'):
            a,v=[cval(env,x) for x in op.operands_]
            if a==0x3c0: m.trace.append(('launch','snax_hwpe_mult',tuple(sorted((k,m.regs.get(ad)) for k,ad in ADDR.items() if ad in m.regs))))
            elif a==965: pass   # hwpe clear
            else: m.regs[a]=v
        elif asm.startswith('csrr'):
            m.polls+=1; env[op.res]=0   # accelerator idle
        elif asm=='nop': pass
        else: raise NotImplementedError(asm)
    elif isinstance(op, scf.WhileOp):
        # poll loop: before-region computes condition
        while True:
            r=crun(op.before_region.block, env, m)
            if not r[1]: break
        m.trace.append(('await',))
    elif isinstance(op, scf.ConditionOp): return ('cond', cval(env,op.condition))
    elif isinstance(op, func.CallOp):
        eff=op.attributes.get('accfg.effects')
        if eff is None or eff.data!=accfg.EffectsEnum.NONE:
            m.ncalls+=1
            for k in list(m.regs): m.regs[k]=('clobber',0,m.ncalls)
        m.trace.append(('call',op.callee.string_value()))
    elif isinstance(op, scf.YieldOp): return [cval(env,o) for o in op.operands]
    elif isinstance(op, scf.IfOp):
        reg=op.true_region if cval(env,op.cond) else op.false_region
        res=crun(reg.block,env,m) if reg.blocks else []
        for r_,v in zip(op.results,res or []): env[r_]=v
    elif isinstance(op, scf.ForOp):
        lb,ub,st=[cval(env,x) for x in (op.lb,op.ub,op.step)]; carried=[cval(env,a) for a in op.iter_args]; i=lb
        while st>0 and i<ub:
            env[op.body.block.args[0]]=i
            for a,v in zip(op.body.block.args[1:],carried): env[a]=v
            carried=crun(op.body.block,env,m) or []; i+=st
        for r_,v in zip(op.results,carried): env[r_]=v
    elif isinstance(op, func.ReturnOp): return 'ret'
    else: raise NotImplementedError(op.name)
def ctraces(txt):
    mod=Parser(ctx,txt).parse_module(); f=[o for o in mod.ops if isinstance(o,func.FuncOp) and o.sym_name.data=='f'][0]
    # no state types may survive
    leftovers=[o.name for o in mod.walk() if any(isinstance(t,accfg.StateType) for t in [*[x.type for x in o.operands],*[x.type for x in o.results]]) or any(isinstance(a.type,accfg.StateType) for r in o.regions for b in r.blocks for a in b.args)]
    out=[]
    for c0,c1 in itertools.product([0,1],repeat=2):
        for (lb,ub,st) in [(0,0,1),(0,2,1),(1,7,3)]:
            m=CM(); env={a:v for a,v in zip(f.body.block.args,[11,22,33,c0,c1,lb,ub,st])}
            try: crun(f.body.block,env,m); out.append(m.trace)
            except KeyError as e: out.append(('UNDEF',str(e)[:40]))
    return out, leftovers
def atraces(txt):
    f=[o for o in Parser(ctx,txt).parse_module().ops if isinstance(o,func.FuncOp) and o.sym_name.data=='f'][0]; out=[]
    for c0,c1 in itertools.product([0,1],repeat=2):
        for (lb,ub,st) in [(0,0,1),(0,2,1),(1,7,3)]:
            out.append(csr.run_func(f,[11,22,33,c0,c1,lb,ub,st]))
    return out
rnd=random.Random(int(sys.argv[1])); bad=0; N=int(sys.argv[2]); err={}; left=0
base=sys.argv[3]
for it in range(N):
    src=ACCDECL+gen.G(rnd,lp=True).program()
    try:
        with contextlib.redirect_stderr(io.StringIO()):
            a=h.run(src,base); b=h.run(src,base+',convert-accfg-to-csr')
        ta=atraces(a); (tb,lo)=ctraces(b)
    except Exception as e:
        k=type(e).__name__+':'+str(e)[:50]; err[k]=err.get(k,0)+1; continue
    if lo: left+=1
    # normalise accfg-level trace: drop fields never written (csr machine shows only written regs)
    if ta!=tb:
        bad+=1
        if bad<=1:
            print(b[:3000])
            for x,y in zip(ta,tb):
                if x!=y: print('accfg',x); print('csr  ',y); break
print('N',N,'bad',bad,'state-leftovers',left,'err',err)
