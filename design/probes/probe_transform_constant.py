import h, random, itertools, warnings
warnings.filterwarnings('ignore')
import numpy as np
from xdsl.dialects import builtin
from xdsl.dialects.builtin import DenseIntOrFPElementsAttr, TensorType, i32, i8
from snaxc.transforms.realize_memref_casts import transform_constant
from snaxc.transforms.frontend.remove_transpose_constants import RemoveTransposeConstants
from snaxc.dialects.tsl import TiledStridedLayoutAttr
from snaxc.ir.tsl import Stride, TiledStride, TiledStridedLayout
rnd=random.Random(1); bad=0; n=0; skipped=0
for it in range(500):
    rank=rnd.randint(1,3)
    tb=[[rnd.choice([1,2,3,4]) for _ in range(rnd.randint(1,2))] for _ in range(rank)]
    flat=[(d,k) for d in range(rank) for k in range(len(tb[d]))]; rnd.shuffle(flat); cur=1; stp={}
    for (d,k) in flat: stp[(d,k)]=cur; cur*=tb[d][k]          # dense
    tsl=TiledStridedLayout([TiledStride([Stride(stp[(d,k)],tb[d][k]) for k in range(len(tb[d]))]) for d in range(rank)])
    shape=[int(np.prod(b)) for b in tb]
    N=int(np.prod(shape)); vals=list(range(1,N+1))
    attr=DenseIntOrFPElementsAttr.from_list(TensorType(i32,shape),vals)
    out=transform_constant(attr, TiledStridedLayoutAttr(tsl))
    if out is None: skipped+=1; continue
    data=list(out.get_values()); n+=1
    m=TiledStridedLayoutAttr(tsl).get_affine_map()
    ok=True
    for idx in itertools.product(*[range(s) for s in shape]):
        lin=0
        for i,s_ in zip(idx,shape): lin=lin*s_+i
        if data[m.eval(list(idx),[])[0]]!=vals[lin]: ok=False; break
    if not ok:
        bad+=1
        if bad<3: print('BAD',tsl,shape)
print('n',n,'bad',bad,'skipped',skipped)
# transpose_tuple
p=RemoveTransposeConstants(); tb=0
for a in range(1,6):
    for b in range(1,6):
        arr=list(range(a*b)); t=p.transpose_tuple(arr,a,b)
        if any(t[i*a+j]!=arr[j*b+i] for i in range(b) for j in range(a)): tb+=1
print('transpose bad',tb)
