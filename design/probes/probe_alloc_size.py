import h, random, itertools, sys, warnings, io, contextlib
warnings.filterwarnings('ignore')
import numpy as np
from collections import Counter
from xdsl.parser import Parser
from xdsl.dialects import arith, builtin, memref
from snaxc.dialects import snax
from snaxc.tools.snax_opt_main import SNAXOptMain
ctx = SNAXOptMain(args=['/dev/null','--allow-unregistered-dialect']).ctx
rnd=random.Random(1); st=Counter()
def ev(block, env):
    for op in block.ops:
        if isinstance(op, arith.ConstantOp): env[op.result]=op.value.value.data
        elif isinstance(op, arith.MuliOp): env[op.result]=env[op.lhs]*env[op.rhs]
        elif isinstance(op, arith.AddiOp): env[op.result]=env[op.lhs]+env[op.rhs]
        elif isinstance(op, arith.SubiOp): env[op.result]=env[op.lhs]-env[op.rhs]
        elif isinstance(op, arith.DivUIOp): env[op.result]=env[op.lhs]//env[op.rhs]
        elif isinstance(op, snax.Alloc): return env[op.size]
        elif op.name in ('test.op',):
            for r in op.results: env[r]=env['dyn'].pop(0)
        elif isinstance(op,(memref.ExtractStridedMetaDataOp,)): pass
    return None
for it in range(600):
    rank=rnd.randint(1,3); el=rnd.choice(['i8','i16','i32','i64']); elb={'i8':1,'i16':2,'i32':4,'i64':8}[el]
    dims=[]; cur=1; order=[]
    tb=[[rnd.choice([1,2,3,4]) for _ in range(rnd.randint(1,3))] for _ in range(rank)]
    flat=[(d,k) for d in range(rank) for k in range(len(tb[d]))]; rnd.shuffle(flat); stp={}
    for (d,k) in flat: stp[(d,k)]=cur; cur*=tb[d][k]*rnd.choice([1,1,2])
    dyn = rnd.random()<0.4
    off=rnd.choice([0,0,5])
    def lay(dynd):
        parts=[]
        for d in range(rank):
            bs=[('?' if (dynd is not None and d==dynd and k==0) else str(tb[d][k])) for k in range(len(tb[d]))]
            ss=[str(stp[(d,k)]) for k in range(len(tb[d]))]
            parts.append(f"[{', '.join(bs)}] -> ({', '.join(ss)})")
        return ", ".join(parts)+(f", offset: {off}" if off else "")
    dynd = rnd.randrange(rank) if dyn else None
    shape=[int(np.prod(tb[d])) for d in range(rank)]
    rt_shape=list(shape)
    if dynd is not None:
        inner=int(np.prod(tb[dynd][1:])) if len(tb[dynd])>1 else 1
        outer=rnd.choice([1,2,3]); rt_shape[dynd]=outer*inner + (rnd.choice([0,0,1]) if inner>1 else 0)
    tyshape="x".join('?' if d==dynd else str(shape[d]) for d in range(rank))
    ty=f'memref<{tyshape}x{el}, #tsl.tsl<{lay(dynd)}>, "L1">'
    if dynd is not None: src=f'%d = "test.op"() : () -> index\n%0 = memref.alloc(%d) {{alignment = 64 : i64}} : {ty}\n'
    else: src=f'%0 = memref.alloc() {{alignment = 64 : i64}} : {ty}\n'
    try:
        with contextlib.redirect_stderr(io.StringIO()): out=h.run(src,'memref-to-snax')
        m=Parser(ctx,out).parse_module(); size=ev(m.body.block,{'dyn':[rt_shape[dynd]] if dynd is not None else []})
    except Exception as e: st['err:'+type(e).__name__+str(e)[:40]]+=1; continue
    # reference max byte: address via mixed radix with runtime outer bound; dynamic steps: the layout in this generator has static steps only
    mx=0
    for idx in itertools.product(*[range(s) for s in rt_shape]):
        a=0
        for d in range(rank):
            i=idx[d]; bs=tb[d]
            for k in range(len(bs)):
                inner=int(np.prod(bs[k+1:])) if k+1<len(bs) else 1
                dig=i//inner if k==0 else (i%(inner*bs[k]))//inner
                a+=dig*stp[(d,k)]
        mx=max(mx,(a+off)*elb+elb)
    if size is None: st['nosize']+=1
    elif size<mx: st['TOO-SMALL'+('-dyn-nonmultiple' if dynd is not None and rt_shape[dynd]%max(1,int(np.prod(tb[dynd][1:])))!=0 else ('-dyn' if dynd is not None else ''))]+=1; print('SMALL',ty,'rt',rt_shape,'size',size,'need',mx) if st.total()<4 else None
    else: st['ok'+('-dyn' if dynd is not None else '')]+=1
print(dict(st))
