import h, random, itertools, sys, warnings
warnings.filterwarnings('ignore')
from collections import Counter
from snaxc.dialects.snax_stream import StridePattern
from snaxc.util.pack_bitlist import pack_bitlist
from xdsl.dialects import arith
rnd=random.Random(1); st=Counter()
def seq(sp):
    ub=[x.data for x in sp.upper_bounds]; ts=[x.data for x in sp.temporal_strides]
    return [sum(a*b for a,b in zip(reversed(t),ts)) for t in itertools.product(*[range(b) for b in reversed(ub)])]
for it in range(3000):
    n=rnd.randint(0,4)
    ub=[rnd.choice([0,1,1,2,3,4]) for _ in range(n)]; ts=[rnd.choice([0,1,2,4,8,6,12,16]) for _ in range(n)]
    # make some mergeable
    for i in range(1,n):
        if rnd.random()<0.4: ts[i]=ub[i-1]*ts[i-1]
    ss=[rnd.choice([0,8,8,16]) for _ in range(rnd.randint(1,2))]
    sp=StridePattern(ub,ts,ss); c=sp.canonicalize(); c2=c.canonicalize()
    if seq(c)!=seq(sp): st['seq-BAD']+=1; print('BAD',sp,c) if st['seq-BAD']<3 else None
    if c2!=c: st['idem-BAD']+=1
    st['n']+=1; st['changed']+=(c!=sp)
# pack_bitlist semantics
def evalops(ops, w):
    env={}
    for op in ops:
        if isinstance(op,arith.ConstantOp): env[op.result]=op.value.value.data & ((1<<w)-1)
        elif isinstance(op,arith.ShLIOp): env[op.result]=(env[op.lhs]<<env[op.rhs]) & ((1<<w)-1)
        elif isinstance(op,arith.OrIOp): env[op.result]=env[op.lhs]|env[op.rhs]
    return env[ops[-1].results[0]] if ops else None
for it in range(2000):
    k=rnd.randint(1,6); w=rnd.choice([32,64])
    widths=[rnd.randint(1,8) for _ in range(k)]; offs=[]; o=0
    for wd in widths: offs.append(o); o+=wd+rnd.choice([0,0,1])
    if o>w: continue
    vals=[rnd.getrandbits(wd) for wd in widths]
    order=list(range(k)); rnd.shuffle(order)
    ops=list(pack_bitlist([vals[i] for i in order],[offs[i] for i in order],w))
    r=evalops(ops,w)
    if r!=sum(v<<o_ for v,o_ in zip(vals,offs)): st['pack-BAD']+=1
    if any(((r>>offs[i])&((1<<widths[i])-1))!=vals[i] for i in range(k)): st['extract-BAD']+=1
    st['pack-n']+=1
print(dict(st))
