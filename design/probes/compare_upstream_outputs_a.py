import sys, re
from h import run
T='/repo/tests/filecheck/transforms/'
cases=[('acc-dedup.mlir','accfg-dedup',()),('accfg-trace-states.mlir','accfg-trace-states',('--split-input-file',)),
 ('accfg-config-overlap.mlir',None,()),('rocc-dedup.mlir',None,()),('convert-acc-to-csr.mlir',None,()),
 ('pipeline/pipeline-canonicalize-for.mlir','pipeline-canonicalize-for',()),('dispatch_regions.mlir','dispatch-regions',('--split-input-file',)),
 ('convert-linalg-to-kernel.mlir','convert-linalg-to-kernel',()),('dialects/../../dialects/tsl/tsl.mlir',None,())]
for f,p,extra in cases:
    src=open(T+f).read()
    runs=re.findall(r'// RUN: snax-opt (.*?)\|', src)
    for r in runs:
        args=r.replace('%s','').split()
        if '-p' in args:
            i=args.index('-p'); passes=args[i+1].strip("'"); rest=tuple(a for j,a in enumerate(args) if j not in (i,i+1))
        else: continue
        try: out=run(src,passes,rest)
        except Exception as e: out='ERR '+type(e).__name__+str(e)[:80]
        open(f'/tmp/exp/out_{sys.argv[1]}_{f.replace("/","_")}_{abs(hash(r))%1000}.txt','w').write(out)
        print(f, passes[:50], len(out))
