import h, random, itertools, copy, sys
from xdsl.dialects import arith, linalg, builtin
from xdsl.dialects.builtin import i32
from xdsl.ir import Block, Region, BlockArgument
from xdsl.pattern_rewriter import PatternRewriter
from snaxc.dialects import phs
from snaxc.phs.encode import convert_generic_body_to_phs
from snaxc.phs.combine import append_to_abstract_graph
from snaxc.phs.decode import decode_abstract_graph, MappingNotFoundError
OPS={'addi':(arith.AddiOp,lambda a,b:(a+b)&0xffffffff),'subi':(arith.SubiOp,lambda a,b:(a-b)&0xffffffff),'muli':(arith.MuliOp,lambda a,b:(a*b)&0xffffffff),
     'andi':(arith.AndIOp,lambda a,b:a&b),'ori':(arith.OrIOp,lambda a,b:a|b),'xori':(arith.XOrIOp,lambda a,b:a^b)}
SEM={v[0]:v[1] for v in OPS.values()}
def gen_kernel(rnd, nargs):
    # list of (opname, src1, src2) ; src = ('a',i) or ('n',j)
    n=rnd.randint(1,3); ks=[]
    for j in range(n):
        srcs=[('a',i) for i in range(nargs)]+[('n',k) for k in range(j)]
        ks.append((rnd.choice(list(OPS)), rnd.choice(srcs), rnd.choice(srcs)))
    return ks
def used_args(k, nargs):
    # every block arg must be used somewhere (encode erases unused args) -> force
    u=set()
    for _,s1,s2 in k:
        for s in (s1,s2):
            if s[0]=='a': u.add(s[1])
    return u
def build_pe(k, nargs, name='acc'):
    blk=Block(arg_types=[i32]*nargs+[i32])  # last = linalg out arg (unused -> erased)
    vals=[]
    for opn,s1,s2 in k:
        get=lambda s: blk.args[s[1]] if s[0]=='a' else vals[s[1]].results[0]
        op=OPS[opn][0](get(s1),get(s2)); blk.add_op(op); vals.append(op)
    blk.add_op(linalg.YieldOp(vals[-1]))
    class Fake: body=Region(blk)
    dummy=arith.ConstantOp.from_int_and_width(0,32); _m=builtin.ModuleOp([dummy])
    return convert_generic_body_to_phs(Fake(), name, PatternRewriter(dummy))
def eval_kernel(k, args):
    vals=[]
    for opn,s1,s2 in k:
        get=lambda s: args[s[1]] if s[0]=='a' else vals[s[1]]
        vals.append(OPS[opn][1](get(s1),get(s2)))
    return vals[-1]
def eval_pe(pe, data, switches):
    env={}
    nd=len(pe.data_operands())
    for a,v in zip(pe.body.block.args, list(data)+list(switches)): env[a]=v
    for op in pe.body.block.ops:
        if isinstance(op, phs.ChooseOp):
            sw=env[op.switch]; reg=op.regions[sw]
            inner=reg.block.first_op
            a=[env[x] for x in op.data_operands]
            loc={ba:v for ba,v in zip(reg.block.args,a)}
            env[op.results[0]]=SEM[type(inner)](loc[inner.operands[0]],loc[inner.operands[1]])
        elif isinstance(op, phs.MuxOp):
            env[op.res]=env[op.rhs] if env[op.switch]==1 else env[op.lhs]
        elif isinstance(op, phs.YieldOp):
            return env[op.operands[0]]
def full_switches(abst, decoded):
    it=iter(decoded); out=[]
    for sw in abst.get_switches():
        u=sw.get_user_of_unique_use()
        if isinstance(u, phs.ChooseOp) and len(list(u.operations()))==1: out.append(0)
        else: out.append(next(it))
    assert next(it,None) is None
    return out
rnd=random.Random(int(sys.argv[1])); N=int(sys.argv[2]); stats={}
def bump(k): stats[k]=stats.get(k,0)+1
for it in range(N):
    nargs=rnd.randint(2,3); hist=[]
    while len(hist)<rnd.randint(1,5):
        k=gen_kernel(rnd,nargs)
        if used_args(k,nargs)==set(range(nargs)): hist.append(k)
    try:
        abst=build_pe(hist[0],nargs)
        for k in hist[1:]: append_to_abstract_graph(build_pe(k,nargs), abst)
    except Exception as e:
        bump('combine-err:'+type(e).__name__+':'+str(e)[:60]); continue
    for k in hist:
        try:
            dec=decode_abstract_graph(abst, build_pe(k,nargs))
            if len(dec)!=abst.get_true_switches(): bump('switchcount-mismatch')
            sws=full_switches(abst,dec)
        except MappingNotFoundError as e: bump('UNDECODABLE'); 
        except Exception as e: bump('decode-err:'+type(e).__name__+':'+str(e)[:60])
        else:
            ok=True
            for _ in range(20):
                data=[rnd.choice([0,1,2,3,0xffffffff,rnd.getrandbits(32)]) for _ in range(nargs)]
                if eval_pe(abst,data,sws)!=eval_kernel(k,data): ok=False; break
            bump('ok' if ok else 'WRONG-FUNCTION')
            if not ok and stats['WRONG-FUNCTION']<=2: print('WRONG', hist, 'kernel', k, 'switches', sws); print(abst)
print(stats)
