import h
from xdsl.ir import Block, Region
from xdsl.dialects import builtin, arith, test
from xdsl.dialects.builtin import i8, i32, IndexType
from snaxc.dialects import dart, kernel, snax_stream
from snaxc.accelerators.snax_gemmx import SNAXGEMMXAccelerator
from snaxc.accelerators.snax_hwpe_mult import SNAXHWPEMultAccelerator
from snaxc.accelerators.snax_xdma import SNAXXDMAAccelerator
ptrs = [test.TestOp(result_types=[IndexType()]) for _ in range(5)]
# rescale-only body
inner = Block(arg_types=[i32, i8])
r = kernel.RescaleOp(inner.args[0], i8, 1, 2, [3], [4], 127, -128, False)
inner.add_ops([r, dart.YieldOp(r)])
outer = Block(arg_types=[dart.StreamType(i32), dart.StreamType(i8)])
g = dart.GenericOp([outer.args[0]], Region(inner), result_types=[dart.StreamType(i8)])
outer.add_ops([g, dart.YieldOp(g)])
sp = [snax_stream.StridePattern([2,3],[64,128],[8])]*3 + [snax_stream.StridePattern([2,3],[64,128],[8,64])]*2
op = snax_stream.StreamingRegionOp([p.res[0] for p in ptrs[:4]],[ptrs[4].res[0]], sp, "snax_gemmx", Region(outer))
acc = SNAXGEMMXAccelerator()
vals, _ = acc._generate_setup_vals(op)
print('gemmx rescale: fields', len(acc.fields), 'vals', len(vals))
names = list(acc.fields)
print(names[-14:])
# hwpe
a = SNAXHWPEMultAccelerator()
print('hwpe fields', a.fields)
import inspect; src = inspect.getsource(a._generate_setup_vals); print(src[src.rfind('return'):].strip())
# xdma fields vs default
from snaxc.accelerators.streamers.streamers import Streamer, StreamerConfiguration, StreamerSystemType, StreamerType
from snaxc.accelerators.streamers.extensions import *
cfg = StreamerConfiguration([Streamer(StreamerType.Reader,["n"],[8],[AddExtension()]), Streamer(StreamerType.Writer,["n"],[8],[])], StreamerSystemType.DmaExt)
x = SNAXXDMAAccelerator(cfg)
print('xdma fields (no chanmask opts):', x.fields)
