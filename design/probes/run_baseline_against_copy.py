import sys, os
sys.path.insert(0, os.environ.get('SNAXROOT','/repo'))
import snaxc; print(snaxc.__file__)
import pytest
sys.exit(pytest.main(['-q','-p','no:cacheprovider','--continue-on-collection-errors','/repo/tests','--rootdir','/tmp/exp']))
