from h import run
import hashlib,re
T='/repo/tests/filecheck/'
for f in ['transforms/set-memory-layout.mlir','transforms/insert-acc-op.mlir','transforms/convert-dart-to-snax-stream.mlir','transforms/dart/dart-scheduler.mlir','dialects/snax/snax_ops.mlir','dialects/snax_stream/snax_stream_ops.mlir','transforms/pipeline/construct-pipeline.mlir','transforms/pipeline/unroll-pipeline.mlir','transforms/pipeline/pipeline-duplicate-buffers.mlir','transforms/insert-sync-barrier.mlir','transforms/convert-kernel-to-linalg.mlir']:
    src=open(T+f).read()
    for r in re.findall(r'// ?RUN: (.*)', src):
        r=r.split('|')[0]
        if 'snax-opt' not in r: 
            if 'XDSL' in r: a=['--print-op-generic','--split-input-file']; passes='dce'
            else: continue
        else:
            a=r.replace('snax-opt','').replace('%s','').split(); passes='dce'
            if '-p' in a: i=a.index('-p'); passes=a[i+1].strip("'"); a=a[:i]+a[i+2:]
        try: out=run(src,passes,tuple(a))
        except BaseException as e: out='ERR '+type(e).__name__
        print(f, passes[:60], hashlib.md5(out.encode()).hexdigest()[:10], len(out))
