from h import run
src = '''
%0 = memref.alloc() : memref<1x2xi8>
%1 = memref.alloc() : memref<1x2xi8>
%2 = memref.alloc() : memref<1x2xi8>
%3 = memref.alloc() : memref<1x2xi8>
%lb = arith.constant 4 : index
%ub = arith.constant 10 : index
%step = arith.constant 2 : index
scf.for %i = %lb to %ub step %step {
  %sv = "test.op"(%i) : (index) -> (index)
  "memref.copy"(%0, %1) : (memref<1x2xi8>, memref<1x2xi8>) -> ()
  "snax.cluster_sync_op"() : () -> ()
  "dart.operation"(%1, %2) <{patterns = [], operandSegmentSizes = array<i32: 1, 1>}> ({
    dart.yield
  }) : (memref<1x2xi8>, memref<1x2xi8>) -> ()
  "snax.cluster_sync_op"() : () -> ()
  "memref.copy"(%2, %3) : (memref<1x2xi8>, memref<1x2xi8>) -> ()
  "snax.cluster_sync_op"() : () -> ()
}
'''
print(run(src, 'construct-pipeline,pipeline-duplicate-buffers,unroll-pipeline'))
