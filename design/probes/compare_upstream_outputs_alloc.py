import shim, sys, types, io, contextlib, tempfile, os, hashlib
sys.path.insert(0, os.environ.get("SNAXROOT","/repo"))
exec(open('/tmp/exp/t17.py').read().split("from snaxc.tools.snax_opt_main import SNAXOptMain")[0].split("import shim, sys, types, io, contextlib, tempfile, os\n")[1].replace("print('BUFFERS'","(lambda *a,**k: None)('BUFFERS'"))
from snaxc.tools.snax_opt_main import SNAXOptMain
def run(src,passes,extra=()):
    with tempfile.NamedTemporaryFile('w',suffix='.mlir',delete=False) as f: f.write(src); fn=f.name
    out=io.StringIO()
    try:
        with contextlib.redirect_stdout(out): SNAXOptMain(args=[fn,'-p',passes,*extra]).run()
    finally: os.unlink(fn)
    return out.getvalue()
T='/repo/tests/filecheck/transforms/'
for f,p in [('convert-memref-to-arith.mlir','convert-memref-to-arith'),('snax-allocate-minimalloc.mlir','snax-allocate{mode=minimalloc}'),('snax-allocate.mlir','snax-allocate{mode=auto}'),('snax-allocate-static.mlir','snax-allocate{mode=static}')]:
    src=open(T+f).read()
    try: out=run(src,p,('--split-input-file',))
    except BaseException as e: out='ERR'+type(e).__name__
    print(f, hashlib.md5(out.encode()).hexdigest()[:10], len(out))
