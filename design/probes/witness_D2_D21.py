from h import run
L = lambda s: f'''  %t{s} = "accfg.launch"(%s{s}) <{{param_names = [], accelerator = "snax_hwpe_mult"}}> : (!accfg.state<"snax_hwpe_mult">) -> !accfg.token<"snax_hwpe_mult">
  "accfg.await"(%t{s}) : (!accfg.token<"snax_hwpe_mult">) -> ()
'''
S = lambda s, a, b: f'  %s{s} = accfg.setup "snax_hwpe_mult" to ("A" = %{a} : i32, "B" = %{b} : i32) : !accfg.state<"snax_hwpe_mult">\n'
# D2 zero-trip: s0 A=w ; loop { s1 A=i-dependent ; launch ; s2 A=z; launch } ; s3 A=z ; launch
src = f'''
func.func @f(%w : i32, %y : i32, %z : i32, %lb : index, %ub : index, %st : index) {{
{S(0,'w','y')}{L(0)}
  scf.for %i = %lb to %ub step %st {{
    %ii = arith.index_cast %i : index to i32
{S(1,'ii','y')}{L(1)}
{S(2,'z','y')}{L(2)}
  }}
{S(3,'z','y')}{L(3)}
  func.return
}}
'''
print("=== D2 zero trip"); print(run(src, 'accfg-trace-states,accfg-dedup'))
# hoistIf with operand defined after the if
src = f'''
func.func @f(%w : i32, %y : i32, %z : i32, %c : i1) {{
{S(0,'w','y')}{L(0)}
  %r = scf.if %c -> (i32) {{
{S(1,'z','y')}{L(1)}
    scf.yield %z : i32
  }} else {{
    scf.yield %w : i32
  }}
  %v = arith.addi %r, %z : i32
{S(3,'v','y')}{L(3)}
  func.return
}}
'''
print("=== hoistIf dominance"); 
try: print(run(src, 'accfg-trace-states,accfg-dedup'))
except Exception as e: print('ERR', type(e).__name__, str(e)[:300])
