import h, sys, io, contextlib, warnings, itertools, random
warnings.filterwarnings('ignore')
from xdsl.parser import Parser
from xdsl.dialects import func, memref, linalg, builtin, test, arith, scf, cf
from snaxc.tools.snax_opt_main import SNAXOptMain
ctx = SNAXOptMain(args=['/dev/null','--allow-unregistered-dialect']).ctx
T='memref<64xi32>'
class G:
    def __init__(s,r): s.r=r; s.n=0
    def leaf(s,ind):
        s.n+=1; k=s.r.random()
        if k<0.35: return [f'{ind}"memref.copy"(%a, %b) {{tag = {s.n}}} : ({T}, {T}) -> ()']
        if k<0.7: return [f'''{ind}linalg.generic {{indexing_maps = [affine_map<(d0) -> (d0)>, affine_map<(d0) -> (d0)>], iterator_types = ["parallel"]}} ins(%a : {T}) outs(%b : {T}) attrs = {{tag = {s.n}}} {{
{ind}^bb0(%x: i32, %y: i32):
{ind}  linalg.yield %x : i32
{ind}}}''']
        return [f'{ind}"test.op"() {{tag = {s.n}}} : () -> ()']
    def block(s,depth,ind,n):
        out=[]
        for _ in range(n):
            k=s.r.random()
            if k<0.7 or depth==0: out+=s.leaf(ind)
            elif k<0.85:
                out.append(f'{ind}scf.if %c{s.r.randint(0,1)} {{'); out+=s.block(depth-1,ind+'  ',s.r.randint(0,3)); out.append(f'{ind}}} else {{'); out+=s.block(depth-1,ind+'  ',s.r.randint(0,2)); out.append(f'{ind}}}')
            else:
                s.n+=1; out.append(f'{ind}scf.for %i{s.n} = %lb to %ub step %st {{'); out+=s.block(depth-1,ind+'  ',s.r.randint(0,3)); out.append(f'{ind}}}')
        return out
    def prog(s, blocks):
        body=[]
        for bi in range(blocks):
            if bi>0: body.append(f'^bb{bi}:')
            body+=s.block(2,'  ',s.r.randint(1,4))
            body.append(f'  cf.br ^bb{bi+1}' if bi<blocks-1 else '  func.return')
        return f'func.func @f(%a : {T}, %b : {T}, %c0 : i1, %c1 : i1, %lb : index, %ub : index, %st : index) {{\n'+"\n".join(body)+'\n}\n'
def run(block, env, tr, core):
    op=block.first_op
    while op is not None:
        if isinstance(op, arith.ConstantOp): env[op.result]=op.value.value.data
        elif isinstance(op, arith.CmpiOp): env[op.result]=int(env[op.lhs]==env[op.rhs])
        elif isinstance(op, func.CallOp): env[op.res[0]]=core
        elif isinstance(op,(memref.CopyOp,linalg.GenericOp,test.TestOp)): tr.append(op.attributes['tag'].value.data)
        elif isinstance(op, scf.IfOp):
            reg=op.true_region if env[op.cond] else op.false_region
            if reg.blocks: run(reg.block, env, tr, core)
        elif isinstance(op, scf.ForOp):
            i=env[op.lb]
            while i<env[op.ub]: env[op.body.block.args[0]]=i; run(op.body.block,env,tr,core); i+=env[op.step]
        elif isinstance(op, cf.BranchOp): return run(op.successor, env, tr, core)
        elif isinstance(op,(scf.YieldOp,func.ReturnOp,linalg.YieldOp)): pass
        else: raise NotImplementedError(op.name)
        op=op.next_op
def traces(txt, nb, kinds):
    f=[o for o in Parser(ctx,txt).parse_module().ops if isinstance(o,func.FuncOp) and o.sym_name.data=='f'][0]
    out={}
    for core in range(nb):
        for c0,c1,trip in itertools.product([0,1],[0,1],[0,1,2]):
            tr=[]; a=f.body.blocks[0].args; env={a[2]:c0,a[3]:c1,a[4]:0,a[5]:trip,a[6]:1}
            run(f.body.blocks[0],env,tr,core); out[(core,c0,c1,trip)]=tr
    return out
rnd=random.Random(int(sys.argv[1])); bad=0; N=int(sys.argv[2]); blocks=int(sys.argv[3])
for it in range(N):
    g=G(rnd); src=g.prog(rnd.randint(1,blocks)); nb=rnd.randint(2,4)
    out=h.run(src,f'dispatch-regions{{nb_cores={nb}}}')
    # classify tags from source
    f0=[o for o in Parser(ctx,src).parse_module().ops if isinstance(o,func.FuncOp)][0]
    kind={}
    for op in f0.walk():
        if isinstance(op,memref.CopyOp): kind[op.attributes['tag'].value.data]='dm'
        elif isinstance(op,linalg.GenericOp): kind[op.attributes['tag'].value.data]='cp'
        elif isinstance(op,test.TestOp): kind[op.attributes['tag'].value.data]='all'
    t0=traces(src,nb,kind); t1=traces(out,nb,kind)
    ok=True
    for key,tr in t0.items():
        core=key[0]
        exp=[t for t in tr if kind[t]=='all' or (kind[t]=='dm' and core==nb-1) or (kind[t]=='cp' and core==0)]
        if t1[key]!=exp: ok=False; break
    if not ok:
        bad+=1
        if bad<=1: print(src); print(out); print(key, exp, t1[key])
print('N',N,'bad',bad)
