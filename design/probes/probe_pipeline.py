import h, sys, io, contextlib, warnings, itertools
warnings.filterwarnings('ignore')
from xdsl.parser import Parser
from xdsl.dialects import arith, scf, func, memref, builtin, test
from snaxc.dialects import dart, snax
from snaxc.tools.snax_opt_main import SNAXOptMain
ctx = SNAXOptMain(args=['/dev/null','--allow-unregistered-dialect']).ctx
def prog(N, S):
    # S stages: copy in->b1 ; op b1->b2 ; ... ; copy b_{S-1} -> out   (S=2: copy, copy) (S=3: copy, op, copy) (S=4: copy, op, op, copy)
    bufs=[f'%b{j}' for j in range(1,S)]
    lines=[f'%in = memref.alloc() : memref<16xi8>', f'%out = memref.alloc() : memref<16xi8>']
    lines+=[f'{b} = memref.alloc() : memref<1xi8>' for b in bufs]
    lines+=['%lb = arith.constant 0 : index', f'%ub = arith.constant {N} : index', '%step = arith.constant 1 : index']
    body=['  %sin = memref.subview %in[%i] [1] [1] : memref<16xi8> to memref<1xi8, strided<[1], offset: ?>>',
          '  %sout = memref.subview %out[%i] [1] [1] : memref<16xi8> to memref<1xi8, strided<[1], offset: ?>>']
    T1='memref<1xi8, strided<[1], offset: ?>>'; T='memref<1xi8>'
    body.append(f'  "memref.copy"(%sin, {bufs[0]}) : ({T1}, {T}) -> ()'); body.append('  "snax.cluster_sync_op"() : () -> ()')
    for j in range(S-2):
        body.append(f'  "dart.operation"({bufs[j]}, {bufs[j+1]}) <{{patterns = [], operandSegmentSizes = array<i32: 1, 1>}}> ({{\n    dart.yield\n  }}) : ({T}, {T}) -> ()')
        body.append('  "snax.cluster_sync_op"() : () -> ()')
    body.append(f'  "memref.copy"({bufs[-1]}, %sout) : ({T}, {T1}) -> ()'); body.append('  "snax.cluster_sync_op"() : () -> ()')
    return "\n".join(lines)+'\nscf.for %i = %lb to %ub step %step {\n'+"\n".join(body)+'\n}\n'
class M:
    def __init__(s): s.mem={}; s.epochs=[[]]; s.nalloc=0
def ev(block, env, m):
    for op in block.ops:
        if isinstance(op, arith.ConstantOp): env[op.result]=op.value.value.data
        elif isinstance(op, arith.SubiOp): env[op.result]=env[op.lhs]-env[op.rhs]
        elif isinstance(op, arith.AddiOp): env[op.result]=env[op.lhs]+env[op.rhs]
        elif isinstance(op, arith.RemUIOp): env[op.result]=env[op.lhs]%env[op.rhs] if env[op.lhs]>=0 else ('NEG',env[op.lhs])
        elif isinstance(op, arith.CmpiOp): env[op.result]=int(env[op.lhs]==env[op.rhs])
        elif isinstance(op, arith.SelectOp): env[op.result]=env[op.lhs] if env[op.cond] else env[op.rhs]
        elif isinstance(op, memref.AllocOp): m.nalloc+=1; env[op.memref]=('buf',m.nalloc,0) if op.memref.type.get_shape()==(1,) else ('big',m.nalloc)
        elif isinstance(op, memref.SubviewOp):
            base=env[op.source]; off=env[op.offsets[0]]; env[op.result]=('elt',base[1],off)
        elif isinstance(op, memref.CopyOp): m.epochs[-1].append(('copy',env[op.source],env[op.destination]))
        elif isinstance(op, dart.OperationOp): m.epochs[-1].append(('op',env[op.operands[0]],env[op.operands[1]]))
        elif isinstance(op, snax.ClusterSyncOp): m.epochs.append([])
        elif isinstance(op, scf.ForOp):
            i=env[op.lb]
            while i<env[op.ub]:
                env[op.body.block.args[0]]=i; ev(op.body.block, env, m); i+=env[op.step]
        elif isinstance(op,(scf.YieldOp,)): pass
        else: raise NotImplementedError(op.name)
def simulate(epochs, order):
    mem={}
    def rd(loc): return mem.get(loc, ('init',loc))
    for e in epochs:
        for k in order(e):
            kind,src,dst=e[k]
            mem[dst]= rd(src) if kind=='copy' else ('f',rd(src))
    return mem
def races(epochs):
    r=[]
    for ei,e in enumerate(epochs):
        for (a,b) in itertools.combinations(e,2):
            if a[2]==b[2] or a[2]==b[1] or a[1]==b[2]: r.append((ei,a,b))
    return r
res={}
for S in (2,3,4):
  for N in range(0,9):
    src=prog(N,S)
    try:
        with contextlib.redirect_stderr(io.StringIO()):
            out=h.run(src,'construct-pipeline,pipeline-duplicate-buffers,unroll-pipeline')
    except Exception as e:
        res[(S,N)]='ERR '+type(e).__name__+str(e)[:40]; continue
    m0=M(); ev(Parser(ctx,src).parse_module().body.block,{},m0)
    m1=M(); 
    try: ev(Parser(ctx,out).parse_module().body.block,{},m1)
    except Exception as e: res[(S,N)]='EVAL-ERR '+type(e).__name__+str(e)[:40]; continue
    ref=simulate(m0.epochs, lambda e: range(len(e)))
    refout={k:v for k,v in ref.items() if k[0]=='elt'}
    rc=races(m1.epochs)
    fwd=simulate(m1.epochs, lambda e: range(len(e))); bwd=simulate(m1.epochs, lambda e: reversed(range(len(e))))
    # map big-buffer ids: in=1,out=2 in both
    f={k:v for k,v in fwd.items() if k[0]=='elt'}; b_={k:v for k,v in bwd.items() if k[0]=='elt'}
    def norm(d):  # strip buffer ids inside 'init' of elt
        return {k:repr(v) for k,v in d.items()}
    touched=sorted(set(x[2] for e in m1.epochs for ev_ in e for x in ev_[1:] if x[0]=='elt'))
    ok = norm(f)==norm(refout) and norm(b_)==norm(refout) and not rc and all(0<=t<N for t in touched)
    res[(S,N)]='ok' if ok else f'BAD races={len(rc)} same_fwd={norm(f)==norm(refout)} same_bwd={norm(b_)==norm(refout)} touched={touched[:6]}'
for k in sorted(res): print(k,res[k])
