import h, random, itertools, re, io, contextlib, warnings
warnings.filterwarnings('ignore')
from h import run
import numpy as np
from xdsl.parser import Parser
from snaxc.tools.snax_opt_main import SNAXOptMain
from snaxc.dialects.tsl import TiledStridedLayoutAttr
ctx = SNAXOptMain(args=['/dev/null']).ctx
rnd = random.Random(1)
def amap(n, rows):
    exprs=[]
    for r in rows:
        terms=[ (f"d{k} * {c}" if c!=1 else f"d{k}") for k,c in enumerate(r) if c]
        exprs.append(" + ".join(terms) if terms else "0")
    return f"affine_map<({', '.join(f'd{k}' for k in range(n))}) -> ({', '.join(exprs)})>"
def mk(n, bounds, rows_per_operand, elty='i64'):
    shapes=[]
    for rows in rows_per_operand:
        shapes.append([sum(c*(b-1) for c,b in zip(r,bounds))+1 for r in rows])
    tys=[f"memref<{'x'.join(map(str,s))}x{elty}, \"L1\">" for s in shapes]
    pats=", ".join(amap(n,rows) for rows in rows_per_operand)
    bstr=", ".join(f"{b} : index" for b in bounds)
    return shapes, f'''
func.func @f(%a : {tys[0]}, %b : {tys[1]}, %c : {tys[2]}) {{
  "dart.schedule"(%a, %b, %c) <{{patterns = [{pats}], accelerator = "snax_alu", tiles = [[]], bounds = [{bstr}], operandSegmentSizes = array<i32: 2, 1>}}> ({{
  ^bb0(%0 : !dart.stream<{elty}>, %1 : !dart.stream<{elty}>, %2 : !dart.stream<{elty}>):
    %3 = "dart.generic"(%0, %1) <{{library_call = "snax_alu"}}> ({{
    ^bb1(%x : {elty}, %y : {elty}, %z : {elty}):
      %4 = kernel.add %x, %y : {elty}, {elty} -> {elty}
      dart.yield %4 : {elty}
    }}) : (!dart.stream<{elty}>, !dart.stream<{elty}>) -> !dart.stream<{elty}>
    dart.yield %3 : !dart.stream<{elty}>
  }}) : ({tys[0]}, {tys[1]}, {tys[2]}) -> ()
  func.return
}}'''
def gen_rows(n,rank):
    rows=[[0]*n for _ in range(rank)]
    for k in range(n):
        j=rnd.randint(-1,rank-1)   # -1: dim not used by this operand (broadcast/reduction)
        if j>=0: rows[j][k]=rnd.choice([1,1,1,2,3])
    return rows
bad=0; tot=0; errs={}
for it in range(400):
    n=rnd.randint(1,4); bounds=[rnd.choice([1,2,3,4,6,8]) for _ in range(n)]
    rank=rnd.randint(1,2)
    rows_per=[gen_rows(n,rank) for _ in range(3)]
    elty=rnd.choice(['i8','i16','i32','i64'])
    shapes, src = mk(n,bounds,rows_per,elty)
    if any(0 in s for s in shapes): continue
    for tiled in ('true','false'):
        try:
            out = run(src, 'set-memory-layout{tiled=%s}'%tiled)
        except Exception as e:
            errs[type(e).__name__]=errs.get(type(e).__name__,0)+1; continue
        tot+=1
        lays = re.findall(r'#tsl\.tsl<[^>]*>[^>]*>', out)
        casts = [l for l in out.splitlines() if 'snax.layout_cast' in l]
        for shp, line in zip(shapes, casts):
            t = line[line.index('#tsl.tsl'):]; t=t[:t.index('>, "L1"')+1]
            tsl = Parser(ctx, t).parse_attribute().data
            prods=[int(np.prod([s.bound for s in ts.strides])) for ts in tsl.tstrides]
            ov = tsl.self_overlaps()
            if ov or prods!=shp:
                bad+=1
                if bad<=8: print('tiled',tiled,'bounds',bounds,'rows',rows_per[casts.index(line)],'shape',shp,'elty',elty,'->',t,'prods',prods,'overlap',ov)
print('total',tot,'bad',bad,'errs',errs)
