import h, random, itertools, sys, warnings, signal
warnings.filterwarnings('ignore')
import numpy as np
from collections import Counter
from xdsl.ir.affine import AffineMap, AffineDimExpr, AffineConstantExpr, AffineBinaryOpExpr, AffineBinaryOpKind
from snaxc.util.canonicalize_affine import canonicalize_expr, canonicalize_map
rnd=random.Random(int(sys.argv[1])); st=Counter()
def gen(d):
    if d==0 or rnd.random()<0.25:
        return AffineDimExpr(rnd.randrange(3)) if rnd.random()<0.6 else AffineConstantExpr(rnd.choice([-3,-1,0,1,1,2,3,4,8]))
    k=rnd.choice(['+','+','*','//','%'])
    a=gen(d-1)
    if k=='+': return AffineBinaryOpExpr(AffineBinaryOpKind.Add,a,gen(d-1))
    c=AffineConstantExpr(rnd.choice([1,1,2,3,4,8,-2]))
    if k=='*':
        return AffineBinaryOpExpr(AffineBinaryOpKind.Mul,a,c) if rnd.random()<0.7 else AffineBinaryOpExpr(AffineBinaryOpKind.Mul,c,a)
    if k=='//': return AffineBinaryOpExpr(AffineBinaryOpKind.FloorDiv,a,c)
    return AffineBinaryOpExpr(AffineBinaryOpKind.Mod,a,c)
def to(*a): raise TimeoutError()
signal.signal(signal.SIGALRM,to)
pts=list(itertools.product(range(-3,6),repeat=3))[::7]
for it in range(int(sys.argv[2])):
    e=gen(4)
    signal.alarm(5)
    try:
        c=canonicalize_expr(e)
        c2=canonicalize_expr(c)
    except TimeoutError: st['HANG']+=1; print('HANG',e); continue
    except AssertionError: st['ASSERT']+=1; (print('ASSERT',e) if st['ASSERT']<3 else None); continue
    except RecursionError: st['RECURSION']+=1; print('REC',e) if st['RECURSION']<3 else None; continue
    finally: signal.alarm(0)
    if c2!=c: st['not-idempotent']+=1
    m=AffineMap(3,0,(e,)); mc=AffineMap(3,0,(c,))
    for p in pts:
        try: v=m.eval(list(p),[])
        except ZeroDivisionError: continue
        if mc.eval(list(p),[])!=v: st['SEMANTIC-BAD']+=1; print('BAD',e,'->',c,p); break
    st['n']+=1; st['changed']+= (c!=e)
print(dict(st))
