import h, sys, io, contextlib, warnings, itertools, random
warnings.filterwarnings('ignore')
from xdsl.parser import Parser
from xdsl.dialects import func, memref, linalg, builtin, test
from snaxc.dialects import snax
from snaxc.tools.snax_opt_main import SNAXOptMain
ctx = SNAXOptMain(args=['/dev/null','--allow-unregistered-dialect']).ctx
T='memref<64xi32>'
def G(a,b,c): return f'''  linalg.generic {{indexing_maps = [affine_map<(d0) -> (d0)>, affine_map<(d0) -> (d0)>, affine_map<(d0) -> (d0)>], iterator_types = ["parallel"]}} ins(%{a}, %{b} : {T}, {T}) outs(%{c} : {T}) {{
    ^bb0(%x: i32, %y: i32, %z: i32):
      %m = arith.muli %x, %y : i32
      linalg.yield %m : i32
    }}'''
def gen(rnd, n, nb, with_global):
    bufs=[f'b{i}' for i in range(nb)]; ops=[]; desc=[]
    for _ in range(n):
        k=rnd.random()
        if k<0.4:
            s,d=rnd.sample(bufs,2); ops.append(f'  "memref.copy"(%{s}, %{d}) : ({T}, {T}) -> ()'); desc.append(('dm',{s},{d}))
        elif k<0.8 or not with_global:
            a,b,c=rnd.choice(bufs),rnd.choice(bufs),rnd.choice(bufs); ops.append(G(a,b,c)); desc.append(('cp',{a,b},{c}))
        else:
            a=rnd.choice(bufs); ops.append(f'  "test.op"(%{a}) : ({T}) -> ()'); desc.append(('all',{a},{a}))
    args=", ".join(f'%{b} : {T}' for b in bufs)
    return f'func.func @f({args}) {{\n'+"\n".join(ops)+'\n  func.return\n}\n', desc
rnd=random.Random(int(sys.argv[1])); stats={'ok':0,'missing':0}; shown=0
for it in range(int(sys.argv[2])):
    src,desc=gen(rnd, rnd.randint(2,7), rnd.randint(2,4), with_global=(sys.argv[3]=='g'))
    out=h.run(src,'insert-sync-barrier')
    f=[o for o in Parser(ctx,out).parse_module().ops if isinstance(o,func.FuncOp)][0]
    seq=[]  # sequence of 'sync' or op index
    k=0
    for op in f.body.block.ops:
        if isinstance(op, snax.ClusterSyncOp): seq.append('sync')
        elif isinstance(op,(memref.CopyOp, linalg.GenericOp, test.TestOp)): seq.append(k); k+=1
    pos={v:i for i,v in enumerate(seq) if v!='sync'}
    miss=[]
    for i,j in itertools.combinations(range(len(desc)),2):
        (c1,r1,w1),(c2,r2,w2)=desc[i],desc[j]
        if c1==c2: continue
        if (w1&(r2|w2)) or (r1&w2):
            if 'sync' not in seq[pos[i]:pos[j]]: miss.append((i,j))
    if miss:
        stats['missing']+=1
        if shown<2: shown+=1; print('MISSING',miss,desc); print(out)
    else: stats['ok']+=1
print(stats)
