from h import run
G = lambda a,b,c: f'''    linalg.generic {{indexing_maps = [affine_map<(d0) -> (d0)>, affine_map<(d0) -> (d0)>, affine_map<(d0) -> (d0)>], iterator_types = ["parallel"]}} ins(%{a}, %{b} : memref<64xi32>, memref<64xi32>) outs(%{c} : memref<64xi32>) {{
    ^bb0(%x: i32, %y: i32, %z: i32):
      %m = arith.muli %x, %y : i32
      linalg.yield %m : i32
    }}
'''
src = f'''
func.func @f(%a : memref<64xi32>, %b : memref<64xi32>, %c : memref<64xi32>, %cond : i1) {{
  "memref.copy"(%a, %b) : (memref<64xi32>, memref<64xi32>) -> ()
  scf.if %cond {{
{G('b','b','c')}
  }}
{G('b','b','c')}
  func.return
}}
'''
print("=== barrier if"); print(run(src, 'insert-sync-barrier'))
src = f'''
func.func @f(%a : memref<64xi32>, %b : memref<64xi32>, %c : memref<64xi32>, %cond : i1) {{
  "memref.copy"(%a, %b) : (memref<64xi32>, memref<64xi32>) -> ()
  cf.br ^bb1
^bb1:
  "memref.copy"(%a, %c) : (memref<64xi32>, memref<64xi32>) -> ()
  func.return
}}
'''
print("=== dispatch multiblock"); print(run(src, 'dispatch-regions'))
src = f'''
func.func @f(%a : memref<64xi32>, %b : memref<64xi32>, %c : memref<64xi32>, %cond : i1) {{
  %sv = "memref.subview"(%b) <{{static_offsets = array<i64: 0>, static_sizes = array<i64: 64>, static_strides = array<i64: 1>, operandSegmentSizes = array<i32: 1, 0, 0, 0>}}> : (memref<64xi32>) -> memref<64xi32>
{G('a','a','sv')}
  "memref.copy"(%b, %c) : (memref<64xi32>, memref<64xi32>) -> ()
  func.return
}}
'''
print("=== barrier subview"); print(run(src, 'insert-sync-barrier'))
