from h import run
src = '''
func.func @f(%x : i32, %y : i32, %z : i32, %lb : index, %ub : index, %st : index) {
  %s0 = accfg.setup "snax_hwpe_mult" to ("A" = %x : i32, "B" = %y : i32) : !accfg.state<"snax_hwpe_mult">
  %t0 = "accfg.launch"(%s0) <{param_names = [], accelerator = "snax_hwpe_mult"}> : (!accfg.state<"snax_hwpe_mult">) -> !accfg.token<"snax_hwpe_mult">
  "accfg.await"(%t0) : (!accfg.token<"snax_hwpe_mult">) -> ()
  scf.for %i = %lb to %ub step %st {
    %s1 = accfg.setup "snax_hwpe_mult" to ("A" = %x : i32, "B" = %y : i32) : !accfg.state<"snax_hwpe_mult">
    %t1 = "accfg.launch"(%s1) <{param_names = [], accelerator = "snax_hwpe_mult"}> : (!accfg.state<"snax_hwpe_mult">) -> !accfg.token<"snax_hwpe_mult">
    "accfg.await"(%t1) : (!accfg.token<"snax_hwpe_mult">) -> ()
    %s2 = accfg.setup "snax_hwpe_mult" to ("A" = %z : i32, "B" = %y : i32) : !accfg.state<"snax_hwpe_mult">
    %t2 = "accfg.launch"(%s2) <{param_names = [], accelerator = "snax_hwpe_mult"}> : (!accfg.state<"snax_hwpe_mult">) -> !accfg.token<"snax_hwpe_mult">
    "accfg.await"(%t2) : (!accfg.token<"snax_hwpe_mult">) -> ()
  }
  %s3 = accfg.setup "snax_hwpe_mult" to ("A" = %z : i32, "B" = %y : i32) : !accfg.state<"snax_hwpe_mult">
  %t3 = "accfg.launch"(%s3) <{param_names = [], accelerator = "snax_hwpe_mult"}> : (!accfg.state<"snax_hwpe_mult">) -> !accfg.token<"snax_hwpe_mult">
  "accfg.await"(%t3) : (!accfg.token<"snax_hwpe_mult">) -> ()
  func.return
}
'''
print(run(src, 'accfg-trace-states'))
print(run(src, 'accfg-trace-states,accfg-dedup'))
