import h, io, contextlib, random, sys, warnings, time
warnings.filterwarnings('ignore')
import gen
import xdsl.pattern_rewriter as pr
from xdsl.printer import Printer
from xdsl.parser import Parser
from snaxc.tools.snax_opt_main import SNAXOptMain
ctx = SNAXOptMain(args=['/dev/null','--allow-unregistered-dialect']).ctx
log=[]
def top_of(op):
    while op.parent_op() is not None: op=op.parent_op()
    return op
def path_of(op):
    p=[]
    while op.parent_op() is not None:
        blk=op.parent_block(); reg=blk.parent_region(); par=op.parent_op()
        p.append((par.regions.index(reg) if hasattr(par.regions,'index') else list(par.regions).index(reg), blk.get_operation_index(op))); op=par
    return list(reversed(p))
def text(op):
    s=io.StringIO(); Printer(stream=s).print_op(op); return s.getvalue()
def wrapped(self, op, rewriter):
    from xdsl.transforms.dead_code_elimination import is_trivially_dead
    top=top_of(op)
    if self.dce_enabled and is_trivially_dead(op):
        before=text(top); p=path_of(op); rewriter.erase(op); log.append(('dce',p,before,text(top))); return
    for pat in self.rewrite_patterns:
        before=text(top); p=path_of(op)
        pat.match_and_rewrite(op, rewriter)
        if rewriter.has_done_action:
            log.append((type(pat).__name__,p,before,text(top))); return
pr.GreedyRewritePatternApplier.match_and_rewrite = wrapped
rnd=random.Random(1); nsteps=0; badparse=0; chain_breaks=0; t0=time.time(); kinds={}
for it in range(60):
    src=gen.G(rnd).program(); log.clear()
    with contextlib.redirect_stderr(io.StringIO()):
        traced=h.run(src,'accfg-trace-states'); log.clear(); out=h.run(traced,'accfg-dedup')
    prev=None
    for (name,p,b,a) in log:
        nsteps+=1; kinds[name]=kinds.get(name,0)+1
        for t in (b,a):
            try: Parser(ctx,t).parse_module()
            except Exception: badparse+=1
        if prev is not None and prev!=b: chain_breaks+=1
        prev=a
print('programs 60 steps',nsteps,'unparsable snapshots',badparse,'chain breaks (after_k != before_k+1)',chain_breaks,'kinds',kinds,'time %.1fs'%(time.time()-t0))
