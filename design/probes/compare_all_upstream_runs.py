import sys, re, os, hashlib, glob, io, contextlib, warnings, types
warnings.filterwarnings('ignore')
import shim
sys.path.insert(0, os.environ.get("SNAXROOT","/repo"))
exec(open('/tmp/exp/t17.py').read().split("from snaxc.tools.snax_opt_main import SNAXOptMain")[0].split("import shim, sys, types, io, contextlib, tempfile, os\n")[1].replace("print('BUFFERS'","(lambda *a,**k: None)('BUFFERS'"))
from snaxc.tools.snax_opt_main import SNAXOptMain
import shlex
def run(args):
    out=io.StringIO()
    try:
        with contextlib.redirect_stdout(out), contextlib.redirect_stderr(io.StringIO()):
            SNAXOptMain(args=args).run()
        return out.getvalue()
    except BaseException as e:
        return 'ERR '+type(e).__name__
n=0
for f in sorted(glob.glob('/repo/tests/filecheck/**/*.mlir', recursive=True)):
    src=open(f).read()
    for r in re.findall(r'//\s*RUN:\s*(.*)', src):
        first=r.split('|')[0].strip()
        if first.startswith('XDSL_ROUNDTRIP') or first.startswith('XDSL_GENERIC_ROUNDTRIP') or first.startswith('XDSL_SINGLETRIP'):
            args=[f,'--split-input-file']+(['--print-op-generic'] if 'SINGLE' not in first else [])
        elif first.startswith('XDSL_VERIFY_DIAG'): args=[f,'--print-op-generic','--verify-diagnostics','--split-input-file']
        elif first.startswith('XDSL_PARSING_DIAG'): args=[f,'--print-op-generic','--parsing-diagnostics','--split-input-file']
        elif first.startswith('snax-opt'):
            args=[a if a!='%s' else f for a in shlex.split(first)[1:]]
            if 'mlir-opt' in first: continue
        else: continue
        out=run(args); n+=1
        print(os.path.relpath(f,'/repo/tests/filecheck'), hashlib.md5((' '.join(args)).encode()).hexdigest()[:6], hashlib.md5(out.encode()).hexdigest()[:10], len(out), 'ERR' if out.startswith('ERR') else '')
print('total runs',n)
