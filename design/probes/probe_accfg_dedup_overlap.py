import sys, random, io, contextlib, warnings, tempfile, os, itertools
warnings.filterwarnings('ignore')
import h, csr, gen
from xdsl.parser import Parser
from xdsl.dialects import func
from snaxc.tools.snax_opt_main import SNAXOptMain
ctx = SNAXOptMain(args=['/dev/null','--allow-unregistered-dialect']).ctx
def parse(txt):
    m=Parser(ctx,txt).parse_module(); return [o for o in m.ops if isinstance(o,func.FuncOp) and o.sym_name.data=='f'][0]
def traces(txt, calls_clobber=True):
    f=parse(txt); out=[]
    for c0,c1 in itertools.product([0,1],repeat=2):
        for (lb,ub,st) in [(0,0,1),(0,1,1),(0,2,1),(1,7,3),(2,3,1)]:
            try: out.append(csr.run_func(f,[11,22,33,c0,c1,lb,ub,st]))
            except KeyError as e: out.append(('UNDEF',str(e)[:60]))
    return out
passes=sys.argv[1]; N=int(sys.argv[2]); seed=int(sys.argv[3]); full = (sys.argv[4]=='full') if len(sys.argv)>4 else True
rnd=random.Random(seed); bad=0; err={}
for it in range(N):
    src=gen.G(rnd,full=full).program()
    import signal
    def _to(*a): raise TimeoutError('hang')
    signal.signal(signal.SIGALRM,_to); signal.alarm(10)
    try:
        with contextlib.redirect_stderr(io.StringIO()):
            a=h.run(src,os.environ.get('BASE','accfg-trace-states')); b=h.run(src,passes)
    except Exception as e:
        signal.alarm(0); k=type(e).__name__+':'+str(e)[:50]; err[k]=err.get(k,0)+1
        if isinstance(e,TimeoutError) and err[k]==1: print('HANG on'); print(src)
        continue
    signal.alarm(0)
    try: ta,tb=traces(a),traces(b)
    except Exception as e:
        k='OUT-INVALID:'+type(e).__name__; err[k]=err.get(k,0)+1; continue
    if ta!=tb:
        bad+=1
        if bad<=int(os.environ.get('SHOW','1')):
            print('---- MISMATCH seed',seed,'it',it); print(src); print(b)
            for x,y in zip(ta,tb):
                if x!=y: print('orig',x); print('new ',y); break
print('N',N,'bad',bad,'err',err)
