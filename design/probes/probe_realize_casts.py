import h, sys, io, contextlib, warnings, itertools, random
warnings.filterwarnings('ignore')
from xdsl.parser import Parser
from xdsl.dialects import func, memref, linalg, builtin, scf, arith
from snaxc.tools.snax_opt_main import SNAXOptMain
ctx = SNAXOptMain(args=['/dev/null','--allow-unregistered-dialect']).ctx
T1='memref<64xi32, "L1">'; T3='memref<64xi32, "L3">'
def G(tag,a,b,c): return f'''  linalg.generic {{indexing_maps = [affine_map<(d0) -> (d0)>, affine_map<(d0) -> (d0)>, affine_map<(d0) -> (d0)>], iterator_types = ["parallel"]}} ins(%{a}, %{b} : {T1}, {T1}) outs(%{c} : {T1}) attrs = {{tag = {tag}}} {{
  ^bb0(%x: i32, %y: i32, %z: i32):
    %m = arith.muli %x, %y : i32
    linalg.yield %m : i32
  }}'''
def gen(rnd):
    n=rnd.randint(1,5); ops=[]; names=['a','b','c','d']   # c=cast(g), d=cast(k)
    for t in range(n):
        ops.append(G(t,rnd.choice(names),rnd.choice(names),rnd.choice(names)))
    loop = rnd.random()<0.3
    body="\n".join(ops)
    if loop: body='  scf.for %i = %lb to %ub step %st {\n'+body+'\n  }'
    return f'''func.func @f(%a : {T1}, %b : {T1}, %g : {T3}, %k : {T3}, %lb : index, %ub : index, %st : index) {{
  %c = "memref.memory_space_cast"(%g) : ({T3}) -> {T1}
  %d = "memref.memory_space_cast"(%k) : ({T3}) -> {T1}
{body}
  func.return
}}
'''
def run(block, env, mem, log):
    for op in block.ops:
        if isinstance(op, arith.ConstantOp): env[op.result]=op.value.value.data
        elif isinstance(op, memref.MemorySpaceCastOp): env[op.dest]=env[op.source]      # alias
        elif isinstance(op, memref.AllocOp): env[op.memref]=('alloc',id(op))
        elif isinstance(op, memref.CopyOp): mem[env[op.destination]]=mem.get(env[op.source],('init',env[op.source]))
        elif isinstance(op, linalg.GenericOp):
            ins=tuple(mem.get(env[i],('init',env[i])) for i in op.inputs); tag=op.attributes['tag'].value.data
            log.append((tag,ins)); mem[env[op.outputs[0]]]=('f',tag,len(log),ins)
        elif isinstance(op, scf.ForOp):
            for i in range(env[op.lb],env[op.ub],env[op.step]): run(op.body.block, env, mem, log)
        elif isinstance(op,(scf.YieldOp,func.ReturnOp)): pass
        else: raise NotImplementedError(op.name)
def sim(txt, trip):
    f=[o for o in Parser(ctx,txt).parse_module().ops if isinstance(o,func.FuncOp)][0]
    a=f.body.block.args; env={a[0]:'A',a[1]:'B',a[2]:'G',a[3]:'K',a[4]:0,a[5]:trip,a[6]:1}; mem={}; log=[]
    run(f.body.block, env, mem, log)
    return log, {k:mem.get(k) for k in 'ABGK'}
rnd=random.Random(int(sys.argv[1])); bad=0; N=int(sys.argv[2]); err=0
for it in range(N):
    src=gen(rnd)
    try: out=h.run(src,'realize-memref-casts')
    except Exception as e: err+=1; continue
    ok=True
    for trip in (0,1,2):
        if sim(src,trip)!=sim(out,trip): ok=False; break
    if not ok:
        bad+=1
        if bad<=1: print(src); print("\n".join(l for l in out.splitlines() if 'generic' in l or 'copy' in l or 'alloc' in l or 'scf' in l))
print('N',N,'bad',bad,'err',err)
