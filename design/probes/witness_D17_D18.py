from h import run
src = '''
func.func @f() {
  %c0 = arith.constant 0 : index
  %c10 = arith.constant 10 : index
  %c3 = arith.constant 3 : index
  scf.for %i = %c0 to %c10 step %c3 {
    "test.op"(%i) : (index) -> ()
  }
  func.return
}
'''
print("=== step"); print(run(src, 'pipeline-canonicalize-for'))
src = '''
func.func @f() {
  %c0 = arith.constant 0 : index
  %c2 = arith.constant 2 : index
  %c3 = arith.constant 3 : index
  %c1 = arith.constant 1 : index
  scf.for %i = %c0 to %c2 step %c1 {
    "test.op"(%i) {pre} : (index) -> ()
    scf.for %j = %c0 to %c3 step %c1 {
      "test.op"(%i, %j) : (index, index) -> ()
    }
    "test.op"(%i) {post} : (index) -> ()
  }
  func.return
}
'''
print("=== merge"); print(run(src, 'pipeline-canonicalize-for'))
