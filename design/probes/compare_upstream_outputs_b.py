import sys, re
from h import run
T='/repo/tests/filecheck/'
files=['transforms/accfg-trace-states.mlir','transforms/accfg-insert-resets.mlir','transforms/rocc-dedup.mlir','dialects/tsl/tsl.mlir','transforms/phs/phs-encode.mlir','transforms/accfg-end-to-end.mlir']
import hashlib
for f in files:
    src=open(T+f).read()
    for r in re.findall(r'// RUN: (.*)', src):
        r=r.split('|')[0]
        if 'XDSL_ROUNDTRIP' in r or 'XDSL_GENERIC' in r: args=['--print-op-generic','--split-input-file']; passes=''
        elif 'snax-opt' in r:
            a=r.replace('snax-opt','').replace('%s','').split()
            passes=''
            if '-p' in a: i=a.index('-p'); passes=a[i+1].strip("'"); a=a[:i]+a[i+2:]
            args=a
        else: continue
        if 'mlir-opt' in passes: continue
        try: out=run(src,passes,tuple(args)) if passes else run(src,'canonicalize',tuple(args)) if False else __import__('h').run(src, passes or 'dce', tuple(args))
        except BaseException as e: out='ERR '+type(e).__name__
        print(f, passes[:40] or 'roundtrip', hashlib.md5(out.encode()).hexdigest()[:8], len(out))
