from h import run
src = '''
#map = affine_map<(d0) -> (d0)>
"accfg.accelerator"() <{name = @snax_alu, fields = {}, launch_fields = {}, barrier = 0 : i32}> : () -> ()
func.func @f(%a : memref<8xi32>, %b : memref<8xi32>, %c : memref<8xi32>) {
  linalg.generic {indexing_maps = [#map, #map, #map], iterator_types = ["parallel"]} ins(%a, %b : memref<8xi32>, memref<8xi32>) outs(%c : memref<8xi32>) {
  ^bb0(%x: i32, %y: i32, %z: i32):
    %m = arith.muli %x, %x : i32
    %r = arith.addi %m, %m : i32
    linalg.yield %r : i32
  }
  linalg.generic {indexing_maps = [#map, #map, #map], iterator_types = ["parallel"]} ins(%a, %b : memref<8xi32>, memref<8xi32>) outs(%c : memref<8xi32>) {
  ^bb0(%x: i32, %y: i32, %z: i32):
    %r = arith.addi %x, %x : i32
    linalg.yield %r : i32
  }
  func.return
}
'''
print(run(src, 'convert-linalg-to-kernel,dispatch-kernels'))
