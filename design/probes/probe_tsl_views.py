import h, random, itertools, sys, warnings
warnings.filterwarnings('ignore')
import numpy as np
from collections import Counter
from snaxc.ir.tsl import Stride, TiledStride, TiledStridedLayout
from snaxc.dialects.tsl import TiledStridedLayoutAttr
rnd=random.Random(int(sys.argv[1])); st=Counter()
def addr(tsl, idx):
    a=0
    for d,ts in enumerate(tsl.tstrides):
        i=idx[d]; bs=[s.bound for s in ts.strides]
        for k,s in enumerate(ts.strides):
            inner=int(np.prod(bs[k+1:])) if k+1<len(bs) else 1
            dig = i//inner if k==0 else (i % (inner*bs[k]))//inner
            a+=dig*s.step
    return a
for it in range(int(sys.argv[2])):
    rank=rnd.randint(1,3)
    ts=[]
    for d in range(rank):
        depth=rnd.randint(1,3)
        ts.append(TiledStride([Stride(rnd.choice([1,2,3,4,8,16,32,5]), rnd.choice([1,1,2,3,4])) for _ in range(depth)]))
    tsl=TiledStridedLayout(ts, offset=rnd.choice([0,0,7]))
    shape=[int(np.prod([s.bound for s in t.strides])) for t in tsl.tstrides]
    box=list(itertools.product(*[range(s) for s in shape]))
    ref=[addr(tsl,i) for i in box]
    m=TiledStridedLayoutAttr(tsl).get_affine_map()
    if [m.eval(list(i),[])[0] for i in box]!=ref: st['affine-BAD']+=1
    av=tsl.all_values().tolist()
    if av!=ref:
        st['allvalues-order-differs']+=1
        if sorted(av)!=sorted(ref): st['allvalues-BAD']+=1; print('AV',tsl, av[:8], ref[:8]) if st['allvalues-BAD']<3 else None
    if tsl.self_overlaps()!=(len(set(ref))!=len(ref)): st['overlap-BAD']+=1
    dense = (len(set(ref))==len(ref)) and max(ref)==len(ref)-1
    if tsl.is_dense()!=dense: st['dense-BAD']+=1
    c=tsl.canonicalize()
    cshape=[int(np.prod([s.bound for s in t.strides])) for t in c.tstrides]
    if cshape!=shape: st['canon-shape-BAD']+=1
    elif [addr(c,i) for i in box]!=ref: st['canon-addr-BAD']+=1; print('CANON',tsl,'->',c) if st['canon-addr-BAD']<3 else None
    st['n']+=1
print(dict(st))
