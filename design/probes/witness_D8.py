from h import run
G = lambda a,b,c: f'''  linalg.generic {{indexing_maps = [affine_map<(d0) -> (d0)>, affine_map<(d0) -> (d0)>, affine_map<(d0) -> (d0)>], iterator_types = ["parallel"]}} ins(%{a}, %{b} : memref<64xi32, "L1">, memref<64xi32, "L1">) outs(%{c} : memref<64xi32, "L1">) {{
    ^bb0(%x: i32, %y: i32, %z: i32):
      %m = arith.muli %x, %y : i32
      linalg.yield %m : i32
    }}
'''
src = f'''
func.func @f(%a : memref<64xi32, "L1">, %g : memref<64xi32, "L3">) {{
  %c = "memref.memory_space_cast"(%g) : (memref<64xi32, "L3">) -> memref<64xi32, "L1">
{G('a','a','c')}
{G('c','c','a')}
{G('a','a','c')}
  func.return
}}
'''
out = run(src, 'realize-memref-casts')
print("\n".join(l for l in out.splitlines() if 'linalg.generic' in l or 'memref.copy' in l or 'alloc' in l))
