import shim, sys, types, io, contextlib, tempfile, os
sys.path.insert(0, __import__("os").environ.get("SNAXROOT","/repo"))
# stub minimalloc: first-fit honouring half-open lifetimes
m = types.ModuleType('minimalloc')
class Buffer:
    def __init__(self, id, start, end, size, alignment=1):
        self.id=id; self.start_time=start; self.end_time=end; self.size=size; self.alignment=alignment
class Problem:
    def __init__(self, buffers, capacity): self.buffers=buffers; self.capacity=capacity
    def solve(self):
        print('BUFFERS', [(b.start_time,b.end_time,b.size,b.alignment) for b in self.buffers], file=sys.stderr)
        placed=[]; sol=[]
        for b in self.buffers:
            off=0
            while True:
                if b.alignment and off % b.alignment: off += b.alignment - off % b.alignment
                clash=[(o,pb) for o,pb in placed if max(pb.start_time,b.start_time) < min(pb.end_time,b.end_time) and not (off+b.size<=o or o+pb.size<=off)]
                if not clash: break
                off=max(o+pb.size for o,pb in clash)
            placed.append((off,b)); sol.append(off)
        return sol
m.Problem=Problem; m.Buffer=Buffer
sys.modules['minimalloc']=m
from snaxc.tools.snax_opt_main import SNAXOptMain
T='!llvm.struct<(!llvm.ptr, !llvm.ptr, i32, !llvm.array<1 x i32>, !llvm.array<1 x i32>)>'
src=f'''
builtin.module {{
  func.func public @test() {{
    %0 = arith.constant 5 : index
    %1 = arith.constant 20 : index
    %2 = "snax.alloc"(%1, %0) <{{memory_space = "Test", alignment = 4 : i32}}> : (index, index) -> {T}
    %3 = "builtin.unrealized_conversion_cast" (%2) : ({T}) -> memref<5xi32>
    %sv = "memref.subview"(%3) <{{static_offsets = array<i64: 0>, static_sizes = array<i64: 5>, static_strides = array<i64: 1>, operandSegmentSizes = array<i32: 1, 0, 0, 0>}}> : (memref<5xi32>) -> memref<5xi32>
    %4 = "snax.alloc"(%1, %0) <{{memory_space = "Test", alignment = 4 : i32}}> : (index, index) -> {T}
    %5 = "builtin.unrealized_conversion_cast" (%4) : ({T}) -> memref<5xi32>
    "test.op"(%5) : (memref<5xi32>) -> ()
    "test.op"(%sv) : (memref<5xi32>) -> ()
    func.return
  }}
}}'''
with tempfile.NamedTemporaryFile('w',suffix='.mlir',delete=False) as f: f.write(src); fn=f.name
out=io.StringIO()
with contextlib.redirect_stdout(out): SNAXOptMain(args=[fn,'-p','snax-allocate{mode=minimalloc}']).run()
os.unlink(fn)
print("\n".join(l.strip() for l in out.getvalue().splitlines() if 'arith.constant' in l and ': i32' in l or 'dealloc' in l or 'test.op' in l or 'subview' in l))
