import warnings; warnings.filterwarnings('ignore')
exec(open('t15.py').read().split("bad=0; tot=0; errs={}")[0])
import itertools
n=3; bounds=[2,2,4]   # d0,d1,d2 (d2 innermost)
rows=[[0,3,0],[0,0,1],[1,0,0]]  # operand dims: dim0 <- 3*d1, dim1 <- d2, dim2 <- d0
shapes, src = mk(n,bounds,[rows,rows,rows],'i8')
out = run(src,'set-memory-layout{tiled=true}')
line=[l for l in out.splitlines() if 'snax.layout_cast' in l][0]
t=line[line.index('#tsl.tsl'):]; t=t[:t.index('>, "L1"')+1]
attr=Parser(ctx,t).parse_attribute()
print(shapes[0], t)
m=attr.get_affine_map()
seen={}
for idx in itertools.product(*[range(s) for s in shapes[0]]):
    a=m.eval(list(idx),[])[0]
    if a in seen: print('ALIAS', seen[a], idx, '->', a); break
    seen[a]=idx
else: print('no alias; max addr', max(seen))
