import h, random, sys, io, contextlib, warnings
warnings.filterwarnings('ignore')
from xdsl.parser import Parser
from xdsl.dialects import arith, scf, func, builtin, test
from snaxc.tools.snax_opt_main import SNAXOptMain
ctx = SNAXOptMain(args=['/dev/null','--allow-unregistered-dialect']).ctx
def run_block(b, env, tr):
    for op in b.ops:
        if isinstance(op, arith.ConstantOp): env[op.result]=op.value.value.data
        elif isinstance(op, arith.MuliOp): env[op.result]=env[op.lhs]*env[op.rhs]
        elif isinstance(op, arith.AddiOp): env[op.result]=env[op.lhs]+env[op.rhs]
        elif isinstance(op, arith.DivUIOp): env[op.result]=env[op.lhs]//env[op.rhs]
        elif isinstance(op, arith.RemUIOp): env[op.result]=env[op.lhs]%env[op.rhs]
        elif isinstance(op, scf.ForOp):
            i=env[op.lb]
            while i<env[op.ub]:
                env[op.body.block.args[0]]=i; run_block(op.body.block, env, tr); i+=env[op.step]
        elif isinstance(op, test.TestOp): tr.append((op.attributes['tag'].data, tuple(env[o] for o in op.operands)))
        elif isinstance(op,(scf.YieldOp,func.ReturnOp)): pass
        else: raise NotImplementedError(op.name)
def trace(txt):
    m=Parser(ctx,txt).parse_module(); f=[o for o in m.ops if isinstance(o,func.FuncOp)][0]
    tr=[]; run_block(f.body.block,{},tr); return tr
class G:
    def __init__(s,r): s.r=r; s.n=0
    def t(s,ind,ivs):
        s.n+=1; a=", ".join(ivs); ty=", ".join(['index']*len(ivs))
        return f'{ind}"test.op"({a}) {{tag = "t{s.n}"}} : ({ty}) -> ()'
    def loop(s,depth,ind,ivs):
        s.n+=1; iv=f'%i{s.n}'
        lb=s.r.choice(['%c0','%c0','%c0','%c1']); ub=s.r.choice(['%c0','%c1','%c2','%c3','%c4','%c7','%c10']); st=s.r.choice(['%c1','%c1','%c2','%c3'])
        out=[f'{ind}scf.for {iv} = {lb} to {ub} step {st} {{']
        items=[]
        if depth>0 and s.r.random()<0.8:
            pre=s.r.random()<0.3; post=s.r.random()<0.3
            if pre: items.append(s.t(ind+'  ',ivs+[iv]))
            items+=s.loop(depth-1,ind+'  ',ivs+[iv])
            if s.r.random()<0.15: items+=s.loop(depth-1,ind+'  ',ivs+[iv])
            if post: items.append(s.t(ind+'  ',ivs+[iv]))
        else: items.append(s.t(ind+'  ',ivs+[iv]))
        return out+items+[f'{ind}}}']
    def prog(s):
        cs="\n".join(f'  %c{k} = arith.constant {k} : index' for k in (0,1,2,3,4,7,10))
        return 'func.func @f() {\n'+cs+'\n'+"\n".join(s.loop(s.r.randint(0,2),'  ',[]))+'\n  func.return\n}\n'
rnd=random.Random(int(sys.argv[1])); bad=0; changed=0; N=int(sys.argv[2])
for it in range(N):
    src=G(rnd).prog()
    out=h.run(src,'pipeline-canonicalize-for')
    a,b=trace(src),trace(out)
    if out.count('scf.for')!=src.count('scf.for') or 'muli' in out: changed+=1
    if a!=b:
        bad+=1
        if bad<=1: print(src); print(out); print(a[:8]); print(b[:8])
print('N',N,'transformed',changed,'bad',bad)
