import h, random, itertools, sys, warnings
warnings.filterwarnings('ignore')
import numpy as np
from collections import Counter
from xdsl.ir.affine import AffineMap, AffineDimExpr, AffineConstantExpr
from snaxc.ir.dart.access_pattern import Schedule, SchedulePattern, Template, TemplatePattern
from snaxc.ir.dart.affine_transform import AffineTransform
from snaxc.ir.dart.scheduler import scheduler_backtrack, is_pure_output_stationary, is_memory_flexible_enough
def image(s):
    b=s[0].bounds
    return Counter(tuple(tuple((p.pattern.A@np.array(x)+p.pattern.b).tolist()) for p in s) for x in itertools.product(*[range(k) for k in b]))
rnd=random.Random(int(sys.argv[1])); stats=Counter()
for it in range(int(sys.argv[2])):
    nd=rnd.randint(1,4); nops=rnd.randint(1,3)
    bounds=[rnd.choice([1,2,3,4,6,8]) for _ in range(nd)]
    pats=[]
    for _ in range(nops):
        r=rnd.randint(1,2); A=np.array([[rnd.choice([0,0,1,1,2]) for _ in range(nd)] for _ in range(r)]); b=np.array([rnd.choice([0,0,1]) for _ in range(r)])
        pats.append(SchedulePattern(bounds, AffineTransform(A,b)))
    s=Schedule(pats)
    # elementary ops
    img=image(s)
    d=rnd.randint(1,nd)
    if image(s.rotate(d))!=img: stats['rotate-BAD']+=1
    k=rnd.randrange(nd); divs=[t for t in (1,2,3,4) if bounds[k]%t==0]
    t=rnd.choice(divs)
    if image(s.tile_dim(k,t))!=img: stats['tile-BAD']+=1
    if image(s.add_dim())!=img: stats['adddim-BAD']+=1
    if image(s.clear_unused_dims())!=img: stats['clear-BAD']+=1
    if image(s.canonicalize())!=img: stats['canon-BAD']+=1
    # scheduler with random template
    tn=rnd.randint(1,min(2,nd)); tb=[rnd.choice([2,4,None]) for _ in range(tn)]
    try:
        tp=[]
        for p in pats:
            r=p.pattern.A.shape[0]
            tp.append(TemplatePattern(tb, AffineTransform(np.array([[rnd.choice([0,1]) for _ in range(tn)] for _ in range(r)]), np.zeros(r,dtype=int))))
        tmpl=Template(tp)
        checks=rnd.choice([[],[is_pure_output_stationary],[lambda t,s_: is_memory_flexible_enough(t,s_,[1]*nops)],[is_pure_output_stationary, lambda t,s_: is_memory_flexible_enough(t,s_,[4]*nops)]])
        res=list(itertools.islice(scheduler_backtrack(tmpl, s.canonicalize(), extra_checks=checks), 50))
    except Exception as e:
        stats['sched-err:'+type(e).__name__+str(e)[:30]]+=1; continue
    stats['sched-results']+=len(res)
    base=image(s.canonicalize())
    for r_ in res:
        if image(r_)!=base: stats['sched-image-BAD']+=1
        # C16 post conditions
        n=r_.num_dims
        for kk in range(1,n+1):
            if not tmpl.inner_dims(kk).matches(r_.inner_dims(kk)): stats['post-match-BAD']+=1; break
        for kk in range(1,min(tn,n)+1):
            tbk=tb[-kk]
            if tbk and r_[0].bounds[-kk]>tbk: stats['post-bound-BAD']+=1
        if checks and not all(c(tmpl,r_) for c in checks): stats['post-check-BAD']+=1
    stats['cases']+=1
print(dict(stats))
