from h import run
import shim, sys
# C19: streamer config round trip
from snaxc.accelerators.snax_xdma import default_streamer as xd
from snaxc.accelerators.snax_gemmx import default_streamer as gd
from snaxc.dialects.snax import StreamerConfigurationAttr
from xdsl.printer import Printer
from xdsl.parser import Parser
from snaxc.tools.snax_opt_main import SNAXOptMain
import io
def pr(a):
    s=io.StringIO(); Printer(stream=s).print_attribute(a); return s.getvalue()
ctx = SNAXOptMain(args=['/dev/null']).ctx
for d in (gd, xd):
    a = StreamerConfigurationAttr(d)
    t = pr(a); print(t)
    b = Parser(ctx, t).parse_attribute()
    print(pr(b)==t, a.data.system_type(), b.data.system_type(), a==b)
# C10: TSL print/parse
from snaxc.ir.tsl import *
from snaxc.dialects.tsl import TiledStridedLayoutAttr
for tsl in [TiledStridedLayout([TiledStride([Stride(32,2),Stride(4,4)]),TiledStride([Stride(16,2),Stride(1,4)])], offset=5),
            TiledStridedLayout([TiledStride([Stride(None,None),Stride(4,4)])], offset=None),
            TiledStridedLayout([TiledStride([Stride(0,2),Stride(4,4)])], offset=0)]:
    a = TiledStridedLayoutAttr(tsl); t = pr(a); print(t)
    try:
        b = Parser(ctx, t).parse_attribute(); print(' rt', pr(b)==t, b.data==a.data)
    except Exception as e: print(' ERR', type(e).__name__, str(e)[:100])
# affine d0*d1
from xdsl.ir.affine import AffineMap, AffineDimExpr
from snaxc.ir.dart.affine_transform import AffineTransform
m = AffineMap(2,0,(AffineDimExpr(0)*AffineDimExpr(1),))
try:
    t = AffineTransform.from_affine_map(m); print(t, m.eval([2,3],[]), t.eval(__import__('numpy').array([2,3])))
except Exception as e: print('ERR', e)
