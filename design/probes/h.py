import shim, sys, types, io, contextlib
sys.path.insert(0, __import__("os").environ.get("SNAXROOT","/repo"))
m = types.ModuleType('minimalloc')
class _X: pass
m.Problem=_X; m.Buffer=_X
sys.modules['minimalloc']=m
from snaxc.tools.snax_opt_main import SNAXOptMain
def run(src, passes, extra=()):
    import tempfile, os
    with tempfile.NamedTemporaryFile('w',suffix='.mlir',delete=False) as f:
        f.write(src); fn=f.name
    out=io.StringIO()
    try:
        with contextlib.redirect_stdout(out):
            SNAXOptMain(args=[fn,'-p',passes,*extra]).run()
    finally:
        os.unlink(fn)
    return out.getvalue()
