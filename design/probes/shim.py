import xdsl.irdl.operations as ops
_orig = ops.OpDef.from_pyrdl
def from_pyrdl(pyrdl_def):
    for c in pyrdl_def.mro():
        v = vars(c).get("irdl_options")
        if isinstance(v, list):
            setattr(c, "irdl_options", tuple(v))
    return _orig(pyrdl_def)
ops.OpDef.from_pyrdl = staticmethod(from_pyrdl)
