import h, random, numpy as np
from fractions import Fraction
from snaxc.ir.dart.access_pattern import same_nonzero_singular_vectors
def rank(M):
    M=[[Fraction(x) for x in r] for r in M]; r=0
    rows=len(M); cols=len(M[0]) if M else 0
    for c in range(cols):
        p=next((i for i in range(r,rows) if M[i][c]!=0),None)
        if p is None: continue
        M[r],M[p]=M[p],M[r]
        for i in range(rows):
            if i!=r and M[i][c]!=0:
                f=M[i][c]/M[r][c]; M[i]=[a-f*b for a,b in zip(M[i],M[r])]
        r+=1
    return r
def same_rowspace(A,B): return rank(A)==rank(B)==rank(A+B)
rnd=random.Random(3); bad=0; n=0
for mag in (2,8,64,1000,10**6,10**9):
    b=0
    for it in range(3000):
        r1,r2,c=rnd.randint(1,3),rnd.randint(1,3),rnd.randint(1,4)
        A=[[rnd.choice([0,0,1,-1,rnd.randint(-mag,mag)]) for _ in range(c)] for _ in range(r1)]
        if rnd.random()<0.5:
            # make B from combos of A rows (same space likely)
            B=[[sum(rnd.randint(-3,3)*A[i][j] for i in range(r1)) for j in range(c)] for _ in range(r2)]
        else:
            B=[[rnd.choice([0,0,1,-1,rnd.randint(-mag,mag)]) for _ in range(c)] for _ in range(r2)]
        got=same_nonzero_singular_vectors(np.array(A),np.array(B)); exp=same_rowspace(A,B)
        if bool(got)!=exp:
            b+=1
            if b==1: print('mag',mag,'A',A,'B',B,'svd',got,'exact',exp)
    print('mag',mag,'disagreements',b,'/3000')
