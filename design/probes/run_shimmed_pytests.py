import shim, sys, os
root=os.environ.get('SNAXROOT','/repo'); sys.path.insert(0,root)
import pytest
sys.exit(pytest.main(['-q','-p','no:cacheprovider','/repo/tests/dialects/phs','/repo/tests/dialects/test_accfg.py','/repo/tests/dialects/test_snax.py','/repo/tests/dialects/test_snax_stream.py','/repo/tests/inference','--rootdir','/tmp/exp','-q']))
