import h, random, itertools, re, sys, io, contextlib, warnings
warnings.filterwarnings('ignore')
import numpy as np
from xdsl.parser import Parser
from xdsl.dialects import func, builtin
from snaxc.dialects import dart, snax_stream
from snaxc.tools.snax_opt_main import SNAXOptMain
from snaxc.ir.dart.affine_transform import AffineTransform
ctx = SNAXOptMain(args=['/dev/null','--allow-unregistered-dialect']).ctx
def alu_prog(shape, maps, nd):
    ty=f'memref<{"x".join(map(str,shape))}xi64>'
    ms=", ".join(maps)
    return f'''
func.func public @f(%a : {ty}, %b : {ty}, %c : {ty}) {{
  "dart.operation"(%a, %b, %c) <{{patterns = [{ms}], accelerator = "snax_alu", operandSegmentSizes = array<i32: 2, 1>}}> ({{
  ^bb0(%0 : !dart.stream<i64>, %1 : !dart.stream<i64>, %2 : !dart.stream<i64>):
    %3 = "dart.generic"(%0, %1) <{{library_call = "snax_alu"}}> ({{
    ^bb1(%x : i64, %y : i64, %z : i64):
      %4 = kernel.add %x, %y : i64, i64 -> i64
      dart.yield %4 : i64
    }}) : (!dart.stream<i64>, !dart.stream<i64>) -> !dart.stream<i64>
    dart.yield %3 : !dart.stream<i64>
  }}) : ({ty}, {ty}, {ty}) -> ()
  func.return
}}'''
def find(module, cls):
    return [o for o in module.walk() if isinstance(o, cls)]
def hw_stream(sp, spatial_dims):
    ub=[x.data for x in sp.upper_bounds]; ts=[x.data for x in sp.temporal_strides]; ss=[x.data for x in sp.spatial_strides]
    steps=[]
    for t in itertools.product(*[range(b) for b in reversed(ub)]):   # outermost first
        t=list(reversed(t)); base=sum(a*b for a,b in zip(t,ts))
        words=[]
        for p in itertools.product(*[range(d) for d in reversed(spatial_dims[:len(ss)])]):
            p=list(reversed(p)); words.append(base+sum(a*b for a,b in zip(p,ss)))
        steps.append(sorted(b for w in words for b in range(w,w+8)))
    return steps
def sched_stream(A,b,bounds,layout_map,elbytes,ntempl):
    outer=bounds[:len(bounds)-ntempl]; inner=bounds[len(bounds)-ntempl:]
    steps=[]
    for o in itertools.product(*[range(x) for x in outer]):
        bytes_=[]
        for i in itertools.product(*[range(x) for x in inner]):
            idx=(A@np.array(list(o)+list(i))+b).tolist()
            a=layout_map.eval(idx,[])[0]
            bytes_+=list(range(a,a+elbytes))
        steps.append(sorted(bytes_))
    return steps
def gemmx_prog(M,N,K,la,lb,lc):
    ta,tb,tc=f'memref<{M}x{K}xi8{la}>',f'memref<{K}x{N}xi8{lb}>',f'memref<{M}x{N}xi32{lc}>'
    return f"""
func.func @f(%arg0 : {ta}, %arg1 : {tb}, %arg2 : {tc}) {{
  %0 = arith.constant 0 : i32
  "dart.operation"(%arg0, %arg1, %arg2) <{{patterns = [affine_map<(d0, d1, d2) -> (d0, d2)>, affine_map<(d0, d1, d2) -> (d2, d1)>, affine_map<(d0, d1, d2) -> (d0, d1)>], accelerator = "snax_gemmx", operandSegmentSizes = array<i32: 2, 1>}}> ({{
  ^bb0(%1 : !dart.stream<i8>, %2 : !dart.stream<i8>, %3 : !dart.stream<i32>):
    %4 = "dart.generic"(%1, %2, %0, %0) <{{library_call = "snax_gemmx"}}> ({{
    ^bb1(%arg3 : i8, %arg4 : i8, %arg5 : i32, %arg6 : i32, %arg7 : i32):
      %5 = kernel.qmac %arg3, %arg4 zp_lhs : %arg5 zp_rhs : %arg6 : i8, i8, i32, i32 -> i32
      dart.yield %5 : i32
    }}) : (!dart.stream<i8>, !dart.stream<i8>, i32, i32) -> !dart.stream<i32>
    dart.yield %4 : !dart.stream<i32>
  }}) : ({ta}, {tb}, {tc}) -> ()
  func.return
}}"""
rnd=random.Random(int(sys.argv[1])); stats={}
def bump(k): stats[k]=stats.get(k,0)+1
MODE=sys.argv[3] if len(sys.argv)>3 else 'alu'
if MODE=='gemmx':
  from snaxc.accelerators.snax_gemmx import SNAXGEMMXAccelerator
  acc=SNAXGEMMXAccelerator()
  for it in range(int(sys.argv[2])):
    M,N,K=[rnd.choice([8,16,24,32]) for _ in range(3)]
    lay=lambda r,c: rnd.choice(['','',f', strided<[1, {r}]>'])
    tiled=rnd.choice(['true','false','none'])
    src=gemmx_prog(M,N,K,lay(M,K),lay(K,N),lay(M,N))
    sml=f'set-memory-layout{{tiled={tiled}}},' if tiled!='none' else ''
    base=f'insert-accfg-op{{accelerator=snax_gemmx}},dart-scheduler,{sml}'
    try:
        with contextlib.redirect_stderr(io.StringIO()):
            mid=h.run(src,base.rstrip(',')); out=h.run(src,base+'dart-layout-resolution,convert-dart-to-snax-stream')
    except Exception as e:
        bump('pipeline-err:'+type(e).__name__+':'+str(e)[:50]); continue
    m1=Parser(ctx,mid).parse_module(); m2=Parser(ctx,out).parse_module()
    sch=find(m1,dart.ScheduleOp)[0]; sr=find(m2,snax_stream.StreamingRegionOp)[0]
    bounds=[x.value.data for x in sch.bounds.data]
    sps=list(sr.stride_patterns.data)   # A,B,D8,C,D32 for i32 output matmul
    streamers=acc.streamer_config.data.streamers
    ok=True
    for k,(pat,opnd,si) in enumerate(zip(sch.patterns.data, sch.operands, (0,1,4))):
        sp=sps[si]; T=AffineTransform.from_affine_map(pat.data); lm=opnd.type.get_affine_map_in_bytes()
        elb=opnd.type.element_type.size
        ss=sched_stream(T.A,T.b,bounds,lm,elb,3); hs=hw_stream(sp,list(streamers[si].spatial_dims))
        # reuse dims: hardware bound collapsed to 1 on 'r' dims with stride 0 -> compare as sets of distinct steps
        flat_s=sorted(set(x for s_ in ss for x in s_)); flat_h=sorted(set(x for s_ in hs for x in s_))
        if flat_s!=flat_h:
            ok=False; bump('BAD-footprint')
            if stats['BAD-footprint']<=2: print('BAD',(M,N,K),'tiled',tiled,'operand',k,opnd.type,sp)
            break
        # ordered check: dedupe consecutive identical steps in schedule (reduction reuse) and compare sequence of byte-sets
        def dedup(seq):
            o=[]
            for x in seq:
                if not o or o[-1]!=x: o.append(x)
            return o
        if len(ss)==len(hs):
            if [sorted(set(x)) for x in ss]!=[sorted(set(x)) for x in hs]: ok=False; bump("BAD-order"); print('ORDER',(M,N,K),tiled,k,sp) if stats['BAD-order']<=2 else None; break
        else: bump('steps-differ(%d)'%k)
    if ok: bump('ok')
  print(stats); sys.exit()
for it in range(int(sys.argv[2])):
    rank=rnd.choice([1,2,2,3]); shape=[rnd.choice([4,8,12,16]) for _ in range(rank)]
    if rnd.random()<0.3: shape[rnd.randrange(rank)]=rnd.choice([1,2,6])
    dims=[f'd{i}' for i in range(rank)]
    perm=lambda: ", ".join(rnd.sample(dims,rank)) if rnd.random()<0.3 else ", ".join(dims)
    maps=[f'affine_map<({", ".join(dims)}) -> ({", ".join(dims)})>']*3
    tiled=rnd.choice(['true','false'])
    src=alu_prog(shape,maps,rank)
    P=f'insert-accfg-op{{accelerator=snax_alu}},dart-scheduler,set-memory-layout{{tiled={tiled}}},dart-layout-resolution'
    try:
        with contextlib.redirect_stderr(io.StringIO()):
            mid=h.run(src,f'insert-accfg-op{{accelerator=snax_alu}},dart-scheduler,set-memory-layout{{tiled={tiled}}}')
            out=h.run(src,P+',convert-dart-to-snax-stream')
    except Exception as e:
        bump('pipeline-err:'+type(e).__name__+':'+str(e)[:50]); continue
    m1=Parser(ctx,mid).parse_module(); m2=Parser(ctx,out).parse_module()
    sch=find(m1,dart.ScheduleOp)[0]; sr=find(m2,snax_stream.StreamingRegionOp)[0]
    bounds=[x.value.data for x in sch.bounds.data]
    ok=True
    for k,(pat,opnd,sp) in enumerate(zip(sch.patterns.data, sch.operands, sr.stride_patterns.data)):
        T=AffineTransform.from_affine_map(pat.data)
        lm=opnd.type.get_affine_map_in_bytes()
        ss=sched_stream(T.A,T.b,bounds,lm,8,1)
        hs=hw_stream(sp,[4])
        flat_s=sorted(x for s in ss for x in s); flat_h=sorted(x for s in hs for x in s)
        if flat_s!=flat_h: ok=False; why='multiset'
        elif len(ss)%len(hs)==0 and all(sorted(sum(ss[j*(len(ss)//len(hs)):(j+1)*(len(ss)//len(hs))],[]))==hs[j] for j in range(len(hs))): pass
        else: ok=False; why='order'
        if not ok:
            bump('BAD-'+why)
            if stats['BAD-'+why]<=2: print('BAD',why,shape,'tiled',tiled,'bounds',bounds,'operand',k,opnd.type,sp, 'sched steps',len(ss),'hw steps',len(hs))
            break
    if ok: bump('ok')
print(stats)
