from h import run
L='#tsl.tsl<[2, 8] -> (128, 8), [2, 8] -> (64, 1)>'
src=f'''
%0 = "test.op"() : () -> (memref<16x16xi8, {L}>)
%1 = "test.op"() : () -> (index)
%3 = memref.subview %0[8, %1] [8, 8] [1, 1] : memref<16x16xi8, {L}> to memref<8x8xi8, #tsl.tsl<[8] -> (8), [8] -> (1)>>
%4 = "memref.extract_aligned_pointer_as_index"(%3) : (memref<8x8xi8, #tsl.tsl<[8] -> (8), [8] -> (1)>>) -> index
"test.op"(%4) : (index) -> ()
'''
print(run(src,'convert-memref-to-arith'))
