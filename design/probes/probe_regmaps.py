import h, itertools, random
from snaxc.accelerators.streamers.streamers import *
from snaxc.accelerators.streamers.extensions import *
from snaxc.accelerators.snax_alu import SNAXAluAccelerator
from snaxc.accelerators.snax_gemmx import SNAXGEMMXAccelerator
from snaxc.accelerators.snax_xdma import SNAXXDMAAccelerator
from snaxc.accelerators.snax_hwpe_mult import SNAXHWPEMultAccelerator
from snaxc.accelerators.gemmini import GemminiAccelerator
def check(acc, tag):
    op=acc.generate_acc_op()
    f=[(k,v.value.data) for k,v in op.field_items()]; l=[(k,v.value.data) for k,v in op.launch_field_items()]; b=op.barrier.value.data
    addrs=[a for _,a in f]+[a for _,a in l]+[b]
    # reserved: 2 regs after streamer launch
    res=[]
    if hasattr(acc,'streamer_launch_fields'):
        sl=[a for k,a in l if k in acc.streamer_launch_fields]
        if sl and type(acc).__name__!='SNAXXDMAAccelerator': res=[max(sl)+1,max(sl)+2]
    alla=addrs+res
    ok = len(set(alla))==len(alla)
    namesok = [k for k,_ in f]==list(acc.fields) if not isinstance(acc.fields,dict) else True
    return ok, namesok, len(f)
rnd=random.Random(0); n=0; bad=[]
opts_reg=[HasAddressRemap,HasChannelMask,HasBroadcast,TransposeExtension]
for nstream in (1,2,3):
  for _ in range(400):
    sts=[]
    for s in range(nstream):
        td=[rnd.choice('nir') for _ in range(rnd.randint(1,6))]; sd=[rnd.choice([2,4,8]) for _ in range(rnd.randint(1,2))]
        o=[c() for c in opts_reg if rnd.random()<0.5]
        sts.append(Streamer(rnd.choice([StreamerType.Reader,StreamerType.Writer]),td,sd,o))
    cfg=StreamerConfiguration(sts)
    for acc in (SNAXAluAccelerator(cfg),):
        r=check(acc,'alu'); n+=1
        if not (r[0] and r[1]): bad.append(('alu',r))
    if nstream>=1:
        try:
            acc=SNAXGEMMXAccelerator(cfg, rnd.randint(1,16), rnd.randint(1,16), rnd.randint(1,16)); r=check(acc,'gemmx'); n+=1
            if not (r[0] and r[1]): bad.append(('gemmx',r))
        except ZeroDivisionError as e: pass
xo=[MaxPoolExtension,AddExtension,AddLongExtension,RescaleDownExtension,RescaleUpExtension,HasChannelMask,MemSetExtension,TransposeExtension,HasByteMask]
for _ in range(400):
    sts=[Streamer(t,[rnd.choice('nir') for _ in range(rnd.randint(1,6))],[8],[c() for c in xo if rnd.random()<0.5]) for t in (StreamerType.Reader,StreamerType.Writer)]
    acc=SNAXXDMAAccelerator(StreamerConfiguration(sts,StreamerSystemType.DmaExt)); r=check(acc,'xdma'); n+=1
    if not (r[0] and r[1]): bad.append(('xdma',r))
for acc in (SNAXHWPEMultAccelerator(),):
    r=check(acc,'hwpe'); n+=1
    if not (r[0] and r[1]): bad.append(('hwpe',r))
g=GemminiAccelerator().generate_acc_op(); print('gemmini fields share func7 by design:', sorted(set(v.value.data for _,v in g.field_items())))
print('configs',n,'bad',bad[:5],len(bad))
