import h, random, itertools, warnings, io, contextlib
warnings.filterwarnings('ignore')
from xdsl.parser import Parser
from xdsl.dialects import arith, scf, func, memref, builtin
from snaxc.tools.snax_opt_main import SNAXOptMain
ctx = SNAXOptMain(args=['/dev/null','--allow-unregistered-dialect']).ctx
SRC,DST=1000000,5000000
def interp(block, env, moves):
    for op in block.ops:
        if isinstance(op, arith.ConstantOp): env[op.result]=op.value.value.data
        elif isinstance(op, arith.MuliOp): env[op.result]=env[op.lhs]*env[op.rhs]
        elif isinstance(op, arith.AddiOp): env[op.result]=env[op.lhs]+env[op.rhs]
        elif isinstance(op, arith.DivUIOp): env[op.result]=env[op.lhs]//env[op.rhs]
        elif isinstance(op, memref.ExtractAlignedPointerAsIndexOp): env[op.aligned_pointer]=env[op.source]
        elif isinstance(op, memref.DimOp): env[op.result]=op.source.type.get_shape()[env[op.index]]
        elif isinstance(op, memref.ExtractStridedMetaDataOp): pass
        elif isinstance(op, scf.ForOp):
            for i in range(env[op.lb],env[op.ub],env[op.step]):
                env[op.body.block.args[0]]=i; interp(op.body.block, env, moves)
        elif isinstance(op, func.CallOp):
            a=[env[x] for x in op.arguments]; name=op.callee.string_value()
            if name=='snax_dma_1d_transfer':
                s,d,n=a; moves+= [(s+k,d+k) for k in range(n)]
            else:
                s,d,n,ss,ds,rep=a
                for r in range(rep): moves+=[(s+r*ss+k,d+r*ds+k) for k in range(n)]
        elif isinstance(op,(scf.YieldOp,func.ReturnOp)): pass
        else: raise NotImplementedError(op.name)
def layout_str(kind, shape, rnd):
    rank=len(shape)
    if kind=='none': return '', None
    if kind=='strided':
        # permuted dense strides with optional gap and offset
        perm=list(range(rank)); rnd.shuffle(perm); st=[0]*rank; cur=rnd.choice([1,1,2])
        for d in perm: st[d]=cur; cur*=shape[d]*rnd.choice([1,1,2])
        off=rnd.choice([0,0,3])
        return f', strided<[{", ".join(map(str,st))}], offset: {off}>', None
def tsl_pair(shape, rnd):
    # common tile bounds, independent steps for both
    tb=[]
    for s in shape:
        fs=[f for f in (2,3,4) if s%f==0 and s>f]
        if fs and rnd.random()<0.6:
            f=rnd.choice(fs); tb.append([s//f,f])
        else: tb.append([s])
    def steps():
        flat=[(d,k) for d,b in enumerate(tb) for k in range(len(b))]; rnd.shuffle(flat)
        st={}; cur=1
        for (d,k) in flat:
            st[(d,k)]=cur; cur*=tb[d][k]*rnd.choice([1,1,1,2])
        return ", ".join(f"[{', '.join(map(str,b))}] -> ({', '.join(str(st[(d,k)]) for k in range(len(b)))})" for d,b in enumerate(tb))
    return steps, tb
from snaxc.dialects.tsl import TiledStridedLayoutAttr
def addr_of(ty, idx):
    m=ty.get_affine_map_in_bytes() if hasattr(ty,'get_affine_map_in_bytes') else None
    return m.eval(list(idx),[])[0]
rnd=random.Random(int(__import__('sys').argv[1])); bad=0; n=0; errs={}; kinds={}
for it in range(int(__import__('sys').argv[2])):
    rank=rnd.randint(1,3); shape=[rnd.choice([1,2,3,4,6,8]) for _ in range(rank)]
    el=rnd.choice(['i8','i16','i32','i64'])
    steps,tb=tsl_pair(shape,rnd)
    def mk():
        k=rnd.choice(['none','strided','tsl','tsl'])
        if k=='tsl': return k, f', #tsl.tsl<{steps()}>'
        return k, layout_str(k,shape,rnd)[0]
    (ks,ls),(kd,ld)=mk(),mk()
    shp='x'.join(map(str,shape))
    ts,td=f'memref<{shp}x{el}{ls}>',f'memref<{shp}x{el}{ld}>'
    src=f'func.func @f(%a : {ts}, %b : {td}) {{\n  "memref.copy"(%a, %b) : ({ts}, {td}) -> ()\n  func.return\n}}\n'
    try:
        with contextlib.redirect_stderr(io.StringIO()): out=h.run(src,'snax-copy-to-dma')
        m=Parser(ctx,out).parse_module(); f=[o for o in m.ops if isinstance(o,func.FuncOp) and o.sym_name.data=='f'][0]
        env={f.body.block.args[0]:SRC, f.body.block.args[1]:DST}; moves=[]
        interp(f.body.block, env, moves)
    except Exception as e:
        k=type(e).__name__+':'+str(e)[:40]; errs[k]=errs.get(k,0)+1; continue
    n+=1; kinds[(ks,kd)]=kinds.get((ks,kd),0)+1
    a_ty,b_ty=f.body.block.args[0].type,f.body.block.args[1].type
    elb=a_ty.element_type.size
    exp=[]
    for idx in itertools.product(*[range(s) for s in shape]):
        sa,da=a_ty.get_affine_map_in_bytes().eval(list(idx),[])[0], b_ty.get_affine_map_in_bytes().eval(list(idx),[])[0]
        exp+=[(SRC+sa+k,DST+da+k) for k in range(elb)]
    if sorted(moves)!=sorted(exp):
        bad+=1
        if bad<=3: print('BAD',ts,'->',td,'\n moves',len(moves),'exp',len(exp), 'missing',sorted(set(exp)-set(moves))[:4],'extra',sorted(set(moves)-set(exp))[:4])
print('n',n,'bad',bad,'errs',errs,'kinds',kinds)
