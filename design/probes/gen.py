import random
ACC='snax_hwpe_mult'
ST=f'!accfg.state<"{ACC}">'
class G:
    def __init__(self, rnd, nfields=2, full=True, lp=False):
        self.r=rnd; self.n=0; self.fields=['A','B','O'][:nfields]; self.full=full; self.lp=lp
    def fresh(self,p='v'): self.n+=1; return f'%{p}{self.n}'
    def setup_launch(self, vals, ind):
        fs = self.fields if self.full else self.r.sample(self.fields, self.r.randint(1,len(self.fields)))
        s=self.fresh('s'); t=self.fresh('t')
        params=", ".join(f'"{f}" = {self.r.choice(vals)} : i32' for f in fs)
        return [f'{ind}{s} = accfg.setup "{ACC}" to ({params}) : {ST}',
                (f'{ind}{t} = "accfg.launch"(%lv, {s}) <{{param_names = ["launch"], accelerator = "{ACC}"}}> : (i5, {ST}) -> !accfg.token<"{ACC}">' if self.lp else f'{ind}{t} = "accfg.launch"({s}) <{{param_names = [], accelerator = "{ACC}"}}> : ({ST}) -> !accfg.token<"{ACC}">'),
                f'{ind}"accfg.await"({t}) : (!accfg.token<"{ACC}">) -> ()']
    def block(self, vals, depth, ind, nst):
        out=[]
        vals=list(vals)
        for _ in range(nst):
            k=self.r.random()
            if k<0.45: out+=self.setup_launch(vals,ind)
            elif k<0.55:
                v=self.fresh(); a,b=self.r.choice(vals),self.r.choice(vals)
                out.append(f'{ind}{v} = arith.addi {a}, {b} : i32'); vals.append(v)
            elif k<0.62: out.append(f'{ind}func.call @g() : () -> ()')
            elif k<0.67: out.append(f'{ind}func.call @g() {{"accfg.effects" = #accfg.effects<none>}} : () -> ()')
            elif k<0.82 and depth>0:
                c=self.r.choice(['%c0','%c1'])
                out.append(f'{ind}scf.if {c} {{'); out+=self.block(vals,depth-1,ind+'  ',self.r.randint(0,3))
                out.append(f'{ind}}} else {{'); out+=self.block(vals,depth-1,ind+'  ',self.r.randint(0,2)); out.append(f'{ind}}}')
            elif depth>0:
                i=self.fresh('i'); ii=self.fresh()
                out.append(f'{ind}scf.for {i} = %lb to %ub step %st {{')
                out.append(f'{ind}  {ii} = arith.index_cast {i} : index to i32')
                out+=self.block(vals+[ii],depth-1,ind+'  ',self.r.randint(1,4)); out.append(f'{ind}}}')
        return out
    def program(self):
        body=self.block(['%x','%y','%z'],2,'  ',self.r.randint(2,5))
        return ('func.func private @g() -> ()\n'
                'func.func @f(%x : i32, %y : i32, %z : i32, %c0 : i1, %c1 : i1, %lb : index, %ub : index, %st : index) {\n'
                + ('  %lv = arith.constant 1 : i5\n' if self.lp else '') + "\n".join(body) + '\n  func.return\n}\n')
