/-! Calibration: the "dirty set" simulation behind `pull` / `hoistIf` / `loopOverlap` (C01, C06).
    Two runs of the same program that differ by extra register writes ("ghost setups") to fields the
    inference knows nothing about produce the same launch trace, provided every launch is total.
    Throwaway prototype; single accelerator; fields are a finite list `allF`. -/
abbrev Var := Nat
abbrev Field := Nat
abbrev Facts := Field → Option Var
abbrev Env := Var → Int
abbrev Regs := Field → Int
abbrev Trace := List (List Int)

def meet (a b : Facts) : Facts := fun f => if a f = b f then a f else none
def upd (F : Facts) (fs : List (Field × Var)) : Facts := fun f =>
  match fs.lookup f with | some x => some x | none => F f
def setRegs (r : Regs) (env : Env) (fs : List (Field × Var)) : Regs := fun f =>
  match fs.lookup f with | some x => env x | none => r f

mutual
inductive Stmt where
  | setup (fs : List (Field × Var))
  | ghost (fs : List (Field × Var))          -- extra write present only in the transformed run
  | launch
  | pure (dst : Var) (g : List Int → Int) (args : List Var)
  | call (clob : Regs → Regs)
  | ifS (c : Var) (t e : Block)
  | forS (n : Var) (body : Block)
inductive Block where
  | nil
  | cons (s : Stmt) (r : Block)
end

structure St where
  env : Env
  regs : Regs
  tr : Trace

def iter {σ} (f : σ → σ) : Nat → σ → σ
  | 0, s => s
  | n+1, s => iter f n (f s)

variable (allF : List Field)

-- `gh = true`: the transformed run (ghost writes happen); `gh = false`: the original run
mutual
def execS (gh : Bool) : Stmt → St → St
  | .setup fs, s => { s with regs := setRegs s.regs s.env fs }
  | .ghost fs, s => if gh then { s with regs := setRegs s.regs s.env fs } else s
  | .launch, s => { s with tr := s.tr ++ [allF.map s.regs] }
  | .pure d g args, s => { s with env := fun v => if v = d then g (args.map s.env) else s.env v }
  | .call clob, s => { s with regs := clob s.regs }
  | .ifS c t e, s => if s.env c ≠ 0 then execB gh t s else execB gh e s
  | .forS n b, s => iter (execB gh b) (s.env n).toNat s
def execB (gh : Bool) : Block → St → St
  | .nil, s => s
  | .cons s r, st => execB gh r (execS gh s st)
end

-- a ghost write makes the (proof-only) analysis forget the field, unless it writes what is known to be there
def forget (F : Facts) (fs : List (Field × Var)) : Facts := fun f =>
  match fs.lookup f with
  | some y => if F f = some y then F f else none
  | none => F f

-- inference (repaired equations) extended with `forget` at ghosts
mutual
def knownS : Stmt → Facts → Facts
  | .setup fs, F => upd F fs
  | .ghost fs, F => forget F fs
  | .launch, F => F
  | .pure _ _ _, F => F
  | .call _, _ => fun _ => none
  | .ifS _ t e, F => meet (knownB t F) (knownB e F)
  | .forS _ b, F => meet F (knownB b (meet F (knownB b F)))
def knownB : Block → Facts → Facts
  | .nil, F => F
  | .cons s r, F => knownB r (knownS s F)
end

/-- a clobbering call may do anything, but it cannot look at the registers it is about to destroy:
    the transformed and the original run get the same post-call registers only on fields both agree on
    — so after a call *everything* is considered dirty, which is fine because nothing is known either. -/
def Agree (F : Facts) (r r' : Regs) : Prop := ∀ f x, F f = some x → r f = r' f

-- side conditions: ghosts only write unknown fields (w.r.t. the facts *after* them), launches are total
mutual
def okS : Stmt → Facts → Prop
  | .setup _, _ => True
  | .ghost _, _ => True
  | .launch, F => ∀ f ∈ allF, (F f).isSome
  | .pure _ _ _, _ => True
  | .call _, _ => True
  | .ifS _ t e, F => okB t F ∧ okB e F
  | .forS _ b, F => okB b (meet F (knownB b F))
def okB : Block → Facts → Prop
  | .nil, _ => True
  | .cons s r, F => okS s F ∧ okB r (knownS s F)
end

-- ===== facts lemmas (as in InferSound) =====
theorem meet_le_left {a b : Facts} {f x} (h : meet a b f = some x) : a f = some x := by
  unfold meet at h; split at h <;> simp_all
theorem meet_le_right {a b : Facts} {f x} (h : meet a b f = some x) : b f = some x := by
  unfold meet at h; split at h
  · rename_i heq; rw [← heq]; exact h
  · simp at h

mutual
theorem localS : (s : Stmt) → ∀ (F F' : Facts) (f : Field), F f = F' f → knownS s F f = knownS s F' f
  | .setup fs, F, F', f, h => by simp only [knownS, upd]; split <;> simp_all
  | .ghost fs, F, F', f, h => by simp only [knownS, forget, h]
  | .launch, F, F', f, h => by simpa [knownS] using h
  | .pure _ _ _, F, F', f, h => by simpa [knownS] using h
  | .call _, F, F', f, h => by simp [knownS]
  | .ifS _ t e, F, F', f, h => by
      have ht := localB t F F' f h; have he := localB e F F' f h
      simp only [knownS, meet, ht, he]
  | .forS _ b, F, F', f, h => by
      have h1 := localB b F F' f h
      have hhead : meet F (knownB b F) f = meet F' (knownB b F') f := by simp only [meet, h, h1]
      have h2 := localB b _ _ f hhead
      simp only [knownS, meet, h, h2]
theorem localB : (b : Block) → ∀ (F F' : Facts) (f : Field), F f = F' f → knownB b F f = knownB b F' f
  | .nil, F, F', f, h => by simpa [knownB] using h
  | .cons s r, F, F', f, h => by simp only [knownB]; exact localB r _ _ f (localS s F F' f h)
end

mutual
def defsS : Stmt → List Var
  | .pure d _ _ => [d]
  | .ifS _ t e => defsB t ++ defsB e
  | .forS _ b => defsB b
  | _ => []
def defsB : Block → List Var
  | .nil => []
  | .cons s r => defsS s ++ defsB r
end
mutual
def usesS : Stmt → List Var
  | .setup fs => fs.map (·.2)
  | .ifS _ t e => usesB t ++ usesB e
  | .forS _ b => usesB b
  | _ => []
def usesB : Block → List Var
  | .nil => []
  | .cons s r => usesS s ++ usesB r
end
mutual
def wfS : Stmt → Prop
  | .ifS _ t e => wfB t ∧ wfB e
  | .forS _ b => wfB b
  | _ => True
def wfB : Block → Prop
  | .nil => True
  | .cons s r => wfS s ∧ wfB r ∧ (∀ x ∈ usesS s, x ∉ defsB r)
end

mutual
theorem varsS : (s : Stmt) → ∀ (F : Facts) f x, knownS s F f = some x → F f = some x ∨ x ∈ usesS s
  | .setup fs, F, f, x, h => by
      simp only [knownS, upd] at h
      split at h
      · rename_i y hy
        right; simp only [usesS, List.mem_map]
        obtain ⟨l1, l2, hl, _⟩ := List.lookup_eq_some_iff.mp hy
        exact ⟨(f, y), by simp [hl], by simpa using h⟩
      · left; exact h
  | .ghost fs, F, f, x, h => by
      left; simp only [knownS, forget] at h
      split at h
      · split at h
        · exact h
        · simp at h
      · exact h
  | .launch, F, f, x, h => by left; simpa [knownS] using h
  | .pure _ _ _, F, f, x, h => by left; simpa [knownS] using h
  | .call _, F, f, x, h => by simp [knownS] at h
  | .ifS _ t e, F, f, x, h => by
      simp only [knownS] at h
      rcases varsB t F f x (meet_le_left h) with h1 | h1
      · left; exact h1
      · right; simp [usesS, h1]
  | .forS _ b, F, f, x, h => by
      simp only [knownS] at h; left; exact meet_le_left h
theorem varsB : (b : Block) → ∀ (F : Facts) f x, knownB b F f = some x → F f = some x ∨ x ∈ usesB b
  | .nil, F, f, x, h => by left; simpa [knownB] using h
  | .cons s r, F, f, x, h => by
      simp only [knownB] at h
      rcases varsB r _ f x h with h1 | h1
      · rcases varsS s F f x h1 with h2 | h2
        · left; exact h2
        · right; simp [usesB, h2]
      · right; simp [usesB, h1]
end

-- ===== the simulation =====
/-- what links the original run `s` and the transformed run `s'` at a program point with facts `F` -/
structure Sim (F : Facts) (s s' : St) : Prop where
  sound : ∀ f x, F f = some x → s.regs f = s.env x
  agree : ∀ f x, F f = some x → s.regs f = s'.regs f
  env : s.env = s'.env
  tr : s.tr = s'.tr

def Avoids (F : Facts) (ds : List Var) : Prop := ∀ f x, F f = some x → x ∉ ds

theorem Sim.weaken {F G : Facts} {s s'} (h : Sim F s s') (hle : ∀ f x, G f = some x → F f = some x) : Sim G s s' :=
  ⟨fun f x hx => h.sound f x (hle f x hx), fun f x hx => h.agree f x (hle f x hx), h.env, h.tr⟩

mutual
theorem simS : (st : Stmt) → wfS st → ∀ (F : Facts) (s s' : St), okS allF st F → Sim F s s' → Avoids F (defsS st) →
    Sim (knownS st F) (execS allF false st s) (execS allF true st s')
  | .setup fs, _, F, s, s', _, h, _ => by
      refine ⟨?_, ?_, h.env, h.tr⟩
      · intro f x hx
        simp only [knownS, upd] at hx
        simp only [execS, setRegs]
        cases hl : fs.lookup f with
        | some y => simp only [hl] at hx ⊢; cases hx; rfl
        | none => simp only [hl] at hx ⊢; exact h.sound f x hx
      · intro f x hx
        simp only [knownS, upd] at hx
        simp only [execS, setRegs, ← h.env]
        cases hl : fs.lookup f with
        | some y => simp only [hl]
        | none => simp only [hl] at hx ⊢; exact h.agree f x hx
  | .ghost fs, _, F, s, s', _, h, _ => by
      have hle : ∀ f x, forget F fs f = some x → F f = some x := by
        intro f x hx; simp only [forget] at hx
        split at hx
        · split at hx
          · exact hx
          · simp at hx
        · exact hx
      refine ⟨?_, ?_, h.env, h.tr⟩
      · intro f x hx; simp only [knownS] at hx; simpa [execS] using h.sound f x (hle f x hx)
      · intro f x hx
        simp only [knownS] at hx
        have hF := hle f x hx
        simp only [execS, if_true, Bool.false_eq_true, if_false, setRegs]
        cases hl : fs.lookup f with
        | none => simp only []; exact h.agree f x hF
        | some y =>
          simp only []
          simp only [forget, hl] at hx
          split at hx
          · rename_i hy; rw [hy] at hx; cases hx
            rw [← h.env]; exact h.sound f x hF
          · simp at hx
  | .launch, _, F, s, s', hok, h, _ => by
      simp only [okS] at hok
      refine ⟨fun f x hx => by simpa [execS] using h.sound f x (by simpa [knownS] using hx),
              fun f x hx => by simpa [execS] using h.agree f x (by simpa [knownS] using hx), h.env, ?_⟩
      simp only [execS, h.tr]
      congr 2
      apply List.map_congr_left
      intro f hf
      obtain ⟨x, hx⟩ := Option.isSome_iff_exists.mp (hok f hf)
      exact h.agree f x hx
  | .pure d g args, _, F, s, s', _, h, ha => by
      have hne : ∀ f x, F f = some x → x ≠ d := fun f x hx e => ha f x hx (by simp [defsS, e])
      refine ⟨?_, ?_, ?_, h.tr⟩
      · intro f x hx; simp only [knownS] at hx
        simp only [execS, hne f x hx, if_false]; exact h.sound f x hx
      · intro f x hx; simp only [knownS] at hx; simpa [execS] using h.agree f x hx
      · simp only [execS, h.env]
  | .call clob, _, F, s, s', _, h, _ => by
      exact ⟨fun f x hx => by simp [knownS] at hx, fun f x hx => by simp [knownS] at hx, h.env, h.tr⟩
  | .ifS c t e, hwf, F, s, s', hok, h, ha => by
      simp only [wfS] at hwf; simp only [okS] at hok
      simp only [knownS, execS, ← h.env]
      split
      · exact (simB t hwf.1 F s s' hok.1 h (fun f x hx hm => ha f x hx (by simp [defsS, hm]))).weaken
          (fun f x hx => meet_le_left hx)
      · exact (simB e hwf.2 F s s' hok.2 h (fun f x hx hm => ha f x hx (by simp [defsS, hm]))).weaken
          (fun f x hx => meet_le_right hx)
  | .forS n b, hwf, F, s, s', hok, h, ha => by
      simp only [wfS] at hwf; simp only [okS] at hok; simp only [defsS] at ha
      have hav : Avoids (meet F (knownB b F)) (defsB b) := fun f x hx => ha f x (meet_le_left hx)
      have step : ∀ u u', Sim (meet F (knownB b F)) u u' →
          Sim (knownB b (meet F (knownB b F))) (execB allF false b u) (execB allF true b u') :=
        fun u u' hu => simB b hwf _ u u' hok hu hav
      have back : ∀ u u', Sim (knownB b (meet F (knownB b F))) u u' → Sim (meet F (knownB b F)) u u' := by
        intro u u' hu
        apply hu.weaken
        intro f x hx
        have h1 : F f = some x := meet_le_left hx
        have h2 : knownB b F f = some x := meet_le_right hx
        have hloc := localB b (meet F (knownB b F)) F f (by rw [hx, h1])
        rw [hloc, h2]
      have loop : ∀ (k : Nat) u u', Sim (meet F (knownB b F)) u u' →
          (k = 0 ∨ Sim (knownB b (meet F (knownB b F))) (iter (execB allF false b) k u) (iter (execB allF true b) k u')) ∧
          Sim (meet F (knownB b F)) (iter (execB allF false b) k u) (iter (execB allF true b) k u') := by
        intro k
        induction k with
        | zero => intro u u' hu; exact ⟨Or.inl rfl, by simpa [iter] using hu⟩
        | succ k ih =>
          intro u u' hu
          have h1 := step u u' hu
          have h2 := back _ _ h1
          rcases ih _ _ h2 with ⟨hk, hk'⟩
          refine ⟨Or.inr ?_, by simpa [iter] using hk'⟩
          simp only [iter]
          rcases hk with rfl | hk
          · simpa [iter] using h1
          · exact hk
      have h0 : Sim (meet F (knownB b F)) s s' := h.weaken (fun f x hx => meet_le_left hx)
      simp only [knownS, execS, ← h.env]
      rcases loop (s.env n).toNat s s' h0 with ⟨hk, _⟩
      rcases hk with hz | hk
      · rw [hz]; simpa [iter] using h.weaken (fun f x hx => meet_le_left hx)
      · exact hk.weaken (fun f x hx => meet_le_right hx)
theorem simB : (b : Block) → wfB b → ∀ (F : Facts) (s s' : St), okB allF b F → Sim F s s' → Avoids F (defsB b) →
    Sim (knownB b F) (execB allF false b s) (execB allF true b s')
  | .nil, _, F, s, s', _, h, _ => by simpa [knownB, execB] using h
  | .cons st r, hwf, F, s, s', hok, h, ha => by
      simp only [wfB] at hwf; simp only [okB] at hok
      obtain ⟨hws, hwr, huse⟩ := hwf
      simp only [knownB, execB]
      have h1 := simS st hws F s s' hok.1 h (fun f x hx hm => ha f x hx (by simp [defsB, hm]))
      apply simB r hwr _ _ _ hok.2 h1
      intro f x hx hmem
      rcases varsS st F f x hx with h2 | h2
      · exact ha f x h2 (by simp [defsB, hmem])
      · exact huse x h2 hmem
end
#print axioms simB

/-- Extra register writes never change what any launch observes, provided every launch is still total for the
    analysis that *forgets* a field at every extra write (unless the write stores what is known to be there). -/
theorem ghost_writes_unobservable (b : Block) (hwf : wfB b) (hok : okB allF b (fun _ => none)) (s : St) :
    (execB allF true b s).tr = (execB allF false b s).tr :=
  ((simB allF b hwf _ s s hok ⟨fun f x h => by simp at h, fun f x h => by simp at h, rfl, rfl⟩
    (fun f x h => by simp at h)).tr).symm
