/-! Calibration for C10: one dimension of a tiled-strided layout, its address function, and
    `TiledStride.canonicalize` (drop unit bounds except the innermost, squash contiguous tiles). -/
structure Stride where
  step : Nat
  bound : Nat
deriving DecidableEq, Repr

def prodB : List Stride → Nat
  | [] => 1
  | s :: r => s.bound * prodB r

/-- contribution of bounded strides (outermost first): digit_k = (i mod Π_{≥k}) div Π_{>k} -/
def addrIn : List Stride → Nat → Nat
  | [], _ => 0
  | s :: r, i => s.step * ((i % (s.bound * prodB r)) / prodB r) + addrIn r i

/-- the layout's address along one dimension: the outermost digit is not reduced (as in get_affine_map) -/
def addrDim : List Stride → Nat → Nat
  | [], _ => 0
  | s :: r, i => s.step * (i / prodB r) + addrIn r i

/-- TiledStride.canonicalize, outermost first -/
def canon : List Stride → List Stride
  | [] => []
  | s :: r =>
    match canon r with
    | [] => [s]                                   -- the innermost stride is always kept
    | h :: t =>
      if s.bound = 1 then h :: t                  -- unit bound: dropped
      else if h.step * h.bound = s.step then ⟨h.step, h.bound * s.bound⟩ :: t   -- squash
      else s :: h :: t

theorem digit_split (j b R : Nat) : j / R = b * (j / (b * R)) + (j % (b * R)) / R := by
  have h1 : j % (b * R) / R = j / R % b := by rw [Nat.mul_comm b R]; exact Nat.mod_mul_right_div_self j R b
  have h2 : j / (b * R) = j / R / b := by rw [Nat.mul_comm b R, Nat.div_div_eq_div_mul]
  rw [h1, h2]; exact (Nat.div_add_mod (j / R) b).symm

theorem canon_nil_iff (l : List Stride) : canon l = [] ↔ l = [] := by
  cases l with
  | nil => simp [canon]
  | cons s r =>
    simp only [canon]
    split
    · simp
    · split
      · simp
      · split <;> simp

theorem prodB_canon : ∀ l, prodB (canon l) = prodB l
  | [] => rfl
  | s :: r => by
    have ih := prodB_canon r
    simp only [canon]
    split
    · rename_i hc
      have : r = [] := (canon_nil_iff r).mp hc
      subst this; rfl
    · rename_i h t hc
      rw [hc] at ih
      split
      · rename_i hb; simp only [prodB] at ih ⊢; rw [hb, Nat.one_mul]; exact ih
      · split
        · simp only [prodB] at ih ⊢; rw [← ih]; simp [Nat.mul_comm, Nat.mul_left_comm]
        · simp only [prodB] at ih ⊢; rw [ih]

theorem addrIn_canon : ∀ (l : List Stride) (i : Nat), addrIn (canon l) i = addrIn l i
  | [], _ => rfl
  | s :: r, i => by
    have ih := addrIn_canon r i
    have hp := prodB_canon r
    simp only [canon]
    split
    · rename_i hc
      have : r = [] := (canon_nil_iff r).mp hc
      subst this; rfl
    · rename_i h t hc
      rw [hc] at ih hp
      split
      · -- unit bound contributes 0
        rename_i hb
        simp only [addrIn] at ih ⊢
        rw [ih, hb, Nat.one_mul]
        have : i % prodB r / prodB r = 0 := by
          rcases Nat.eq_zero_or_pos (prodB r) with h0 | h0
          · simp [h0]
          · exact Nat.div_eq_of_lt (Nat.mod_lt _ h0)
        simp [this]
      · split
        · -- squash
          rename_i hsq
          simp only [addrIn, prodB] at ih hp ⊢
          rw [← ih, ← hp, ← hsq]
          -- goal: h.step * ((i % (h.bound*s.bound*P)) / P) + addrIn t i
          --     = h.step*h.bound * ((i % (s.bound*(h.bound*P))) / (h.bound*P)) + (h.step * ((i % (h.bound*P))/P) + addrIn t i)
          have hj : i % (h.bound * prodB t) = (i % (s.bound * (h.bound * prodB t))) % (h.bound * prodB t) := by
            rw [Nat.mod_mul_left_mod]
          have e1 : h.bound * s.bound * prodB t = s.bound * (h.bound * prodB t) := by
            simp [Nat.mul_comm, Nat.mul_left_comm]
          rw [e1, hj, digit_split (i % (s.bound * (h.bound * prodB t))) h.bound (prodB t), Nat.mul_add,
              Nat.mul_assoc, Nat.add_assoc]
        · simp only [addrIn, prodB] at ih hp ⊢
          rw [ih, hp]

/-- inside the box the unreduced outermost digit equals the reduced one -/
theorem addrDim_eq_addrIn : ∀ (l : List Stride) (i : Nat), i < prodB l → addrDim l i = addrIn l i
  | [], _, _ => rfl
  | s :: r, i, h => by
    simp only [prodB] at h
    simp only [addrDim, addrIn, Nat.mod_eq_of_lt h]

/-- C10 `canonicalize_addr` for one dimension: canonicalising does not change the address of any index of the box -/
theorem canon_addr (l : List Stride) (i : Nat) (h : i < prodB l) : addrDim (canon l) i = addrDim l i := by
  rw [addrDim_eq_addrIn l i h, addrDim_eq_addrIn (canon l) i (by rw [prodB_canon]; exact h), addrIn_canon]
#print axioms canon_addr
example : canon [⟨32,2⟩, ⟨8,1⟩, ⟨4,4⟩, ⟨1,4⟩] = [⟨32,2⟩, ⟨1,16⟩] := by decide
