/-! Calibration for C15: the slot structure of the unrolled pipeline. Throwaway. -/
-- slot t runs stage k on iteration t - k for every k with k ≤ t and t - k < N
def slot (S N t : Nat) : List (Nat × Nat) :=
  (List.range S).filterMap fun k => if k ≤ t ∧ t - k < N then some (k, t - k) else none
def slots (S N : Nat) : List (List (Nat × Nat)) := (List.range (N + S - 1)).map (slot S N)

theorem mem_slot {S N t k n : Nat} : (k, n) ∈ slot S N t ↔ k < S ∧ n < N ∧ t = n + k := by
  simp only [slot, List.mem_filterMap, List.mem_range]
  constructor
  · rintro ⟨k', hk', h⟩
    split at h
    · rename_i hc
      simp only [Option.some.injEq, Prod.mk.injEq] at h
      obtain ⟨rfl, rfl⟩ := h
      omega
    · simp at h
  · rintro ⟨hk, hn, rfl⟩
    refine ⟨k, hk, ?_⟩
    have : k ≤ n + k ∧ n + k - k < N := by omega
    simp [this, hn]

/-- every stage of every iteration is executed, in slot n + k and in no other slot -/
theorem slots_cover {S N k n : Nat} (hk : k < S) (hn : n < N) :
    ∃ t, t < N + S - 1 ∧ (k, n) ∈ slot S N t ∧ ∀ t', (k, n) ∈ slot S N t' → t' = t :=
  ⟨n + k, by omega, mem_slot.mpr ⟨hk, hn, rfl⟩, fun t' h => (mem_slot.mp h).2.2⟩

/-- nothing outside the original iteration range is ever touched -/
theorem slots_in_range {S N t k n : Nat} (h : (k, n) ∈ slot S N t) : k < S ∧ n < N :=
  ⟨(mem_slot.mp h).1, (mem_slot.mp h).2.1⟩

/-- stage p of iteration n runs strictly before stage p+1 of the same iteration (a barrier lies between) -/
theorem stage_order {S N t t' p n : Nat} (h : (p, n) ∈ slot S N t) (h' : (p + 1, n) ∈ slot S N t') : t' = t + 1 := by
  have := (mem_slot.mp h).2.2; have := (mem_slot.mp h').2.2; omega

/-- double buffering: in one slot the producer (stage p) and the consumer (stage p+1) of a
    duplicated buffer use copies of different parity -/
theorem parity_differs {S N t p n m : Nat} (h : (p, n) ∈ slot S N t) (h' : (p + 1, m) ∈ slot S N t) :
    n % 2 ≠ m % 2 := by
  have := (mem_slot.mp h).2.2; have := (mem_slot.mp h').2.2; omega

/-- and the copy read by stage p+1 of iteration n is the one stage p of iteration n wrote;
    the producer's next write (iteration n+1, same slot as that read) goes to the other copy -/
theorem reads_what_was_written {S N t p n : Nat} (_ : (p + 1, n) ∈ slot S N t) (h' : (p, n + 1) ∈ slot S N t) :
    (n + 1) % 2 ≠ n % 2 := by omega
#print axioms slots_cover
