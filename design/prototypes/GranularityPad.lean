/-! Calibration: small arithmetic lemmas for C09 (access granularity padding) and C12 (transpose_tuple). -/
-- ensure_access_granularity: current_stride += (g - current_stride) % 64, computed in Python integers
def pad (s g : Nat) : Nat := if s % g = 0 then s else s + Int.toNat (Int.fmod ((g : Int) - (s : Int)) 64)

theorem pad_ge (s g : Nat) : s ≤ pad s g := by unfold pad; split <;> omega

/-- the padded stride is a multiple of the granularity whenever the granularity divides 64 (8, 16 and 2 do) -/
theorem pad_dvd (s g : Nat) (hg : g ∣ 64) (hg0 : 0 < g) : g ∣ pad s g := by
  unfold pad
  split
  · rename_i h; exact Nat.dvd_of_mod_eq_zero h
  · -- (g - s) fmod 64 ≡ g - s (mod 64), hence ≡ -s (mod g)
    have h64 : (0 : Int) < 64 := by decide
    have hm := Int.fmod_eq_emod_of_nonneg ((g : Int) - s) (Int.le_of_lt h64)
    have hnn : 0 ≤ ((g : Int) - s) % 64 := Int.emod_nonneg _ (by decide)
    obtain ⟨k, hk⟩ := hg
    -- s + ((g - s) mod 64) = g + 64 * q for an integer q, and g | 64
    have hdm := Int.mul_ediv_add_emod ((g : Int) - s) 64
    have : ((g : Int)) ∣ ((s : Int) + ((g : Int) - s) % 64) := by
      have e : (s : Int) + ((g : Int) - s) % 64 = g - 64 * (((g : Int) - s) / 64) := by omega
      rw [e]
      apply Int.dvd_sub (Int.dvd_refl _)
      exact Int.dvd_trans ⟨(k : Int), by exact_mod_cast hk⟩ (Int.dvd_mul_right 64 _)
    rw [hm]
    have hcast : ((s + Int.toNat (((g : Int) - s) % 64) : Nat) : Int) = (s : Int) + ((g : Int) - s) % 64 := by
      rw [Int.natCast_add, Int.toNat_of_nonneg hnn]
    exact Int.natCast_dvd_natCast.mp (by rw [hcast]; exact this)

-- RemoveTransposeConstants.transpose_tuple(array, cols, rows), called with (*shape) = (a, b) of an a×b row-major input
def transposeTuple (arr : List Int) (cols rows : Nat) : List Int :=
  (List.range rows).flatMap fun i => (List.range cols).map fun j => arr.getD (i + j * rows) 0

theorem transposeTuple_length (arr cols rows) : (transposeTuple arr cols rows).length = rows * cols := by
  simp only [transposeTuple, List.length_flatMap, List.length_map, List.length_range]
  induction rows with
  | zero => simp
  | succ n ih => simp [List.range_succ, List.sum_append, ih, Nat.succ_mul]
#print axioms pad_dvd
