/-! Calibration: generalised mixed radix with gaps is injective (C09/C10/C05/C11 core). Throwaway. -/
-- strides outermost first: (step, bound)
def value : List (Nat × Nat) → List Nat → Nat
  | (s, _) :: r, d :: ds => d * s + value r ds
  | _, _ => 0
/-- one more than the largest value reachable with in-range digits -/
def span : List (Nat × Nat) → Nat
  | [] => 1
  | (s, b) :: r => (b - 1) * s + span r
/-- every step is at least the span of everything inside it -/
def Chain : List (Nat × Nat) → Prop
  | [] => True
  | (s, _) :: r => span r ≤ s ∧ Chain r
def InRange : List (Nat × Nat) → List Nat → Prop
  | (_, b) :: r, d :: ds => d < b ∧ InRange r ds
  | [], [] => True
  | _, _ => False

theorem span_pos (l : List (Nat × Nat)) : 0 < span l := by
  induction l with
  | nil => simp [span]
  | cons p r ih => obtain ⟨s, b⟩ := p; simp only [span]; omega

theorem value_lt_span : ∀ (l : List (Nat × Nat)) (ds : List Nat), InRange l ds → value l ds < span l
  | [], [], _ => by simp [value, span]
  | [], _ :: _, h => by simp [InRange] at h
  | (s, b) :: r, [], h => by simp [InRange] at h
  | (s, b) :: r, d :: ds, h => by
      obtain ⟨hd, hr⟩ := h
      have ih := value_lt_span r ds hr
      simp only [value, span]
      have : d * s ≤ (b - 1) * s := Nat.mul_le_mul_right s (by omega)
      omega

theorem chain_injective : ∀ (l : List (Nat × Nat)) (ds es : List Nat), Chain l → InRange l ds → InRange l es →
    value l ds = value l es → ds = es
  | [], [], [], _, _, _, _ => rfl
  | [], _ :: _, _, _, h, _, _ => by simp [InRange] at h
  | [], [], _ :: _, _, _, h, _ => by simp [InRange] at h
  | (s, b) :: r, [], _, _, h, _, _ => by simp [InRange] at h
  | (s, b) :: r, _ :: _, [], _, _, h, _ => by simp [InRange] at h
  | (s, b) :: r, d :: ds, e :: es, hc, hd, he, hv => by
      obtain ⟨hsp, hcr⟩ := hc
      obtain ⟨hd1, hdr⟩ := hd
      obtain ⟨he1, her⟩ := he
      have h1 := value_lt_span r ds hdr
      have h2 := value_lt_span r es her
      simp only [value] at hv
      have hde : d = e := by
        rcases Nat.lt_trichotomy d e with hlt | heq | hgt
        · exfalso
          have : (d + 1) * s ≤ e * s := Nat.mul_le_mul_right s hlt
          rw [Nat.add_mul] at this; omega
        · exact heq
        · exfalso
          have : (e + 1) * s ≤ d * s := Nat.mul_le_mul_right s hgt
          rw [Nat.add_mul] at this; omega
      subst hde
      have : value r ds = value r es := by omega
      rw [chain_injective r ds es hcr hdr her this]
#print axioms chain_injective
