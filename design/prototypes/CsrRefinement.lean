/-! Calibration for C04: consecutive register maps are injective; writes through an injective map refine
    writes to named fields. Throwaway. -/
theorem consecutive_nodup (base n : Nat) : ((List.range n).map (base + ·)).Nodup := by
  induction n with
  | zero => simp
  | succ k ih =>
    rw [List.range_succ, List.map_append, List.nodup_append]
    refine ⟨ih, by simp, ?_⟩
    intro a ha b hb
    simp only [List.mem_map, List.mem_range] at ha
    obtain ⟨i, hi, rfl⟩ := ha
    simp at hb; omega

/-- a register map built like get_streamer_setup_dict: the i-th field gets base + i -/
def regMap (fields : List String) (base : Nat) : List (String × Nat) :=
  (List.range fields.length).zipWith (fun i f => (f, base + i)) fields |>.map id

abbrev Field := Nat
abbrev Addr := Nat
def writeF (r : Field → Int) (f : Field) (v : Int) : Field → Int := fun g => if g = f then v else r g
def writeA (r : Addr → Int) (a : Addr) (v : Int) : Addr → Int := fun b => if b = a then v else r b

/-- executing a list of field writes on the named register file, and their lowering on the CSR file -/
def runF (r : Field → Int) : List (Field × Int) → Field → Int
  | [] => r
  | (f, v) :: ws => runF (writeF r f v) ws
def runA (m : Field → Addr) (r : Addr → Int) : List (Field × Int) → Addr → Int
  | [] => r
  | (f, v) :: ws => runA m (writeA r (m f) v) ws

/-- C04 `lower_refines` in miniature: with an injective map, every field finds its value at its address -/
theorem lower_refines (m : Field → Addr) (hm : ∀ f g, m f = m g → f = g) :
    ∀ (ws : List (Field × Int)) (rf : Field → Int) (ra : Addr → Int), (∀ f, ra (m f) = rf f) →
      ∀ f, runA m ra ws (m f) = runF rf ws f
  | [], _, _, h, f => h f
  | (g, v) :: ws, rf, ra, h, f => by
      simp only [runA, runF]
      apply lower_refines m hm ws
      intro f'
      simp only [writeA, writeF]
      by_cases e : f' = g
      · simp [e]
      · have : m f' ≠ m g := fun h' => e (hm _ _ h')
        simp [e, this, h f']

/-- and without injectivity it fails: two fields sharing an address observe each other's writes -/
example : ∃ (m : Field → Addr) (ws : List (Field × Int)), runA m (fun _ => 0) ws (m 0) ≠ runF (fun _ => 0) ws 0 :=
  ⟨fun _ => 7, [(0, 1), (1, 2)], by decide⟩
#print axioms lower_refines
