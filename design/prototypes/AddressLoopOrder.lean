import Mathlib.Data.List.Perm.Basic
open List
/-! Calibration for C05 / C03: the multiset of addresses produced by a loop nest over (step, bound) pairs does
    not depend on the order of the loops. Throwaway. -/
theorem flatMap_comm_perm {α β γ} (l1 : List α) (l2 : List β) (g : α → β → List γ) :
    l1.flatMap (fun a => l2.flatMap (g a)) ~ l2.flatMap (fun b => l1.flatMap (fun a => g a b)) := by
  induction l1 with
  | nil => simp
  | cons a as ih =>
    simp only [flatMap_cons]
    exact (Perm.append_left _ ih).trans (flatMap_append_perm l2 (g a) (fun b => as.flatMap fun a => g a b))

/-- all addresses Σ digit_k · step_k, loops nested in list order (head = outermost) -/
def addrs : List (Nat × Nat) → List Nat
  | [] => [0]
  | (s, b) :: r => (List.range b).flatMap fun d => (addrs r).map (d * s + ·)

theorem addrs_perm {l1 l2 : List (Nat × Nat)} (h : l1 ~ l2) : addrs l1 ~ addrs l2 := by
  induction h with
  | nil => exact Perm.refl _
  | cons x _ ih =>
    obtain ⟨s, b⟩ := x
    simp only [addrs]
    exact Perm.flatMap_left _ (fun d _ => ih.map _)
  | swap x y l =>
    obtain ⟨s, b⟩ := x; obtain ⟨t, c⟩ := y
    simp only [addrs, map_flatMap, map_map]
    refine (flatMap_comm_perm (List.range c) (List.range b)
      (fun e d => (addrs l).map ((fun a => e * t + a) ∘ (fun a => d * s + a)))).trans (Perm.of_eq ?_)
    congr 1; funext d; congr 1; funext e; congr 1; funext a
    simp only [Function.comp]; omega
  | trans _ _ ih1 ih2 => exact ih1.trans ih2
#print axioms addrs_perm

/-- hence sorting the remaining strides by bound (as TransformDMA does) or rotating loops (as the scheduler does)
    never changes which addresses are visited -/
example : addrs [(1, 4), (16, 2), (4, 3)] ~ addrs [(16, 2), (4, 3), (1, 4)] :=
  addrs_perm (by decide)

def prodB : List (Nat × Nat) → Nat
  | [] => 1
  | (_, b) :: r => b * prodB r
/-- a contiguous chain: every step equals the number of addresses below it (the LCB of two layouts has this shape) -/
def Dense : List (Nat × Nat) → Prop
  | [] => True
  | (s, _) :: r => s = prodB r ∧ Dense r

theorem range_mul_flatMap (q t : Nat) :
    (List.range q).flatMap (fun i => (List.range t).map (fun j => i * t + j)) = List.range (q * t) := by
  induction q with
  | zero => simp
  | succ n ih =>
    rw [List.range_succ, List.flatMap_append, ih]
    simp only [List.flatMap_cons, List.flatMap_nil, List.append_nil]
    rw [Nat.succ_mul, List.range_add]

/-- a contiguous chain enumerates exactly one burst `0 .. Π bounds − 1`, in order: one DMA transfer of that many elements -/
theorem addrs_dense : ∀ l, Dense l → addrs l = List.range (prodB l)
  | [], _ => rfl
  | (s, b) :: r, h => by
    obtain ⟨hs, hr⟩ := h
    simp only [addrs, prodB, addrs_dense r hr, hs]
    exact range_mul_flatMap b (prodB r)
#print axioms addrs_dense
