/-! Calibration for C17: merging a perfect loop nest, and normalising the step. -/
theorem range_mul_flatMap (q t : Nat) :
    (List.range q).flatMap (fun i => (List.range t).map (fun j => t * i + j)) = List.range (q * t) := by
  induction q with
  | zero => simp
  | succ n ih =>
    rw [List.range_succ, List.flatMap_append, ih]
    simp only [List.flatMap_cons, List.flatMap_nil, List.append_nil]
    rw [Nat.succ_mul, List.range_add]
    congr 1
    apply List.map_congr_left
    intro a _
    rw [Nat.mul_comm]

/-- MergeForLoops on a perfect nest: `for k < n*m { body (k / m) (k % m) }` emits the same events as the nest -/
theorem merge_trace {ε} (n m : Nat) (body : Nat → Nat → List ε) :
    (List.range (n * m)).flatMap (fun k => body (k / m) (k % m))
      = (List.range n).flatMap (fun i => (List.range m).flatMap (body i)) := by
  rw [← range_mul_flatMap n m, List.flatMap_assoc]
  congr 1
  funext i
  rw [List.flatMap_map]
  -- pointwise on j < m
  have key : ∀ (l : List Nat), (∀ j ∈ l, j < m) →
      l.flatMap (fun j => body ((m * i + j) / m) ((m * i + j) % m)) = l.flatMap (body i) := by
    intro l hl
    induction l with
    | nil => rfl
    | cons j js ih =>
      have hj' : j < m := hl j (by simp)
      have hm : 0 < m := by omega
      simp only [List.flatMap_cons]
      rw [ih (fun j hj => hl j (by simp [hj])), Nat.mul_add_div hm, Nat.div_eq_of_lt hj', Nat.add_zero,
          Nat.mul_add_mod, Nat.mod_eq_of_lt hj']
  exact key _ (fun j hj => List.mem_range.mp hj)

/-- iterations of `for i = 0 to ub step s` (s > 0), as the list of induction-variable values -/
def forIters (ub s : Nat) : List Nat := (List.range ((ub + s - 1) / s)).map (· * s)

/-- ChangeForStep with the repaired trip count ⌈ub/s⌉: same induction-variable values, in order -/
theorem changeStep_iters (ub s : Nat) :
    (List.range ((ub + s - 1) / s)).map (fun j => s * j) = forIters ub s := by
  simp [forIters, Nat.mul_comm]

/-- the unrepaired trip count ub / s drops the last iteration whenever s does not divide ub -/
example : (List.range (10 / 3)).map (fun j => 3 * j) ≠ forIters 10 3 := by decide
/-- and every value produced by the repaired loop is a genuine iteration (< ub), none is missing -/
theorem forIters_spec (ub s i : Nat) (hs : 0 < s) : i ∈ forIters ub s ↔ (i < ub ∧ s ∣ i) := by
  simp only [forIters, List.mem_map, List.mem_range]
  constructor
  · rintro ⟨j, hj, rfl⟩
    refine ⟨?_, Nat.dvd_mul_left s j⟩
    have h1 : (j + 1) * s ≤ ub + s - 1 := by
      have := Nat.div_mul_le_self (ub + s - 1) s
      have : (j + 1) * s ≤ (ub + s - 1) / s * s := Nat.mul_le_mul_right s hj
      omega
    rw [Nat.add_mul] at h1; omega
  · rintro ⟨hi, ⟨j, rfl⟩⟩
    refine ⟨j, ?_, Nat.mul_comm j s⟩
    have h2 : (j + 1) * s ≤ ub + s - 1 := by rw [Nat.add_mul]; rw [Nat.mul_comm] at hi; omega
    exact (Nat.le_div_iff_mul_le hs).mpr h2
#print axioms merge_trace
