/-! Calibration for C20: decoding a kernel against a merged processing element is sound.
    Values are integers, operations binary. Throwaway. -/
abbrev V := Int
abbrev OpCode := Nat

inductive Src where
  | arg (i : Nat)
  | node (j : Nat)
  | mux (sw : Nat) (l r : Src)          -- switch value 1 selects r, anything else l

structure Node where
  ops : List OpCode                      -- alternatives of the choose op (singleton in a concrete kernel)
  sw : Nat                               -- its switch
  a : Src
  b : Src

variable (sem : OpCode → V → V → V) (args : Nat → V) (swv : Nat → Nat)

def evalSrc (vals : Nat → V) : Src → V
  | .arg i => args i
  | .node j => vals j
  | .mux sw l r => if swv sw = 1 then evalSrc vals r else evalSrc vals l

/-- follow the muxes under the switch assignment down to an argument or a node -/
def follow : Src → Src
  | .arg i => .arg i
  | .node j => .node j
  | .mux sw l r => if swv sw = 1 then follow r else follow l

theorem evalSrc_follow (vals : Nat → V) : ∀ s, evalSrc args swv vals (follow swv s) = evalSrc args swv vals s
  | .arg _ => rfl
  | .node _ => rfl
  | .mux sw l r => by
      simp only [follow, evalSrc]
      split
      · exact evalSrc_follow vals r
      · exact evalSrc_follow vals l

def nodeVal (vals : Nat → V) (n : Node) : V :=
  sem (n.ops.getD (swv n.sw) 0) (evalSrc args swv vals n.a) (evalSrc args swv vals n.b)

/-- evaluate the nodes in program order, node k of the list gets index p + k -/
def evalFrom : List Node → Nat → (Nat → V) → (Nat → V)
  | [], _, vals => vals
  | n :: r, p, vals => evalFrom r (p + 1) (fun q => if q = p then nodeVal sem args swv vals n else vals q)

/-- every node reference points to an earlier node -/
def srcBelow (p : Nat) : Src → Prop
  | .arg _ => True
  | .node j => j < p
  | .mux _ l r => srcBelow p l ∧ srcBelow p r
def wfFrom : List Node → Nat → Prop
  | [], _ => True
  | n :: r, p => srcBelow p n.a ∧ srcBelow p n.b ∧ wfFrom r (p + 1)

theorem evalFrom_stable : ∀ (l : List Node) (p : Nat) (vals : Nat → V) (q : Nat), q < p →
    evalFrom sem args swv l p vals q = vals q
  | [], _, _, _, _ => rfl
  | n :: r, p, vals, q, h => by
      simp only [evalFrom]
      rw [evalFrom_stable r (p + 1) _ q (by omega)]
      have : q ≠ p := by omega
      simp [this]

theorem evalSrc_congr (v w : Nat → V) (p : Nat) (h : ∀ q, q < p → v q = w q) : ∀ s, srcBelow p s →
    evalSrc args swv v s = evalSrc args swv w s
  | .arg _, _ => rfl
  | .node j, hb => h j hb
  | .mux sw l r, hb => by
      simp only [evalSrc]
      split
      · exact evalSrc_congr v w p h r hb.2
      · exact evalSrc_congr v w p h l hb.1

/-- the final valuation satisfies the defining equation of every node -/
theorem evalFrom_fix : ∀ (l : List Node) (p : Nat) (vals : Nat → V) (k : Nat) (n : Node), wfFrom l p →
    l[k]? = some n →
    evalFrom sem args swv l p vals (p + k) = nodeVal sem args swv (evalFrom sem args swv l p vals) n
  | [], _, _, _, _, _, h => by simp at h
  | m :: r, p, vals, k, n, hwf, h => by
      obtain ⟨ha, hb, hr⟩ := hwf
      cases k with
      | zero =>
        simp only [List.getElem?_cons_zero, Option.some.injEq] at h; subst h
        have hfin : ∀ q, q ≤ p →
            evalFrom sem args swv r (p + 1) (fun q => if q = p then nodeVal sem args swv vals m else vals q) q
              = (if q = p then nodeVal sem args swv vals m else vals q) :=
          fun q hq => evalFrom_stable sem args swv r (p + 1) _ q (by omega)
        have e : ∀ s, srcBelow p s → evalSrc args swv vals s =
            evalSrc args swv (evalFrom sem args swv r (p + 1) (fun q => if q = p then nodeVal sem args swv vals m else vals q)) s := by
          intro s hs
          apply evalSrc_congr args swv _ _ p _ s hs
          intro q hq
          rw [hfin q (by omega)]
          have : q ≠ p := by omega
          simp [this]
        show evalFrom sem args swv (m :: r) p vals (p + 0) = nodeVal sem args swv (evalFrom sem args swv (m :: r) p vals) m
        simp only [evalFrom, Nat.add_zero]
        rw [hfin p (Nat.le_refl p)]
        simp only [if_true]
        simp only [nodeVal] at e ⊢
        rw [← e m.a ha, ← e m.b hb]
      | succ k =>
        simp only [List.getElem?_cons_succ] at h
        simp only [evalFrom]
        rw [show p + (k + 1) = p + 1 + k by omega]
        exact evalFrom_fix r (p + 1) (fun q => if q = p then nodeVal sem args swv vals m else vals q) k n hr h

/-- what `valid_mapping` + the local choose decisions establish, for a concrete kernel `K` (one op per node,
    no muxes) whose node `c` corresponds to node `idx c` of the merged element `A` -/
structure Decoded (A K : List Node) (idx : Nat → Nat) : Prop where
  wfA : wfFrom A 0
  wfK : wfFrom K 0
  node : ∀ c k, K[c]? = some k → ∃ a, A[idx c]? = some a ∧
      a.ops.getD (swv a.sw) 0 = k.ops.getD 0 0 ∧
      (∀ i, k.a = .arg i → follow swv a.a = .arg i) ∧ (∀ c', k.a = .node c' → follow swv a.a = .node (idx c')) ∧
      (∀ i, k.b = .arg i → follow swv a.b = .arg i) ∧ (∀ c', k.b = .node c' → follow swv a.b = .node (idx c')) ∧
      (∀ sw l r, k.a ≠ .mux sw l r) ∧ (∀ sw l r, k.b ≠ .mux sw l r)

theorem decode_sound (A K : List Node) (idx : Nat → Nat) (h : Decoded swv A K idx) (v0 w0 : Nat → V) :
    ∀ (c : Nat) (k : Node), K[c]? = some k →
      evalFrom sem args swv A 0 v0 (idx c) = evalFrom sem args (fun _ => 0) K 0 w0 c := by
  intro c
  induction c using Nat.strongRecOn with
  | _ c ih =>
    intro k hk
    obtain ⟨a, ha, hop, haa, han, hba, hbn, hma, hmb⟩ := h.node c k hk
    have eA := evalFrom_fix sem args swv A 0 v0 (idx c) a h.wfA ha
    have eK := evalFrom_fix sem args (fun _ => 0) K 0 w0 c k h.wfK hk
    simp only [Nat.zero_add] at eA eK
    rw [eA, eK]
    simp only [nodeVal]
    -- operands of k point below c
    have hkwf : srcBelow c k.a ∧ srcBelow c k.b := by
      have : ∀ (l : List Node) (p j : Nat) (n : Node), wfFrom l p → l[j]? = some n → srcBelow (p + j) n.a ∧ srcBelow (p + j) n.b := by
        intro l
        induction l with
        | nil => intro p j n _ hj; simp at hj
        | cons m r ihl =>
          intro p j n hw hj
          cases j with
          | zero => simp at hj; subst hj; exact ⟨hw.1, hw.2.1⟩
          | succ j => simp at hj; have := ihl (p + 1) j n hw.2.2 hj; rw [show p + (j + 1) = p + 1 + j by omega]; exact this
      simpa using this K 0 c k h.wfK hk
    have operand : ∀ (ka aa : Src), srcBelow c ka → (∀ sw l r, ka ≠ .mux sw l r) →
        (∀ i, ka = .arg i → follow swv aa = .arg i) → (∀ c', ka = .node c' → follow swv aa = .node (idx c')) →
        evalSrc args swv (evalFrom sem args swv A 0 v0) aa = evalSrc args (fun _ => 0) (evalFrom sem args (fun _ => 0) K 0 w0) ka := by
      intro ka aa hb hm h1 h2
      rw [← evalSrc_follow args swv _ aa]
      cases ka with
      | arg i => rw [h1 i rfl]; rfl
      | node c' =>
        rw [h2 c' rfl]
        simp only [evalSrc]
        have hc' : c' < c := hb
        -- node c' exists in K because c' < c < length
        have hlen : c < K.length := by
          rcases Nat.lt_or_ge c K.length with h | h
          · exact h
          · simp [List.getElem?_eq_none h] at hk
        have : K[c']? = some K[c'] := List.getElem?_eq_getElem (by omega)
        exact ih c' hc' _ this
      | mux sw l r => exact absurd rfl (hm sw l r)
    rw [hop, operand k.a a.a hkwf.1 hma haa han, operand k.b a.b hkwf.2 hmb hba hbn]
#print axioms decode_sound
