/-! Unified calibration prototype for the accfg family (C01, C06, C07): several accelerators, loops with an
    induction variable and real trip counts, launches/awaits/calls in the trace, opaque calls with or without
    effects, ghost writes. Definitions + the three core theorems (inference soundness, simplify, ghost writes).
    Throwaway prototype; not part of any check. -/
abbrev Var := Nat
abbrev AccId := Nat
abbrev Field := Nat
abbrev Facts := AccId → Field → Option Var
abbrev Env := Var → Int
abbrev Regs := AccId → Field → Int

inductive Event where
  | launch (a : AccId) (snapshot : List Int)
  | await (a : AccId)
  | call (tag : Nat)
deriving DecidableEq

def noFacts : Facts := fun _ _ => none
def meet (x y : Facts) : Facts := fun a f => if x a f = y a f then x a f else none
def upd (F : Facts) (a : AccId) (fs : List (Field × Var)) : Facts := fun a' f =>
  if a' = a then (match fs.lookup f with | some x => some x | none => F a' f) else F a' f
def forget (F : Facts) (a : AccId) (fs : List (Field × Var)) : Facts := fun a' f =>
  if a' = a then (match fs.lookup f with
    | some y => if F a' f = some y then F a' f else none
    | none => F a' f) else F a' f
def setRegs (r : Regs) (env : Env) (a : AccId) (fs : List (Field × Var)) : Regs := fun a' f =>
  if a' = a then (match fs.lookup f with | some x => env x | none => r a' f) else r a' f

mutual
inductive Stmt where
  | setup (a : AccId) (fs : List (Field × Var))
  | ghost (a : AccId) (fs : List (Field × Var))     -- write that exists only in the transformed run
  | launch (a : AccId)
  | await (a : AccId)
  | pure (dst : Var) (g : List Int → Int) (args : List Var)
  | call (tag : Nat) (effects : Bool) (clob : Regs → Regs)
  | ifS (c : Var) (t e : Block)
  | forS (lb ub step iv : Var) (body : Block)
inductive Block where
  | nil
  | cons (s : Stmt) (r : Block)
end

structure St where
  env : Env
  regs : Regs
  tr : List Event

/-- scf.for: number of iterations for lb, ub, step (step ≤ 0 never iterates here; MLIR requires step > 0) -/
def tripCount (lb ub step : Int) : Nat :=
  if step ≤ 0 ∨ ub ≤ lb then 0 else ((ub - lb + step - 1) / step).toNat

/-- run `f i` for i = k, k+1, …, k+n-1 -/
def iterFrom {σ} (f : Nat → σ → σ) : Nat → Nat → σ → σ
  | 0, _, s => s
  | n+1, k, s => iterFrom f n (k + 1) (f k s)

variable (allF : AccId → List Field)

mutual
def execS (gh : Bool) : Stmt → St → St
  | .setup a fs, s => { s with regs := setRegs s.regs s.env a fs }
  | .ghost a fs, s => if gh then { s with regs := setRegs s.regs s.env a fs } else s
  | .launch a, s => { s with tr := s.tr ++ [Event.launch a ((allF a).map (s.regs a))] }
  | .await a, s => { s with tr := s.tr ++ [Event.await a] }
  | .pure d g args, s => { s with env := fun v => if v = d then g (args.map s.env) else s.env v }
  | .call tag eff clob, s =>
      { s with regs := (if eff then clob s.regs else s.regs), tr := s.tr ++ [Event.call tag] }
  | .ifS c t e, s => if s.env c ≠ 0 then execB gh t s else execB gh e s
  | .forS lb ub step iv b, s =>
      let l := s.env lb; let st := s.env step
      iterFrom (fun i u => execB gh b { u with env := fun v => if v = iv then l + i * st else u.env v })
        (tripCount l (s.env ub) st) 0 s
def execB (gh : Bool) : Block → St → St
  | .nil, s => s
  | .cons s r, st => execB gh r (execS gh s st)
end

-- inference with the repaired loop equations; an effectful call forgets everything; a ghost forgets its fields
mutual
def knownS : Stmt → Facts → Facts
  | .setup a fs, F => upd F a fs
  | .ghost a fs, F => forget F a fs
  | .launch _, F => F
  | .await _, F => F
  | .pure _ _ _, F => F
  | .call _ eff _, F => if eff then noFacts else F
  | .ifS _ t e, F => meet (knownB t F) (knownB e F)
  | .forS _ _ _ _ b, F => meet F (knownB b (meet F (knownB b F)))
def knownB : Block → Facts → Facts
  | .nil, F => F
  | .cons s r, F => knownB r (knownS s F)
end

mutual
def defsS : Stmt → List Var
  | .pure d _ _ => [d]
  | .ifS _ t e => defsB t ++ defsB e
  | .forS _ _ _ iv b => iv :: defsB b
  | _ => []
def defsB : Block → List Var
  | .nil => []
  | .cons s r => defsS s ++ defsB r
end
mutual
def usesS : Stmt → List Var
  | .setup _ fs => fs.map (·.2)
  | .ifS _ t e => usesB t ++ usesB e
  | .forS _ _ _ _ b => usesB b
  | _ => []
def usesB : Block → List Var
  | .nil => []
  | .cons s r => usesS s ++ usesB r
end
-- SSA: a value used by a setup is not redefined later in the same block; loop bounds are not redefined in the body
mutual
def wfS : Stmt → Prop
  | .ifS _ t e => wfB t ∧ wfB e
  | .forS _ _ _ _ b => wfB b
  | _ => True
def wfB : Block → Prop
  | .nil => True
  | .cons s r => wfS s ∧ wfB r ∧ (∀ x ∈ usesS s, x ∉ defsB r)
end

-- ===== facts lemmas =====
theorem meet_le_left {x y : Facts} {a f v} (h : meet x y a f = some v) : x a f = some v := by
  unfold meet at h; split at h <;> simp_all
theorem meet_le_right {x y : Facts} {a f v} (h : meet x y a f = some v) : y a f = some v := by
  unfold meet at h; split at h
  · rename_i heq; rw [← heq]; exact h
  · simp at h
theorem forget_le {F : Facts} {a fs a' f v} (h : forget F a fs a' f = some v) : F a' f = some v := by
  simp only [forget] at h
  split at h
  · split at h
    · split at h
      · exact h
      · simp at h
    · exact h
  · exact h

mutual
theorem localS : (s : Stmt) → ∀ (F F' : Facts) (a : AccId) (f : Field), F a f = F' a f → knownS s F a f = knownS s F' a f
  | .setup b fs, F, F', a, f, h => by
      simp only [knownS, upd]
      split
      · split <;> simp_all
      · exact h
  | .ghost b fs, F, F', a, f, h => by simp only [knownS, forget, h]
  | .launch _, F, F', a, f, h => by simpa [knownS] using h
  | .await _, F, F', a, f, h => by simpa [knownS] using h
  | .pure _ _ _, F, F', a, f, h => by simpa [knownS] using h
  | .call _ eff _, F, F', a, f, h => by
      simp only [knownS]
      split
      · rfl
      · exact h
  | .ifS _ t e, F, F', a, f, h => by
      have ht := localB t F F' a f h; have he := localB e F F' a f h
      simp only [knownS, meet, ht, he]
  | .forS _ _ _ _ b, F, F', a, f, h => by
      have h1 := localB b F F' a f h
      have hhead : meet F (knownB b F) a f = meet F' (knownB b F') a f := by simp only [meet, h, h1]
      have h2 := localB b _ _ a f hhead
      simp only [knownS, meet, h, h2]
theorem localB : (b : Block) → ∀ (F F' : Facts) (a : AccId) (f : Field), F a f = F' a f → knownB b F a f = knownB b F' a f
  | .nil, F, F', a, f, h => by simpa [knownB] using h
  | .cons s r, F, F', a, f, h => by simp only [knownB]; exact localB r _ _ a f (localS s F F' a f h)
end

mutual
theorem varsS : (s : Stmt) → ∀ (F : Facts) a f x, knownS s F a f = some x → F a f = some x ∨ x ∈ usesS s
  | .setup b fs, F, a, f, x, h => by
      simp only [knownS, upd] at h
      split at h
      · split at h
        · rename_i y hy
          right; simp only [usesS, List.mem_map]
          obtain ⟨l1, l2, hl, _⟩ := List.lookup_eq_some_iff.mp hy
          exact ⟨(f, y), by simp [hl], by simpa using h⟩
        · left; exact h
      · left; exact h
  | .ghost b fs, F, a, f, x, h => by left; exact forget_le (by simpa [knownS] using h)
  | .launch _, F, a, f, x, h => by left; simpa [knownS] using h
  | .await _, F, a, f, x, h => by left; simpa [knownS] using h
  | .pure _ _ _, F, a, f, x, h => by left; simpa [knownS] using h
  | .call _ eff _, F, a, f, x, h => by
      simp only [knownS] at h; split at h
      · simp [noFacts] at h
      · left; exact h
  | .ifS _ t e, F, a, f, x, h => by
      simp only [knownS] at h
      rcases varsB t F a f x (meet_le_left h) with h1 | h1
      · left; exact h1
      · right; simp [usesS, h1]
  | .forS _ _ _ _ b, F, a, f, x, h => by
      simp only [knownS] at h; left; exact meet_le_left h
theorem varsB : (b : Block) → ∀ (F : Facts) a f x, knownB b F a f = some x → F a f = some x ∨ x ∈ usesB b
  | .nil, F, a, f, x, h => by left; simpa [knownB] using h
  | .cons s r, F, a, f, x, h => by
      simp only [knownB] at h
      rcases varsB r _ a f x h with h1 | h1
      · rcases varsS s F a f x h1 with h2 | h2
        · left; exact h2
        · right; simp [usesB, h2]
      · right; simp [usesB, h1]
end

-- ===== the simulation (covers inference soundness as the special case without ghosts) =====
structure Sim (F : Facts) (s s' : St) : Prop where
  sound : ∀ a f x, F a f = some x → s.regs a f = s.env x
  agree : ∀ a f x, F a f = some x → s.regs a f = s'.regs a f
  env : s.env = s'.env
  tr : s.tr = s'.tr

def Avoids (F : Facts) (ds : List Var) : Prop := ∀ a f x, F a f = some x → x ∉ ds

theorem Sim.weaken {F G : Facts} {s s'} (h : Sim F s s') (hle : ∀ a f x, G a f = some x → F a f = some x) : Sim G s s' :=
  ⟨fun a f x hx => h.sound a f x (hle a f x hx), fun a f x hx => h.agree a f x (hle a f x hx), h.env, h.tr⟩

/-- redefining a variable no fact mentions keeps the simulation -/
theorem Sim.setEnv {F : Facts} {s s'} (h : Sim F s s') (v : Var) (val : Int) (hv : ∀ a f x, F a f = some x → x ≠ v) :
    Sim F { s with env := fun w => if w = v then val else s.env w } { s' with env := fun w => if w = v then val else s'.env w } :=
  ⟨fun a f x hx => by simp only [hv a f x hx, if_false]; exact h.sound a f x hx,
   fun a f x hx => h.agree a f x hx, by simp only [h.env], h.tr⟩

-- side condition: every launch is total for the (forgetful) analysis
mutual
def okS : Stmt → Facts → Prop
  | .launch a, F => ∀ f ∈ allF a, (F a f).isSome
  | .ifS _ t e, F => okB t F ∧ okB e F
  | .forS _ _ _ _ b, F => okB b (meet F (knownB b F))
  | _, _ => True
def okB : Block → Facts → Prop
  | .nil, _ => True
  | .cons s r, F => okS s F ∧ okB r (knownS s F)
end

mutual
theorem simS : (st : Stmt) → wfS st → ∀ (F : Facts) (s s' : St), okS allF st F → Sim F s s' → Avoids F (defsS st) →
    Sim (knownS st F) (execS allF false st s) (execS allF true st s')
  | .setup b fs, _, F, s, s', _, h, _ => by
      refine ⟨?_, ?_, h.env, h.tr⟩
      · intro a f x hx
        simp only [knownS, upd] at hx
        simp only [execS, setRegs]
        split at hx
        · rename_i hab; simp only [hab, if_true]
          cases hl : fs.lookup f with
          | some y => simp only [hl] at hx ⊢; cases hx; rfl
          | none => simp only [hl] at hx ⊢; rw [← hab]; exact h.sound a f x hx
        · rename_i hab; simp only [hab, if_false]; exact h.sound a f x hx
      · intro a f x hx
        simp only [knownS, upd] at hx
        simp only [execS, setRegs, ← h.env]
        split at hx
        · rename_i hab; simp only [hab, if_true]
          cases hl : fs.lookup f with
          | some y => simp only [hl]
          | none => simp only [hl] at hx ⊢; rw [← hab]; exact h.agree a f x hx
        · rename_i hab; simp only [hab, if_false]; exact h.agree a f x hx
  | .ghost b fs, _, F, s, s', _, h, _ => by
      refine ⟨?_, ?_, h.env, h.tr⟩
      · intro a f x hx; simp only [knownS] at hx; simpa [execS] using h.sound a f x (forget_le hx)
      · intro a f x hx
        simp only [knownS] at hx
        have hF := forget_le hx
        simp only [execS, if_true, Bool.false_eq_true, if_false, setRegs]
        by_cases hab : a = b
        · simp only [hab, if_true]
          subst hab
          cases hl : fs.lookup f with
          | none => simp only []; exact h.agree a f x hF
          | some y =>
            simp only []
            simp only [forget, if_true, hl] at hx
            split at hx
            · rename_i hy; rw [hy] at hx; cases hx
              rw [← h.env]; exact h.sound a f x hF
            · simp at hx
        · simp only [hab, if_false]; exact h.agree a f x hF
  | .launch b, _, F, s, s', hok, h, _ => by
      simp only [okS] at hok
      refine ⟨fun a f x hx => by simpa [execS] using h.sound a f x (by simpa [knownS] using hx),
              fun a f x hx => by simpa [execS] using h.agree a f x (by simpa [knownS] using hx), h.env, ?_⟩
      simp only [execS, h.tr]
      congr 3
      apply List.map_congr_left
      intro f hf
      obtain ⟨x, hx⟩ := Option.isSome_iff_exists.mp (hok f hf)
      exact h.agree b f x hx
  | .await b, _, F, s, s', _, h, _ => by
      exact ⟨fun a f x hx => by simpa [execS] using h.sound a f x (by simpa [knownS] using hx),
             fun a f x hx => by simpa [execS] using h.agree a f x (by simpa [knownS] using hx), h.env,
             by simp only [execS, h.tr]⟩
  | .pure d g args, _, F, s, s', _, h, ha => by
      have hne : ∀ a f x, F a f = some x → x ≠ d := fun a f x hx e => ha a f x hx (by simp [defsS, e])
      have := h.setEnv d (g (args.map s.env)) hne
      simpa [execS, knownS, h.env] using this
  | .call tag eff clob, _, F, s, s', _, h, _ => by
      cases eff with
      | true =>
        exact ⟨fun a f x hx => by simp [knownS, noFacts] at hx, fun a f x hx => by simp [knownS, noFacts] at hx,
               h.env, by simp only [execS, h.tr]⟩
      | false =>
        exact ⟨fun a f x hx => by simpa [execS] using h.sound a f x (by simpa [knownS] using hx),
               fun a f x hx => by simpa [execS] using h.agree a f x (by simpa [knownS] using hx), h.env,
               by simp only [execS, h.tr]⟩
  | .ifS c t e, hwf, F, s, s', hok, h, ha => by
      simp only [wfS] at hwf; simp only [okS] at hok
      simp only [knownS, execS, ← h.env]
      split
      · exact (simB t hwf.1 F s s' hok.1 h (fun a f x hx hm => ha a f x hx (by simp [defsS, hm]))).weaken
          (fun a f x hx => meet_le_left hx)
      · exact (simB e hwf.2 F s s' hok.2 h (fun a f x hx hm => ha a f x hx (by simp [defsS, hm]))).weaken
          (fun a f x hx => meet_le_right hx)
  | .forS lb ub step iv b, hwf, F, s, s', hok, h, ha => by
      simp only [wfS] at hwf; simp only [okS] at hok; simp only [defsS] at ha
      have hav : Avoids (meet F (knownB b F)) (defsB b) :=
        fun a f x hx hm => ha a f x (meet_le_left hx) (by simp [hm])
      have hiv : ∀ a f x, meet F (knownB b F) a f = some x → x ≠ iv :=
        fun a f x hx e => ha a f x (meet_le_left hx) (by simp [e])
      -- one iteration, both runs
      have stepSim : ∀ (i : Nat) (l stp : Int) u u', Sim (meet F (knownB b F)) u u' →
          Sim (knownB b (meet F (knownB b F)))
            (execB allF false b { u with env := fun v => if v = iv then l + i * stp else u.env v })
            (execB allF true b { u' with env := fun v => if v = iv then l + i * stp else u'.env v }) :=
        fun i l stp u u' hu => simB b hwf _ _ _ hok (hu.setEnv iv _ hiv) hav
      have back : ∀ u u', Sim (knownB b (meet F (knownB b F))) u u' → Sim (meet F (knownB b F)) u u' := by
        intro u u' hu
        apply hu.weaken
        intro a f x hx
        have h1 : F a f = some x := meet_le_left hx
        have h2 : knownB b F a f = some x := meet_le_right hx
        have hloc := localB b (meet F (knownB b F)) F a f (by rw [hx, h1])
        rw [hloc, h2]
      have loop : ∀ (n k : Nat) (l stp : Int) u u', Sim (meet F (knownB b F)) u u' →
          (n = 0 ∨ Sim (knownB b (meet F (knownB b F)))
            (iterFrom (fun i u => execB allF false b { u with env := fun v => if v = iv then l + i * stp else u.env v }) n k u)
            (iterFrom (fun i u => execB allF true b { u with env := fun v => if v = iv then l + i * stp else u.env v }) n k u')) ∧
          Sim (meet F (knownB b F))
            (iterFrom (fun i u => execB allF false b { u with env := fun v => if v = iv then l + i * stp else u.env v }) n k u)
            (iterFrom (fun i u => execB allF true b { u with env := fun v => if v = iv then l + i * stp else u.env v }) n k u') := by
        intro n
        induction n with
        | zero => intro k l stp u u' hu; exact ⟨Or.inl rfl, by simpa [iterFrom] using hu⟩
        | succ n ih =>
          intro k l stp u u' hu
          have h1 := stepSim k l stp u u' hu
          have h2 := back _ _ h1
          rcases ih (k + 1) l stp _ _ h2 with ⟨hk, hk'⟩
          refine ⟨Or.inr ?_, by simpa [iterFrom] using hk'⟩
          simp only [iterFrom]
          rcases hk with rfl | hk
          · simpa [iterFrom] using h1
          · exact hk
      have h0 : Sim (meet F (knownB b F)) s s' := h.weaken (fun a f x hx => meet_le_left hx)
      simp only [knownS, execS, ← h.env]
      rcases loop (tripCount (s.env lb) (s.env ub) (s.env step)) 0 (s.env lb) (s.env step) s s' h0 with ⟨hk, _⟩
      rcases hk with hz | hk
      · rw [hz]; simpa [iterFrom] using h.weaken (fun a f x hx => meet_le_left hx)
      · exact hk.weaken (fun a f x hx => meet_le_right hx)
theorem simB : (b : Block) → wfB b → ∀ (F : Facts) (s s' : St), okB allF b F → Sim F s s' → Avoids F (defsB b) →
    Sim (knownB b F) (execB allF false b s) (execB allF true b s')
  | .nil, _, F, s, s', _, h, _ => by simpa [knownB, execB] using h
  | .cons st r, hwf, F, s, s', hok, h, ha => by
      simp only [wfB] at hwf; simp only [okB] at hok
      obtain ⟨hws, hwr, huse⟩ := hwf
      simp only [knownB, execB]
      have h1 := simS st hws F s s' hok.1 h (fun a f x hx hm => ha a f x hx (by simp [defsB, hm]))
      apply simB r hwr _ _ _ hok.2 h1
      intro a f x hx hmem
      rcases varsS st F a f x hx with h2 | h2
      · exact ha a f x h2 (by simp [defsB, hmem])
      · exact huse x h2 hmem
end
#print axioms simB

/-- C01/C06 core: added register writes are unobservable when every launch stays total -/
theorem ghost_writes_unobservable (b : Block) (hwf : wfB b) (hok : okB allF b noFacts) (s : St) :
    (execB allF true b s).tr = (execB allF false b s).tr :=
  ((simB allF b hwf _ s s hok ⟨fun a f x h => by simp [noFacts] at h, fun a f x h => by simp [noFacts] at h, rfl, rfl⟩
    (fun a f x h => by simp [noFacts] at h)).tr).symm

-- ===== C07: inference soundness (original run, no totality needed) =====
def Sound (F : Facts) (s : St) : Prop := ∀ a f x, F a f = some x → s.regs a f = s.env x

theorem Sound.setEnv {F : Facts} {s : St} (h : Sound F s) (v : Var) (val : Int) (hv : ∀ a f x, F a f = some x → x ≠ v) :
    Sound F { s with env := fun w => if w = v then val else s.env w } :=
  fun a f x hx => by simp only [hv a f x hx, if_false]; exact h a f x hx

mutual
theorem soundS : (st : Stmt) → wfS st → ∀ (F : Facts) (s : St), Sound F s → Avoids F (defsS st) →
    Sound (knownS st F) (execS allF false st s)
  | .setup b fs, _, F, s, h, _ => by
      intro a f x hx
      simp only [knownS, upd] at hx
      simp only [execS, setRegs]
      split at hx
      · rename_i hab; simp only [hab, if_true]
        cases hl : fs.lookup f with
        | some y => simp only [hl] at hx ⊢; cases hx; rfl
        | none => simp only [hl] at hx ⊢; rw [← hab]; exact h a f x hx
      · rename_i hab; simp only [hab, if_false]; exact h a f x hx
  | .ghost b fs, _, F, s, h, _ => by
      intro a f x hx; simp only [knownS] at hx; simpa [execS] using h a f x (forget_le hx)
  | .launch b, _, F, s, h, _ => fun a f x hx => by simpa [execS] using h a f x (by simpa [knownS] using hx)
  | .await b, _, F, s, h, _ => fun a f x hx => by simpa [execS] using h a f x (by simpa [knownS] using hx)
  | .pure d g args, _, F, s, h, ha => by
      have hne : ∀ a f x, F a f = some x → x ≠ d := fun a f x hx e => ha a f x hx (by simp [defsS, e])
      simpa [execS, knownS] using h.setEnv d (g (args.map s.env)) hne
  | .call tag eff clob, _, F, s, h, _ => by
      cases eff with
      | true => intro a f x hx; simp [knownS, noFacts] at hx
      | false => exact fun a f x hx => by simpa [execS] using h a f x (by simpa [knownS] using hx)
  | .ifS c t e, hwf, F, s, h, ha => by
      simp only [wfS] at hwf
      simp only [knownS, execS]
      split
      · exact fun a f x hx => soundB t hwf.1 F s h (fun a f x hx hm => ha a f x hx (by simp [defsS, hm])) a f x (meet_le_left hx)
      · exact fun a f x hx => soundB e hwf.2 F s h (fun a f x hx hm => ha a f x hx (by simp [defsS, hm])) a f x (meet_le_right hx)
  | .forS lb ub step iv b, hwf, F, s, h, ha => by
      simp only [wfS] at hwf; simp only [defsS] at ha
      have hav : Avoids (meet F (knownB b F)) (defsB b) :=
        fun a f x hx hm => ha a f x (meet_le_left hx) (by simp [hm])
      have hiv : ∀ a f x, meet F (knownB b F) a f = some x → x ≠ iv :=
        fun a f x hx e => ha a f x (meet_le_left hx) (by simp [e])
      have back : ∀ u, Sound (knownB b (meet F (knownB b F))) u → Sound (meet F (knownB b F)) u := by
        intro u hu a f x hx
        have h1 : F a f = some x := meet_le_left hx
        have h2 : knownB b F a f = some x := meet_le_right hx
        have hloc := localB b (meet F (knownB b F)) F a f (by rw [hx, h1])
        exact hu a f x (by rw [hloc, h2])
      have loop : ∀ (n k : Nat) (l stp : Int) u, Sound (meet F (knownB b F)) u →
          (n = 0 ∨ Sound (knownB b (meet F (knownB b F)))
            (iterFrom (fun i u => execB allF false b { u with env := fun v => if v = iv then l + i * stp else u.env v }) n k u)) ∧
          Sound (meet F (knownB b F))
            (iterFrom (fun i u => execB allF false b { u with env := fun v => if v = iv then l + i * stp else u.env v }) n k u) := by
        intro n
        induction n with
        | zero => intro k l stp u hu; exact ⟨Or.inl rfl, by simpa [iterFrom] using hu⟩
        | succ n ih =>
          intro k l stp u hu
          have h1 := soundB b hwf _ _ (hu.setEnv iv (l + k * stp) hiv) hav
          have h2 := back _ h1
          rcases ih (k + 1) l stp _ h2 with ⟨hk, hk'⟩
          refine ⟨Or.inr ?_, by simpa [iterFrom] using hk'⟩
          simp only [iterFrom]
          rcases hk with rfl | hk
          · simpa [iterFrom] using h1
          · exact hk
      have h0 : Sound (meet F (knownB b F)) s := fun a f x hx => h a f x (meet_le_left hx)
      simp only [knownS, execS]
      rcases loop (tripCount (s.env lb) (s.env ub) (s.env step)) 0 (s.env lb) (s.env step) s h0 with ⟨hk, _⟩
      rcases hk with hz | hk
      · rw [hz]; exact fun a f x hx => by simpa [iterFrom] using h a f x (meet_le_left hx)
      · exact fun a f x hx => hk a f x (meet_le_right hx)
theorem soundB : (b : Block) → wfB b → ∀ (F : Facts) (s : St), Sound F s → Avoids F (defsB b) →
    Sound (knownB b F) (execB allF false b s)
  | .nil, _, F, s, h, _ => by simpa [knownB, execB] using h
  | .cons st r, hwf, F, s, h, ha => by
      simp only [wfB] at hwf
      obtain ⟨hws, hwr, huse⟩ := hwf
      simp only [knownB, execB]
      have h1 := soundS st hws F s h (fun a f x hx hm => ha a f x hx (by simp [defsB, hm]))
      apply soundB r hwr _ _ h1
      intro a f x hx hmem
      rcases varsS st F a f x hx with h2 | h2
      · exact ha a f x h2 (by simp [defsB, hmem])
      · exact huse x h2 hmem
end
#print axioms soundB

/-- C07 in the unified model: with nothing assumed at function entry, every inferred fact holds after any program,
    for every environment, register file, clobber behaviour, branch outcome and trip count -/
theorem infer_sound (b : Block) (hwf : wfB b) (s : St) : Sound (knownB b noFacts) (execB allF false b s) :=
  soundB allF b hwf _ s (by intro a f x h; simp [noFacts] at h) (by intro a f x h; simp [noFacts] at h)

-- ===== C01: the `simplify` rule =====
def dropKnown (F : Facts) (a : AccId) (fs : List (Field × Var)) : List (Field × Var) :=
  fs.filter (fun p => F a p.1 != some p.2)

mutual
def simpS : Stmt → Facts → Stmt
  | .setup a fs, F => .setup a (dropKnown F a fs)
  | .ifS c t e, F => .ifS c (simpB t F) (simpB e F)
  | .forS lb ub step iv b, F => .forS lb ub step iv (simpB b (meet F (knownB b F)))
  | s, _ => s
def simpB : Block → Facts → Block
  | .nil, _ => .nil
  | .cons s r, F => .cons (simpS s F) (simpB r (knownS s F))
end

theorem lookup_filter (P : Field × Var → Bool) : ∀ (fs : List (Field × Var)) (f : Field),
    (fs.map (·.1)).Nodup →
    (fs.filter P).lookup f = match fs.lookup f with
      | some x => if P (f, x) then some x else none
      | none => none
  | [], f, _ => by simp
  | (k, v) :: rest, f, hnd => by
    have hnd' : (rest.map (·.1)).Nodup := (List.nodup_cons.mp hnd).2
    have hk : k ∉ rest.map (·.1) := (List.nodup_cons.mp hnd).1
    have ih := lookup_filter P rest f hnd'
    by_cases hfk : f = k
    · subst hfk
      have hnone : rest.lookup f = none := by
        rw [List.lookup_eq_none_iff]
        intro p hp
        have : f ≠ p.1 := fun e => hk (by simp only [List.mem_map]; exact ⟨p, hp, e.symm⟩)
        simpa using this
      by_cases hP : P (f, v)
      · simp [List.filter_cons, hP, List.lookup_cons]
      · simp only [List.filter_cons, hP, Bool.false_eq_true, if_false, List.lookup_cons, beq_self_eq_true]
        rw [ih, hnone]
    · have hne : (f == k) = false := by simpa using hfk
      by_cases hP : P (k, v)
      · simp [List.filter_cons, hP, List.lookup_cons, hne, ih]
      · simp [List.filter_cons, hP, List.lookup_cons, hne, ih]

theorem setRegs_dropKnown {F : Facts} {s : St} (a : AccId) (fs : List (Field × Var))
    (hs : Sound F s) (hnd : (fs.map (·.1)).Nodup) :
    setRegs s.regs s.env a (dropKnown F a fs) = setRegs s.regs s.env a fs := by
  funext a' f
  simp only [setRegs, dropKnown]
  split
  · rename_i hab; subst hab
    rw [lookup_filter _ fs f hnd]
    cases h1 : fs.lookup f with
    | none => rfl
    | some x =>
      simp only
      by_cases hk : F a' f = some x
      · simp only [hk, bne_self_eq_false, Bool.false_eq_true, if_false]
        exact hs a' f x hk
      · simp [hk]
  · rfl

mutual
def nodupS : Stmt → Prop
  | .setup _ fs => (fs.map (·.1)).Nodup
  | .ifS _ t e => nodupB t ∧ nodupB e
  | .forS _ _ _ _ b => nodupB b
  | _ => True
def nodupB : Block → Prop
  | .nil => True
  | .cons s r => nodupS s ∧ nodupB r
end

theorem iterFrom_congr {σ} (f g : Nat → σ → σ) (P : σ → Prop) (hP : ∀ i s, P s → P (f i s))
    (hfg : ∀ i s, P s → g i s = f i s) : ∀ n k s, P s → iterFrom g n k s = iterFrom f n k s
  | 0, _, _, _ => rfl
  | n+1, k, s, h => by
      simp only [iterFrom]; rw [hfg k s h]; exact iterFrom_congr f g P hP hfg n (k + 1) (f k s) (hP k s h)

mutual
theorem simpS_exec : (st : Stmt) → wfS st → nodupS st → ∀ (F : Facts) (s : St), Sound F s →
    Avoids F (defsS st) → execS allF false (simpS st F) s = execS allF false st s
  | .setup a fs, _, hn, F, s, hs, _ => by
      simp only [simpS, execS]; rw [setRegs_dropKnown a fs hs hn]
  | .ghost _ _, _, _, _, _, _, _ => rfl
  | .launch _, _, _, _, _, _, _ => rfl
  | .await _, _, _, _, _, _, _ => rfl
  | .pure _ _ _, _, _, _, _, _, _ => rfl
  | .call _ _ _, _, _, _, _, _, _ => rfl
  | .ifS c t e, hwf, hn, F, s, hs, ha => by
      simp only [wfS] at hwf; simp only [nodupS] at hn
      simp only [simpS, execS]
      split
      · exact simpB_exec t hwf.1 hn.1 F _ hs (fun a f x hx hm => ha a f x hx (by simp [defsS, hm]))
      · exact simpB_exec e hwf.2 hn.2 F _ hs (fun a f x hx hm => ha a f x hx (by simp [defsS, hm]))
  | .forS lb ub step iv b, hwf, hn, F, s, hs, ha => by
      simp only [wfS] at hwf; simp only [nodupS] at hn; simp only [defsS] at ha
      simp only [simpS, execS]
      have hav : Avoids (meet F (knownB b F)) (defsB b) :=
        fun a f x hx hm => ha a f x (meet_le_left hx) (by simp [hm])
      have hiv : ∀ a f x, meet F (knownB b F) a f = some x → x ≠ iv :=
        fun a f x hx e => ha a f x (meet_le_left hx) (by simp [e])
      have hstep : ∀ (i : Nat) u, Sound (meet F (knownB b F)) u → Sound (meet F (knownB b F))
          (execB allF false b { u with env := fun v => if v = iv then s.env lb + i * s.env step else u.env v }) := by
        intro i u hu a f x hx
        have h1 : F a f = some x := meet_le_left hx
        have h2 : knownB b F a f = some x := meet_le_right hx
        have hloc := localB b (meet F (knownB b F)) F a f (by rw [hx, h1])
        exact soundB allF b hwf _ _ (hu.setEnv iv _ hiv) hav a f x (by rw [hloc, h2])
      have h0 : Sound (meet F (knownB b F)) s := fun a f x hx => hs a f x (meet_le_left hx)
      exact iterFrom_congr _ _ (Sound (meet F (knownB b F))) hstep
        (fun i u hu => simpB_exec b hwf hn _ _ (hu.setEnv iv _ hiv) hav) _ _ _ h0
theorem simpB_exec : (b : Block) → wfB b → nodupB b → ∀ (F : Facts) (s : St), Sound F s →
    Avoids F (defsB b) → execB allF false (simpB b F) s = execB allF false b s
  | .nil, _, _, _, _, _, _ => rfl
  | .cons st r, hwf, hn, F, s, hs, ha => by
      simp only [wfB] at hwf; simp only [nodupB] at hn
      obtain ⟨hws, hwr, huse⟩ := hwf
      simp only [simpB, execB]
      have hA : Avoids F (defsS st) := fun a f x hx hm => ha a f x hx (by simp [defsB, hm])
      rw [simpS_exec st hws hn.1 F s hs hA]
      apply simpB_exec r hwr hn.2 _ _ (soundS allF st hws F s hs hA)
      intro a f x hx hmem
      rcases varsS st F a f x hx with h2 | h2
      · exact ha a f x h2 (by simp [defsB, hmem])
      · exact huse x h2 hmem
end
#print axioms simpB_exec

/-- C01 for `simplify` in the unified model: the transformed program leaves the machine (environment, all register
    files, the whole launch/await/call trace) exactly as the original does -/
theorem simplify_preserves (b : Block) (hwf : wfB b) (hn : nodupB b) (s : St) :
    execB allF false (simpB b noFacts) s = execB allF false b s :=
  simpB_exec allF b hwf hn _ s (by intro a f x h; simp [noFacts] at h) (by intro a f x h; simp [noFacts] at h)
