-- C18 calibration
example (a b : BitVec 8) (c : BitVec 32) :
    c + (a.signExtend 32) * (b.signExtend 32) = (b.signExtend 32) * (a.signExtend 32) + c := by
  rw [BitVec.mul_comm, BitVec.add_comm]
-- the defect: x*x + x*x is not c + x*y in general (witness)
example : ∃ x y c : BitVec 32, x * x + x * x ≠ c + x * y := ⟨1, 0, 0, by decide⟩
-- rescale: two arithmetic shifts compose
example (v : BitVec 64) (s : Nat) (h : 1 ≤ s) : (v.sshiftRight (s - 1)).sshiftRight 1 = v.sshiftRight s := by
  rw [← BitVec.sshiftRight_add]; congr 1; omega
