/-! Calibration prototype for the single-walk passes (C14 shape): grouping dispatcher. Throwaway. -/
inductive Cls | dm | cp | all
  deriving DecidableEq

mutual
inductive Op where
  | leaf (id : Nat) (c : Cls)
  | guard (core : Nat) (body : Blk)          -- scf.if (core_id == core)
  | ifO (k : Nat) (t e : Blk)                -- data-dependent branch, condition = oracle k
  | forO (k : Nat) (body : Blk)              -- trip count = oracle k
inductive Blk where
  | nil
  | cons (o : Op) (r : Blk)
end

def ofList : List Op → Blk
  | [] => .nil
  | o :: os => .cons o (ofList os)

def rep (l : List Nat) : Nat → List Nat
  | 0 => []
  | n+1 => l ++ rep l n

-- per-core execution: which leaf ids run, in order. `orc` resolves branch conditions / trip counts
mutual
def runO (core : Nat) (orc : Nat → Nat) : Op → List Nat
  | .leaf id _ => [id]
  | .guard c b => if core = c then runB core orc b else []
  | .ifO k t e => if orc k ≠ 0 then runB core orc t else runB core orc e
  | .forO k b => rep (runB core orc b) (orc k)
def runB (core : Nat) (orc : Nat → Nat) : Blk → List Nat
  | .nil => []
  | .cons o r => runO core orc o ++ runB core orc r
end

-- the dispatcher for one class `tgt` executed on core `tc`: wrap maximal runs of consecutive tgt-leaves
def flush (tc : Nat) (p : List Op) (rest : Blk) : Blk :=
  match p with
  | [] => rest
  | _ => .cons (.guard tc (ofList p.reverse)) rest

mutual
def goO (tgt : Cls) (tc : Nat) : Op → Op
  | .leaf id c => .leaf id c
  | .guard c b => .guard c (goB tgt tc b [])
  | .ifO k t e => .ifO k (goB tgt tc t []) (goB tgt tc e [])
  | .forO k b => .forO k (goB tgt tc b [])
def goB (tgt : Cls) (tc : Nat) : Blk → List Op → Blk
  | .nil, p => flush tc p .nil
  | .cons (.leaf id c) r, p =>
      if c = tgt then goB tgt tc r (.leaf id c :: p)
      else flush tc p (.cons (.leaf id c) (goB tgt tc r []))
  | .cons (.guard c b) r, p => flush tc p (.cons (.guard c (goB tgt tc b [])) (goB tgt tc r []))
  | .cons (.ifO k t e) r, p => flush tc p (.cons (.ifO k (goB tgt tc t []) (goB tgt tc e [])) (goB tgt tc r []))
  | .cons (.forO k b) r, p => flush tc p (.cons (.forO k (goB tgt tc b [])) (goB tgt tc r []))
end

-- reference: the original program where tgt-leaves only run on core tc
mutual
def refO (tgt : Cls) (tc core : Nat) (orc : Nat → Nat) : Op → List Nat
  | .leaf id c => if c = tgt then (if core = tc then [id] else []) else [id]
  | .guard c b => if core = c then refB tgt tc core orc b else []
  | .ifO k t e => if orc k ≠ 0 then refB tgt tc core orc t else refB tgt tc core orc e
  | .forO k b => rep (refB tgt tc core orc b) (orc k)
def refB (tgt : Cls) (tc core : Nat) (orc : Nat → Nat) : Blk → List Nat
  | .nil => []
  | .cons o r => refO tgt tc core orc o ++ refB tgt tc core orc r
end

def isTgtLeaf (tgt : Cls) : Op → Prop
  | .leaf _ c => c = tgt
  | _ => False

def idsOf : List Op → List Nat
  | [] => []
  | .leaf id _ :: r => id :: idsOf r
  | _ :: r => idsOf r

theorem run_ofList_leaves (core orc) (p : List Op) (tgt : Cls) (h : ∀ o ∈ p, isTgtLeaf tgt o) :
    runB core orc (ofList p) = idsOf p := by
  induction p with
  | nil => simp [ofList, runB, idsOf]
  | cons o os ih =>
    have ho := h o (by simp)
    cases o with
    | leaf id c =>
      simp only [ofList, runB, runO, idsOf]
      rw [ih (fun o ho' => h o (by simp [ho']))]; rfl
    | _ => simp [isTgtLeaf] at ho

theorem idsOf_append (a b : List Op) : idsOf (a ++ b) = idsOf a ++ idsOf b := by
  induction a with
  | nil => simp [idsOf]
  | cons o os ih => cases o <;> simp [idsOf, ih]

theorem run_flush (tc core orc) (tgt : Cls) (p : List Op) (rest : Blk)
    (h : ∀ o ∈ p, isTgtLeaf tgt o) :
    runB core orc (flush tc p rest) =
      (if core = tc then idsOf p.reverse else []) ++ runB core orc rest := by
  cases p with
  | nil => simp [flush, idsOf]
  | cons o os =>
    simp only [flush, runB, runO]
    have : ∀ o' ∈ (o :: os).reverse, isTgtLeaf tgt o' := by
      intro o' ho'
      have : o' ∈ o :: os := by simpa using (List.mem_reverse.mp ho')
      exact h o' this
    split
    · rw [run_ofList_leaves core orc _ tgt this]
    · rfl

theorem goB_spec (tgt : Cls) (tc core : Nat) (orc : Nat → Nat) : (b : Blk) → (p : List Op) →
    (∀ o ∈ p, isTgtLeaf tgt o) →
    runB core orc (goB tgt tc b p) =
      (if core = tc then idsOf p.reverse else []) ++ refB tgt tc core orc b
  | .nil, p, h => by
      simp only [goB, refB]
      rw [run_flush tc core orc tgt p .nil h]; simp [runB]
  | .cons (.leaf id c) r, p, h => by
      simp only [goB]
      split
      · rename_i hc
        have h' : ∀ o ∈ (Op.leaf id c :: p), isTgtLeaf tgt o := by
          intro o ho; simp at ho; rcases ho with rfl | ho
          · exact hc
          · exact h o ho
        rw [goB_spec tgt tc core orc r _ h']
        simp only [refB, refO, hc, if_true, List.reverse_cons, idsOf_append, idsOf]
        split <;> simp
      · rename_i hc
        rw [run_flush tc core orc tgt p _ h]
        simp only [runB, runO, refB, refO, hc, if_false]
        rw [goB_spec tgt tc core orc r [] (by simp)]
        simp [idsOf]
  | .cons (.guard c b) r, p, h => by
      simp only [goB]
      rw [run_flush tc core orc tgt p _ h]
      simp only [runB, runO, refB, refO]
      rw [goB_spec tgt tc core orc b [] (by simp), goB_spec tgt tc core orc r [] (by simp)]
      simp [idsOf]
  | .cons (.ifO k t e) r, p, h => by
      simp only [goB]
      rw [run_flush tc core orc tgt p _ h]
      simp only [runB, runO, refB, refO]
      rw [goB_spec tgt tc core orc t [] (by simp), goB_spec tgt tc core orc e [] (by simp),
          goB_spec tgt tc core orc r [] (by simp)]
      simp [idsOf]
  | .cons (.forO k b) r, p, h => by
      simp only [goB]
      rw [run_flush tc core orc tgt p _ h]
      simp only [runB, runO, refB, refO]
      rw [goB_spec tgt tc core orc b [] (by simp), goB_spec tgt tc core orc r [] (by simp)]
      simp [idsOf]

/-- C14 in miniature, one phase: after dispatching class `tgt` to core `tc`, every core runs
    exactly the original program with the `tgt` leaves filtered to core `tc`. -/
theorem dispatch_phase (tgt tc core orc) (b : Blk) :
    runB core orc (goB tgt tc b []) = refB tgt tc core orc b := by
  simpa [idsOf] using goB_spec tgt tc core orc b [] (by simp)
#print axioms dispatch_phase
