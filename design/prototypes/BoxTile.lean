/-- all index vectors of a box, lexicographic, last index fastest -/
def points : List Nat → List (List Nat)
  | [] => [[]]
  | b :: bs => (List.range b).flatMap fun i => (points bs).map (i :: ·)

theorem points_length (bs : List Nat) : (points bs).length = bs.foldr (· * ·) 1 := by
  induction bs with
  | nil => simp [points]
  | cons b bs ih =>
    simp only [points, List.foldr_cons, List.length_flatMap, List.length_map, ih]
    induction b with
    | zero => simp
    | succ n ihn => simp [List.range_succ, List.sum_append, ihn, Nat.succ_mul]

/-- range (q*t) enumerated as (i / t, i % t) pairs in order -/
theorem range_mul_flatMap (q t : Nat) :
    (List.range q).flatMap (fun i => (List.range t).map (fun j => t * i + j)) = List.range (q * t) := by
  induction q with
  | zero => simp
  | succ n ih =>
    rw [List.range_succ, List.flatMap_append, ih]
    simp only [List.flatMap_cons, List.flatMap_nil, List.append_nil]
    rw [Nat.succ_mul, List.range_add]
    congr 1
    apply List.map_congr_left
    intro a _
    rw [Nat.mul_comm]

/-- tiling the head dimension: points of (q :: t :: bs) map onto points of (q*t :: bs) in order -/
theorem tile_head (q t : Nat) (bs : List Nat) :
    (points (q :: t :: bs)).map (fun x => match x with
        | a :: b :: r => (t * a + b) :: r
        | _ => x) = points (q * t :: bs) := by
  simp only [points]
  rw [← range_mul_flatMap q t]
  simp only [List.map_flatMap, List.flatMap_assoc, List.map_map, List.flatMap_map]
  congr 1
#print axioms tile_head
