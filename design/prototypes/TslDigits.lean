/-! Calibration for C10: the digit identity behind TiledStride.canonicalize (squash) and get_affine_map. -/
theorem digit_split (j b R : Nat) : j / R = b * (j / (b * R)) + (j % (b * R)) / R := by
  have h1 : j % (b * R) / R = j / R % b := by rw [Nat.mul_comm b R]; exact Nat.mod_mul_right_div_self j R b
  have h2 : j / (b * R) = j / R / b := by rw [Nat.mul_comm b R, Nat.div_div_eq_div_mul]
  rw [h1, h2]; exact (Nat.div_add_mod (j / R) b).symm

/-- squashing an outer stride (s*b, b') into the inner stride (s, b): same address contribution -/
theorem squash_addr (i s b b' R : Nat) :
    (s * b) * ((i % (b' * (b * R))) / (b * R)) + s * ((i % (b * R)) / R)
      = s * ((i % ((b' * b) * R)) / R) := by
  have hj : i % (b * R) = (i % (b' * (b * R))) % (b * R) := by
    rw [Nat.mod_mul_left_mod]
  rw [hj, Nat.mul_assoc b' b R, digit_split (i % (b' * (b * R))) b R, Nat.mul_add, Nat.mul_assoc]
/-- a stride with bound 1 contributes nothing inside the box -/
theorem unit_bound_zero (i s R : Nat) : s * ((i % (1 * R)) / R) = 0 := by
  rw [Nat.one_mul]
  rcases Nat.eq_zero_or_pos R with h | h
  · subst h; simp
  · rw [Nat.div_eq_of_lt (Nat.mod_lt _ h)]; simp
#print axioms squash_addr
