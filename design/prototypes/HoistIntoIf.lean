/-! Calibration for C01 `hoistIf` / C06 `blockOverlap`: a setup commutes with any block that neither
    touches the registers nor launches nor redefines the setup's operands. Throwaway. -/
abbrev Var := Nat
abbrev Field := Nat
abbrev Env := Var → Int
abbrev Regs := Field → Int

def setRegs (r : Regs) (env : Env) (fs : List (Field × Var)) : Regs := fun f =>
  match fs.lookup f with | some x => env x | none => r f

mutual
inductive Stmt where
  | setup (fs : List (Field × Var))
  | launch
  | pure (dst : Var) (g : List Int → Int) (args : List Var)
  | call (clob : Regs → Regs)
  | ifS (c : Var) (t e : Block)
  | forS (n : Var) (body : Block)
inductive Block where
  | nil
  | cons (s : Stmt) (r : Block)
end

structure St where
  env : Env
  regs : Regs
  tr : List (List Int)

def iter {σ} (f : σ → σ) : Nat → σ → σ
  | 0, s => s
  | n+1, s => iter f n (f s)

variable (allF : List Field)
mutual
def execS : Stmt → St → St
  | .setup fs, s => { s with regs := setRegs s.regs s.env fs }
  | .launch, s => { s with tr := s.tr ++ [allF.map s.regs] }
  | .pure d g args, s => { s with env := fun v => if v = d then g (args.map s.env) else s.env v }
  | .call clob, s => { s with regs := clob s.regs }
  | .ifS c t e, s => if s.env c ≠ 0 then execB t s else execB e s
  | .forS n b, s => iter (execB b) (s.env n).toNat s
def execB : Block → St → St
  | .nil, s => s
  | .cons s r, st => execB r (execS s st)
end

-- "quiet" code: only value computations (possibly under control flow); nothing of `vs` is redefined
mutual
def quietS (vs : List Var) : Stmt → Prop
  | .pure d _ _ => d ∉ vs
  | .ifS _ t e => quietB vs t ∧ quietB vs e
  | .forS _ b => quietB vs b
  | _ => False
def quietB (vs : List Var) : Block → Prop
  | .nil => True
  | .cons s r => quietS vs s ∧ quietB vs r
end

def doSetup (fs : List (Field × Var)) (s : St) : St := { s with regs := setRegs s.regs s.env fs }

theorem setRegs_env_congr (r : Regs) (e e' : Env) (fs : List (Field × Var))
    (h : ∀ p ∈ fs, e p.2 = e' p.2) : setRegs r e fs = setRegs r e' fs := by
  funext f; simp only [setRegs]
  cases hl : fs.lookup f with
  | none => rfl
  | some x =>
    obtain ⟨l1, l2, hm, _⟩ := List.lookup_eq_some_iff.mp hl
    exact h (f, x) (by simp [hm])

theorem iter_comm {σ} (f g : σ → σ) (h : ∀ s, f (g s) = g (f s)) : ∀ n s, iter f n (g s) = g (iter f n s)
  | 0, _ => rfl
  | n+1, s => by simp only [iter]; rw [h, iter_comm f g h n]

mutual
theorem quietS_comm (fs : List (Field × Var)) : (st : Stmt) → quietS (fs.map (·.2)) st → ∀ s,
    execS allF st (doSetup fs s) = doSetup fs (execS allF st s)
  | .pure d g args, hq, s => by
      simp only [quietS] at hq
      simp only [execS, doSetup]
      congr 1
      apply setRegs_env_congr
      intro p hp
      have : p.2 ≠ d := fun e => hq (by simp only [List.mem_map]; exact ⟨p, hp, e⟩)
      simp [this]
  | .ifS c t e, hq, s => by
      simp only [quietS] at hq
      simp only [execS]
      have hc : (doSetup fs s).env c = s.env c := rfl
      rw [hc]
      split
      · exact quietB_comm fs t hq.1 s
      · exact quietB_comm fs e hq.2 s
  | .forS n b, hq, s => by
      simp only [quietS] at hq
      simp only [execS]
      have hc : (doSetup fs s).env n = s.env n := rfl
      rw [hc]
      exact iter_comm (execB allF b) (doSetup fs) (fun u => quietB_comm fs b hq u) _ s
  | .setup _, hq, _ => by simp [quietS] at hq
  | .launch, hq, _ => by simp [quietS] at hq
  | .call _, hq, _ => by simp [quietS] at hq
theorem quietB_comm (fs : List (Field × Var)) : (b : Block) → quietB (fs.map (·.2)) b → ∀ s,
    execB allF b (doSetup fs s) = doSetup fs (execB allF b s)
  | .nil, _, _ => rfl
  | .cons st r, hq, s => by
      simp only [quietB] at hq
      simp only [execB]
      rw [quietS_comm fs st hq.1 s, quietB_comm fs r hq.2]
end

def app : Block → Block → Block
  | .nil, b => b
  | .cons s r, b => .cons s (app r b)
theorem exec_app : (a b : Block) → (s : St) → execB allF (app a b) s = execB allF b (execB allF a s)
  | .nil, _, _ => rfl
  | .cons st r, b, s => by simp only [app, execB]; exact exec_app r b _

/-- `hoistIf`: a setup that follows an `if` (after some quiet statements) can be executed at the end of both
    branches instead — complete machine state identical. -/
theorem hoist_into_if (c : Var) (t e mid : Block) (fs : List (Field × Var))
    (hq : quietB (fs.map (·.2)) mid) (s : St) :
    execB allF (.cons (.ifS c (app t (.cons (.setup fs) .nil)) (app e (.cons (.setup fs) .nil))) mid) s
      = execB allF (.cons (.ifS c t e) (app mid (.cons (.setup fs) .nil))) s := by
  simp only [execB, execS, exec_app]
  have key : ∀ u, execB allF mid (doSetup fs u) = doSetup fs (execB allF mid u) := quietB_comm allF fs mid hq
  split
  · exact key _
  · exact key _
#print axioms hoist_into_if
