/-! Calibration for C13 (straight-line code): the pending-list walk of InsertSyncBarrier separates every
    single-core producer from every later user on another core set. Throwaway. -/
inductive Cls | dm | cp | all
  deriving DecidableEq

structure Op where
  id : Nat
  cls : Cls
  vals : List Nat          -- SSA values the operation uses or defines
  isSync : Bool := false
deriving DecidableEq

def shares (a b : Op) : Bool := a.vals.any (fun v => b.vals.contains v)

/-- users of `o` (anywhere in the program) that must be preceded by a barrier -/
def mustSync (prog : List Op) (o : Op) : List Nat :=
  (prog.filter fun u => u.id != o.id && shares o u &&
      ((o.cls == Cls.dm && u.cls != Cls.dm) || (o.cls == Cls.cp && u.cls != Cls.cp))).map (·.id)

def syncOp : Op := { id := 0, cls := Cls.all, vals := [], isSync := true }

/-- the walk: `pending` = ids that must be preceded by a barrier -/
def walk (prog : List Op) : List Op → List Nat → List Op
  | [], _ => []
  | o :: rest, pending =>
    let hit := pending.contains o.id
    let p1 := if hit || o.isSync then [] else pending
    (if hit then [syncOp] else []) ++ o :: walk prog rest (p1 ++ mustSync prog o)

/-- `j` is still owed a barrier: it is pending, and no barrier has been emitted since it became pending -/
theorem walk_pending_gets_sync (prog : List Op) : ∀ (l : List Op) (pending : List Nat) (pre post : List Op) (u : Op),
    u.id ∈ pending → u.isSync = false → walk prog l pending = pre ++ u :: post →
    (∀ o ∈ l, o.isSync = false → o.id = u.id → o = u) →   -- ids identify operations
    u ∈ l → ∃ s ∈ pre, s.isSync = true
  | [], _, _, _, _, _, _, _, _, hu => by simp at hu
  | o :: rest, pending, pre, post, u, hp, hus, hw, hid, hu => by
    simp only [walk] at hw
    by_cases hhit : pending.contains o.id = true
    · -- a barrier is emitted right here, in front of o
      simp only [hhit, if_true, Bool.true_or, List.cons_append, List.nil_append] at hw
      cases pre with
      | nil =>
        -- then u = syncOp, impossible since u is not a sync
        simp only [List.nil_append, List.cons.injEq] at hw
        have := hw.1; subst this; simp [syncOp] at hus
      | cons p ps =>
        simp only [List.cons_append, List.cons.injEq] at hw
        exact ⟨p, by simp, by rw [← hw.1]; rfl⟩
    · simp only [hhit, Bool.false_eq_true, if_false, Bool.false_or, List.nil_append] at hw
      have hne : o.id ≠ u.id := by
        intro e; apply hhit; rw [e]; simpa using hp
      cases pre with
      | nil =>
        simp only [List.nil_append, List.cons.injEq] at hw
        exact absurd (by rw [hw.1]) hne
      | cons p ps =>
        simp only [List.cons_append, List.cons.injEq] at hw
        obtain ⟨hpo, hrest⟩ := hw
        by_cases hos : o.isSync = true
        · exact ⟨p, by simp, by rw [← hpo]; exact hos⟩
        · have hu' : u ∈ rest := by
            simp only [List.mem_cons] at hu
            rcases hu with rfl | h
            · exact absurd rfl hne
            · exact h
          have hp' : u.id ∈ (if o.isSync = true then [] else pending) ++ mustSync prog o := by
            simp [hos, hp]
          obtain ⟨s, hs, hss⟩ := walk_pending_gets_sync prog rest _ ps post u hp' hus hrest
            (fun o' ho' => hid o' (by simp [ho'])) hu'
          exact ⟨s, by simp [hs], hss⟩

/-- C13 on straight-line code: if `x` runs on a single core and a later `u` on another core set shares a
    value with it, the output contains a barrier between them. -/
theorem barrier_between (prog : List Op) (l1 l2 : List Op) (x u : Op) (pending : List Nat)
    (hprog : prog = l1 ++ x :: l2) (hu : u ∈ l2) (hxs : x.isSync = false) (hus : u.isSync = false)
    (hid : ∀ o ∈ prog, o.isSync = false → o.id = u.id → o = u) (hne : u.id ≠ x.id)
    (hsh : shares x u = true)
    (hcls : (x.cls = Cls.dm ∧ u.cls ≠ Cls.dm) ∨ (x.cls = Cls.cp ∧ u.cls ≠ Cls.cp))
    (pre post : List Op)
    (hw : walk prog l2 ((if pending.contains x.id || x.isSync then [] else pending) ++ mustSync prog x) = pre ++ u :: post) :
    ∃ s ∈ pre, s.isSync = true := by
  have hmem : u.id ∈ mustSync prog x := by
    simp only [mustSync, List.mem_map, List.mem_filter]
    refine ⟨u, ⟨by rw [hprog]; simp [hu], ?_⟩, rfl⟩
    rcases hcls with ⟨h1, h2⟩ | ⟨h1, h2⟩
    · simp [hne, hsh, h1, h2]
    · simp [hne, hsh, h1, h2]
  exact walk_pending_gets_sync prog l2 _ pre post u (by simp [hmem]) hus hw
    (fun o ho => hid o (by rw [hprog]; simp [ho])) hu
#print axioms barrier_between
