/-! Calibration prototype: soundness of the accfg state inference (fixed equations, F1/F2)
    on a structured single-accelerator IR. Throwaway. -/
abbrev Var := Nat
abbrev Field := Nat
abbrev Facts := Field → Option Var
abbrev Env := Var → Int
abbrev Regs := Field → Int

def meet (a b : Facts) : Facts := fun f => if a f = b f then a f else none
def upd (F : Facts) (fs : List (Field × Var)) : Facts := fun f =>
  match fs.lookup f with | some x => some x | none => F f
def setRegs (r : Regs) (env : Env) (fs : List (Field × Var)) : Regs := fun f =>
  match fs.lookup f with | some x => env x | none => r f

mutual
inductive Stmt where
  | setup (fs : List (Field × Var))
  | pure (dst : Var) (g : List Int → Int) (args : List Var)
  | call (clob : Regs → Regs)              -- arbitrary clobber
  | ifS (c : Var) (t e : Block)
  | forS (n : Var) (body : Block)            -- trip count = (env n).toNat
inductive Block where
  | nil
  | cons (s : Stmt) (r : Block)
end

def iter {σ} (f : σ → σ) : Nat → σ → σ
  | 0, s => s
  | n+1, s => iter f n (f s)

mutual
def execS : Stmt → Env × Regs → Env × Regs
  | .setup fs, (env, r) => (env, setRegs r env fs)
  | .pure d g args, (env, r) => (fun v => if v = d then g (args.map env) else env v, r)
  | .call clob, (env, r) => (env, clob r)
  | .ifS c t e, (env, r) => if env c ≠ 0 then execB t (env, r) else execB e (env, r)
  | .forS n b, (env, r) => iter (execB b) (env n).toNat (env, r)
def execB : Block → Env × Regs → Env × Regs
  | .nil, s => s
  | .cons s r, st => execB r (execS s st)
end

-- forward inference with the repaired loop equations
mutual
def knownS : Stmt → Facts → Facts
  | .setup fs, F => upd F fs
  | .pure _ _ _, F => F
  | .call _, _ => fun _ => none
  | .ifS _ t e, F => meet (knownB t F) (knownB e F)
  | .forS _ b, F =>
      let head := meet F (knownB b F)           -- state at loop entry, every iteration
      meet F (knownB b head)                    -- state after the loop (zero trips possible)
def knownB : Block → Facts → Facts
  | .nil, F => F
  | .cons s r, F => knownB r (knownS s F)
end

-- variables (re)defined by a statement
mutual
def defsS : Stmt → List Var
  | .setup _ => []
  | .pure d _ _ => [d]
  | .call _ => []
  | .ifS _ t e => defsB t ++ defsB e
  | .forS _ b => defsB b
def defsB : Block → List Var
  | .nil => []
  | .cons s r => defsS s ++ defsB r
end

def Sound (F : Facts) (st : Env × Regs) : Prop := ∀ f x, F f = some x → st.2 f = st.1 x
/-- facts never mention a variable that the code about to run may overwrite -/
def Avoids (F : Facts) (ds : List Var) : Prop := ∀ f x, F f = some x → x ∉ ds

theorem meet_le_left {a b : Facts} {f x} (h : meet a b f = some x) : a f = some x := by
  unfold meet at h; split at h <;> simp_all
theorem meet_le_right {a b : Facts} {f x} (h : meet a b f = some x) : b f = some x := by
  unfold meet at h; split at h
  · rename_i heq; rw [← heq]; exact h
  · simp at h

theorem sound_meet_left {a b st} (h : Sound a st) : Sound (meet a b) st :=
  fun f x hx => h f x (meet_le_left hx)
theorem sound_meet_right {a b st} (h : Sound b st) : Sound (meet a b) st :=
  fun f x hx => h f x (meet_le_right hx)
theorem avoids_meet_left {a b ds} (h : Avoids a ds) : Avoids (meet a b) ds :=
  fun f x hx => h f x (meet_le_left hx)

-- field-locality: the inferred value of a field after a block depends only on its value before
mutual
theorem localS : (s : Stmt) → ∀ (F F' : Facts) (f : Field), F f = F' f → knownS s F f = knownS s F' f
  | .setup fs, F, F', f, h => by simp only [knownS, upd]; split <;> simp_all
  | .pure _ _ _, F, F', f, h => by simpa [knownS] using h
  | .call _, F, F', f, h => by simp [knownS]
  | .ifS _ t e, F, F', f, h => by
      have ht := localB t F F' f h
      have he := localB e F F' f h
      simp only [knownS, meet, ht, he]
  | .forS _ b, F, F', f, h => by
      have h1 := localB b F F' f h
      have hhead : meet F (knownB b F) f = meet F' (knownB b F') f := by simp only [meet, h, h1]
      have h2 := localB b _ _ f hhead
      simp only [knownS, meet, h, h2]
theorem localB : (b : Block) → ∀ (F F' : Facts) (f : Field), F f = F' f → knownB b F f = knownB b F' f
  | .nil, F, F', f, h => by simpa [knownB] using h
  | .cons s r, F, F', f, h => by
      simp only [knownB]
      exact localB r _ _ f (localS s F F' f h)
end

-- uses of variables inside setups
mutual
def usesS : Stmt → List Var
  | .setup fs => fs.map (·.2)
  | .pure _ _ _ => []
  | .call _ => []
  | .ifS _ t e => usesB t ++ usesB e
  | .forS _ b => usesB b
def usesB : Block → List Var
  | .nil => []
  | .cons s r => usesS s ++ usesB r
end

-- SSA-style well-formedness: a value used in a setup is not redefined later in the same block
mutual
def wfS : Stmt → Prop
  | .setup _ => True
  | .pure _ _ _ => True
  | .call _ => True
  | .ifS _ t e => wfB t ∧ wfB e
  | .forS _ b => wfB b
def wfB : Block → Prop
  | .nil => True
  | .cons s r => wfS s ∧ wfB r ∧ (∀ x ∈ usesS s, x ∉ defsB r)
end

-- facts produced by a block mention only old facts' variables or variables used in the block
mutual
theorem varsS : (s : Stmt) → ∀ (F : Facts) f x, knownS s F f = some x → F f = some x ∨ x ∈ usesS s
  | .setup fs, F, f, x, h => by
      simp only [knownS, upd] at h
      split at h
      · rename_i y hy
        right; simp only [usesS, List.mem_map]
        obtain ⟨l1, l2, hl, _⟩ := List.lookup_eq_some_iff.mp hy
        exact ⟨(f, y), by simp [hl], by simpa using h⟩
      · left; exact h
  | .pure _ _ _, F, f, x, h => by left; simpa [knownS] using h
  | .call _, F, f, x, h => by simp [knownS] at h
  | .ifS _ t e, F, f, x, h => by
      simp only [knownS] at h
      rcases varsB t F f x (meet_le_left h) with h1 | h1
      · left; exact h1
      · right; simp [usesS, h1]
  | .forS _ b, F, f, x, h => by
      simp only [knownS] at h
      left; exact meet_le_left h
theorem varsB : (b : Block) → ∀ (F : Facts) f x, knownB b F f = some x → F f = some x ∨ x ∈ usesB b
  | .nil, F, f, x, h => by left; simpa [knownB] using h
  | .cons s r, F, f, x, h => by
      simp only [knownB] at h
      rcases varsB r _ f x h with h1 | h1
      · rcases varsS s F f x h1 with h2 | h2
        · left; exact h2
        · right; simp [usesB, h2]
      · right; simp [usesB, h1]
end

theorem avoids_mono {F : Facts} {ds ds' : List Var} (h : Avoids F ds) (hs : ∀ x ∈ ds', x ∈ ds) : Avoids F ds' :=
  fun f x hx hmem => h f x hx (hs x hmem)

theorem sound_setup {F : Facts} {st : Env × Regs} {fs} (h : Sound F st) :
    Sound (upd F fs) (st.1, setRegs st.2 st.1 fs) := by
  intro f x hx
  show setRegs st.2 st.1 fs f = st.1 x
  unfold upd at hx; unfold setRegs
  cases hl : fs.lookup f with
  | some y => simp only [hl] at hx ⊢; cases hx; rfl
  | none => simp only [hl] at hx ⊢; exact h f x hx

mutual
theorem soundS : (s : Stmt) → wfS s → ∀ (F : Facts) (st : Env × Regs), Sound F st → Avoids F (defsS s) →
    Sound (knownS s F) (execS s st)
  | .setup fs, _, F, (env, r), hs, _ => by
      simpa [knownS, execS] using sound_setup (fs := fs) hs
  | .pure d g args, _, F, (env, r), hs, ha => by
      intro f x hx
      simp only [knownS] at hx
      have hne : x ≠ d := fun e => ha f x hx (by simp [defsS, e])
      simp only [execS, hne, if_false]
      exact hs f x hx
  | .call _, _, F, (env, r), _, _ => by
      intro f x hx; simp [knownS] at hx
  | .ifS c t e, hwf, F, (env, r), hs, ha => by
      simp only [wfS] at hwf
      simp only [knownS, execS]
      split
      · exact sound_meet_left (soundB t hwf.1 F _ hs
          (avoids_mono ha (by intro x hx; simp only [defsS, List.mem_append]; exact Or.inl hx)))
      · exact sound_meet_right (soundB e hwf.2 F _ hs
          (avoids_mono ha (by intro x hx; simp only [defsS, List.mem_append]; exact Or.inr hx)))
  | .forS n b, hwf, F, (env, r), hs, ha => by
      simp only [wfS] at hwf
      simp only [defsS] at ha
      -- abbreviations
      have ihb := soundB b hwf
      -- head facts hold at the start of every iteration
      have hhead_av : Avoids (meet F (knownB b F)) (defsB b) := avoids_meet_left ha
      have step : ∀ st', Sound (meet F (knownB b F)) st' →
          Sound (knownB b (meet F (knownB b F))) (execB b st') :=
        fun st' h' => ihb _ st' h' hhead_av
      have back : ∀ st', Sound (knownB b (meet F (knownB b F))) st' → Sound (meet F (knownB b F)) st' := by
        intro st' h' f x hx
        have h1 : F f = some x := meet_le_left hx
        have h2 : knownB b F f = some x := meet_le_right hx
        have hloc := localB b (meet F (knownB b F)) F f (by rw [hx, h1])
        exact h' f x (by rw [hloc, h2])
      have loop : ∀ (k : Nat) st', Sound (meet F (knownB b F)) st' →
          (k = 0 ∨ Sound (knownB b (meet F (knownB b F))) (iter (execB b) k st')) ∧
          Sound (meet F (knownB b F)) (iter (execB b) k st') := by
        intro k
        induction k with
        | zero => intro st' h'; exact ⟨Or.inl rfl, by simpa [iter] using h'⟩
        | succ k ih =>
          intro st' h'
          have h1 := step st' h'
          have h2 := back _ h1
          rcases ih _ h2 with ⟨hk, hk'⟩
          refine ⟨Or.inr ?_, by simpa [iter] using hk'⟩
          simp only [iter]
          rcases hk with rfl | hk
          · simpa [iter] using h1
          · exact hk
      simp only [knownS, execS]
      have h0 : Sound (meet F (knownB b F)) (env, r) := sound_meet_left hs
      rcases loop (env n).toNat (env, r) h0 with ⟨hk, _⟩
      rcases hk with hz | hk
      · rw [hz]; simpa [iter] using sound_meet_left hs
      · exact sound_meet_right hk
theorem soundB : (b : Block) → wfB b → ∀ (F : Facts) (st : Env × Regs), Sound F st → Avoids F (defsB b) →
    Sound (knownB b F) (execB b st)
  | .nil, _, F, st, hs, _ => by simpa [knownB, execB] using hs
  | .cons s r, hwf, F, st, hs, ha => by
      simp only [wfB] at hwf
      obtain ⟨hws, hwr, huse⟩ := hwf
      simp only [knownB, execB]
      have h1 := soundS s hws F st hs
        (avoids_mono ha (by intro x hx; simp only [defsB, List.mem_append]; exact Or.inl hx))
      apply soundB r hwr _ _ h1
      intro f x hx hmem
      rcases varsS s F f x hx with h2 | h2
      · exact ha f x h2 (by simp [defsB, hmem])
      · exact huse x h2 hmem
end

#print axioms soundB

/-- C07 in miniature: starting from "nothing assumed", whatever is inferred after any program holds. -/
theorem infer_sound (b : Block) (hwf : wfB b) (st : Env × Regs) :
    Sound (knownB b (fun _ => none)) (execB b st) :=
  soundB b hwf _ st (by intro f x h; simp at h) (by intro f x h; simp at h)

-- the unrepaired loop-head equation (head := F) is refuted by a 1-field program
def badHead : Block :=  -- for 2 { setup A:=x ; setup A:=z }  with the pristine rule head = F would claim A = x at head
  .cons (.forS 0 (.cons (.setup [(0, 1)]) (.cons (.setup [(0, 2)]) .nil))) .nil

-- the unrepaired equations (as in the unchanged code): loop entry = state before the loop,
-- after the loop = state at the yield
mutual
def knownS0 : Stmt → Facts → Facts
  | .setup fs, F => upd F fs
  | .pure _ _ _, F => F
  | .call _, _ => fun _ => none
  | .ifS _ t e, F => meet (knownB0 t F) (knownB0 e F)
  | .forS _ b, F => knownB0 b F
def knownB0 : Block → Facts → Facts
  | .nil, F => F
  | .cons s r, F => knownB0 r (knownS0 s F)
end

def zeroTrip : Block :=   -- setup A:=v1 ; for v3 { setup A:=v2 }
  .cons (.setup [(0, 1)]) (.cons (.forS 3 (.cons (.setup [(0, 2)]) .nil)) .nil)
def env0 : Env := fun v => if v = 1 then 11 else if v = 2 then 33 else 0   -- v3 = 0 trips

/-- C07_zerotrip_fails in miniature: the unrepaired inference claims A = v2 after the loop, the machine holds v1. -/
theorem pristine_unsound : ¬ Sound (knownB0 zeroTrip (fun _ => none)) (execB zeroTrip (env0, fun _ => 0)) := by
  intro h
  have := h 0 2 (by decide)
  revert this
  decide
#print axioms pristine_unsound

/-! ## The `simplify` rule (SimplifyRedundantSetupCalls) on the structured IR:
    drop every field whose inferred incoming value is the very same variable. -/

def dropKnown (F : Facts) (fs : List (Field × Var)) : List (Field × Var) :=
  fs.filter (fun p => F p.1 != some p.2)

mutual
def simpS : Stmt → Facts → Stmt
  | .setup fs, F => .setup (dropKnown F fs)
  | .pure d g a, _ => .pure d g a
  | .call c, _ => .call c
  | .ifS c t e, F => .ifS c (simpB t F) (simpB e F)
  | .forS n b, F => .forS n (simpB b (meet F (knownB b F)))
def simpB : Block → Facts → Block
  | .nil, _ => .nil
  | .cons s r, F => .cons (simpS s F) (simpB r (knownS s F))
end

-- lookup in a filtered association list with unique keys
theorem lookup_filter (P : Field × Var → Bool) : ∀ (fs : List (Field × Var)) (f : Field),
    (fs.map (·.1)).Nodup →
    (fs.filter P).lookup f = match fs.lookup f with
      | some x => if P (f, x) then some x else none
      | none => none
  | [], f, _ => by simp
  | (k, v) :: rest, f, hnd => by
    have hnd' : (rest.map (·.1)).Nodup := (List.nodup_cons.mp hnd).2
    have hk : k ∉ rest.map (·.1) := (List.nodup_cons.mp hnd).1
    have ih := lookup_filter P rest f hnd'
    by_cases hfk : f = k
    · subst hfk
      have hnone : rest.lookup f = none := by
        rw [List.lookup_eq_none_iff]
        intro p hp
        have : f ≠ p.1 := fun e => hk (by simp only [List.mem_map]; exact ⟨p, hp, e.symm⟩)
        simpa using this
      by_cases hP : P (f, v)
      · simp [List.filter_cons, hP, List.lookup_cons]
      · simp only [List.filter_cons, hP, Bool.false_eq_true, if_false, List.lookup_cons, beq_self_eq_true]
        rw [ih, hnone]
    · have hne : (f == k) = false := by simpa using hfk
      by_cases hP : P (k, v)
      · simp [List.filter_cons, hP, List.lookup_cons, hne, ih]
      · simp [List.filter_cons, hP, List.lookup_cons, hne, ih]

-- a setup restricted to the not-yet-known fields writes the same register file
theorem setRegs_dropKnown {F : Facts} {env : Env} {r : Regs} (fs : List (Field × Var))
    (hs : Sound F (env, r)) (hnd : (fs.map (·.1)).Nodup) :
    setRegs r env (dropKnown F fs) = setRegs r env fs := by
  funext f
  simp only [setRegs, dropKnown]
  rw [lookup_filter _ fs f hnd]
  cases h1 : fs.lookup f with
  | none => rfl
  | some x =>
    simp only
    by_cases hk : F f = some x
    · simp only [hk, bne_self_eq_false, Bool.false_eq_true, if_false]
      exact hs f x hk
    · simp [hk]

-- setups never write the same field twice (param_names are unique)
mutual
def nodupS : Stmt → Prop
  | .setup fs => (fs.map (·.1)).Nodup
  | .pure _ _ _ => True
  | .call _ => True
  | .ifS _ t e => nodupB t ∧ nodupB e
  | .forS _ b => nodupB b
def nodupB : Block → Prop
  | .nil => True
  | .cons s r => nodupS s ∧ nodupB r
end

theorem iter_congr {σ} (f g : σ → σ) (P : σ → Prop) (hP : ∀ s, P s → P (f s)) (hfg : ∀ s, P s → g s = f s) :
    ∀ n s, P s → iter g n s = iter f n s
  | 0, s, _ => rfl
  | n+1, s, h => by simp only [iter]; rw [hfg s h]; exact iter_congr f g P hP hfg n (f s) (hP s h)

-- `simplify` leaves the whole machine state unchanged (hence every launch observes the same registers)
mutual
theorem simpS_exec : (s : Stmt) → wfS s → nodupS s → ∀ (F : Facts) (st : Env × Regs), Sound F st →
    Avoids F (defsS s) → execS (simpS s F) st = execS s st
  | .setup fs, _, hn, F, (env, r), hs, _ => by
      simp only [simpS, execS]; rw [setRegs_dropKnown fs hs hn]
  | .pure _ _ _, _, _, _, _, _, _ => rfl
  | .call _, _, _, _, _, _, _ => rfl
  | .ifS c t e, hwf, hn, F, (env, r), hs, ha => by
      simp only [wfS] at hwf; simp only [nodupS] at hn
      simp only [simpS, execS]
      split
      · exact simpB_exec t hwf.1 hn.1 F _ hs
          (avoids_mono ha (by intro x hx; simp only [defsS, List.mem_append]; exact Or.inl hx))
      · exact simpB_exec e hwf.2 hn.2 F _ hs
          (avoids_mono ha (by intro x hx; simp only [defsS, List.mem_append]; exact Or.inr hx))
  | .forS n b, hwf, hn, F, (env, r), hs, ha => by
      simp only [wfS] at hwf; simp only [nodupS] at hn; simp only [defsS] at ha
      simp only [simpS, execS]
      -- the loop invariant is exactly the one of the soundness proof: head facts hold at every iteration start
      have hav : Avoids (meet F (knownB b F)) (defsB b) := avoids_meet_left ha
      have hstep : ∀ st', Sound (meet F (knownB b F)) st' → Sound (meet F (knownB b F)) (execB b st') := by
        intro st' h' f x hx
        have h1 : F f = some x := meet_le_left hx
        have h2 : knownB b F f = some x := meet_le_right hx
        have hloc := localB b (meet F (knownB b F)) F f (by rw [hx, h1])
        exact soundB b hwf _ st' h' hav f x (by rw [hloc, h2])
      have h0 : Sound (meet F (knownB b F)) (env, r) := sound_meet_left hs
      have heq : execB (simpB b (meet F (knownB b F))) (env, r) = execB (simpB b (meet F (knownB b F))) (env, r) := rfl
      -- trip count is read before the loop, identical on both sides
      exact iter_congr (execB b) (execB (simpB b (meet F (knownB b F)))) (Sound (meet F (knownB b F)))
        hstep (fun s hs' => simpB_exec b hwf hn _ s hs' hav) _ _ h0
theorem simpB_exec : (b : Block) → wfB b → nodupB b → ∀ (F : Facts) (st : Env × Regs), Sound F st →
    Avoids F (defsB b) → execB (simpB b F) st = execB b st
  | .nil, _, _, _, _, _, _ => rfl
  | .cons s r, hwf, hn, F, st, hs, ha => by
      simp only [wfB] at hwf; simp only [nodupB] at hn
      obtain ⟨hws, hwr, huse⟩ := hwf
      simp only [simpB, execB]
      have hA : Avoids F (defsS s) :=
        avoids_mono ha (by intro x hx; simp only [defsB, List.mem_append]; exact Or.inl hx)
      rw [simpS_exec s hws hn.1 F st hs hA]
      apply simpB_exec r hwr hn.2 _ _ (soundS s hws F st hs hA)
      intro f x hx hmem
      rcases varsS s F f x hx with h2 | h2
      · exact ha f x h2 (by simp [defsB, hmem])
      · exact huse x h2 hmem
end
#print axioms simpB_exec

/-- C01 in miniature for the `simplify` rule: on any program, from any machine state, with nothing assumed at entry. -/
theorem simplify_preserves (b : Block) (hwf : wfB b) (hn : nodupB b) (st : Env × Regs) :
    execB (simpB b (fun _ => none)) st = execB b st :=
  simpB_exec b hwf hn _ st (by intro f x h; simp at h) (by intro f x h; simp at h)
