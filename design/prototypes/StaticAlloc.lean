/-! Calibration for C11: the static bump allocator (StaticAllocs). -/
def roundUp (a al : Nat) : Nat := if a % al = 0 then a else a + (al - a % al)

/-- returns the placed (address, size) list, or none when the capacity is exceeded -/
def staticAlloc (limit : Nat) : Nat → List (Nat × Nat) → Option (List (Nat × Nat))
  | _, [] => some []
  | cur, (size, al) :: rest =>
    let a := roundUp cur al
    if a + size > limit then none
    else (staticAlloc limit (a + size) rest).map ((a, size) :: ·)

theorem roundUp_ge (a al : Nat) : a ≤ roundUp a al := by unfold roundUp; split <;> omega
theorem roundUp_aligned (a al : Nat) (h : 0 < al) : roundUp a al % al = 0 := by
  unfold roundUp; split
  · assumption
  · have := Nat.mod_lt a h
    have e : a + (al - a % al) = (a / al + 1) * al := by
      have := Nat.div_add_mod a al; rw [Nat.add_mul, Nat.one_mul, Nat.mul_comm]; omega
    rw [e]; exact Nat.mul_mod_left _ _

/-- every placed buffer lies in [cur, limit), and buffers come in increasing, non-overlapping order -/
theorem staticAlloc_spec (limit : Nat) : ∀ (reqs : List (Nat × Nat)) (cur : Nat) (out : List (Nat × Nat)),
    staticAlloc limit cur reqs = some out →
    (∀ p ∈ out, cur ≤ p.1 ∧ p.1 + p.2 ≤ limit) ∧ out.Pairwise (fun p q => p.1 + p.2 ≤ q.1)
  | [], cur, out, h => by simp [staticAlloc] at h; subst h; simp
  | (size, al) :: rest, cur, out, h => by
    simp only [staticAlloc] at h
    split at h
    · simp at h
    · rename_i hfit
      cases hr : staticAlloc limit (roundUp cur al + size) rest with
      | none => simp [hr] at h
      | some tl =>
        simp [hr] at h; subst h
        obtain ⟨hin, hpw⟩ := staticAlloc_spec limit rest _ tl hr
        have hge := roundUp_ge cur al
        refine ⟨?_, ?_⟩
        · intro p hp
          simp at hp
          rcases hp with rfl | hp
          · exact ⟨hge, by omega⟩
          · have := hin p hp; omega
        · simp only [List.pairwise_cons]
          refine ⟨?_, hpw⟩
          intro q hq
          have := hin q hq; omega
#print axioms staticAlloc_spec
