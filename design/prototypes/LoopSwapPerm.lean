import Mathlib.Data.List.Perm.Basic
open List

theorem flatMap_comm_perm {α β γ} (l1 : List α) (l2 : List β) (g : α → β → List γ) :
    l1.flatMap (fun a => l2.flatMap (g a)) ~ l2.flatMap (fun b => l1.flatMap (fun a => g a b)) := by
  induction l1 with
  | nil => simp
  | cons a as ih =>
    simp only [flatMap_cons]
    exact (Perm.append_left _ ih).trans (flatMap_append_perm l2 (g a) (fun b => as.flatMap fun a => g a b))

def points : List Nat → List (List Nat)
  | [] => [[]]
  | b :: bs => (List.range b).flatMap fun i => (points bs).map (i :: ·)

def swap01 : List Nat → List Nat
  | a :: b :: r => b :: a :: r
  | l => l

/-- exchanging the two outermost loops visits the same points -/
theorem points_swap (a b : Nat) (bs : List Nat) :
    (points (b :: a :: bs)).map swap01 ~ points (a :: b :: bs) := by
  simp only [points, map_flatMap, map_map]
  have := flatMap_comm_perm (List.range b) (List.range a) (fun j i => (points bs).map (fun r => i :: j :: r))
  refine Perm.trans (Perm.of_eq ?_) (this.trans (Perm.of_eq ?_))
  · simp [flatMap_map, Function.comp_def, swap01]
  · simp [flatMap_map, Function.comp_def]
#print axioms points_swap
