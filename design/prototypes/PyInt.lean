example (a b : Nat) : Int.fdiv (a : Int) (b : Int) = ((a / b : Nat) : Int) := by
  rw [Int.fdiv_eq_ediv_of_nonneg _ (Int.natCast_nonneg b)]; exact (Int.natCast_ediv a b).symm
example (a b : Nat) : Int.fmod (a : Int) (b : Int) = ((a % b : Nat) : Int) := by
  rw [Int.fmod_eq_emod_of_nonneg _ (Int.natCast_nonneg b)]; exact (Int.natCast_emod a b).symm
-- python semantics sanity
example : Int.fdiv (-7) 2 = -4 ∧ Int.fmod (-7) 2 = 1 ∧ Int.fdiv 7 (-2) = -4 ∧ Int.fmod 7 (-2) = -1 := by decide
