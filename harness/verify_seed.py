"""Confirm a seeded change (patch.diff + demo.py) in a scratch worktree and run checks against it.
Usage: verify_seed.py <src dir with patch.diff demo.py notes.md> <seed id> <property> [more properties to run]
Writes /verif/seeded/<seed id>/{patch.diff,demo.py,notes.md,meta.json}."""
import json, os, re, shutil, subprocess, sys, tempfile, time
src, sid, prop, *more = sys.argv[1:]
VERIF = os.path.dirname(os.path.dirname(os.path.abspath(__file__)))
wt = tempfile.mkdtemp(prefix="seedchk_", dir="/tmp"); os.rmdir(wt)
subprocess.check_call(["git", "-C", "/repo", "worktree", "add", "-q", "--detach", wt, "HEAD"])
meta = {"seed": sid, "property": prop, "repo_head": subprocess.check_output(["git", "-C", "/repo", "rev-parse", "--short", "HEAD"], text=True).strip()}
def demo():
    env = dict(os.environ, SNAX_REPO=wt)
    try:
        r = subprocess.run(["/venv/bin/python", os.path.join(src, "demo.py")], env=env, capture_output=True, text=True, timeout=600)
        return r.returncode, (r.stdout + r.stderr)[-400:]
    except subprocess.TimeoutExpired:
        return 124, "timeout"
try:
    meta["demo_unchanged_exit"], _ = demo()
    r = subprocess.run(["git", "-C", wt, "apply", os.path.join(src, "patch.diff")], capture_output=True, text=True)
    meta["patch_applies"] = r.returncode == 0
    if r.returncode == 0:
        t = subprocess.run(["/venv/bin/python", "-m", "pytest", "-q", "-p", "no:cacheprovider", "--timeout=900", "--continue-on-collection-errors", "tests"],
                           cwd=wt, capture_output=True, text=True)
        m = re.search(r"(\d+) passed", t.stdout)
        meta["tests_passed_with_change"] = int(m.group(1)) if m else 0
        meta["tests_failed_with_change"] = int((re.search(r"(\d+) failed", t.stdout) or [0, 0])[1])
        meta["demo_changed_exit"], meta["demo_changed_tail"] = demo()
        meta["confirmed"] = bool(meta["demo_unchanged_exit"] == 0 and meta["demo_changed_exit"] != 0
                                 and meta["tests_passed_with_change"] == 68 and meta["tests_failed_with_change"] == 0)
        meta["checks"] = {}
        for p in [prop] + more:
            env = dict(os.environ, SNAX_REPO=wt, VERIF_EVIDENCE_DIR=wt + "/.evidence")
            t0 = time.time()
            c = subprocess.run(["/venv/bin/python", "harness/check.py", p, "--tier", "quick"], cwd=VERIF, env=env, capture_output=True, text=True)
            viol = [l for l in c.stdout.split("\n") if l.startswith("VIOLATION")]
            what = ""
            for l in viol:
                mm = re.search(r"replay=(\S+)", l)
                if mm and os.path.exists(os.path.join(VERIF, mm.group(1))):
                    rec = json.load(open(os.path.join(VERIF, mm.group(1))))
                    v = rec.get("violation") or [{}]
                    what = (v[0].get("what") if isinstance(v, list) and v else "") or rec.get("theorem_or_correspondence", "")
                    break
            meta["checks"][p] = {"exit": c.returncode, "violation_lines": [l[:200] for l in viol[:3]], "what": (what or "")[:300],
                                 "seconds": round(time.time() - t0, 1)}
finally:
    subprocess.call(["git", "-C", "/repo", "worktree", "remove", "--force", wt])
dst = os.path.join(VERIF, "seeded", sid)
os.makedirs(dst, exist_ok=True)
for f in ("patch.diff", "demo.py", "notes.md"):
    if os.path.exists(os.path.join(src, f)) and os.path.abspath(src) != os.path.abspath(dst):
        shutil.copy(os.path.join(src, f), os.path.join(dst, f))
meta["needs_to_manifest"] = open(os.path.join(src, "notes.md")).read()[:1200] if os.path.exists(os.path.join(src, "notes.md")) else ""
meta["what_i_ran"] = "harness/verify_seed.py: demo on unchanged scratch worktree; git apply; pytest tests (68 baseline); demo again; checks with SNAX_REPO=<scratch>"
json.dump(meta, open(os.path.join(dst, "meta.json"), "w"), indent=1)
print(json.dumps({k: meta[k] for k in meta if k not in ("needs_to_manifest", "demo_changed_tail")}, indent=1))
