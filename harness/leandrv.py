"""Lean side of the harness: build, axiom audit, source grep, batch driver."""
import fcntl
import json
import os
import re
import subprocess
import time

VERIF = os.path.dirname(os.path.dirname(os.path.abspath(__file__)))
LEAN = os.path.join(VERIF, "lean")
EXE = os.path.join(LEAN, ".lake", "build", "bin", "snaxmodel")
ALLOWED_AXIOMS = {"propext", "Classical.choice", "Quot.sound"}
FORBIDDEN = re.compile(
    r"\bsorry\b|\badmit\b|^\s*axiom\s|native_decide|bv_decide|implemented_by|\bunsafe\s|maxHeartbeats\s+0\b", re.M
)


class InfraError(Exception):
    pass


def _strip_comments(src: str) -> str:
    # remove block comments (nesting-aware) and line comments
    out = []
    i = 0
    depth = 0
    n = len(src)
    while i < n:
        if src.startswith("/-", i):
            depth += 1
            i += 2
        elif depth and src.startswith("-/", i):
            depth -= 1
            i += 2
        elif depth:
            if src[i] == "\n":
                out.append("\n")
            i += 1
        elif src.startswith("--", i):
            while i < n and src[i] != "\n":
                i += 1
        else:
            out.append(src[i])
            i += 1
    return "".join(out)


def build(timeout=3000):
    """lake build (library + driver), serialised with a file lock. Returns (ok, log, seconds)."""
    t0 = time.time()
    import genindex
    lock = open(os.path.join(LEAN, ".build.lock"), "w")
    fcntl.flock(lock, fcntl.LOCK_EX)
    try:
        genindex.gen_lean()
        p = subprocess.run(["lake", "build"], cwd=LEAN, capture_output=True, text=True, timeout=timeout)
    except FileNotFoundError as e:
        raise InfraError(f"lake not found: {e}")
    except subprocess.TimeoutExpired:
        raise InfraError("lake build timed out")
    finally:
        fcntl.flock(lock, fcntl.LOCK_UN)
        lock.close()
    return p.returncode == 0, (p.stdout + p.stderr), time.time() - t0


def grep_forbidden():
    """Forbidden constructs in the Lean sources (comments stripped). Returns list of (file, line, text)."""
    hits = []
    for root, _, files in os.walk(os.path.join(LEAN, "SnaxVerif")):
        for f in files:
            if not f.endswith(".lean"):
                continue
            p = os.path.join(root, f)
            src = _strip_comments(open(p).read())
            for m in FORBIDDEN.finditer(src):
                line = src.count("\n", 0, m.start()) + 1
                hits.append((os.path.relpath(p, LEAN), line, m.group(0).strip()))
    return hits


def audit(prop_id: str, theorems: list[str], module: str | None = None):
    """#print axioms for every obligation. Returns dict name -> {'found':bool,'axioms':[...],'ok':bool}."""
    module = module or f"SnaxVerif.Props.{prop_id}"
    d = os.path.join(LEAN, ".audit")
    os.makedirs(d, exist_ok=True)
    path = os.path.join(d, f"Audit_{prop_id}_{os.getpid()}.lean")
    with open(path, "w") as f:
        f.write(f"import {module}\n")
        for t in theorems:
            f.write(f"#print axioms {t}\n")
    try:
        p = subprocess.run(["lake", "env", "lean", path], cwd=LEAN, capture_output=True, text=True, timeout=900)
    finally:
        try:
            os.unlink(path)
        except OSError:
            pass
    out = p.stdout + p.stderr
    res = {t: {"found": False, "axioms": [], "ok": False} for t in theorems}
    # messages may span several lines: join then parse
    flat = re.sub(r"\s+", " ", out)
    for t in theorems:
        m = re.search(r"'" + re.escape(t) + r"' depends on axioms: \[([^\]]*)\]", flat)
        if m:
            ax = [a.strip() for a in m.group(1).split(",") if a.strip()]
            res[t] = {"found": True, "axioms": ax, "ok": set(ax) <= ALLOWED_AXIOMS}
            continue
        if re.search(r"'" + re.escape(t) + r"' does not depend on any axioms", flat):
            res[t] = {"found": True, "axioms": [], "ok": True}
    return res, out


def run_batch(requests: list[dict], timeout=1800) -> list[dict]:
    """Send all requests to the model driver in one run; answers by position."""
    if not requests:
        return []
    data = "\n".join(json.dumps(r, separators=(",", ":")) for r in requests) + "\n"
    if os.path.exists(EXE):
        cmd = [EXE]
    else:
        cmd = ["lake", "env", "lean", "--run", "Driver.lean"]
    try:
        p = subprocess.run(cmd, cwd=LEAN, input=data, capture_output=True, text=True, timeout=timeout)
    except subprocess.TimeoutExpired:
        raise InfraError("model driver timed out")
    lines = [l for l in p.stdout.split("\n") if l.strip()]
    if len(lines) != len(requests):
        raise InfraError(
            f"model driver answered {len(lines)} of {len(requests)} requests (rc={p.returncode}): {p.stderr[-2000:]}"
        )
    return [json.loads(l) for l in lines]


def own_imports(module: str) -> list[str]:
    """Transitive closure of `import SnaxVerif.*` starting from a module (source files of this project only)."""
    seen, todo = [], [module]
    while todo:
        m = todo.pop()
        if m in seen:
            continue
        path = os.path.join(LEAN, *m.split(".")) + ".lean"
        if not os.path.exists(path):
            continue
        seen.append(m)
        for line in open(path):
            mm = re.match(r"\s*import\s+(SnaxVerif[\w.]*)", line)
            if mm:
                todo.append(mm.group(1))
    return sorted(seen)


def recheck(module: str, timeout=1800):
    """Independent re-check of the compiled declarations with leanchecker (thorough tier)."""
    mods = own_imports(module)
    try:
        p = subprocess.run(["lake", "env", "leanchecker", *mods], cwd=LEAN, capture_output=True, text=True, timeout=timeout)
    except FileNotFoundError:
        return None, mods, "leanchecker not found"
    except subprocess.TimeoutExpired:
        return None, mods, "leanchecker timed out"
    return p.returncode == 0, mods, (p.stdout + p.stderr)[-1500:]
