"""C02 — streamer address streams equal the scheduled element stream
(passes `dart-layout-resolution` and `convert-dart-to-snax-stream`, accelerators snax_alu / snax_gemmx / snax_xdma).

Translation-validation style (USES_IMPL): the real passes are run on generated IR; what the model gets is the
content of the REAL `dart.schedule` op that enters layout resolution (bounds, pattern matrices, operand layouts as
data) resp. of the real `dart.access_pattern` op, plus the template/streamer geometry of the real accelerator
class.  Compared: the access-pattern strides, the StridePattern list handed to `set_stride_patterns` (captured by
wrapping that method), its return value, the final `snax_stream.streaming_region`, the number of warnings, and the
model's `hwStream` / `schedStream` against the harness' own stream simulator / layout evaluation.

Case kind "multi": a module with 2-3 streaming ops (one pass application, hence one pattern object / one accelerator
context for all of them).  Every op is compared with the model run on THAT OP ALONE and judged by the oracle on its own:
what an op gets must not depend on the ops converted before it (seeded fault C02-r2m1: streamers cached per accelerator
name).  If the module as a whole is refused, the model must predict a refusal of the same class for one of its ops.

The oracle is independent of the model: it enumerates the hardware byte stream of the final stride patterns with a
stream simulator and the bytes of the scheduled elements by evaluating the real memref layout map (xDSL) on the
real schedule pattern, and compares them step by step.
"""
import contextlib
import hashlib
import io
import itertools
import json
import os
import re
import tempfile
import warnings

import compat  # noqa: F401
from framework import Prop

MAX_BYTES = 40000     # largest stream (in bytes) that is enumerated

# ------------------------------------------------------------------------------------------------
# variants: accelerator + kernel body.  operands: list of (role, element type); template axes per operand
VARIANTS = {
    # name: (accelerator, [operand element types], number of inputs, template bounds, [template rows per operand])
    "alu": ("snax_alu", None, 2, [4], [[0], [0], [0]]),
    "xdma_add": ("snax_xdma", ["i32", "i32", "i32"], 2, [16], [[0], [0], [0]]),
    "xdma_down": ("snax_xdma", ["i32", "i8"], 1, [16], [[0], [0]]),
    "xdma_up": ("snax_xdma", ["i8", "i32"], 1, [16], [[0], [0]]),
    "mm32": ("snax_gemmx", ["i8", "i8", "i32"], 2, [8, 8, 8], [[0, 2], [2, 1], [0, 1]]),
    "mm8": ("snax_gemmx", ["i8", "i8", "i8"], 2, [8, 8, 8], [[0, 2], [2, 1], [0, 1]]),
    "gemm32": ("snax_gemmx", ["i8", "i8", "i32", "i32"], 3, [8, 8, 8], [[0, 2], [2, 1], [0, 1], [0, 1]]),
    "gemm8": ("snax_gemmx", ["i8", "i8", "i32", "i8"], 3, [8, 8, 8], [[0, 2], [2, 1], [0, 1], [0, 1]]),
    "simd": ("snax_gemmx", ["i32", "i8"], 1, [8, 8], [[0, 1], [0, 1]]),
    # output stream neither i8 nor i32: get_streamers refuses (NotImplementedError)
    "mm16": ("snax_gemmx", ["i8", "i8", "i16"], 2, [8, 8, 8], [[0, 2], [2, 1], [0, 1]]),
    "gemm16": ("snax_gemmx", ["i8", "i8", "i32", "i16"], 3, [8, 8, 8], [[0, 2], [2, 1], [0, 1], [0, 1]]),
}
EL_BYTES = {"i8": 1, "i16": 2, "i32": 4, "i64": 8}
RESCALE = ('{input_zp = 0 : i32, output_zp = 0 : i32, multiplier = array<i32: 1>, shift = array<i32: 0>, '
           'max_int = 127 : i32, min_int = -128 : i32, double_round = false}')


def op_els(case):
    v = VARIANTS[case["variant"]]
    return v[1] if v[1] is not None else [case.get("el", "i64")] * 3


def body(variant, els):
    """the region of the streaming op: block arguments = one stream per operand, then the generics"""
    n = len(els)
    args = ", ".join(f"%s{i} : !dart.stream<{e}>" for i, e in enumerate(els))
    st = [f"!dart.stream<{e}>" for e in els]
    if variant in ("alu", "xdma_add"):
        e = els[0]
        acc = VARIANTS[variant][0]
        return f'''^bb0({args}):
    %r = "dart.generic"(%s0, %s1) <{{library_call = "{acc}"}}> ({{
    ^bb1(%x : {e}, %y : {e}, %z : {e}):
      %k = kernel.add %x, %y : {e}, {e} -> {e}
      dart.yield %k : {e}
    }}) : ({st[0]}, {st[1]}) -> {st[2]}
    dart.yield %r : {st[2]}'''
    if variant in ("xdma_down", "xdma_up", "simd"):
        acc = VARIANTS[variant][0]
        return f'''^bb0({args}):
    %r = "dart.generic"(%s0) <{{library_call = "{acc}"}}> ({{
    ^bb1(%x : {els[0]}, %z : {els[1]}):
      %k = kernel.rescale %x {RESCALE} : ({els[0]}) -> {els[1]}
      dart.yield %k : {els[1]}
    }}) : ({st[0]}) -> {st[1]}
    dart.yield %r : {st[1]}'''
    # gemmx matmul family
    lines = [f"^bb0({args}):",
             '    %mm = "dart.generic"(%s0, %s1, %zp, %zp) <{library_call = "snax_gemmx"}> ({',
             "    ^bb1(%x : i8, %y : i8, %p : i32, %q : i32, %z : i32):",
             "      %k = kernel.qmac %x, %y zp_lhs : %p zp_rhs : %q : i8, i8, i32, i32 -> i32",
             "      dart.yield %k : i32",
             "    }) : (!dart.stream<i8>, !dart.stream<i8>, i32, i32) -> !dart.stream<i32>"]
    last = "%mm"
    if variant in ("gemm32", "gemm8", "gemm16"):
        lines += ['    %ad = "dart.generic"(%mm, %s2) <{library_call = "snax_gemmx"}> ({',
                  "    ^bb2(%x2 : i32, %y2 : i32, %z2 : i32):",
                  "      %k2 = kernel.add %x2, %y2 : i32, i32 -> i32",
                  "      dart.yield %k2 : i32",
                  "    }) : (!dart.stream<i32>, !dart.stream<i32>) -> !dart.stream<i32>"]
        last = "%ad"
    if variant in ("mm8", "gemm8", "mm16", "gemm16"):
        eo = els[n - 1]
        lines += [f'    %rs = "dart.generic"({last}) <{{library_call = "snax_gemmx"}}> ({{',
                  f"    ^bb3(%x3 : i32, %z3 : {eo}):",
                  f"      %k3 = kernel.rescale %x3 {RESCALE} : (i32) -> {eo}",
                  f"      dart.yield %k3 : {eo}",
                  f"    }}) : (!dart.stream<i32>) -> !dart.stream<{eo}>"]
        last = "%rs"
    lines.append(f"    dart.yield {last} : {st[n - 1]}")
    return "\n".join(lines)


def amap(ndims, A, b, wrap=None):
    """wrap = {"row": j, "dim": k, "m": m, "op": "mod" | "floordiv"}: the term c*d_k of row j becomes c*(d_k <op> m)
    (a cyclically re-used operand / a flattened loop over a padded buffer): NOT an affine pattern"""
    exprs = []
    for j, (row, off) in enumerate(zip(A, b)):
        terms = []
        for k, c in enumerate(row):
            if c == 0:
                continue
            if wrap and wrap["row"] == j and wrap["dim"] == k:
                terms.append(f"((d{k} {wrap['op']} {wrap['m']}) * {c})")
                continue
            terms.append(f"d{k}" if c == 1 else f"(d{k} * {c})")
        if off != 0 or not terms:
            terms.append(str(off))
        e = terms[0]
        for t in terms[1:]:
            e = f"({e} + {t})"
        exprs.append(e)
    return f"affine_map<({', '.join(f'd{k}' for k in range(ndims))}) -> ({', '.join(exprs)})>"


def layout_text(lay):
    if lay is None:
        return ""
    if lay[0] == "tsl":
        q = lambda v: "?" if v is None else str(v)      # noqa: E731   (None = dynamic entry)
        dims = ["[" + ", ".join(q(b) for _, b in d) + "] -> (" + ", ".join(q(s) for s, _ in d) + ")" for d in lay[1]]
        off = f", offset: {lay[2]}" if len(lay) > 2 and lay[2] else ""
        return ", #tsl.tsl<" + ", ".join(dims) + off + ">"
    if lay[0] == "strided":
        off = ", offset: ?" if len(lay) > 2 and lay[2] is None else f", offset: {lay[2]}" if len(lay) > 2 and lay[2] else ""
        return ", strided<[" + ", ".join("?" if s is None else str(s) for s in lay[1]) + "]" + off + ">"
    raise ValueError(lay)


def memref_ty(shape, el, lay):
    return f"memref<{'x'.join(str(s) for s in shape)}x{el}{layout_text(lay)}>"


def mlir_parts(case):
    """(function arguments, prelude lines, text of the streaming op) of a single-op case"""
    v = case["variant"]
    acc, _, nin, _, _ = VARIANTS[v]
    els = op_els(case)
    n = len(els)
    zp = "  %zp = arith.constant 0 : i32\n" if acc == "snax_gemmx" and v != "simd" else ""
    if case["kind"] == "access":
        tys = ["index"] * n
        pats = ", ".join(amap(len(case["bounds"]), [s], [0], (case.get("wraps") or {}).get(str(i)))
                         for i, s in enumerate(case["strides"]))
        bstr = ", ".join(f"{b} : index" for b in case["bounds"])
        props = f'patterns = [{pats}], accelerator = "{acc}", bounds = [{bstr}]'
        opname = "dart.access_pattern"
    else:
        tys = [memref_ty(o["shape"], e, o.get("layout")) for o, e in zip(case["operands"], els)]
        pats = ", ".join(amap(case["ndims"], o["A"], o["b"], o.get("wrap")) for o in case["operands"])
        if case["kind"] == "sched":
            bstr = ", ".join(f"{b} : index" for b in case["bounds"])
            props = f'patterns = [{pats}], accelerator = "{acc}", tiles = [[]], bounds = [{bstr}]'
            opname = "dart.schedule"
        else:
            props = f'patterns = [{pats}], accelerator = "{acc}"'
            opname = "dart.operation"
    fargs = [f"%a{i} : {t}" for i, t in enumerate(tys)]
    optext = f'''  "{opname}"({", ".join(f"%a{i}" for i in range(n))}) <{{{props}, operandSegmentSizes = array<i32: {nin}, {n - nin}>}}> ({{
  {body(v, els)}
  }}) : ({", ".join(tys)}) -> ()
'''
    return fargs, zp, optext


def mlir(case):
    if case["kind"] == "multi":
        return mlir_multi(case)
    fargs, zp, optext = mlir_parts(case)
    return f"func.func @f({', '.join(fargs)}) {{\n{zp}{optext}  func.return\n}}"


def _suffix(text, i):
    """rename every SSA value `%x` to `%x_i` (block labels and symbols are not touched)"""
    return re.sub(r"%([A-Za-z_][A-Za-z0-9_]*)", lambda m: f"%{m.group(1)}_{i}", text)


def mlir_multi(case):
    """several streaming ops in ONE module: in one function (`same_func`) or in one function each"""
    parts = [mlir_parts(sub) for sub in case["ops"]]
    if case.get("same_func", True):
        fargs, prel, ops = [], "", ""
        for i, (fa, zp, op) in enumerate(parts):
            fargs += [_suffix(a, i) for a in fa]
            prel += _suffix(zp, i)
            ops += _suffix(op, i)
        return f"func.func @f({', '.join(fargs)}) {{\n{prel}{ops}  func.return\n}}"
    return "\n".join(f"func.func @f{i}({', '.join(fa)}) {{\n{zp}{op}  func.return\n}}" for i, (fa, zp, op) in enumerate(parts))


# ------------------------------------------------------------------------------------------------
# running the real passes
def run_passes(src, passes):
    """snax-opt -p <passes> with the (not registered by default) snax_xdma accelerator added to the context"""
    from snaxc.tools.snax_opt_main import SNAXOptMain
    with tempfile.NamedTemporaryFile("w", suffix=".mlir", delete=False) as f:
        f.write(src)
        fn = f.name
    out = io.StringIO()
    try:
        with contextlib.redirect_stdout(out), contextlib.redirect_stderr(io.StringIO()):
            m = SNAXOptMain(args=[fn, "-p", passes, "--allow-unregistered-dialect"])
            from snaxc.accelerators.snax_xdma import SNAXXDMAAccelerator
            try:
                m.ctx.register_accelerator("snax_xdma", lambda: SNAXXDMAAccelerator())
            except ValueError:
                pass
            m.run()
    finally:
        os.unlink(fn)
    return out.getvalue()


def parse(src):
    import snaxrun
    from xdsl.parser import Parser
    return Parser(snaxrun.fresh_ctx(), src).parse_module()


def find(module, cls):
    return [o for o in module.walk() if isinstance(o, cls)]


def pat_json(p):
    return {"ub": [x.data for x in p.upper_bounds], "ts": [x.data for x in p.temporal_strides],
            "ss": [x.data for x in p.spatial_strides]}


def _stream_op_index(op):
    """position of `op` among the dart.access_pattern / snax_stream.streaming_region ops of its module (walk order =
    textual order; converted ops are replaced in place)"""
    from snaxc.dialects import dart, snax_stream
    top = op
    while top.parent_op() is not None:
        top = top.parent_op()
    k = 0
    for o in top.walk():
        if o is op:
            return k
        if isinstance(o, (dart.AccessPatternOp, snax_stream.StreamingRegionOp)):
            k += 1
    return None


@contextlib.contextmanager
def capture_set_stride_patterns(log):
    """wrap `set_stride_patterns` of the streamer accelerators: log (patterns handed in, patterns returned)"""
    from snaxc.accelerators.snax import SNAXStreamer
    from snaxc.accelerators.snax_gemmx import SNAXGEMMXAccelerator
    from snaxc.accelerators.snax_xdma import SNAXXDMAAccelerator
    saved = []
    for cls in (SNAXStreamer, SNAXGEMMXAccelerator, SNAXXDMAAccelerator):
        orig = cls.__dict__.get("set_stride_patterns")
        if orig is None:
            continue

        def mk(orig):
            def wrapped(self, op, pats):
                entry = {"handed": [pat_json(p) for p in pats], "index": _stream_op_index(op)}
                log.append(entry)
                r = orig(self, op, pats)
                entry["custom"] = [pat_json(p) for p in r[2]]
                entry["n_in"], entry["n_out"] = len(r[0]), len(r[1])
                return r
            return wrapped
        saved.append((cls, orig))
        cls.set_stride_patterns = mk(orig)
    try:
        yield
    finally:
        for cls, orig in saved:
            cls.set_stride_patterns = orig


# ------------------------------------------------------------------------------------------------
# extraction of data from the real IR
def layout_data(ty):
    """the layout attribute of a memref type as data: ("tsl", [[ [step,bound].. ]..], offset) in ELEMENTS"""
    from xdsl.dialects.builtin import NoneAttr, StridedLayoutAttr
    from snaxc.dialects.tsl import TiledStridedLayoutAttr
    shape = list(ty.get_shape())
    lay = ty.layout
    if isinstance(lay, NoneAttr):
        s, out = 1, []
        for n in reversed(shape):
            out.insert(0, [[s, n]])
            s *= n
        return out, 0, "none"
    if isinstance(lay, StridedLayoutAttr):
        strides = [getattr(x, "data", None) for x in lay.strides.data]
        off = getattr(lay.offset, "data", None)
        if off is None or any(s is None for s in strides):
            return [[[s, n]] for s, n in zip(strides, shape)], off, "dyn_strided"
        return [[[s, n]] for s, n in zip(strides, shape)], off, "strided"
    if isinstance(lay, TiledStridedLayoutAttr):
        d = lay.data
        out = [[[s.step, s.bound] for s in t.strides] for t in d.tstrides]
        if any(s is None or b is None for t in out for s, b in t):
            return out, d.offset, "dyn_tsl"
        if d.offset is None:
            raise ValueError("tsl layout with a dynamic offset")
        return out, d.offset, "tsl"
    raise ValueError(f"layout {lay}")


def layout_aexpr(lay, off, elb):
    """byte address expression of a static tiled-strided layout (reference form; built by the harness from the
    layout DATA, not by the compiler's get_affine_map)"""
    e = ["c", off * elb]
    for j, t in enumerate(lay):
        inner = 1
        terms = []
        for depth in range(len(t) - 1, -1, -1):
            step, bound = t[depth]
            x = ["d", j]
            if depth > 0:
                x = ["%", x, ["c", bound * inner]]
            if inner != 1:
                x = ["//", x, ["c", inner]]
            terms.append(["*", x, ["c", step * elb]])
            inner *= bound
        for t_ in terms:
            e = ["+", e, t_]
    return e


def aexpr_json(e):
    """xDSL affine expression -> the JSON form of the Lean driver"""
    from xdsl.ir.affine import AffineBinaryOpExpr, AffineBinaryOpKind, AffineConstantExpr, AffineDimExpr
    if isinstance(e, AffineDimExpr):
        return ["d", e.position]
    if isinstance(e, AffineConstantExpr):
        return ["c", e.value]
    if isinstance(e, AffineBinaryOpExpr):
        tag = {AffineBinaryOpKind.Add: "+", AffineBinaryOpKind.Mul: "*", AffineBinaryOpKind.Mod: "%",
               AffineBinaryOpKind.FloorDiv: "//", AffineBinaryOpKind.CeilDiv: "ceildiv"}[e.kind]
        return [tag, aexpr_json(e.lhs), aexpr_json(e.rhs)]
    raise ValueError(f"affine expression {e}")


def pattern_data(amap_):
    """(A, b) as the unit response of the map (computed by the harness, no linearity guard), the result expressions for the
    model, and what the REAL AffineTransform.from_affine_map makes of the map (None: it refuses)"""
    from snaxc.ir.dart.affine_transform import AffineTransform
    n = amap_.num_dims
    b = [int(v) for v in amap_.eval([0] * n, [])]
    cols = [[int(v) - bb for v, bb in zip(amap_.eval([1 if j == d else 0 for j in range(n)], []), b)] for d in range(n)]
    A = [[cols[d][r] for d in range(n)] for r in range(len(b))]
    try:
        T = AffineTransform.from_affine_map(amap_)
        real = {"A": [[int(v) for v in row] for row in T.A.tolist()], "b": [int(v) for v in T.b.tolist()]}
    except ValueError:
        real = None
    return A, b, [aexpr_json(r) for r in amap_.results], real


def vec_eval(amap_, cols):
    """Evaluate an xDSL AffineMap on MANY points at once: cols = one int64 numpy array per dimension -> one array per result.
    The expression TREE is xDSL's (parsed by xDSL); the arithmetic is numpy's floor division / modulo (= Python's // and %).
    Every call is cross-checked against xDSL's own `AffineMap.eval` on the first, the last and a middle point."""
    import numpy as np
    from xdsl.ir.affine import AffineBinaryOpExpr, AffineBinaryOpKind, AffineConstantExpr, AffineDimExpr
    n = len(cols[0]) if cols else 1

    def ev(e):
        if isinstance(e, AffineDimExpr):
            return cols[e.position]
        if isinstance(e, AffineConstantExpr):
            return np.full(n, e.value, dtype=np.int64)
        if isinstance(e, AffineBinaryOpExpr):
            l, r = ev(e.lhs), ev(e.rhs)
            if e.kind == AffineBinaryOpKind.Add:
                return l + r
            if e.kind == AffineBinaryOpKind.Mul:
                return l * r
            if e.kind == AffineBinaryOpKind.Mod:
                return np.mod(l, r)
            if e.kind == AffineBinaryOpKind.FloorDiv:
                return np.floor_divide(l, r)
            if e.kind == AffineBinaryOpKind.CeilDiv:
                return -np.floor_divide(-l, r)
        raise ValueError(f"affine expression {e}")
    res = [ev(r) for r in amap_.results]
    for k in sorted({0, n // 2, n - 1}) if n else []:
        want = amap_.eval([int(c[k]) for c in cols], [])
        assert [int(r[k]) for r in res] == [int(w) for w in want], f"vectorised evaluation of {amap_} differs from xDSL at point {k}"
    return res


def box_columns(bounds):
    """the points of the iteration box in schedule order (last dimension fastest), one column per dimension"""
    import numpy as np
    if not bounds:
        return []
    grid = np.indices(bounds, dtype=np.int64).reshape(len(bounds), -1)
    return [grid[k] for k in range(len(bounds))]


def linear_flags(sch, bounds, strides):
    """per operand: is the real composed map (xDSL get_affine_map_in_bytes ∘ pattern) equal to sum x_i * stride_i at
    every point of the iteration box?  None if the box is too large to enumerate."""
    n = 1
    for b in bounds:
        n *= b
    if n > 200000 or n == 0:
        return [None] * len(strides)
    cols = box_columns(bounds)
    out = []
    for opnd, pat, st in zip(sch.operands, sch.patterns.data, strides):
        idx = vec_eval(pat.data, cols)
        addr = vec_eval(opnd.type.get_affine_map_in_bytes(), idx)[0]
        lin = sum(c * si for c, si in zip(cols, st)) if cols else 0
        out.append(bool((addr == lin).all()))
    return out


def el_bytes_of(ty):
    from xdsl.dialects.builtin import IntegerType
    et = ty.element_type
    if not isinstance(et, IntegerType) or et.width.data % 8:
        raise ValueError(f"element type {et}")
    return et.width.data // 8


def geometry(op):
    """template relevance / streamer geometry of the REAL accelerator for the access-pattern op `op`"""
    import snaxrun
    from snaxc.accelerators.streamers.streamers import HasBroadcast
    from snaxc.accelerators.snax_xdma import SNAXXDMAAccelerator
    from snaxc.accelerators.snax_gemmx import SNAXGEMMXAccelerator
    from snaxc.dialects import dart
    from xdsl.dialects import builtin
    name = op.accelerator.data
    acc = SNAXXDMAAccelerator() if name == "snax_xdma" else snaxrun.ctx().get_acc(name)
    template = acc.get_template(op)
    streamers = acc.get_streamers(op)
    nd = len(op.bounds.data)
    rel, dims, bc, k = [], [], [], []
    for i in range(len(op.operands)):
        r = [True] * (nd - template.num_dims) + [bool(x) for x in template[i].pattern.A.any(axis=0).tolist()]
        rel.append(r)
        dims.append([int(d) for d in streamers[i].spatial_dims])
        bc.append(any(isinstance(o, HasBroadcast) for o in streamers[i].opts))
        k.append(sum(1 for x in r[nd - template.num_dims:] if x))
    if isinstance(acc, SNAXGEMMXAccelerator):
        last = op.body.block.arg_types[-1]
        if last == dart.StreamType(builtin.IntegerType(32)):
            variant = {"acc": "gemmx", "out32": True, "ser": acc.serializer_ratio,
                       "sd": int(acc.streamer_config.data.streamers[2].spatial_dims[-1])}
        elif last == dart.StreamType(builtin.IntegerType(8)):
            variant = {"acc": "gemmx", "out32": False, "ser": acc.serializer_ratio,
                       "sd": int(acc.streamer_config.data.streamers[2].spatial_dims[-1])}
        else:
            variant = {"acc": "gemmx_other"}
    elif isinstance(acc, SNAXXDMAAccelerator):
        variant = {"acc": "xdma_add" if len(op.operands) == 3 else "generic"}
    else:
        variant = {"acc": "generic"}
    all_dims = [[int(d) for d in s.spatial_dims] for s in acc.streamer_config.data.streamers]
    return {"relevant": rel, "dims": dims, "bc": bc, "k": k, "variant": variant, "ntempl": template.num_dims,
            "all_dims": all_dims,
            "streamers": [[int(s.temporal_dim), int(s.spatial_dim)] for s in acc.streamer_config.data.streamers]}


# ------------------------------------------------------------------------------------------------
# stream semantics used by the oracle (independent of the Lean model)
def hw_steps(pat, dims):
    """per temporal step (outermost loop slowest) the list of byte offsets of all ports; None if too large"""
    ub, ts, ss = pat["ub"], pat["ts"], pat["ss"]
    sp = list(zip(dims, ss))
    n = 8
    for b in ub:
        n *= max(b, 0)
    for d, _ in sp:
        n *= d
    if n > MAX_BYTES:
        return None
    words = [0]
    for d, s in sp:            # port index of the first spatial dim fastest
        words = [w + p * s for p in range(d) for w in words]
    steps = []
    for t in itertools.product(*[range(b) for b in reversed(ub)]):
        base = sum(i * s for i, s in zip(reversed(t), ts))
        steps.append([base + w + k for w in words for k in range(8)])
    return steps


def digest(steps, ordered):
    if steps is None:
        return None
    canon = [list(s) if ordered else sorted(set(s)) for s in steps]
    return hashlib.sha1(json.dumps(canon).encode()).hexdigest()[:16]


def regroup_equal(hw, sc):
    """uniform grouping: one of the step counts divides the other and the grouped byte SETS agree"""
    H, S = len(hw), len(sc)
    if H == 0 or S == 0:
        return (H == S) or (sum(len(x) for x in hw) == 0 and sum(len(x) for x in sc) == 0), "empty"
    if S % H == 0:
        g = S // H
        for j in range(H):
            a = set(hw[j])
            b = set().union(*sc[g * j:g * j + g])
            if a != b:
                return False, f"hardware step {j} touches {len(a)} bytes, schedule steps {g * j}..{g * j + g - 1} touch {len(b)}; " \
                              f"only hw: {sorted(a - b)[:6]}, only schedule: {sorted(b - a)[:6]}"
        return True, g
    if H % S == 0:
        g = H // S
        for j in range(S):
            a = set().union(*hw[g * j:g * j + g])
            b = set(sc[j])
            if a != b:
                return False, f"schedule step {j} touches {len(b)} bytes, hardware steps {g * j}..{g * j + g - 1} touch {len(a)}; " \
                              f"only hw: {sorted(a - b)[:6]}, only schedule: {sorted(b - a)[:6]}"
        return True, -g
    return False, f"{H} hardware steps vs {S} schedule steps: no uniform grouping factor"


# data-carrying operand -> index of its stride pattern in the final streaming region
def final_index(variant, nops):
    if variant["acc"] == "gemmx":
        if nops == 3:
            return [0, 1, 4] if variant["out32"] else [0, 1, 2]
        if nops == 4:
            return [0, 1, 3, 4] if variant["out32"] else [0, 1, 3, 2]
        return [3, 2]
    if variant["acc"] == "xdma_add":
        return [0, 0, 1]
    return list(range(nops))


# ------------------------------------------------------------------------------------------------
# generators
def row_major(shape):
    s, out = 1, []
    for n in reversed(shape):
        out.insert(0, s)
        s *= n
    return out


def gen_axes(rng, variant, max_tiles=4, tiles_choice=(0, 1, 1, 2), bound_choice=(1, 2, 2, 3, 4, 4, 6), fixed_tiles=None):
    """loop axes with their tiles: returns (ndims, bounds, per axis list of (schedule dim, coefficient), axis sizes);
    the template dims are the LAST schedule dims, one per template axis, coefficient 1"""
    tb = VARIANTS[variant][3]
    naxes = len(tb)
    extra_axes = rng.choice([0, 0, 1, 2]) if naxes == 1 else 0      # elementwise: more (purely temporal) axes
    axes = [[] for _ in range(naxes + extra_axes)]
    tiles = []
    for a in range(len(axes)):
        for _ in range(rng.choice(list(tiles_choice)) if a < naxes else rng.choice([1, 1, 2])):
            tiles.append(a)
    rng.shuffle(tiles)
    while len(tiles) > max_tiles:
        tiles.pop()
    if fixed_tiles is not None:
        tiles = list(fixed_tiles)
    ntemp = len(tiles)
    bounds = [rng.choice(list(bound_choice)) for _ in tiles] + list(tb)
    ndims = ntemp + naxes
    size = [1] * len(axes)
    for a in range(naxes):
        axes[a].append((ntemp + a, 1))
        size[a] = tb[a]
    # inner tiles = later (inner) schedule dims of the same axis
    for d in range(ntemp - 1, -1, -1):
        a = tiles[d]
        axes[a].append((d, size[a]))
        size[a] *= bounds[d]
    return ndims, bounds, axes, size


def gen_layout(rng, shape, tile_hint, mode, prio=None, safe=False, shuffle_outer=False, tiles_spec=None):
    """mode: none | strided | tsl | offset | unaligned; prio[j] = template axis of operand dim j (-1: temporal only):
    the dim with the highest template axis is made innermost most of the time (what the streamers need)"""
    rank = len(shape)
    prio = prio or list(range(rank))
    if mode == "none":
        return None
    if mode in ("strided", "offset"):
        order = sorted(range(rank), key=lambda j: prio[j])
        if not safe and rng.random() < 0.12:
            rng.shuffle(order)
        strides = [0] * rank
        s = 1
        for j in reversed(order):
            strides[j] = s
            s *= shape[j]
            if rng.random() < 0.2:
                s += rng.choice([8, 16, 64])
        off = rng.choice([1, 2, 3, 4, 8, 16]) if mode == "offset" else 0
        return ["strided", strides, off]
    # tiled-strided: per dim tile bounds, then assign dense steps in a random order of all tiles
    tiles = []
    for j, n in enumerate(shape):
        t = tile_hint[j] if mode == "tsl" else rng.choice([3, 5, 6])
        if n % t == 0 and n // t >= 1 and t > 1 and n > t and (safe or rng.random() < 0.8):
            if mode == "tsl" and (n // t) % 2 == 0 and rng.random() < 0.3 and not safe:
                tiles.append([n // t // 2, 2, t])
            else:
                tiles.append([n // t, t])
        else:
            tiles.append([n])
    if tiles_spec is not None:
        tiles = [list(t) for t in tiles_spec]     # one layout tile per schedule tile loop (aligned by construction)
    slots = [(j, d) for j, t in enumerate(tiles) for d in range(len(t))]
    # innermost tiles first (mostly), like set-memory-layout does
    slots.sort(key=lambda jd: (-(jd[1] - len(tiles[jd[0]])), -prio[jd[0]]))
    if not safe and rng.random() < 0.12:
        rng.shuffle(slots)
    if shuffle_outer:
        # keep the innermost tiles where the streamers need them, put the outer tiles in a random memory order
        inner = [jd for jd in slots if jd[1] == len(tiles[jd[0]]) - 1]
        outer = [jd for jd in slots if jd[1] != len(tiles[jd[0]]) - 1]
        rng.shuffle(outer)
        slots = inner + outer
    lay = [[[0, b] for b in t] for t in tiles]
    s = 1
    for j, d in slots:
        lay[j][d][0] = s
        s *= tiles[j][d]
        if rng.random() < 0.1:
            s = -(-s // 64) * 64
    return ["tsl", lay, 0]


def gen_sched(rng, big=False, variant=None, safe=False, deep=False, cyclic=False):
    """safe: layouts that the streamers accept most of the time (used for the ops of multi-op modules)"""
    variant = variant or rng.choice(["alu", "alu", "alu", "xdma_add", "xdma_down", "xdma_up", "mm32", "mm32", "mm8", "gemm32",
                                     "gemm8", "simd"] * 4 + ["mm16", "gemm16"])
    max_tiles = 4 if not safe or deep else 1 if variant == "alu" else 2
    if deep:
        # often: M tiled twice (adjacent, so that B's zero-stride loops fold), N and K once -> the output needs 4 loops
        fixed = rng.choice([[0, 0, 1, 2], [1, 0, 0, 2], [1, 1, 0, 2], [0, 1, 1, 2]]) if rng.random() < 0.6 else None
        ndims, bounds, axes, size = gen_axes(rng, variant, 4, (1, 1, 2), (2, 2, 2, 2, 3), fixed)
    elif cyclic:
        ndims, bounds, axes, size = gen_axes(rng, variant, max_tiles, (1, 1, 2), (4, 6, 8))
    else:
        ndims, bounds, axes, size = gen_axes(rng, variant, max_tiles)
    tb = VARIANTS[variant][3]
    rows_tpl = VARIANTS[variant][4]
    naxes = len(tb)
    case = {"kind": "sched", "variant": variant, "ndims": ndims, "bounds": bounds, "operands": []}
    if variant == "alu":
        case["el"] = "i64" if safe else rng.choice(["i64", "i64", "i64", "i32", "i16", "i8"])
    els = op_els(case)
    r = rng.random()
    flavour = "plain" if r < 0.86 or safe else "offset" if r < 0.91 else "unaligned" if r < 0.95 else \
        "bias" if r < 0.98 else "dynamic"
    bad_op = rng.randrange(len(els))
    for i, el in enumerate(els):
        # element-wise operands: the purely temporal axes are the outer operand dims, the template axis is the last one
        op_axes = list(range(naxes, len(axes))) + list(rows_tpl[i]) if naxes == 1 else list(rows_tpl[i])
        if len(axes) > naxes and rng.random() < 0.3 and not safe:
            rng.shuffle(op_axes)
        if len(op_axes) > 1 and naxes > 1 and rng.random() < 0.08 and not safe:
            op_axes = op_axes[::-1]          # transposed operand
        A = []
        for a in op_axes:
            row = [0] * ndims
            for d, c in axes[a]:
                row[d] = c
            A.append(row)
        shape = [size[a] for a in op_axes]
        b = [0] * len(shape)
        mode = rng.choice(["none", "none", "strided", "tsl", "tsl"])
        if safe:
            mode = "tsl" if VARIANTS[variant][0] == "snax_gemmx" else rng.choice(["none", "none", "tsl"])
        if flavour != "plain" and i == bad_op:
            if flavour == "bias":
                j = rng.randrange(len(shape))
                b[j] = rng.choice([1, 2, 4])
                shape[j] += b[j]
                mode = "none"
            else:
                mode = "none" if flavour == "dynamic" else flavour
        hint = [tb[a] if a < naxes else rng.choice([2, 4]) for a in op_axes]
        prio = [a if a < naxes else -1 for a in op_axes]
        tsl_off = flavour == "offset" and i == bad_op and rng.random() < 0.4
        spec = None
        if deep:
            spec = [[bounds[d] for d, _ in reversed(axes[a][1:])] + [tb[a]] for a in op_axes]
        lay = gen_layout(rng, shape, hint, "tsl" if tsl_off else mode, prio, safe, shuffle_outer=deep, tiles_spec=spec)
        if tsl_off:
            lay[2] = rng.choice([1, 2, 4, 8])
        if flavour == "dynamic" and i == bad_op:
            # dynamic strides: layout resolution has to refuse (symbols in the composed map / dynamic TSL)
            r2 = rng.random()
            if r2 < 0.3:
                lay = ["strided", [None] + row_major(shape)[1:], 0]
            elif r2 < 0.6:
                lay = ["strided", row_major(shape), None]
            else:
                lay = gen_layout(rng, shape, hint, "tsl", prio, True)
                lay[1][0][0][0] = None
        case["operands"].append({"shape": shape, "A": A, "b": b, "layout": lay})
    return case


REGION_ACCS = {"snax_alu": ("i64", 3), "snax_gemmx": ("i8", 5), "snax_xdma": ("i32", 2)}


def gen_region(rng):
    """a hand-written snax_stream.streaming_region with arbitrary pattern lists: only the verifier is exercised (pattern count,
    temporal / spatial stride counts, equal ub/ts lengths)"""
    acc = rng.choice(list(REGION_ACCS))
    n = REGION_ACCS[acc][1]
    k = n if rng.random() < 0.7 else rng.choice([max(1, n - 1), n + 1])
    pats = []
    for _ in range(k):
        nt = rng.choice([0, 1, 1, 1, 1, 1, 2, 3, 3, 4, 6])
        ns = rng.choice([0, 1, 1, 1, 1, 1, 1, 2, 3])
        ub = [rng.choice([0, 1, 2, 4]) for _ in range(nt)]
        ts = [rng.choice([0, 8, 64]) for _ in range(nt if rng.random() < 0.95 else nt + 1)]
        pats.append({"ub": ub, "ts": ts, "ss": [rng.choice([0, 8, 64]) for _ in range(ns)]})
    return {"kind": "region", "variant": "alu", "acc": acc, "pats": pats}


def mlir_region(case):
    el = REGION_ACCS[case["acc"]][0]
    k = len(case["pats"])
    ps = ", ".join("#snax_stream.stride_pattern<ub = [%s], ts = [%s], ss = [%s]>" % tuple(
        ", ".join(str(x) for x in p[key]) for key in ("ub", "ts", "ss")) for p in case["pats"])
    args = ", ".join(f"%p{i} : index" for i in range(k))
    return f'''func.func @f({args}) {{
  "snax_stream.streaming_region"({", ".join(f"%p{i}" for i in range(k))}) <{{stride_patterns = [{ps}], accelerator = "{case["acc"]}", operandSegmentSizes = array<i32: {k - 1}, 1>}}> ({{
  ^bb0({", ".join(f"%s{i} : !dart.stream<{el}>" for i in range(k))}):
  }}) : ({", ".join(["index"] * k)}) -> ()
  func.return
}}'''


def gen_deep(rng):
    """snax_gemmx with three or four temporal tile loops and outer tiles in a random memory order: stride patterns that
    need more temporal loops than some streamers have (the verifier has to refuse them; a pattern that is accepted is judged
    by the oracle on the loop nest the streamer really has)"""
    return gen_sched(rng, variant=rng.choice(["mm32", "mm32", "mm32", "gemm32", "gemm32", "mm8", "gemm8"]), safe=True, deep=True)


def gen_cyclic(rng):
    """a schedule / access pattern with a `mod c` or `floordiv c` term (cyclically re-used operand, flattened loop over a
    padded buffer) whose trip count passes the wrap point: not an affine map, the passes have to refuse it"""
    if rng.random() < 0.75:
        case = gen_sched(rng, variant=rng.choice(["alu", "alu", "xdma_add", "mm32", "mm8", "simd"]), safe=True, cyclic=True)
        cands = []
        for i, o in enumerate(case["operands"]):
            for j, row in enumerate(o["A"]):
                for k, c in enumerate(row):
                    # a temporal dimension whose trip count passes the wrap point
                    if c > 0 and k < case["ndims"] - len(VARIANTS[case["variant"]][3]) and case["bounds"][k] >= 4:
                        cands.append((i, j, k))
        if cands:
            i, j, k = rng.choice(cands)
            bd = case["bounds"][k]
            m = rng.randrange(max(2, min(k + 3, bd - 1)), bd) if rng.random() < 0.8 else rng.randrange(2, bd)
            case["operands"][i]["wrap"] = {"row": j, "dim": k, "m": m, "op": rng.choice(["mod", "mod", "floordiv"])}
        return case
    case = gen_access(rng)
    nt = len(case["bounds"]) - len(VARIANTS[case["variant"]][3])
    if nt:
        k = rng.randrange(nt)
        case["bounds"][k] = rng.choice([4, 6, 8])
        i = rng.randrange(len(case["strides"]))
        if case["strides"][i][k] == 0:
            case["strides"][i][k] = 64
        case["wraps"] = {str(i): {"row": 0, "dim": k, "m": rng.randrange(2, case["bounds"][k]), "op": rng.choice(["mod", "floordiv"])}}
    return case


GEMMX_VARIANTS = ["mm32", "mm8", "gemm32", "gemm8", "simd"]
XDMA_VARIANTS = ["xdma_add", "xdma_down", "xdma_up"]


def gen_multi(rng):
    """a module with 2-3 streaming ops: the same accelerator with different variants / kernels / shapes in any order, or
    different accelerators.  Every op is checked as if it were alone: what an op gets must not depend on its neighbours."""
    n = rng.choice([2, 2, 2, 3])
    r = rng.random()
    if r < 0.5:
        vs = rng.sample(GEMMX_VARIANTS, n) if rng.random() < 0.8 else [rng.choice(GEMMX_VARIANTS) for _ in range(n)]
    elif r < 0.65:
        vs = [rng.choice(XDMA_VARIANTS) for _ in range(n)]
    elif r < 0.72:
        vs = ["alu"] * n
    else:
        vs = [rng.choice(GEMMX_VARIANTS + XDMA_VARIANTS + ["alu", "alu"]) for _ in range(n)]
    ops = [gen_sched(rng, variant=v, safe=rng.random() < 0.85) for v in vs]
    return {"kind": "multi", "same_func": rng.random() < 0.7, "ops": ops}


def gen_pipe(rng):
    variant = rng.choice(["alu", "alu", "mm32", "mm32", "xdma_add", "mm8"])
    case = {"kind": "pipe", "variant": variant, "operands": []}
    sml = rng.choice([None, "true", "true", "false"])
    case["sml"] = sml
    if variant in ("mm32", "mm8"):
        M, N, K = [rng.choice([8, 16, 24, 32]) for _ in range(3)]
        case["ndims"] = 3
        shapes = [[M, K], [K, N], [M, N]]
        maps = [[[1, 0, 0], [0, 0, 1]], [[0, 0, 1], [0, 1, 0]], [[1, 0, 0], [0, 1, 0]]]
        for sh, A in zip(shapes, maps):
            lay = None
            if rng.random() < 0.3:
                lay = ["strided", [1, sh[0]], 0]      # column-major
            case["operands"].append({"shape": sh, "A": A, "b": [0, 0], "layout": lay})
    else:
        unit = 4 if variant == "alu" else 16
        rank = rng.choice([1, 1, 2, 2, 3])
        shape = [rng.choice([1, 2, 3, 4, 6, 8]) for _ in range(rank)]
        shape[-1] = unit * rng.choice([1, 2, 3, 4])
        if rng.random() < 0.15:
            shape[rng.randrange(rank)] = rng.choice([2, 5, 6, 12])
        case["ndims"] = rank
        ident = [[1 if i == j else 0 for j in range(rank)] for i in range(rank)]
        for _ in range(3):
            case["operands"].append({"shape": shape, "A": ident, "b": [0] * rank, "layout": None})
    return case


CONV_ORDERS = [["n", "oh", "ow", "f", "kh", "kw", "c"],      # linalg conv_2d_nhwc_hwcf
               ["n", "f", "oh", "ow", "c", "kh", "kw"],      # linalg conv_2d_nchw_fchw
               ["n", "oh", "ow", "f", "c", "kh", "kw"],
               ["oh", "n", "f", "ow", "kh", "c", "kw"]]


def gen_conv(rng):
    """conv-like / strided-window operations through the real front passes: dart.operation -> dart-scheduler ->
    set-memory-layout (tiled and untiled, the COMPILER chooses the layouts) -> layout resolution -> conversion.  One operand
    dimension is addressed by two loops (oh + kh, ow + kw) resp. with a stride (2*i): the layout pass has to keep every
    access affine, which dart-layout-resolution silently relies on."""
    if rng.random() < 0.12:
        # strided window on an element-wise accelerator: a[s*i (+ j)]
        variant = rng.choice(["alu", "xdma_add"])
        unit = 4 if variant == "alu" else 16
        n_out = unit * rng.choice([1, 2, 3])
        st = rng.choice([2, 2, 3])
        outer = rng.choice([1, 2, 3, 4])
        case = {"kind": "pipe", "variant": variant, "ndims": 2, "sml": rng.choice(["true", "true", "false"]), "operands": []}
        for i in range(3):
            if i == 0:
                case["operands"].append({"shape": [outer, st * n_out], "A": [[1, 0], [0, st]], "b": [0, 0], "layout": None})
            else:
                case["operands"].append({"shape": [outer, n_out], "A": [[1, 0], [0, 1]], "b": [0, 0], "layout": None})
        return case
    order = rng.choice(CONV_ORDERS)
    KH = rng.choice([1, 2, 3, 3])
    KW = rng.choice([1, 1, 2, 3])
    OH = rng.choice([2, 3, 4, 4, 6])
    if rng.random() < 0.5 and KH > 1:
        # input extent divisible by the kernel size (a tile of KH fits exactly)
        OH = rng.choice([x for x in (2, 3, 4, 5, 6, 7, 10) if (x + KH - 1) % KH == 0][:4])
    OW = 8
    F = rng.choice([8, 8, 16])
    C = rng.choice([8, 16, 16])
    size = {"n": 1, "oh": OH, "ow": OW, "f": F, "kh": KH, "kw": KW, "c": C}
    while OH * OW * F * KH * KW * C > 26000 and KW > 1:
        KW -= 1
        size["kw"] = KW
    while size["oh"] * OW * F * KH * KW * C > 26000 and size["oh"] > 2:
        size["oh"] -= 1
    OH = size["oh"]
    pos = {d: k for k, d in enumerate(order)}

    def row(*names):
        r = [0] * 7
        for nme in names:
            r[pos[nme]] = 1
        return r
    ops = [{"shape": [1, OH + KH - 1, OW + KW - 1, C], "A": [row("n"), row("oh", "kh"), row("ow", "kw"), row("c")]},
           {"shape": [KH, KW, C, F], "A": [row("kh"), row("kw"), row("c"), row("f")]},
           {"shape": [1, OH, OW, F], "A": [row("n"), row("oh"), row("ow"), row("f")]}]
    if rng.random() < 0.3:
        # NCHW / FCHW operand order
        ops = [{"shape": [1, C, OH + KH - 1, OW + KW - 1], "A": [row("n"), row("c"), row("oh", "kh"), row("ow", "kw")]},
               {"shape": [F, C, KH, KW], "A": [row("f"), row("c"), row("kh"), row("kw")]},
               {"shape": [1, F, OH, OW], "A": [row("n"), row("f"), row("oh"), row("ow")]}]
    for o in ops:
        o["b"] = [0] * len(o["shape"])
        o["layout"] = None
    return {"kind": "pipe", "variant": "mm32", "ndims": 7, "sml": rng.choice(["true", "true", "true", "false"]),
            "operands": ops, "bounds_of": [size[d] for d in order]}


def gen_access(rng):
    """a dart.access_pattern op with arbitrary strides: exercises every branch of the conversion incl. its errors"""
    variant = rng.choice(["alu", "alu", "xdma_add", "xdma_down", "mm32", "mm8", "gemm32", "gemm8", "simd"])
    tb = VARIANTS[variant][3]
    rows = VARIANTS[variant][4]
    ntemp = rng.choice([0, 1, 1, 2, 2, 3])
    case = {"kind": "access", "variant": variant, "strides": []}
    if variant == "alu":
        case["el"] = rng.choice(["i64", "i64", "i32", "i8"])
    els = op_els(case)
    flav = rng.random()
    tbounds = list(tb)
    if flav > 0.8:
        tbounds = [rng.choice([1, 2, 4, 8, 16, 3]) for _ in tb]     # bounds that do not fit the streamer
    bounds = [rng.choice([1, 2, 2, 3, 4, 6, 8]) for _ in range(ntemp)] + tbounds
    if rng.random() < 0.03:
        bounds[rng.randrange(len(bounds))] = 0
    case["bounds"] = bounds
    nd = len(bounds)
    for i, el in enumerate(els):
        elb = EL_BYTES[el]
        relevant = [True] * ntemp + [j in rows[i] for j in range(len(tb))]
        order = [d for d in range(nd) if relevant[d]]
        # contiguous chain over a random order of the relevant dims, innermost mostly the last template dim
        inner_first = list(reversed(order))
        if rng.random() < 0.4:
            rng.shuffle(inner_first)
        strides = [0] * nd
        s = elb
        for d in inner_first:
            r = rng.random()
            if r < 0.08:
                strides[d] = 0
            elif r < 0.16:
                strides[d] = s + rng.choice([8, 64, -1, 1, 3])
            else:
                strides[d] = s
            s = max(s, 1) * max(bounds[d], 1)
        if rng.random() < 0.15:
            strides[rng.randrange(nd)] = rng.choice([0, 1, 2, 4, 8, 64])
        case["strides"].append(strides)
    return case


def gen_partial_bank(rng):
    """hand-written access patterns whose innermost contiguous run is 9..31 bytes and NOT a multiple of the 8-byte bank
    (12 x i8, 5 x i16, 3 x i32 ...), rows padded to the next bank multiple (so that the merge checks pass), or not: the
    conversion has to refuse them (a partially used last bank would be fetched in full)"""
    variant = rng.choice(["alu", "alu", "xdma_add"])
    el = rng.choice(["i8", "i16", "i32"]) if variant == "alu" else "i32"
    elb = EL_BYTES[el]
    inner = rng.choice([n for n in range(2, 32) if 8 < n * elb < 32 and (n * elb) % 8 != 0])
    run = inner * elb
    padded = -(-run // 8) * 8
    nb = rng.choice([2, 2, 4, 4, 3, 6, 8])
    row = padded if rng.random() < 0.8 else rng.choice([run, padded + 8])
    bounds, strides = [nb, inner], [row, elb]
    if rng.random() < 0.4:
        ob = rng.choice([2, 3])
        bounds, strides = [ob] + bounds, [row * nb + rng.choice([0, 0, 16])] + strides
    case = {"kind": "access", "variant": variant, "bounds": bounds, "strides": [list(strides) for _ in range(3)]}
    if variant == "alu":
        case["el"] = el
    return case


# ------------------------------------------------------------------------------------------------
class C02(Prop):
    id = "C02"
    PARALLEL = True
    USES_IMPL = True
    CASE_TIMEOUT = 60
    exhaustive_thorough = True
    trusted_base = [
        "modelled (Model/Stream.lean): LayoutResolution.match_and_rewrite (unit-response strides), "
        "ConvertStreamToSnaxStreamPattern.match_and_rewrite per operand (relevant filter, three first-stride cases, spatial "
        "fill-up, broadcast escape, temporal rest, errors), set_stride_patterns of snax_alu/snax_gemmx/xDMA add as tables, "
        "StridePattern.canonicalize (Model/StridePattern.lean)",
        "inputs of the model taken from the REAL objects as data: template relevance (get_template), spatial dims / HasBroadcast "
        "of the streamers (get_streamers), pattern matrices (AffineTransform.from_affine_map), layout attribute contents; the byte "
        "layout expression is rebuilt by the harness from the layout data and thereby compared against get_affine_map_in_bytes",
        "hardware semantics (documented SNAX streamer address generator: addr = base + sum t_i*ts_i + sum p_j*ss_j, 8-byte words) "
        "is an assumption; Lean `hwStream` and the harness simulator are compared on every case",
        "xDSL AffineMap.compose/eval, MemRefType.get_affine_map_in_bytes are exercised, not modelled",
    ]
    assumptions = [
        "static shapes and layouts (dynamic layouts raise in layout resolution and are outside the model)",
        "accelerator-specific customisations (gemmx empty/zero/serializer patterns, xDMA add [2]/[512] loop) are compared as "
        "tables and checked by the oracle; no theorem is claimed about them",
        "xDMA add: the second input is fetched by the hard-coded 512-byte outer stride of the first streamer; the oracle assumes "
        "the second buffer lies 512 bytes behind the first (not enforced by these passes)",
        "broadcast escape (HasBroadcast, stride forced to 0): hardware broadcast semantics is not modelled; such operands are "
        "compared (correspondence) but not judged by the oracle",
    ]
    rule = ("three streams: (sched) dart.schedule ops built like dart-scheduler output (0-4 temporal tile dims, template dims of "
            "9 accelerator/kernel variants, element widths 8-64, layouts row-major / permuted+padded strided / tiled-strided, a few "
            "with offset, bias or unaligned tiles), (pipe) dart.operation through dart-scheduler [+ set-memory-layout], (access) "
            "dart.access_pattern ops with arbitrary strides and bounds incl. every error branch, (multi) modules with 2-3 "
            "dart.schedule ops (same accelerator with different variants/kernels/shapes in any order, or different accelerators; one "
            "function or one function per op), every op compared with the model run on that op alone and judged by the oracle on "
            "its own (history independence); non-trivial = the conversion "
            "produced stride patterns for a case with at least one temporal loop, or raised")

    def cases(self, rng, tier):
        q = tier == "quick"
        # the expensive deep cases are spread over the list (the fork pool hands out consecutive chunks)
        deep = [gen_deep(rng) for _ in range(48 if q else 800)]
        for k in range(330 if q else 5000):
            yield gen_sched(rng, big=not q)
            if k % 6 == 0 and deep:
                yield deep.pop()
        yield from deep
        for _ in range(70 if q else 1200):
            yield gen_pipe(rng)
        for _ in range(260 if q else 5000):
            yield gen_access(rng)
        for _ in range(140 if q else 2000):
            yield gen_multi(rng)
        for _ in range(60 if q else 1000):
            yield gen_region(rng)
        for _ in range(50 if q else 800):
            yield gen_cyclic(rng)
        for _ in range(40 if q else 600):
            yield gen_partial_bank(rng)
        for _ in range(36 if q else 600):
            yield gen_conv(rng)
        if not q:
            yield from self.exhaustive()

    def exhaustive(self):
        """every access pattern of snax_alu (one template dim of bound in {1,2,4,8}, one temporal dim of bound 1..4, every
        stride pair from a small set, widths 8 and 64)"""
        for el in ("i64", "i8"):
            for tbd in (1, 2, 4, 8):
                for b0 in (1, 2, 3, 4):
                    for s0 in (0, 1, 4, 8, 16, 32, 64):
                        for s1 in (0, 1, 2, 8, 16):
                            yield {"kind": "access", "variant": "alu", "el": el, "bounds": [b0, tbd],
                                   "strides": [[s0, s1], [s0, s1], [s0, s1]]}

    # -- real code ------------------------------------------------------------------------
    def impl(self, case):
        if case["kind"] == "region":
            return self.impl_region(case)
        if case["kind"] == "multi":
            return self.impl_multi(case)
        return self.impl_one(case)

    def impl_region(self, case):
        """the real verifier of snax_stream.streaming_region (run at the end of a pass that inserts the accelerator op)"""
        import snaxrun
        from snaxc.accelerators.snax_xdma import SNAXXDMAAccelerator
        acc = SNAXXDMAAccelerator() if case["acc"] == "snax_xdma" else snaxrun.ctx().get_acc(case["acc"])
        streamers = [[int(s.temporal_dim), int(s.spatial_dim)] for s in acc.streamer_config.data.streamers]
        if case["acc"] not in self._ACC_OPS:
            txt = run_passes("builtin.module {\n}", f"insert-accfg-op{{accelerator={case['acc']}}}")
            self._ACC_OPS[case["acc"]] = next(l for l in txt.splitlines() if "accfg.accelerator" in l)
        src = "builtin.module {\n" + mlir_region(case) + "\n" + self._ACC_OPS[case["acc"]] + "\n}"
        try:
            m = parse(src)
        except Exception as e:
            return {"region": True, "streamers": streamers, "verified": False, "at": "parse", "cls": type(e).__name__}
        try:
            m.verify()
        except Exception as e:
            if type(e).__name__ != "VerifyException":
                raise
            return {"region": True, "streamers": streamers, "verified": False, "at": "verify", "cls": "VerifyException",
                    "msg": str(e)[:80]}
        return {"region": True, "streamers": streamers, "verified": True}

    _ACC_OPS = {}

    def impl_one(self, case):
        from snaxc.dialects import dart, snax_stream
        from snaxc.ir.dart.affine_transform import AffineTransform
        out = {"stage": None, "raised": None, "sched": None, "access": None, "geo": None, "handed": None,
               "custom": None, "final": None, "nwarn": None}
        acc = VARIANTS[case["variant"]][0]
        src = mlir(case)
        try:
            mod0 = parse(src)
            mod0.verify()
        except Exception as e:
            return {"invalid_input": f"{type(e).__name__}: {str(e)[:200]}"}
        ins = f"insert-accfg-op{{accelerator={acc}}}"
        cur = src
        if case["kind"] == "pipe":
            pre = ins + ",dart-scheduler" + (f",set-memory-layout{{tiled={case['sml']}}}" if case.get("sml") else "")
            try:
                cur = run_passes(src, pre)
            except Exception as e:
                return {"invalid_input": f"front passes raised {type(e).__name__}: {str(e)[:200]}"}
        elif case["kind"] == "sched":
            cur = run_passes(src, ins)
        else:
            cur = run_passes(src, ins)
        if case["kind"] in ("pipe", "sched"):
            m = parse(cur)
            sch = find(m, dart.ScheduleOp)
            assert len(sch) == 1
            sch = sch[0]
            bounds = [x.value.data for x in sch.bounds.data]
            ops = []
            for pat, opnd in zip(sch.patterns.data, sch.operands):
                A_, b_, pj, real = pattern_data(pat.data)
                lay, off, lkind = layout_data(opnd.type)
                elb = el_bytes_of(opnd.type)
                ops.append({"A": A_, "b": b_, "pat": pj, "AB_real": real,
                            "lay": lay, "off": off, "lkind": lkind, "el": elb, "shape": list(opnd.type.get_shape())})
            out["sched"] = {"bounds": bounds, "ops": ops}
            self._cache.clear()
            self._cache[json.dumps(case, sort_keys=True)] = (sch, m)
            try:
                cur = run_passes(cur, "dart-layout-resolution")
            except Exception as e:
                out["stage"], out["raised"] = "resolve", type(e).__name__
                return out
        m2 = parse(cur)
        aps = find(m2, dart.AccessPatternOp)
        assert len(aps) == 1
        ap = aps[0]
        strides, apats, areal = [], [], []
        for pat in ap.patterns.data:
            A_, b_, pj, real = pattern_data(pat.data)
            assert len(A_) == 1 and b_[0] == 0
            strides.append(A_[0])
            apats.append(pj)
            areal.append(real)
        out["access"] = {"bounds": [x.value.data for x in ap.bounds.data], "strides": strides,
                         "els": [EL_BYTES[e] for e in op_els(case)], "pats": apats, "AB_real": areal}
        if out["sched"]:
            out["linear"] = linear_flags(sch, out["sched"]["bounds"], strides)
        try:
            out["geo"] = geometry(ap)
        except Exception as e:
            # the accelerator refuses the op (get_template / get_streamers): the real pass must refuse it the same way
            out["stage"], out["raised"] = "geometry", type(e).__name__
            try:
                run_passes(cur, "convert-dart-to-snax-stream")
                out["pass_raised"] = None
            except Exception as e2:
                out["pass_raised"] = type(e2).__name__
            return out
        log = []
        try:
            with warnings.catch_warnings(record=True) as w, capture_set_stride_patterns(log):
                warnings.simplefilter("always")
                res = run_passes(cur, "convert-dart-to-snax-stream")
            out["nwarn"] = sum(1 for x in w if "Non-contiguous access" in str(x.message))
        except Exception as e:
            out["stage"], out["raised"] = "convert", type(e).__name__
            if log:
                out["handed"] = log[0].get("handed")
                if type(e).__name__ == "VerifyException" and "custom" in log[0]:
                    # the conversion finished; the verifier of the new streaming_region rejected it
                    out["stage"], out["custom"] = "verify", log[0]["custom"]
            return out
        m3 = parse(res)
        srs = find(m3, snax_stream.StreamingRegionOp)
        assert len(srs) == 1 and len(log) == 1
        out["handed"], out["custom"] = log[0]["handed"], log[0]["custom"]
        out["final"] = [pat_json(p) for p in srs[0].stride_patterns.data]
        out["n_ptrs"] = len(srs[0].operands)
        # digests of the harness' own stream semantics (compared with the Lean definitions)
        out["hwdig"] = [digest(hw_steps(p, d), True) for p, d in zip(out["handed"], out["geo"]["dims"])]
        return out

    def impl_multi(self, case):
        """several ops in one module through the real passes; per op the same record as `impl_one`.  The expected result
        of an op must not depend on the other ops of the module."""
        from snaxc.dialects import dart, snax_stream
        from snaxc.ir.dart.affine_transform import AffineTransform
        subs = case["ops"]
        src = mlir_multi(case)
        try:
            mod0 = parse(src)
            mod0.verify()
        except Exception as e:
            return {"invalid_input": f"{type(e).__name__}: {str(e)[:200]}"}
        accs = []
        for sub in subs:
            a = VARIANTS[sub["variant"]][0]
            if a not in accs:
                accs.append(a)
        cur = run_passes(src, ",".join(f"insert-accfg-op{{accelerator={a}}}" for a in accs))
        outs = [{"stage": None, "raised": None, "sched": None, "access": None, "geo": None, "handed": None,
                 "custom": None, "final": None, "nwarn": None} for _ in subs]
        res = {"ops": outs, "stage": None, "raised": None, "nwarn": None}
        m = parse(cur)
        schs = find(m, dart.ScheduleOp)
        assert len(schs) == len(subs)
        for out, sch in zip(outs, schs):
            ops = []
            for pat, opnd in zip(sch.patterns.data, sch.operands):
                A_, b_, pj, real = pattern_data(pat.data)
                lay, off, lkind = layout_data(opnd.type)
                ops.append({"A": A_, "b": b_, "pat": pj, "AB_real": real,
                            "lay": lay, "off": off, "lkind": lkind, "el": el_bytes_of(opnd.type),
                            "shape": list(opnd.type.get_shape())})
            out["sched"] = {"bounds": [x.value.data for x in sch.bounds.data], "ops": ops}
        try:
            cur = run_passes(cur, "dart-layout-resolution")
        except Exception as e:
            res["stage"], res["raised"] = "resolve", type(e).__name__
            return res
        m2 = parse(cur)
        aps = find(m2, dart.AccessPatternOp)
        assert len(aps) == len(subs)
        for out, ap, sub, sch in zip(outs, aps, subs, schs):
            strides, apats, areal = [], [], []
            for pat in ap.patterns.data:
                A_, b_, pj, real = pattern_data(pat.data)
                assert len(A_) == 1 and b_[0] == 0
                strides.append(A_[0])
                apats.append(pj)
                areal.append(real)
            out["access"] = {"bounds": [x.value.data for x in ap.bounds.data], "strides": strides,
                             "els": [EL_BYTES[e] for e in op_els(sub)], "pats": apats, "AB_real": areal}
            out["linear"] = linear_flags(sch, out["sched"]["bounds"], strides)
            try:
                out["geo"] = geometry(ap)
            except Exception as e:
                out["stage"], out["raised"] = "geometry", type(e).__name__
        if any(o["stage"] == "geometry" for o in outs):
            res["stage"] = "geometry"
            return res
        log = []
        try:
            with warnings.catch_warnings(record=True) as w, capture_set_stride_patterns(log):
                warnings.simplefilter("always")
                txt = run_passes(cur, "convert-dart-to-snax-stream")
            res["nwarn"] = sum(1 for x in w if "Non-contiguous access" in str(x.message))
        except Exception as e:
            res["stage"], res["raised"] = "convert", type(e).__name__
            for ent in log:
                if ent["index"] is not None and ent["index"] < len(outs):
                    outs[ent["index"]]["handed"] = ent["handed"]
                    outs[ent["index"]]["custom"] = ent.get("custom")
            if type(e).__name__ == "VerifyException" and len(log) == len(subs) and all("custom" in x for x in log):
                res["stage"] = "verify"
            return res
        m3 = parse(txt)
        srs = find(m3, snax_stream.StreamingRegionOp)
        assert len(srs) == len(subs) and len(log) == len(subs)
        assert sorted(e["index"] for e in log) == list(range(len(subs)))
        res["order"] = [e["index"] for e in log]
        for ent in log:
            out = outs[ent["index"]]
            out["handed"], out["custom"] = ent["handed"], ent["custom"]
        for out, sr in zip(outs, srs):
            out["final"] = [pat_json(p) for p in sr.stride_patterns.data]
            out["n_ptrs"] = len(sr.operands)
            out["hwdig"] = [digest(hw_steps(p, d), True) for p, d in zip(out["handed"], out["geo"]["dims"])]
        return res

    def compare_multi(self, case, impl_out, model_out):
        if "invalid_input" in impl_out:
            return None
        if impl_out["stage"] == "geometry":
            return None
        mos = model_out["ops"]
        if impl_out["stage"] == "resolve":
            want = [mo.get("resolveRaised") for mo in mos if mo.get("resolveRaised")]
            return None if impl_out["raised"] in want else \
                f"layout resolution raised {impl_out['raised']}; the ops on their own (model): {want or 'all resolve'}"
        for i, mo in enumerate(mos):
            if mo.get("resolveRaised"):
                return f"op {i}: model: layout resolution raises {mo['resolveRaised']}, the module was resolved"
        for i, (io, mo) in enumerate(zip(impl_out["ops"], mos)):
            if "model_error" in mo:
                return f"op {i}: model error: {mo['model_error']}"
            if io["access"]["strides"] != mo["strides"]:
                return f"op {i}: access-pattern strides: impl {io['access']['strides']} model {mo['strides']}"
            d = self.aligned_check(io, mo)
            if d:
                return f"op {i}: {d}"
        if impl_out["stage"] in ("convert", "verify"):
            # the module as a whole was refused; the model (every op on its own) must predict a refusal of some op
            for i, (io, mo) in enumerate(zip(impl_out["ops"], mos)):
                conv = mo["conv"]
                for key in ("handed", "custom"):
                    if io.get(key) is not None and conv.get(key) is not None and io[key] != conv[key]:
                        return f"op {i} ({case['ops'][i]['variant']}): {key}: impl {io[key]} model (op alone) {conv[key]}"
            if impl_out["stage"] == "convert":
                want = [mo["conv"]["raised"] for mo in mos if "raised" in mo["conv"]]
                if impl_out["raised"] not in want:
                    return f"the module raised {impl_out['raised']} in the conversion; the ops on their own: {want or 'all convert'}"
                return None
            if all(mo["conv"].get("verified", False) for mo in mos if "raised" not in mo["conv"]) and \
                    not any("raised" in mo["conv"] for mo in mos):
                return "the verifier rejected a streaming region of the module; the model's verifier accepts every op on its own"
            return None
        for i, (sub, io, mo) in enumerate(zip(case["ops"], impl_out["ops"], mos)):
            io = dict(io, nwarn=mo["conv"].get("nwarn") if "raised" not in mo["conv"] else None)   # warnings: compared in total
            d = self.compare_one(sub, io, mo)
            if d:
                return f"op {i} ({sub['variant']}) of {[x['variant'] for x in case['ops']]} (conversion order {impl_out.get('order')}): {d}"
        if impl_out["nwarn"] != sum(mo["conv"]["nwarn"] for mo in mos):
            return f"warnings: impl {impl_out['nwarn']}, model {sum(mo['conv']['nwarn'] for mo in mos)}"
        return None

    # -- model ------------------------------------------------------------------------------
    def requests(self, case, impl_out):
        if case["kind"] == "region":
            return [{"fn": "c02.verify", "args": {"streamers": impl_out["streamers"], "pats": case["pats"]}}] \
                if "streamers" in impl_out else []
        if case["kind"] == "multi":
            if "invalid_input" in impl_out:
                return []
            reqs = []
            for sub, io in zip(case["ops"], impl_out["ops"]):
                reqs += self.requests_one(sub, io)
            return reqs
        return self.requests_one(case, impl_out)

    def requests_one(self, case, impl_out):
        if "invalid_input" in impl_out:
            return []
        if impl_out.get("stage") == "geometry":
            if VARIANTS[case["variant"]][0] != "snax_gemmx":
                return []
            els = op_els(case)
            return [{"fn": "c02.streamers", "args": {"acc": "gemmx", "nops": len(els), "outBits": 8 * EL_BYTES[els[-1]]}}]
        ronly = impl_out.get("stage") == "resolve" or impl_out.get("access") is None
        geo = impl_out.get("geo")
        ops = []
        if impl_out.get("sched"):
            s = impl_out["sched"]
            bounds = s["bounds"]
            for i, o in enumerate(s["ops"]):
                if o.get("lkind") == "dyn_tsl":
                    ops.append({"L": None, "dynTsl": o["lay"], "A": o["A"], "b": o["b"], "strides": [], "el": o["el"]})
                elif o.get("lkind") == "dyn_strided":
                    how = "stride" if any(t[0][0] is None for t in o["lay"]) else "offset"
                    ops.append({"L": None, "dynStrided": how, "A": o["A"], "b": o["b"], "strides": [], "el": o["el"]})
                elif o.get("lkind") == "tsl":
                    ops.append({"L": None, "tsl": o["lay"], "A": o["A"], "b": o["b"], "strides": None, "el": o["el"]})
                else:
                    ops.append({"L": layout_aexpr(o["lay"], o["off"], o["el"]), "A": o["A"], "b": o["b"],
                                "strides": None, "el": o["el"]})
                # A and b are recomputed by the model of AffineTransform.from_affine_map from the pattern itself
                ops[-1]["pat"] = o.get("pat")
        else:
            bounds = impl_out["access"]["bounds"]
            acc_ = impl_out["access"]
            for st, e, pj in zip(acc_["strides"], acc_["els"], acc_.get("pats") or [None] * len(acc_["strides"])):
                ops.append({"L": None, "A": [], "b": [], "strides": st, "el": e, "pat": pj})
        for i, o in enumerate(ops):
            if ronly or geo is None:
                o.update({"relevant": [True] * len(bounds), "dims": [], "bc": False, "k": 0})
            else:
                o.update({"relevant": geo["relevant"][i], "dims": geo["dims"][i], "bc": geo["bc"][i], "k": geo["k"][i]})
        variant = geo["variant"] if geo else {"acc": "generic"}
        return [{"fn": "c02.run", "args": {"bounds": bounds, "variant": variant, "resolveOnly": ronly, "ops": ops,
                                           "accessLevel": not impl_out.get("sched"),
                                           "streamers": geo["streamers"] if geo else []}}]

    def model(self, case, answers, impl_out):
        if case["kind"] == "region":
            if not answers or "err" in answers[0]:
                return {"model_error": answers[0].get("err") if answers else "no answer"}
            return {"verified": answers[0]["ok"]}
        if case["kind"] == "multi":
            if "invalid_input" in impl_out:
                return impl_out
            outs, k = [], 0
            for sub, io in zip(case["ops"], impl_out["ops"]):
                n = len(self.requests_one(sub, io))
                outs.append(self.model_one(sub, answers[k:k + n], io))
                k += n
            return {"ops": outs}
        return self.model_one(case, answers, impl_out)

    def model_one(self, case, answers, impl_out):
        if "invalid_input" in impl_out:
            return impl_out
        if impl_out.get("stage") == "geometry":
            if answers and "ok" in answers[0] and "raised" in answers[0]["ok"]:
                return {"geometry_raised": answers[0]["ok"]["raised"]}
            return {"outside": "accelerator rejected the op before the conversion"}
        a = answers[0]
        if "err" in a:
            return {"model_error": a["err"]}
        r = a["ok"]
        out = {"strides": r["strides"], "conv": r["conv"], "aligned": r.get("aligned"), "dataIndex": r.get("dataIndex"),
               "AB": r.get("AB")}
        if "resolveRaised" in r:
            out["resolveRaised"] = r["resolveRaised"]
        c = r["conv"]
        if c and "final" in c:
            c["nwarn"] = sum(1 for x in c["flags"] if x["warned"])
            out["flags"] = c.pop("flags")
            out["hwdig"] = [digest(h, True) for h in c.pop("hw")]
            out["sched_streams"] = c.pop("sched")
        return out

    def compare(self, case, impl_out, model_out):
        if model_out is None:
            return None
        if case["kind"] == "region":
            if "model_error" in model_out:
                return f"model error: {model_out['model_error']}"
            return None if impl_out.get("verified") == model_out["verified"] else \
                f"verifier: impl {impl_out}, model verified={model_out['verified']}"
        if case["kind"] == "multi":
            return self.compare_multi(case, impl_out, model_out)
        return self.compare_one(case, impl_out, model_out)

    @staticmethod
    def aligned_check(impl_out, model_out):
        """theorem tsl_linear_of_aligned on the real code: where the model's (decidable) alignment clause holds, the real
        composed map must be the linear form with the predicted coefficients"""
        al = model_out.get("aligned") or []
        bounds = impl_out["sched"]["bounds"]
        for i, a in enumerate(al):
            if not a or not a["aligned"]:
                continue
            for k, bd in enumerate(bounds):
                if bd >= 2 and impl_out["access"]["strides"][i][k] != a["strides"][k]:
                    return (f"operand {i}: aligned (clause of tsl_linear_of_aligned) but stride {k} is "
                            f"{impl_out['access']['strides'][i][k]}, the theorem's coefficient is {a['strides'][k]}")
            lin = (impl_out.get("linear") or [None] * len(al))[i]
            if lin is False:
                return f"operand {i}: aligned (clause of tsl_linear_of_aligned) but the real composed map is not linear on the box"
        return None

    def compare_one(self, case, impl_out, model_out):
        if model_out is None:
            return None
        if "model_error" in model_out:
            return f"model error: {model_out['model_error']}"
        if "invalid_input" in impl_out:
            return None
        if "geometry_raised" in model_out:
            if impl_out.get("raised") != model_out["geometry_raised"] or impl_out.get("pass_raised") != model_out["geometry_raised"]:
                return (f"get_streamers: model raises {model_out['geometry_raised']}, accelerator object raised {impl_out.get('raised')}, "
                        f"the pass raised {impl_out.get('pass_raised')}")
            return None
        if "outside" in model_out:
            return None
        if impl_out.get("sched"):
            if impl_out.get("stage") == "resolve":
                if model_out.get("resolveRaised") == impl_out["raised"]:
                    return None
                return f"layout resolution raised {impl_out['raised']}, model: {model_out.get('resolveRaised')}"
            if "resolveRaised" in model_out:
                return f"model: layout resolution raises {model_out['resolveRaised']}, impl resolved {impl_out['access']['strides']}"
            for i, (ab, o) in enumerate(zip(model_out.get("AB") or [], impl_out["sched"]["ops"])):
                if ab is not None and o.get("AB_real") != ab:
                    return (f"operand {i}: AffineTransform.from_affine_map gives {o.get('AB_real')}, the model {ab} "
                            f"for the pattern {o.get('pat')}")
            if impl_out["access"]["strides"] != model_out["strides"]:
                return f"access-pattern strides: impl {impl_out['access']['strides']} model {model_out['strides']}"
            d = self.aligned_check(impl_out, model_out)
            if d:
                return d
            # the hypothesis of C02_tsl_partial has to be ESTABLISHED by the neighbouring pass: every tiled-strided layout that
            # the real set-memory-layout chose must satisfy the model's (decidable) alignment clause
            for i, a in enumerate(model_out.get("aligned") or []):
                if a is not None and not a["aligned"] and self.compiler_chosen(case, i):
                    return (f"operand {i}: set-memory-layout{{tiled={case['sml']}}} chose the layout {impl_out['sched']['ops'][i]['lay']}, "
                            f"which is not aligned with the schedule (pattern {impl_out['sched']['ops'][i]['A']}, bounds "
                            f"{impl_out['sched']['bounds']}): clause Aligned / AlignedCanon of tsl_linear_of_aligned fails")
        conv = model_out["conv"]
        if impl_out.get("stage") == "verify":
            if "raised" in conv:
                return f"impl: verifier rejected the result, model raised {conv['raised']}"
            for key in ("handed", "custom"):
                if impl_out[key] != conv[key]:
                    return f"{key}: impl {impl_out[key]} model {conv[key]}"
            return "impl: the verifier rejected the streaming region, the model's verifier accepts it" if conv["verified"] else None
        if impl_out.get("stage") == "convert":
            if "raised" not in conv:
                return f"impl raised {impl_out['raised']} in the conversion, the model produced patterns"
            if conv["raised"] != impl_out["raised"]:
                return f"impl raised {impl_out['raised']}, model {conv['raised']}"
            return None
        if "raised" in conv:
            return f"model raised {conv['raised']}, impl produced {impl_out['final']}"
        for key in ("handed", "custom", "final", "nwarn"):
            if impl_out[key] != conv[key]:
                return f"{key}: impl {impl_out[key]} model {conv[key]}"
        if not conv["verified"]:
            return "the model's verifier rejects the streaming region that the real verifier accepted"
        if model_out.get("dataIndex") != final_index(impl_out["geo"]["variant"], len(impl_out["handed"])):
            return f"dataIndex of the model {model_out.get('dataIndex')} differs from the table the oracle uses"
        geo = impl_out["geo"]
        if [geo["all_dims"][k] for k in model_out["dataIndex"]] != geo["dims"]:
            return (f"get_streamers: the real accelerator serves the operands with port shapes {geo['dims']}, the model's table "
                    f"{model_out['dataIndex']} selects {[geo['all_dims'][k] for k in model_out['dataIndex']]}")
        if any(a is not None and b is not None and a != b for a, b in zip(impl_out["hwdig"], model_out["hwdig"])) \
                or len(impl_out["hwdig"]) != len(model_out["hwdig"]):
            return f"hwStream of the model differs from the harness stream simulator on the handed patterns {impl_out['handed']}"
        # the model's schedule stream vs the harness' enumeration of the access pattern (sets per step)
        for i, ms in enumerate(model_out.get("sched_streams") or []):
            ref = self.access_steps(impl_out, i)
            if ms is None or ref is None:
                continue
            if digest(ms, False) != digest(ref, False):
                return f"schedStream of the model differs from the harness enumeration for operand {i}"
        return None

    # -- schedule-side enumerations (oracle) ------------------------------------------------
    @staticmethod
    def access_steps(impl_out, i):
        """bytes per schedule step according to the ACCESS PATTERN strides (element width el)"""
        acc, geo = impl_out["access"], impl_out["geo"]
        bounds, strides, el = acc["bounds"], acc["strides"][i], acc["els"][i]
        nt = len(bounds) - geo["ntempl"]
        rel = geo["relevant"][i]
        n = el
        for b, r in zip(bounds, rel):
            n *= b if r else 1
        if n > MAX_BYTES:
            return None
        steps = []
        inner = [range(b) if r else range(1) for b, r in zip(bounds[nt:], rel[nt:])]
        for o in itertools.product(*[range(b) for b in bounds[:nt]]):
            base = sum(x * s for x, s in zip(o, strides[:nt]))
            st = []
            for p in itertools.product(*inner):
                a = base + sum(x * s for x, s in zip(p, strides[nt:]))
                st.extend(range(a, a + el))
            steps.append(st)
        return steps

    def layout_steps(self, case, impl_out, i):
        """bytes per schedule step according to the real memref layout map (xDSL) composed with the real pattern;
        all spatial iterations are enumerated (also the dimensions that are irrelevant for the operand)"""
        sch, _ = self._sched_op(case)
        s = impl_out["sched"]
        bounds = s["bounds"]
        el = s["ops"][i]["el"]
        nt = len(bounds) - impl_out["geo"]["ntempl"]
        n = el
        for b in bounds:
            n *= b
        if n > 4 * MAX_BYTES:
            return None, None, None
        lm = sch.operands[i].type.get_affine_map_in_bytes()
        pm = sch.patterns.data[i].data
        # the `offset` of a #tsl.tsl layout is part of the layout (element units) although TiledStridedLayoutAttr.get_affine_map
        # leaves it out; the streamed bytes are judged against the layout, so it is added here
        toff = s["ops"][i]["off"] * el if s["ops"][i].get("lkind") == "tsl" else 0
        import numpy as np
        st_i = impl_out["access"]["strides"][i]
        A_, b_ = s["ops"][i]["A"], s["ops"][i]["b"]
        cols = box_columns(bounds)
        idx = vec_eval(pm, cols)
        # is the schedule pattern itself the affine map A x + b (its unit response) on the box?
        affine = all(bool((r == sum(c * col for c, col in zip(row, cols)) + bb).all()) for r, row, bb in zip(idx, A_, b_))
        addr = vec_eval(lm, idx)[0] + toff
        linear = bool((addr == sum(col * si for col, si in zip(cols, st_i))).all())
        nsteps = 1
        for bd in bounds[:nt]:
            nsteps *= bd
        per = addr.reshape(nsteps, -1)
        ar = np.arange(el, dtype=np.int64)
        steps = [set((row[:, None] + ar).ravel().tolist()) for row in per]
        return steps, linear, affine

    _cache = {}

    def _sched_op(self, case):
        """the real dart.schedule op that enters layout resolution (re-created deterministically)"""
        from snaxc.dialects import dart
        key = json.dumps(case, sort_keys=True)
        if key not in self._cache:
            self._cache.clear()
            acc = VARIANTS[case["variant"]][0]
            src = mlir(case)
            if case["kind"] == "pipe":
                pre = f"insert-accfg-op{{accelerator={acc}}},dart-scheduler" + (
                    f",set-memory-layout{{tiled={case['sml']}}}" if case.get("sml") else "")
                src = run_passes(src, pre)
            m = parse(src)
            self._cache[key] = (find(m, dart.ScheduleOp)[0], m)
        return self._cache[key]

    # -- the property on the real code's output ---------------------------------------------
    def oracle(self, case, impl_out):
        if case["kind"] == "region":
            return []
        if case["kind"] == "multi":
            if "invalid_input" in impl_out:
                return []
            out = []
            for i, (sub, io) in enumerate(zip(case["ops"], impl_out["ops"])):
                for v in self.oracle_one(sub, io):
                    out.append(dict(v, what=f"op {i} of {len(case['ops'])} ({sub['variant']}) in a module with "
                                            f"{[x['variant'] for x in case['ops']]}: {v['what']}"))
            return out
        return self.oracle_one(case, impl_out)

    @staticmethod
    def compiler_chosen(case, i):
        """operand i of a `pipe` case gets its layout from the real set-memory-layout pass"""
        return case.get("kind") == "pipe" and bool(case.get("sml")) and case["operands"][i].get("layout") is None

    def oracle_one(self, case, impl_out):
        if "invalid_input" in impl_out or impl_out.get("final") is None:
            return []          # the real code refused the input (exception): an outcome, not a violation
        geo = impl_out["geo"]
        nops = len(impl_out["access"]["strides"])
        fidx = final_index(geo["variant"], nops)
        out = []
        for i in range(nops):
            if geo["bc"][i] and self._bcast_used(impl_out, i):
                continue
            pat = impl_out["final"][fidx[i]]
            dims = geo["all_dims"][fidx[i]] if len(geo["all_dims"]) == len(impl_out["final"]) else geo["dims"][i]
            # the streamer has `temporal_dim` hardware loops: a longer pattern cannot be programmed, the loops beyond
            # (the outermost ones) do not exist in the configuration (SNAXStreamer setup values are taken positionally)
            tdim = geo["streamers"][fidx[i]][0] if len(geo.get("streamers") or []) == len(impl_out["final"]) else None
            note = ""
            force_new = False
            if tdim is not None and len(pat["ub"]) > tdim:
                note = (f"the pattern has {len(pat['ub'])} temporal loops, streamer {fidx[i]} has only {tdim} (the region was "
                        f"accepted by the verifier); judged on the {tdim} loops the hardware has: ")
                pat = {"ub": pat["ub"][:tdim], "ts": pat["ts"][:tdim], "ss": pat["ss"]}
                force_new = True
            hw = hw_steps(pat, dims)
            if hw is None:
                continue
            if geo["variant"]["acc"] == "xdma_add" and i < 2:
                # one streamer fetches both inputs: innermost temporal loop (2, 512)
                if len(hw) % 2:
                    out.append({"what": f"xdma add: odd number of reader steps {len(hw)}", "finding": None})
                    continue
                hw = [[a - 512 * i for a in st] for st in hw[i::2]]
            tag = None
            if impl_out.get("sched"):
                sc, linear, affine = self.layout_steps(case, impl_out, i)
                if sc is None:
                    continue
                if not affine:
                    note += ("the schedule pattern is not an affine map (mod / floordiv term) but was accepted and "
                             "linearised: ")
                    force_new = True
                elif not linear and self.compiler_chosen(case, i):
                    # DC02a is about GIVEN layouts / offsets / biases; a layout that set-memory-layout itself attaches must keep
                    # every access of the schedule affine (layout resolution silently relies on it)
                    note += (f"the layout {impl_out['sched']['ops'][i]['lay']} was chosen by set-memory-layout{{tiled={case['sml']}}} "
                             f"and is not aligned with the schedule (layout o pattern is not linear on the iteration box): ")
                    force_new = True
                elif not linear:
                    tag = "DC02a"
            else:
                sc = self.access_steps(impl_out, i)
                if sc is None:
                    continue
                sc = [set(s) for s in sc]
            ok, why = regroup_equal(hw, sc)
            nhw = sum(len(s) for s in hw)
            # number of (relevant iteration, byte) pairs of the schedule: nothing may be fetched more or less often
            nsc = impl_out["access"]["els"][i]
            for bd, r in zip(impl_out["access"]["bounds"], geo["relevant"][i]):
                nsc *= bd if r else 1
            if ok and nhw != nsc:
                ok, why = False, f"hardware fetches {nhw} bytes in total, the schedule assigns {nsc} (skipped or duplicated)"
            if ok and geo["variant"]["acc"] == "xdma_add" and i == 0 and max((max(s) for s in sc if s), default=0) >= 512:
                ok, why, tag = False, "xdma add: the first input covers more than 512 bytes, the second input is fetched from " \
                                      "inside it (hard-coded 512-byte stride between the two inputs)", "DC02c"
            if ok:
                continue
            if tag is None and geo["variant"]["acc"] == "xdma_add" and i == 1:
                tag = "DC02c"      # the second input has no pattern / pointer of its own
            if tag is None:
                tag = self._classify(impl_out, i, nhw, nsc)
            if force_new:
                tag = None     # outside every listed finding: the unchanged tree refuses such an operation
            out.append({"what": f"operand {i}: {note}streamer pattern {pat} (ports {dims}) does not stream the scheduled elements: {why}; "
                                f"access strides {impl_out['access']['strides'][i]} bounds {impl_out['access']['bounds']}",
                        "finding": tag})
        return out

    @staticmethod
    def _inner(impl_out, i):
        acc, geo = impl_out["access"], impl_out["geo"]
        for d in reversed(range(len(acc["bounds"]))):
            if geo["relevant"][i][d]:
                return acc["strides"][i][d], acc["bounds"][d]
        return None, None

    def _bcast_used(self, impl_out, i):
        """a spatial stride 0 in the handed pattern of a HasBroadcast streamer: hardware broadcast, not judged"""
        return 0 in impl_out["handed"][i]["ss"] or (0 in impl_out["handed"][i]["ts"] and any(
            s == 0 and b > 1 and r for s, b, r in zip(impl_out["access"]["strides"][i], impl_out["access"]["bounds"],
                                                     impl_out["geo"]["relevant"][i])))

    def _classify(self, impl_out, i, nhw, nsc):
        """attribute a failure to a listed finding by a model-independent criterion on the real data"""
        s, b = self._inner(impl_out, i)
        el = impl_out["access"]["els"][i]
        if s is None:
            return None
        if s * b < 8:
            return "D29"       # the warning path: less than one bank in the innermost relevant dimension
        if s != el:
            return "DC02d"     # not contiguous although >= one bank: refused since fix FC02a (a hit is a regression)
        acc, geo = impl_out["access"], impl_out["geo"]
        want = el
        for bd, r in zip(acc["bounds"], geo["relevant"][i]):
            want *= bd if r else 1
        pat = impl_out["handed"][i]
        got = 8
        for u in pat["ub"]:
            got *= u
        for d, _ in zip(geo["dims"][i], pat["ss"]):
            got *= d
        if got != want:
            return "DC02b"     # a floor division of the conversion lost (or invented) part of the iteration space
        return None

    def nontrivial(self, case, impl_out):
        if "invalid_input" in impl_out:
            return False
        if case["kind"] == "region":
            return True
        if case["kind"] == "multi":
            return bool(impl_out.get("raised")) or all(o.get("final") for o in impl_out["ops"])
        if impl_out.get("raised"):
            return True
        return bool(impl_out.get("final")) and len(impl_out["access"]["bounds"]) > impl_out["geo"]["ntempl"]

    def stats_key(self, case, impl_out):
        if case["kind"] == "region":
            return f"region:{case['acc'][5:]}:{'ok' if impl_out.get('verified') else 'refused@' + str(impl_out.get('at'))}"
        if case["kind"] == "multi":
            accs = sorted({VARIANTS[x["variant"]][0] for x in case["ops"]})
            k = f"multi:{len(case['ops'])}ops:{'+'.join(a[5:] for a in accs)}"
            if "invalid_input" in impl_out:
                return "multi:invalid_input"
            return f"{k}:raised:{impl_out['raised']}" if impl_out.get("raised") else k
        k = f"{case['kind']}:{case['variant']}"
        if "invalid_input" in impl_out:
            return f"{case['kind']}:invalid_input"
        if impl_out.get("raised"):
            return f"{k}:raised:{impl_out['raised']}"
        return k

    def shrink(self, case):
        if case["kind"] == "region":
            for i in range(len(case["pats"])):
                yield dict(case, pats=case["pats"][:i] + case["pats"][i + 1:])
            return
        if case["kind"] == "multi":
            ops = case["ops"]
            if len(ops) > 2:
                for i in range(len(ops)):
                    yield dict(case, ops=ops[:i] + ops[i + 1:])
            for i, sub in enumerate(ops):
                for cand in self.shrink(sub):
                    yield dict(case, ops=ops[:i] + [cand] + ops[i + 1:])
            return
        if case["kind"] == "access":
            n = len(case["bounds"])
            nt = n - len(VARIANTS[case["variant"]][3])
            for d in range(nt):
                yield dict(case, bounds=case["bounds"][:d] + case["bounds"][d + 1:],
                           strides=[s[:d] + s[d + 1:] for s in case["strides"]])
            for d in range(n):
                if case["bounds"][d] > 1 and d < nt:
                    yield dict(case, bounds=case["bounds"][:d] + [case["bounds"][d] // 2] + case["bounds"][d + 1:])
        elif case["kind"] == "sched":
            n = case["ndims"]
            nt = n - len(VARIANTS[case["variant"]][3])
            for d in range(nt):
                if case["bounds"][d] == 1:
                    yield dict(case, ndims=n - 1, bounds=case["bounds"][:d] + case["bounds"][d + 1:],
                               operands=[dict(o, A=[r[:d] + r[d + 1:] for r in o["A"]]) for o in case["operands"]])
            for i, o in enumerate(case["operands"]):
                if o.get("layout") is not None:
                    # replace by row-major only when the shape stays valid for the pattern
                    yield dict(case, operands=case["operands"][:i] + [dict(o, layout=None)] + case["operands"][i + 1:])


PROP = C02()
