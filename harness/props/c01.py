"""C01 — configuration deduplication never changes what a launch observes."""
import random

import compat  # noqa: F401
import accfg_common as ac
import snaxrun
from framework import Prop

RULES = {"SimplifyRedundantSetupCalls": "simplify", "MergeSetupOps": "merge", "ElideEmptySetupOps": "elide",
         "PullSetupOpsOutOfLoops": "pull", "HoistSetupCallsIntoConditionals": "hoist", "dce": "dce", "fold": "fold"}


def model_path(real_path):
    """[(region, block, op index)…] from the module -> [i0, r1, i1, …] inside the function body"""
    out = []
    for k, (r, b, i) in enumerate(real_path[1:]):
        if b != 0:
            raise ac.Unsupported("multi-block region")
        if k > 0:
            out.append(r)
        out.append(i)
    return out


def canon_dex(d):
    import json
    return json.dumps(d or [], sort_keys=True)


def convert(text, carried=True):
    mod = snaxrun.parse(text)
    f = ac.find_func(mod)
    conv = ac.Conv(f, carried=carried)
    return mod, f, conv


class C01(Prop):
    id = "C01"
    PARALLEL = True
    USES_IMPL = True
    CASE_TIMEOUT = 60
    step_cov = __import__("collections").Counter()
    rule = ("random full-field programs (the lowering's form) with nested scf.for/scf.if/calls/arith, traced by the real "
            "accfg-trace-states; every individual rewrite of accfg-dedup is replayed through the model; non-trivial = dedup performed "
            "at least one rewrite inside control flow")
    trusted_base = [
        "modelled: the five patterns of accfg_dedup.py as functions on the erased program (Model/AccfgRules.lean); the greedy driver's order is "
        "not modelled: every real rewrite step is replayed through the model rule and must reproduce the real result",
    ]
    assumptions = ["as C07"]

    def cases(self, rng, tier):
        n = 200 if tier == "quick" else 2500
        for i in range(n):
            g = ac.Gen(random.Random(rng.getrandbits(48)), full=True, depth=rng.choice([1, 2, 2, 3]),
                       carried=rng.choice([0.0, 0.0, 0.0, 0.5]))
            if i % 5 >= 3:
                # redundancy-heavy programs (configurations re-used, restored, changed in one field) around one accelerator with
                # control flow that drives only the other one in between: the shapes the dedup patterns' legality checks are about
                g.accs = ac.ACCS
                g.scope_accs = [g.accs]
                g.focus = True
                g.sticky = rng.choice([0.5, 0.8])
            g.before = i % 7 == 5  # another function in front of @f: every function is optimised as if it were alone
            g.callee = i % 7 == 3
            g.statearg = i % 11 == 7
            g.opaque = 0.6 if i % 9 == 4 else 0.0
            if i % 7 == 1:
                g.readcall = 0.3  # calls that return a value (impure inputs of setups): oracle only
            yield {"kind": "dedup", "src": g.program(), "xseed": rng.getrandbits(32)}
        for i in range(60 if tier == "quick" else 900):
            yield {"kind": "dedup", "src": ac.hoist_chain_program(random.Random(rng.getrandbits(48))), "xseed": rng.getrandbits(32)}
        for i in range(20 if tier == "quick" else 300):
            # more of the focused form, shallow: setup/launch pairs of one accelerator separated by conditionals / loops that drive
            # it or only the other accelerator (the legality checks of hoisting and merging look ACROSS such statements)
            g = ac.Gen(random.Random(rng.getrandbits(48)), full=True, depth=rng.choice([1, 1, 2]), carried=0.0)
            g.accs = ac.ACCS
            g.scope_accs = [g.accs]
            g.focus = True
            g.sticky = rng.choice([0.5, 0.8])
            yield {"kind": "dedup", "src": g.program(), "xseed": rng.getrandbits(32)}
        for i in range(100 if tier == "quick" else 1500):
            # small single-accelerator programs over three configurations (alternating / restoring inside a loop)
            yield {"kind": "dedup", "src": ac.redundancy_program(random.Random(rng.getrandbits(48))), "xseed": rng.getrandbits(32)}

        import accfg_links as al
        for i in range(20 if tier == "quick" else 300):
            # loops that already carry a state they only pass through (see C07); full-field setups, like every C01 program: a
            # launch that runs before some field was ever written observes an unspecified register, outside the quantifier
            yield {"kind": "dedup", "src": al.passthrough_program(random.Random(rng.getrandbits(48)), full=True), "xseed": rng.getrandbits(32)}

    def extra_search_cases(self, rng, tier):
        while True:
            yield {"kind": "dedup", "src": ac.redundancy_program(random.Random(rng.getrandbits(48))), "xseed": rng.getrandbits(32)}
            g = ac.Gen(random.Random(rng.getrandbits(48)), full=True, depth=2, carried=0.0)
            g.accs = ac.ACCS
            g.scope_accs = [g.accs]
            g.focus = True
            g.sticky = 0.8
            yield {"kind": "dedup", "src": g.program(), "xseed": rng.getrandbits(32)}

    def impl(self, case):
        try:
            _m = snaxrun.parse(case["src"])
            _m.verify()
            if not ac.well_formed_regions(_m):
                return {"invalid_input": "region without matching yield"}
        except Exception as e:
            return {"invalid_input": type(e).__name__}
        traced = snaxrun.run_passes(case["src"], "accfg-trace-states")
        log = []
        with snaxrun.log_greedy_steps(log):
            out = snaxrun.run_passes(traced, "accfg-dedup")
        steps = []
        prev_after = None
        chain_ok = True
        dexecs = []
        for (name, path, before, after, *_rest) in log:
            try:
                mb, _, cb = convert(before)
                _, _, ca = convert(after)
                mp = cb.map_path(path, mb)
            except ac.Unsupported as e:
                return {"unmodelled": str(e), "n_steps": len(log)}  # outside the model's IR fragment: oracle only
            from props.c07 import eval_cost, EVAL_LIMIT
            if eval_cost(cb.body) > EVAL_LIMIT:
                # the driver's closure-based evaluator would need minutes on this program (deep nests of loops / conditionals):
                # judged by the oracle only, so that a loaded machine cannot turn it into a driver time-out
                return {"unmodelled": "evaluator cost", "n_steps": len(log)}
            if prev_after is not None and prev_after != before:
                chain_ok = False
            prev_after = after
            rule = RULES.get(name, name)
            j = 0
            if rule == "pull":  # anchored at the loop; j = index of the matched setup in the loop body
                j = mp[-1]
                mp = mp[:-2]
            steps.append({"rule": rule, "path": mp, "j": j, "before": cb.program(), "carried": bool(cb.has_carried or ca.has_carried),
                          "points": ac.real_inference_at_points(cb), "after": ca.program()})
        if log and log[-1][3].strip() != out.strip() and snaxrun.text(snaxrun.parse(out)).strip() != snaxrun.text(snaxrun.parse(log[-1][3])).strip():
            chain_ok = False
        # the desugaring of carried values is validated by execution: the model's CSR machine on the desugared input and output
        # of the pass against the harness machine on the real IR
        if steps and (steps[0]["carried"] or steps[-1]["carried"]):
            for which, text_ in ((0, log[0][2]), (1, log[-1][3])):
                m_, f_, c_ = convert(text_)
                for args in ac.executions(random.Random(case["xseed"] + which), 3):
                    try:
                        tr = ac.run_func(f_, args, calltag=c_.calltag, universe=c_.universe())
                    except ac.Undefined:
                        continue
                    dexecs.append({"prog": c_.program(), "args": args, "trace": c_.trace_json(tr)})
        return {"steps": steps, "chain_ok": chain_ok, "n_steps": len(steps), "dexecs": dexecs}

    def requests(self, case, impl_out):
        if "steps" not in impl_out:
            return []
        reqs = []
        for s in impl_out["steps"]:
            reqs.append({"fn": "c01.step", "args": {"rule": s["rule"], "path": s["path"], "j": s["j"], "body": s["before"]["body"],
                                                    "fields": s["before"]["fields"]}})
        for e in impl_out.get("dexecs", []):
            reqs.append({"fn": "c07.exec", "args": {"body": e["prog"]["body"], "fields": e["prog"]["fields"], "args": e["args"],
                                                    "init": ac.INIT}})
        return reqs

    def model(self, case, answers, impl_out):
        if "steps" not in impl_out:
            return impl_out
        steps = []
        for s, a in zip(impl_out["steps"], answers):
            if s.get("carried"):
                # loop-carried data values / conditional data results are desugared by the converter; the replay of such a step is
                # best effort: a step the model rule reproduces (with all side conditions) counts as certified, one it does not is
                # validated by the oracle only — never a disagreement (the desugaring, not the code, may be what differs)
                ok = ("ok" in a and a["ok"]["after"] is not None and a["ok"].get("side", True) and a["ok"]["wf"] and a["ok"]["nodup"]
                      and ac.canon_ast(a["ok"]["after"]) == ac.canon_ast(s["after"]["body"])
                      and [sorted(p) for p in a["ok"]["points"]] == s["points"])
                self.step_cov["carried_steps_certified" if ok else "carried_steps_oracle_only"] += 1
                steps.append(s)
                continue
            self.step_cov["steps_certified"] += 1
            if "err" in a:
                return {"model_error": a["err"], "rule": s["rule"]}
            r = a["ok"]
            if r["after"] is None:
                return {"model_error": f"model rule {s['rule']} not applicable at {s['path']}", "step": s}
            if not r.get("side", True):
                return {"model_error": f"side condition of the step theorem (pull: every launch stays total; dce: results unused) fails on this step", "step": s}
            if not r["wf"] or not r["nodup"]:
                return {"model_error": "program violates the theorems' well-formedness predicate"}
            ms = dict(s)
            ms["after"] = dict(s["after"], body=r["after"])
            ms["points"] = [sorted(p) for p in r["points"]]
            steps.append(ms)
        dex = []
        for e, a in zip(impl_out.get("dexecs", []), answers[len(impl_out["steps"]):]):
            dex.append(dict(e, trace=a.get("ok", a)))
            self.step_cov["desugared_programs_executed_by_model"] += 1
        return {"steps": steps, "chain_ok": True, "n_steps": len(steps), "dexecs": dex}

    def compare(self, case, impl_out, model_out):
        if "steps" not in impl_out or "steps" not in model_out:
            return None if impl_out == model_out else "outputs differ"
        if not impl_out["chain_ok"]:
            return "logged rewrite steps do not chain up to the pass output"
        if canon_dex(impl_out.get("dexecs")) != canon_dex(model_out.get("dexecs")):
            return "the model's execution of a desugared program (carried values) differs from the execution of the real IR"
        for k, (a, b) in enumerate(zip(impl_out["steps"], model_out["steps"])):
            if a["points"] != b["points"]:
                return f"step {k} ({a['rule']}): infer_state_of differs from the model's facts in the IR before the step"
            if ac.canon_ast(a["after"]["body"]) != ac.canon_ast(b["after"]["body"]):
                return f"step {k} ({a['rule']} at {a['path']}): model rule does not reproduce the real rewrite"
        return None

    def extra_coverage(self):
        return {"rewrite_steps": dict(self.step_cov),
                "note": "steps_certified = real rewrite steps reproduced by the model rule with every hypothesis of its step theorem "
                        "evaluated true (a failure is a disagreement); carried_* = steps of programs with loop-carried data values / "
                        "conditional data results (desugared into casts by the converter): certified when the replay succeeds, oracle "
                        "only otherwise"}

    def oracle(self, case, impl_out):
        if "invalid_input" in impl_out:
            return []
        if "raised" in impl_out:
            return [{"what": f"accfg-trace-states,accfg-dedup raised {impl_out['raised']}: {impl_out.get('msg')}", "finding": None}]
        traced = snaxrun.run_passes(case["src"], "accfg-trace-states")
        out = snaxrun.run_passes(traced, "accfg-dedup")
        try:
            m2 = snaxrun.parse(out)
            m2.verify()
        except Exception as e:
            return [{"what": f"accfg-dedup output is not valid IR: {type(e).__name__}: {str(e)[:200]}", "finding": None}]
        f1 = ac.find_func(snaxrun.parse(traced))
        f2 = ac.find_func(m2)
        for args in ac.executions(random.Random(case["xseed"]), 14):
            t1 = ac.run_func(f1, args)
            try:
                t2 = ac.run_func(f2, args)
            except ac.Undefined as e:
                return [{"what": f"deduplicated program {e} (args={args})", "finding": None}]
            if t1 != t2:
                k = next((i for i, (x, y) in enumerate(zip(t1, t2)) if x != y), min(len(t1), len(t2)))
                return [{"what": f"launch trace differs at event {k}: original {t1[k] if k < len(t1) else None} deduplicated "
                                 f"{t2[k] if k < len(t2) else None} (args={args})", "finding": None}]
        return []

    def nontrivial(self, case, impl_out):
        return impl_out.get("n_steps", 0) > 0 and ("scf.for" in case["src"] or "scf.if" in case["src"])

    def stats_key(self, case, impl_out):
        if "steps" in impl_out:
            ks = sorted({s["rule"] for s in impl_out["steps"]})
            return "dedup:" + "+".join(ks)
        if "unmodelled" in impl_out:
            return "dedup:oracle-only(" + impl_out["unmodelled"] + ")"
        return super().stats_key(case, impl_out)

    def mutants(self, case, rng):
        return ac.mutants(case, rng) if "src" in case else iter(())

    def shrink(self, case):
        if "src" not in case:
            return
        for t in ac.shrink_src(case["src"]):
            yield dict(case, src=t)
        lines = case["src"].split("\n")
        for i, l in enumerate(lines):
            if "accfg.setup" in l and i + 2 < len(lines) and "accfg.await" in lines[i + 2]:
                yield dict(case, src="\n".join(lines[:i] + lines[i + 3:]))
            elif ("arith." in l or "func.call" in l) and "%lv" not in l and "index_cast" not in l:
                yield dict(case, src="\n".join(lines[:i] + lines[i + 1:]))


PROP = C01()
